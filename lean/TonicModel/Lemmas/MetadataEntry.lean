import TonicModel.Model.MetadataEntry
import TonicModel.Spec.MetadataEntry
import TonicModel.Lemmas.Metadata
/-
Lemmas for the entry-API theorems of C08: a resolved key carries the category of its stored name,
every event of one step is in that category, and a step adds to the map only what a `wrote`
event announces.
-/
set_option linter.unusedSimpArgs false
set_option linter.unusedVariables false

namespace Metadata
open Status (Variant)
open MetaOps
open Spec.Metadata.EntryApi (evOk)

theorem isBinKey_fixed_of_norm (src n : Bytes) (h : HMap.normName src = some n) :
    isBinKey .fixed n = Spec.Metadata.isBinName n := by
  have hlow := normName_lower src n h
  unfold isBinKey
  simp only []
  rw [hlow, map_toLower_idem, ← hlow, endsWith_bin_iff]

theorem validKey_fixed_encOf (b : Bool) (x : Bytes) :
    validKey .fixed (encOf b) x = (b == isBinKey .fixed x) := by
  cases b <;> simp [encOf, validKey]

/-- **A resolved key has the category of the method family that resolved it** (repaired suffix
test), whichever of the five key forms was used and however the key was spelled. -/
theorem resolveKey_category (b : Bool) (kf : KeyForm) (key n : Bytes)
    (h : resolveKey .fixed (encOf b) kf key = some n) : b = Spec.Metadata.isBinName n := by
  unfold resolveKey at h
  by_cases ht : kf.isTyped = true
  · simp only [ht, if_true] at h
    unfold keyFromBytes at h
    cases hn : HMap.normName key with
    | none => simp [hn] at h
    | some n' =>
      simp only [hn] at h
      by_cases hv : validKey .fixed (encOf b) n' = true
      · simp only [hv, if_true, Option.some.injEq] at h
        subst h
        rw [validKey_fixed_encOf, isBinKey_fixed_of_norm key n' hn] at hv
        simpa using hv
      · simp [hv] at h
  · simp only [ht, Bool.false_eq_true, if_false] at h
    by_cases hv : validKey .fixed (encOf b) key = true
    · simp only [hv, if_true] at h
      rw [validKey_fixed_encOf, isBinKey_fixed_norm key n h] at hv
      simpa using hv
    · simp [hv] at h

theorem keyFromBytes_category (b : Bool) (key n : Bytes)
    (h : keyFromBytes .fixed (encOf b) key = some n) : b = Spec.Metadata.isBinName n :=
  resolveKey_category b .typed key n (by simpa [resolveKey, KeyForm.isTyped] using h)

/-- a value built in category `b` is restored by that category's `to_bytes` -/
theorem decodeAs_valueFromBytes (b : Bool) (raw w : Bytes) (h : valueFromBytes (encOf b) raw = some w) :
    decodeAs b w = some raw := by
  cases b with
  | false =>
    simp only [encOf, Bool.false_eq_true, if_false, valueFromBytes] at h
    split at h
    · cases h; simp [decodeAs]
    · cases h
  | true =>
    simp only [encOf, if_true, valueFromBytes, Option.some.injEq] at h
    subst h
    simp [decodeAs, B64.decode_encode]

theorem evOk_wrote (b : Bool) (n raw w : Bytes) (hb : b = Spec.Metadata.isBinName n)
    (h : valueFromBytes (encOf b) raw = some w) : evOk (.wrote b n raw w) = true := by
  simp [evOk, ← hb, decodeAs_valueFromBytes b raw w h]

theorem evOk_vals (api : String) (b : Bool) (n : Bytes) (hb : b = Spec.Metadata.isBinName n) (l : List Bytes) :
    ∀ ev ∈ l.map (Ev.val api b n), evOk ev = true := by
  intro ev hev
  obtain ⟨w, _, rfl⟩ := List.mem_map.mp hev
  simp [evOk, ← hb]

/-! ### events of one step -/

theorem occStep_ok (n : Bytes) (b : Bool) (hb : b = Spec.Metadata.isBinName n) (u : OccUse) (m : HMap) :
    ∀ ev ∈ (occStep n b u m).1, evOk ev = true := by
  unfold occStep
  cases HMap.get n m with
  | none => intro ev hev; simp at hev; subst hev; rfl
  | some first =>
    have hk : ∀ api, evOk (.key api b n) = true := by intro api; simp [evOk, ← hb]
    have hv : ∀ api w, evOk (.val api b n w) = true := by intro api w; simp [evOk, ← hb]
    cases u with
    | key => intro ev hev; simp at hev; subst hev; exact hk _
    | get => intro ev hev; simp at hev; subst hev; exact hv _ _
    | getMut => intro ev hev; simp at hev; subst hev; exact hv _ _
    | insert raw =>
      simp only []
      cases hw : valueFromBytes (encOf b) raw with
      | none => intro ev hev; simp at hev; subst hev; rfl
      | some w =>
        intro ev hev
        simp at hev
        rcases hev with rfl | rfl
        · exact evOk_wrote b n raw w hb hw
        · exact hv _ _
    | insertMult raw =>
      simp only []
      cases hw : valueFromBytes (encOf b) raw with
      | none => intro ev hev; simp at hev; subst hev; rfl
      | some w =>
        simp only []
        split
        · intro ev hev; simp at hev; subst hev; rfl
        · intro ev hev
          rcases List.mem_cons.mp hev with rfl | h2
          · exact evOk_wrote b n raw w hb hw
          · exact evOk_vals _ b n hb _ ev h2
    | append raw =>
      simp only []
      cases hw : valueFromBytes (encOf b) raw with
      | none => intro ev hev; simp at hev; subst hev; rfl
      | some w =>
        intro ev hev
        simp at hev
        subst hev
        exact evOk_wrote b n raw w hb hw
    | iter => exact evOk_vals _ b n hb _
    | iterMut => exact evOk_vals _ b n hb _
    | intoIter => exact evOk_vals _ b n hb _
    | intoMut => intro ev hev; simp at hev; subst hev; exact hv _ _
    | remove => intro ev hev; simp at hev; subst hev; exact hv _ _
    | removeEntry =>
      intro ev hev; simp at hev
      rcases hev with rfl | rfl
      · exact hk _
      · exact hv _ _
    | removeEntryMult =>
      intro ev hev
      rcases List.mem_cons.mp hev with rfl | h2
      · exact hk _
      · exact evOk_vals _ b n hb _ ev h2

theorem occRun_ok (n : Bytes) (b : Bool) (hb : b = Spec.Metadata.isBinName n) (us : List OccUse) (m : HMap) :
    ∀ ev ∈ (occRun n b us m).1, evOk ev = true := by
  induction us generalizing m with
  | nil => intro ev hev; simp [occRun] at hev
  | cons u us ih =>
    intro ev hev
    unfold occRun at hev
    by_cases ht : u.terminal = true
    · simp only [ht, if_true] at hev
      exact occStep_ok n b hb u m ev hev
    · simp only [ht, Bool.false_eq_true, if_false] at hev
      rcases List.mem_append.mp hev with h1 | h2
      · exact occStep_ok n b hb u m ev h1
      · exact ih _ ev h2

theorem entryOp_ok (b : Bool) (kf : KeyForm) (key : Bytes) (use : EntryUse) (m : HMap) :
    ∀ ev ∈ (entryOp .fixed .fixed b kf key use m).1, evOk ev = true := by
  unfold entryOp
  cases hr : resolveKey .fixed (encOf b) kf key with
  | none => intro ev hev; simp at hev; subst hev; rfl
  | some n =>
    have hb := resolveKey_category b kf key n hr
    have hk : ∀ api, evOk (.key api b n) = true := by intro api; simp [evOk, ← hb]
    have hv : ∀ api w, evOk (.val api b n w) = true := by intro api w; simp [evOk, ← hb]
    have hn : ∀ t, evOk (.note t) = true := fun _ => rfl
    simp only []
    cases use with
    | orInsert raw =>
      simp only []
      cases hw : valueFromBytes (encOf b) raw with
      | none =>
        intro ev hev; simp at hev
        rcases hev with rfl | rfl | rfl <;> first | exact hn _ | exact hk _
      | some w =>
        have hwr := evOk_wrote b n raw w hb hw
        cases HMap.get n m with
        | none =>
          intro ev hev; simp at hev
          rcases hev with rfl | rfl | rfl | rfl <;> first | exact hn _ | exact hk _ | exact hwr | exact hv _ _
        | some cur =>
          intro ev hev; simp at hev
          rcases hev with rfl | rfl | rfl <;> first | exact hn _ | exact hk _ | exact hv _ _
    | orInsertWith raw =>
      simp only []
      cases hw : valueFromBytes (encOf b) raw with
      | none =>
        intro ev hev; simp at hev
        rcases hev with rfl | rfl | rfl <;> first | exact hn _ | exact hk _
      | some w =>
        have hwr := evOk_wrote b n raw w hb hw
        cases HMap.get n m with
        | none =>
          intro ev hev; simp at hev
          rcases hev with rfl | rfl | rfl | rfl | rfl <;> first | exact hn _ | exact hk _ | exact hwr | exact hv _ _
        | some cur =>
          intro ev hev; simp at hev
          rcases hev with rfl | rfl | rfl | rfl <;> first | exact hn _ | exact hk _ | exact hv _ _
    | branch vac occ =>
      simp only []
      by_cases ho : HMap.hasKey n m = true
      · simp only [ho, if_true]
        intro ev hev
        rcases List.mem_append.mp hev with h1 | h2
        · simp at h1
          rcases h1 with rfl | rfl <;> first | exact hn _ | exact hk _
        · exact occRun_ok n b hb occ m ev h2
      · simp only [ho, Bool.false_eq_true, if_false]
        cases vac with
        | nothing =>
          intro ev hev; simp at hev
          rcases hev with rfl | rfl <;> first | exact hn _ | exact hk _
        | key =>
          intro ev hev; simp at hev
          rcases hev with rfl | rfl | rfl <;> first | exact hn _ | exact hk _
        | intoKey =>
          intro ev hev; simp at hev
          rcases hev with rfl | rfl | rfl <;> first | exact hn _ | exact hk _
        | insert raw =>
          simp only []
          cases hw : valueFromBytes (encOf b) raw with
          | none =>
            intro ev hev; simp at hev
            rcases hev with rfl | rfl | rfl <;> first | exact hn _ | exact hk _
          | some w =>
            have hwr := evOk_wrote b n raw w hb hw
            intro ev hev; simp at hev
            rcases hev with rfl | rfl | rfl | rfl <;> first | exact hn _ | exact hk _ | exact hwr | exact hv _ _
        | insertEntry raw =>
          simp only []
          cases hw : valueFromBytes (encOf b) raw with
          | none =>
            intro ev hev; simp at hev
            rcases hev with rfl | rfl | rfl <;> first | exact hn _ | exact hk _
          | some w =>
            have hwr := evOk_wrote b n raw w hb hw
            intro ev hev
            simp only [insertEntryHandle] at hev
            rcases List.mem_append.mp hev with h1 | h2
            · simp at h1
              rcases h1 with rfl | rfl | rfl | rfl <;> first | exact hn _ | exact hk _ | exact hwr
            · exact occRun_ok n b hb occ _ ev h2

theorem step_ok (op : Op) (m : HMap) : ∀ ev ∈ (step .fixed .fixed op m).1, evOk ev = true := by
  cases op with
  | insert b key raw =>
    simp only [step]
    cases hk : keyFromBytes .fixed (encOf b) key with
    | none => intro ev hev; simp at hev; subst hev; rfl
    | some n =>
      have hb := keyFromBytes_category b key n hk
      simp only []
      cases hw : valueFromBytes (encOf b) raw with
      | none => intro ev hev; simp at hev; subst hev; rfl
      | some w =>
        intro ev hev
        rcases List.mem_cons.mp hev with rfl | h2
        · exact evOk_wrote b n raw w hb hw
        · cases hg : HMap.get n m with
          | none => simp [hg] at h2; subst h2; rfl
          | some p => simp [hg] at h2; subst h2; simp [evOk, ← hb]
  | append b key raw =>
    simp only [step]
    cases hk : keyFromBytes .fixed (encOf b) key with
    | none => intro ev hev; simp at hev; subst hev; rfl
    | some n =>
      have hb := keyFromBytes_category b key n hk
      simp only []
      cases hw : valueFromBytes (encOf b) raw with
      | none => intro ev hev; simp at hev; subst hev; rfl
      | some w =>
        intro ev hev
        simp at hev
        rcases hev with rfl | rfl
        · exact evOk_wrote b n raw w hb hw
        · rfl
  | remove b key =>
    simp only [step]
    cases hr : resolveKey .fixed (encOf b) .str key with
    | none => intro ev hev; simp at hev; subst hev; rfl
    | some n =>
      have hb := resolveKey_category b .str key n hr
      simp only []
      cases HMap.get n m with
      | none => intro ev hev; simp at hev; subst hev; rfl
      | some w => intro ev hev; simp at hev; subst hev; simp [evOk, ← hb]
  | getAll b kf key =>
    simp only [step]
    cases hr : resolveKey .fixed (encOf b) kf key with
    | none => intro ev hev; simp at hev; subst hev; rfl
    | some n =>
      have hb := resolveKey_category b kf key n hr
      intro ev hev
      simp only [] at hev
      rcases List.mem_cons.mp hev with rfl | h2
      · rfl
      · rcases List.mem_append.mp h2 with h3 | h3
        · rcases List.mem_append.mp h3 with h4 | h4
          · exact evOk_vals _ b n hb _ ev h4
          · exact evOk_vals _ b n hb _ ev h4
        · exact evOk_vals _ b n hb _ ev h3
  | entry b kf key use => exact entryOp_ok b kf key use m

theorem run_ok (ops : List Op) (m : HMap) :
    ∀ s ∈ run .fixed .fixed ops m, ∀ ev ∈ s.1, evOk ev = true := by
  induction ops generalizing m with
  | nil => intro s hs; simp [run] at hs
  | cons op ops ih =>
    intro s hs
    simp only [run, List.mem_cons] at hs
    rcases hs with rfl | h2
    · exact step_ok op m
    · exact ih _ s h2

end Metadata
