import TonicModel.Lemmas.BalanceSpecMain
/-
Load-balanced channel (C14): the run-level facts for scripts observed PAST a hang
(`Balance.runAll`, `Spec.Balance.clausesAll`) — review round 4, finding lr5-7: `Balance.run` and
`Spec.Balance.clauses` end the observation at the first hang.
-/
namespace Balance
open ConnScript BalScript Reconnect
open Spec.Balance (O)

/-- `run` is `runAll` cut after the first hang. -/
theorem run_prefix_runAll (ops : List BOp) : ∀ (s : B) (chs : List Choice),
    run s ops chs <+: runAll s ops chs := by
  induction ops with
  | nil => intro s chs; simp [run, runAll]
  | cons op ops ih =>
    intro s chs
    cases op with
    | call =>
      simp only [run, runAll]
      split
      · exact List.prefix_cons_inj _ |>.2 (List.nil_prefix)
      · exact List.prefix_cons_inj _ |>.2 (ih _ _)
    | up k => simpa [run, runAll] using ih (env s (.up k)) chs
    | down k => simpa [run, runAll] using ih (env s (.down k)) chs
    | insert k => simpa [run, runAll] using ih (env s (.insert k)) chs
    | remove k => simpa [run, runAll] using ih (env s (.remove k)) chs

/-- Every call of every script, observed past any hang: if the channel had an endpoint when the
call was issued, the call got a result of its own. -/
theorem runAll_definite (ops : List BOp) : ∀ (s : B) (chs : List Choice), s.lazyEps = true → (∀ e ∈ s.eps, Lz e) →
    ∀ p ∈ runAll s ops chs, 0 < p.1 → p.2.definite = true := by
  induction ops with
  | nil => intro s chs _ _ p hp; simp [runAll] at hp
  | cons op ops ih =>
    intro s chs hl h p hp
    cases op with
    | call =>
      simp only [runAll, List.mem_cons] at hp
      rcases hp with rfl | hp
      · intro hm; exact call_definite s _ h hm
      · exact ih _ _ (by rw [call_lazyEps]; exact hl) (call_lz s _ h) p hp
    | up k =>
      exact ih (env s (.up k)) chs (by rw [env_lazyEps]; exact hl) (env_lz s _ hl h) p (by simpa [runAll] using hp)
    | down k =>
      exact ih (env s (.down k)) chs (by rw [env_lazyEps]; exact hl) (env_lz s _ hl h) p (by simpa [runAll] using hp)
    | insert k =>
      exact ih (env s (.insert k)) chs (by rw [env_lazyEps]; exact hl) (env_lz s _ hl h) p (by simpa [runAll] using hp)
    | remove k =>
      exact ih (env s (.remove k)) chs (by rw [env_lazyEps]; exact hl) (env_lz s _ hl h) p (by simpa [runAll] using hp)

/-- Every run of the model observed past any hang, under every sequence of choices of the balancer,
satisfies every clause of the oracle. -/
theorem runAll_spec (ops : List BOp) : ∀ (os : List O) (s : B) (chs : List Choice), s.lazyEps = true →
    A2 RelQ os s.eps → KeysNodup os →
    (Spec.Balance.clausesAll os ops ((runAll s ops chs).map fun p => p.2.obs)).all (·.2) = true := by
  induction ops with
  | nil => intro os s chs _ _ _; simp [runAll, Spec.Balance.clausesAll]
  | cons op ops ih =>
    intro os s chs hl a hn
    cases op with
    | up k =>
      simp only [runAll, Spec.Balance.clausesAll]
      exact ih _ (env s (.up k)) chs (by rw [env_lazyEps]; exact hl) (env_relq s _ hl a) (keysNodup_env _ hn)
    | down k =>
      simp only [runAll, Spec.Balance.clausesAll]
      exact ih _ (env s (.down k)) chs (by rw [env_lazyEps]; exact hl) (env_relq s _ hl a) (keysNodup_env _ hn)
    | insert k =>
      simp only [runAll, Spec.Balance.clausesAll]
      exact ih _ (env s (.insert k)) chs (by rw [env_lazyEps]; exact hl) (env_relq s _ hl a) (keysNodup_env _ hn)
    | remove k =>
      simp only [runAll, Spec.Balance.clausesAll]
      exact ih _ (env s (.remove k)) chs (by rw [env_lazyEps]; exact hl) (env_relq s _ hl a) (keysNodup_env _ hn)
    | call =>
      have ac := atCall_relc a
      have hsv := call_served s (chs.headD ⟨[], 0⟩) ac
      have hlz : ∀ e ∈ s.eps, Lz e := by
        intro e he
        have : ∀ {os : List O} {eps : List EP}, A2 RelQ os eps → ∀ e ∈ eps, Lz e := by
          intro os eps a
          induction a with
          | nil => intro e he; cases he
          | cons p _ ih =>
            intro e he
            rcases List.mem_cons.1 he with rfl | he
            · exact p.lz
            · exact ih e he
        exact this a e he
      have hcnt : (Spec.Balance.membersOf (Spec.Balance.atCall os)).length = members s.eps :=
        membersOf_length (fun _ _ p => p.rel.member) ac
      have hcl : (Spec.Balance.callClauses (Spec.Balance.atCall os) (call s (chs.headD ⟨[], 0⟩)).2.obs).all (·.2) = true := by
        apply callClauses_ok
        · intro hh
          have : members s.eps = 0 := by
            cases hm : members s.eps with
            | zero => rfl
            | succ n =>
              have := call_definite s (chs.headD ⟨[], 0⟩) hlz (by omega)
              rw [hh] at this; cases this
          rw [this] at hcnt
          exact List.eq_nil_of_length_eq_zero hcnt
        · intro hh
          obtain ⟨o, e, m, ok, _⟩ := hsv.2 hh
          exact ⟨o, m.left, ok⟩
      simp only [runAll, List.map_cons, Spec.Balance.clausesAll, List.all_append, hcl, Bool.true_and]
      exact ih _ _ _ (by rw [call_lazyEps]; exact hl)
        (afterCall_relq _ hsv.1 hsv.2 (keysNodup_atCall hn))
        (keysNodup_afterCall _ (keysNodup_atCall hn))

theorem runAll_spec_init (ops : List BOp) (chs : List Choice) :
    Spec.Balance.holdsAll ops ((runAll (B.init true) ops chs).map fun p => p.2.obs) = true :=
  runAll_spec ops [] (B.init true) chs rfl .nil (by simp [KeysNodup])

end Balance
