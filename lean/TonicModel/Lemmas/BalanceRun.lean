import TonicModel.Lemmas.Balance
/-
Load-balanced channel (C14): one whole call, the script's own steps, whole scripts.
-/
namespace Balance
open ConnScript BalScript Reconnect

/-- who is in the channel: the keys with their membership flag, in list order -/
def table (eps : List EP) : List (Nat × Bool) := eps.map fun e => (e.key, e.member)

theorem members_table (eps : List EP) : members eps = ((table eps).filter (·.2)).length := by
  induction eps with
  | nil => rfl
  | cons e es ih =>
    simp only [members, table, List.filter_cons, List.map_cons] at ih ⊢
    cases e.member <;> simp [ih]

theorem members_pos (eps : List EP) : 0 < members eps ↔ ∃ e ∈ eps, e.member = true := by
  simp [members, List.length_pos_iff, List.filter_eq_nil_iff]

/-- a lazy endpoint stays a lazy endpoint of the channel, whatever happens to it during calls -/
theorem ev_lz {a b : EP} (h : Ev a b) (ha : Lz a) : Lz b ∧ b.key = a.key ∧ b.member = a.member := by
  refine Ev.keeps (P := fun b => Lz b ∧ b.key = a.key ∧ b.member = a.member) ?_ ?_ ?_ h ⟨ha, rfl, rfl⟩
  · rintro e ⟨hl, hk, hm⟩
    exact ⟨(advance_lz e hl).1, by rw [advance_key, hk], by rw [(advance_lz e hl).2, hm]⟩
  · rintro e ⟨hl, hk, hm⟩
    exact ⟨(tryOne_lz e hl).1, by rw [tryOne_key, hk], by rw [(tryOne_lz e hl).2, hm]⟩
  · rintro e ⟨hl, hk, hm⟩
    exact ⟨hl, hk, hm⟩

theorem pw_lz {as bs : List EP} (h : PW as bs) (ha : ∀ e ∈ as, Lz e) : ∀ e ∈ bs, Lz e :=
  h.forall (fun _ _ ev hl => (ev_lz ev hl).1) ha

theorem pw_table {as bs : List EP} (h : PW as bs) (ha : ∀ e ∈ as, Lz e) : table bs = table as := by
  unfold table
  exact h.map_eq (P := Lz) (fun a b ev hl => by rw [(ev_lz ev hl).2.1, (ev_lz ev hl).2.2]) ha

theorem pw_members {as bs : List EP} (h : PW as bs) (ha : ∀ e ∈ as, Lz e) : members bs = members as := by
  rw [members_table, members_table, pw_table h ha]

/-! ### one call -/

theorem call_lz (s : B) (ch : Choice) (h : ∀ e ∈ s.eps, Lz e) : ∀ e ∈ (call s ch).1.eps, Lz e :=
  pw_lz (call_pw s ch) h

theorem call_table (s : B) (ch : Choice) (h : ∀ e ∈ s.eps, Lz e) : table (call s ch).1.eps = table s.eps :=
  pw_table (call_pw s ch) h

theorem call_lazyEps (s : B) (ch : Choice) : (call s ch).1.lazyEps = s.lazyEps := by
  unfold call; split
  · rfl
  · split <;> rfl

/-- With at least one endpoint in the channel, a call gets a result of its own. -/
theorem call_definite (s : B) (ch : Choice) (h : ∀ e ∈ s.eps, Lz e) (hm : 0 < members s.eps) :
    (call s ch).2.definite = true := by
  unfold call
  split
  · rename_i r hr
    exact phase_definite _ _ r hr
  · rename_i hr
    have h1 : ∀ e ∈ pass s.eps, LN e := pass_ln s.eps h (fun e _ _ hrd => fun _ => Or.inl hrd)
    have h2 := phase_none_keeps _ ch.tries h1 hr
    have h3 := pass_rs _ h2
    have hpw : PW s.eps (pass (phase (pass s.eps) ch.tries).1) :=
      ((pass_pw _).trans (phase_pw _ _)).trans (pass_pw _)
    have hmem : ∃ e ∈ pass (phase (pass s.eps) ch.tries).1, e.member = true := by
      rw [← members_pos, pw_members hpw h]; exact hm
    have hsome := phase_some _ [ch.final] (fun e he => (h3 e he).2) hmem
    split
    · rename_i r hr2
      exact phase_definite _ _ r hr2
    · rename_i hr2
      exact absurd hr2 hsome

/-! ### a channel without endpoints -/

theorem tryKey_none_ready (k : Nat) (eps : List EP) (h : ∀ e ∈ eps, (e.member && e.ready) = false) :
    tryKey k eps = (eps, none) := by
  induction eps with
  | nil => rfl
  | cons a as ih =>
    unfold tryKey
    have ha := h a List.mem_cons_self
    have : (decide (a.key = k) && a.member && a.ready) = false := by
      rw [Bool.and_assoc, ha, Bool.and_false]
    simp [this, ih (fun x hx => h x (List.mem_cons_of_mem _ hx))]

theorem tryKeys_none_ready (ks : List Nat) (eps : List EP) (h : ∀ e ∈ eps, (e.member && e.ready) = false) :
    tryKeys eps ks = (eps, none) := by
  induction ks with
  | nil => rfl
  | cons k ks ih => unfold tryKeys; simp [tryKey_none_ready k eps h, ih]

theorem sweep_none_ready (eps : List EP) (h : ∀ e ∈ eps, (e.member && e.ready) = false) :
    sweep eps = (eps, none) := by
  induction eps with
  | nil => rfl
  | cons a as ih =>
    unfold sweep
    have ha := h a List.mem_cons_self
    simp [ha, ih (fun x hx => h x (List.mem_cons_of_mem _ hx))]

/-- nothing in the ready set: the balancer has nothing to draw -/
theorem phase_none_ready (ks : List Nat) (eps : List EP) (h : ∀ e ∈ eps, (e.member && e.ready) = false) :
    phase eps ks = (eps, none) := by
  unfold phase; simp [tryKeys_none_ready ks eps h, sweep_none_ready eps h]

theorem phase_no_member (ks : List Nat) (eps : List EP) (h : ∀ e ∈ eps, e.member = false) :
    phase eps ks = (eps, none) :=
  phase_none_ready ks eps (fun e he => by simp [h e he])

theorem pass_no_member (eps : List EP) (h : ∀ e ∈ eps, e.member = false) : pass eps = eps := by
  unfold pass
  conv => rhs; rw [← List.map_id eps]
  apply List.map_congr_left
  intro a ha
  simp [h a ha]

theorem members_zero (eps : List EP) : members eps = 0 ↔ ∀ e ∈ eps, e.member = false := by
  simp [members, List.filter_eq_nil_iff]

/-- A channel with no endpoint: the call waits (for discovery to insert one). -/
theorem call_no_member (s : B) (ch : Choice) (h : members s.eps = 0) : (call s ch).2 = .hang := by
  have hm := (members_zero s.eps).1 h
  unfold call
  simp [pass_no_member s.eps hm, phase_no_member _ s.eps hm]

/-! ### the script's own steps -/

theorem blank_lz (k : Nat) : Lz (blank k) := by simp [Lz, blank]

theorem ensure_lz (k : Nat) (eps : List EP) (h : ∀ e ∈ eps, Lz e) : ∀ e ∈ ensure k eps, Lz e := by
  unfold ensure
  split
  · exact h
  · intro e he
    rcases List.mem_append.1 he with he | he
    · exact h e he
    · simp only [List.mem_singleton] at he; subst he; exact blank_lz k

theorem onKey_forall {P : EP → Prop} (k : Nat) (f : EP → EP) (eps : List EP) (h : ∀ e ∈ eps, P e)
    (hf : ∀ e, P e → P (f e)) : ∀ e ∈ onKey k f eps, P e := by
  intro e he
  simp only [onKey, List.mem_map] at he
  obtain ⟨a, ha, rfl⟩ := he
  split
  · exact hf a (h a ha)
  · exact h a ha

/-- Every step of a script keeps the endpoints lazy — as long as `discover.rs` builds them lazy. -/
theorem env_lz (s : B) (op : BOp) (hl : s.lazyEps = true) (h : ∀ e ∈ s.eps, Lz e) :
    ∀ e ∈ (env s op).eps, Lz e := by
  cases op with
  | up k => exact onKey_forall k _ _ (ensure_lz k _ h) (fun e he => by simpa [Lz] using he)
  | down k => exact onKey_forall k _ _ (ensure_lz k _ h) (fun e he => by simpa [Lz] using he)
  | insert k => exact onKey_forall k _ _ (ensure_lz k _ h) (fun e _ => by simp [Lz, inserted, R.init, hl])
  | remove k => exact onKey_forall k _ _ (ensure_lz k _ h) (fun e _ => by simp [Lz, removed])
  | call => exact h

theorem env_lazyEps (s : B) (op : BOp) : (env s op).lazyEps = s.lazyEps := by
  cases op <;> rfl

/-! ### whole scripts -/

/-- Every call of every script, under every sequence of choices of the balancer: if the channel
had an endpoint, the call got a result of its own. -/
theorem run_definite (ops : List BOp) : ∀ (s : B) (chs : List Choice), s.lazyEps = true → (∀ e ∈ s.eps, Lz e) →
    ∀ p ∈ run s ops chs, 0 < p.1 → p.2.definite = true := by
  induction ops with
  | nil => intro s chs _ _ p hp; simp [run] at hp
  | cons op ops ih =>
    intro s chs hl h p hp
    cases op with
    | call =>
      simp only [run, List.mem_cons] at hp
      rcases hp with rfl | hp
      · intro hm; exact call_definite s _ h hm
      · split at hp
        · cases hp
        · exact ih _ _ (by rw [call_lazyEps]; exact hl) (call_lz s _ h) p hp
    | up k =>
      exact ih (env s (.up k)) chs (by rw [env_lazyEps]; exact hl) (env_lz s _ hl h) p (by simpa [run] using hp)
    | down k =>
      exact ih (env s (.down k)) chs (by rw [env_lazyEps]; exact hl) (env_lz s _ hl h) p (by simpa [run] using hp)
    | insert k =>
      exact ih (env s (.insert k)) chs (by rw [env_lazyEps]; exact hl) (env_lz s _ hl h) p (by simpa [run] using hp)
    | remove k =>
      exact ih (env s (.remove k)) chs (by rw [env_lazyEps]; exact hl) (env_lz s _ hl h) p (by simpa [run] using hp)

/-! ### reachable states -/

/-- every state a script can lead to keeps the endpoints as `discover.rs` built them -/
theorem exec_lz (ops : List BOp) : ∀ (s : B) (chs : List Choice), s.lazyEps = true → (∀ e ∈ s.eps, Lz e) →
    (exec s ops chs).lazyEps = true ∧ ∀ e ∈ (exec s ops chs).eps, Lz e := by
  induction ops with
  | nil => intro s chs hl h; exact ⟨hl, h⟩
  | cons op ops ih =>
    intro s chs hl h
    cases op with
    | call => exact ih _ _ (by rw [call_lazyEps]; exact hl) (call_lz s _ h)
    | up k => exact ih (env s (.up k)) chs (by rw [env_lazyEps]; exact hl) (env_lz s _ hl h)
    | down k => exact ih (env s (.down k)) chs (by rw [env_lazyEps]; exact hl) (env_lz s _ hl h)
    | insert k => exact ih (env s (.insert k)) chs (by rw [env_lazyEps]; exact hl) (env_lz s _ hl h)
    | remove k => exact ih (env s (.remove k)) chs (by rw [env_lazyEps]; exact hl) (env_lz s _ hl h)

/-! ### who is in the channel -/

/-- the keys of the endpoints in the channel, in list order -/
def memberKeys (eps : List EP) : List Nat := (eps.filter (·.member)).map (·.key)

theorem memberKeys_table (eps : List EP) : memberKeys eps = ((table eps).filter (·.2)).map (·.1) := by
  induction eps with
  | nil => rfl
  | cons e es ih =>
    simp only [memberKeys, table, List.filter_cons, List.map_cons] at ih ⊢
    cases e.member <;> simp [ih]

theorem call_memberKeys (s : B) (ch : Choice) (h : ∀ e ∈ s.eps, Lz e) :
    memberKeys (call s ch).1.eps = memberKeys s.eps := by
  rw [memberKeys_table, memberKeys_table, call_table s ch h]

theorem memberKeys_ensure (k : Nat) (eps : List EP) : memberKeys (ensure k eps) = memberKeys eps := by
  unfold ensure
  split
  · rfl
  · simp [memberKeys, List.filter_append, blank]

theorem memberKeys_onKey (k : Nat) (f : EP → EP) (eps : List EP)
    (hf : ∀ e, (f e).key = e.key ∧ (f e).member = e.member) :
    memberKeys (onKey k f eps) = memberKeys eps := by
  induction eps with
  | nil => rfl
  | cons e es ih =>
    simp only [memberKeys, onKey, List.map_cons, List.filter_cons] at ih ⊢
    split
    · rw [(hf e).2]
      cases e.member <;> simp [ih, (hf e).1]
    · cases e.member <;> simp [ih]

theorem env_up_memberKeys (s : B) (k : Nat) : memberKeys (env s (.up k)).eps = memberKeys s.eps := by
  simp only [env]
  rw [memberKeys_onKey k (fun e => { e with w := e.w.setUp }) _ (fun e => ⟨rfl, rfl⟩), memberKeys_ensure]

theorem env_down_memberKeys (s : B) (k : Nat) : memberKeys (env s (.down k)).eps = memberKeys s.eps := by
  simp only [env]
  rw [memberKeys_onKey k (fun e => { e with w := e.w.setDown }) _ (fun e => ⟨rfl, rfl⟩), memberKeys_ensure]

theorem mem_memberKeys (k : Nat) (eps : List EP) : k ∈ memberKeys eps ↔ ∃ e ∈ eps, e.key = k ∧ e.member = true := by
  simp only [memberKeys, List.mem_map, List.mem_filter]
  constructor
  · rintro ⟨e, ⟨he, hm⟩, hk⟩; exact ⟨e, he, hk, hm⟩
  · rintro ⟨e, he, hk, hm⟩; exact ⟨e, ⟨he, hm⟩, hk⟩

theorem ensure_has (k : Nat) (eps : List EP) : ∃ e ∈ ensure k eps, e.key = k := by
  unfold ensure
  split
  · rename_i h
    simp only [List.any_eq_true, decide_eq_true_eq] at h
    exact h
  · exact ⟨blank k, by simp, rfl⟩

/-- `Change::Insert(k)` puts `k` into the channel, `Change::Remove(k)` takes it out. -/
theorem env_insert_memberKeys (s : B) (k : Nat) : k ∈ memberKeys (env s (.insert k)).eps := by
  rw [mem_memberKeys]
  obtain ⟨e, he, hk⟩ := ensure_has k s.eps
  refine ⟨inserted s.lazyEps e, ?_, by simp [inserted, hk], by simp [inserted]⟩
  simp only [env, onKey, List.mem_map]
  exact ⟨e, he, by simp [hk]⟩

theorem env_remove_memberKeys (s : B) (k : Nat) : k ∉ memberKeys (env s (.remove k)).eps := by
  rw [mem_memberKeys]
  rintro ⟨e, he, hk, hm⟩
  simp only [env, onKey, List.mem_map] at he
  obtain ⟨a, _, rfl⟩ := he
  split at hk <;> rename_i hc
  · simp [hc, removed] at hm
  · exact hc hk

end Balance
