import TonicModel.Model.HealthLife
/-
Lemmas for the handle / pair layer (`Model/HealthLife`): a pair's table evolves by the health
operations that happened on that pair and by nothing else.
-/
namespace Health

theorem lstep_same (s : L) (it : LItem) : (lstep s it).1 it.pair = (sideStep (s it.pair) it.op).1 := by
  simp [lstep]

theorem lstep_other (s : L) (it : LItem) (p : Nat) (h : ¬ it.pair = p) : (lstep s it).1 p = s p := by
  have : ¬ p = it.pair := fun e => h e.symm
  simp [lstep, this]

theorem sideAnswers_cons_other (p q : Nat) (a : LAns) (l : List (Nat × LAns)) (h : ¬ q = p) :
    sideAnswers p ((q, a) :: l) = sideAnswers p l := by
  simp [sideAnswers, h]

theorem sideAnswers_cons_eff (p : Nat) (r : Resp) (l : List (Nat × LAns)) :
    sideAnswers p ((p, .eff r) :: l) = r :: sideAnswers p l := by
  simp [sideAnswers]

theorem sideAnswers_cons_ok (p : Nat) (l : List (Nat × LAns)) :
    sideAnswers p ((p, .ok) :: l) = sideAnswers p l := by
  simp [sideAnswers]

theorem sideAnswers_cons_noh (p : Nat) (l : List (Nat × LAns)) :
    sideAnswers p ((p, .noh) :: l) = sideAnswers p l := by
  simp [sideAnswers]

/-- From any process state: the answers pair `p` gets, and the table it ends with, are those of
its own table run on the health operations that happened on `p` (`effective`). -/
theorem side_is_own_history (p : Nat) (items : List LItem) : ∀ s : L,
    sideAnswers p (lrun s items) = run (s p).h (effective p (s p).reps (s p).clis items) ∧
    ((lexec s items) p).h = exec (s p).h (effective p (s p).reps (s p).clis items) := by
  induction items with
  | nil => intro s; simp [lrun, lexec, effective, sideAnswers, run, exec]
  | cons it its ih =>
    intro s
    obtain ⟨q, op⟩ := it
    by_cases hq : q = p
    · subst hq
      have ih' := ih (lstep s ⟨q, op⟩).1
      have hsame : (lstep s ⟨q, op⟩).1 q = (sideStep (s q) op).1 := lstep_same s ⟨q, op⟩
      rw [hsame] at ih'
      simp only [lrun, lexec, effective, if_true]
      cases op with
      | rep r o =>
        by_cases hl : (s q).reps r
        · simp [sideStep, lstep, hl] at ih' ⊢
          simp [sideAnswers_cons_eff, run, exec, ih']
        · simp [sideStep, lstep, hl] at ih' ⊢
          simp [sideAnswers_cons_noh, ih']
      | cli c o =>
        by_cases hl : (s q).clis c
        · simp [sideStep, lstep, hl] at ih' ⊢
          simp [sideAnswers_cons_eff, run, exec, ih']
        · simp [sideStep, lstep, hl] at ih' ⊢
          simp [sideAnswers_cons_noh, ih']
      | str o =>
        simp [sideStep, lstep] at ih' ⊢
        simp [sideAnswers_cons_eff, run, exec, ih']
      | rdrop r =>
        by_cases hl : ((s q).reps r && !gone ((s q).reps.put r false) (s q).clis) = true
        · simp [sideStep, lstep, hl] at ih' ⊢
          simp [sideAnswers_cons_ok, ih']
        · simp [sideStep, lstep, hl] at ih' ⊢
          simp [sideAnswers_cons_noh, ih']
      | rclone r r' =>
        by_cases hl : (s q).reps r'
        · simp [sideStep, lstep, hl] at ih' ⊢
          simp [sideAnswers_cons_ok, ih']
        · simp [sideStep, lstep, hl] at ih' ⊢
          simp [sideAnswers_cons_noh, ih']
      | cdrop c =>
        by_cases hl : ((s q).clis c && !gone (s q).reps ((s q).clis.put c false)) = true
        · simp [sideStep, lstep, hl] at ih' ⊢
          simp [sideAnswers_cons_ok, ih']
        · simp [sideStep, lstep, hl] at ih' ⊢
          simp [sideAnswers_cons_noh, ih']
      | cclone c c' =>
        by_cases hl : (s q).clis c'
        · simp [sideStep, lstep, hl] at ih' ⊢
          simp [sideAnswers_cons_ok, ih']
        · simp [sideStep, lstep, hl] at ih' ⊢
          simp [sideAnswers_cons_noh, ih']
    · have ih' := ih (lstep s ⟨q, op⟩).1
      rw [lstep_other s ⟨q, op⟩ p hq] at ih'
      simp only [lrun, lexec, effective, hq, if_false]
      rw [sideAnswers_cons_other p q _ _ hq]
      exact ih'

end Health
