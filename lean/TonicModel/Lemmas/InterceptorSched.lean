import TonicModel.Model.Interceptor
/-
C12: kept `ResponseFuture`s polled by an arbitrary schedule (`Interceptor.pollSchedule`).
-/
namespace Interceptor
open HMapLite HttpLite

variable {ρ ε : Type}

/-- For EVERY schedule: the owner of kept future `k` gets that future's own outcome as soon as the
schedule has polled it more often than the wrapped future stays `Pending`, and nothing before —
whatever other futures are polled in between, however often, completed or not. -/
theorem firstReady_pollSchedule (add : GStatus → Hdrs → Option Hdrs) (sched : List Nat) :
    ∀ (futs : List (RespFuture ρ ε)) (k : Nat) (fut : RespFuture ρ ε),
      futs[k]? = some fut → fut ≠ .status none →
      firstReady k (pollSchedule add futs sched) =
        if fut.pendingPolls < sched.count k then some (fut.outcomeWith add) else none := by
  induction sched with
  | nil => intro futs k fut _ _; simp [pollSchedule, firstReady]
  | cons j ks ih =>
    intro futs k fut hk hne
    by_cases hjk : j = k
    · subst hjk
      simp only [pollSchedule, hk, List.count_cons_self]
      cases fut with
      | status st =>
        cases st with
        | none => exact absurd rfl hne
        | some st =>
          simp [RespFuture.pollWith, firstReady, RespFuture.pendingPolls, RespFuture.outcomeWith]
      | future n res =>
        cases n with
        | zero =>
          simp [RespFuture.pollWith, firstReady, RespFuture.pendingPolls, RespFuture.outcomeWith]
        | succ n =>
          simp only [RespFuture.pollWith, List.nil_append]
          have hlt : j < futs.length := by
            have := List.getElem?_eq_some_iff.mp hk; exact this.1
          rw [ih (futs.set j (.future n res)) j (.future n res) (by simp [hlt]) (by simp)]
          simp only [RespFuture.pendingPolls, RespFuture.outcomeWith, Nat.add_lt_add_iff_right]
          first | rfl | (split <;> rfl)
    · have hc : (j :: ks).count k = ks.count k := by
        rw [List.count_cons]; simp [hjk]
      rw [hc]
      simp only [pollSchedule]
      cases hj : futs[j]? with
      | none => exact ih futs k fut hk hne
      | some fj =>
        simp only
        have hset : (futs.set j (fj.pollWith add).1)[k]? = some fut := by
          rw [List.getElem?_set_ne hjk]; exact hk
        have hskip : ∀ (pre : List (Nat × Outcome ρ ε)) (rest : List (Nat × Outcome ρ ε)),
            (∀ e ∈ pre, e.1 = j) → firstReady k (pre ++ rest) = firstReady k rest := by
          intro pre rest hp
          unfold firstReady
          rw [List.find?_append]
          have : pre.find? (fun e => e.1 == k) = none := by
            rw [List.find?_eq_none]
            intro e he; simp [hp e he, hjk]
          rw [this]; rfl
        rw [hskip _ _ (by intro e he; cases h : (fj.pollWith add).2 <;> simp [h] at he; rw [he])]
        exact ih _ k fut hset hne

end Interceptor
