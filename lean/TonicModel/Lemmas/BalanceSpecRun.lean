import TonicModel.Lemmas.BalanceSpec
/-
Load-balanced channel (C14): the oracle's endpoint list and the model's, side by side.
-/
namespace Balance
open ConnScript BalScript Reconnect
open Spec.Balance (O)

/-- the two lists are aligned and related entry by entry -/
inductive A2 (P : O → EP → Prop) : List O → List EP → Prop
  | nil : A2 P [] []
  | cons {o : O} {e : EP} {os : List O} {eps : List EP} : P o e → A2 P os eps → A2 P (o :: os) (e :: eps)

/-- `o` and `e` sit at the same position -/
inductive Mem2 : O → EP → List O → List EP → Prop
  | head {o : O} {e : EP} {os : List O} {eps : List EP} : Mem2 o e (o :: os) (e :: eps)
  | tail {o o' : O} {e e' : EP} {os : List O} {eps : List EP} : Mem2 o e os eps → Mem2 o e (o' :: os) (e' :: eps)

theorem A2.mono {P Q : O → EP → Prop} (h : ∀ o e, P o e → Q o e) {os : List O} {eps : List EP}
    (a : A2 P os eps) : A2 Q os eps := by
  induction a with
  | nil => exact .nil
  | cons p _ ih => exact .cons (h _ _ p) ih

theorem A2.mem {P : O → EP → Prop} {os : List O} {eps : List EP} (a : A2 P os eps) {o : O} {e : EP}
    (m : Mem2 o e os eps) : P o e := by
  induction m with
  | head => cases a with | cons p _ => exact p
  | tail _ ih => cases a with | cons _ t => exact ih t

theorem A2.pw {P : O → EP → Prop} (hev : ∀ o a b, Ev a b → P o a → P o b) {os : List O} {eps eps' : List EP}
    (a : A2 P os eps) (h : PW eps eps') : A2 P os eps' := by
  induction a generalizing eps' with
  | nil => cases h; exact .nil
  | cons p _ ih => cases h with | cons ev t => exact .cons (hev _ _ _ ev p) (ih t)

theorem A2.mapL {P Q : O → EP → Prop} (f : O → O) (h : ∀ o e, P o e → Q (f o) e) {os : List O} {eps : List EP}
    (a : A2 P os eps) : A2 Q (os.map f) eps := by
  induction a with
  | nil => exact .nil
  | cons p _ ih => exact .cons (h _ _ p) ih

theorem Mem2.left {o : O} {e : EP} {os : List O} {eps : List EP} (m : Mem2 o e os eps) : o ∈ os := by
  induction m with
  | head => exact List.mem_cons_self
  | tail _ ih => exact List.mem_cons_of_mem _ ih

theorem Mem2.settle {o : O} {e : EP} {os : List O} {eps : List EP} (m : Mem2 o e os eps) :
    Mem2 o { e with fresh := false } os (settle eps) := by
  induction m with
  | head => exact .head
  | tail _ ih => exact .tail ih

theorem relc_pw {os : List O} {eps eps' : List EP} (a : A2 RelC os eps) (h : PW eps eps') : A2 RelC os eps' :=
  A2.pw (P := RelC) (fun _ _ _ ev p => ev_relc ev p) a h

/-! ### the endpoint that served the call is found in both lists -/

def Served (r : BRes) (os : List O) (eps : List EP) : Prop :=
  ∃ o e, Mem2 o e os eps ∧ resOK o r ∧ G e

theorem tryKey_served (k : Nat) (r : BRes) {os : List O} {eps : List EP} (a : A2 RelC os eps)
    (h : (tryKey k eps).2 = some r) : Served r os (tryKey k eps).1 := by
  induction a with
  | nil => simp [tryKey] at h
  | cons p _ ih =>
    unfold tryKey at h ⊢
    split
    · rename_i hc
      simp only [hc, if_true] at h
      exact ⟨_, _, .head, tryOne_served_ok _ _ r p h⟩
    · rename_i hc
      simp only [hc] at h
      obtain ⟨o, e, m, ok⟩ := ih h
      exact ⟨o, e, .tail m, ok⟩

theorem tryKeys_served (ks : List Nat) (r : BRes) : ∀ {os : List O} {eps : List EP}, A2 RelC os eps →
    (tryKeys eps ks).2 = some r → Served r os (tryKeys eps ks).1 := by
  induction ks with
  | nil => intro os eps _ h; simp [tryKeys] at h
  | cons k ks ih =>
    intro os eps a h
    unfold tryKeys at h ⊢
    split
    · rename_i r' hr
      simp only [hr, Option.some.injEq] at h
      subst h
      exact tryKey_served k r' a hr
    · rename_i hr
      simp only [hr] at h
      exact ih (relc_pw a (tryKey_pw k eps)) h

theorem sweep_served (r : BRes) {os : List O} {eps : List EP} (a : A2 RelC os eps)
    (h : (sweep eps).2 = some r) : Served r os (sweep eps).1 := by
  induction a with
  | nil => simp [sweep] at h
  | cons p _ ih =>
    unfold sweep at h ⊢
    split
    · rename_i hc
      simp only [hc, if_true] at h
      split
      · rename_i r' hr
        simp only [hr, Option.some.injEq] at h
        subst h
        exact ⟨_, _, .head, tryOne_served_ok _ _ r' p hr⟩
      · rename_i hr
        simp only [hr] at h
        obtain ⟨o, e, m, ok⟩ := ih h
        exact ⟨o, e, .tail m, ok⟩
    · rename_i hc
      simp only [hc] at h
      obtain ⟨o, e, m, ok⟩ := ih h
      exact ⟨o, e, .tail m, ok⟩

theorem phase_served (ks : List Nat) (r : BRes) {os : List O} {eps : List EP} (a : A2 RelC os eps)
    (h : (phase eps ks).2 = some r) : Served r os (phase eps ks).1 := by
  unfold phase at h ⊢
  split
  · rename_i r' hr
    simp only [hr, Option.some.injEq] at h
    subst h
    exact tryKeys_served ks r' a hr
  · rename_i hr
    simp only [hr] at h
    exact sweep_served r (relc_pw a (tryKeys_pw ks eps)) h

theorem served_settle {r : BRes} {os : List O} {eps : List EP} (h : Served r os eps) : Served r os (settle eps) := by
  obtain ⟨o, e, m, ok, g⟩ := h
  exact ⟨o, _, m.settle, ok, settle_G e g⟩

/-- One call: the lists stay related, and unless the call hangs the serving endpoint is found. -/
theorem call_served (s : B) (ch : Choice) {os : List O} (a : A2 RelC os s.eps) :
    A2 RelC os (call s ch).1.eps ∧ ((call s ch).2 ≠ .hang → Served (call s ch).2 os (call s ch).1.eps) := by
  refine ⟨relc_pw a (call_pw s ch), ?_⟩
  unfold call
  split
  · rename_i r hr
    intro _
    exact served_settle (phase_served _ r (relc_pw a (pass_pw _)) hr)
  · rename_i hr
    split
    · rename_i r hr2
      intro _
      exact served_settle (phase_served _ r
        (relc_pw a (((pass_pw _).trans (phase_pw _ _)).trans (pass_pw _))) hr2)
    · intro h; exact absurd rfl h

/-! ### between calls -/

structure RelQ (o : O) (e : EP) : Prop where
  rel : Rel o e
  lz : Lz e
  gd : Gd e

theorem atCall_relc {os : List O} {eps : List EP} (a : A2 RelQ os eps) :
    A2 RelC (Spec.Balance.atCall os) eps := by
  unfold Spec.Balance.atCall
  refine A2.mapL _ ?_ a
  rintro o e ⟨⟨hk, hm, hu, hg, hau, ho, hkl⟩, hl, hgd⟩
  split
  · exact ⟨⟨hk, hm, hu, hg, hau, fun _ _ => rfl, hkl⟩, fun _ _ => rfl, hl, hgd⟩
  · rename_i hc
    refine ⟨⟨hk, hm, hu, hg, hau, ho, hkl⟩, ?_, hl, hgd⟩
    intro hme hup
    rw [hm, hu, hme, hup] at hc
    simp at hc

def clr (o : O) : O := { o with owes := false, killed := false }

theorem relq_clr {o : O} {e : EP} (h : RelC o e) (g : G e) : RelQ (clr o) e := by
  obtain ⟨⟨hk, hm, hu, hg, hau, _, _⟩, _, hl, hgd⟩ := h
  exact ⟨⟨hk, hm, hu, hg, hau, fun _ hh => absurd hh g.1, fun _ hd => absurd hd g.2⟩, hl, hgd⟩

theorem relq_of_relc {o : O} {e : EP} (h : RelC o e) : RelQ o e := ⟨h.rel, h.lz, h.gd⟩

theorem A2.clear (c : O → Prop) [DecidablePred c] {os : List O} {eps : List EP} (a : A2 RelC os eps)
    (h : ∀ o e, Mem2 o e os eps → c o → G e) :
    A2 RelQ (os.map fun o => if c o then clr o else o) eps := by
  induction a with
  | nil => exact .nil
  | cons p _ ih =>
    simp only [List.map_cons]
    refine .cons ?_ (ih (fun o e m hc => h o e (.tail m) hc))
    split
    · rename_i hc; exact relq_clr p (h _ _ .head hc)
    · exact relq_of_relc p

theorem Mem2.unique (c : O → Prop) [DecidablePred c] {os : List O} {eps : List EP} {o1 o2 : O} {e1 e2 : EP}
    (hlen : (os.filter (fun o => decide (c o))).length ≤ 1)
    (m1 : Mem2 o1 e1 os eps) (c1 : c o1) (m2 : Mem2 o2 e2 os eps) (c2 : c o2) : e1 = e2 := by
  induction m1 with
  | head =>
    cases m2 with
    | head => rfl
    | tail m2 =>
      have : 0 < (List.filter (fun o => decide (c o)) _).length :=
        List.length_pos_iff.2 (List.ne_nil_of_mem (List.mem_filter.2 ⟨m2.left, by simpa using c2⟩))
      simp only [List.filter_cons, c1, decide_true, if_true, List.length_cons] at hlen
      omega
  | tail m1 ih =>
    cases m2 with
    | head =>
      have : 0 < (List.filter (fun o => decide (c o)) _).length :=
        List.length_pos_iff.2 (List.ne_nil_of_mem (List.mem_filter.2 ⟨m1.left, by simpa using c1⟩))
      simp only [List.filter_cons, c2, decide_true, if_true, List.length_cons] at hlen
      omega
    | tail m2 =>
      apply ih _ m2
      simp only [List.filter_cons] at hlen
      split at hlen
      · simp only [List.length_cons] at hlen; omega
      · exact hlen

/-- the oracle's keys are pairwise different -/
def KeysNodup (os : List O) : Prop := (os.map (·.key)).Nodup

theorem filter_key_le_one (k : Nat) (os : List O) (h : KeysNodup os) :
    (os.filter (fun o => decide (o.key = k))).length ≤ 1 := by
  induction os with
  | nil => simp
  | cons o os ih =>
    simp only [KeysNodup, List.map_cons, List.nodup_cons] at h
    simp only [List.filter_cons]
    split
    · rename_i hk
      simp only [decide_eq_true_eq] at hk
      have : os.filter (fun o => decide (o.key = k)) = [] := by
        rw [List.filter_eq_nil_iff]
        intro x hx
        simp only [decide_eq_true_eq]
        intro hxk
        exact h.1 (List.mem_map.2 ⟨x, hx, by rw [hxk, hk]⟩)
      simp [this]
    · exact ih h.2

/-- an error settles the debt of the only endpoint that owed: that is the one that served -/
theorem afterCall_owing {os : List O} {eps : List EP} (a : A2 RelC os eps) {o : O} {e : EP}
    (m : Mem2 o e os eps) (hm : o.member = true) (ho : o.owes = true) (hg : G e) :
    A2 RelQ
      (if ((Spec.Balance.membersOf os).filter (·.owes)).length = 1 then
        os.map fun o => if o.member && o.owes then { o with owes := false, killed := false } else o
       else os) eps := by
  split
  · rename_i hone
    have hone' : (os.filter (fun o => decide (o.member = true ∧ o.owes = true))).length ≤ 1 := by
      simp only [Spec.Balance.membersOf, List.filter_filter] at hone
      have : (fun o : O => decide (o.member = true ∧ o.owes = true)) = (fun o : O => o.owes && o.member) := by
        funext o; cases o.member <;> cases o.owes <;> rfl
      rw [this, hone]; exact Nat.le_refl _
    have := A2.clear (fun x => x.member = true ∧ x.owes = true) a (by
      intro o' e' m' hc
      have : e' = e := Mem2.unique (fun x => x.member = true ∧ x.owes = true) hone' m' hc m ⟨hm, ho⟩
      rw [this]; exact hg)
    have hf : (fun o : O => if o.member = true ∧ o.owes = true then clr o else o) =
        (fun o : O => if (o.member && o.owes) = true then { o with owes := false, killed := false } else o) := by
      funext o; simp [clr]
    rw [hf] at this
    exact this
  · exact a.mono (fun _ _ => relq_of_relc)

theorem afterCall_relq (r : BRes) {os : List O} {eps : List EP} (a : A2 RelC os eps)
    (hs : r ≠ .hang → Served r os eps) (hn : KeysNodup os) :
    A2 RelQ (Spec.Balance.afterCall os r.obs) eps := by
  cases r with
  | hang => exact a.mono (fun _ _ => relq_of_relc)
  | panic => exact a.mono (fun _ _ => relq_of_relc)
  | resp k g =>
    obtain ⟨o, e, m, ok, hg⟩ := hs (by simp)
    simp only [BRes.obs, Spec.Balance.afterCall, Spec.Balance.onKey]
    refine A2.clear (fun x => x.key = k) a ?_
    intro o' e' m' hc
    have : e' = e := Mem2.unique (fun x => x.key = k) (filter_key_le_one k os hn) m' hc m ok.1
    rw [this]; exact hg
  | err k x =>
    obtain ⟨o, e, m, ok, hg⟩ := hs (by simp)
    exact afterCall_owing a m ok.1 ok.2 hg
  | lost k =>
    obtain ⟨o, e, m, ok, hg⟩ := hs (by simp)
    exact afterCall_owing a m ok.1 ok.2.1 hg

end Balance
