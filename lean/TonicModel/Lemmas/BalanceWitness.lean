import TonicModel.Lemmas.BalanceDebt
/-
Load-balanced channel (C14): the two counter-models.
 1. With ONE endpoint reachable and two unreachable there is no bound on the number of calls that
    fail: the balancer may keep drawing the two dead endpoints in turn (each is back in the ready
    set, with the parked failure of its latest attempt, every other call).
 2. Endpoint connections that are NOT lazy (`Reconnect::new(.., is_lazy = false)`): the first
    failed attempt comes out of `poll_ready` as an error, tower drops the service, nothing
    re-inserts it.
-/
namespace Balance
open ConnScript BalScript Reconnect

/-- endpoint 0 connected and ready; endpoints 1 and 2 unreachable, `m` attempts behind them:
1 is idle in the pending set, 2 has a (refused) attempt in flight -/
def starved (m : Nat) : B :=
  { lazyEps := true,
    eps := [ { key := 0, member := true,
               r := { st := .connected 1, error := none, hasBeen := true, isLazy := true, made := 1 },
               ready := true, flight := true, fresh := false, w := { up := true, gen := 1, alive := some 1 } },
             { key := 1, member := true,
               r := { st := .idle, error := none, hasBeen := false, isLazy := true, made := m },
               ready := false, flight := false, fresh := false, w := { up := false, gen := 0, alive := none } },
             { key := 2, member := true,
               r := { st := .connecting, error := none, hasBeen := false, isLazy := true, made := m },
               ready := false, flight := false, fresh := false, w := { up := false, gen := 0, alive := none } } ] }

/-- the balancer draws endpoint 2, then endpoint 1: both calls get the parked failure, and the
channel is where it was, one attempt later -/
theorem starved_step (m : Nat) :
    (Balance.call (starved m) ⟨[2], 2⟩).2 = .err 2 m ∧
    (Balance.call (Balance.call (starved m) ⟨[2], 2⟩).1 ⟨[1], 1⟩).2 = .err 1 (m + 1) ∧
    (Balance.call (Balance.call (starved m) ⟨[2], 2⟩).1 ⟨[1], 1⟩).1 = starved (m + 1) := by
  simp [starved, Balance.call, pass, phase, tryKeys, tryKey, tryOne, advance_eq, adv, serveEP, Reconnect.call,
    settle]

/-- `2 j` draws: 2, 1, 2, 1, … -/
def alt : Nat → List Choice
  | 0 => []
  | j + 1 => ⟨[2], 2⟩ :: ⟨[1], 1⟩ :: alt j

theorem alt_length (j : Nat) : (alt j).length = 2 * j := by
  induction j with
  | zero => rfl
  | succ j ih => simp [alt, ih]; omega

theorem starved_forever (j : Nat) : ∀ m, ∀ r ∈ calls (starved m) (alt j), r.errored = true := by
  induction j with
  | zero => intro m r hr; simp [alt, calls] at hr
  | succ j ih =>
    intro m r hr
    obtain ⟨h1, h2, h3⟩ := starved_step m
    simp only [alt, calls, List.mem_cons] at hr
    rcases hr with rfl | rfl | hr
    · rw [h1]; rfl
    · rw [h2]; rfl
    · rw [h3] at hr; exact ih (m + 1) r hr

theorem calls_take (n : Nat) : ∀ (s : B) (l : List Choice), calls s (l.take n) = (calls s l).take n := by
  induction n with
  | zero => intro s l; simp [calls]
  | succ n ih =>
    intro s l
    cases l with
    | nil => simp [calls]
    | cons c cs => simp [calls, List.take_succ_cons, ih]

/-- a script that leads to `starved 2`: three endpoints, only endpoint 0 has a server -/
def starveOps : List BOp := [.up 0, .insert 0, .insert 1, .insert 2, .call, .call, .call]
def starveChs : List Choice := [⟨[1], 1⟩, ⟨[2], 2⟩, ⟨[1], 1⟩]

theorem starved_reachable : exec (B.init true) starveOps starveChs = starved 2 := by decide

/-! ### non-lazy endpoint connections (the counter-model) -/

/-- One endpoint, nothing listening, endpoint connections NOT lazy: the first call's attempt
fails inside `poll_ready`, the service is dropped — the call hangs, the channel is empty. -/
theorem eager_first_call (ch : Choice) :
    (Balance.call (env (B.init false) (.insert 0)) ch).2 = .hang ∧
    memberKeys (Balance.call (env (B.init false) (.insert 0)) ch).1.eps = [] := by
  have h1 : ∀ ks, phase [advance (inserted false (blank 0))] ks = ([advance (inserted false (blank 0))], none) := by
    intro ks
    exact phase_none_ready ks _ (by simp [advance_eq, adv, inserted, blank, R.init])
  have h2 : ∀ ks, phase [advance (advance (inserted false (blank 0)))] ks =
      ([advance (advance (inserted false (blank 0)))], none) := by
    intro ks
    exact phase_none_ready ks _ (by simp [advance_eq, adv, inserted, blank, R.init, EW.init])
  have hp1 : pass (env (B.init false) (.insert 0)).eps = [advance (inserted false (blank 0))] := by
    simp [env, B.init, ensure, onKey, pass, blank, inserted, R.init]
  have hp2 : pass [advance (inserted false (blank 0))] = [advance (advance (inserted false (blank 0)))] := by
    simp [pass, advance_eq, adv, inserted, blank, R.init, EW.init]
  unfold Balance.call
  rw [hp1, h1, hp2, h2]
  simp [settle, memberKeys, advance_eq, adv, inserted, blank, R.init, EW.init]

end Balance
