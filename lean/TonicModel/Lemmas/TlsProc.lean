import TonicModel.Model.Tls
import TonicModel.Spec.Tls
/-
Helper lemmas for C15, "configurations are values": the process model `Tls.Proc` of
`Model/Tls` (several `ClientTlsConfig` / `Endpoint` variables, clones, derived configurations,
uses) against the reading `Spec.Tls.cfgTable` of the program text.
-/
namespace Tls
open Spec.Tls
variable {Root Chain : Type}

/-- Builder calls applied to a built configuration = the longer sequence built from scratch. -/
theorem build_append (l ops : List (ClientOp Root Chain)) :
    ops.foldl ClientOp.apply (ClientTlsConfig.build l) = ClientTlsConfig.build (l ++ ops) := by
  simp [ClientTlsConfig.build, List.foldl_append]

/-- One statement keeps "every configuration variable holds what its own calls built". -/
theorem exec_cfgs (sys : Sys Root) (p : Proc Root Chain) (tbl : List (List (ClientOp Root Chain)))
    (s : Stmt Root Chain) (h : p.cfgs = tbl.map ClientTlsConfig.build) :
    (p.exec sys s).cfgs = (cfgTableStep tbl s).map ClientTlsConfig.build := by
  cases s with
  | config src ops =>
    cases src with
    | none => simp [Proc.exec, cfgTableStep, h, ClientTlsConfig.build]
    | some k =>
      simp only [Proc.exec, cfgTableStep, h, List.getElem?_map]
      cases tbl[k]? with
      | none => exact h
      | some l => simp [build_append]
  | endpoint uri => simpa [Proc.exec, cfgTableStep] using h
  | endpointNew uri => simpa [Proc.exec, cfgTableStep] using h
  | cloneEndpoint e =>
    simp only [Proc.exec, cfgTableStep]
    split <;> exact h
  | tlsConfig e c =>
    simp only [Proc.exec, cfgTableStep]
    split <;> exact h
  | connect e => simpa [Proc.exec, cfgTableStep] using h
  | endpointNewFrom e =>
    simp only [Proc.exec, cfgTableStep]
    split <;> exact h

theorem foldl_cfgs (sys : Sys Root) (prog : List (Stmt Root Chain)) (p : Proc Root Chain)
    (tbl : List (List (ClientOp Root Chain))) (h : p.cfgs = tbl.map ClientTlsConfig.build) :
    (prog.foldl (Proc.exec sys) p).cfgs = (prog.foldl cfgTableStep tbl).map ClientTlsConfig.build := by
  induction prog generalizing p tbl with
  | nil => exact h
  | cons s rest ih => exact ih _ _ (exec_cfgs sys p tbl s h)

/-- In every program, every configuration variable holds exactly `build` of its own sequence. -/
theorem run_cfgs (sys : Sys Root) (prog : List (Stmt Root Chain)) :
    (Proc.run sys prog).cfgs = (cfgTable prog).map ClientTlsConfig.build :=
  foldl_cfgs sys prog {} [] rfl

/-- A statement only ever defines new variables. -/
theorem exec_extends (sys : Sys Root) (p : Proc Root Chain) (s : Stmt Root Chain) :
    ∃ a b, (p.exec sys s).cfgs = p.cfgs ++ a ∧ (p.exec sys s).eps = p.eps ++ b := by
  cases s with
  | config src ops =>
    cases src with
    | none => exact ⟨_, [], rfl, by simp [Proc.exec]⟩
    | some k =>
      simp only [Proc.exec]
      split
      · exact ⟨_, [], rfl, by simp⟩
      · exact ⟨[], [], by simp, by simp⟩
  | endpoint uri => exact ⟨[], _, by simp [Proc.exec], rfl⟩
  | endpointNew uri => exact ⟨[], _, by simp [Proc.exec], rfl⟩
  | cloneEndpoint e =>
    simp only [Proc.exec]
    split
    · exact ⟨[], _, by simp, rfl⟩
    · exact ⟨[], [], by simp, by simp⟩
  | tlsConfig e c =>
    simp only [Proc.exec]
    split
    · exact ⟨[], _, by simp, rfl⟩
    · exact ⟨[], _, by simp, rfl⟩
    · exact ⟨[], [], by simp, by simp⟩
  | connect e => exact ⟨[], [], by simp [Proc.exec], by simp [Proc.exec]⟩
  | endpointNewFrom e =>
    simp only [Proc.exec]
    split
    · exact ⟨[], _, by simp, rfl⟩
    · exact ⟨[], _, by simp, rfl⟩
    · exact ⟨[], [], by simp, by simp⟩

theorem foldl_extends (sys : Sys Root) (more : List (Stmt Root Chain)) (p : Proc Root Chain) :
    ∃ a b, (more.foldl (Proc.exec sys) p).cfgs = p.cfgs ++ a ∧
      (more.foldl (Proc.exec sys) p).eps = p.eps ++ b := by
  induction more generalizing p with
  | nil => exact ⟨[], [], by simp, by simp⟩
  | cons s rest ih =>
    obtain ⟨a1, b1, h1, h2⟩ := exec_extends sys p s
    obtain ⟨a2, b2, h3, h4⟩ := ih (p.exec sys s)
    exact ⟨a1 ++ a2, b1 ++ b2, by rw [List.foldl_cons, h3, h1, List.append_assoc],
      by rw [List.foldl_cons, h4, h2, List.append_assoc]⟩

/-- `Endpoint::tls_config` keeps the URI and replaces the connector: on any endpoint value it
gives what it gives on a fresh endpoint for the same URI (and keeps the origin override, which it does
not read). -/
theorem tlsConfig_replaces (sys : Sys Root) (ep : Endpoint Root Chain) (cfg : ClientTlsConfig Root Chain) :
    ep.tlsConfig sys cfg =
      ((Endpoint.fromShared ep.uri).tlsConfig sys cfg).map (fun e => { e with origin := ep.origin }) := by
  simp only [Endpoint.tlsConfig, Endpoint.fromShared]
  cases cfg.intoTlsConnector sys ep.uri <;> rfl

/-- Using configuration variable `c` in state `p`. -/
theorem useConfig_eps (sys : Sys Root) (p : Proc Root Chain) (c : Nat) (uri : Uri)
    (cfg : ClientTlsConfig Root Chain) (h : p.cfgs[c]? = some cfg) :
    (p.useConfig sys c uri).cfgs = p.cfgs ∧
    (p.useConfig sys c uri).eps =
      p.eps ++ [.ok (Endpoint.fromShared uri), (Endpoint.fromShared uri).tlsConfig sys cfg] := by
  simp [Proc.useConfig, Proc.exec, h]

/-! ### a counter-model: clones that share a connector cache

NOT tonic.  The shape of the seeded change C15d (`connector: Arc<OnceLock<TlsConnector>>` inside
`ClientTlsConfig`, filled by `into_tls_connector`, carried along by `..self` and by `clone()`):
a configuration is a value PLUS a reference to a cell shared with everything cloned or derived
from it.  Used only to show that `C15_config_use_has_no_memory` is a statement with content: it
is false of this process. -/

structure SharedCfg (Root Chain : Type) where
  cfg : ClientTlsConfig Root Chain
  cell : Nat

structure ProcShared (Root Chain : Type) where
  cfgs : List (SharedCfg Root Chain) := []
  cells : List (Option (TlsConnector Root Chain)) := []
  eps : List (Except CfgErr (Endpoint Root Chain)) := []

def ProcShared.exec (sys : Sys Root) (p : ProcShared Root Chain) : Stmt Root Chain → ProcShared Root Chain
  | .config none ops =>
    { p with cfgs := p.cfgs ++ [{ cfg := ops.foldl ClientOp.apply {}, cell := p.cells.length }],
             cells := p.cells ++ [none] }
  | .config (some k) ops =>
    match p.cfgs[k]? with
    | some c => { p with cfgs := p.cfgs ++ [{ cfg := ops.foldl ClientOp.apply c.cfg, cell := c.cell }] }
    | none => p
  | .endpoint uri => { p with eps := p.eps ++ [.ok (Endpoint.fromShared uri)] }
  | .endpointNew uri => { p with eps := p.eps ++ [Endpoint.new sys uri] }
  | .cloneEndpoint e =>
    match p.eps[e]? with
    | some r => { p with eps := p.eps ++ [r] }
    | none => p
  | .tlsConfig e c =>
    match p.eps[e]?, p.cfgs[c]? with
    | some (.ok ep), some sc =>
      match p.cells[sc.cell]? with
      | some (some t) => { p with eps := p.eps ++ [.ok { ep with tls := some t }] }   -- cache hit
      | _ =>
        match sc.cfg.intoTlsConnector sys ep.uri with
        | .ok t => { p with eps := p.eps ++ [.ok { ep with tls := some t }], cells := p.cells.set sc.cell (some t) }
        | .error err => { p with eps := p.eps ++ [.error err] }
    | some (.error err), some _ => { p with eps := p.eps ++ [.error err] }
    | _, _ => p
  | .connect _ => p
  | .endpointNewFrom e =>
    match p.eps[e]? with
    | some (.ok ep) => { p with eps := p.eps ++ [Endpoint.newFrom sys ep] }
    | some (.error err) => { p with eps := p.eps ++ [.error err] }
    | none => p

def ProcShared.run (sys : Sys Root) (prog : List (Stmt Root Chain)) : ProcShared Root Chain :=
  prog.foldl (ProcShared.exec sys) {}

def ProcShared.useConfig (sys : Sys Root) (p : ProcShared Root Chain) (c : Nat) (uri : Uri) : ProcShared Root Chain :=
  (p.exec sys (.endpoint uri)).exec sys (.tlsConfig p.eps.length c)

end Tls
