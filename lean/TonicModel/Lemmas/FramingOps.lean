import TonicModel.Model.FramingOps
import TonicModel.Lemmas.FramingRun
/-
Consumers of a `Streaming` that use `message()` and `trailers()` besides `poll_next` (C07 audit):
the drain loop inside `trailers()` is a prefix of `Dec.run`, it terminates with the fuel
`#events + #messages + 1`, it reports exactly the stream's own first terminal result, and the
first error — whichever call returns it — is final for every later call.
-/
namespace Framing
open Spec.Framing
variable {α : Type}

def Op.isPoll : Op → Bool
  | .trailers => false
  | _ => true

/-- `message()` is `poll_next`: a consumer that never calls `trailers()` sees exactly `Dec.run`. -/
theorem runOps_polls (cd : Codec α) (cfg : DecCfg) (fuel : Nat) : ∀ (ops : List Op) (s : DecSt) (evs : List BodyEv),
    (∀ op ∈ ops, op.isPoll = true) →
    Dec.runOps cd cfg fuel ops s evs = (Dec.run cd cfg ops.length s evs).map .item := by
  intro ops
  induction ops with
  | nil => intros; rfl
  | cons op ops ih =>
    intro s evs h
    have hop := h op (by simp)
    have ih' := fun s' evs' => ih s' evs' (fun o ho => h o (List.mem_cons_of_mem _ ho))
    cases op with
    | trailers => simp [Op.isPoll] at hop
    | next => simp [Dec.runOps, Dec.stepOp, Dec.run, ih']
    | message => simp [Dec.runOps, Dec.stepOp, Dec.run, ih']

def endItem : DrainEnd → Item α
  | none => .none
  | some e => .err e

def pendingsOf : List (Item α) → Nat
  | [] => 0
  | .pending :: r => pendingsOf r + 1
  | _ :: r => pendingsOf r

/-- The drain loop is a prefix of `Dec.run`: it stops at the stream's first terminal result and
reports exactly that one (no error is swallowed, none invented), having met only messages and
`Pending`s before. -/
theorem drain_spec (cd : Codec α) (cfg : DecCfg) (n : Nat) : ∀ (s : DecSt) (evs : List BodyEv) (k : Nat)
    (s' : DecSt) (evs' : List BodyEv) (k' : Nat) (r : DrainEnd),
    Dec.drain cd cfg n s evs k = some (s', evs', k', r) →
    ∃ j pre, j ≤ n ∧ Dec.run cd cfg j s evs = pre ++ [endItem r] ∧ (∀ o ∈ pre, o.isTerminal = false) ∧
      k' = k + pendingsOf pre := by
  induction n with
  | zero => intro s evs k s' evs' k' r h; simp [Dec.drain] at h
  | succ n ih =>
    intro s evs k s' evs' k' r h
    simp only [Dec.drain] at h
    generalize hp : Dec.pollNext cd cfg s evs = p at h
    obtain ⟨s1, evs1, o⟩ := p
    cases o with
    | msg m =>
      obtain ⟨j, pre, hj, hrun, hpre, hk⟩ := ih s1 evs1 k s' evs' k' r h
      refine ⟨j + 1, .msg m :: pre, by omega, by simp [Dec.run, hp, hrun], ?_, by simpa [pendingsOf] using hk⟩
      intro o ho
      rcases List.mem_cons.mp ho with rfl | ho
      · rfl
      · exact hpre o ho
    | pending =>
      obtain ⟨j, pre, hj, hrun, hpre, hk⟩ := ih s1 evs1 (k + 1) s' evs' k' r h
      refine ⟨j + 1, .pending :: pre, by omega, by simp [Dec.run, hp, hrun], ?_, by simp [pendingsOf]; omega⟩
      intro o ho
      rcases List.mem_cons.mp ho with rfl | ho
      · rfl
      · exact hpre o ho
    | none =>
      simp only [Option.some.injEq, Prod.mk.injEq] at h
      obtain ⟨rfl, rfl, rfl, rfl⟩ := h
      exact ⟨1, [], by omega, by simp [Dec.run, hp, endItem], by simp, by simp [pendingsOf]⟩
    | err e =>
      simp only [Option.some.injEq, Prod.mk.injEq] at h
      obtain ⟨rfl, rfl, rfl, rfl⟩ := h
      exact ⟨1, [], by omega, by simp [Dec.run, hp, endItem], by simp, by simp [pendingsOf]⟩

/-- If `n` polls reach a terminal result, a drain with fuel `n` finishes. -/
theorem drain_isSome (cd : Codec α) (cfg : DecCfg) (n : Nat) : ∀ (s : DecSt) (evs : List BodyEv) (k : Nat),
    (∃ o ∈ Dec.run cd cfg n s evs, o.isTerminal = true) → (Dec.drain cd cfg n s evs k).isSome = true := by
  induction n with
  | zero => intro s evs k h; simp [Dec.run] at h
  | succ n ih =>
    intro s evs k h
    simp only [Dec.run] at h
    simp only [Dec.drain]
    generalize Dec.pollNext cd cfg s evs = p at h
    obtain ⟨s1, evs1, o⟩ := p
    cases o with
    | msg m =>
      apply ih
      obtain ⟨o, ho, ht⟩ := h
      rcases List.mem_cons.mp ho with rfl | ho
      · simp [Item.isTerminal] at ht
      · exact ⟨o, ho, ht⟩
    | pending =>
      apply ih
      obtain ⟨o, ho, ht⟩ := h
      rcases List.mem_cons.mp ho with rfl | ho
      · simp [Item.isTerminal] at ht
      · exact ⟨o, ho, ht⟩
    | none => rfl
    | err e => rfl

/-- The drain terminates from every reachable state: `#events + #messages + 1` polls are enough. -/
theorem drain_terminates (cd : Codec α) (cfg : DecCfg) (n : Nat) (s : DecSt) (evs : List BodyEv) (k : Nat)
    (hs : StateOk cfg s) (hn : evs.length + (specFrom cd cfg s (accepted cfg evs)).1.length < n) :
    (Dec.drain cd cfg n s evs k).isSome = true := by
  rcases phaseOk_or_failed cfg s with hp | ⟨st, hf | ⟨len, comp, hb, hc⟩⟩
  · exact drain_isSome cd cfg n s evs k (run_reaches_end cd cfg n s evs hp hn)
  · cases n with
    | zero => omega
    | succ n =>
      simp only [Dec.drain, pollNext_failed cd cfg s st evs hf]
      cases st <;> rfl
  · exact absurd (hs len comp hb) hc

theorem stateOk_setTrailers {cfg : DecCfg} {s : DecSt} (t : Option Tr) (h : StateOk cfg s) :
    StateOk cfg { s with trailers := t } := fun len comp hb => h len comp hb

/-- The drain keeps the reachable-state invariant, and an error it returns has latched the stream. -/
theorem drain_state (cd : Codec α) (cfg : DecCfg) (n : Nat) : ∀ (s : DecSt) (evs : List BodyEv) (k : Nat)
    (s' : DecSt) (evs' : List BodyEv) (k' : Nat) (r : DrainEnd), StateOk cfg s →
    Dec.drain cd cfg n s evs k = some (s', evs', k', r) →
    StateOk cfg s' ∧ (∀ e, r = some e → s'.ph = .failed none) := by
  induction n with
  | zero => intro s evs k s' evs' k' r _ h; simp [Dec.drain] at h
  | succ n ih =>
    intro s evs k s' evs' k' r hs h
    simp only [Dec.drain] at h
    have hstep := stateOk_step cd cfg s evs hs
    have hl := poll_err_latches cd cfg s evs
    generalize Dec.pollNext cd cfg s evs = p at h hstep hl
    obtain ⟨s1, evs1, o⟩ := p
    cases o with
    | msg m => exact ih s1 evs1 k s' evs' k' r hstep h
    | pending => exact ih s1 evs1 (k + 1) s' evs' k' r hstep h
    | none =>
      simp only [Option.some.injEq, Prod.mk.injEq] at h
      obtain ⟨rfl, rfl, rfl, rfl⟩ := h
      exact ⟨hstep, by intro e he; simp at he⟩
    | err e =>
      simp only [Option.some.injEq, Prod.mk.injEq] at h
      obtain ⟨rfl, rfl, rfl, rfl⟩ := h
      exact ⟨hstep, fun _ _ => hl e hs rfl⟩

def OpOut.isErr : OpOut α → Bool
  | .item (.err _) => true
  | .tr (.err _ _) => true
  | _ => false

/-- what a latched stream answers: `None` to a poll, at once `Ok(..)` to `trailers()` -/
def OpOut.isQuiet : OpOut α → Bool
  | .item .none => true
  | .tr (.ok 0 _) => true
  | _ => false

theorem stepOp_stateOk (cd : Codec α) (cfg : DecCfg) (fuel : Nat) (s : DecSt) (evs : List BodyEv) (op : Op)
    (hs : StateOk cfg s) :
    StateOk cfg (Dec.stepOp cd cfg fuel s evs op).1 ∧
    ((Dec.stepOp cd cfg fuel s evs op).2.2.isErr = true → (Dec.stepOp cd cfg fuel s evs op).1.ph = .failed none) := by
  have hpoll : StateOk cfg (Dec.pollNext cd cfg s evs).1 ∧
      (OpOut.isErr (.item (Dec.pollNext cd cfg s evs).2.2) = true → (Dec.pollNext cd cfg s evs).1.ph = .failed none) := by
    refine ⟨stateOk_step cd cfg s evs hs, ?_⟩
    intro he
    have hl := poll_err_latches cd cfg s evs
    generalize Dec.pollNext cd cfg s evs = p at he hl
    obtain ⟨s1, evs1, o⟩ := p
    cases o <;> simp [OpOut.isErr] at he
    exact hl _ hs rfl
  cases op with
  | next => simpa [Dec.stepOp] using hpoll
  | message => simpa [Dec.stepOp] using hpoll
  | trailers =>
    simp only [Dec.stepOp, Dec.trailersCall]
    cases ht : s.trailers with
    | some t => exact ⟨stateOk_setTrailers none hs, by simp [OpOut.isErr]⟩
    | none =>
      simp only
      cases hd : Dec.drain cd cfg fuel s evs 0 with
      | none => exact ⟨hs, by simp [OpOut.isErr]⟩
      | some q =>
        obtain ⟨s', evs', k', r⟩ := q
        have := drain_state cd cfg fuel s evs 0 s' evs' k' r hs hd
        cases r with
        | none => exact ⟨stateOk_setTrailers none this.1, by simp [OpOut.isErr]⟩
        | some e => exact ⟨this.1, fun _ => this.2 e rfl⟩

/-- a latched stream stays latched and answers every call quietly -/
theorem stepOp_latched (cd : Codec α) (cfg : DecCfg) (fuel : Nat) (hf : 0 < fuel) (s : DecSt) (evs : List BodyEv) (op : Op)
    (h : s.ph = .failed none) :
    (Dec.stepOp cd cfg fuel s evs op).1.ph = .failed none ∧ (Dec.stepOp cd cfg fuel s evs op).2.2.isQuiet = true := by
  cases op with
  | next => simp [Dec.stepOp, pollNext_failed cd cfg s none evs h, OpOut.isQuiet]
  | message => simp [Dec.stepOp, pollNext_failed cd cfg s none evs h, OpOut.isQuiet]
  | trailers =>
    simp only [Dec.stepOp, Dec.trailersCall]
    cases ht : s.trailers with
    | some t => simp [h, OpOut.isQuiet]
    | none =>
      obtain ⟨n, rfl⟩ : ∃ n, fuel = n + 1 := ⟨fuel - 1, by omega⟩
      simp [Dec.drain, pollNext_failed cd cfg s none evs h, OpOut.isQuiet]

theorem runOps_latched (cd : Codec α) (cfg : DecCfg) (fuel : Nat) (hf : 0 < fuel) : ∀ (ops : List Op) (s : DecSt) (evs : List BodyEv),
    s.ph = .failed none → ∀ x ∈ Dec.runOps cd cfg fuel ops s evs, x.isQuiet = true := by
  intro ops
  induction ops with
  | nil => intro s evs _ x hx; simp [Dec.runOps] at hx
  | cons op ops ih =>
    intro s evs h x hx
    have hl := stepOp_latched cd cfg fuel hf s evs op h
    simp only [Dec.runOps] at hx
    generalize Dec.stepOp cd cfg fuel s evs op = p at hx hl
    obtain ⟨s1, evs1, o⟩ := p
    rcases List.mem_cons.mp hx with rfl | hx
    · exact hl.2
    · exact ih s1 evs1 hl.1 x hx

/-- The first error is final for every consumer: whichever call returns the stream's error —
a poll, `message()`, or `trailers()` — every later call is answered quietly. -/
theorem runOps_first_error_final (cd : Codec α) (cfg : DecCfg) (fuel : Nat) (hf : 0 < fuel) :
    ∀ (ops : List Op) (s : DecSt) (evs : List BodyEv) (pre post : List (OpOut α)) (o : OpOut α), StateOk cfg s →
      Dec.runOps cd cfg fuel ops s evs = pre ++ o :: post → o.isErr = true → ∀ x ∈ post, x.isQuiet = true := by
  intro ops
  induction ops with
  | nil => intro s evs pre post o _ h; simp [Dec.runOps] at h
  | cons op ops ih =>
    intro s evs pre post o hs h he
    simp only [Dec.runOps] at h
    have hst := stepOp_stateOk cd cfg fuel s evs op hs
    generalize Dec.stepOp cd cfg fuel s evs op = p at h hst
    obtain ⟨s1, evs1, o1⟩ := p
    cases pre with
    | nil =>
      simp only [List.nil_append, List.cons.injEq] at h
      obtain ⟨rfl, hrest⟩ := h
      rw [← hrest]
      exact runOps_latched cd cfg fuel hf ops s1 evs1 (hst.2 he)
    | cons p pre' =>
      simp only [List.cons_append, List.cons.injEq] at h
      exact ih s1 evs1 pre' post o hst.1 h.2 he

/-! ### `Grpc::unary` / `map_request_unary` are consumers of the kind above -/

/-- the `try_next().await` of the unary callers is `message()` polled until it is ready -/
theorem firstItem_runOps (cd : Codec α) (cfg : DecCfg) (fuel : Nat) (n : Nat) : ∀ (s : DecSt) (evs : List BodyEv) (k : Nat)
    (s' : DecSt) (evs' : List BodyEv) (k' : Nat) (o : Item α),
    Dec.firstItem cd cfg n s evs k = some (s', evs', k', o) →
    o.isPending = false ∧ ∃ j, k' = k + j ∧ ∀ rest, Dec.runOps cd cfg fuel (List.replicate (j + 1) .message ++ rest) s evs
      = List.replicate j (.item .pending) ++ .item o :: Dec.runOps cd cfg fuel rest s' evs' := by
  induction n with
  | zero => intro s evs k s' evs' k' o h; simp [Dec.firstItem] at h
  | succ n ih =>
    intro s evs k s' evs' k' o h
    simp only [Dec.firstItem] at h
    generalize hp : Dec.pollNext cd cfg s evs = p at h
    obtain ⟨s1, evs1, o1⟩ := p
    cases o1 with
    | pending =>
      obtain ⟨hnp, j, hk, hrun⟩ := ih s1 evs1 (k + 1) s' evs' k' o h
      refine ⟨hnp, j + 1, by omega, ?_⟩
      intro rest
      have := hrun rest
      simp only [List.replicate_succ, List.cons_append, Dec.runOps, Dec.stepOp, hp] at this ⊢
      rw [this]
    | msg m =>
      simp only [Option.some.injEq, Prod.mk.injEq] at h
      obtain ⟨rfl, rfl, rfl, rfl⟩ := h
      exact ⟨rfl, 0, by omega, by intro rest; simp [Dec.runOps, Dec.stepOp, hp]⟩
    | none =>
      simp only [Option.some.injEq, Prod.mk.injEq] at h
      obtain ⟨rfl, rfl, rfl, rfl⟩ := h
      exact ⟨rfl, 0, by omega, by intro rest; simp [Dec.runOps, Dec.stepOp, hp]⟩
    | err e =>
      simp only [Option.some.injEq, Prod.mk.injEq] at h
      obtain ⟨rfl, rfl, rfl, rfl⟩ := h
      exact ⟨rfl, 0, by omega, by intro rest; simp [Dec.runOps, Dec.stepOp, hp]⟩

/-- how the result of a unary call reads off the consumer `message()ʲ⁺¹ ; trailers()`: `j` `Pending`s,
then the first ready result `o`, then the answer `x` of `trailers()` -/
def UnaryView (u : UnOut α) (j : Nat) (o : Item α) (x : OpOut α) : Prop :=
  match u with
  | .fuel => False
  | .missing p => p = j ∧ o = .none
  | .err p e => (p = j ∧ o = .err e) ∨ (∃ m k2, o = .msg m ∧ x = .tr (.err k2 e) ∧ p = j + k2)
  | .ok p m => ∃ k2 t, o = .msg m ∧ x = .tr (.ok k2 t) ∧ p = j + k2

theorem unaryCall_view (cd : Codec α) (cfg : DecCfg) (fuel : Nat) (s : DecSt) (evs : List BodyEv)
    (h : Dec.unaryCall cd cfg fuel s evs ≠ .fuel) :
    ∃ j o x, Dec.runOps cd cfg fuel (List.replicate (j + 1) .message ++ [.trailers]) s evs
        = List.replicate j (.item .pending) ++ [.item o, x] ∧
      UnaryView (Dec.unaryCall cd cfg fuel s evs) j o x := by
  unfold Dec.unaryCall at h ⊢
  cases hf : Dec.firstItem cd cfg fuel s evs 0 with
  | none => simp [hf] at h
  | some q =>
    obtain ⟨s', evs', k, o⟩ := q
    obtain ⟨hnp, j, hk, hrun⟩ := firstItem_runOps cd cfg fuel fuel s evs 0 s' evs' k o hf
    have hk : k = j := by omega
    subst hk
    have hr := hrun [.trailers]
    simp only [Dec.runOps, Dec.stepOp] at hr
    refine ⟨k, o, .tr (Dec.trailersCall cd cfg fuel s' evs').2.2, hr, ?_⟩
    simp only [hf] at h ⊢
    cases o with
    | pending => simp [Item.isPending] at hnp
    | none => simp [UnaryView]
    | err e => simp [UnaryView]
    | msg m =>
      simp only at h ⊢
      cases ht : (Dec.trailersCall cd cfg fuel s' evs').2.2 with
      | fuel => simp [ht] at h
      | ok k2 t => simp [UnaryView]
      | err k2 e => simp [UnaryView]

end Framing
