import TonicModel.Model.WebClient
import TonicModel.Spec.GrpcWeb
import TonicModel.Lemmas.WebClient
/-
`decode_trailers_frame` (after fix 1bfb22e3) on ARBITRARY trailer blocks: when it succeeds, the
map it returns lists every line of the block — CRLF-separated, the last one possibly without its
CRLF — with the name in lower case and the value byte for byte except the one optional space
after the colon (`Spec.GrpcWeb.readBlockLoose` / `exactPairs`).  Nothing is dropped silently.
-/
namespace WebClientLemmas
open WebClient
open Spec.GrpcWeb (looseLines splitColon readBlockLoose exactPairs dropSpace lowerName traverse)
open TMap (Pair)

theorem crlfLines_loose_aux : ∀ (n : Nat) (b : Bytes), b.length ≤ n → ∀ cur : Bytes,
    crlfLines true cur b = looseLines cur b := by
  intro n
  induction n with
  | zero =>
    intro b hb cur
    have : b = [] := List.eq_nil_of_length_eq_zero (by omega)
    subst this
    cases cur <;> simp [crlfLines, looseLines]
  | succ n ih =>
    intro b hb cur
    match b, hb with
    | [], _ => cases cur <;> simp [crlfLines, looseLines]
    | [x], _ => simp [crlfLines, looseLines]
    | a :: b :: rest, hb =>
      simp only [List.length_cons] at hb
      simp only [crlfLines, looseLines]
      split
      · rw [ih rest (by omega)]
      · exact ih (b :: rest) (by simp only [List.length_cons]; omega) (a :: cur)

theorem crlfLines_loose (cur b : Bytes) : crlfLines true cur b = looseLines cur b :=
  crlfLines_loose_aux b.length b (Nat.le_refl _) cur

/-- `splitn(2, ':')` and the oracle's split at the first colon -/
theorem splitFirst_colon : ∀ (l cur : Bytes),
    splitFirst 58 cur l =
      match splitColon l with
      | some (k, v) => (cur.reverse ++ k, some v)
      | none => (cur.reverse ++ l, none) := by
  intro l
  induction l with
  | nil => intro cur; simp [splitFirst, splitColon]
  | cons b r ih =>
    intro cur
    by_cases hb : b = 58
    · subst hb; simp [splitFirst, splitColon]
    · simp only [splitFirst, hb, if_false, splitColon, ih (b :: cur)]
      cases splitColon r with
      | none => simp
      | some p => simp

theorem nameByte_lower_tab : ∀ n : Fin 256,
    (headerNameByte (UInt8.ofNat n.val)).all (· == Ascii.toLower (UInt8.ofNat n.val)) = true := by
  decide +kernel

theorem nameByte_lower (b c : UInt8) (h : headerNameByte b = some c) : c = Ascii.toLower b := by
  have := nameByte_lower_tab ⟨b.toNat, b.toNat_lt⟩
  simp only [UInt8.ofNat_toNat] at this
  rw [h] at this
  simpa using this

theorem mapOpt_nameByte : ∀ (k k' : Bytes), mapOpt headerNameByte k = some k' → k' = lowerName k := by
  intro k
  induction k with
  | nil => intro k' h; simp [mapOpt] at h; subst h; rfl
  | cons b r ih =>
    intro k' h
    simp only [mapOpt] at h
    cases hb : headerNameByte b with
    | none => simp [hb] at h
    | some c =>
      cases hr : mapOpt headerNameByte r with
      | none => simp [hb, hr] at h
      | some r' =>
        simp only [hb, hr, Option.some.injEq] at h
        subst h
        simp [lowerName, nameByte_lower b c hb, ih r' hr] 

theorem parseName_lower (k k' : Bytes) (h : parseName k = some k') : k' = lowerName k := by
  simp only [parseName] at h
  split at h
  · cases h
  · exact mapOpt_nameByte k k' h

theorem parseValue_id (v v' : Bytes) (h : parseValue v = some v') : v' = v := by
  simp only [parseValue] at h
  split at h
  · cases h; rfl
  · cases h

theorem stripSpace_drop (v : Bytes) : stripSpace true v = dropSpace v := by
  simp only [stripSpace, if_true]
  match v with
  | [] => rfl
  | b :: r =>
    by_cases hb : b = 32
    · subst hb; rfl
    · simp only [dropSpace]
      split
      · rename_i r' heq
        simp only [List.cons.injEq] at heq
        exact absurd heq.1 hb
      · split
        · rename_i r' heq
          simp only [List.cons.injEq] at heq
          exact absurd heq.1 hb
        · rfl

/-- a line the (repaired) code accepts is `name:value`, and it is stored with the name in lower
case and the value minus the optional space — nothing else changes -/
theorem parseLine_exact (line : Bytes) (p : Pair) (h : parseLine true line = some p) :
    ∃ raw : Pair, splitColon line = some raw ∧ p = (lowerName raw.1, dropSpace raw.2) := by
  simp only [parseLine, lineKV, if_true] at h
  rw [splitFirst_colon] at h
  cases hs : splitColon line with
  | none => simp [hs] at h
  | some raw =>
    obtain ⟨k, v⟩ := raw
    simp only [hs, List.reverse_nil, List.nil_append] at h
    cases hk : parseName k with
    | none => simp [hk] at h
    | some k' =>
      cases hv : parseValue (stripSpace true v) with
      | none => simp [hk, hv] at h
      | some v' =>
        simp only [hk, hv, Option.some.injEq] at h
        refine ⟨(k, v), rfl, ?_⟩
        rw [← h, parseName_lower k k' hk, parseValue_id _ v' hv, stripSpace_drop]

theorem mapOpt_parseLine : ∀ (ls : List Bytes) (ps : List Pair),
    mapOpt (fun l => parseLine true l) ls = some ps →
    ∃ raw : List Pair, traverse splitColon ls = some raw ∧ ps = exactPairs raw := by
  intro ls
  induction ls with
  | nil => intro ps h; simp [mapOpt] at h; subst h; exact ⟨[], rfl, rfl⟩
  | cons l r ih =>
    intro ps h
    simp only [mapOpt] at h
    cases hl : parseLine true l with
    | none => simp [hl] at h
    | some p =>
      cases hr : mapOpt (fun l => parseLine true l) r with
      | none => simp [hl, hr] at h
      | some ps' =>
        simp only [hl, hr, Option.some.injEq] at h
        subst h
        obtain ⟨raw1, hs1, hp⟩ := parseLine_exact l p hl
        obtain ⟨raws, hs2, hps⟩ := ih ps' hr
        refine ⟨raw1 :: raws, ?_, ?_⟩
        · simp [traverse, hs1, hs2]
        · simp [exactPairs, hp, hps]

/-- **Nothing of a trailers block is dropped silently**: if the trailers frame decodes, its map
is every line of the block (the last one possibly unterminated), each with its name in lower case
and its full value. -/
theorem decode_lists_every_line (blk : Bytes) (ps : List Pair)
    (h : decodeTrailersFrame true (Spec.GrpcWeb.rawFrame 128 blk) = some (some ps)) :
    ∃ raw : List Pair, readBlockLoose blk = some raw ∧ ps = exactPairs raw := by
  have hlen : ¬ (Spec.GrpcWeb.rawFrame 128 blk).length < 5 := by
    rw [rawFrame_length]; omega
  have hdrop : (Spec.GrpcWeb.rawFrame 128 blk).drop 5 = blk := by
    simp [Spec.GrpcWeb.rawFrame, u32be]
  simp only [decodeTrailersFrame, hlen, if_false, hdrop, crlfLines_loose, if_true] at h
  cases hm : mapOpt (fun l => parseLine true l) (looseLines [] blk) with
  | none => simp [hm] at h
  | some ps' =>
    simp only [hm, Option.some.injEq] at h
    subst h
    exact mapOpt_parseLine _ _ hm

/-- a complete frame never gives `Ok(None)` -/
theorem decode_rawFrame_ne_none (blk : Bytes) :
    decodeTrailersFrame true (Spec.GrpcWeb.rawFrame 128 blk) ≠ some none := by
  have hlen : ¬ (Spec.GrpcWeb.rawFrame 128 blk).length < 5 := by
    rw [rawFrame_length]; omega
  simp only [decodeTrailersFrame, hlen, if_false]
  split <;> simp

end WebClientLemmas
