import TonicModel.Basic.Utf8
import TonicModel.Basic.Utf8Rust
/-
The two models of Rust's `str::from_utf8` in this tree accept the same byte strings:
`Utf8.valid` (a byte-at-a-time state machine after `run_utf8_validation`, with the error
positions; used by C04's header model) and `Utf8Rust.valid` (Unicode table 3-7 written out as
nested matches; used by the prost wire model, the C20 domain predicates and `Spec/RichError`).
-/
namespace Utf8Agree
open Utf8

theorem isNone_inChar (bs : Bytes) (i s seen k lo hi : Nat) :
    (scan bs i (.inChar s seen k lo hi)).isNone =
      match bs with
      | [] => false
      | b :: rest => decide (lo ≤ b.toNat ∧ b.toNat ≤ hi) &&
          (if k ≤ 1 then (scan rest (i + 1) .idle).isNone
           else (scan rest (i + 1) (.inChar s (seen + 1) (k - 1) 128 191)).isNone) := by
  cases bs with
  | nil => rfl
  | cons b rest =>
    simp only [scan]
    by_cases h : lo ≤ b.toNat ∧ b.toNat ≤ hi
    · rw [if_pos h, decide_eq_true h, Bool.true_and]
      split <;> rfl
    · rw [if_neg h, decide_eq_false h, Bool.false_and]; rfl

/-- one continuation byte in `lo..hi`, then back between characters -/
theorem one (rest : Bytes) (i s seen lo hi : Nat) :
    (scan rest i (.inChar s seen 1 lo hi)).isNone =
      match rest with
      | [] => false
      | b :: r => decide (lo ≤ b.toNat ∧ b.toNat ≤ hi) && (scan r (i + 1) .idle).isNone := by
  rw [isNone_inChar]; cases rest <;> simp

theorem two (rest : Bytes) (i s seen lo hi : Nat) :
    (scan rest i (.inChar s seen 2 lo hi)).isNone =
      match rest with
      | b :: c :: r => decide (lo ≤ b.toNat ∧ b.toNat ≤ hi) && (decide (128 ≤ c.toNat ∧ c.toNat ≤ 191) &&
          (scan r (i + 1 + 1) .idle).isNone)
      | _ => false := by
  rw [isNone_inChar]
  match rest with
  | [] => rfl
  | [b] => simp [one]
  | b :: c :: r => simp [one]

theorem three (rest : Bytes) (i s seen lo hi : Nat) :
    (scan rest i (.inChar s seen 3 lo hi)).isNone =
      match rest with
      | b :: c :: d :: r => decide (lo ≤ b.toNat ∧ b.toNat ≤ hi) && (decide (128 ≤ c.toNat ∧ c.toNat ≤ 191) &&
          (decide (128 ≤ d.toNat ∧ d.toNat ≤ 191) && (scan r (i + 1 + 1 + 1) .idle).isNone))
      | _ => false := by
  rw [isNone_inChar]
  match rest with
  | [] => rfl
  | [b] => simp [two]
  | [b, c] => simp [two]
  | b :: c :: d :: r => simp [two]


theorem inRange_iff (lo hi : Nat) (b : UInt8) :
    Utf8Rust.inRange lo hi b = decide (lo ≤ b.toNat ∧ b.toNat ≤ hi) := by
  simp [Utf8Rust.inRange, Bool.decide_and]

theorem agree : ∀ (n : Nat) (bs : Bytes), bs.length ≤ n → ∀ i, (scan bs i .idle).isNone = Utf8Rust.valid bs := by
  intro n
  induction n with
  | zero =>
    intro bs h i
    have : bs = [] := List.eq_nil_of_length_eq_zero (by omega)
    subst this; rfl
  | succ n ih =>
    intro bs h i
    match bs, h with
    | [], _ => rfl
    | a :: rest, h =>
      have hl : rest.length ≤ n := by simp at h; omega
      by_cases h1 : a.toNat < 128
      · rw [Utf8Rust.valid.eq_def]
        simp only [scan, h1, if_true]
        exact ih rest hl _
      · by_cases h2 : 194 ≤ a.toNat ∧ a.toNat ≤ 223
        · simp only [scan, h1, if_false, h2, and_self, if_true]
          rw [one]
          match rest, hl with
          | [], _ => (rw [Utf8Rust.valid.eq_def]; simp [h1])
          | b :: r, hl =>
            have hr : r.length ≤ n := by simp at hl; omega
            rw [Utf8Rust.valid.eq_def]
            simp only [h1, if_false, inRange_iff, Utf8Rust.cont, h2, and_self, decide_true, if_true]
            rw [ih r hr]
        · by_cases h3 : 224 ≤ a.toNat ∧ a.toNat ≤ 239
          · simp only [scan, h1, if_false, h2, h3, and_self, if_true]
            rw [two]
            match rest, hl with
            | [], _ => rw [Utf8Rust.valid.eq_def]; simp [h1]
            | [b], _ => rw [Utf8Rust.valid.eq_def]; simp [h1, inRange_iff, h2]
            | b :: c :: r, hl =>
              have hr : r.length ≤ n := by simp at hl; omega
              rw [Utf8Rust.valid.eq_def]
              simp only [h1, if_false, inRange_iff, Utf8Rust.cont, h2, decide_false, Bool.false_eq_true]
              rw [ih r hr]
              by_cases e0 : a.toNat = 224
              · simp [e0, Bool.and_assoc]
              · by_cases ed : a.toNat = 237
                · simp [ed, Bool.and_assoc]
                · have hm : (225 ≤ a.toNat ∧ a.toNat ≤ 236) ∨ (238 ≤ a.toNat ∧ a.toNat ≤ 239) := by omega
                  simp [e0, ed, hm, Bool.and_assoc]
          · by_cases h4 : 240 ≤ a.toNat ∧ a.toNat ≤ 244
            · simp only [scan, h1, if_false, h2, h3, h4, and_self, if_true]
              rw [three]
              have hE : ¬ ((225 ≤ a.toNat ∧ a.toNat ≤ 236) ∨ (238 ≤ a.toNat ∧ a.toNat ≤ 239)) := by omega
              have hE0 : ¬ a.toNat = 224 := by omega
              have hED : ¬ a.toNat = 237 := by omega
              match rest, hl with
              | [], _ => rw [Utf8Rust.valid.eq_def]; simp [h1]
              | [b], _ => rw [Utf8Rust.valid.eq_def]; simp [h1, inRange_iff, h2]
              | [b, c], _ => rw [Utf8Rust.valid.eq_def]; simp [h1, inRange_iff, h2, hE, hE0, hED]
              | b :: c :: d :: r, hl =>
                have hr : r.length ≤ n := by simp at hl; omega
                rw [Utf8Rust.valid.eq_def]
                simp only [h1, if_false, inRange_iff, Utf8Rust.cont, h2, decide_false, Bool.false_eq_true,
                  hE0, hED]
                rw [ih r hr]
                by_cases f0 : a.toNat = 240
                · simp [f0, Bool.and_assoc]
                · by_cases f4 : a.toNat = 244
                  · simp [f4, Bool.and_assoc]
                  · have hm : 241 ≤ a.toNat ∧ a.toNat ≤ 243 := by omega
                    simp [f0, f4, hm, hE, Bool.and_assoc]
            · simp only [scan, h1, if_false, h2, h3, h4]
              have hE : ¬ ((225 ≤ a.toNat ∧ a.toNat ≤ 236) ∨ (238 ≤ a.toNat ∧ a.toNat ≤ 239)) := by omega
              have hE0 : ¬ a.toNat = 224 := by omega
              have hED : ¬ a.toNat = 237 := by omega
              have hF0 : ¬ a.toNat = 240 := by omega
              have hF4 : ¬ a.toNat = 244 := by omega
              have hF : ¬ (241 ≤ a.toNat ∧ a.toNat ≤ 243) := by omega
              rw [Utf8Rust.valid.eq_def]
              match rest with
              | [] => simp [h1]
              | [b] => simp [h1, inRange_iff, h2]
              | [b, c] => simp [h1, inRange_iff, h2, hE, hE0, hED]
              | b :: c :: d :: r => simp [h1, inRange_iff, h2, hE, hE0, hED, hF0, hF4, hF]

/-- **The two models of `str::from_utf8` accept the same byte strings.** -/
theorem valid_eq (bs : Bytes) : Utf8.valid bs = Utf8Rust.valid bs :=
  agree bs.length bs (Nat.le_refl _) 0
end Utf8Agree
