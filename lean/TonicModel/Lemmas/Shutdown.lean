import TonicModel.Model.Shutdown
/-
Invariants of the shutdown transition system (C13) and their preservation by every step.
-/
namespace Shutdown

/-- per-call invariant -/
structure CallOk (k : Call) : Prop where
  /-- unless the request timeout cut the call: written ++ still to come = the handler's outcome -/
  plan_eq : k.expired = false → k.sent ++ k.todo.flatten = k.plan
  /-- a call cut by the request timeout carries the server's answer and nothing else -/
  expired_eq : k.expired = true → k.sent = [.expired] ∧ k.todo = []
  recv_le : k.recv ≤ k.sent.length
  unstarted : k.started = false → k.sent = []
  /-- before the handler has returned its response nothing has been written -/
  nohead : k.headDone = false → k.expired = false → k.sent = []
  /-- the request timeout never cuts a call that is past its response head -/
  expired_nohead : k.expired = true → k.headDone = false

/-- a rewrite of a call that leaves alone everything the call invariant talks about -/
theorem CallOk.congr {k k' : Call} (h : CallOk k) (hp : k'.plan = k.plan) (ht : k'.todo = k.todo)
    (hs : k'.sent = k.sent) (he : k'.expired = k.expired) (hh : k'.headDone = k.headDone)
    (hr : k'.recv ≤ k.sent.length) (hst : k'.started = false → k.sent = []) : CallOk k' := by
  refine ⟨?_, ?_, ?_, ?_, ?_, ?_⟩
  · intro e; rw [hs, ht, hp]; exact h.plan_eq (he ▸ e)
  · intro e; rw [hs, ht]; exact h.expired_eq (he ▸ e)
  · rw [hs]; exact hr
  · intro e; rw [hs]; exact hst e
  · intro e1 e2; rw [hs]; exact h.nohead (hh ▸ e1) (he ▸ e2)
  · intro e; rw [hh]; exact h.expired_nohead (he ▸ e)

/-- per-connection invariant, relative to the globals it mentions
(`gr` = cfgGraceful, `bi` = cfgBiased, `snt` = sent, `res` = resolved, `sr` = sigReady) -/
structure ConnOk (gr bi snt res sr : Bool) (cn : Conn) : Prop where
  watcher_acc : cn.watcher = true → cn.accepted = true ∧ gr = true
  open_watched : cn.accepted = true → cn.closed = false → gr = true → cn.watcher = true
  sawSig_sent : cn.sawSig = true → snt = true
  graceful_src : cn.graceful = true → cn.sawSig = true ∨ cn.ageFired = true
  sawSig_graceful : cn.sawSig = true → cn.graceful = true
  final_imp : cn.final = true → cn.graceful = true ∧ cn.hs = true
  closed_acc : cn.closed = true → cn.accepted = true
  hs_acc : cn.hs = true → cn.accepted = true
  pending_nacc : cn.pending = true → cn.accepted = false
  started_hs : ∀ k ∈ cn.calls, k.started = true → cn.hs = true
  closed_calls : cn.closed = true → cn.peerGone = false →
    ∀ k ∈ cn.calls, k.started = true → k.cancelled = false → k.complete = true
  calls_ok : ∀ k ∈ cn.calls, CallOk k
  late_ready : cn.offeredAfterSig = true → sr = true
  late : bi = true → cn.offeredAfterSig = true → cn.accepted = false
  resolved_closed : res = true → gr = true → cn.accepted = true → cn.closed = true
  resolved_npending : res = true → cn.pending = false

structure Good (s : State) : Prop where
  taken_stop : s.sigTaken = true → s.loopRunning = false
  after_stop : s.afterDone = true → s.loopRunning = false
  sent_after : s.sent = true → s.afterDone = true
  after_sent : s.afterDone = true → s.cfgGraceful = true → s.sent = true
  resolved_after : s.resolved = true → s.afterDone = true
  mainRx_eq : s.mainRx = !s.afterDone
  sig_graceful : s.sigReady = true → s.cfgGraceful = true
  open_zero : s.resolved = true → s.cfgGraceful = true → s.openAtResolve = 0
  conns : ∀ cn ∈ s.conns, ConnOk s.cfgGraceful s.cfgBiased s.sent s.resolved s.sigReady cn

theorem ConnOk.mono {gr bi snt res sr snt' res' sr' : Bool} {cn : Conn}
    (h : ConnOk gr bi snt res sr cn) (h1 : snt = true → snt' = true)
    (h2 : res' = true → res = true) (h3 : sr = true → sr' = true) :
    ConnOk gr bi snt' res' sr' cn :=
  { h with
    sawSig_sent := fun a => h1 (h.sawSig_sent a)
    late_ready := fun a => h3 (h.late_ready a)
    resolved_closed := fun a => h.resolved_closed (h2 a)
    resolved_npending := fun a => h.resolved_npending (h2 a) }

theorem callOk_new (chunks : List (List Item)) (req : Nat) : CallOk (Call.new chunks req) :=
  ⟨by simp [Call.new], by simp [Call.new], by simp [Call.new], by simp [Call.new],
   by simp [Call.new], by simp [Call.new]⟩

theorem connOk_new (gr bi snt res sr p : Bool) (hp : res = true → p = false) :
    ConnOk gr bi snt res sr (Conn.new p sr) := by
  constructor <;> simp_all [Conn.new]

theorem connOk_newTls (gr bi snt res sr p go bad : Bool) (hp : res = true → p = false) :
    ConnOk gr bi snt res sr (Conn.newTls p sr go bad) := by
  constructor <;> simp_all [Conn.newTls, Conn.new]

theorem good_init (g b a t : Bool) : Good (init g b a t) := by
  constructor <;> simp [init]

-- ------------------------------------------------------------------ generic update lemmas

theorem updConn_some {s s' : State} {c : Nat} {g : Conn → Bool} {f : Conn → Conn}
    (h : updConn s c g f = some s') :
    ∃ cn, s.conns[c]? = some cn ∧ g cn = true ∧ s' = { s with conns := s.conns.set c (f cn) } := by
  unfold updConn at h
  split at h
  · rename_i cn hc
    split at h
    · exact ⟨cn, hc, by assumption, by cases h; rfl⟩
    · cases h
  · cases h

theorem updCall_some {s s' : State} {c j : Nat} {g : Conn → Call → Bool} {f : Call → Call}
    (h : updCall s c j g f = some s') :
    ∃ cn k, s.conns[c]? = some cn ∧ cn.calls[j]? = some k ∧ g cn k = true ∧
      s' = { s with conns := s.conns.set c { cn with calls := cn.calls.set j (f k) } } := by
  unfold updCall at h
  split at h
  · rename_i cn hc
    split at h
    · rename_i k hk
      split at h
      · exact ⟨cn, k, hc, hk, by assumption, by cases h; rfl⟩
      · cases h
    · cases h
  · cases h

theorem mem_of_getElem? {α} {l : List α} {i : Nat} {a : α} (h : l[i]? = some a) : a ∈ l :=
  List.mem_of_getElem? h

theorem mem_set {α} {l : List α} {i : Nat} {a x : α} (h : x ∈ l.set i a) : x = a ∨ x ∈ l := by
  rcases List.mem_or_eq_of_mem_set h with h | h
  · exact Or.inr h
  · exact Or.inl h

/-- A step that rewrites one connection (guarded) preserves `Good` if the rewrite preserves the
connection invariant. -/
theorem good_updConn {s s' : State} {c : Nat} {g : Conn → Bool} {f : Conn → Conn}
    (hg : Good s) (h : updConn s c g f = some s')
    (hf : ∀ cn ∈ s.conns, g cn = true →
      ConnOk s.cfgGraceful s.cfgBiased s.sent s.resolved s.sigReady cn →
      ConnOk s.cfgGraceful s.cfgBiased s.sent s.resolved s.sigReady (f cn)) : Good s' := by
  obtain ⟨cn, hc, hgd, rfl⟩ := updConn_some h
  have hm := mem_of_getElem? hc
  refine { hg with conns := ?_ }
  intro x hx
  rcases mem_set hx with rfl | hx
  · exact hf cn hm hgd (hg.conns cn hm)
  · exact hg.conns x hx

/-- A step that rewrites one call (guarded) preserves `Good` if the connection invariant
survives. -/
theorem good_updCall {s s' : State} {c j : Nat} {g : Conn → Call → Bool} {f : Call → Call}
    (hg : Good s) (h : updCall s c j g f = some s')
    (hf : ∀ cn ∈ s.conns, ∀ k ∈ cn.calls, cn.calls[j]? = some k → g cn k = true →
      ConnOk s.cfgGraceful s.cfgBiased s.sent s.resolved s.sigReady cn →
      ConnOk s.cfgGraceful s.cfgBiased s.sent s.resolved s.sigReady
        { cn with calls := cn.calls.set j (f k) }) : Good s' := by
  obtain ⟨cn, k, hc, hk, hgd, rfl⟩ := updCall_some h
  have hm := mem_of_getElem? hc
  refine { hg with conns := ?_ }
  intro x hx
  rcases mem_set hx with rfl | hx
  · exact hf cn hm k (mem_of_getElem? hk) hk hgd (hg.conns cn hm)
  · exact hg.conns x hx

/-- rewriting one call with something that keeps the call facts the connection invariant needs -/
theorem connOk_setCall {gr bi snt res sr : Bool} {cn : Conn} {j : Nat} {k k' : Call}
    (h : ConnOk gr bi snt res sr cn) (hk : cn.calls[j]? = some k)
    (h1 : k'.started = true → cn.hs = true)
    (h2 : cn.closed = true → cn.peerGone = false → k'.started = true → k'.cancelled = false →
      k'.complete = true)
    (h3 : CallOk k') :
    ConnOk gr bi snt res sr { cn with calls := cn.calls.set j k' } := by
  have _ := hk
  refine { h with started_hs := ?_, closed_calls := ?_, calls_ok := ?_ }
  · intro x hx
    rcases mem_set hx with rfl | hx
    · exact h1
    · exact h.started_hs x hx
  · intro hc hp x hx
    rcases mem_set hx with rfl | hx
    · exact h2 hc hp
    · exact h.closed_calls hc hp x hx
  · intro x hx
    rcases mem_set hx with rfl | hx
    · exact h3
    · exact h.calls_ok x hx

-- ------------------------------------------------------------------ facts used by several cases

theorem Good.running_not_resolved {s : State} (hg : Good s) (h : s.loopRunning = true) :
    s.resolved = false := by
  cases hr : s.resolved with
  | false => rfl
  | true => have := hg.after_stop (hg.resolved_after hr); simp_all

theorem Good.running_not_taken {s : State} (hg : Good s) (h : s.loopRunning = true) :
    s.sigTaken = false := by
  cases hr : s.sigTaken with
  | false => rfl
  | true => have := hg.taken_stop hr; simp_all

theorem countP_zero_of {α} {p : α → Bool} {l : List α} (h : l.countP p = 0) :
    ∀ a ∈ l, p a = false := by
  intro a ha
  have := (List.countP_eq_zero.1 h) a ha
  simpa using this

theorem Good.all_closed_of_no_receivers {s : State} (hg : Good s) (hgr : s.cfgGraceful = true)
    (h0 : receiverCount s = 0) : ∀ cn ∈ s.conns, cn.accepted = true → cn.closed = true := by
  intro cn hcn hacc
  have hw : s.conns.countP (·.watcher) = 0 := by unfold receiverCount at h0; omega
  have hnw := countP_zero_of hw cn hcn
  cases hc : cn.closed with
  | true => rfl
  | false =>
    have := (hg.conns cn hcn).open_watched hacc hc hgr
    simp_all

-- ------------------------------------------------------------------ every step preserves `Good`

theorem good_step {s s' : State} {l : Label} (hg : Good s) (h : step s l = some s') : Good s' := by
  cases l with
  | offer =>
    simp only [step, Option.some.injEq] at h
    subst h
    refine { hg with conns := ?_ }
    intro x hx
    rcases List.mem_append.1 hx with hx | hx
    · exact hg.conns x hx
    · simp only [List.mem_singleton] at hx
      subst hx
      exact connOk_new _ _ _ _ _ _ (by intro hr; have hr' : s.resolved = true := hr; simp [hr'])
  | offerTls go bad =>
    simp only [step, Option.some.injEq] at h
    subst h
    refine { hg with conns := ?_ }
    intro x hx
    rcases List.mem_append.1 hx with hx | hx
    · exact hg.conns x hx
    · simp only [List.mem_singleton] at hx
      subst hx
      exact connOk_newTls _ _ _ _ _ _ _ _ (by intro hr; have hr' : s.resolved = true := hr; simp [hr'])
  | clientHello c =>
    refine good_updConn hg h ?_
    intro cn _ _ hk
    exact { hk with watcher_acc := hk.watcher_acc }
  | tlsTake c =>
    simp only [step] at h
    split at h
    · refine good_updConn hg h ?_
      intro cn _ _ hk
      exact { hk with watcher_acc := hk.watcher_acc }
    · cases h
  | tlsDone c =>
    refine good_updConn hg h ?_
    intro cn _ _ hk
    exact { hk with watcher_acc := hk.watcher_acc }
  | tlsFail c =>
    refine good_updConn hg h ?_
    intro cn _ hgd hk
    simp only [Bool.and_eq_true] at hgd
    exact { hk with
      pending_nacc := fun hp => by simp at hp
      resolved_npending := fun _ => rfl }
  | sigFire =>
    simp only [step] at h
    split at h
    · rename_i hc
      simp only [Bool.and_eq_true] at hc
      cases h
      exact { hg with
        sig_graceful := fun _ => hc.1
        conns := fun cn hcn => (hg.conns cn hcn).mono id id (fun _ => rfl) }
    · cases h
  | endIncoming =>
    simp only [step] at h
    split at h
    · cases h; exact { hg with conns := hg.conns }
    · cases h
  | acceptErr =>
    simp only [step] at h
    split at h
    · cases h; exact { hg with conns := hg.conns }
    · cases h
  | issue c chunks req =>
    refine good_updConn hg h ?_
    intro cn _ _ hk
    refine { hk with started_hs := ?_, closed_calls := ?_, calls_ok := ?_ }
    · intro k hkm
      rcases List.mem_append.1 hkm with hkm | hkm
      · exact hk.started_hs k hkm
      · simp only [List.mem_singleton] at hkm; subst hkm; simp [Call.new]
    · intro hc hp k hkm
      rcases List.mem_append.1 hkm with hkm | hkm
      · exact hk.closed_calls hc hp k hkm
      · simp only [List.mem_singleton] at hkm; subst hkm; simp [Call.new]
    · intro k hkm
      rcases List.mem_append.1 hkm with hkm | hkm
      · exact hk.calls_ok k hkm
      · simp only [List.mem_singleton] at hkm; subst hkm; exact callOk_new _ _
  | reqSend c j =>
    refine good_updCall hg h ?_
    intro cn _ k hkm hkj _ hk
    have hc := hk.calls_ok k hkm
    exact connOk_setCall hk hkj (hk.started_hs k hkm)
      (fun a b => hk.closed_calls a b k hkm) (hc.congr rfl rfl rfl rfl rfl hc.recv_le hc.unstarted)
  | permit c j =>
    refine good_updCall hg h ?_
    intro cn _ k hkm hkj _ hk
    have hc := hk.calls_ok k hkm
    exact connOk_setCall hk hkj (hk.started_hs k hkm)
      (fun a b => hk.closed_calls a b k hkm) (hc.congr rfl rfl rfl rfl rfl hc.recv_le hc.unstarted)
  | freeRun =>
    simp only [step, Option.some.injEq] at h
    subst h
    exact { hg with conns := hg.conns }
  | peerDrop c =>
    refine good_updConn hg h ?_
    intro cn _ _ hk
    refine { hk with started_hs := ?_, closed_calls := ?_, calls_ok := ?_ }
    · intro k hkm
      obtain ⟨k0, hk0, rfl⟩ := List.mem_map.1 hkm
      exact hk.started_hs k0 hk0
    · intro _ hp; simp at hp
    · intro k hkm
      obtain ⟨k0, hk0, rfl⟩ := List.mem_map.1 hkm
      have hc := hk.calls_ok k0 hk0
      exact hc.congr rfl rfl rfl rfl rfl hc.recv_le hc.unstarted
  | cancel c j =>
    refine good_updCall hg h ?_
    intro cn _ k hkm hkj _ hk
    have hc := hk.calls_ok k hkm
    exact connOk_setCall hk hkj (hk.started_hs k hkm)
      (fun _ _ _ hcan => by simp at hcan) (hc.congr rfl rfl rfl rfl rfl hc.recv_le hc.unstarted)
  | ageTick c =>
    simp only [step] at h
    split at h
    · refine good_updConn hg h ?_
      intro cn _ _ hk
      exact { hk with watcher_acc := hk.watcher_acc }
    · cases h
  | loopSig =>
    simp only [step] at h
    split at h
    · cases h
      exact { hg with
        taken_stop := fun _ => rfl
        after_stop := fun _ => rfl
        conns := hg.conns }
    · cases h
  | loopAccept c =>
    simp only [step] at h
    split at h
    · rename_i hib
      simp only [incomingBranch, sigBranchReady, Bool.and_eq_true, Bool.not_eq_true',
        Bool.and_eq_false_iff] at hib
      have hrun := hib.1
      have hres := hg.running_not_resolved hrun
      have htk := hg.running_not_taken hrun
      refine good_updConn hg h ?_
      intro cn _ hpend hk
      refine { hk with
        watcher_acc := fun hw => ⟨rfl, hw⟩
        open_watched := fun _ _ hgr => hgr
        closed_acc := fun _ => rfl
        hs_acc := fun _ => rfl
        pending_nacc := fun hp => by simp at hp
        late := ?_
        resolved_closed := fun hr => by simp [hres] at hr
        resolved_npending := fun _ => rfl }
      intro hbi hoff
      have hsr := hk.late_ready hoff
      rcases hib.2 with hb | hb
      · simp [hbi] at hb
      · rcases hb with hb | hb
        · simp [hsr] at hb
        · simp [htk] at hb
    · cases h
  | loopErr =>
    simp only [step] at h
    split at h
    · cases h; exact { hg with conns := hg.conns }
    · cases h
  | loopEnd =>
    simp only [step] at h
    split at h
    · cases h
      exact { hg with
        taken_stop := fun _ => rfl
        after_stop := fun _ => rfl
        conns := hg.conns }
    · cases h
  | afterLoop =>
    simp only [step] at h
    split at h
    · rename_i hc
      simp only [Bool.and_eq_true, Bool.not_eq_true'] at hc
      cases h
      have hns : s.sent = false := by
        cases hs : s.sent with
        | false => rfl
        | true => have := hg.sent_after hs; simp_all
      exact {
        taken_stop := hg.taken_stop
        after_stop := fun _ => hc.1
        sent_after := fun _ => rfl
        after_sent := fun _ hgr => hgr
        resolved_after := fun _ => rfl
        mainRx_eq := rfl
        sig_graceful := hg.sig_graceful
        open_zero := hg.open_zero
        conns := fun cn hcn => (hg.conns cn hcn).mono (by simp [hns]) id id }
    · cases h
  | resolve =>
    simp only [step] at h
    split at h
    · rename_i hc
      simp only [Bool.and_eq_true, Bool.not_eq_true', Bool.or_eq_true, beq_iff_eq] at hc
      cases h
      have hclosed : s.cfgGraceful = true → ∀ cn ∈ s.conns, cn.accepted = true → cn.closed = true := by
        intro hgr
        rcases hc.2 with hx | hx
        · simp [hgr] at hx
        · exact hg.all_closed_of_no_receivers hgr hx
      exact {
        taken_stop := hg.taken_stop
        after_stop := hg.after_stop
        sent_after := hg.sent_after
        after_sent := hg.after_sent
        resolved_after := fun _ => hc.1.1
        mainRx_eq := hg.mainRx_eq
        sig_graceful := hg.sig_graceful
        open_zero := by
          intro _ hgr
          show openCount s = 0
          unfold openCount
          apply List.countP_eq_zero.2
          intro cn hcn
          have := hclosed hgr cn hcn
          unfold Conn.isOpen
          cases ha : cn.accepted <;> simp_all
        conns := by
          intro x hx
          obtain ⟨cn, hcn, rfl⟩ := List.mem_map.1 hx
          have hk := hg.conns cn hcn
          exact { hk with
            pending_nacc := fun hp => by simp at hp
            sawSig_sent := hk.sawSig_sent
            late_ready := hk.late_ready
            resolved_closed := fun _ hgr => hclosed hgr cn hcn
            resolved_npending := fun _ => rfl } }
    · cases h
  | connSig c =>
    refine good_updConn hg h ?_
    intro cn _ hgd hk
    simp only [Bool.and_eq_true, Bool.not_eq_true'] at hgd
    exact { hk with
      sawSig_sent := fun _ => hgd.1.2
      graceful_src := fun _ => Or.inl rfl
      sawSig_graceful := fun _ => rfl
      final_imp := fun hf => ⟨rfl, (hk.final_imp hf).2⟩ }
  | connAge c =>
    refine good_updConn hg h ?_
    intro cn _ hgd hk
    exact { hk with
      graceful_src := fun _ => Or.inr rfl
      sawSig_graceful := fun _ => rfl
      final_imp := fun hf => ⟨rfl, (hk.final_imp hf).2⟩ }
  | connBreak c =>
    refine good_updConn hg h ?_
    intro cn _ hgd hk
    simp only [Bool.and_eq_true, Bool.not_eq_true'] at hgd
    refine { hk with
      open_watched := fun _ hcl => by simp at hcl
      closed_acc := fun _ => hgd.1.1
      closed_calls := ?_
      resolved_closed := fun _ _ _ => rfl }
    intro _ hp k hkm hst hcan
    have hd := hgd.2
    simp only [hyperConnDone, Bool.or_eq_true, Bool.and_eq_true, Bool.not_eq_true',
      List.all_eq_true] at hd
    have hp' : cn.peerGone = false := hp
    rcases hd with (hd | hd) | hd
    · simp [hp'] at hd
    · have := hk.started_hs k hkm hst
      simp [this] at hd
    · have := hd.2 k hkm
      simp only [Call.settled, Bool.or_eq_true, Bool.not_eq_true'] at this
      rcases this with (h1 | h1) | h1
      · simp [hst] at h1
      · simp [hcan] at h1
      · exact h1
  | connDropWatcher c =>
    refine good_updConn hg h ?_
    intro cn _ hgd hk
    simp only [Bool.and_eq_true] at hgd
    exact { hk with
      watcher_acc := fun hw => by simp at hw
      open_watched := fun _ hcl => by simp [hgd.1] at hcl }
  | hsDone c =>
    refine good_updConn hg h ?_
    intro cn _ hgd hk
    simp only [Bool.and_eq_true, Bool.not_eq_true'] at hgd
    exact { hk with
      final_imp := fun hf => ⟨(hk.final_imp hf).1, rfl⟩
      hs_acc := fun _ => hgd.1.1.1.1
      started_hs := fun _ _ _ => rfl }
  | final c =>
    refine good_updConn hg h ?_
    intro cn _ hgd hk
    simp only [Bool.and_eq_true, Bool.not_eq_true'] at hgd
    exact { hk with final_imp := fun _ => ⟨hgd.1.2, hgd.1.1.2⟩ }
  | callStart c j =>
    refine good_updCall hg h ?_
    intro cn _ k hkm hkj hgd hk
    simp only [Bool.and_eq_true, Bool.not_eq_true'] at hgd
    have hc := hk.calls_ok k hkm
    exact connOk_setCall hk hkj (fun _ => hgd.1.1.1.1.1.2)
      (fun hcl => by simp [hgd.1.1.1.2] at hcl)
      (hc.congr rfl rfl rfl rfl rfl hc.recv_le (fun hs => by simp at hs))
  | produce c j =>
    refine good_updCall hg h ?_
    intro cn _ k hkm hkj hgd hk
    simp only [Bool.and_eq_true, Bool.not_eq_true'] at hgd
    have hc := hk.calls_ok k hkm
    have hst : k.started = true := hgd.1.1.1.2
    refine connOk_setCall hk hkj ?_ (fun hcl => by simp [hgd.1.1.1.1] at hcl) ?_
    · intro _; exact hk.started_hs k hkm hst
    · unfold Call.produce
      split
      · rename_i ch rest htodo
        have hne : k.expired = false := by
          cases he : k.expired with
          | false => rfl
          | true => have := (hc.expired_eq he).2; simp [htodo] at this
        refine ⟨?_, ?_, ?_, ?_, ?_, ?_⟩
        · intro _
          have := hc.plan_eq hne
          simp only [htodo, List.flatten_cons] at this
          simpa [List.append_assoc] using this
        · intro he; simp [hne] at he
        · have := hc.recv_le
          simp only [List.length_append]
          omega
        · intro hs; simp [hst] at hs
        · intro hh; simp at hh
        · intro he; simp [hne] at he
      · exact hc
  | deliver c j =>
    refine good_updCall hg h ?_
    intro cn _ k hkm hkj hgd hk
    simp only [Bool.and_eq_true, Bool.not_eq_true', decide_eq_true_eq] at hgd
    have hc := hk.calls_ok k hkm
    refine connOk_setCall hk hkj (hk.started_hs k hkm) (fun hcl => by simp [hgd.1.1.1] at hcl) ?_
    exact hc.congr rfl rfl rfl rfl rfl (by show k.recv + 1 ≤ k.sent.length; omega) hc.unstarted
  | deadlineTick c j =>
    simp only [step] at h
    split at h
    · refine good_updCall hg h ?_
      intro cn _ k hkm hkj _ hk
      have hc := hk.calls_ok k hkm
      exact connOk_setCall hk hkj (hk.started_hs k hkm)
        (fun a b => hk.closed_calls a b k hkm) (hc.congr rfl rfl rfl rfl rfl hc.recv_le hc.unstarted)
    · cases h
  | expire c j =>
    simp only [step] at h
    split at h
    · refine good_updCall hg h ?_
      intro cn _ k hkm hkj hgd hk
      simp only [Bool.and_eq_true, Bool.not_eq_true'] at hgd
      have hc := hk.calls_ok k hkm
      have hst : k.started = true := hgd.1.1.1.1.2
      have hnh : k.headDone = false := hgd.1.2
      have hne : k.expired = false := hgd.2
      have hsent : k.sent = [] := hc.nohead hnh hne
      refine connOk_setCall hk hkj (fun _ => hk.started_hs k hkm hst)
        (fun hcl => by simp [hgd.1.1.1.1.1] at hcl) ?_
      refine ⟨?_, ?_, ?_, ?_, ?_, ?_⟩
      · intro he; simp [Call.expire] at he
      · intro _; simp [Call.expire, hsent]
      · have := hc.recv_le
        simp only [Call.expire, List.length_append]
        omega
      · intro hs; simp [Call.expire, hst] at hs
      · intro _ he; simp [Call.expire] at he
      · intro _; exact hnh
    · cases h

theorem good_reachable {g b a : Bool} {s : State} (h : Reachable g b a s) : Good s := by
  induction h with
  | init t => exact good_init g b a t
  | step l _ hs ih => exact good_step ih hs

theorem good_run {s s' : State} {ls : List Label} (hg : Good s) (h : run s ls = some s') :
    Good s' := by
  induction ls generalizing s with
  | nil => simp only [run, Option.some.injEq] at h; subst h; exact hg
  | cons l ls ih =>
    simp only [run] at h
    split at h
    · rename_i s1 hs1; exact ih (good_step hg hs1) h
    · cases h

-- ------------------------------------------------------------------ configuration is constant

theorem step_cfg {s s' : State} {l : Label} (h : step s l = some s') :
    s'.cfgGraceful = s.cfgGraceful ∧ s'.cfgBiased = s.cfgBiased ∧ s'.cfgAge = s.cfgAge := by
  cases l <;> simp only [step] at h
  case offer | offerTls | freeRun => cases h; exact ⟨rfl, rfl, rfl⟩
  case sigFire | endIncoming | acceptErr | loopSig | loopErr | loopEnd | afterLoop
      | resolve =>
    split at h
    · cases h; exact ⟨rfl, rfl, rfl⟩
    · cases h
  case ageTick | tlsTake =>
    split at h
    · obtain ⟨_, _, _, rfl⟩ := updConn_some h; exact ⟨rfl, rfl, rfl⟩
    · cases h
  case deadlineTick | expire =>
    split at h
    · obtain ⟨_, _, _, _, _, rfl⟩ := updCall_some h; exact ⟨rfl, rfl, rfl⟩
    · cases h
  case issue | peerDrop | connSig | connAge | connBreak | connDropWatcher | hsDone | final
      | clientHello | tlsDone | tlsFail =>
    obtain ⟨_, _, _, rfl⟩ := updConn_some h; exact ⟨rfl, rfl, rfl⟩
  case permit | reqSend | cancel | callStart | produce | deliver =>
    obtain ⟨_, _, _, _, _, rfl⟩ := updCall_some h; exact ⟨rfl, rfl, rfl⟩
  case loopAccept =>
    split at h
    · obtain ⟨_, _, _, rfl⟩ := updConn_some h; exact ⟨rfl, rfl, rfl⟩
    · cases h

theorem reachable_cfg {g b a : Bool} {s : State} (h : Reachable g b a s) :
    s.cfgGraceful = g ∧ s.cfgBiased = b ∧ s.cfgAge = a := by
  induction h with
  | init t => exact ⟨rfl, rfl, rfl⟩
  | step l _ hs ih =>
    obtain ⟨h1, h2, h3⟩ := step_cfg hs
    exact ⟨h1.trans ih.1, h2.trans ih.2.1, h3.trans ih.2.2⟩

end Shutdown
