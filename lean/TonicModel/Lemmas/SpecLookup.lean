import TonicModel.Lemmas.SpecWire2
/-
Field lookups of the spec decoder evaluated on the record lists of the model's encoders.
-/
namespace SpecWire
open PbWire Spec.RichError

theorem occurrences_append (n : Nat) (a b : List (Nat × Wire)) :
    occurrences n (a ++ b) = occurrences n a ++ occurrences n b := by simp [occurrences]

theorem occurrences_nil (n : Nat) : occurrences n [] = [] := rfl

theorem occ_scalar_ne (n t : Nat) (k : Sc) (v : SV) (h : t ≠ n) : occurrences n (recsScalar t k v) = [] := by
  cases k <;> cases v <;> simp only [recsScalar] <;> first | rfl | (split <;> simp [occurrences, h])

theorem occ_scalar_str (n : Nat) (s : Bytes) :
    occurrences n (recsScalar n .str (.b s)) = if s = [] then [] else [.len s] := by
  simp only [recsScalar]; split <;> simp [occurrences]

theorem occ_scalar_bytes (n : Nat) (s : Bytes) :
    occurrences n (recsScalar n .bytes (.b s)) = if s = [] then [] else [.len s] := by
  simp only [recsScalar]; split <;> simp [occurrences]

theorem occ_scalar_i32 (n : Nat) (x : Int) :
    occurrences n (recsScalar n .i32 (.i x)) = if x = 0 then [] else [.varint (u64OfInt x)] := by
  simp only [recsScalar]; split <;> simp [occurrences]

theorem occ_scalar_i64 (n : Nat) (x : Int) :
    occurrences n (recsScalar n .i64 (.i x)) = if x = 0 then [] else [.varint (u64OfInt x)] := by
  simp only [recsScalar]; split <;> simp [occurrences]

theorem occ_map_self {α : Type} (n : Nat) (g : α → Bytes) (l : List α) :
    occurrences n (l.map fun a => (n, Wire.len (g a))) = l.map fun a => Wire.len (g a) := by
  induction l with
  | nil => rfl
  | cons a l ih => simp only [occurrences] at ih ⊢; simp [ih]

theorem occ_map_ne {α : Type} (n t : Nat) (g : α → Bytes) (l : List α) (h : t ≠ n) :
    occurrences n (l.map fun a => (t, Wire.len (g a))) = [] := by
  induction l with
  | nil => rfl
  | cons a l ih => simp only [occurrences] at ih ⊢; simp [ih, h]

theorem mapM_asLen (l : List Bytes) : (l.map Wire.len).mapM asLen = some l := by
  induction l with
  | nil => rfl
  | cons a l ih => simp [List.mapM_cons, asLen, ih]

theorem repeatedLen_of_occ (n : Nat) (fs : List (Nat × Wire)) (l : List Bytes)
    (h : occurrences n fs = l.map Wire.len) : repeatedLen n fs = some l := by
  rw [repeatedLen, h, mapM_asLen]

theorem stringField_of_occ (n : Nat) (fs : List (Nat × Wire)) (s : Bytes)
    (h : occurrences n fs = if s = [] then [] else [.len s]) (hv : Utf8Rust.valid s = true) :
    stringField n fs = some s := by
  by_cases hs : s = []
  · subst hs
    have : repeatedLen n fs = some [] := repeatedLen_of_occ n fs [] (by simpa using h)
    simp [stringField, this]
  · have : repeatedLen n fs = some [s] := repeatedLen_of_occ n fs [s] (by simpa [hs] using h)
    simp [stringField, this, hv]

theorem bytesField_of_occ (n : Nat) (fs : List (Nat × Wire)) (s : Bytes)
    (h : occurrences n fs = if s = [] then [] else [.len s]) : bytesField n fs = some s := by
  by_cases hs : s = []
  · subst hs
    have : repeatedLen n fs = some [] := repeatedLen_of_occ n fs [] (by simpa using h)
    simp [bytesField, this]
  · have : repeatedLen n fs = some [s] := repeatedLen_of_occ n fs [s] (by simpa [hs] using h)
    simp [bytesField, this]

theorem repeatedString_of_occ (n : Nat) (fs : List (Nat × Wire)) (l : List Bytes)
    (h : occurrences n fs = l.map Wire.len) (hv : ∀ s ∈ l, Utf8Rust.valid s = true) :
    repeatedString n fs = some l := by
  have : l.all Utf8Rust.valid = true := by simpa [List.all_eq_true] using hv
  simp [repeatedString, repeatedLen_of_occ n fs l h, this]

theorem varintField_of_occ (n : Nat) (fs : List (Nat × Wire)) (x : Int)
    (h : occurrences n fs = if x = 0 then [] else [.varint (u64OfInt x)]) :
    varintField n fs = some (u64OfInt x) := by
  by_cases hx : x = 0
  · subst hx; simp at h; simp [varintField, h, u64OfInt]
  · simp only [hx, if_false] at h; simp [varintField, h, asVarint]

theorem messageField_none (n : Nat) (fs : List (Nat × Wire)) (h : occurrences n fs = []) :
    messageField n fs = some none := by
  have : repeatedLen n fs = some [] := repeatedLen_of_occ n fs [] (by simpa using h)
  simp [messageField, this]

theorem messageField_one (n : Nat) (fs : List (Nat × Wire)) (b : Bytes) (h : occurrences n fs = [.len b]) :
    messageField n fs = some (some b) := by
  have : repeatedLen n fs = some [b] := repeatedLen_of_occ n fs [b] (by simpa using h)
  simp [messageField, this]

/-! ### shapes -/

theorem shape_scalar (tag : Nat) (k : Sc) (v : SV) (h1 : 1 ≤ tag) (h2 : tag < 536870912) :
    ∀ x ∈ recsScalar tag k v, RecShape x := by
  intro x hx
  cases k <;> cases v <;> simp only [recsScalar] at hx
  case str.b s => split at hx <;> simp at hx; subst hx; exact ⟨h1, h2⟩
  case bytes.b s => split at hx <;> simp at hx; subst hx; exact ⟨h1, h2⟩
  case i32.i y => split at hx <;> simp at hx; subst hx; exact ⟨h1, h2, u64OfInt_lt _⟩
  case i64.i y => split at hx <;> simp at hx; subst hx; exact ⟨h1, h2, u64OfInt_lt _⟩
  all_goals simp at hx

theorem shape_flat (s : Flat) : ∀ (tag : Nat) (v : List SV), 1 ≤ tag → tag + s.length < 536870912 + 1 →
    ∀ x ∈ recsFlatFrom tag s v, RecShape x := by
  induction s with
  | nil => intro tag v _ _ x hx; cases v <;> simp [recsFlatFrom] at hx
  | cons k ks ih =>
    intro tag v h1 h2 x hx
    cases v with
    | nil => simp [recsFlatFrom] at hx
    | cons y ys =>
      simp only [recsFlatFrom, List.mem_append, List.length_cons] at hx h2
      rcases hx with hx | hx
      · exact shape_scalar tag k y h1 (by omega) x hx
      · exact ih (tag + 1) ys (by omega) (by omega) x hx

theorem shape_l2field (tag : Nat) (f : F2) (v : V2) (h1 : 1 ≤ tag) (h2 : tag < 536870912) :
    ∀ x ∈ recsL2Field tag f v, RecShape x := by
  intro x hx
  cases f <;> cases v <;> simp only [recsL2Field] at hx
  case sc.sc k y => exact shape_scalar tag _ _ h1 h2 x hx
  case repStr.repStr l => obtain ⟨a, _, rfl⟩ := List.mem_map.mp hx; exact ⟨h1, h2⟩
  case repFlat.repFlat sf l => obtain ⟨a, _, rfl⟩ := List.mem_map.mp hx; exact ⟨h1, h2⟩
  case mapSS.map l => obtain ⟨a, _, rfl⟩ := List.mem_map.mp hx; exact ⟨h1, h2⟩
  case optFlat.optFlat sf o =>
    cases o with
    | none => simp at hx
    | some y => simp at hx; subst hx; exact ⟨h1, h2⟩
  all_goals simp at hx

theorem shape_l2 (s : List F2) : ∀ (tag : Nat) (v : List V2), 1 ≤ tag → tag + s.length < 536870912 + 1 →
    ∀ x ∈ recsL2From tag s v, RecShape x := by
  induction s with
  | nil => intro tag v _ _ x hx; cases v <;> simp [recsL2From] at hx
  | cons k ks ih =>
    intro tag v h1 h2 x hx
    cases v with
    | nil => simp [recsL2From] at hx
    | cons y ys =>
      simp only [recsL2From, List.mem_append, List.length_cons] at hx h2
      rcases hx with hx | hx
      · exact shape_l2field tag k y h1 (by omega) x hx
      · exact ih (tag + 1) ys (by omega) (by omega) x hx

theorem parse_encFlat (s : Flat) (v : List SV) (hs : s.length < 536870912)
    (hb : (encFlat s v).length < 18446744073709551616) :
    parse (encFlat s v) = some (recsFlatFrom 1 s v) := by
  rw [encFlat, encFlatFrom_eq] at hb ⊢
  exact parse_of_shape _ (shape_flat s 1 v (by omega) (by omega)) hb

theorem parse_encL2 (s : List F2) (v : List V2) (hs : s.length < 536870912)
    (hb : (encL2 s v).length < 18446744073709551616) :
    parse (encL2 s v) = some (recsL2From 1 s v) := by
  rw [encL2, encL2From_eq] at hb ⊢
  exact parse_of_shape _ (shape_l2 s 1 v (by omega) (by omega)) hb

end SpecWire
