import TonicModel.Lemmas.Shutdown
import TonicModel.Spec.Shutdown
/-
How a state of the shutdown model is seen by the oracle of `Spec/Shutdown` (the same views the
driver builds from what the harness observed), and the facts the invariants give about them.
-/
namespace Shutdown
open Spec.Shutdown

def toOut : Item → Out
  | .hdr => .hdr
  | .msg j => .msg j
  | .status c => .status c

def connView (cn : Conn) : ConnView :=
  { offeredAfterSignal := cn.offeredAfterSig, accepted := cn.accepted, closed := cn.closed }

/-- what the caller of `k` has in hand: the first `recv` items written to the stream -/
def callView (cn : Conn) (k : Call) : CallView :=
  { plan := k.plan.map toOut, got := (k.sent.take k.recv).map toOut, started := k.started,
    abandoned := k.cancelled || cn.peerGone }

def connViews (s : State) : List ConnView := s.conns.map connView

def callViews (s : State) : List CallView :=
  s.conns.flatMap fun cn => cn.calls.map (callView cn)

theorem isPrefix_refl_append (a b : List Out) : isPrefix a (a ++ b) = true := by
  induction a with
  | nil => simp [isPrefix]
  | cons x xs ih => simp [isPrefix, ih]

theorem isPrefix_take_append (n : Nat) (a b : List Out) : isPrefix (a.take n) (a ++ b) = true := by
  have h : a ++ b = a.take n ++ (a.drop n ++ b) := by
    rw [← List.append_assoc, List.take_append_drop]
  rw [h]
  exact isPrefix_refl_append _ _

theorem callView_truthful {cn : Conn} {k : Call} (h : CallOk k) :
    isPrefix (callView cn k).got (callView cn k).plan = true
    ∧ ((callView cn k).started = true ∨ (callView cn k).got = []) := by
  constructor
  · simp only [callView]
    rw [← h.plan_eq, List.map_append, List.map_take]
    exact isPrefix_take_append _ _ _
  · simp only [callView]
    cases hs : k.started with
    | true => exact Or.inl rfl
    | false => right; simp [h.unstarted hs]

theorem callView_complete {cn : Conn} {k : Call} (h : CallOk k) (hc : k.complete = true) :
    (callView cn k).got = (callView cn k).plan := by
  simp only [Call.complete, Bool.and_eq_true, List.isEmpty_iff, beq_iff_eq] at hc
  have hp := h.plan_eq
  simp only [hc.1, List.flatten_nil, List.append_nil] at hp
  simp only [callView, hc.2, List.take_length, hp]

end Shutdown
