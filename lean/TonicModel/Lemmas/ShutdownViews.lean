import TonicModel.Lemmas.Shutdown
import TonicModel.Spec.Shutdown
/-
How a state of the shutdown model is seen by the oracle of `Spec/Shutdown` (the same views the
driver builds from what the harness observed), and the facts the invariants give about them.
-/
namespace Shutdown
open Spec.Shutdown

def toOut : Item → Out
  | .hdr => .hdr
  | .msg j => .msg j
  | .status c => .status c
  | .expired => .expired

def connView (cn : Conn) : ConnView :=
  { offeredAfterSignal := cn.offeredAfterSig, accepted := cn.accepted, closed := cn.closed }

/-- what the caller of `k` has in hand: the first `recv` items written to the stream -/
def callView (cn : Conn) (k : Call) : CallView :=
  { plan := k.plan.map toOut, got := (k.sent.take k.recv).map toOut, started := k.started,
    abandoned := k.cancelled || cn.peerGone, timedOut := k.expired }

/-- the oracle's `outcome` of the view is the model's `Call.outcome` -/
theorem outcome_callView (cn : Conn) (k : Call) :
    outcome (callView cn k) = k.outcome.map toOut := by
  simp only [outcome, callView, Call.outcome]
  by_cases he : k.expired = true <;> simp [he, toOut]

def connViews (s : State) : List ConnView := s.conns.map connView

def callViews (s : State) : List CallView :=
  s.conns.flatMap fun cn => cn.calls.map (callView cn)

theorem isPrefix_refl_append (a b : List Out) : isPrefix a (a ++ b) = true := by
  induction a with
  | nil => simp [isPrefix]
  | cons x xs ih => simp [isPrefix, ih]

theorem isPrefix_take_append (n : Nat) (a b : List Out) : isPrefix (a.take n) (a ++ b) = true := by
  have h : a ++ b = a.take n ++ (a.drop n ++ b) := by
    rw [← List.append_assoc, List.take_append_drop]
  rw [h]
  exact isPrefix_refl_append _ _

theorem callView_truthful {cn : Conn} {k : Call} (h : CallOk k) :
    isPrefix (callView cn k).got (outcome (callView cn k)) = true
    ∧ ((callView cn k).started = true ∨ (callView cn k).got = []) := by
  constructor
  · cases he : k.expired with
    | false =>
      simp only [callView, outcome, he, Bool.false_eq_true, if_false]
      rw [← h.plan_eq he, List.map_append, List.map_take]
      exact isPrefix_take_append _ _ _
    | true =>
      simp only [callView, outcome, he, if_true, (h.expired_eq he).1]
      have := isPrefix_take_append k.recv [Out.expired] []
      simpa [toOut, List.map_take] using this
  · simp only [callView]
    cases hs : k.started with
    | true => exact Or.inl rfl
    | false => right; simp [h.unstarted hs]

theorem callView_complete {cn : Conn} {k : Call} (h : CallOk k) (hc : k.complete = true) :
    (callView cn k).got = outcome (callView cn k) := by
  simp only [Call.complete, Bool.and_eq_true, List.isEmpty_iff, beq_iff_eq] at hc
  cases he : k.expired with
  | false =>
    have hp := h.plan_eq he
    simp only [hc.1, List.flatten_nil, List.append_nil] at hp
    simp only [callView, outcome, he, Bool.false_eq_true, if_false, hc.2, List.take_length, hp]
  | true =>
    simp only [callView, outcome, he, if_true, hc.2, List.take_length, (h.expired_eq he).1]
    simp [toOut]

/-- … and for a call the request timeout has not cut, that is the handler's outcome -/
theorem callView_complete_plan {cn : Conn} {k : Call} (h : CallOk k) (hc : k.complete = true)
    (he : k.expired = false) : (callView cn k).got = k.plan.map toOut := by
  rw [callView_complete h hc]
  simp [outcome, callView, he]

end Shutdown
