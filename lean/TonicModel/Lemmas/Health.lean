import TonicModel.Model.Health
import TonicModel.Spec.Health
import TonicModel.Lemmas.HealthSpec
/-
Helper lemmas for C18: the simulation between the model of tonic-health's table of watch
channels and the log-scanning oracle.
-/
set_option linter.unusedSimpArgs false

namespace Health
open Spec.Health

/-! ### table lookups -/

theorem lookup_erase_self (n : Name) (r : List (Name × Nat)) : lookup n (erase n r) = none := by
  induction r with
  | nil => rfl
  | cons p r ih =>
    obtain ⟨m, i⟩ := p
    by_cases h : m = n <;> simp [erase, lookup, h, ih]

theorem lookup_erase_ne {m n : Name} (h : m ≠ n) (r : List (Name × Nat)) :
    lookup m (erase n r) = lookup m r := by
  induction r with
  | nil => rfl
  | cons p r ih =>
    obtain ⟨k, i⟩ := p
    by_cases hk : k = n
    · have hkm : ¬ (k = m) := fun e' => h (e'.symm.trans hk)
      simp [erase, lookup, hk, ih]
      intro e'; exact absurd (e'.symm) h
    · simp [erase, lookup, hk, ih]

/-! ### the simulation relation -/

/-- Stream `w` of the model (its channel `c`, its `seen` mark) agrees with what the log says
about it (`v`). -/
structure WOK (reg : List (Name × Nat)) (wt : Watcher) (c : Chan) (v : View) (w : Nat) : Prop where
  closed_eq : c.closed = closed v.name v.evs
  live_reg : c.closed = false → lookup v.name reg = some wt.chan
  value_eq : c.value = latest v.name v.start v.evs
  seen_none : wt.seen = none → hasReported w v.evs = false
  seen_some : ∀ x, wt.seen = some x →
    hasReported w v.evs = true ∧ x ≤ c.version ∧ decide (x ≠ c.version) = fresh v.name w v.evs

structure Sim (s : H) (h : Hist) : Prop where
  reg_some : ∀ n i, lookup n s.reg = some i →
    ∃ c, s.chans[i]? = some c ∧ c.closed = false ∧ current h n = some c.value
  reg_none : ∀ n, lookup n s.reg = none → current h n = none
  reg_inj : ∀ n m i, lookup n s.reg = some i → lookup m s.reg = some i → n = m
  nwatch : s.watchers.length = numWatches h
  w_some : ∀ w wt, s.watchers[w]? = some (some wt) →
    ∃ c v, s.chans[wt.chan]? = some c ∧ view h w = some v ∧ WOK s.reg wt c v w
  w_none : ∀ w, (∀ wt, s.watchers[w]? ≠ some (some wt)) → view h w = none

/-- An event that is neither a delivery on `w` nor an update of the stream's name leaves the
stream's standing unchanged. -/
theorem WOK.push_other {reg reg' : List (Name × Nat)} {wt : Watcher} {c : Chan} {v : View} {w : Nat}
    (k : WOK reg wt c v w) (e : Ev)
    (hr : isReport w e = false) (hs : ∀ s, e.1 ≠ Op.set v.name s) (hc : e.1 ≠ Op.clear v.name)
    (hreg : c.closed = false → lookup v.name reg' = lookup v.name reg) :
    WOK reg' wt c (v.push e) w := by
  have hcl : closed v.name (e :: v.evs) = closed v.name v.evs := by
    rw [closed_cons]; simp [hc]
  constructor
  · simpa [View.push, hcl] using k.closed_eq
  · intro h; simp only [View.push]; rw [hreg h]; exact k.live_reg h
  · simp only [View.push]; rw [latest_cons_other _ _ _ hs]; exact k.value_eq
  · intro h; simp only [View.push]; rw [hasReported_cons, hr, k.seen_none h]; rfl
  · intro x h
    obtain ⟨h1, h2, h3⟩ := k.seen_some x h
    simp only [View.push]
    rw [hasReported_cons, hr, h1, fresh_cons_other _ hr hs]
    exact ⟨rfl, h2, h3⟩

/-- Once the stream's name has been cleared, nothing but its own deliveries matters to it. -/
theorem WOK.push_closed {reg reg' : List (Name × Nat)} {wt : Watcher} {c : Chan} {v : View} {w : Nat}
    (k : WOK reg wt c v w) (e : Ev) (hcl : c.closed = true) (hr : isReport w e = false) :
    WOK reg' wt c (v.push e) w := by
  have hcl' : closed v.name v.evs = true := by rw [← k.closed_eq]; exact hcl
  have hcl2 : closed v.name (e :: v.evs) = true := by rw [closed_cons, hcl']; simp
  have hfresh : fresh v.name w (e :: v.evs) = fresh v.name w v.evs := by
    obtain ⟨op, r⟩ := e
    cases op <;> simp [fresh, hr, hcl']
  constructor
  · simp only [View.push]; rw [hcl2]; exact hcl
  · intro h; rw [hcl] at h; cases h
  · simp only [View.push]; rw [latest_cons_closed hcl']; exact k.value_eq
  · intro h; simp only [View.push]; rw [hasReported_cons, hr, k.seen_none h]; rfl
  · intro x h
    obtain ⟨h1, h2, h3⟩ := k.seen_some x h
    simp only [View.push]
    rw [hasReported_cons, hr, h1, hfresh]
    exact ⟨rfl, h2, h3⟩

/-- A `set` of the stream's own name while it is registered: new value, new version. -/
theorem WOK.push_set_open {reg : List (Name × Nat)} {wt : Watcher} {c : Chan} {v : View} {w : Nat}
    (k : WOK reg wt c v w) (hopen : c.closed = false) (st : St) (r : Resp) :
    WOK reg wt (c.send st) (v.push (Op.set v.name st, r)) w := by
  have hcl : closed v.name v.evs = false := by rw [← k.closed_eq]; exact hopen
  have hrep : isReport w (Op.set v.name st, r) = false := isReport_of_not_next (by simp)
  constructor
  · simp only [View.push, Chan.send]; rw [closed_cons, hcl]; simpa using hopen
  · intro _; exact k.live_reg hopen
  · simp only [View.push, Chan.send]; rw [latest_cons_set hcl]
  · intro h; simp only [View.push]; rw [hasReported_cons, hrep, k.seen_none h]; rfl
  · intro x h
    obtain ⟨h1, h2, _⟩ := k.seen_some x h
    simp only [View.push, Chan.send]
    rw [hasReported_cons, hrep, h1, fresh_cons_set_open hcl]
    refine ⟨rfl, by omega, ?_⟩
    have : x ≠ c.version + 1 := by omega
    simp [this]

/-- A `clear` of the stream's own name while it is registered closes the channel. -/
theorem WOK.push_clear_open {reg reg' : List (Name × Nat)} {wt : Watcher} {c : Chan} {v : View} {w : Nat}
    (k : WOK reg wt c v w) (r : Resp) :
    WOK reg' wt c.close (v.push (Op.clear v.name, r)) w := by
  have hrep : isReport w (Op.clear v.name, r) = false := isReport_of_not_next (by simp)
  have hns : ∀ s, (Op.clear v.name, r).1 ≠ Op.set v.name s := by simp
  constructor
  · simp only [View.push, Chan.close]; rw [closed_cons]; simp
  · intro h; simp [Chan.close] at h
  · simp only [View.push, Chan.close]; rw [latest_cons_other _ _ _ hns]; exact k.value_eq
  · intro h; simp only [View.push]; rw [hasReported_cons, hrep, k.seen_none h]; rfl
  · intro x h
    obtain ⟨h1, h2, h3⟩ := k.seen_some x h
    simp only [View.push, Chan.close]
    rw [hasReported_cons, hrep, h1, fresh_cons_other _ hrep hns]
    exact ⟨rfl, h2, h3⟩

/-- A delivery on the stream itself: it has now seen the channel's version. -/
theorem WOK.push_report {reg : List (Name × Nat)} {wt : Watcher} {c : Chan} {v : View} {w : Nat}
    (k : WOK reg wt c v w) (s : St) :
    WOK reg { wt with seen := some c.version } c (v.push (Op.next w, Resp.value s)) w := by
  have hrep : isReport w (Op.next w, Resp.value s) = true := by simp [isReport]
  have hns : ∀ s', (Op.next w, Resp.value s).1 ≠ Op.set v.name s' := by simp
  constructor
  · simp only [View.push]; rw [closed_cons]; simpa using k.closed_eq
  · exact k.live_reg
  · simp only [View.push]; rw [latest_cons_other _ _ _ hns]; exact k.value_eq
  · intro h; cases h
  · intro x h
    cases h
    simp only [View.push]
    rw [hasReported_cons, hrep, fresh_cons_report hrep]
    simp

/-! ### every operation preserves the simulation -/

theorem sim_set {s : H} {h : Hist} (hs : Sim s h) (n : Name) (st : St) :
    Sim (step s (.set n st)).1 ((.set n st, .done) :: h) := by
  have hplainW : ∀ m, (Op.set n st, Resp.done).1 ≠ Op.watch m := by simp
  have hplainD : ∀ w', (Op.set n st, Resp.done).1 ≠ Op.drop w' := by simp
  have hrep : ∀ w, isReport w (Op.set n st, Resp.done) = false :=
    fun w => isReport_of_not_next (by simp)
  cases hl : lookup n s.reg with
  | some i =>
    obtain ⟨c0, hc0, hc0cl, _⟩ := hs.reg_some n i hl
    have hstep : (step s (.set n st)).1 = { s with chans := s.chans.modify i (fun c => c.send st) } := by
      simp [step, hl]
    rw [hstep]
    constructor
    · intro m j hm
      obtain ⟨c, hc, hccl, hccur⟩ := hs.reg_some m j hm
      by_cases hji : i = j
      · subst hji
        have hmn : m = n := hs.reg_inj m n i hm hl
        subst hmn
        refine ⟨c.send st, ?_, ?_, ?_⟩
        · simp [List.getElem?_modify, hc]
        · simpa [Chan.send] using hccl
        · simp [current_cons_set, Chan.send]
      · have hmn : n ≠ m := by
          intro e; subst e; rw [hl] at hm; cases hm; exact hji rfl
        refine ⟨c, ?_, hccl, ?_⟩
        · simp [List.getElem?_modify, hji, hc]
        · simp [current_cons_set, hmn, hccur]
    · intro m hm
      have hmn : n ≠ m := by intro e; subst e; rw [hl] at hm; cases hm
      simp [current_cons_set, hmn]; exact hs.reg_none m hm
    · exact hs.reg_inj
    · rw [numWatches_cons_other _ _ hplainW]; exact hs.nwatch
    · intro w wt hw
      obtain ⟨c, v, hc, hv, k⟩ := hs.w_some w wt hw
      have hview : view ((Op.set n st, Resp.done) :: h) w = some (v.push (Op.set n st, .done)) := by
        rw [view_cons_plain _ _ hplainW hplainD, hv]; rfl
      by_cases hwi : i = wt.chan
      · have hceq : c = c0 := by rw [← hwi, hc0] at hc; cases hc; rfl
        subst hceq
        have hvn : v.name = n := hs.reg_inj _ _ _ (hwi ▸ k.live_reg hc0cl) hl
        subst hvn
        refine ⟨c.send st, v.push _, ?_, hview, k.push_set_open hc0cl st _⟩
        simp [List.getElem?_modify, hwi, hc]
      · refine ⟨c, v.push _, ?_, hview, ?_⟩
        · simp [List.getElem?_modify, hwi, hc]
        · cases hcc : c.closed with
          | true => exact k.push_closed _ hcc (hrep w)
          | false =>
            have hvn : v.name ≠ n := by
              intro e; have := k.live_reg hcc; rw [e, hl] at this; cases this; exact hwi rfl
            exact k.push_other _ (hrep w) (by intro s' e; cases e; exact hvn rfl) (by simp)
              (fun _ => rfl)
    · intro w hw
      rw [view_cons_plain _ _ hplainW hplainD, hs.w_none w hw]; rfl
  | none =>
    have hstep : (step s (.set n st)).1 =
        { s with chans := s.chans ++ [⟨st, 0, false⟩], reg := (n, s.chans.length) :: s.reg } := by
      simp [step, hl]
    rw [hstep]
    have hlt : ∀ {j : Nat} {c : Chan}, s.chans[j]? = some c → j < s.chans.length := by
      intro j c hj
      have := List.getElem?_eq_some_iff.mp hj
      exact this.1
    constructor
    · intro m j hm
      by_cases hmn : n = m
      · subst hmn
        simp [lookup] at hm
        subst hm
        exact ⟨⟨st, 0, false⟩, by simp, rfl, by simp [current_cons_set]⟩
      · simp [lookup, hmn] at hm
        obtain ⟨c, hc, hccl, hccur⟩ := hs.reg_some m j hm
        refine ⟨c, ?_, hccl, ?_⟩
        · rw [List.getElem?_append_left (hlt hc)]; exact hc
        · simp [current_cons_set, hmn, hccur]
    · intro m hm
      by_cases hmn : n = m
      · subst hmn; simp [lookup] at hm
      · simp [lookup, hmn] at hm
        simp [current_cons_set, hmn]; exact hs.reg_none m hm
    · intro m m' j hm hm'
      by_cases hmn : n = m <;> by_cases hmn' : n = m'
      · exact hmn.symm.trans hmn'
      · subst hmn; simp [lookup] at hm; simp [lookup, hmn'] at hm'
        subst hm
        obtain ⟨c, hc, _⟩ := hs.reg_some m' _ hm'
        exact absurd (hlt hc) (Nat.lt_irrefl _)
      · subst hmn'; simp [lookup] at hm'; simp [lookup, hmn] at hm
        subst hm'
        obtain ⟨c, hc, _⟩ := hs.reg_some m _ hm
        exact absurd (hlt hc) (Nat.lt_irrefl _)
      · simp [lookup, hmn] at hm; simp [lookup, hmn'] at hm'
        exact hs.reg_inj m m' j hm hm'
    · rw [numWatches_cons_other _ _ hplainW]; exact hs.nwatch
    · intro w wt hw
      obtain ⟨c, v, hc, hv, k⟩ := hs.w_some w wt hw
      have hview : view ((Op.set n st, Resp.done) :: h) w = some (v.push (Op.set n st, .done)) := by
        rw [view_cons_plain _ _ hplainW hplainD, hv]; rfl
      refine ⟨c, v.push _, ?_, hview, ?_⟩
      · show (s.chans ++ [_])[wt.chan]? = some c
        rw [List.getElem?_append_left (hlt hc)]; exact hc
      · cases hcc : c.closed with
        | true => exact k.push_closed _ hcc (hrep w)
        | false =>
          have hvn : n ≠ v.name := by
            intro e; have := k.live_reg hcc; rw [← e, hl] at this; cases this
          exact k.push_other _ (hrep w) (by intro s' e; cases e; exact hvn rfl) (by simp)
            (fun _ => by simp [lookup, hvn])
    · intro w hw
      rw [view_cons_plain _ _ hplainW hplainD, hs.w_none w hw]; rfl

theorem sim_clear {s : H} {h : Hist} (hs : Sim s h) (n : Name) :
    Sim (step s (.clear n)).1 ((.clear n, .done) :: h) := by
  have hplainW : ∀ m, (Op.clear n, Resp.done).1 ≠ Op.watch m := by simp
  have hplainD : ∀ w', (Op.clear n, Resp.done).1 ≠ Op.drop w' := by simp
  have hrep : ∀ w, isReport w (Op.clear n, Resp.done) = false :=
    fun w => isReport_of_not_next (by simp)
  cases hl : lookup n s.reg with
  | some i =>
    obtain ⟨c0, hc0, hc0cl, _⟩ := hs.reg_some n i hl
    have hstep : (step s (.clear n)).1 =
        { s with chans := s.chans.modify i Chan.close, reg := erase n s.reg } := by
      simp [step, hl]
    rw [hstep]
    have hne : ∀ {m j}, lookup m (erase n s.reg) = some j → n ≠ m ∧ lookup m s.reg = some j ∧ i ≠ j := by
      intro m j hm
      have hmn : n ≠ m := by
        intro e; subst e; rw [lookup_erase_self] at hm; cases hm
      have hm' : lookup m s.reg = some j := by
        rw [lookup_erase_ne (fun e => hmn e.symm)] at hm; exact hm
      refine ⟨hmn, hm', ?_⟩
      intro e; subst e; exact hmn (hs.reg_inj n m i hl hm')
    constructor
    · intro m j hm
      obtain ⟨hmn, hm', hij⟩ := hne hm
      obtain ⟨c, hc, hccl, hccur⟩ := hs.reg_some m j hm'
      refine ⟨c, ?_, hccl, ?_⟩
      · simp [List.getElem?_modify, hij, hc]
      · simp [current_cons_clear, hmn, hccur]
    · intro m hm
      by_cases hmn : n = m
      · simp [current_cons_clear, hmn]
      · rw [lookup_erase_ne (fun e => hmn e.symm)] at hm
        simp [current_cons_clear, hmn]; exact hs.reg_none m hm
    · intro m m' j hm hm'
      exact hs.reg_inj m m' j (hne hm).2.1 (hne hm').2.1
    · rw [numWatches_cons_other _ _ hplainW]; exact hs.nwatch
    · intro w wt hw
      obtain ⟨c, v, hc, hv, k⟩ := hs.w_some w wt hw
      have hview : view ((Op.clear n, Resp.done) :: h) w = some (v.push (Op.clear n, .done)) := by
        rw [view_cons_plain _ _ hplainW hplainD, hv]; rfl
      by_cases hwi : i = wt.chan
      · have hceq : c = c0 := by rw [← hwi, hc0] at hc; cases hc; rfl
        subst hceq
        have hvn : v.name = n := hs.reg_inj _ _ _ (hwi ▸ k.live_reg hc0cl) hl
        subst hvn
        refine ⟨c.close, v.push _, ?_, hview, k.push_clear_open _⟩
        simp [List.getElem?_modify, hwi, hc]
      · refine ⟨c, v.push _, ?_, hview, ?_⟩
        · simp [List.getElem?_modify, hwi, hc]
        · cases hcc : c.closed with
          | true => exact k.push_closed _ hcc (hrep w)
          | false =>
            have hvn : v.name ≠ n := by
              intro e; have := k.live_reg hcc; rw [e, hl] at this; cases this; exact hwi rfl
            exact k.push_other _ (hrep w) (by simp) (by intro e; cases e; exact hvn rfl)
              (fun _ => lookup_erase_ne hvn _)
    · intro w hw
      rw [view_cons_plain _ _ hplainW hplainD, hs.w_none w hw]; rfl
  | none =>
    have hstep : (step s (.clear n)).1 = s := by simp [step, hl]
    rw [hstep]
    constructor
    · intro m j hm
      obtain ⟨c, hc, hccl, hccur⟩ := hs.reg_some m j hm
      have hmn : n ≠ m := by intro e; subst e; rw [hl] at hm; cases hm
      exact ⟨c, hc, hccl, by simp [current_cons_clear, hmn, hccur]⟩
    · intro m hm
      by_cases hmn : n = m
      · simp [current_cons_clear, hmn]
      · simp [current_cons_clear, hmn]; exact hs.reg_none m hm
    · exact hs.reg_inj
    · rw [numWatches_cons_other _ _ hplainW]; exact hs.nwatch
    · intro w wt hw
      obtain ⟨c, v, hc, hv, k⟩ := hs.w_some w wt hw
      have hview : view ((Op.clear n, Resp.done) :: h) w = some (v.push (Op.clear n, .done)) := by
        rw [view_cons_plain _ _ hplainW hplainD, hv]; rfl
      refine ⟨c, v.push _, hc, hview, ?_⟩
      cases hcc : c.closed with
      | true => exact k.push_closed _ hcc (hrep w)
      | false =>
        have hvn : v.name ≠ n := by
          intro e; have := k.live_reg hcc; rw [e, hl] at this; cases this
        exact k.push_other _ (hrep w) (by simp) (by intro e; cases e; exact hvn rfl) (fun _ => rfl)
    · intro w hw
      rw [view_cons_plain _ _ hplainW hplainD, hs.w_none w hw]; rfl

/-- Logging an event that changes nothing in the model and is no delivery keeps the relation. -/
theorem sim_idle {s : H} {h : Hist} (hs : Sim s h) (e : Ev)
    (hset : ∀ n st, e.1 ≠ Op.set n st) (hclr : ∀ n, e.1 ≠ Op.clear n)
    (hw : ∀ n, e.1 ≠ Op.watch n) (hd : ∀ w, e.1 ≠ Op.drop w)
    (hrep : ∀ w, isReport w e = false) : Sim s (e :: h) := by
  constructor
  · intro m j hm
    obtain ⟨c, hc, hccl, hccur⟩ := hs.reg_some m j hm
    exact ⟨c, hc, hccl, by rw [current_cons_other _ _ _ hset hclr]; exact hccur⟩
  · intro m hm; rw [current_cons_other _ _ _ hset hclr]; exact hs.reg_none m hm
  · exact hs.reg_inj
  · rw [numWatches_cons_other _ _ hw]; exact hs.nwatch
  · intro w wt hwt
    obtain ⟨c, v, hc, hv, k⟩ := hs.w_some w wt hwt
    refine ⟨c, v.push e, hc, by rw [view_cons_plain _ _ hw hd, hv]; rfl, ?_⟩
    exact k.push_other e (hrep w) (fun st => hset _ st) (hclr _) (fun _ => rfl)
  · intro w hwn
    rw [view_cons_plain _ _ hw hd, hs.w_none w hwn]; rfl

theorem sim_watch {s : H} {h : Hist} (hs : Sim s h) (n : Name) :
    Sim (step s (.watch n)).1 ((.watch n, (step s (.watch n)).2) :: h) := by
  have hset : ∀ (r : Resp) m st, ((Op.watch n, r) : Ev).1 ≠ Op.set m st := by simp
  have hclr : ∀ (r : Resp) m, ((Op.watch n, r) : Ev).1 ≠ Op.clear m := by simp
  have hrep : ∀ (r : Resp) w, isReport w (Op.watch n, r) = false :=
    fun r w => isReport_of_not_next (by simp)
  -- the parts that do not depend on whether the call is accepted
  have hold : ∀ (r : Resp) (x : Option Watcher) (w : Nat) (wt : Watcher),
      w < s.watchers.length → (s.watchers ++ [x])[w]? = some (some wt) →
      ∃ c v, s.chans[wt.chan]? = some c ∧ view ((Op.watch n, r) :: h) w = some v ∧ WOK s.reg wt c v w := by
    intro r x w wt hlt hw
    rw [List.getElem?_append_left hlt] at hw
    obtain ⟨c, v, hc, hv, k⟩ := hs.w_some w wt hw
    have hne : ¬ numWatches h = w := by rw [← hs.nwatch]; omega
    refine ⟨c, v.push (Op.watch n, r), hc, by rw [view_cons_watch, if_neg hne, hv]; rfl, ?_⟩
    exact k.push_other _ (hrep r w) (hset r _) (hclr r _) (fun _ => rfl)
  have hnone : ∀ (r : Resp) (x : Option Watcher) (w : Nat), w ≠ s.watchers.length →
      (∀ wt, (s.watchers ++ [x])[w]? ≠ some (some wt)) → view ((Op.watch n, r) :: h) w = none := by
    intro r x w hne hw
    have hne' : ¬ numWatches h = w := by rw [← hs.nwatch]; exact fun e => hne e.symm
    rw [view_cons_watch, if_neg hne']
    have : view h w = none := by
      apply hs.w_none
      intro wt hwt
      have hlt : w < s.watchers.length := (List.getElem?_eq_some_iff.mp hwt).1
      exact hw wt (by rw [List.getElem?_append_left hlt]; exact hwt)
    rw [this]; rfl
  cases hl : lookup n s.reg with
  | some i =>
    obtain ⟨c0, hc0, hc0cl, hc0cur⟩ := hs.reg_some n i hl
    have hstep : step s (.watch n) =
        ({ s with watchers := s.watchers ++ [some ⟨i, none⟩] }, .subscribed) := by
      simp [step, hl]
    rw [hstep]
    constructor
    · intro m j hm
      obtain ⟨c, hc, hccl, hccur⟩ := hs.reg_some m j hm
      exact ⟨c, hc, hccl, by rw [current_cons_other _ _ _ (hset _) (hclr _)]; exact hccur⟩
    · intro m hm; rw [current_cons_other _ _ _ (hset _) (hclr _)]; exact hs.reg_none m hm
    · exact hs.reg_inj
    · simp [numWatches, hs.nwatch]
    · intro w wt hw
      by_cases hlt : w < s.watchers.length
      · exact hold _ _ w wt hlt hw
      · have hlen : (s.watchers ++ [some (⟨i, none⟩ : Watcher)]).length = s.watchers.length + 1 := by simp
        have hw_lt : w < s.watchers.length + 1 := by
          have := (List.getElem?_eq_some_iff.mp hw).1; rw [hlen] at this; exact this
        have hweq : w = s.watchers.length := by omega
        subst hweq
        simp at hw
        subst hw
        refine ⟨c0, ⟨n, c0.value, []⟩, hc0, ?_, ?_⟩
        · rw [view_cons_watch, if_pos hs.nwatch.symm, hc0cur]; rfl
        · constructor
          · simpa [closed] using hc0cl
          · intro _; exact hl
          · simp [latest]
          · intro _; simp [hasReported]
          · intro x hx; cases hx
    · intro w hw
      by_cases hne : w = s.watchers.length
      · subst hne
        exact absurd (by simp) (hw ⟨i, none⟩)
      · exact hnone _ _ w hne hw
  | none =>
    have hstep : step s (.watch n) = ({ s with watchers := s.watchers ++ [none] }, .notFound) := by
      simp [step, hl]
    rw [hstep]
    constructor
    · intro m j hm
      obtain ⟨c, hc, hccl, hccur⟩ := hs.reg_some m j hm
      exact ⟨c, hc, hccl, by rw [current_cons_other _ _ _ (hset _) (hclr _)]; exact hccur⟩
    · intro m hm; rw [current_cons_other _ _ _ (hset _) (hclr _)]; exact hs.reg_none m hm
    · exact hs.reg_inj
    · simp [numWatches, hs.nwatch]
    · intro w wt hw
      by_cases hlt : w < s.watchers.length
      · exact hold _ _ w wt hlt hw
      · have hlen : (s.watchers ++ [(none : Option Watcher)]).length = s.watchers.length + 1 := by simp
        have hw_lt : w < s.watchers.length + 1 := by
          have := (List.getElem?_eq_some_iff.mp hw).1; rw [hlen] at this; exact this
        have hweq : w = s.watchers.length := by omega
        subst hweq
        simp at hw
    · intro w hw
      by_cases hne : w = s.watchers.length
      · subst hne
        rw [view_cons_watch, if_pos hs.nwatch.symm, hs.reg_none n hl]; rfl
      · exact hnone _ _ w hne hw

theorem sim_next {s : H} {h : Hist} (hs : Sim s h) (w : Nat) :
    Sim (step s (.next w)).1 ((.next w, (step s (.next w)).2) :: h) := by
  have hset : ∀ (r : Resp) m st, ((Op.next w, r) : Ev).1 ≠ Op.set m st := by simp
  have hclr : ∀ (r : Resp) m, ((Op.next w, r) : Ev).1 ≠ Op.clear m := by simp
  have hwt : ∀ (r : Resp) m, ((Op.next w, r) : Ev).1 ≠ Op.watch m := by simp
  have hdr : ∀ (r : Resp) w', ((Op.next w, r) : Ev).1 ≠ Op.drop w' := by simp
  have idle : ∀ r : Resp, (∀ st, r ≠ .value st) → Sim s ((Op.next w, r) :: h) := by
    intro r hr
    apply sim_idle hs _ (hset r) (hclr r) (hwt r) (hdr r)
    intro w'
    cases r <;> simp [isReport]
    case value st => exact absurd rfl (hr st)
  cases hw : s.watchers[w]? with
  | none =>
    have hstep : step s (.next w) = (s, .noWatcher) := by simp [step, hw]
    rw [hstep]; exact idle _ (by simp)
  | some o =>
    cases o with
    | none =>
      have hstep : step s (.next w) = (s, .noWatcher) := by simp [step, hw]
      rw [hstep]; exact idle _ (by simp)
    | some wt =>
      obtain ⟨c, v, hc, hv, k⟩ := hs.w_some w wt hw
      by_cases hseen : wt.seen = some c.version
      · have hstep : step s (.next w) = (s, if c.closed then .ended else .pending) := by
          simp [step, hw, hc, hseen]
        rw [hstep]
        apply idle
        intro st; cases c.closed <;> simp
      · have hstep : step s (.next w) =
            ({ s with watchers := s.watchers.set w (some { wt with seen := some c.version }) },
             .value c.value) := by
          simp [step, hw, hc, hseen]
        rw [hstep]
        have hlt : w < s.watchers.length := (List.getElem?_eq_some_iff.mp hw).1
        constructor
        · intro m j hm
          obtain ⟨c', hc', hccl, hccur⟩ := hs.reg_some m j hm
          exact ⟨c', hc', hccl, by rw [current_cons_other _ _ _ (hset _) (hclr _)]; exact hccur⟩
        · intro m hm; rw [current_cons_other _ _ _ (hset _) (hclr _)]; exact hs.reg_none m hm
        · exact hs.reg_inj
        · rw [numWatches_cons_other _ _ (hwt _)]; simp [hs.nwatch]
        · intro w' wt' hw'
          by_cases hww : w = w'
          · subst hww
            simp [List.getElem?_set, hlt] at hw'
            subst hw'
            exact ⟨c, v.push _, hc, by rw [view_cons_plain _ _ (hwt _) (hdr _), hv]; rfl,
              k.push_report _⟩
          · simp [List.getElem?_set, hww] at hw'
            obtain ⟨c', v', hc', hv', k'⟩ := hs.w_some w' wt' hw'
            refine ⟨c', v'.push _, hc', by rw [view_cons_plain _ _ (hwt _) (hdr _), hv']; rfl, ?_⟩
            exact k'.push_other _ (isReport_next_ne hww _) (hset _ _) (hclr _ _) (fun _ => rfl)
        · intro w' hw'
          have hww : w ≠ w' := by
            intro e; subst e
            exact hw' ⟨wt.chan, some c.version⟩ (by simp [List.getElem?_set, hlt])
          rw [view_cons_plain _ _ (hwt _) (hdr _)]
          have : view h w' = none := by
            apply hs.w_none
            intro wt' hwt'
            exact hw' wt' (by simp [List.getElem?_set, hww, hwt'])
          rw [this]; rfl

theorem sim_drop {s : H} {h : Hist} (hs : Sim s h) (w : Nat) :
    Sim (step s (.drop w)).1 ((.drop w, (step s (.drop w)).2) :: h) := by
  have hset : ∀ (r : Resp) m st, ((Op.drop w, r) : Ev).1 ≠ Op.set m st := by simp
  have hclr : ∀ (r : Resp) m, ((Op.drop w, r) : Ev).1 ≠ Op.clear m := by simp
  have hwt : ∀ (r : Resp) m, ((Op.drop w, r) : Ev).1 ≠ Op.watch m := by simp
  have hrep : ∀ (r : Resp) w', isReport w' (Op.drop w, r) = false :=
    fun r w' => isReport_of_not_next (by simp)
  -- everything except the two stream clauses
  have base : ∀ (r : Resp) (ws : List (Option Watcher)), ws.length = s.watchers.length →
      (∀ w' wt, ws[w']? = some (some wt) → w' ≠ w ∧ s.watchers[w']? = some (some wt)) →
      (∀ w', w' ≠ w → (∀ wt, ws[w']? ≠ some (some wt)) → ∀ wt, s.watchers[w']? ≠ some (some wt)) →
      Sim { s with watchers := ws } ((Op.drop w, r) :: h) := by
    intro r ws hlen hsome hnone
    constructor
    · intro m j hm
      obtain ⟨c', hc', hccl, hccur⟩ := hs.reg_some m j hm
      exact ⟨c', hc', hccl, by rw [current_cons_other _ _ _ (hset _) (hclr _)]; exact hccur⟩
    · intro m hm; rw [current_cons_other _ _ _ (hset _) (hclr _)]; exact hs.reg_none m hm
    · exact hs.reg_inj
    · rw [numWatches_cons_other _ _ (hwt _)]; simp [hlen, hs.nwatch]
    · intro w' wt' hw'
      obtain ⟨hne, hold⟩ := hsome w' wt' hw'
      obtain ⟨c', v', hc', hv', k'⟩ := hs.w_some w' wt' hold
      refine ⟨c', v'.push (Op.drop w, r), hc', ?_, ?_⟩
      · rw [view_cons_drop, if_neg (fun e => hne e.symm), hv']; rfl
      · exact k'.push_other _ (hrep _ _) (hset _ _) (hclr _ _) (fun _ => rfl)
    · intro w' hw'
      rw [view_cons_drop]
      by_cases hww : w = w'
      · simp [hww]
      · rw [if_neg hww, hs.w_none w' (hnone w' (fun e => hww e.symm) hw')]; rfl
  cases hw : s.watchers[w]? with
  | none =>
    have hstep : step s (.drop w) = (s, .noWatcher) := by simp [step, hw]
    rw [hstep]
    refine base _ s.watchers rfl ?_ (fun _ _ h => h)
    intro w' wt hw'
    refine ⟨?_, hw'⟩
    intro e; subst e; rw [hw] at hw'; cases hw'
  | some o =>
    cases o with
    | none =>
      have hstep : step s (.drop w) = (s, .noWatcher) := by simp [step, hw]
      rw [hstep]
      refine base _ s.watchers rfl ?_ (fun _ _ h => h)
      intro w' wt hw'
      refine ⟨?_, hw'⟩
      intro e; subst e; rw [hw] at hw'; cases hw'
    | some wt =>
      have hstep : step s (.drop w) = ({ s with watchers := s.watchers.set w none }, .done) := by
        simp [step, hw]
      rw [hstep]
      have hlt : w < s.watchers.length := (List.getElem?_eq_some_iff.mp hw).1
      refine base _ _ (by simp) ?_ ?_
      · intro w' wt' hw'
        by_cases hww : w = w'
        · subst hww; simp [List.getElem?_set, hlt] at hw'
        · simp [List.getElem?_set, hww] at hw'
          exact ⟨fun e => hww e.symm, hw'⟩
      · intro w' hne hw' wt' hwt'
        have hww : ¬ w = w' := fun e => hne e.symm
        exact hw' wt' (by simp [List.getElem?_set, hww, hwt'])

/-- The model's answer is the oracle's answer whenever the model state is related to the log. -/
theorem resp_eq {s : H} {h : Hist} (hs : Sim s h) (op : Op) : (step s op).2 = expected h op := by
  cases op with
  | set n st => simp only [step, expected]; split <;> rfl
  | clear n => simp only [step, expected]; split <;> rfl
  | check n =>
    cases hl : lookup n s.reg with
    | none => simp [step, expected, hl, hs.reg_none n hl]
    | some i =>
      obtain ⟨c, hc, _, hcur⟩ := hs.reg_some n i hl
      simp [step, expected, hl, hc, hcur]
  | watch n =>
    cases hl : lookup n s.reg with
    | none => simp [step, expected, hl, hs.reg_none n hl]
    | some i =>
      obtain ⟨c, hc, _, hcur⟩ := hs.reg_some n i hl
      simp [step, expected, hl, hcur]
  | drop w =>
    cases hw : s.watchers[w]? with
    | none =>
      have := hs.w_none w (by intro wt; rw [hw]; simp)
      simp [step, expected, hw, this]
    | some o =>
      cases o with
      | none =>
        have := hs.w_none w (by intro wt; rw [hw]; simp)
        simp [step, expected, hw, this]
      | some wt =>
        obtain ⟨c, v, hc, hv, k⟩ := hs.w_some w wt hw
        simp [step, expected, hw, hv]
  | next w =>
    cases hw : s.watchers[w]? with
    | none =>
      have := hs.w_none w (by intro wt; rw [hw]; simp)
      simp [step, expected, hw, this]
    | some o =>
      cases o with
      | none =>
        have := hs.w_none w (by intro wt; rw [hw]; simp)
        simp [step, expected, hw, this]
      | some wt =>
        obtain ⟨c, v, hc, hv, k⟩ := hs.w_some w wt hw
        simp only [step, expected, hw, hc, hv, expectedNext]
        cases hseen : wt.seen with
        | none =>
          simp [k.seen_none hseen, k.value_eq]
        | some x =>
          obtain ⟨h1, h2, h3⟩ := k.seen_some x hseen
          by_cases hx : x = c.version
          · have hf : fresh v.name w v.evs = false := by rw [← h3]; simp [hx]
            simp [hx, h1, hf, ← k.closed_eq]
          · have hf : fresh v.name w v.evs = true := by rw [← h3]; simp [hx]
            simp [hx, h1, hf, k.value_eq]

theorem sim_init : Sim init [] := by
  constructor
  · intro n i hn
    by_cases hnn : ([] : Name) = n
    · subst hnn; simp [init, lookup] at hn; subst hn
      exact ⟨⟨.serving, 0, false⟩, rfl, rfl, by simp [current]⟩
    · simp [init, lookup, hnn] at hn
  · intro n hn
    by_cases hnn : ([] : Name) = n
    · subst hnn; simp [init, lookup] at hn
    · have : ¬ n = [] := fun e => hnn e.symm
      simp [current, this]
  · intro n m i hn hm
    by_cases hnn : ([] : Name) = n <;> by_cases hmm : ([] : Name) = m
    · exact hnn.symm.trans hmm
    · simp [init, lookup, hmm] at hm
    · simp [init, lookup, hnn] at hn
    · simp [init, lookup, hnn] at hn
  · rfl
  · intro w wt hw; simp [init] at hw
  · intro w _; rfl

/-- One step: the answer agrees with the oracle and the relation is kept. -/
theorem sim_step {s : H} {h : Hist} (hs : Sim s h) (op : Op) :
    (step s op).2 = expected h op ∧ Sim (step s op).1 ((op, (step s op).2) :: h) := by
  refine ⟨resp_eq hs op, ?_⟩
  cases op with
  | set n st =>
    have : (step s (.set n st)).2 = .done := by simp only [step]; split <;> rfl
    rw [this]; exact sim_set hs n st
  | clear n =>
    have : (step s (.clear n)).2 = .done := by simp only [step]; split <;> rfl
    rw [this]; exact sim_clear hs n
  | check n =>
    have hst : (step s (.check n)).1 = s := by simp only [step]; split <;> rfl
    rw [hst]
    exact sim_idle hs _ (by simp) (by simp) (by simp) (by simp)
      (fun w => isReport_of_not_next (by simp))
  | watch n => exact sim_watch hs n
  | next w => exact sim_next hs w
  | drop w => exact sim_drop hs w

/-! ### whole runs -/

theorem sim_exec {s : H} {h : Hist} (hs : Sim s h) (ops : List Op) :
    Sim (exec s ops) (hist s h ops) := by
  induction ops generalizing s h with
  | nil => exact hs
  | cons op ops ih => exact ih (sim_step hs op).2

theorem run_eq {s : H} {h : Hist} (hs : Sim s h) (ops : List Op) :
    run s ops = Spec.Health.run h ops := by
  induction ops generalizing s h with
  | nil => rfl
  | cons op ops ih =>
    obtain ⟨h1, h2⟩ := sim_step hs op
    simp only [run, Spec.Health.run, h1]
    rw [h1] at h2
    rw [ih h2]

theorem hist_eq {s : H} {h : Hist} (hs : Sim s h) (ops : List Op) :
    hist s h ops = Spec.Health.log h ops := by
  induction ops generalizing s h with
  | nil => rfl
  | cons op ops ih =>
    obtain ⟨h1, h2⟩ := sim_step hs op
    simp only [hist, Spec.Health.log, h1]
    rw [h1] at h2
    exact ih h2

theorem exec_append (s : H) (a b : List Op) : exec s (a ++ b) = exec (exec s a) b := by
  induction a generalizing s with
  | nil => rfl
  | cons op a ih => exact ih _

theorem hist_append (s : H) (h : Hist) (a b : List Op) :
    hist s h (a ++ b) = hist (exec s a) (hist s h a) b := by
  induction a generalizing s h with
  | nil => rfl
  | cons op a ih => exact ih _ _

theorem wellLogged_hist (ops : List Op) : wellLogged (hist init [] ops) := by
  rw [hist_eq sim_init]; exact wellLogged_log _ _ trivial

/-- The answer to one more operation after `ops`, computed by the oracle from the model's log. -/
theorem answer_eq (ops : List Op) (op : Op) :
    (step (exec init ops) op).2 = expected (hist init [] ops) op :=
  resp_eq (sim_exec sim_init ops) op

theorem answer_spec (ops : List Op) (op : Op) : answer ops op = expected (logOf ops) op :=
  answer_eq ops op

theorem logOf_append (a b : List Op) : logOf (a ++ b) = log (logOf a) b := by
  unfold logOf
  rw [hist_append, hist_eq (sim_exec sim_init a)]

theorem logOf_snoc (a : List Op) (op : Op) : logOf (a ++ [op]) = (op, answer a op) :: logOf a := by
  unfold logOf answer
  rw [hist_append]; rfl

theorem logOf_insert (a : List Op) (op : Op) (b : List Op) :
    logOf (a ++ op :: b) = log ((op, answer a op) :: logOf a) b := by
  have : a ++ op :: b = (a ++ [op]) ++ b := by simp
  rw [this, logOf_append, logOf_snoc]

theorem logOf_eq_log (ops : List Op) : logOf ops = log [] ops := hist_eq sim_init ops

theorem wellLogged_logOf (ops : List Op) : wellLogged (logOf ops) := wellLogged_hist ops

end Health
