import TonicModel.Basic.PbWire
/-
Round-trip lemmas for the prost wire model: varints, keys, length-delimited payloads, scalar
fields, the field loop, flat messages, messages with repeated / optional / map fields.
The only size hypothesis anywhere is that the encoding being read is shorter than 2^64 bytes.
-/
namespace PbWire

theorem byteOf_toNat (n : Nat) (h : n < 256) : (byteOf n).toNat = n := by
  simp [byteOf, UInt8.toNat_ofNat']; omega

/-! ### varints -/

theorem decodeVarintAux_encode (n : Nat) : ∀ (v : Nat) (r : Bytes), v < 2 * 128 ^ n →
    decodeVarintAux (n + 1) (encodeVarintAux (n + 1) v ++ r) = some (v, r) := by
  induction n with
  | zero =>
    intro v r h
    have hv : v < 128 := by omega
    have hb := byteOf_toNat v (by omega)
    simp [encodeVarintAux, hv, decodeVarintAux, hb]
    omega
  | succ n ih =>
    intro v r h
    by_cases hv : v < 128
    · have hb := byteOf_toNat v (by omega)
      simp [encodeVarintAux, hv, decodeVarintAux, hb]
    · have h1 : v / 128 < 2 * 128 ^ n := by rw [Nat.pow_succ] at h; omega
      have hb : (byteOf (v % 128 + 128)).toNat = v % 128 + 128 := byteOf_toNat _ (by omega)
      have hnl : ¬ (v % 128 + 128 < 128) := by omega
      have he : encodeVarintAux (n + 1 + 1) v = byteOf (v % 128 + 128) :: encodeVarintAux (n + 1) (v / 128) := by
        rw [encodeVarintAux]; simp [hv]
      rw [he, List.cons_append, decodeVarintAux, hb, if_neg hnl, ih _ r h1]
      simp
      omega

theorem decodeVarint_encode (v : Nat) (r : Bytes) (h : v < 18446744073709551616) :
    decodeVarint (encodeVarint v ++ r) = some (v, r) := by
  unfold decodeVarint encodeVarint
  exact decodeVarintAux_encode 9 v r (by omega)

theorem encodeVarintAux_ne_nil (n v : Nat) : encodeVarintAux (n + 1) v ≠ [] := by
  unfold encodeVarintAux; split <;> simp

theorem encodeVarint_ne_nil (v : Nat) : encodeVarint v ≠ [] := encodeVarintAux_ne_nil 9 v

/-! ### keys -/

theorem decodeKey_encodeKey (tag wt : Nat) (r : Bytes) (h1 : 1 ≤ tag) (h2 : tag < 536870912)
    (hw : wt < 6) : decodeKey (encodeKey tag wt ++ r) = some (tag, wt, r) := by
  unfold decodeKey encodeKey
  rw [decodeVarint_encode _ _ (by omega)]
  have e1 : (tag * 8 + wt) % 8 = wt := by omega
  have e2 : (tag * 8 + wt) / 8 = tag := by omega
  have e3 : ¬ (4294967295 < tag * 8 + wt) := by omega
  have e4 : ¬ (6 ≤ wt) := by omega
  have e5 : ¬ (tag = 0) := by omega
  simp only [e1, e2, e3, e4, e5, if_false]

theorem encodeKey_ne_nil (tag wt : Nat) : encodeKey tag wt ≠ [] := encodeVarint_ne_nil _

/-! ### length-delimited payloads -/

theorem lenPrefixed_encode (p r : Bytes) (h : p.length < 18446744073709551616) :
    lenPrefixed (encodeVarint p.length ++ (p ++ r)) = some (p, r) := by
  unfold lenPrefixed
  rw [decodeVarint_encode _ _ h]
  simp [splitLen]

theorem length_le_lenDelim (tag : Nat) (p : Bytes) : p.length ≤ (lenDelim tag p).length := by
  simp [lenDelim]; omega

theorem lenDelim_ne_nil (tag : Nat) (p : Bytes) : lenDelim tag p ≠ [] := by
  have := encodeKey_ne_nil tag 2
  simp [lenDelim, this]


/-! ### scalar fields -/

/-- well-typed scalar values: `string`s are UTF-8, integers are in range -/
def ScOk : Sc → SV → Prop
  | .str, .b s => Utf8Rust.valid s = true
  | .bytes, .b _ => True
  | .i32, .i x => -2147483648 ≤ x ∧ x < 2147483648
  | .i64, .i x => -9223372036854775808 ≤ x ∧ x < 9223372036854775808
  | _, _ => False

theorem u64OfInt_lt (x : Int) : u64OfInt x < 18446744073709551616 := by
  unfold u64OfInt; omega

theorem toI32_u64OfInt (x : Int) (h : -2147483648 ≤ x ∧ x < 2147483648) : toI32 (u64OfInt x) = x := by
  unfold toI32 u64OfInt; split <;> omega

theorem toI64_u64OfInt (x : Int) (h : -9223372036854775808 ≤ x ∧ x < 9223372036854775808) :
    toI64 (u64OfInt x) = x := by
  unfold toI64 u64OfInt; split <;> omega

theorem encScalarField_default (tag : Nat) (k : Sc) : encScalarField tag k k.default = [] := by
  cases k <;> simp [encScalarField, Sc.default]

/-- a non-default scalar is written as key + body, and `merge` reads the body back -/
theorem mergeScalar_field (tag : Nat) (k : Sc) (v : SV) (hok : ScOk k v) (hnd : v ≠ k.default)
    (hlen : (encScalarField tag k v).length < 18446744073709551616) (r : Bytes) :
    ∃ wt body, wt < 6 ∧ encScalarField tag k v = encodeKey tag wt ++ body ∧
      mergeScalar k wt (body ++ r) = some (v, r) := by
  cases k <;> cases v <;> simp only [ScOk] at hok
  case str.b s =>
    have hs : s ≠ [] := by simpa [Sc.default] using hnd
    simp only [encScalarField, hs, if_false] at hlen ⊢
    have hl : s.length < 18446744073709551616 := by have := length_le_lenDelim tag s; omega
    refine ⟨2, encodeVarint s.length ++ s, by omega, rfl, ?_⟩
    simp [mergeScalar, List.append_assoc, lenPrefixed_encode s r hl, hok]
  case bytes.b s =>
    have hs : s ≠ [] := by simpa [Sc.default] using hnd
    simp only [encScalarField, hs, if_false] at hlen ⊢
    have hl : s.length < 18446744073709551616 := by have := length_le_lenDelim tag s; omega
    refine ⟨2, encodeVarint s.length ++ s, by omega, rfl, ?_⟩
    simp [mergeScalar, List.append_assoc, lenPrefixed_encode s r hl]
  case i32.i x =>
    have hx : x ≠ 0 := by simpa [Sc.default] using hnd
    simp only [encScalarField, hx, if_false]
    refine ⟨0, encodeVarint (u64OfInt x), by omega, rfl, ?_⟩
    simp [mergeScalar, decodeVarint_encode _ r (u64OfInt_lt x), toI32_u64OfInt x hok]
  case i64.i x =>
    have hx : x ≠ 0 := by simpa [Sc.default] using hnd
    simp only [encScalarField, hx, if_false]
    refine ⟨0, encodeVarint (u64OfInt x), by omega, rfl, ?_⟩
    simp [mergeScalar, decodeVarint_encode _ r (u64OfInt_lt x), toI64_u64OfInt x hok]

/-! ### the field loop -/

theorem fieldsLoop_nil {σ : Type} (mf : σ → Nat → Nat → Bytes → Option (σ × Bytes)) (fuel : Nat) (s : σ) :
    fieldsLoop mf fuel s [] = some s := by
  cases fuel <;> rfl

/-- one iteration: a non-empty record `a` whose key decodes and whose `merge_field` consumes
exactly `a` -/
theorem fieldsLoop_step {σ : Type} (mf : σ → Nat → Nat → Bytes → Option (σ × Bytes)) (fuel : Nat)
    (s s' : σ) (a rest r1 : Bytes) (t w : Nat) (hf : (a ++ rest).length ≤ fuel) (ha : a ≠ [])
    (hk : decodeKey (a ++ rest) = some (t, w, r1)) (hm : mf s t w r1 = some (s', rest)) :
    fieldsLoop mf fuel s (a ++ rest) = fieldsLoop mf (fuel - 1) s' rest := by
  cases a with
  | nil => exact absurd rfl ha
  | cons x a' =>
    cases fuel with
    | zero => simp at hf
    | succ f =>
      simp only [List.cons_append] at hk ⊢
      rw [fieldsLoop, hk]
      simp [hm]


/-! ### flat messages -/

def FlatOk : Flat → List SV → Prop
  | [], [] => True
  | k :: ks, v :: vs => ScOk k v ∧ FlatOk ks vs
  | _, _ => False

theorem FlatOk_length : ∀ (s : Flat) (v : List SV), FlatOk s v → s.length = v.length
  | [], [], _ => rfl
  | _ :: ks, _ :: vs, h => by simp [FlatOk_length ks vs h.2]
  | [], _ :: _, h => h.elim
  | _ :: _, [], h => h.elim

/-- one present scalar field of a flat message goes through the loop -/
theorem flat_field_step (sch : Flat) (ctx i : Nat) (k : Sc) (v : SV) (st : List SV) (rest : Bytes)
    (fuel : Nat) (hk : sch[i]? = some k) (hi : i + 1 < 536870912) (hok : ScOk k v)
    (hnd : v ≠ k.default) (hlen : (encScalarField (i + 1) k v).length < 18446744073709551616)
    (hf : (encScalarField (i + 1) k v ++ rest).length ≤ fuel) :
    fieldsLoop (mergeFlatField sch ctx) fuel st (encScalarField (i + 1) k v ++ rest) =
      fieldsLoop (mergeFlatField sch ctx) (fuel - 1) (st.set i v) rest := by
  obtain ⟨wt, body, hw, he, hm⟩ := mergeScalar_field (i + 1) k v hok hnd hlen rest
  have hne : encScalarField (i + 1) k v ≠ [] := by
    rw [he]; have := encodeKey_ne_nil (i + 1) wt; simp [this]
  refine fieldsLoop_step _ fuel st (st.set i v) _ rest (body ++ rest) (i + 1) wt hf hne ?_ ?_
  · rw [he, List.append_assoc]
    exact decodeKey_encodeKey (i + 1) wt _ (by omega) hi hw
  · simp [mergeFlatField, hk, hm]

theorem flat_loop (sch : Flat) (ctx : Nat) (hsch : sch.length + 1 < 536870912) :
    ∀ (s2 : Flat) (s1 : Flat) (v1 v2 : List SV) (fuel : Nat), sch = s1 ++ s2 → s1.length = v1.length →
      FlatOk s2 v2 → (encFlatFrom (s1.length + 1) s2 v2).length < 18446744073709551616 →
      (encFlatFrom (s1.length + 1) s2 v2).length ≤ fuel →
      fieldsLoop (mergeFlatField sch ctx) fuel (v1 ++ Flat.defaults s2)
        (encFlatFrom (s1.length + 1) s2 v2) = some (v1 ++ v2) := by
  intro s2
  induction s2 with
  | nil =>
    intro s1 v1 v2 fuel _ _ hok _ _
    cases v2 with
    | nil => simp [encFlatFrom, Flat.defaults, fieldsLoop_nil]
    | cons _ _ => exact hok.elim
  | cons k ks ih =>
    intro s1 v1 v2 fuel hs hl hok hb hf
    cases v2 with
    | nil => exact hok.elim
    | cons v vs =>
      obtain ⟨hkv, hrest⟩ := hok
      have hs' : sch = (s1 ++ [k]) ++ ks := by simp [hs]
      have hl' : (s1 ++ [k]).length = (v1 ++ [v]).length := by simp [hl]
      have hidx : (s1 ++ [k]).length + 1 = s1.length + 1 + 1 := by simp
      simp only [encFlatFrom, List.length_append] at hb hf
      have ih' := ih (s1 ++ [k]) (v1 ++ [v]) vs
      rw [hidx] at ih'
      by_cases hd : v = k.default
      · subst hd
        simp only [encFlatFrom, encScalarField_default, List.nil_append, List.length_nil, Nat.zero_add] at hb hf ⊢
        have := ih' fuel hs' hl' hrest hb hf
        simpa [Flat.defaults] using this
      · have hkk : sch[s1.length]? = some k := by simp [hs]
        have hsl : s1.length < sch.length := by simp [hs]
        simp only [encFlatFrom]
        rw [flat_field_step sch ctx s1.length k v _ _ fuel hkk (by omega) hkv hd (by omega)
          (by simp only [List.length_append]; omega)]
        have hset : (v1 ++ Flat.defaults (k :: ks)).set s1.length v = (v1 ++ [v]) ++ Flat.defaults ks := by
          simp [Flat.defaults, hl]
        rw [hset]
        have hfin := ih' (fuel - 1) hs' hl' hrest (by omega) (by
          have := encodeKey_ne_nil
          obtain ⟨wt, body, _, he, _⟩ := mergeScalar_field (s1.length + 1) k v hkv hd (by omega) []
          have hne : (encScalarField (s1.length + 1) k v).length ≠ 0 := by
            rw [he]; have := encodeKey_ne_nil (s1.length + 1) wt
            simp [this]
          omega)
        simpa using hfin

/-- `Message::decode` of a flat message inverts `encode_raw` -/
theorem runFields_encFlat (sch : Flat) (ctx : Nat) (v : List SV) (hsch : sch.length + 1 < 536870912)
    (hok : FlatOk sch v) (hb : (encFlat sch v).length < 18446744073709551616) :
    runFields (mergeFlatField sch ctx) sch.defaults (encFlat sch v) = some v := by
  have := flat_loop sch ctx hsch sch [] [] v (encFlat sch v).length (by simp) rfl hok
    (by simpa [encFlat] using hb) (by simp [encFlat])
  simpa [runFields, encFlat] using this

/-- a nested flat message: length prefix, then the loop on exactly that slice -/
theorem mergeNested_encFlat (sch : Flat) (ctx : Nat) (v : List SV) (r : Bytes) (hctx : ctx ≠ 0)
    (hsch : sch.length + 1 < 536870912) (hok : FlatOk sch v)
    (hb : (encFlat sch v).length < 18446744073709551616) :
    mergeNested ctx (mergeFlatField sch) sch.defaults (encodeVarint (encFlat sch v).length ++ (encFlat sch v ++ r)) =
      some (v, r) := by
  simp [mergeNested, hctx, lenPrefixed_encode _ r hb, runFields_encFlat sch (ctx - 1) v hsch hok hb]


/-! ### messages with repeated / optional / map fields -/

theorem set_of_getElem? {α : Type} (l : List α) (i : Nat) (a : α) (h : l[i]? = some a) : l.set i a = l := by
  obtain ⟨hi, rfl⟩ := List.getElem?_eq_some_iff.mp h
  exact List.set_getElem_self hi

theorem getElem?_set_of_getElem? {α : Type} (l : List α) (i : Nat) (a b : α) (h : l[i]? = some a) :
    (l.set i b)[i]? = some b := by
  obtain ⟨hi, _⟩ := List.getElem?_eq_some_iff.mp h
  simp [hi]

/-- every element is acceptable after the ones before it -/
def AllGood {α : Type} (Good : List α → α → Prop) : List α → List α → Prop
  | _, [] => True
  | pre, a :: l => Good pre a ∧ AllGood Good (pre ++ [a]) l

/-- a run of records of one repeated-like field (repeated string / repeated message / map) -/
theorem rep_loop {α : Type} (sch : List F2) (ctx i : Nat) (hi : i + 1 < 536870912) (elemEnc : α → Bytes)
    (slotOf : List α → V2) (Good : List α → α → Prop)
    (hstep : ∀ (pre : List α) (a : α) (st : List V2) (r : Bytes), st[i]? = some (slotOf pre) →
      Good pre a → (elemEnc a).length < 18446744073709551616 →
      mergeL2Field sch ctx st (i + 1) 2 (encodeVarint (elemEnc a).length ++ (elemEnc a ++ r)) =
        some (st.set i (slotOf (pre ++ [a])), r)) :
    ∀ (l pre : List α) (st : List V2) (rest : Bytes) (fuel : Nat), st[i]? = some (slotOf pre) →
      AllGood Good pre l →
      (l.flatMap (fun a => lenDelim (i + 1) (elemEnc a))).length < 18446744073709551616 →
      (l.flatMap (fun a => lenDelim (i + 1) (elemEnc a)) ++ rest).length ≤ fuel →
      ∃ fuel', rest.length ≤ fuel' ∧
        fieldsLoop (mergeL2Field sch ctx) fuel st (l.flatMap (fun a => lenDelim (i + 1) (elemEnc a)) ++ rest) =
          fieldsLoop (mergeL2Field sch ctx) fuel' (st.set i (slotOf (pre ++ l))) rest := by
  intro l
  induction l with
  | nil =>
    intro pre st rest fuel hst _ _ hf
    refine ⟨fuel, by simpa using hf, ?_⟩
    simp [set_of_getElem? st i _ hst]
  | cons a l ih =>
    intro pre st rest fuel hst hg hb hf
    obtain ⟨hga, hgl⟩ := hg
    simp only [List.flatMap_cons, List.length_append, List.append_assoc] at hb hf ⊢
    have hla : (elemEnc a).length < 18446744073709551616 := by
      have := length_le_lenDelim (i + 1) (elemEnc a); omega
    have hne := lenDelim_ne_nil (i + 1) (elemEnc a)
    have hpos : (lenDelim (i + 1) (elemEnc a)).length ≠ 0 := by simpa using hne
    rw [fieldsLoop_step (mergeL2Field sch ctx) fuel st (st.set i (slotOf (pre ++ [a]))) _ _
      (encodeVarint (elemEnc a).length ++ (elemEnc a ++ (l.flatMap (fun a => lenDelim (i + 1) (elemEnc a)) ++ rest)))
      (i + 1) 2 (by simp only [List.length_append]; omega) hne
      (by
        simp only [lenDelim, List.append_assoc]
        exact decodeKey_encodeKey (i + 1) 2 _ (by omega) hi (by omega))
      (hstep pre a st _ hst hga hla)]
    obtain ⟨fuel', hf', he⟩ := ih (pre ++ [a]) (st.set i (slotOf (pre ++ [a]))) rest (fuel - 1)
      (getElem?_set_of_getElem? st i _ _ hst) hgl (by omega) (by simp only [List.length_append]; omega)
    refine ⟨fuel', hf', ?_⟩
    rw [he]
    simp [List.set_set]


/-- keys of an association list are pairwise different -/
def DistinctKeys : List (Bytes × Bytes) → Prop
  | [] => True
  | e :: rest => (∀ x ∈ rest, x.1 ≠ e.1) ∧ DistinctKeys rest

/-- well-typed field values -/
def F2Ok : F2 → V2 → Prop
  | .sc k, .sc v => ScOk k v
  | .repStr, .repStr l => ∀ s ∈ l, Utf8Rust.valid s = true
  | .repFlat s, .repFlat l => ∀ v ∈ l, FlatOk s v
  | .optFlat s, .optFlat o => ∀ v, o = some v → FlatOk s v
  | .mapSS, .map l => (∀ e ∈ l, Utf8Rust.valid e.1 = true ∧ Utf8Rust.valid e.2 = true) ∧ DistinctKeys l
  | _, _ => False

/-- nested flat schemas stay within the tag range -/
def F2.small : F2 → Prop
  | .repFlat s => s.length + 1 < 536870912
  | .optFlat s => s.length + 1 < 536870912
  | _ => True

theorem mapInsert_fresh (l : List (Bytes × Bytes)) (k v : Bytes) (h : ∀ x ∈ l, x.1 ≠ k) :
    mapInsert l k v = l ++ [(k, v)] := by
  have : l.any (fun e => e.1 == k) = false := by
    simp only [List.any_eq_false, beq_iff_eq]
    exact fun x hx => h x hx
  simp [mapInsert, this]

theorem allGood_map (l pre : List (Bytes × Bytes))
    (hv : ∀ e ∈ l, Utf8Rust.valid e.1 = true ∧ Utf8Rust.valid e.2 = true) (hd : DistinctKeys l)
    (hp : ∀ x ∈ pre, ∀ e ∈ l, x.1 ≠ e.1) :
    AllGood (fun pre e => Utf8Rust.valid e.1 = true ∧ Utf8Rust.valid e.2 = true ∧ ∀ x ∈ pre, x.1 ≠ e.1) pre l := by
  induction l generalizing pre with
  | nil => trivial
  | cons e l ih =>
    refine ⟨⟨(hv e (by simp)).1, (hv e (by simp)).2, fun x hx => hp x hx e (by simp)⟩, ?_⟩
    apply ih _ (fun e' he' => hv e' (by simp [he'])) hd.2
    intro x hx e' he'
    rcases List.mem_append.mp hx with hx | hx
    · exact hp x hx e' (by simp [he'])
    · simp only [List.mem_singleton] at hx; subst hx
      exact fun h => hd.1 e' he' h.symm

theorem allGood_of_forall {α : Type} (G : α → Prop) (l pre : List α) (h : ∀ a ∈ l, G a) :
    AllGood (fun _ a => G a) pre l := by
  induction l generalizing pre with
  | nil => trivial
  | cons a l ih => exact ⟨h a (by simp), ih _ (fun x hx => h x (by simp [hx]))⟩

/-- one field of a message (all its records) goes through the loop and lands in its slot -/
theorem l2_field (sch : List F2) (ctx : Nat) (hctx : ctx ≠ 0) (i : Nat) (hi : i + 1 < 536870912)
    (f : F2) (x : V2) (hf : sch[i]? = some f) (hsm : f.small) (hok : F2Ok f x) (st : List V2)
    (hst : st[i]? = some f.default) (rest : Bytes) (fuel : Nat)
    (hb : (encL2Field (i + 1) f x).length < 18446744073709551616)
    (hfuel : (encL2Field (i + 1) f x ++ rest).length ≤ fuel) :
    ∃ fuel', rest.length ≤ fuel' ∧
      fieldsLoop (mergeL2Field sch ctx) fuel st (encL2Field (i + 1) f x ++ rest) =
        fieldsLoop (mergeL2Field sch ctx) fuel' (st.set i x) rest := by
  cases f <;> cases x <;> simp only [F2Ok] at hok
  case sc.sc k v =>
    simp only [encL2Field] at hb hfuel ⊢
    by_cases hd : v = k.default
    · subst hd
      refine ⟨fuel, by simpa [encScalarField_default] using hfuel, ?_⟩
      simp only [F2.default] at hst
      simp [encScalarField_default, set_of_getElem? st i _ hst]
    · obtain ⟨wt, body, hw, he, hm⟩ := mergeScalar_field (i + 1) k v hok hd hb rest
      have hne : encScalarField (i + 1) k v ≠ [] := by
        rw [he]; have := encodeKey_ne_nil (i + 1) wt; simp [this]
      have hpos : (encScalarField (i + 1) k v).length ≠ 0 := by simpa using hne
      refine ⟨fuel - 1, by simp only [List.length_append] at hfuel; omega, ?_⟩
      refine fieldsLoop_step _ fuel st _ _ rest (body ++ rest) (i + 1) wt hfuel hne ?_ ?_
      · rw [he, List.append_assoc]
        exact decodeKey_encodeKey (i + 1) wt _ (by omega) hi hw
      · simp [mergeL2Field, hf, hst, hm]
  case repStr.repStr l =>
    simp only [encL2Field] at hb hfuel ⊢
    have := rep_loop sch ctx i hi (fun s : Bytes => s) V2.repStr (fun _ s => Utf8Rust.valid s = true)
      (by
        intro pre a st' r hs hg hl
        have : mergeScalar .str 2 (encodeVarint a.length ++ (a ++ r)) = some (.b a, r) := by
          simp [mergeScalar, lenPrefixed_encode a r hl, hg]
        simp [mergeL2Field, hf, hs, this])
      l [] st rest fuel (by simpa [F2.default] using hst) (allGood_of_forall _ l [] hok) hb hfuel
    simpa using this
  case repFlat.repFlat sf l =>
    simp only [encL2Field] at hb hfuel ⊢
    simp only [F2.small] at hsm
    have := rep_loop sch ctx i hi (fun v : List SV => encFlat sf v) V2.repFlat (fun _ v => FlatOk sf v)
      (by
        intro pre a st' r hs hg hl
        simp [mergeL2Field, hf, hs, mergeNested_encFlat sf ctx a r hctx hsm hg hl])
      l [] st rest fuel (by simpa [F2.default] using hst) (allGood_of_forall _ l [] hok) hb hfuel
    simpa using this
  case optFlat.optFlat sf o =>
    simp only [F2.small] at hsm
    cases o with
    | none =>
      simp only [encL2Field] at hfuel ⊢
      refine ⟨fuel, by simpa using hfuel, ?_⟩
      simp only [F2.default] at hst
      simp [set_of_getElem? st i _ hst]
    | some v =>
      simp only [encL2Field] at hb hfuel ⊢
      have hfo := hok v rfl
      have hl : (encFlat sf v).length < 18446744073709551616 := by
        have := length_le_lenDelim (i + 1) (encFlat sf v); omega
      have hne := lenDelim_ne_nil (i + 1) (encFlat sf v)
      have hpos : (lenDelim (i + 1) (encFlat sf v)).length ≠ 0 := by simpa using hne
      refine ⟨fuel - 1, by simp only [List.length_append] at hfuel; omega, ?_⟩
      refine fieldsLoop_step _ fuel st _ _ rest
        (encodeVarint (encFlat sf v).length ++ (encFlat sf v ++ rest)) (i + 1) 2 hfuel hne ?_ ?_
      · simp only [lenDelim, List.append_assoc]
        exact decodeKey_encodeKey (i + 1) 2 _ (by omega) hi (by omega)
      · simp only [F2.default] at hst
        simp [mergeL2Field, hf, hst, mergeNested_encFlat sf ctx v rest hctx hsm hfo hl]
  case mapSS.map l =>
    simp only [encL2Field] at hb hfuel ⊢
    have := rep_loop sch ctx i hi encEntry V2.map
      (fun pre e => Utf8Rust.valid e.1 = true ∧ Utf8Rust.valid e.2 = true ∧ ∀ x ∈ pre, x.1 ≠ e.1)
      (by
        intro pre a st' r hs hg hl
        have hfo : FlatOk entrySchema [.b a.1, .b a.2] := ⟨hg.1, hg.2.1, trivial⟩
        have hm := mergeNested_encFlat entrySchema ctx [.b a.1, .b a.2] r hctx (by decide) hfo hl
        simp only [encEntry] at hl ⊢
        simp [mergeL2Field, hf, hs, hm, mapInsert_fresh pre a.1 a.2 hg.2.2])
      l [] st rest fuel (by simpa [F2.default] using hst)
      (allGood_map l [] hok.1 hok.2 (by simp)) hb hfuel
    simpa using this

end PbWire

