import TonicModel.Model.WebCaller
import TonicModel.Spec.GrpcWeb
import TonicModel.Lemmas.GrpcWeb
import TonicModel.Lemmas.WebClient
/-
Lemmas about the caller's view (`Model/WebCaller`): what `Streaming` makes of the frames a
successful run of the client layer hands out.
-/
namespace WebCallerLemmas
open WebCaller WebClient WebClientLemmas
open WebServer (Out dataOf)
open Spec.GrpcWeb (framesBytes frameBytes rawFrame)
open TMap (Pair)

theorem dataOf_datas (datas : List Bytes) (tail : List Out) :
    dataOf (datas.map Out.data ++ tail) = datas.flatten ++ dataOf tail := by
  induction datas with
  | nil => simp
  | cons d ds ih => simp [dataOf, ih]

theorem trailersOf_datas (datas : List Bytes) (tail : List Out) :
    trailersOf (datas.map Out.data ++ tail) = trailersOf tail := by
  induction datas with
  | nil => rfl
  | cons d ds ih => simpa [trailersOf] using ih

/-- the frames of a run that handed out data, one trailers frame and the end -/
theorem view_of_clean (datas : List Bytes) (t : List Pair) :
    dataOf (datas.map Out.data ++ [Out.trailers t, Out.eos]) = datas.flatten ∧
    trailersOf (datas.map Out.data ++ [Out.trailers t, Out.eos]) = some t ∧
    (datas.map Out.data ++ [Out.trailers t, Out.eos]).getLast? = some Out.eos := by
  refine ⟨?_, ?_, ?_⟩
  · rw [dataOf_datas]; simp [dataOf]
  · rw [trailersOf_datas]; rfl
  · simp

/-- uncompressed message frames are cut back into their payloads -/
theorem messagesAux_frames : ∀ (frames : List (Bool × Bytes)) (f : Nat),
    (∀ fr ∈ frames, fr.1 = false ∧ fr.2.length < 4294967296) → frames.length < f →
    messagesAux f (framesBytes frames) = frames.map (·.2) := by
  intro frames
  induction frames with
  | nil =>
    intro f _ hf
    obtain ⟨f', rfl⟩ : ∃ f', f = f' + 1 := ⟨f - 1, by omega⟩
    simp [messagesAux, framesBytes, hdr5]
  | cons fr frs ih =>
    intro f h hf
    obtain ⟨f', rfl⟩ : ∃ f', f = f' + 1 := ⟨f - 1, by omega⟩
    obtain ⟨c, p⟩ := fr
    have hc := (h (c, p) (by simp)).1
    have hp := (h (c, p) (by simp)).2
    simp only at hc hp
    subst hc
    have hh : hdr5 (framesBytes ((false, p) :: frs)) = some (0, p.length, p ++ framesBytes frs) := by
      have := hdr5_raw 0 p (framesBytes frs) hp
      simpa [framesBytes, frameBytes, rawFrame] using this
    simp only [messagesAux, hh]
    have hlt : ¬ (p ++ framesBytes frs).length < p.length := by simp
    simp only [hlt, not_false_eq_true, and_self, if_true, List.take_left', List.drop_left',
      List.map_cons]
    rw [ih f' (fun fr hfr => h fr (by simp [hfr])) (by simp only [List.length_cons] at hf; omega)]

theorem messages_frames (frames : List (Bool × Bytes))
    (h : ∀ fr ∈ frames, fr.1 = false ∧ fr.2.length < 4294967296) :
    messages (framesBytes frames) = frames.map (·.2) := by
  have := GrpcWebLemmas.framesBytes_length frames
  exact messagesAux_frames frames _ h (by omega)

/-! ### a status depends on the header map only through `get_all` per name -/

theorem hmap_getAll_eq_tmap (k : Bytes) (m : List Pair) : HMap.getAll k m = TMap.getAll k m := by
  induction m with
  | nil => rfl
  | cons e r ih =>
    rw [HMap.getAll_cons, TMap.getAll_cons, ih]
    by_cases h : e.1 = k <;> simp [h]

/-- two readings of a status agree: same code, message, details, and the same further metadata
name by name (the order between different names is not observable) -/
def SameStatus (a b : Option Status.Outcome) : Prop :=
  match a, b with
  | none, none => True
  | some .panic, some .panic => True
  | some (.status s1), some (.status s2) =>
    s1.code = s2.code ∧ s1.message = s2.message ∧ s1.details = s2.details ∧
    ∀ k, HMap.getAll k s1.metadata = HMap.getAll k s2.metadata
  | _, _ => False

theorem getAll_remove3 (x y z k : Bytes) (a b : HMap)
    (h : ∀ k, HMap.getAll k a = HMap.getAll k b) :
    HMap.getAll k (HMap.remove x (HMap.remove y (HMap.remove z a))) =
    HMap.getAll k (HMap.remove x (HMap.remove y (HMap.remove z b))) := by
  by_cases hx : k = x
  · subst hx; rw [HMap.getAll_remove_self, HMap.getAll_remove_self]
  · rw [HMap.getAll_remove_ne _ _ _ hx, HMap.getAll_remove_ne _ _ _ hx]
    by_cases hy : k = y
    · subst hy; rw [HMap.getAll_remove_self, HMap.getAll_remove_self]
    · rw [HMap.getAll_remove_ne _ _ _ hy, HMap.getAll_remove_ne _ _ _ hy]
      by_cases hz : k = z
      · subst hz; rw [HMap.getAll_remove_self, HMap.getAll_remove_self]
      · rw [HMap.getAll_remove_ne _ _ _ hz, HMap.getAll_remove_ne _ _ _ hz, h]

theorem fromHeaderMap_ext (v : Status.Variant) (a b : HMap)
    (h : ∀ k, HMap.getAll k a = HMap.getAll k b) :
    SameStatus (Status.fromHeaderMap v a) (Status.fromHeaderMap v b) := by
  have hget : ∀ k, HMap.get k a = HMap.get k b := fun k => by simp [HMap.get, h k]
  have hmsg : Status.decodeMessage a = Status.decodeMessage b := by
    simp [Status.decodeMessage, hget]
  have hoth := fun k => getAll_remove3 Status.GRPC_STATUS_DETAILS Status.GRPC_MESSAGE Status.GRPC_STATUS k a b h
  unfold Status.fromHeaderMap
  rw [hget Status.GRPC_STATUS, hget Status.GRPC_STATUS_DETAILS, hmsg]
  cases HMap.get Status.GRPC_STATUS b with
  | none => trivial
  | some cv =>
    simp only
    cases HMap.get Status.GRPC_STATUS_DETAILS b with
    | none => exact ⟨rfl, rfl, rfl, hoth⟩
    | some dv =>
      simp only
      cases B64.decode dv with
      | some d => exact ⟨rfl, rfl, rfl, hoth⟩
      | none =>
        cases v with
        | orig => trivial
        | fixed => exact ⟨rfl, rfl, rfl, hoth⟩

end WebCallerLemmas
