import TonicModel.Model.Interceptor
import TonicModel.Spec.Interceptor
/-
Helper lemmas for C12: percent-encoding round trip against the spec's strict decoder, validity
of the bytes `Status::add_header` writes (so its `unwrap` cannot fire), reflexivity of the
per-key equalities, and the per-key content of the header map a rejection produces.
-/
namespace Interceptor
open HMapLite HttpLite

/-! ### percent-encoding -/

theorem hexVal_hexUpper : ∀ n : Fin 16, Spec.Interceptor.hexVal (hexUpper n.val) = some n.val := by decide

theorem hexUpper_valid : ∀ n : Fin 16, validValueByte (hexUpper n.val) = true := by decide

theorem byte_split (b : UInt8) : Spec.Interceptor.byteOfHex (b.toNat / 16) (b.toNat % 16) = b := by
  have : b.toNat / 16 * 16 + b.toNat % 16 = b.toNat := by omega
  rw [Spec.Interceptor.byteOfHex, this]; exact UInt8.ofNat_toNat

theorem percentDecode_enc (a b : UInt8) (rest r : Bytes) (x y : Nat)
    (ha : Spec.Interceptor.hexVal a = some x) (hb : Spec.Interceptor.hexVal b = some y)
    (hr : Spec.Interceptor.percentDecode rest = some r) :
    Spec.Interceptor.percentDecode (37 :: a :: b :: rest) = some (Spec.Interceptor.byteOfHex x y :: r) := by
  rw [Spec.Interceptor.percentDecode.eq_def]; simp [ha, hb, hr]

theorem percentDecode_plain (c : UInt8) (rest r : Bytes) (h : c ≠ 37)
    (hu : Spec.Interceptor.unencodedOk c = true)
    (hr : Spec.Interceptor.percentDecode rest = some r) :
    Spec.Interceptor.percentDecode (c :: rest) = some (c :: r) := by
  rw [Spec.Interceptor.percentDecode.eq_def]; simp [h, hu, hr]

theorem not_inEncodeSet_unencoded (b : UInt8) (h : inEncodeSet b = false) :
    Spec.Interceptor.unencodedOk b = true ∧ b ≠ 37 := by
  have hb : b = UInt8.ofNat b.toNat := UInt8.ofNat_toNat.symm
  constructor
  · simp only [inEncodeSet, Bool.or_eq_false_iff, decide_eq_false_iff_not, beq_eq_false_iff_ne] at h
    simp only [Spec.Interceptor.unencodedOk, Bool.or_eq_true, Bool.and_eq_true, decide_eq_true_eq]
    omega
  · intro e
    rw [e] at h
    revert h; decide

theorem not_inEncodeSet_valid (b : UInt8) (h : inEncodeSet b = false) : validValueByte b = true := by
  simp only [inEncodeSet, Bool.or_eq_false_iff, decide_eq_false_iff_not, beq_eq_false_iff_ne] at h
  simp only [validValueByte, Bool.or_eq_true, Bool.and_eq_true, decide_eq_true_eq, bne_iff_ne, beq_iff_eq]
  omega

/-- The spec's strict `Percent-Encoded` decoder inverts tonic's encoder on every byte string. -/
theorem percentDecode_percentEncode (m : Bytes) :
    Spec.Interceptor.percentDecode (percentEncode m) = some m := by
  induction m with
  | nil => simp [percentEncode, Spec.Interceptor.percentDecode]
  | cons b bs ih =>
    have hlt := b.toNat_lt
    cases h : inEncodeSet b
    · have ⟨h1, h2⟩ := not_inEncodeSet_unencoded b h
      simp [percentEncode, h, percentDecode_plain b _ _ h2 h1 ih]
    · have e1 := hexVal_hexUpper ⟨b.toNat / 16, by omega⟩
      have e2 := hexVal_hexUpper ⟨b.toNat % 16, by omega⟩
      simp only at e1 e2
      simp [percentEncode, h, percentDecode_enc _ _ _ _ _ _ e1 e2 ih, byte_split]

/-- Everything the encoder writes is a legal `HeaderValue` byte. -/
theorem percentEncode_valid (m : Bytes) : (percentEncode m).all validValueByte = true := by
  induction m with
  | nil => rfl
  | cons b bs ih =>
    have hlt := b.toNat_lt
    cases h : inEncodeSet b
    · simp [percentEncode, h, not_inEncodeSet_valid b h, ih]
    · have e1 := hexUpper_valid ⟨b.toNat / 16, by omega⟩
      have e2 := hexUpper_valid ⟨b.toNat % 16, by omega⟩
      simp only at e1 e2
      have e3 : validValueByte 37 = true := by decide
      simp [percentEncode, h, e1, e2, e3, ih]

/-! ### base64 output is header-safe -/

theorem b64char_valid (n : Nat) : validValueByte (B64.b64char n) = true := by
  unfold B64.b64char validValueByte
  split
  · simp [UInt8.toNat_ofNat']; omega
  · split
    · simp [UInt8.toNat_ofNat']; omega
    · split
      · simp [UInt8.toNat_ofNat']; omega
      · split <;> decide

theorem b64encode_valid (d : Bytes) : (B64.encode false d).all validValueByte = true := by
  fun_induction B64.encode false d with
  | case1 a b c rest ih => simp [b64char_valid, ih]
  | case2 a b => simp [b64char_valid]
  | case3 a => simp [b64char_valid]
  | case4 => rfl

/-! ### reflexivity of the oracle's equalities -/

theorem hdrsEqOn_refl (ks : List Bytes) (a : Hdrs) : Spec.Interceptor.hdrsEqOn ks a a = true := by
  simp [Spec.Interceptor.hdrsEqOn]

theorem hdrsEq_refl (a : Hdrs) : Spec.Interceptor.hdrsEq a a = true := hdrsEqOn_refl _ a

theorem extEq_refl (a : Ext) : Spec.Interceptor.extEq a a = true := by
  simp [Spec.Interceptor.extEq]

/-- `hdrsEq` means: every name has the same values in the same order. -/
theorem hdrsEq_iff (a b : Hdrs) :
    Spec.Interceptor.hdrsEq a b = true ↔ ∀ k, getAll k a = getAll k b := by
  constructor
  · intro h k
    simp only [Spec.Interceptor.hdrsEq, Spec.Interceptor.hdrsEqOn, List.all_eq_true, beq_iff_eq] at h
    by_cases hk : k ∈ keys a ++ keys b
    · exact h k hk
    · have ha : getAll k a = [] := by
        apply (contains_eq_false_iff k a).mp
        simp only [contains, List.any_eq_false, beq_iff_eq]
        intro e he hek
        exact hk (List.mem_append_left _ (by simp only [keys, List.mem_map]; exact ⟨e, he, hek⟩))
      have hb : getAll k b = [] := by
        apply (contains_eq_false_iff k b).mp
        simp only [contains, List.any_eq_false, beq_iff_eq]
        intro e he hek
        exact hk (List.mem_append_right _ (by simp only [keys, List.mem_map]; exact ⟨e, he, hek⟩))
      rw [ha, hb]
  · intro h
    simp only [Spec.Interceptor.hdrsEq, Spec.Interceptor.hdrsEqOn, List.all_eq_true, beq_iff_eq]
    intro k _
    exact h k

/-! ### the header map a status produces (`Status::into_http`), per key -/

theorem names_ne :
    nameGrpcDetails ≠ nameGrpcMessage ∧ nameGrpcDetails ≠ nameGrpcStatus ∧
    nameGrpcMessage ≠ nameGrpcStatus ∧ nameContentType ≠ nameGrpcStatus ∧
    nameContentType ≠ nameGrpcMessage ∧ nameContentType ≠ nameGrpcDetails := by decide

theorem reserved_names :
    Spec.Interceptor.reserved nameGrpcDetails = true ∧ Spec.Interceptor.reserved nameGrpcMessage = true ∧
    Spec.Interceptor.reserved nameGrpcStatus = true ∧ Spec.Interceptor.reserved nameContentType = true ∧
    (∀ k ∈ reservedHeaders, Spec.Interceptor.reserved k = true) := by decide

theorem code_table : ∀ c : Fin 17,
    ((codeHeaderValue c.val).isEmpty = false ∧ (codeHeaderValue c.val).all Ascii.isDigit = true ∧
     digitsVal (codeHeaderValue c.val) = c.val) := by decide

/-- per-key content of the status's metadata contribution -/
theorem statusMetadataHeaders_getAll (st : GStatus) (k : Bytes) :
    getAll k (statusMetadataHeaders st) =
      if k = nameGrpcDetails ∨ k ∈ reservedHeaders then [] else getAll k st.metadata := by
  unfold statusMetadataHeaders intoSanitizedHeaders
  by_cases hd : k = nameGrpcDetails
  · subst hd; simp [getAll_remove_self]
  · rw [getAll_remove_ne _ _ _ hd]
    by_cases hr : k ∈ reservedHeaders
    · simp [hd, hr, getAll_removeAll_mem _ _ _ hr]
    · simp [hd, hr, getAll_removeAll_not_mem _ _ _ hr]

/-- `Status::add_header` never fails, and per key the map it produces is: the three status
fields under their names, and under every other name what `extend` left. -/
theorem addHeader_getAll (st : GStatus) (h : Hdrs) :
    ∃ H, addHeader st h = some H ∧ ∀ k, getAll k H =
      if k = nameGrpcDetails ∧ st.details.isEmpty = false then [(B64.encode false st.details, false)]
      else if k = nameGrpcMessage ∧ st.message.isEmpty = false then [(percentEncode st.message, false)]
      else if k = nameGrpcStatus then [(codeHeaderValue st.code, false)]
      else getAll k (extend h (statusMetadataHeaders st)) := by
  obtain ⟨n1, n2, n3, _, _, _⟩ := names_ne
  unfold addHeader addHeaderWith
  simp only [percentEncode_valid, b64encode_valid, if_true]
  cases hm : st.message.isEmpty <;> cases hd : st.details.isEmpty
  all_goals
    refine ⟨_, rfl, ?_⟩
    intro k
    by_cases k1 : k = nameGrpcDetails
    · subst k1
      simp [getAll_insert_self, getAll_insert_ne _ _ _ _ n1, getAll_insert_ne _ _ _ _ n2, n1, n2]
    · by_cases k2 : k = nameGrpcMessage
      · subst k2
        simp [getAll_insert_self, getAll_insert_ne _ _ _ _ n3, getAll_insert_ne _ _ _ _ k1, k1, n3]
      · by_cases k3 : k = nameGrpcStatus
        · subst k3
          simp [getAll_insert_self, getAll_insert_ne _ _ _ _ k1, getAll_insert_ne _ _ _ _ k2, k1, k2]
        · simp [getAll_insert_ne _ _ _ _ k1, getAll_insert_ne _ _ _ _ k2, getAll_insert_ne _ _ _ _ k3,
            k1, k2, k3]


/-- `Status::into_http` never panics; per key its header map holds: the fixed content type, the
code, the percent-encoded message (absent iff empty), the base64 details (absent iff empty), and
under every other name the status's metadata unless the name is one of tonic's reserved six. -/
theorem statusIntoHttp_headers {ρ : Type} (dflt : ρ) (st : GStatus) :
    ∃ H, statusIntoHttp dflt st = some { status := 200, version := 11, headers := H, ext := [], body := dflt } ∧
      getAll nameContentType H = [(grpcContentType, false)] ∧
      getAll nameGrpcStatus H = [(codeHeaderValue st.code, false)] ∧
      getAll nameGrpcMessage H =
        (if st.message.isEmpty = false then [(percentEncode st.message, false)] else []) ∧
      getAll nameGrpcDetails H =
        (if st.details.isEmpty = false then [(B64.encode false st.details, false)] else []) ∧
      ∀ k, k ≠ nameContentType → k ≠ nameGrpcStatus → k ≠ nameGrpcMessage → k ≠ nameGrpcDetails →
        getAll k H = if k ∈ reservedHeaders then [] else getAll k st.metadata := by
  obtain ⟨H, hH, hget⟩ := addHeader_getAll st (insert nameContentType (grpcContentType, false) [])
  obtain ⟨n1, n2, n3, n4, n5, n6⟩ := names_ne
  have hbase : ∀ k, getAll k (insert nameContentType (grpcContentType, false) ([] : Hdrs)) =
      if k = nameContentType then [(grpcContentType, false)] else [] := by
    intro k
    by_cases hk : k = nameContentType
    · subst hk; simp [getAll_insert_self]
    · simp [getAll_insert_ne _ _ _ _ hk, hk, getAll_nil]
  have hother : ∀ k, getAll k (extend (insert nameContentType (grpcContentType, false) ([] : Hdrs))
      (statusMetadataHeaders st)) =
      if k = nameContentType then [(grpcContentType, false)]
      else if k = nameGrpcDetails ∨ k ∈ reservedHeaders then [] else getAll k st.metadata := by
    intro k
    rw [getAll_extend, hbase]
    cases hc : contains k (statusMetadataHeaders st)
    · have := (contains_eq_false_iff _ _).mp hc
      rw [statusMetadataHeaders_getAll] at this
      by_cases hk : k = nameContentType
      · simp [hk]
      · simp only [hk, if_false, Bool.false_eq_true]
        split at this
        · simp [*]
        · rename_i hn; simp [hn, this]
    · have hne : getAll k (statusMetadataHeaders st) ≠ [] := by
        intro e
        have := (contains_eq_false_iff _ _).mpr e
        rw [hc] at this; cases this
      rw [statusMetadataHeaders_getAll] at hne ⊢
      have hk : k ≠ nameContentType := by
        intro e; subst e
        simp [reservedHeaders, nameContentType] at hne
      simp only [if_true, hk, if_false]
  have hmres : nameGrpcMessage ∈ reservedHeaders := by decide
  refine ⟨H, ?_, ?_, ?_, ?_, ?_, ?_⟩
  · simp [statusIntoHttp, statusIntoHttpWith, responseNew, hH]
  · rw [hget nameContentType, hother]
    simp [n4, n5, n6]
  · rw [hget nameGrpcStatus]
    simp [Ne.symm n2, Ne.symm n3]
  · rw [hget nameGrpcMessage, hother]
    cases hm : st.message.isEmpty <;> simp [Ne.symm n1, n3, Ne.symm n5, hmres]
  · rw [hget nameGrpcDetails, hother]
    cases hd : st.details.isEmpty <;> simp [n1, n2, Ne.symm n6]
  · intro k k4 k3 k2 k1
    rw [hget k, hother k]
    simp [k1, k2, k3, k4]

/-! ### client side: lenient percent-decoding, code parsing -/

theorem hexDigitVal_hexUpper : ∀ n : Fin 16, hexDigitVal (hexUpper n.val) = some n.val := by decide

theorem byteOfNibbles_split (b : UInt8) : byteOfNibbles (b.toNat / 16) (b.toNat % 16) = b := by
  have : b.toNat / 16 * 16 + b.toNat % 16 = b.toNat := by omega
  rw [byteOfNibbles, this]; exact UInt8.ofNat_toNat

/-- `percent_decode` (the lenient decoder the client uses) inverts the encoder too. -/
theorem percentDecodeLenient_percentEncode (m : Bytes) :
    percentDecodeLenient (percentEncode m) = m := by
  induction m with
  | nil => simp [percentEncode, percentDecodeLenient]
  | cons b bs ih =>
    have hlt := b.toNat_lt
    cases h : inEncodeSet b
    · have ⟨_, h2⟩ := not_inEncodeSet_unencoded b h
      simp only [percentEncode, h, Bool.false_eq_true, if_false]
      rw [percentDecodeLenient.eq_def]
      simp [h2, ih]
    · have e1 := hexDigitVal_hexUpper ⟨b.toNat / 16, by omega⟩
      have e2 := hexDigitVal_hexUpper ⟨b.toNat % 16, by omega⟩
      simp only at e1 e2
      simp only [percentEncode, h, if_true]
      rw [percentDecodeLenient.eq_def]
      simp [e1, e2, ih, byteOfNibbles_split]

theorem codeFromBytes_codeHeaderValue : ∀ c : Fin 17, codeFromBytes (codeHeaderValue c.val) = c.val := by
  decide

/-! ### routing: the model's route predicate against the spec's path grammar -/

theorem splitSlash_ne_nil (p : Bytes) : Spec.Interceptor.splitSlash p ≠ [] := by
  induction p with
  | nil => simp [Spec.Interceptor.splitSlash]
  | cons c rest ih =>
    rw [Spec.Interceptor.splitSlash]
    cases h : Spec.Interceptor.splitSlash rest with
    | nil => simp
    | cons seg segs => by_cases hc : c = 47 <;> simp [hc]

theorem splitSlash_slash (rest : Bytes) : Spec.Interceptor.splitSlash (47 :: rest) = [] :: Spec.Interceptor.splitSlash rest := by
  rw [Spec.Interceptor.splitSlash]
  cases h : Spec.Interceptor.splitSlash rest with
  | nil => exact absurd h (splitSlash_ne_nil rest)
  | cons seg segs => simp

theorem splitSlash_other (c : UInt8) (rest : Bytes) (hc : c ≠ 47) (seg : Bytes) (segs : List Bytes)
    (h : Spec.Interceptor.splitSlash rest = seg :: segs) : Spec.Interceptor.splitSlash (c :: rest) = (c :: seg) :: segs := by
  rw [Spec.Interceptor.splitSlash, h]; simp [hc]

/-- a segment without '/' followed by '/' is split off -/
theorem splitSlash_seg (seg rest : Bytes) (h : ∀ c ∈ seg, c ≠ 47) :
    Spec.Interceptor.splitSlash (seg ++ 47 :: rest) = seg :: Spec.Interceptor.splitSlash rest := by
  induction seg with
  | nil => exact splitSlash_slash rest
  | cons c cs ih =>
    have := ih (fun x hx => h x (List.mem_cons_of_mem _ hx))
    exact splitSlash_other c _ (h c List.mem_cons_self) _ _ this

theorem splitSlash_single (p : Bytes) (h : Spec.Interceptor.splitSlash p = [[]]) : p = [] := by
  cases p with
  | nil => rfl
  | cons c rest =>
    rw [Spec.Interceptor.splitSlash] at h
    cases hr : Spec.Interceptor.splitSlash rest with
    | nil => exact absurd hr (splitSlash_ne_nil rest)
    | cons seg segs =>
      rw [hr] at h
      by_cases hc : c = 47 <;> simp [hc] at h

/-- inverse: a split with at least two segments comes from `seg ++ '/' :: rest` -/
theorem splitSlash_inv (p seg s2 : Bytes) (tl : List Bytes) (h : Spec.Interceptor.splitSlash p = seg :: s2 :: tl) :
    ∃ rest, p = seg ++ 47 :: rest ∧ Spec.Interceptor.splitSlash rest = s2 :: tl := by
  induction p generalizing seg with
  | nil => simp [Spec.Interceptor.splitSlash] at h
  | cons c rest ih =>
    rw [Spec.Interceptor.splitSlash] at h
    cases hr : Spec.Interceptor.splitSlash rest with
    | nil => exact absurd hr (splitSlash_ne_nil rest)
    | cons sg sgs =>
      rw [hr] at h
      by_cases hc : c = 47
      · simp [hc] at h
        obtain ⟨h1, h2, h3⟩ := h
        subst h1 h2 h3
        exact ⟨rest, by simp [hc], hr⟩
      · simp [hc] at h
        obtain ⟨h1, h2⟩ := h
        subst h1
        rw [h2] at hr
        obtain ⟨r, hr1, hr2⟩ := ih sg hr
        exact ⟨r, by simp [hr1], hr2⟩

theorem routeMatches_iff (name path : Bytes) :
    routeMatches name path = true ↔ ∃ rest, rest ≠ [] ∧ path = 47 :: (name ++ 47 :: rest) := by
  simp only [routeMatches, Bool.and_eq_true, decide_eq_true_eq]
  constructor
  · rintro ⟨hp, hl⟩
    obtain ⟨t, ht⟩ := List.isPrefixOf_iff_prefix.mp hp
    refine ⟨t, ?_, ?_⟩
    · intro e; subst e; rw [← ht] at hl; simp at hl
    · rw [← ht]; simp
  · rintro ⟨rest, hne, rfl⟩
    constructor
    · apply List.isPrefixOf_iff_prefix.mpr
      exact ⟨rest, by simp⟩
    · cases rest with
      | nil => exact absurd rfl hne
      | cons r rs => simp

/-- The route predicate the model uses (axum's `/{NAME}/{*rest}`) is gRPC's notion of "the path
names this service", for every service name without a slash and every path. -/
theorem routeMatches_eq_spec (name path : Bytes) (hn : ∀ c ∈ name, c ≠ 47) :
    routeMatches name path = Spec.Interceptor.pathNamesService name path := by
  apply Bool.eq_iff_iff.mpr
  rw [routeMatches_iff]
  constructor
  · rintro ⟨rest, hne, rfl⟩
    have h1 : Spec.Interceptor.splitSlash (47 :: (name ++ 47 :: rest)) = [] :: name :: Spec.Interceptor.splitSlash rest := by
      rw [splitSlash_slash, splitSlash_seg name rest hn]
    cases hs : Spec.Interceptor.splitSlash rest with
    | nil => exact absurd hs (splitSlash_ne_nil rest)
    | cons m more =>
      simp only [Spec.Interceptor.pathNamesService, h1, hs]
      have : ¬ (m = [] ∧ more = []) := by
        rintro ⟨rfl, rfl⟩
        exact hne (splitSlash_single rest hs)
      simp
      exact Decidable.not_and_iff_or_not.mp this
  · intro h
    simp only [Spec.Interceptor.pathNamesService] at h
    split at h
    · rename_i first svc m more hsp
      simp only [Bool.and_eq_true, List.isEmpty_iff, beq_iff_eq] at h
      obtain ⟨⟨hf, hsvc⟩, hm⟩ := h
      subst hf hsvc
      obtain ⟨r1, hp1, hs1⟩ := splitSlash_inv path [] svc (m :: more) hsp
      obtain ⟨r2, hp2, hs2⟩ := splitSlash_inv r1 svc m more hs1
      refine ⟨r2, ?_, ?_⟩
      · intro e; subst e
        simp [Spec.Interceptor.splitSlash] at hs2
        obtain ⟨rfl, rfl⟩ := hs2
        simp at hm
      · rw [hp1, hp2]; simp
    · cases h

end Interceptor
