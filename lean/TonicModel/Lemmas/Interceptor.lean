import TonicModel.Model.Interceptor
import TonicModel.Spec.Interceptor
/-
Helper lemmas for C12: percent-encoding round trip against the spec's strict decoder, validity
of the bytes `Status::add_header` writes (so its `unwrap` cannot fire), reflexivity of the
per-key equalities, and the per-key content of the header map a rejection produces.
-/
namespace Interceptor
open HMapLite HttpLite

/-! ### percent-encoding -/

theorem hexVal_hexUpper : ∀ n : Fin 16, Spec.Interceptor.hexVal (hexUpper n.val) = some n.val := by decide

theorem hexUpper_valid : ∀ n : Fin 16, validValueByte (hexUpper n.val) = true := by decide

theorem byte_split (b : UInt8) : Spec.Interceptor.byteOfHex (b.toNat / 16) (b.toNat % 16) = b := by
  have : b.toNat / 16 * 16 + b.toNat % 16 = b.toNat := by omega
  rw [Spec.Interceptor.byteOfHex, this]; exact UInt8.ofNat_toNat

theorem percentDecode_enc (a b : UInt8) (rest r : Bytes) (x y : Nat)
    (ha : Spec.Interceptor.hexVal a = some x) (hb : Spec.Interceptor.hexVal b = some y)
    (hr : Spec.Interceptor.percentDecode rest = some r) :
    Spec.Interceptor.percentDecode (37 :: a :: b :: rest) = some (Spec.Interceptor.byteOfHex x y :: r) := by
  rw [Spec.Interceptor.percentDecode.eq_def]; simp [ha, hb, hr]

theorem percentDecode_plain (c : UInt8) (rest r : Bytes) (h : c ≠ 37)
    (hu : Spec.Interceptor.unencodedOk c = true)
    (hr : Spec.Interceptor.percentDecode rest = some r) :
    Spec.Interceptor.percentDecode (c :: rest) = some (c :: r) := by
  rw [Spec.Interceptor.percentDecode.eq_def]; simp [h, hu, hr]

theorem not_inEncodeSet_unencoded (b : UInt8) (h : inEncodeSet b = false) :
    Spec.Interceptor.unencodedOk b = true ∧ b ≠ 37 := by
  have hb : b = UInt8.ofNat b.toNat := UInt8.ofNat_toNat.symm
  constructor
  · simp only [inEncodeSet, Bool.or_eq_false_iff, decide_eq_false_iff_not, beq_eq_false_iff_ne] at h
    simp only [Spec.Interceptor.unencodedOk, Bool.or_eq_true, Bool.and_eq_true, decide_eq_true_eq]
    omega
  · intro e
    rw [e] at h
    revert h; decide

theorem not_inEncodeSet_valid (b : UInt8) (h : inEncodeSet b = false) : validValueByte b = true := by
  simp only [inEncodeSet, Bool.or_eq_false_iff, decide_eq_false_iff_not, beq_eq_false_iff_ne] at h
  simp only [validValueByte, Bool.or_eq_true, Bool.and_eq_true, decide_eq_true_eq, bne_iff_ne, beq_iff_eq]
  omega

/-- The spec's strict `Percent-Encoded` decoder inverts tonic's encoder on every byte string. -/
theorem percentDecode_percentEncode (m : Bytes) :
    Spec.Interceptor.percentDecode (percentEncode m) = some m := by
  induction m with
  | nil => simp [percentEncode, Spec.Interceptor.percentDecode]
  | cons b bs ih =>
    have hlt := b.toNat_lt
    cases h : inEncodeSet b
    · have ⟨h1, h2⟩ := not_inEncodeSet_unencoded b h
      simp [percentEncode, h, percentDecode_plain b _ _ h2 h1 ih]
    · have e1 := hexVal_hexUpper ⟨b.toNat / 16, by omega⟩
      have e2 := hexVal_hexUpper ⟨b.toNat % 16, by omega⟩
      simp only at e1 e2
      simp [percentEncode, h, percentDecode_enc _ _ _ _ _ _ e1 e2 ih, byte_split]

/-- Everything the encoder writes is a legal `HeaderValue` byte. -/
theorem percentEncode_valid (m : Bytes) : (percentEncode m).all validValueByte = true := by
  induction m with
  | nil => rfl
  | cons b bs ih =>
    have hlt := b.toNat_lt
    cases h : inEncodeSet b
    · simp [percentEncode, h, not_inEncodeSet_valid b h, ih]
    · have e1 := hexUpper_valid ⟨b.toNat / 16, by omega⟩
      have e2 := hexUpper_valid ⟨b.toNat % 16, by omega⟩
      simp only at e1 e2
      have e3 : validValueByte 37 = true := by decide
      simp [percentEncode, h, e1, e2, e3, ih]

/-! ### base64 output is header-safe -/

theorem b64char_valid (n : Nat) : validValueByte (B64.b64char n) = true := by
  unfold B64.b64char validValueByte
  split
  · simp [UInt8.toNat_ofNat']; omega
  · split
    · simp [UInt8.toNat_ofNat']; omega
    · split
      · simp [UInt8.toNat_ofNat']; omega
      · split <;> decide

theorem b64encode_valid (d : Bytes) : (B64.encode false d).all validValueByte = true := by
  fun_induction B64.encode false d with
  | case1 a b c rest ih => simp [b64char_valid, ih]
  | case2 a b => simp [b64char_valid]
  | case3 a => simp [b64char_valid]
  | case4 => rfl

/-! ### reflexivity of the oracle's equalities -/

theorem hdrsEqOn_refl (ks : List Bytes) (a : Hdrs) : Spec.Interceptor.hdrsEqOn ks a a = true := by
  simp [Spec.Interceptor.hdrsEqOn]

theorem hdrsEq_refl (a : Hdrs) : Spec.Interceptor.hdrsEq a a = true := hdrsEqOn_refl _ a

theorem extEq_refl (a : Ext) : Spec.Interceptor.extEq a a = true := by
  simp [Spec.Interceptor.extEq]

/-- `hdrsEq` means: every name has the same values in the same order. -/
theorem hdrsEq_iff (a b : Hdrs) :
    Spec.Interceptor.hdrsEq a b = true ↔ ∀ k, getAll k a = getAll k b := by
  constructor
  · intro h k
    simp only [Spec.Interceptor.hdrsEq, Spec.Interceptor.hdrsEqOn, List.all_eq_true, beq_iff_eq] at h
    by_cases hk : k ∈ keys a ++ keys b
    · exact h k hk
    · have ha : getAll k a = [] := by
        apply (contains_eq_false_iff k a).mp
        simp only [contains, List.any_eq_false, beq_iff_eq]
        intro e he hek
        exact hk (List.mem_append_left _ (by simp only [keys, List.mem_map]; exact ⟨e, he, hek⟩))
      have hb : getAll k b = [] := by
        apply (contains_eq_false_iff k b).mp
        simp only [contains, List.any_eq_false, beq_iff_eq]
        intro e he hek
        exact hk (List.mem_append_right _ (by simp only [keys, List.mem_map]; exact ⟨e, he, hek⟩))
      rw [ha, hb]
  · intro h
    simp only [Spec.Interceptor.hdrsEq, Spec.Interceptor.hdrsEqOn, List.all_eq_true, beq_iff_eq]
    intro k _
    exact h k

end Interceptor
