import TonicModel.Model.WebClientHints
import TonicModel.Lemmas.WebClientHints
/-
The end-of-stream hint of the repaired grpc-web client body over an ARBITRARY inner body.

`Hints.outerHint bits` is the repaired `is_end_stream` / `size_hint` over the harness's scripted
inner body, whose hint behaviour is one of four (`bits % 4`).  `outerHintOf inner` is the same
expression over any inner hint function `inner : events still to come ↦ Hint`; the soundness of the
end-of-stream hint is proved for every `inner` that honours `http_body`'s contract for
`is_end_stream` (`true` only when `poll_frame` will return `None`: nothing is left), and fails for
an inner body that breaks it.
-/
namespace WebClientHintsLemmas
open WebClient WebClient.Hints WebClient.Fixed WebClientLemmas
open WebServer (BodyEv Out)

/-- `GrpcWebCall::is_end_stream` / `size_hint` after the fix (client, Decode), over an inner body
whose own hints with `evs` still to come are `inner evs`. -/
def outerHintOf (inner : List BodyEv → Hint) : HintFn := fun st innerDone evs =>
  { eos := st.decoded.isEmpty && st.trailers.isNone && (innerDone || (inner evs).eos),
    lower := 0,
    upper := none }

theorem outerHint_eq_of (bits : Nat) : outerHint bits = outerHintOf (innerHint bits) := rfl

/-- the inner body keeps `http_body`'s contract for `is_end_stream` -/
def InnerEndHonest (inner : List BodyEv → Hint) : Prop := ∀ evs, (inner evs).eos = true → evs = []

theorem innerHint_honest (bits : Nat) : InnerEndHonest (innerHint bits) := by
  intro evs h
  simp only [innerHint, Bool.and_eq_true, List.isEmpty_iff] at h
  exact h.2

/-- what the proofs below need of a hint function -/
def EndSound (hf : HintFn) : Prop :=
  ∀ st done evs, (hf st done evs).eos = true →
    st.decoded = [] ∧ st.trailers = none ∧ (done = true ∨ evs = [])

theorem outerHintOf_endSound {inner : List BodyEv → Hint} (hi : InnerEndHonest inner) :
    EndSound (outerHintOf inner) := by
  intro st done evs h
  simp only [outerHintOf, Bool.and_eq_true, Bool.or_eq_true, List.isEmpty_iff,
    Option.isNone_iff_eq_none] at h
  refine ⟨h.1.1, h.1.2, ?_⟩
  rcases h.2 with h | h
  · exact Or.inl h
  · exact Or.inr (hi evs h)

theorem quiet_of {hf : HintFn} (hs : EndSound hf) (st : St) (evs : List BodyEv) :
    Quiet (hf st true evs) st := by
  by_cases he : (hf st true evs).eos = true
  · exact Or.inr ⟨(hs _ _ _ he).1, (hs _ _ _ he).2.1⟩
  · exact Or.inl (by simpa using he)

theorem drainH_end_of {hf : HintFn} (hs : EndSound hf) : ∀ (f : Nat) (st : St) (h : Hint),
    Quiet h st → mu st < f → endHintOk (drainH hf f st h) = true := by
  intro f
  induction f with
  | zero => intro st h _ hf; omega
  | succ f ih =>
    intro st h hq hf
    unfold drainH
    rcases hq with hq | ⟨hd, ht⟩
    · cases hsx : afterPoll true st with
      | stop os => exact endHintOk_map h hq os
      | emit o st' =>
        have := afterPoll_mu.1 o st' hsx
        simp only [endHintOk, hq, Bool.not_false, Bool.true_or, Bool.true_and]
        exact ih st' _ (quiet_of hs st' []) (by omega)
      | again st' =>
        have := afterPoll_mu.2 st' hsx
        exact ih st' h (Or.inl hq) (by omega)
    · have hst : st = { decoded := [], trailers := none } := by
        cases st; simp_all
      subst hst
      rw [afterPoll_empty]
      simp [endHintOk]

theorem quietR_of {hf : HintFn} (hs : EndSound hf) (st : St) (evs : List BodyEv) :
    QuietR (hf st false evs) st evs := by
  by_cases he : (hf st false evs).eos = true
  · obtain ⟨h1, h2, h3⟩ := hs _ _ _ he
    rcases h3 with h3 | h3
    · cases h3
    · exact Or.inr ⟨h3, h1, h2⟩
  · exact Or.inl (by simpa using he)

theorem runH_end_of {hf : HintFn} (hs : EndSound hf) : ∀ (evs : List BodyEv) (st : St) (h : Hint),
    QuietR h st evs → endHintOk (runH hf st evs h) = true := by
  intro evs
  induction evs with
  | nil =>
    intro st h hq
    simp only [runH]
    apply drainH_end_of hs
    · rcases hq with hq | ⟨_, hd, ht⟩
      · exact Or.inl hq
      · exact Or.inr ⟨hd, ht⟩
    · have := mu_le st; omega
  | cons e r ih =>
    intro st h hq
    have hf : h.eos = false := by
      rcases hq with hq | ⟨hn, _⟩
      · exact hq
      · cases hn
    cases e with
    | pending => simp only [runH]; exact ih st _ (quietR_of hs st r)
    | err => simp [runH, endHintOk, hf]
    | trailers t => simp only [runH]; exact ih _ h (Or.inl hf)
    | data b =>
      simp only [runH]
      cases afterPoll false { st with decoded := st.decoded ++ b } with
      | stop os => exact endHintOk_map h hf os
      | emit o st' =>
        simp only [endHintOk, hf, Bool.not_false, Bool.true_or, Bool.true_and]
        exact ih st' _ (quietR_of hs st' r)
      | again st' => exact ih st' h (Or.inl hf)

theorem observeH_end_of {hf : HintFn} (hs : EndSound hf) (evs : List BodyEv) :
    endHintOk (observeH hf evs) = true :=
  runH_end_of hs evs {} _ (quietR_of hs {} evs)

end WebClientHintsLemmas
