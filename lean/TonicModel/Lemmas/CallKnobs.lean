import TonicModel.Lemmas.FramingEnc
import TonicModel.Model.Call
/-
C02, configuration knobs that must be invisible: `max_encoding_message_size` on either end.
A limit that no message of the source exceeds (the boundary `len = limit` included) leaves every
poll of the encoding body as it is without a limit.  (The receiving side's limit is C06's subject:
`C06_decoder_limit_exact`.)
-/
namespace Framing
variable {α : Type}

/-- every message still to come from the source fits the limit `l` -/
def Fits (cd : Codec α) (cfg : EncCfg) (l : Nat) (evs : List (SrcEv α)) : Prop :=
  ∀ m, SrcEv.item m ∈ evs → (payload cd cfg m).length ≤ l

theorem encodeErr_limit (cd : Codec α) (cfg : EncCfg) (l : Nat) (m : α)
    (h : (payload cd cfg m).length ≤ l) :
    encodeErr cd { cfg with maxSize := some l } m = encodeErr cd { cfg with maxSize := none } m := by
  have hp : payload cd { cfg with maxSize := some l } m = payload cd cfg m := rfl
  have hp' : payload cd { cfg with maxSize := none } m = payload cd cfg m := rfl
  unfold encodeErr
  simp only [hp, hp']
  have : ¬ (payload cd cfg m).length > l := by omega
  simp [this]

theorem encodeItem_limit (cd : Codec α) (cfg : EncCfg) (l : Nat) (buf : Bytes) (m : α)
    (h : (payload cd cfg m).length ≤ l) :
    encodeItem cd { cfg with maxSize := some l } buf m = encodeItem cd { cfg with maxSize := none } buf m := by
  unfold encodeItem
  rw [encodeErr_limit cd cfg l m h]
  rfl

/-- what `Enc.loop` leaves of the source is part of what it was given -/
theorem loop_rest_sub (cd : Codec α) (cfg : EncCfg) (evs : List (SrcEv α)) : ∀ (buf : Bytes) (ev : SrcEv α),
    ev ∈ (Enc.loop cd cfg buf evs).2.1 → ev ∈ evs := by
  induction evs with
  | nil => intro buf ev; unfold Enc.loop; split <;> simp
  | cons e rest ih =>
    intro buf ev
    cases e with
    | pending => unfold Enc.loop; split <;> (intro h; exact List.mem_cons_of_mem _ h)
    | err st => unfold Enc.loop; split <;> (intro h; exact List.mem_cons_of_mem _ h)
    | item m =>
      unfold Enc.loop
      split
      · intro h; exact List.mem_cons_of_mem _ h
      · split
        · split <;> (intro h; exact List.mem_cons_of_mem _ h)
        · split
          · intro h; exact List.mem_cons_of_mem _ h
          · intro h; exact List.mem_cons_of_mem _ (ih _ ev h)

theorem loop_limit (cd : Codec α) (cfg : EncCfg) (l : Nat) (evs : List (SrcEv α)) : ∀ (buf : Bytes),
    Fits cd cfg l evs →
    Enc.loop cd { cfg with maxSize := some l } buf evs = Enc.loop cd { cfg with maxSize := none } buf evs := by
  induction evs with
  | nil => intro buf _; simp [Enc.loop]
  | cons ev rest ih =>
    intro buf hf
    cases ev with
    | pending => simp [Enc.loop]
    | err st => simp [Enc.loop]
    | item m =>
      unfold Enc.loop
      simp only [compressPanics_false, Bool.false_eq_true, ↓reduceIte]
      rw [encodeItem_limit cd cfg l buf m (hf m (List.mem_cons_self ..))]
      cases encodeItem cd { cfg with maxSize := none } buf m with
      | error st => rfl
      | ok buf' =>
        dsimp only
        rw [ih buf' (fun m' hm' => hf m' (List.mem_cons_of_mem _ hm'))]

theorem pollFrame_limit (cd : Codec α) (cfg : EncCfg) (l : Nat) (b : BodySt) (evs : List (SrcEv α))
    (hf : Fits cd cfg l evs) :
    Enc.pollFrame cd { cfg with maxSize := some l } b evs = Enc.pollFrame cd { cfg with maxSize := none } b evs := by
  simp only [Enc.pollFrame, Enc.pollNext, loop_limit cd cfg l evs _ hf]

theorem pollNext_rest_sub (cd : Codec α) (cfg : EncCfg) (s : EncSt) (evs : List (SrcEv α)) (ev : SrcEv α) :
    ev ∈ (Enc.pollNext cd cfg s evs).2.1 → ev ∈ evs := by
  unfold Enc.pollNext
  split
  · exact id
  · exact loop_rest_sub cd cfg evs s.buf ev

theorem pollFrame_rest_sub (cd : Codec α) (cfg : EncCfg) (b : BodySt) (evs : List (SrcEv α)) (ev : SrcEv α) :
    ev ∈ (Enc.pollFrame cd cfg b evs).2.1 → ev ∈ evs := by
  have h := pollNext_rest_sub cd cfg b.inner evs ev
  unfold Enc.pollFrame
  generalize Enc.pollNext cd cfg b.inner evs = r at h ⊢
  obtain ⟨s', evs', o⟩ := r
  by_cases hb : b.isEndStream = true
  · simp [hb]
  · cases o <;> simp only [hb, Bool.false_eq_true, ↓reduceIte] <;> (try split) <;> exact h

/-- **An encoding limit that every message fits is invisible**: every poll of the body gives what
it gives without a limit. -/
theorem run_limit (cd : Codec α) (cfg : EncCfg) (l : Nat) (n : Nat) : ∀ (b : BodySt) (evs : List (SrcEv α)),
    Fits cd cfg l evs →
    Enc.run cd { cfg with maxSize := some l } n b evs = Enc.run cd { cfg with maxSize := none } n b evs := by
  induction n with
  | zero => intros; rfl
  | succ n ih =>
    intro b evs hf
    simp only [Enc.run, pollFrame_limit cd cfg l b evs hf]
    have hsub := pollFrame_rest_sub cd { cfg with maxSize := none } b evs
    generalize Enc.pollFrame cd { cfg with maxSize := none } b evs = r at hsub
    obtain ⟨b', evs', o⟩ := r
    simp only [List.cons.injEq, true_and]
    exact ih b' evs' (fun m hm => hf m (hsub _ hm))

end Framing
