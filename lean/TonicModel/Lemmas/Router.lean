import TonicModel.Model.Router
/-
Helper lemmas for C10: the string lemma behind "first path segment decides the route", and
`find?` under an at-most-one-match predicate.
-/
namespace Router

/-- If `a ++ [c]` is a prefix of `b ++ c :: r` and `c` occurs in neither `a` nor `b`, then
`a = b`: a separator-terminated segment is determined by the string it starts. -/
theorem prefix_sep_unique {α} (c : α) :
    ∀ (a b r : List α), c ∉ a → c ∉ b → a ++ [c] <+: b ++ c :: r → a = b
  | [], [], _, _, _, _ => rfl
  | [], y :: b, r, _, hb, h => by
    simp only [List.nil_append, List.cons_append, List.cons_prefix_cons] at h
    exact absurd (h.1 ▸ List.mem_cons_self) hb
  | x :: a, [], r, ha, _, h => by
    simp only [List.nil_append, List.cons_append, List.cons_prefix_cons] at h
    exact absurd (h.1 ▸ List.mem_cons_self) ha
  | x :: a, y :: b, r, ha, hb, h => by
    simp only [List.cons_append, List.cons_prefix_cons] at h
    have ha' : c ∉ a := fun hc => ha (List.mem_cons_of_mem _ hc)
    have hb' : c ∉ b := fun hc => hb (List.mem_cons_of_mem _ hc)
    rw [h.1, prefix_sep_unique c a b r ha' hb' h.2]

/-- Two separator-terminated segments that start the same string are equal. -/
theorem prefix_sep_unique₂ {α} (c : α) (a b p : List α) (ha : c ∉ a) (hb : c ∉ b)
    (h1 : a ++ [c] <+: p) (h2 : b ++ [c] <+: p) : a = b := by
  obtain ⟨r, rfl⟩ := h2
  have : a ++ [c] <+: b ++ c :: r := by simpa using h1
  exact prefix_sep_unique c a b r ha hb this

theorem noSlash_of_valid {n : Bytes} (h : validName n = true) : slash ∉ n := by
  simp only [validName, Bool.and_eq_true, Bool.not_eq_eq_eq_not, Bool.not_true,
    List.contains_eq_mem, decide_eq_false_iff_not] at h
  exact h.1.1.2

theorem routeMatches_iff (name path : Bytes) :
    routeMatches name path = true ↔
      routePrefix name <+: path ∧ (routePrefix name).length < path.length := by
  simp [routeMatches]

/-- The route of a service matches the path of any of its (non-empty) method names. -/
theorem routeMatches_self (s m : Bytes) (hm : m ≠ []) :
    routeMatches s (routePrefix s ++ m) = true := by
  rw [routeMatches_iff]
  refine ⟨List.prefix_append _ _, ?_⟩
  have : 0 < m.length := List.length_pos_iff.mpr hm
  simp only [List.length_append]; omega

/-- With `/`-free names, at most one route matches a path: the first segment decides. -/
theorem routeMatches_unique (a b path : Bytes) (ha : slash ∉ a) (hb : slash ∉ b)
    (h1 : routeMatches a path = true) (h2 : routeMatches b path = true) : a = b := by
  rw [routeMatches_iff] at h1 h2
  cases path with
  | nil => simp [routePrefix] at h1
  | cons x p =>
    have p1 : a ++ [slash] <+: p := by
      have := h1.1; simp only [routePrefix, List.cons_prefix_cons] at this; exact this.2
    have p2 : b ++ [slash] <+: p := by
      have := h2.1; simp only [routePrefix, List.cons_prefix_cons] at this; exact this.2
    exact prefix_sep_unique₂ slash a b p ha hb p1 p2

theorem hasDup_false_iff (l : List Bytes) : hasDup l = false ↔ l.Nodup := by
  induction l with
  | nil => simp [hasDup]
  | cons n ns ih =>
    simp only [hasDup, Bool.or_eq_false_iff, List.contains_eq_mem, decide_eq_false_iff_not, ih,
      List.nodup_cons]

/-- In a list whose image under `f` has no duplicates, `f` is injective on members. -/
theorem eq_of_nodup_map {α β} (f : α → β) :
    ∀ (l : List α), (l.map f).Nodup → ∀ x ∈ l, ∀ y ∈ l, f x = f y → x = y
  | [], _, _, hx, _, _, _ => by cases hx
  | a :: l, hnd, x, hx, y, hy, hf => by
    simp only [List.map_cons, List.nodup_cons, List.mem_map, not_exists, not_and] at hnd
    rcases List.mem_cons.mp hx with rfl | hx' <;> rcases List.mem_cons.mp hy with rfl | hy'
    · rfl
    · exact absurd hf.symm (hnd.1 y hy')
    · exact absurd hf (hnd.1 x hx')
    · exact eq_of_nodup_map f l hnd.2 x hx' y hy' hf

/-- `find?` with a predicate that at most one member satisfies returns exactly that member. -/
theorem find?_eq_some_of_unique {α} (p : α → Bool) (l : List α) (x : α)
    (huniq : ∀ y ∈ l, p y = true → y = x) (hx : x ∈ l) (hp : p x = true) :
    l.find? p = some x := by
  cases h : l.find? p with
  | none =>
    rw [List.find?_eq_none] at h
    exact absurd hp (by simpa using h x hx)
  | some y =>
    have hy := List.mem_of_find?_eq_some h
    have hpy := List.find?_some h
    rw [huniq y hy hpy]

/-- … hence `find?` does not depend on the order of the list. -/
theorem find?_perm_of_unique {α} (p : α → Bool) (l l' : List α) (hperm : l.Perm l')
    (huniq : ∀ x ∈ l, ∀ y ∈ l, p x = true → p y = true → x = y) :
    l.find? p = l'.find? p := by
  cases h : l.find? p with
  | none =>
    rw [List.find?_eq_none] at h
    symm; rw [List.find?_eq_none]
    intro x hx; exact h x (hperm.mem_iff.mpr hx)
  | some x =>
    have hx := List.mem_of_find?_eq_some h
    have hpx := List.find?_some h
    symm
    apply find?_eq_some_of_unique p l' x
    · intro y hy hpy; exact huniq y (hperm.mem_iff.mpr hy) x hx hpy hpx
    · exact hperm.mem_iff.mp hx
    · exact hpx

/-- The generated `match`: which arm fires is determined by the path alone. -/
theorem call_eq_handler_iff (s : Svc) (path m : Bytes) (sn : Bytes) :
    s.call path = .handler sn m ↔ sn = s.name ∧ m ∈ s.methods ∧ path = routePrefix s.name ++ m := by
  unfold Svc.call
  cases h : s.methods.find? (fun m => path == routePrefix s.name ++ m) with
  | none =>
    rw [List.find?_eq_none] at h
    simp only [reduceCtorEq, false_iff, not_and]
    intro _ hm hp
    exact absurd (by simpa using hp) (h m hm)
  | some m' =>
    have hm' := List.mem_of_find?_eq_some h
    have hp' : path = routePrefix s.name ++ m' := by simpa using List.find?_some h
    simp only [Outcome.handler.injEq]
    constructor
    · rintro ⟨rfl, rfl⟩; exact ⟨rfl, hm', hp'⟩
    · rintro ⟨rfl, _, hp⟩
      refine ⟨rfl, ?_⟩
      rw [hp'] at hp
      exact List.append_cancel_left hp

theorem call_cases (s : Svc) (path : Bytes) :
    (∃ m, s.call path = .handler s.name m) ∨ s.call path = .svcDefault s.name := by
  unfold Svc.call
  cases s.methods.find? (fun m => path == routePrefix s.name ++ m) with
  | none => exact Or.inr rfl
  | some m => exact Or.inl ⟨m, rfl⟩

/-- Reordering the methods of a service does not change what `call` does. -/
theorem call_perm (n : Bytes) (ms ms' : List Bytes) (h : ms.Perm ms') (path : Bytes) :
    (Svc.mk n ms).call path = (Svc.mk n ms').call path := by
  unfold Svc.call
  have : ms.find? (fun m => path == routePrefix n ++ m) = ms'.find? (fun m => path == routePrefix n ++ m) := by
    apply find?_perm_of_unique _ _ _ h
    intro x _ y _ hx hy
    have hx : path = routePrefix n ++ x := by simpa using hx
    have hy : path = routePrefix n ++ y := by simpa using hy
    exact List.append_cancel_left (hx.symm.trans hy)
  simp only [this]

/-! ### Builders -/

/-- Whatever is called, the services inside the router are those mounted so far. -/
theorem step_svcs (st : St) (op : Op) : (st.step op).table.svcs = st.table.svcs ++ op.services := by
  cases st with
  | routes t =>
    cases op with
    | addOptional s => cases s <;> simp [St.step, St.table, Op.services, Table.addService]
    | _ => simp [St.step, St.table, Op.services, Table.addService]
  | builder t =>
    cases t <;> cases op with
    | addOptional s => cases s <;> simp [St.step, St.table, Op.services, Table.addService, Table.default]
    | _ => simp [St.step, St.table, Op.services, Table.addService, Table.default]
  | server t =>
    cases op with
    | addOptional s => cases s <;> simp [St.step, St.table, Op.services, Table.addService]
    | _ => simp [St.step, St.table, Op.services, Table.addService]

/-- No call other than the user's own `axum_router_mut().route(…)` adds a user route, and no
call at all changes the fallback. -/
theorem step_rest (st : St) (op : Op) :
    (st.step op).table.fb = st.table.fb ∧
    (op.tonicOnly = true → (st.step op).table.user = st.table.user) := by
  cases st with
  | routes t =>
    cases op with
    | addOptional s => cases s <;> simp [St.step, St.table, Table.addService]
    | _ => simp [St.step, St.table, Table.addService, Op.tonicOnly]
  | builder t =>
    cases t <;> cases op with
    | addOptional s => cases s <;> simp [St.step, St.table, Table.addService, Table.default]
    | _ => simp [St.step, St.table, Table.addService, Table.default]
  | server t =>
    cases op with
    | addOptional s => cases s <;> simp [St.step, St.table, Table.addService]
    | _ => simp [St.step, St.table, Table.addService]

theorem foldl_svcs (ops : List Op) : ∀ (st : St),
    (ops.foldl St.step st).table.svcs = st.table.svcs ++ ops.flatMap Op.services := by
  induction ops with
  | nil => intro st; simp
  | cons op ops ih =>
    intro st
    rw [List.foldl_cons, ih, step_svcs, List.flatMap_cons, List.append_assoc]

theorem foldl_fb (ops : List Op) : ∀ (st : St), (ops.foldl St.step st).table.fb = st.table.fb := by
  induction ops with
  | nil => intro st; rfl
  | cons op ops ih => intro st; rw [List.foldl_cons, ih, (step_rest st op).1]

theorem foldl_user (ops : List Op) (h : ∀ op ∈ ops, op.tonicOnly = true) : ∀ (st : St),
    (ops.foldl St.step st).table.user = st.table.user := by
  induction ops with
  | nil => intro st; rfl
  | cons op ops ih =>
    intro st
    rw [List.foldl_cons, ih (fun o ho => h o (List.mem_cons_of_mem _ ho)),
      (step_rest st op).2 (h op List.mem_cons_self)]

theorem start_svcs (s : Start) : s.run.table.svcs = s.services := by
  cases s with
  | serverAddOptional o => cases o <;> rfl
  | _ => rfl

theorem start_rest (s : Start) (h : s.tonicOnly = true) :
    s.run.table.fb = .unimplemented ∧ s.run.table.user = [] := by
  cases s with
  | serverAddOptional o => cases o <;> exact ⟨rfl, rfl⟩
  | fromAxum u => cases h
  | builderFromAxum u => cases h
  | _ => exact ⟨rfl, rfl⟩

end Router
