import TonicModel.Spec.GrpcWeb
import TonicModel.Basic.Base64
import TonicModel.Basic.TrailerMap
/-
Helper lemmas shared by C16 and C17: the independent reader (`Spec.GrpcWeb`) against the
base64 engine model (`B64`) and against the frame / trailer-block serialisers.
-/
namespace GrpcWebLemmas
open Spec.GrpcWeb
open TMap (Pair)

/-! ### base64: the spec's alphabet table is the engine's -/

theorem symVal_tab : ∀ n : Fin 256,
    symVal (UInt8.ofNat n.val) = B64.b64val (UInt8.ofNat n.val) := by
  decide +kernel

theorem symVal_eq (c : UInt8) : symVal c = B64.b64val c := by
  have := symVal_tab ⟨c.toNat, c.toNat_lt⟩
  simpa using this

theorem b64val_pad : B64.b64val 61 = none := by decide

/-- one spec quantum = the engine's treatment of a final 4-symbol group. -/
theorem quantum_eq_decTail (a b c d : UInt8) :
    quantum a b c d = B64.decTail [a, b, c, d] := by
  simp only [quantum, B64.decTail, symVal_eq, PADC, B64.PAD]
  by_cases hd : d = 61
  · subst hd
    by_cases hc : c = 61
    · subst hc
      cases ha : B64.b64val a <;> cases hb : B64.b64val b <;>
        simp [B64.dec2, ha, hb]
    · cases ha : B64.b64val a <;> cases hb : B64.b64val b <;> cases hcv : B64.b64val c <;>
        simp [B64.dec3, ha, hb, hc, hcv]
  · by_cases hc : c = 61
    · subst hc
      cases ha : B64.b64val a <;> cases hb : B64.b64val b <;>
        simp [B64.dec4, ha, hb, hd, b64val_pad]
    · cases ha : B64.b64val a <;> cases hb : B64.b64val b <;> cases hcv : B64.b64val c <;>
        cases hdv : B64.b64val d <;>
        simp [B64.dec4, ha, hb, hc, hd, hcv, hdv]

/-- a group of four that the engine decodes as a full (unpadded) quantum. -/
theorem quantum_of_dec4 (a b c d : UInt8) (h : Bytes) (hd : B64.dec4 a b c d = some h) :
    quantum a b c d = some h := by
  rw [quantum_eq_decTail]
  have hc' : c ≠ 61 := by
    intro hc; subst hc
    cases ha : B64.b64val a <;> cases hb : B64.b64val b <;>
      simp [B64.dec4, ha, hb, b64val_pad] at hd
  have hd' : d ≠ 61 := by
    intro hd'; subst hd'
    cases ha : B64.b64val a <;> cases hb : B64.b64val b <;> cases hcv : B64.b64val c <;>
      simp [B64.dec4, ha, hb, hcv, b64val_pad] at hd
  simp [B64.decTail, B64.PAD, hd', hd]

theorem stream_cons4 (a b c d : UInt8) (rest : Bytes) :
    b64StreamDecode (a :: b :: c :: d :: rest) =
      (match quantum a b c d, b64StreamDecode rest with
       | some q, some r => some (q ++ r)
       | _, _ => none) := by
  rw [b64StreamDecode]
  cases quantum a b c d <;> cases b64StreamDecode rest <;> rfl

/-- Padded encoding of `x`, followed by anything, reads back as `x` followed by the rest. -/
theorem stream_encode_append (x rest : Bytes) :
    b64StreamDecode (B64.encode true x ++ rest) = (b64StreamDecode rest).map (x ++ ·) := by
  fun_induction B64.encode true x with
  | case1 a b c r ih =>
    have ha := a.toNat_lt; have hb := b.toNat_lt; have hc := c.toNat_lt
    simp only [List.cons_append]
    rw [stream_cons4, ih, quantum_of_dec4 _ _ _ _ _ (B64.dec4_enc a b c)]
    cases b64StreamDecode rest <;> simp
  | case2 a b =>
    have ha := a.toNat_lt; have hb := b.toNat_lt
    have h3 : B64.b64char (b.toNat % 16 * 4) ≠ 61 := B64.b64char_ne_pad' _ (by omega)
    simp only [if_true, List.cons_append, List.nil_append]
    rw [stream_cons4, quantum_eq_decTail]
    simp only [B64.decTail, B64.PAD, if_true, h3, if_false, B64.dec3_enc]
    cases b64StreamDecode rest <;> simp
  | case3 a =>
    have ha := a.toNat_lt
    simp only [if_true, List.cons_append, List.nil_append]
    rw [stream_cons4, quantum_eq_decTail]
    simp only [B64.decTail, B64.PAD, if_true, B64.dec2_enc]
    cases b64StreamDecode rest <;> simp
  | case4 =>
    simp only [List.nil_append]
    cases b64StreamDecode rest <;> simp

/-- **Base64 stream lemma**: pieces encoded (and padded) one by one, concatenated, read back as
the concatenation of the pieces. -/
theorem stream_pieces (chunks : List Bytes) (rest : Bytes) :
    b64StreamDecode ((chunks.map (B64.encode true)).flatten ++ rest) =
      (b64StreamDecode rest).map (chunks.flatten ++ ·) := by
  induction chunks with
  | nil =>
    simp only [List.map_nil, List.flatten_nil, List.nil_append]
    cases b64StreamDecode rest <;> simp
  | cons c cs ih =>
    simp only [List.map_cons, List.flatten_cons, List.append_assoc]
    rw [stream_encode_append, ih]
    cases b64StreamDecode rest <;> simp

theorem stream_pieces' (chunks : List Bytes) :
    b64StreamDecode ((chunks.map (B64.encode true)).flatten) = some chunks.flatten := by
  have := stream_pieces chunks []
  simpa [b64StreamDecode] using this

/-- The reader is compositional at 4-aligned positions. -/
theorem stream_append (s1 s2 : Bytes) (h : s1.length % 4 = 0) :
    b64StreamDecode (s1 ++ s2) =
      (match b64StreamDecode s1, b64StreamDecode s2 with
       | some a, some b => some (a ++ b)
       | _, _ => none) := by
  induction s1 using List.rec with
  | nil =>
    simp only [List.nil_append, b64StreamDecode]
    cases b64StreamDecode s2 <;> simp
  | cons a t _ =>
    -- peel four symbols at a time
    revert h
    suffices ∀ n (s1 : Bytes), s1.length = n → s1.length % 4 = 0 →
        b64StreamDecode (s1 ++ s2) =
          (match b64StreamDecode s1, b64StreamDecode s2 with
           | some a, some b => some (a ++ b)
           | _, _ => none) from fun h => this _ (a :: t) rfl h
    intro n
    induction n using Nat.strongRecOn with
    | _ n ih =>
      intro s1 hn hm
      match s1, hn, hm with
      | [], _, _ =>
        simp only [List.nil_append, b64StreamDecode]
        cases b64StreamDecode s2 <;> simp
      | [_], _, hm => simp at hm
      | [_, _], _, hm => simp at hm
      | [_, _, _], _, hm => simp at hm
      | a :: b :: c :: d :: r, hn, hm =>
        have hr : r.length % 4 = 0 := by simp only [List.length_cons] at hm; omega
        have hlt : r.length < n := by simp only [List.length_cons] at hn; omega
        simp only [List.cons_append]
        rw [stream_cons4, stream_cons4, ih _ hlt r rfl hr]
        cases quantum a b c d <;> cases b64StreamDecode r <;> cases b64StreamDecode s2 <;> simp

/-- What the engine decodes from a 4-aligned string, the independent reader decodes too. -/
theorem stream_of_decode : ∀ (n : Nat) (s d : Bytes), s.length = n → s.length % 4 = 0 →
    B64.decode s = some d → b64StreamDecode s = some d := by
  intro n
  induction n using Nat.strongRecOn with
  | _ n ih =>
    intro s d hn hm hdec
    match s, hn, hm, hdec with
    | [], _, _, hdec => simp [B64.decode, B64.decTail] at hdec; subst hdec; simp [b64StreamDecode]
    | [_], _, hm, _ => simp at hm
    | [_, _], _, hm, _ => simp at hm
    | [_, _, _], _, hm, _ => simp at hm
    | [a, b, c, e], _, _, hdec =>
      simp only [B64.decode] at hdec
      rw [stream_cons4, quantum_eq_decTail, hdec]
      simp [b64StreamDecode]
    | a :: b :: c :: e :: f :: r, hn, hm, hdec =>
      simp only [B64.decode, Option.bind_eq_bind] at hdec
      cases h4 : B64.dec4 a b c e with
      | none => simp [h4] at hdec
      | some hq =>
        cases ht : B64.decode (f :: r) with
        | none => simp [h4, ht] at hdec
        | some t =>
          simp [h4, ht] at hdec
          have hr : (f :: r).length % 4 = 0 := by simp only [List.length_cons] at hm ⊢; omega
          have hlt : (f :: r).length < n := by simp only [List.length_cons] at hn ⊢; omega
          rw [stream_cons4, quantum_of_dec4 _ _ _ _ _ h4, ih _ hlt (f :: r) t rfl hr ht]
          simp [hdec]

/-! ### aligned prefixes of a canonical encoding -/

theorem encode_length_mod (x : Bytes) : (B64.encode true x).length % 4 = 0 := by
  fun_induction B64.encode true x with
  | case1 a b c r ih => simp only [List.length_cons]; omega
  | case2 a b => simp
  | case3 a => simp
  | case4 => simp

theorem encode_eq_nil (x : Bytes) (h : B64.encode true x = []) : x = [] := by
  match x, h with
  | [], _ => rfl
  | [_], h => simp [B64.encode] at h
  | [_, _], h => simp [B64.encode] at h
  | _ :: _ :: _ :: _, h => simp [B64.encode] at h

/-- Cutting a canonical padded encoding at a multiple of four symbols cuts the plain text:
the prefix is the encoding of a prefix, the suffix the encoding of the rest. -/
theorem encode_split (x : Bytes) : ∀ (n : Nat), n % 4 = 0 → n ≤ (B64.encode true x).length →
    ∃ x1 x2, x = x1 ++ x2 ∧ (B64.encode true x).take n = B64.encode true x1 ∧
      (B64.encode true x).drop n = B64.encode true x2 := by
  fun_induction B64.encode true x with
  | case1 a b c r ih =>
    intro n hn hle
    by_cases h0 : n = 0
    · subst h0; exact ⟨[], a :: b :: c :: r, rfl, by simp [B64.encode], by simp [B64.encode]⟩
    · obtain ⟨m, rfl⟩ : ∃ m, n = m + 4 := ⟨n - 4, by omega⟩
      have hm : m % 4 = 0 := by omega
      have hle' : m ≤ (B64.encode true r).length := by simp only [List.length_cons] at hle; omega
      obtain ⟨x1, x2, hx, ht, hd⟩ := ih m hm hle'
      refine ⟨a :: b :: c :: x1, x2, by simp [hx], ?_, ?_⟩
      · simp [B64.encode, List.take, ht]
      · simp [List.drop, hd]
  | case2 a b =>
    intro n hn hle
    simp only [if_true, List.cons_append, List.nil_append, List.length_cons, List.length_nil] at hle
    have : n = 0 ∨ n = 4 := by omega
    rcases this with rfl | rfl
    · exact ⟨[], [a, b], rfl, by simp [B64.encode], by simp [B64.encode]⟩
    · exact ⟨[a, b], [], by simp, by simp [B64.encode], by simp [B64.encode]⟩
  | case3 a =>
    intro n hn hle
    simp only [if_true, List.cons_append, List.nil_append, List.length_cons, List.length_nil] at hle
    have : n = 0 ∨ n = 4 := by omega
    rcases this with rfl | rfl
    · exact ⟨[], [a], rfl, by simp [B64.encode], by simp [B64.encode]⟩
    · exact ⟨[a], [], by simp, by simp [B64.encode], by simp [B64.encode]⟩
  | case4 =>
    intro n hn hle
    simp at hle; subst hle
    exact ⟨[], [], rfl, by simp [B64.encode], by simp [B64.encode]⟩

/-! ### frames and trailer blocks -/

theorem lines_line (l : Bytes) (hl : ∀ b ∈ l, b ≠ 13) (cur rest : Bytes) :
    lines cur (l ++ 13 :: 10 :: rest) = (lines [] rest).map ((cur.reverse ++ l) :: ·) := by
  induction l generalizing cur with
  | nil => simp [lines]
  | cons x xs ih =>
    have hx : x ≠ 13 := hl x (by simp)
    have hxs : ∀ b ∈ xs, b ≠ 13 := fun b hb => hl b (by simp [hb])
    cases xs with
    | nil =>
      simp only [List.cons_append, List.nil_append]
      rw [lines]
      simp only [hx, false_and, if_false]
      rw [lines]
      simp
    | cons y ys =>
      simp only [List.cons_append] at ih ⊢
      rw [lines]
      simp only [hx, false_and, if_false]
      rw [ih hxs]
      simp

theorem splitColon_pair (n v : Bytes) (hn : ∀ b ∈ n, b ≠ 58) :
    splitColon (n ++ 58 :: v) = some (n, v) := by
  induction n with
  | nil => simp [splitColon]
  | cons x xs ih =>
    have hx : x ≠ 58 := hn x (by simp)
    have := ih (fun b hb => hn b (by simp [hb]))
    simp [splitColon, hx, this]

theorem parseBlock_lines (ps : List Pair)
    (h : ∀ p ∈ ps, nameOk p.1 ∧ valueOk p.2) :
    parseBlock (ps.flatMap lineOf) = some ps := by
  have key : ∀ ps : List Pair, (∀ p ∈ ps, nameOk p.1 ∧ valueOk p.2) →
      lines [] (ps.flatMap lineOf) = some (ps.map (fun p => p.1 ++ 58 :: p.2)) := by
    intro ps
    induction ps with
    | nil => intro _; simp [lines]
    | cons p ps ih =>
      intro h
      have hp := h p (by simp)
      have hl : ∀ b ∈ p.1 ++ 58 :: p.2, b ≠ 13 := by
        intro b hb
        simp only [List.mem_append, List.mem_cons] at hb
        rcases hb with hb | rfl | hb
        · exact (hp.1 b hb).2
        · decide
        · exact hp.2 b hb
      have e : List.flatMap lineOf (p :: ps) =
          (p.1 ++ 58 :: p.2) ++ 13 :: 10 :: ps.flatMap lineOf := by
        simp [lineOf, List.flatMap_cons]
      rw [e, lines_line _ hl, ih (fun q hq => h q (by simp [hq]))]
      simp
  have trav : ∀ ps : List Pair, (∀ p ∈ ps, nameOk p.1 ∧ valueOk p.2) →
      traverse splitColon (ps.map (fun p => p.1 ++ 58 :: p.2)) = some ps := by
    intro ps
    induction ps with
    | nil => intro _; simp [traverse]
    | cons p ps ih =>
      intro h
      have hp := h p (by simp)
      simp only [List.map_cons, traverse]
      rw [splitColon_pair _ _ (fun b hb => (hp.1 b hb).1), ih (fun q hq => h q (by simp [hq]))]
  simp only [parseBlock, key ps h, trav ps h]

theorem parseItemsAux_msg (n : Nat) (c : Bool) (p rest : Bytes) (hp : p.length < 4294967296) :
    parseItemsAux (n + 1) (frameBytes c p ++ rest) =
      (parseItemsAux n rest).map (Item.msg c p :: ·) := by
  simp only [frameBytes, u32be, List.cons_append, List.nil_append, parseItemsAux]
  rw [readU32_u32be _ hp]
  have h1 : ¬ (p ++ rest).length < p.length := by simp
  simp only [h1, if_false, List.take_left', List.drop_left']
  cases c <;> cases parseItemsAux n rest <;> simp

theorem parseItemsAux_frames (fs : List (Bool × Bytes)) (hfs : ∀ f ∈ fs, f.2.length < 4294967296)
    (m : Nat) (rest : Bytes) :
    parseItemsAux (fs.length + m) (framesBytes fs ++ rest) =
      (parseItemsAux m rest).map (fs.map (fun f => Item.msg f.1 f.2) ++ ·) := by
  induction fs with
  | nil =>
    simp only [framesBytes, List.nil_append, List.length_nil, Nat.zero_add, List.map_nil]
    cases parseItemsAux m rest <;> simp
  | cons f fs ih =>
    have e : (f :: fs).length + m = (fs.length + m) + 1 := by simp; omega
    simp only [framesBytes, List.append_assoc]
    rw [e, parseItemsAux_msg _ _ _ _ (hfs f (by simp)), ih (fun g hg => hfs g (by simp [hg]))]
    cases parseItemsAux m rest <;> simp

theorem framesBytes_length (fs : List (Bool × Bytes)) : 5 * fs.length ≤ (framesBytes fs).length := by
  induction fs with
  | nil => simp [framesBytes]
  | cons f fs ih => simp [framesBytes, frameBytes, u32be]; omega

/-- a trailers frame (flag 0x80) whose block reads as `ps`, at the end of the body. -/
theorem parseItemsAux_trailers (n : Nat) (ps : List Pair) (blk : Bytes)
    (h : parseBlock blk = some ps) (hlen : blk.length < 4294967296) :
    parseItemsAux (n + 2) (128 :: u32be blk.length ++ blk) = some [Item.trailers ps] := by
  simp only [u32be, List.cons_append, List.nil_append, parseItemsAux]
  rw [readU32_u32be _ hlen]
  simp [h, parseItemsAux]

end GrpcWebLemmas
