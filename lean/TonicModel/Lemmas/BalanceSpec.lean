import TonicModel.Spec.Balance
import TonicModel.Lemmas.BalanceDebt
/-
Load-balanced channel (C14): every run of the model (`Model/Balance`), under every sequence of
choices of the balancer, satisfies the oracle (`Spec/Balance`).  The two are related endpoint by
endpoint (`Rel`): same membership, same server state, and whenever the model's endpoint holds a
failure some call could still get (`H`) the oracle says it owes one; whenever a connection or an
attempt of it has lost its peer (`D`) the oracle says its server was stopped.
-/
namespace Balance
open ConnScript BalScript Reconnect
open Spec.Balance (O)

/-- the endpoint holds a failure that the call picking it now would get -/
def H (e : EP) : Prop :=
  e.r.error.isSome = true ∨
  (e.r.st = .connecting ∧ ¬(e.flight = true ∧ e.w.alive = some e.r.made)) ∨
  (∃ c, e.r.st = .connected c ∧ e.w.alive ≠ some c ∧ e.fresh = true)

/-- an attempt that was accepted, or a connection just established, whose peer has gone -/
def D (e : EP) : Prop :=
  (e.r.st = .connecting ∧ e.flight = true ∧ e.w.alive ≠ some e.r.made) ∨
  (∃ c, e.r.st = .connected c ∧ e.w.alive ≠ some c ∧ e.fresh = true)

structure Rel (o : O) (e : EP) : Prop where
  key : o.key = e.key
  member : o.member = e.member
  up : o.up = e.w.up
  gen : o.gen = e.w.gen
  aliveUp : e.w.alive.isSome = true → e.w.up = true
  owes : e.member = true → H e → o.owes = true
  killed : e.member = true → D e → o.killed = true

/-- related, at the moment of a call (`Spec.Balance.atCall` has marked the unreachable endpoints),
and the model-side invariants -/
structure RelC (o : O) (e : EP) : Prop where
  rel : Rel o e
  down : e.member = true → e.w.up = false → o.owes = true
  lz : Lz e
  gd : Gd e

theorem advance_relc (o : O) (e : EP) (h : RelC o e) : RelC o (advance e) := by
  obtain ⟨⟨hk, hm, hu, hg, hau, ho, hkl⟩, hd, hl, hgd⟩ := h
  refine ⟨?_, ?_, (advance_lz e hl).1, advance_gd e hgd⟩
  · refine ⟨by rw [advance_key]; exact hk, by rw [(advance_lz e hl).2]; exact hm, ?_, ?_, ?_, ?_, ?_⟩
    all_goals
      obtain ⟨key, member, ⟨st, error, hasBeen, isLazy, made⟩, ready, flight, fresh, ⟨up, gen, alive⟩⟩ := e
      cases member
      · simp_all [advance_eq, adv, H, D, Lz]
        all_goals (repeat' split) <;> simp_all
      · have hlz := hl rfl
        simp only at hlz
        obtain ⟨hlz1, hlz2⟩ := hlz
        subst hlz1
        cases error <;> cases st <;> simp at hlz2 <;> cases flight <;> cases up <;>
          simp_all [advance_eq, adv, H, D] <;> (try split) <;> simp_all
  · intro hm' hup
    have hmem : e.member = true := advance_member_le e hm'
    apply hd hmem
    revert hup
    rw [advance_eq]; unfold adv
    (repeat' split) <;> simp_all

/-- what the oracle's entry for the serving endpoint must say about a result -/
def resOK (o : O) : BRes → Prop
  | .resp k g => o.key = k ∧ o.member = true ∧ o.up = true ∧ o.gen = g
  | .err _ _ => o.member = true ∧ o.owes = true
  | .lost _ => o.member = true ∧ o.owes = true ∧ o.killed = true
  | .hang => False
  | .panic => False

/-- holds nothing any more -/
def G (e : EP) : Prop := ¬ H e ∧ ¬ D e

theorem serveEP_HD (e : EP) : (H (serveEP e).1 → H e) ∧ (D (serveEP e).1 → D e) := by
  obtain ⟨key, member, ⟨st, error, hasBeen, isLazy, made⟩, ready, flight, fresh, ⟨up, gen, alive⟩⟩ := e
  cases error <;> cases st <;> simp [serveEP, Reconnect.call, H, D]

theorem serveEP_relc (o : O) (e : EP) (h : RelC o e) : RelC o (serveEP e).1 := by
  obtain ⟨⟨hk, hm, hu, hg, hau, ho, hkl⟩, hd, hl, hgd⟩ := h
  refine ⟨⟨by rw [serveEP_key]; exact hk, by rw [serveEP_member]; exact hm, by rw [serveEP_w]; exact hu,
    by rw [serveEP_w]; exact hg, by rw [serveEP_w]; exact hau, ?_, ?_⟩, ?_, serveEP_lz e hl, ?_⟩
  · intro hm' hh; rw [serveEP_member] at hm'; exact ho hm' ((serveEP_HD e).1 hh)
  · intro hm' hh; rw [serveEP_member] at hm'; exact hkl hm' ((serveEP_HD e).2 hh)
  · intro hm' hup; rw [serveEP_member] at hm'; rw [serveEP_w] at hup; exact hd hm' hup
  · unfold Gd; rw [serveEP_r]; exact call_good _ hgd

theorem tryOne_relc (o : O) (e : EP) (h : RelC o e) : RelC o (tryOne e).1 := by
  unfold tryOne
  split
  · exact serveEP_relc o _ (advance_relc o e h)
  · exact advance_relc o e h

/-- the endpoint that served the call: the oracle's entry explains the result, and the endpoint
holds nothing afterwards -/
theorem tryOne_served_ok (o : O) (e : EP) (r : BRes) (h : RelC o e) (hr : (tryOne e).2 = some r) :
    resOK o r ∧ G (tryOne e).1 := by
  obtain ⟨⟨hk, hm, hu, hg, hau, ho, hkl⟩, hd, hl, hgd⟩ := h
  have hmem : e.member = true := tryOne_member_le e (tryOne_served e r hgd hr).2
  obtain ⟨key, member, ⟨st, error, hasBeen, isLazy, made⟩, ready, flight, fresh, ⟨up, gen, alive⟩⟩ := e
  obtain ⟨okey, omember, oup, ogen, oowes, okilled⟩ := o
  simp only at hk hm hu hg hau ho hkl hd hmem
  subst hk hm hu hg
  revert hr
  cases omember
  · cases hmem
  · have hlz := hl rfl
    simp only at hlz
    obtain ⟨hlz1, hlz2⟩ := hlz
    subst hlz1
    cases error with
    | some x =>
      have hst : st = .idle := by simpa [Gd, Good] using hgd
      subst hst
      have := ho rfl (Or.inl rfl)
      simp [tryOne, advance_eq, adv, serveEP, Reconnect.call]
      rintro rfl
      simp [resOK, G, H, D, this]
    | none =>
      cases st with
      | idle => simp [tryOne, advance_eq, adv]
      | connecting =>
        cases flight
        · have := ho rfl (Or.inr (Or.inl ⟨rfl, by simp⟩))
          simp [tryOne, advance_eq, adv, serveEP, Reconnect.call]
          rintro rfl
          simp [resOK, G, H, D, this]
        · by_cases ha : alive = some made
          · have hup := hau (by simp [ha])
            simp [tryOne, advance_eq, adv, serveEP, Reconnect.call, ha]
            rintro rfl
            simp [resOK, G, H, D, hup]
          · have h1 := ho rfl (Or.inr (Or.inl ⟨rfl, by simp [ha]⟩))
            have h2 := hkl rfl (Or.inl ⟨rfl, rfl, ha⟩)
            simp [tryOne, advance_eq, adv, serveEP, Reconnect.call, ha]
            rintro rfl
            simp [resOK, G, H, D, h1, h2]
      | connected c =>
        by_cases ha : alive = some c
        · have hup := hau (by simp [ha])
          simp [tryOne, advance_eq, adv, serveEP, Reconnect.call, ha]
          rintro rfl
          simp [resOK, G, H, D, hup]
        · cases fresh
          · simp [tryOne, advance_eq, adv, ha]
          · have h1 := ho rfl (Or.inr (Or.inr ⟨c, rfl, ha, rfl⟩))
            have h2 := hkl rfl (Or.inr ⟨c, rfl, ha, rfl⟩)
            simp [tryOne, advance_eq, adv, serveEP, Reconnect.call, ha]
            rintro rfl
            simp [resOK, G, H, D, h1, h2]
      | spent => simp at hlz2

theorem settle_relc (o : O) (e : EP) (h : RelC o e) : RelC o { e with fresh := false } := by
  obtain ⟨⟨hk, hm, hu, hg, hau, ho, hkl⟩, hd, hl, hgd⟩ := h
  refine ⟨⟨hk, hm, hu, hg, hau, ?_, ?_⟩, hd, hl, hgd⟩
  · intro hm' hh; apply ho hm'
    unfold H at hh ⊢
    rcases hh with h | h | ⟨c, _, _, h⟩
    · exact Or.inl h
    · exact Or.inr (Or.inl h)
    · cases h
  · intro hm' hh; apply hkl hm'
    unfold D at hh ⊢
    rcases hh with h | ⟨c, _, _, h⟩
    · exact Or.inl h
    · cases h

theorem settle_G (e : EP) (h : G e) : G { e with fresh := false } := by
  unfold G H D at *; simp_all

theorem ev_relc {o : O} {a b : EP} (h : Ev a b) (ha : RelC o a) : RelC o b :=
  Ev.keeps (advance_relc o) (tryOne_relc o) (settle_relc o) h ha

end Balance
