import TonicModel.Model.WebClientHints
import TonicModel.Lemmas.WebClient
/-
Lemmas about the hinted run of the grpc-web client loop (`Model/WebClientHints`): the hints are
invisible in the frames, the repaired `is_end_stream` is only true before the `None`, the repaired
`size_hint` bounds the data still to come.
-/
namespace WebClientHintsLemmas
open WebClient WebClient.Hints WebClient.Fixed WebClientLemmas
open WebServer (BodyEv Out)

/-! ### frames do not depend on the hints -/

theorem map_snd_pair (h : Hint) (os : List Out) : (os.map (fun o => (h, o))).map Prod.snd = os := by
  induction os with
  | nil => rfl
  | cons o r ih => simp [ih]

theorem drainH_frames (hf : HintFn) : ∀ (f : Nat) (st : St) (h : Hint),
    (drainH hf f st h).map Prod.snd = drain f st := by
  intro f
  induction f with
  | zero => intro st h; rfl
  | succ f ih =>
    intro st h
    unfold drainH drain
    cases afterPoll true st with
    | stop os => exact map_snd_pair h os
    | emit o st' => simp [ih]
    | again st' => simp [ih]

theorem runH_frames (hf : HintFn) : ∀ (evs : List BodyEv) (st : St) (h : Hint),
    (runH hf st evs h).map Prod.snd = run st evs := by
  intro evs
  induction evs with
  | nil => intro st h; simp [runH, run, drainH_frames]
  | cons e r ih =>
    intro st h
    cases e with
    | pending => simp [runH, run, ih]
    | err => simp [runH, run]
    | trailers t => simp [runH, run, ih]
    | data b =>
      simp only [runH, run]
      cases afterPoll false { st with decoded := st.decoded ++ b } with
      | stop os => exact map_snd_pair h os
      | emit o st' => simp [ih]
      | again st' => simp [ih]

/-! ### what one pass of the loop does to the buffer's length -/

theorem hdr5_some_len {D : Bytes} {x : UInt8 × Nat × Bytes} (h : hdr5 D = some x) : 5 ≤ D.length := by
  by_cases hl : D.length < 5
  · rw [hdr5_short D hl] at h; cases h
  · omega

theorem onTrailer_len {st : St} {len : Nat} :
    (∀ o st', onTrailer st len = .emit o st' →
        outLen o + st'.decoded.length ≤ st.decoded.length ∧ st'.decoded.length + 5 ≤ st.decoded.length) ∧
    (∀ st', onTrailer st len = .again st' → st'.decoded.length + 5 ≤ st.decoded.length) := by
  unfold onTrailer
  cases hh : hdr5 (st.decoded.drop len) with
  | none => exact ⟨(by intro o st' h; cases h), (by intro st' h; cases h)⟩
  | some x =>
    obtain ⟨hb, n, rest⟩ := x
    have h5 := hdr5_some_len hh
    rw [List.length_drop] at h5
    simp only
    cases decodeTrailersFrame true ((st.decoded.drop len).take (5 + n)) with
    | none => exact ⟨(by intro o st' h; cases h), (by intro st' h; cases h)⟩
    | some t? =>
      simp only
      by_cases hl0 : len > 0
      · simp only [hl0, if_true]
        refine ⟨?_, (by intro st' h; cases h)⟩
        intro o st' h
        cases h
        simp only [outLen, List.length_take, List.length_drop]
        omega
      · simp only [hl0, if_false]
        refine ⟨(by intro o st' h; cases h), ?_⟩
        intro st' h
        cases h
        simp only [List.length_drop]
        omega

theorem afterPoll_len {eof : Bool} {st : St} :
    (∀ o st', afterPoll eof st = .emit o st' → outLen o + st'.decoded.length ≤ st.decoded.length) ∧
    (∀ st', afterPoll eof st = .again st' → st'.decoded.length ≤ st.decoded.length) := by
  unfold afterPoll
  cases findTrailers true st.decoded with
  | bad => exact ⟨(by intro o st' h; cases h), (by intro st' h; cases h)⟩
  | trailer len =>
    simp only
    exact ⟨fun o st' h => (onTrailer_len.1 o st' h).1, fun st' h => by have := onTrailer_len.2 st' h; omega⟩
  | incomplete =>
    simp only
    constructor
    · intro o st' h; split at h <;> cases h
    · intro st' h
      split at h
      · cases h
      · cases h; exact Nat.le_refl _
  | done len =>
    simp only
    by_cases hl0 : len = 0
    · simp only [hl0, if_true]
      unfold onExhausted
      constructor
      · intro o st' h
        split at h
        · cases h
        · split at h
          · cases h
          · split at h
            · cases h; simp [outLen]
            · cases h
      · intro st' h
        split at h
        · cases h; exact Nat.le_refl _
        · split at h
          · cases h
          · split at h <;> cases h
    · simp only [hl0, if_false]
      refine ⟨?_, (by intro st' h; cases h)⟩
      intro o st' h
      cases h
      simp only [outLen, List.length_take, List.length_drop]
      omega

/-- what `drain` works off: buffered bytes, and the stored trailers -/
def mu (st : St) : Nat := st.decoded.length + (if st.trailers.isSome then 1 else 0)

theorem mu_le (st : St) : mu st ≤ st.decoded.length + 1 := by
  unfold mu; split <;> omega

theorem afterPoll_mu {st : St} :
    (∀ o st', afterPoll true st = .emit o st' → mu st' < mu st) ∧
    (∀ st', afterPoll true st = .again st' → mu st' < mu st) := by
  unfold afterPoll
  cases hs : findTrailers true st.decoded with
  | bad => exact ⟨(by intro o st' h; cases h), (by intro st' h; cases h)⟩
  | trailer len =>
    simp only
    constructor
    · intro o st' h
      have := (onTrailer_len.1 o st' h).2
      have := mu_le st'
      unfold mu; split <;> omega
    · intro st' h
      have := onTrailer_len.2 st' h
      have := mu_le st'
      unfold mu; split <;> omega
  | incomplete =>
    simp only
    exact ⟨(by intro o st' h; cases h), (by intro st' h; cases h)⟩
  | done len =>
    simp only
    by_cases hl0 : len = 0
    · simp only [hl0, if_true]
      unfold onExhausted
      constructor
      · intro o st' h
        simp only [Bool.not_true, Bool.false_eq_true, if_false] at h
        split at h
        · cases h
        · split at h
          · rename_i t ht
            cases h
            simp [mu, ht]
          · cases h
      · intro st' h
        simp only [Bool.not_true, Bool.false_eq_true, if_false] at h
        split at h
        · cases h
        · split at h <;> cases h
    · simp only [hl0, if_false]
      refine ⟨?_, (by intro st' h; cases h)⟩
      intro o st' h
      cases h
      have hne : st.decoded ≠ [] := by
        intro he
        rw [he] at hs
        simp [findTrailers, scan, hdr5] at hs
        exact hl0 hs.symm
      have : 0 < st.decoded.length := List.length_pos_iff.2 hne
      simp only [mu, List.length_drop]
      split <;> omega

/-! ### the end-of-stream hint -/

theorem afterPoll_empty : afterPoll true { decoded := [], trailers := none } = .stop [.eos] := rfl

theorem outerHint_eos {bits : Nat} {st : St} {done : Bool} {evs : List BodyEv}
    (h : (outerHint bits st done evs).eos = true) :
    st.decoded = [] ∧ st.trailers = none ∧ (done = true ∨ evs = []) := by
  simp only [outerHint, innerHint, Bool.and_eq_true, Bool.or_eq_true, List.isEmpty_iff,
    Option.isNone_iff_eq_none] at h
  refine ⟨h.1.1, h.1.2, ?_⟩
  rcases h.2 with h | h
  · exact Or.inl h
  · exact Or.inr h.2

theorem endHintOk_map (h : Hint) (hq : h.eos = false) (os : List Out) :
    endHintOk (os.map (fun o => (h, o))) = true := by
  induction os with
  | nil => rfl
  | cons o r ih => simp [endHintOk, hq, ih]

/-- what a hint that was asked at the beginning of the `poll_frame` call under way guarantees -/
def Quiet (h : Hint) (st : St) : Prop := h.eos = false ∨ (st.decoded = [] ∧ st.trailers = none)

theorem quiet_outer (bits : Nat) (st : St) (evs : List BodyEv) :
    Quiet (outerHint bits st true evs) st := by
  by_cases he : (outerHint bits st true evs).eos = true
  · exact Or.inr ⟨(outerHint_eos he).1, (outerHint_eos he).2.1⟩
  · exact Or.inl (by simpa using he)

theorem drainH_end (bits : Nat) : ∀ (f : Nat) (st : St) (h : Hint), Quiet h st → mu st < f →
    endHintOk (drainH (outerHint bits) f st h) = true := by
  intro f
  induction f with
  | zero => intro st h _ hf; omega
  | succ f ih =>
    intro st h hq hf
    unfold drainH
    rcases hq with hq | ⟨hd, ht⟩
    · cases hs : afterPoll true st with
      | stop os => exact endHintOk_map h hq os
      | emit o st' =>
        have := afterPoll_mu.1 o st' hs
        simp only [endHintOk, hq, Bool.not_false, Bool.true_or, Bool.true_and]
        exact ih st' _ (quiet_outer bits st' []) (by omega)
      | again st' =>
        have := afterPoll_mu.2 st' hs
        exact ih st' h (Or.inl hq) (by omega)
    · have hst : st = { decoded := [], trailers := none } := by
        cases st; simp_all
      subst hst
      rw [afterPoll_empty]
      simp [endHintOk]

/-- the hint asked at the beginning of the call under way, with `evs` still to come from the inner body -/
def QuietR (h : Hint) (st : St) (evs : List BodyEv) : Prop :=
  h.eos = false ∨ (evs = [] ∧ st.decoded = [] ∧ st.trailers = none)

theorem quietR_outer (bits : Nat) (st : St) (evs : List BodyEv) :
    QuietR (outerHint bits st false evs) st evs := by
  by_cases he : (outerHint bits st false evs).eos = true
  · obtain ⟨h1, h2, h3⟩ := outerHint_eos he
    rcases h3 with h3 | h3
    · cases h3
    · exact Or.inr ⟨h3, h1, h2⟩
  · exact Or.inl (by simpa using he)

theorem runH_end (bits : Nat) : ∀ (evs : List BodyEv) (st : St) (h : Hint), QuietR h st evs →
    endHintOk (runH (outerHint bits) st evs h) = true := by
  intro evs
  induction evs with
  | nil =>
    intro st h hq
    simp only [runH]
    apply drainH_end
    · rcases hq with hq | ⟨_, hd, ht⟩
      · exact Or.inl hq
      · exact Or.inr ⟨hd, ht⟩
    · have := mu_le st; omega
  | cons e r ih =>
    intro st h hq
    have hf : h.eos = false := by
      rcases hq with hq | ⟨hn, _⟩
      · exact hq
      · cases hn
    cases e with
    | pending => simp only [runH]; exact ih st _ (quietR_outer bits st r)
    | err => simp [runH, endHintOk, hf]
    | trailers t => simp only [runH]; exact ih _ h (Or.inl hf)
    | data b =>
      simp only [runH]
      cases afterPoll false { st with decoded := st.decoded ++ b } with
      | stop os => exact endHintOk_map h hf os
      | emit o st' =>
        simp only [endHintOk, hf, Bool.not_false, Bool.true_or, Bool.true_and]
        exact ih st' _ (quietR_outer bits st' r)
      | again st' => exact ih st' h (Or.inl hf)

/-! ### the size hint -/

theorem upperOk_mono {u : Option Nat} {n m : Nat} (h : upperOk u n = true) (hm : m ≤ n) :
    upperOk u m = true := by
  cases u with
  | none => rfl
  | some u => simp only [upperOk, decide_eq_true_eq] at *; omega

/-- the hint is a sound answer as long as at most `n` data bytes are still to come -/
def Covers (h : Hint) (n : Nat) : Prop := h.lower = 0 ∧ upperOk h.upper n = true

theorem covers_outer (bits : Nat) (st : St) (done : Bool) (evs : List BodyEv) :
    Covers (outerHint bits st done evs) (st.decoded.length + dataLen evs) := by
  exact ⟨rfl, rfl⟩

theorem dataAhead_map (h : Hint) (os : List Out) (hos : os = [.err] ∨ os = [.eos]) :
    dataAhead (os.map (fun o => (h, o))) = 0 := by
  rcases hos with h | h <;> subst h <;> rfl

theorem stop_shape {eof : Bool} {st : St} {os : List Out} (h : afterPoll eof st = .stop os) :
    os = [.err] ∨ os = [.eos] := by
  rcases afterPoll_stop h with h | ⟨h, _⟩
  · exact Or.inl h
  · exact Or.inr h

theorem sizeHintOk_map (h : Hint) (n : Nat) (hc : Covers h n) (os : List Out)
    (hos : os = [.err] ∨ os = [.eos]) : sizeHintOk (os.map (fun o => (h, o))) = true := by
  have hu := upperOk_mono hc.2 (Nat.zero_le n)
  rcases hos with e | e <;> subst e <;> simp [sizeHintOk, outLen, dataAhead, hc.1, hu]

theorem drainH_ahead (hf : HintFn) : ∀ (f : Nat) (st : St) (h : Hint),
    dataAhead (drainH hf f st h) ≤ st.decoded.length := by
  intro f
  induction f with
  | zero => intro st h; simp [drainH, dataAhead, outLen]
  | succ f ih =>
    intro st h
    unfold drainH
    cases hs : afterPoll true st with
    | stop os => simp [dataAhead_map h os (stop_shape hs)]
    | emit o st' =>
      have := afterPoll_len.1 o st' hs
      have := ih st' (hf st' true [])
      simp only [dataAhead]; omega
    | again st' =>
      have := afterPoll_len.2 st' hs
      have := ih st' h
      simp only; omega

theorem runH_ahead (hf : HintFn) : ∀ (evs : List BodyEv) (st : St) (h : Hint),
    dataAhead (runH hf st evs h) ≤ st.decoded.length + dataLen evs := by
  intro evs
  induction evs with
  | nil => intro st h; simp only [runH, dataLen]; exact drainH_ahead hf _ st h
  | cons e r ih =>
    intro st h
    cases e with
    | pending => simp only [runH, dataLen]; exact ih st _
    | err => simp [runH, dataAhead, outLen]
    | trailers t => simp only [runH, dataLen]; exact ih _ h
    | data b =>
      simp only [runH, dataLen]
      cases hs : afterPoll false { st with decoded := st.decoded ++ b } with
      | stop os => simp [dataAhead_map h os (stop_shape hs)]
      | emit o st' =>
        have h1 := afterPoll_len.1 o st' hs
        have := ih st' (hf st' false r)
        simp only [List.length_append] at h1
        simp only [dataAhead]; omega
      | again st' =>
        have h1 := afterPoll_len.2 st' hs
        have := ih st' h
        simp only [List.length_append] at h1
        simp only; omega

theorem entry_ok {h : Hint} {n x : Nat} (hc : Covers h n) (hx : x ≤ n) :
    (decide (h.lower ≤ x) && upperOk h.upper x) = true := by
  simp [hc.1, upperOk_mono hc.2 hx]

theorem drainH_size (bits : Nat) : ∀ (f : Nat) (st : St) (h : Hint), Covers h st.decoded.length →
    sizeHintOk (drainH (outerHint bits) f st h) = true := by
  intro f
  induction f with
  | zero =>
    intro st h hc
    have := entry_ok hc (Nat.zero_le _)
    simpa [drainH, sizeHintOk, outLen, dataAhead] using this
  | succ f ih =>
    intro st h hc
    unfold drainH
    cases hs : afterPoll true st with
    | stop os => exact sizeHintOk_map h _ hc os (stop_shape hs)
    | emit o st' =>
      have h1 := afterPoll_len.1 o st' hs
      have h2 := drainH_ahead (outerHint bits) f st' (outerHint bits st' true [])
      have h3 := ih st' _ (by simpa [dataLen] using covers_outer bits st' true [])
      have := entry_ok hc (x := outLen o + dataAhead (drainH (outerHint bits) f st' (outerHint bits st' true []))) (by omega)
      simp only [sizeHintOk, this, h3, Bool.and_self]
    | again st' =>
      have h1 := afterPoll_len.2 st' hs
      exact ih st' h ⟨hc.1, upperOk_mono hc.2 h1⟩

theorem runH_size (bits : Nat) : ∀ (evs : List BodyEv) (st : St) (h : Hint),
    Covers h (st.decoded.length + dataLen evs) →
    sizeHintOk (runH (outerHint bits) st evs h) = true := by
  intro evs
  induction evs with
  | nil =>
    intro st h hc
    simp only [runH]
    exact drainH_size bits _ st h (by simpa [dataLen] using hc)
  | cons e r ih =>
    intro st h hc
    cases e with
    | pending => simp only [runH]; exact ih st _ (covers_outer bits st false r)
    | err =>
      have := entry_ok hc (Nat.zero_le _)
      simpa [runH, sizeHintOk, outLen, dataAhead] using this
    | trailers t => simp only [runH]; exact ih _ h (by simpa [dataLen] using hc)
    | data b =>
      simp only [runH]
      simp only [dataLen] at hc
      cases hs : afterPoll false { st with decoded := st.decoded ++ b } with
      | stop os => exact sizeHintOk_map h _ hc os (stop_shape hs)
      | emit o st' =>
        have h1 := afterPoll_len.1 o st' hs
        simp only [List.length_append] at h1
        have h2 := runH_ahead (outerHint bits) r st' (outerHint bits st' false r)
        have h3 := ih st' _ (covers_outer bits st' false r)
        have := entry_ok hc (x := outLen o + dataAhead (runH (outerHint bits) st' r (outerHint bits st' false r))) (by omega)
        simp only [sizeHintOk, this, h3, Bool.and_self]
      | again st' =>
        have h1 := afterPoll_len.2 st' hs
        simp only [List.length_append] at h1
        exact ih st' h ⟨hc.1, upperOk_mono hc.2 (by omega)⟩

/-! ### a consumer that stops at `is_end_stream` -/

theorem honour_eq : ∀ (l : List (Hint × Out)), endHintOk l = true →
    (l = [] ∨ EndsOnce (l.map Prod.snd)) → honour l = l.map Prod.snd := by
  intro l
  induction l with
  | nil => intro _ _; rfl
  | cons p r ih =>
    obtain ⟨h, o⟩ := p
    intro hok he
    simp only [endHintOk, Bool.and_eq_true, Bool.or_eq_true, Bool.not_eq_true', beq_iff_eq] at hok
    have he : EndsOnce (o :: r.map Prod.snd) := by
      rcases he with he | he
      · cases he
      · simpa using he
    obtain ⟨os, t, hl, ht, hos⟩ := he
    by_cases hE : h.eos = true
    · have ho : o = .eos := by
        rcases hok.1 with h' | h'
        · rw [h'] at hE; cases hE
        · exact h'
      subst ho
      simp only [honour, hE, if_true, List.map_cons]
      cases os with
      | nil =>
        simp only [List.nil_append, List.cons.injEq] at hl
        rw [hl.2]
      | cons x os' =>
        simp only [List.cons_append, List.cons.injEq] at hl
        have := hos x (List.mem_cons_self ..)
        rw [← hl.1] at this
        cases this
    · simp only [honour, hE, Bool.false_eq_true, if_false, List.map_cons, List.cons.injEq, true_and]
      apply ih hok.2
      cases os with
      | nil =>
        simp only [List.nil_append, List.cons.injEq] at hl
        left
        exact List.map_eq_nil_iff.1 hl.2
      | cons x os' =>
        simp only [List.cons_append, List.cons.injEq] at hl
        right
        exact ⟨os', t, hl.2, ht, fun y hy => hos y (List.mem_cons_of_mem _ hy)⟩

end WebClientHintsLemmas
