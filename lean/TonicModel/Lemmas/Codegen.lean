import TonicModel.Model.Codegen
import TonicModel.Spec.Codegen
import TonicModel.Lemmas.Router
/-
Helper lemmas for C11: the generator's service name is the spec's Service-Name, and
Service-Name is injective on (package, '.'-free identifier).
-/
namespace Codegen

/-- The package as the user asked for it to appear in names. -/
def pkgShown (s : Service) (o : Opts) : Bytes := if o.emitPackage then s.package else []

theorem serviceName_spec (s : Service) (o : Opts) :
    formatServiceName s o = Spec.Codegen.fullName (pkgShown s o) s.ident := by
  unfold formatServiceName pkgShown Spec.Codegen.fullName
  cases o.emitPackage <;> cases s.package <;> simp [dot]

/-- The *last* separator splits a string uniquely. -/
theorem last_sep_unique {α} (c : α) (a b x y : List α) (hx : c ∉ x) (hy : c ∉ y)
    (h : a ++ c :: x = b ++ c :: y) : a = b ∧ x = y := by
  have hr := congrArg List.reverse h
  simp only [List.reverse_append, List.reverse_cons, List.append_assoc, List.singleton_append] at hr
  have hpre : x.reverse ++ [c] <+: y.reverse ++ c :: b.reverse := by
    refine ⟨a.reverse, ?_⟩
    simpa using hr
  have hxy : x.reverse = y.reverse :=
    Router.prefix_sep_unique c x.reverse y.reverse b.reverse (by simpa using hx) (by simpa using hy) hpre
  have hxy' : x = y := by simpa using congrArg List.reverse hxy
  subst hxy'
  exact ⟨List.append_cancel_right h, rfl⟩

/-- Service-Name determines package and service identifier (identifiers contain no `.`). -/
theorem fullName_inj (p i p' i' : Bytes) (hi : (46 : UInt8) ∉ i) (hi' : (46 : UInt8) ∉ i')
    (h : Spec.Codegen.fullName p i = Spec.Codegen.fullName p' i') : p = p' ∧ i = i' := by
  unfold Spec.Codegen.fullName at h
  cases p with
  | nil =>
    cases p' with
    | nil => exact ⟨rfl, h⟩
    | cons c cs =>
      simp only at h
      exact absurd (h ▸ (by simp : (46 : UInt8) ∈ (c :: cs) ++ [46] ++ i')) hi
  | cons c cs =>
    cases p' with
    | nil =>
      simp only at h
      exact absurd (h ▸ (by simp : (46 : UInt8) ∈ (c :: cs) ++ [46] ++ i)) hi'
    | cons c' cs' =>
      simp only [List.append_assoc, List.singleton_append] at h
      exact last_sep_unique 46 _ _ _ _ hi hi' h

theorem mem_fullName (p i : Bytes) (x : UInt8) (h : x ∈ Spec.Codegen.fullName p i) :
    x ∈ p ∨ x = 46 ∨ x ∈ i := by
  unfold Spec.Codegen.fullName at h
  cases p with
  | nil => exact Or.inr (Or.inr h)
  | cons c cs =>
    simp only [List.append_assoc, List.mem_append, List.mem_singleton] at h
    rcases h with h | h | h
    · exact Or.inl h
    · exact Or.inr (Or.inl h)
    · exact Or.inr (Or.inr h)

theorem fullName_ne_nil (p i : Bytes) (hi : i ≠ []) : Spec.Codegen.fullName p i ≠ [] := by
  unfold Spec.Codegen.fullName
  cases p with
  | nil => exact hi
  | cons c cs => simp

end Codegen
