import TonicModel.Model.Compression
import TonicModel.Spec.Compression
/-
Helper lemmas for C05: (A) configuration calls never overflow the 3-slot array and realise the
naive set semantics; (B) the model's tokenisation (`split(',')` + `trim` after `to_str`) is the
spec's; (C) the rendered accept list; (D) frame decoding.  Core Lean only.
-/
namespace Compression
open CompObs
open Spec.Compression

/-! ## A. configuration calls -/

/-- the array holding exactly the encodings of `l`, in order, packed to the front -/
def pack (l : List Enc) : Slots := l.map some ++ List.replicate (3 - l.length) none

/-- all duplicate-free lists of encodings -/
def allNodup : List (List Enc) :=
  [[], [.gzip], [.deflate], [.zstd],
   [.gzip, .deflate], [.gzip, .zstd], [.deflate, .gzip], [.deflate, .zstd], [.zstd, .gzip], [.zstd, .deflate],
   [.gzip, .deflate, .zstd], [.gzip, .zstd, .deflate], [.deflate, .gzip, .zstd], [.deflate, .zstd, .gzip],
   [.zstd, .gzip, .deflate], [.zstd, .deflate, .gzip]]

def allCalls : List Call := [.en .gzip, .en .deflate, .en .zstd, .pop]

theorem mem_allCalls (c : Call) : c ∈ allCalls := by
  cases c with
  | en e => cases e <;> simp [allCalls]
  | pop => simp [allCalls]

theorem step_ok : ∀ l ∈ allNodup, ∀ c ∈ allCalls,
    applyCall (pack l) c = pack (Spec.Compression.enabledStep l c) ∧
    Spec.Compression.enabledStep l c ∈ allNodup := by decide

theorem foldl_pack (cs : List Call) : ∀ l ∈ allNodup,
    cs.foldl applyCall (pack l) = pack (cs.foldl Spec.Compression.enabledStep l) ∧
    cs.foldl Spec.Compression.enabledStep l ∈ allNodup := by
  induction cs with
  | nil => intro l hl; exact ⟨rfl, hl⟩
  | cons c cs ih =>
    intro l hl
    have h := step_ok l hl c (mem_allCalls c)
    simp only [List.foldl_cons, h.1]
    exact ih _ h.2

theorem runCalls_pack (cs : List Call) :
    runCalls cs = pack (Spec.Compression.enabledAfter cs) ∧ Spec.Compression.enabledAfter cs ∈ allNodup :=
  foldl_pack cs [] (by decide)

def Agree (s : Slots) (l : List Enc) : Prop := ∀ e, isEnabled s e = l.contains e

theorem agree_pack : ∀ l ∈ allNodup, ∀ e ∈ Enc.all, isEnabled (pack l) e = l.contains e := by decide

theorem agree_applyConfig : ∀ l ∈ allNodup, ∀ e ∈ Enc.all,
    isEnabled (applyConfig Slots.default (pack l)) e = l.contains e := by decide

theorem configure_agree (direct : Bool) (cs : List Call) :
    Agree (configure direct cs) (Spec.Compression.enabledAfter cs) := by
  intro e
  have h := runCalls_pack cs
  unfold configure
  cases direct with
  | true => simp only [if_true, h.1]; exact agree_pack _ h.2 e (Enc.mem_all e)
  | false => simp only [Bool.false_eq_true, if_false, h.1]; exact agree_applyConfig _ h.2 e (Enc.mem_all e)

/-! ## B. tokenisation -/

theorem comma_eq : Spec.Compression.comma = 44 := by decide

theorem splitComma_eq_elements (v : Bytes) : splitComma v = Spec.Compression.elements v := by
  induction v with
  | nil => rfl
  | cons b v ih =>
    simp only [splitComma, Spec.Compression.elements, List.foldr_cons] at ih ⊢
    rw [ih, comma_eq]
    by_cases hb : b = 44
    · simp [hb]
    · simp only [hb, beq_iff_eq, if_false]
      generalize List.foldr _ _ v = x
      cases x <;> rfl

theorem u8_eq_iff (b : UInt8) (n : Nat) (h : n < 256) : b = UInt8.ofNat n ↔ b.toNat = n := by
  constructor
  · intro hb; subst hb; simp [UInt8.toNat_ofNat']; omega
  · intro hb; subst hb; simp

theorem ws_eq_ows (b : UInt8) (h : Ascii.isVisible b = true) : isWs b = Spec.Compression.isOWS b := by
  have h32 : b = 32 ↔ b.toNat = 32 := u8_eq_iff b 32 (by decide)
  have h9 : b = 9 ↔ b.toNat = 9 := u8_eq_iff b 9 (by decide)
  have hsp : Spec.Compression.ch ' ' = 32 := by decide
  simp only [Ascii.isVisible, Bool.or_eq_true, Bool.and_eq_true, decide_eq_true_eq, beq_iff_eq] at h
  simp only [isWs, Spec.Compression.isOWS, hsp]
  rw [Bool.eq_iff_iff]
  simp only [Bool.or_eq_true, Bool.and_eq_true, decide_eq_true_eq, beq_iff_eq, h32, h9]
  omega

theorem dropWhile_congr {p q : UInt8 → Bool} : ∀ (t : Bytes), (∀ b ∈ t, p b = q b) →
    t.dropWhile p = t.dropWhile q
  | [], _ => rfl
  | b :: t, h => by
    have hb := h b (by simp)
    simp only [List.dropWhile_cons, hb]
    split
    · exact dropWhile_congr t (fun x hx => h x (by simp [hx]))
    · rfl

theorem trim_eq_strip (t : Bytes) (h : t.all Ascii.isVisible = true) : trim t = Spec.Compression.strip t := by
  simp only [List.all_eq_true] at h
  unfold trim Spec.Compression.strip
  have h1 : t.dropWhile isWs = t.dropWhile Spec.Compression.isOWS :=
    dropWhile_congr t (fun b hb => ws_eq_ows b (h b hb))
  rw [h1]
  congr 1
  apply dropWhile_congr
  intro b hb
  apply ws_eq_ows b
  apply h
  have := List.mem_reverse.mp hb
  exact (List.dropWhile_sublist _).subset this

theorem elements_cons (b : UInt8) (v : Bytes) :
    Spec.Compression.elements (b :: v) =
      if b == Spec.Compression.comma then [] :: Spec.Compression.elements v
      else match Spec.Compression.elements v with
        | t :: ts => (b :: t) :: ts
        | [] => [[b]] := rfl

theorem elements_bytes (v : Bytes) : ∀ t ∈ Spec.Compression.elements v, ∀ b ∈ t, b ∈ v := by
  induction v with
  | nil => intro t ht b hb; simp [Spec.Compression.elements] at ht; subst ht; simp at hb
  | cons a v ih =>
    intro t ht b hb
    rw [elements_cons] at ht
    split at ht
    · rcases List.mem_cons.mp ht with rfl | ht'
      · simp at hb
      · exact List.mem_cons_of_mem _ (ih t ht' b hb)
    · split at ht
      · rename_i t0 ts heq
        rcases List.mem_cons.mp ht with rfl | ht'
        · rcases List.mem_cons.mp hb with rfl | hb'
          · simp
          · exact List.mem_cons_of_mem _ (ih t0 (by simp [heq]) b hb')
        · exact List.mem_cons_of_mem _ (ih t (by simp [heq, ht']) b hb)
      · simp at ht; subst ht; simp at hb; subst hb; simp

theorem tokens_eq (v : Bytes) (h : toStrOk v = true) :
    (splitComma v).map trim = Spec.Compression.tokens v := by
  rw [splitComma_eq_elements]
  unfold Spec.Compression.tokens
  apply List.map_congr_left
  intro t ht
  apply trim_eq_strip
  simp only [toStrOk, List.all_eq_true] at h ⊢
  exact fun b hb => h b (elements_bytes v t ht b hb)

theorem asStr_eq_name (e : Enc) : asStr e = Spec.Compression.name e := by cases e <;> decide

theorem identity_eq : identityName = Spec.Compression.identity := by decide

theorem matchToken_spec (s : Slots) (send : List Enc) (h : Agree s send) (t : Bytes) :
    matchToken s t = (Spec.Compression.nameOf? t).filter (fun e => send.contains e) := by
  have hg : gzipName = Spec.Compression.name .gzip := by decide
  have hd : deflateName = Spec.Compression.name .deflate := by decide
  have hz : zstdName = Spec.Compression.name .zstd := by decide
  have n1 : Spec.Compression.name .gzip ≠ Spec.Compression.name .deflate := by decide
  have n2 : Spec.Compression.name .gzip ≠ Spec.Compression.name .zstd := by decide
  have n3 : Spec.Compression.name .deflate ≠ Spec.Compression.name .zstd := by decide
  unfold matchToken Spec.Compression.nameOf?
  simp only [Enc.all, hg, hd, hz, h .gzip, h .deflate, h .zstd]
  by_cases c1 : t = Spec.Compression.name .gzip
  · subst c1; simp [List.find?, Option.filter]
  · have b1 : (t == Spec.Compression.name .gzip) = false := by simp [c1]
    by_cases c2 : t = Spec.Compression.name .deflate
    · subst c2; simp [List.find?, Option.filter, b1, c1]
    · have b2 : (t == Spec.Compression.name .deflate) = false := by simp [c2]
      by_cases c3 : t = Spec.Compression.name .zstd
      · subst c3; simp [List.find?, Option.filter, b1, b2, c1, c2]
      · have b3 : (t == Spec.Compression.name .zstd) = false := by simp [c3]
        simp [List.find?, Option.filter, c1, c2, c3, b1, b2, b3]

theorem isEmpty_no_enabled (s : Slots) (h : isEmpty s = true) (e : Enc) : isEnabled s e = false := by
  induction s with
  | nil => rfl
  | cons a s ih =>
    simp only [isEmpty, List.all_cons, Bool.and_eq_true] at h
    cases a with
    | some x => simp at h
    | none =>
      have := ih h.2
      simp only [isEnabled, List.contains_cons] at this ⊢
      simp only [this, Bool.or_false]
      rfl

theorem fromAccept_spec (s : Slots) (send : List Enc) (h : Agree s send) (v : Bytes) (rest : List Bytes)
    (hv : toStrOk v = true) :
    fromAcceptEncodingHeader (v :: rest) s = Spec.Compression.firstMutual send v := by
  unfold fromAcceptEncodingHeader Spec.Compression.firstMutual
  have hfun : (fun t => matchToken s (trim t)) = (fun t => matchToken s t) ∘ trim := rfl
  simp only [hv, if_true, hfun, ← List.findSome?_map, tokens_eq v hv]
  have hm : (fun t => matchToken s t) = fun t => (Spec.Compression.nameOf? t).filter (fun e => send.contains e) :=
    funext (matchToken_spec s send h)
  rw [hm]
  split
  · rename_i he
    symm
    rw [List.findSome?_eq_none_iff]
    intro t _
    rw [← matchToken_spec s send h]
    unfold matchToken
    simp [isEmpty_no_enabled s he]
  · rfl

/-! ## C. the rendered accept list and the receive decision -/

def enabledList (s : Slots) : List Enc := s.filterMap id

theorem mem_enabledList (s : Slots) (e : Enc) : e ∈ enabledList s ↔ isEnabled s e = true := by
  simp [enabledList, isEnabled]

theorem elements_name_comma (e : Enc) (rest : Bytes) :
    elements (asStr e ++ 44 :: rest) = asStr e :: elements rest := by
  cases e <;>
    simp [asStr, gzipName, deflateName, zstdName, elements_cons, comma_eq]

theorem elements_identity : elements identityName = [identityName] := by decide

theorem strip_name (e : Enc) : strip (asStr e) = asStr e := by cases e <;> decide

theorem strip_identity : strip identityName = identityName := by decide

theorem nameOf_asStr (e : Enc) : nameOf? (asStr e) = some e := by cases e <;> decide

theorem acceptValue_tokens (s : Slots) :
    tokens (acceptValueBody s ++ identityName) = (enabledList s).map asStr ++ [identityName] := by
  unfold tokens
  induction s with
  | nil => simp [acceptValueBody, enabledList, elements_identity, strip_identity]
  | cons a s ih =>
    cases a with
    | none => simpa [acceptValueBody, enabledList] using ih
    | some e =>
      simp only [acceptValueBody, List.append_assoc, List.cons_append]
      rw [elements_name_comma]
      simp only [enabledList, List.filterMap_cons, id] at ih ⊢
      simp [ih, strip_name]

theorem acceptHeader_getD (s : Slots) :
    (acceptHeaderValue s).getD identityName = acceptValueBody s ++ identityName := by
  unfold acceptHeaderValue
  simp only
  split
  · rename_i h
    have : acceptValueBody s = [] := by simpa using h
    simp [this]
  · simp

theorem acceptListOk_model (s : Slots) (l : List Enc) (h : Agree s l) :
    acceptListOk l [(acceptHeaderValue s).getD identityName] = true := by
  rw [acceptHeader_getD]
  unfold acceptListOk
  simp only [acceptValue_tokens, Bool.and_eq_true, List.all_eq_true]
  constructor
  · intro t ht
    rcases List.mem_append.mp ht with ht | ht
    · obtain ⟨e, he, rfl⟩ := List.mem_map.mp ht
      have := (mem_enabledList s e).mp he
      rw [h e] at this
      have hm : e ∈ l := by simpa using this
      simp [nameOf_asStr, hm]
    · simp at ht; subst ht; simp [identity_eq]
  · intro e he
    have : isEnabled s e = true := by rw [h e]; simpa using he
    have := (mem_enabledList s e).mpr this
    rw [← asStr_eq_name]
    simp only [List.contains_eq_mem, List.mem_append, List.mem_map, decide_eq_true_eq]
    exact Or.inl ⟨e, this, rfl⟩

theorem nameOf_eq (v : Bytes) : nameOf? v =
    if v = Spec.Compression.name .gzip then some .gzip
    else if v = Spec.Compression.name .deflate then some .deflate
    else if v = Spec.Compression.name .zstd then some .zstd else none := by
  unfold nameOf?
  simp only [Enc.all, List.find?]
  by_cases c1 : v = Spec.Compression.name .gzip
  · simp [c1]
  · have b1 : (v == Spec.Compression.name .gzip) = false := by simp [c1]
    by_cases c2 : v = Spec.Compression.name .deflate
    · subst c2; decide
    · have b2 : (v == Spec.Compression.name .deflate) = false := by simp [c2]
      by_cases c3 : v = Spec.Compression.name .zstd
      · subst c3; decide
      · have b3 : (v == Spec.Compression.name .zstd) = false := by simp [c3]
        simp [c1, b1, c2, b2, c3, b3]

def toRecv : Except Bytes (Option Enc) → Recv
  | .error _ => .refuse
  | .ok none => .identity
  | .ok (some e) => .use e

theorem fromEncoding_spec (s : Slots) (l : List Enc) (h : Agree s l) (vals : List Bytes) :
    toRecv (fromEncodingHeader vals s) = recv l vals := by
  cases vals with
  | nil => rfl
  | cons v rest =>
    have hg : gzipName = Spec.Compression.name .gzip := by decide
    have hd : deflateName = Spec.Compression.name .deflate := by decide
    have hz : zstdName = Spec.Compression.name .zstd := by decide
    have i1 : Spec.Compression.name .gzip ≠ Spec.Compression.identity := by decide
    have i2 : Spec.Compression.name .deflate ≠ Spec.Compression.identity := by decide
    have i3 : Spec.Compression.name .zstd ≠ Spec.Compression.identity := by decide
    have n1 : Spec.Compression.name .deflate ≠ Spec.Compression.name .gzip := by decide
    have n2 : Spec.Compression.name .zstd ≠ Spec.Compression.name .gzip := by decide
    have n3 : Spec.Compression.name .zstd ≠ Spec.Compression.name .deflate := by decide
    unfold fromEncodingHeader recv
    simp only [hg, hd, hz, identity_eq, h .gzip, h .deflate, h .zstd, nameOf_eq]
    by_cases c0 : v = Spec.Compression.identity
    · subst c0; simp [i1.symm, i2.symm, i3.symm, toRecv]
    · by_cases c1 : v = Spec.Compression.name .gzip
      · subst c1; by_cases m : Enc.gzip ∈ l <;> simp [toRecv, m, i1, n1.symm, n2.symm]
      · by_cases c2 : v = Spec.Compression.name .deflate
        · subst c2; by_cases m : Enc.deflate ∈ l <;> simp [toRecv, m, i2, n1, n3.symm]
        · by_cases c3 : v = Spec.Compression.name .zstd
          · subst c3; by_cases m : Enc.zstd ∈ l <;> simp [toRecv, m, i3, n2, n3]
          · simp [toRecv, c0, c1, c2, c3]

theorem fromEncoding_error (s : Slots) (vals : List Bytes) (v : Bytes)
    (h : fromEncodingHeader vals s = .error v) : v = (acceptHeaderValue s).getD identityName := by
  unfold fromEncodingHeader at h
  split at h
  · cases h
  · repeat' split at h
    all_goals first | (cases h; rfl) | cases h

/-! ## D. frames -/

theorem decodeAll_flagged (fs : List Frame) : ∀ k, firstFlagged fs = some k →
    decodeAll none fs = (fs.take k).map (fun f => Item.ok f.form) ++ [.err 13 .flagNoEnc] := by
  induction fs with
  | nil => intro k h; simp [firstFlagged] at h
  | cons f fs ih =>
    intro k h
    unfold firstFlagged at h
    by_cases h0 : f.flag = 0
    · simp only [h0, beq_self_eq_true, if_true, Option.map_eq_some_iff] at h
      obtain ⟨k', hk', rfl⟩ := h
      simp [decodeAll, decodeFrame, decodeFlag, h0, ih k' hk']
    · by_cases h1 : f.flag = 1
      · simp [h1] at h
        subst h
        simp [decodeAll, decodeFrame, decodeFlag, h1]
      · simp [h0, h1] at h

theorem decodeAll_wellFormed (neg : Option Enc) (fs : List Frame)
    (h : fs.all (wellFormedFor neg) = true) : decodeAll neg fs = fs.map expectItem := by
  induction fs with
  | nil => rfl
  | cons f fs ih =>
    simp only [List.all_cons, Bool.and_eq_true] at h
    have ih := ih h.2
    have hf := h.1
    unfold wellFormedFor at hf
    by_cases h0 : f.flag = 0
    · simp [decodeAll, decodeFrame, decodeFlag, h0, ih, expectItem]
    · have b0 : (f.flag == 0) = false := by simp [h0]
      simp only [b0, Bool.false_or, Bool.and_eq_true, beq_iff_eq] at hf
      obtain ⟨h1, hm⟩ := hf
      cases neg with
      | none => simp at hm
      | some e =>
        cases hform : f.form with
        | z e' =>
          simp only [hform, beq_iff_eq] at hm
          subst hm
          simp [decodeAll, decodeFrame, decodeFlag, h1, hform, decompress, ih, expectItem]
        | raw => simp [hform] at hm
        | other => simp [hform] at hm

theorem firstErr_oks (l : List Form) (c : Nat) (k : ErrCls) (rest : List Item) :
    firstErr (l.map Item.ok ++ Item.err c k :: rest) = some (c, k) := by
  induction l with
  | nil => rfl
  | cons a l ih => simpa [firstErr] using ih

theorem firstErr_expect (fs : List Frame) : firstErr (fs.map expectItem) = none := by
  induction fs with
  | nil => rfl
  | cons f fs ih =>
    have : ∃ m, expectItem f = .ok m := by unfold expectItem; split <;> exact ⟨_, rfl⟩
    obtain ⟨m, hm⟩ := this
    simp only [List.map_cons, hm, firstErr]
    exact ih

theorem okCount_cons_ok (a : Form) (r : List Item) : okCount (.ok a :: r) = okCount r + 1 := by
  simp [okCount, Item.isErr]

theorem okCount_oks (l : List Form) (c : Nat) (k : ErrCls) :
    okCount (l.map Item.ok ++ [Item.err c k]) = l.length := by
  induction l with
  | nil => rfl
  | cons a l ih => simp only [List.map_cons, List.cons_append, okCount_cons_ok, ih, List.length_cons]

/-- decoding errors are INTERNAL and never of the "unsupported encoding" class -/
theorem firstErr_decodeAll (neg : Option Enc) (fs : List Frame) (c : Nat) (k : ErrCls)
    (h : firstErr (decodeAll neg fs) = some (c, k)) : c = 13 ∧ k ≠ .unsupported := by
  induction fs with
  | nil => simp [decodeAll, firstErr] at h
  | cons f fs ih =>
    unfold decodeAll at h
    split at h
    · rename_i c' k' heq
      simp only [firstErr, Option.some.injEq, Prod.mk.injEq] at h
      obtain ⟨rfl, rfl⟩ := h
      unfold decodeFrame at heq
      repeat' split at heq
      all_goals first | (cases heq; exact ⟨rfl, by decide⟩) | cases heq
    · simp only [firstErr] at h
      exact ih h

theorem unaryRead_error (items : List Item) (c : Nat) (k : ErrCls)
    (h : unaryRead items = .error (c, k)) :
    (items = [] ∧ c = 13 ∧ k = .missing) ∨ firstErr items = some (c, k) := by
  unfold unaryRead at h
  split at h
  · left; cases h; exact ⟨rfl, rfl, rfl⟩
  · right; cases h; rfl
  · split at h
    · right; cases h; rename_i heq; simpa [firstErr] using heq
    · cases h

/-! ## E. the server pipeline -/

theorem fromAccept_some (vals : List Bytes) (s : Slots) (e : Enc)
    (h : fromAcceptEncodingHeader vals s = some e) :
    isEnabled s e = true ∧ ∃ v rest, vals = v :: rest ∧ offersB v e = true := by
  unfold fromAcceptEncodingHeader at h
  split at h
  · cases h
  · split at h
    · cases h
    · rename_i v rest
      split at h
      · rename_i hv
        obtain ⟨t, ht, hm⟩ := List.exists_of_findSome?_eq_some h
        have hm' := hm
        unfold matchToken at hm'
        have key : trim t = asStr e ∧ isEnabled s e = true := by
          repeat' split at hm'
          all_goals first | (cases hm'; exact ⟨by assumption, by assumption⟩) | cases hm'
        refine ⟨key.2, v, rest, rfl, ?_⟩
        unfold offersB
        rw [← tokens_eq v hv, ← asStr_eq_name, ← key.1]
        simp only [List.contains_eq_mem, List.mem_map, decide_eq_true_eq]
        exact ⟨t, ht, rfl⟩
      · cases h

/-- the four ways a server call can go -/
theorem serve_cases (accS sndS : Slots) (req : SrvReq) (h : Handler) :
    (∃ v, fromEncodingHeader req.encVals accS = .error v ∧
        serve accS sndS req h = errorResponse false [] 12 .unsupported [v]) ∨
    (∃ neg c k, fromEncodingHeader req.encVals accS = .ok neg ∧ req.shape.singleRequest = true ∧
        unaryRead (decodeAll neg req.frames) = .error (c, k) ∧
        serve accS sndS req h = errorResponse false [] c k []) ∨
    (∃ neg c k, fromEncodingHeader req.encVals accS = .ok neg ∧ req.shape.singleRequest = false ∧
        firstErr (decodeAll neg req.frames) = some (c, k) ∧
        serve accS sndS req h = errorResponse true (decodeAll neg req.frames) c k []) ∨
    (∃ neg f, fromEncodingHeader req.encVals accS = .ok neg ∧ req.shape.singleRequest = true ∧
        unaryRead (decodeAll neg req.frames) = .ok f ∧
        serve accS sndS req h =
          respond req.shape (fromAcceptEncodingHeader req.accVals sndS) h [.ok f]) ∨
    (∃ neg, fromEncodingHeader req.encVals accS = .ok neg ∧ req.shape.singleRequest = false ∧
        firstErr (decodeAll neg req.frames) = none ∧
        serve accS sndS req h =
          respond req.shape (fromAcceptEncodingHeader req.accVals sndS) h (decodeAll neg req.frames)) := by
  unfold serve
  cases hE : fromEncodingHeader req.encVals accS with
  | error v => exact Or.inl ⟨v, rfl, rfl⟩
  | ok neg =>
    simp only
    cases hs : req.shape.singleRequest with
    | true =>
      simp only [if_true]
      cases hu : unaryRead (decodeAll neg req.frames) with
      | error ck => obtain ⟨c, k⟩ := ck; exact Or.inr (Or.inl ⟨neg, c, k, rfl, by simp, hu, rfl⟩)
      | ok f => exact Or.inr (Or.inr (Or.inr (Or.inl ⟨neg, f, rfl, by simp, hu, rfl⟩)))
    | false =>
      simp only [Bool.false_eq_true, if_false]
      cases hf : firstErr (decodeAll neg req.frames) with
      | some ck => obtain ⟨c, k⟩ := ck; exact Or.inr (Or.inr (Or.inl ⟨neg, c, k, rfl, by simp, hf, rfl⟩))
      | none => exact Or.inr (Or.inr (Or.inr (Or.inr ⟨neg, rfl, by simp, hf, rfl⟩)))

theorem serve_choice (accS sndS : Slots) (send : List Enc) (hS : Agree sndS send) (req : SrvReq)
    (h : Handler) (hmd : h.forges = false) :
    srvChoice send req (serve accS sndS req h) = true := by
  have herr : ∀ a b c d e, srvChoice send req (errorResponse a b c d e) = true := by
    intros; simp [srvChoice, errorResponse]
  have hresp : ∀ saw, srvChoice send req
      (respond req.shape (fromAcceptEncodingHeader req.accVals sndS) h saw) = true := by
    intro saw
    cases h with
    | fail code => exact herr _ _ _ _ _
    | reply n dis md =>
      have : md = [] := by simpa [Handler.forges] using hmd
      subst this
      cases hc : fromAcceptEncodingHeader req.accVals sndS with
      | none => simp [respond, srvChoice]
      | some e =>
        obtain ⟨hen, v, rest, hv, hoff⟩ := fromAccept_some _ _ _ hc
        have hmem : e ∈ send := by simpa [hS e] using hen
        simp [respond, srvChoice, nameOf_asStr, hmem, offeredB, hv, hoff]
  rcases serve_cases accS sndS req h with ⟨v, _, ho⟩ | ⟨neg, c, k, _, _, _, ho⟩ |
    ⟨neg, c, k, _, _, _, ho⟩ | ⟨neg, f, _, _, _, ho⟩ | ⟨neg, _, _, _, ho⟩ <;> rw [ho]
  · exact herr _ _ _ _ _
  · exact herr _ _ _ _ _
  · exact herr _ _ _ _ _
  · exact hresp _
  · exact hresp _

theorem frameOk_outFrame (chosen : Option Enc) (md : List Bytes) (dis : Bool) :
    frameOk (match chosen with | some e => [asStr e] | none => md) (outFrame chosen dis) = true := by
  cases chosen with
  | none => simp [outFrame, frameOk]
  | some e => cases dis <;> simp [outFrame, frameOk, asStr_eq_name]

theorem serve_announce (accS sndS : Slots) (req : SrvReq) (h : Handler) :
    srvAnnounce (serve accS sndS req h) = true := by
  have herr : ∀ a b c d e, srvAnnounce (errorResponse a b c d e) = true := by
    intros; simp [srvAnnounce, errorResponse]
  have hresp : ∀ chosen saw, srvAnnounce (respond req.shape chosen h saw) = true := by
    intro chosen saw
    cases h with
    | fail code => exact herr _ _ _ _ _
    | reply n dis md =>
      simp only [respond, srvAnnounce, List.all_eq_true]
      intro f hf
      rw [List.eq_of_mem_replicate hf]
      exact frameOk_outFrame chosen md _
  rcases serve_cases accS sndS req h with ⟨v, _, ho⟩ | ⟨neg, c, k, _, _, _, ho⟩ |
    ⟨neg, c, k, _, _, _, ho⟩ | ⟨neg, f, _, _, _, ho⟩ | ⟨neg, _, _, _, ho⟩ <;> rw [ho]
  · exact herr _ _ _ _ _
  · exact herr _ _ _ _ _
  · exact herr _ _ _ _ _
  · exact hresp _ _
  · exact hresp _ _

theorem respond_cls (shape : Shape) (chosen : Option Enc) (h : Handler) (saw : List Item) :
    (respond shape chosen h saw).stCls ≠ .unsupported := by
  cases h <;> simp [respond, errorResponse]

theorem serve_reject (accS sndS : Slots) (accept : List Enc) (hA : Agree accS accept) (req : SrvReq)
    (h : Handler) : srvReject accept req (serve accS sndS req h) = true := by
  have hrecv := fromEncoding_spec accS accept hA req.encVals
  unfold srvReject
  rcases serve_cases accS sndS req h with ⟨v, hE, ho⟩ | ⟨neg, c, k, hE, _, hu, ho⟩ |
    ⟨neg, c, k, hE, _, hf, ho⟩ | ⟨neg, f, hE, _, _, ho⟩ | ⟨neg, hE, _, _, ho⟩ <;>
    rw [ho] <;> rw [hE] at hrecv <;> rw [← hrecv]
  · have hv := fromEncoding_error _ _ _ hE
    subst hv
    simp [toRecv, errorResponse, acceptListOk_model accS accept hA]
  · have hk : k ≠ .unsupported := by
      rcases unaryRead_error _ _ _ hu with ⟨_, _, rfl⟩ | hfe
      · decide
      · exact (firstErr_decodeAll _ _ _ _ hfe).2
    cases neg <;> simp [toRecv, errorResponse, hk]
  · have hk := (firstErr_decodeAll _ _ _ _ hf).2
    cases neg <;> simp [toRecv, errorResponse, hk]
  · have := respond_cls req.shape (fromAcceptEncodingHeader req.accVals sndS) h [.ok f]
    cases neg <;> simp [toRecv, this]
  · have := respond_cls req.shape (fromAcceptEncodingHeader req.accVals sndS) h (decodeAll neg req.frames)
    cases neg <;> simp [toRecv, this]

theorem respond_called (shape : Shape) (chosen : Option Enc) (h : Handler) (saw : List Item) :
    (respond shape chosen h saw).called = true ∧ (respond shape chosen h saw).saw = saw := by
  cases h <;> simp [respond, errorResponse]

theorem unaryRead_ok (items : List Item) (f : Form) (h : unaryRead items = .ok f) :
    firstErr items = none := by
  unfold unaryRead at h
  split at h
  · cases h
  · cases h
  · split at h
    · cases h
    · rename_i heq; simpa [firstErr] using heq

theorem expectItem_ok (f : Frame) : ∃ m, expectItem f = .ok m := by
  unfold expectItem; split <;> exact ⟨_, rfl⟩

theorem serve_flag (accS sndS : Slots) (accept : List Enc) (hA : Agree accS accept) (req : SrvReq)
    (h : Handler) : srvFlag accept req (serve accS sndS req h) = true := by
  have hrecv := fromEncoding_spec accS accept hA req.encVals
  unfold srvFlag
  cases hr : recv accept req.encVals <;> cases hk : firstFlagged req.frames <;> simp only
  rename_i k
  rw [hr] at hrecv
  have hdec := decodeAll_flagged req.frames k hk
  have hmm : ∀ l : List Frame, l.map (fun f => Item.ok f.form) = (l.map Frame.form).map Item.ok := by
    intro l; simp [List.map_map]
  have hfe : firstErr (decodeAll none req.frames) = some (13, .flagNoEnc) := by
    rw [hdec, hmm]; exact firstErr_oks _ _ _ _
  rcases serve_cases accS sndS req h with ⟨v, hE, ho⟩ | ⟨neg, c, k', hE, hs, hu, ho⟩ |
    ⟨neg, c, k', hE, hs, hf, ho⟩ | ⟨neg, f, hE, _, hu, ho⟩ | ⟨neg, hE, _, hf, ho⟩ <;>
    rw [hE] at hrecv
  · simp [toRecv] at hrecv
  · cases neg with
    | some e => simp [toRecv] at hrecv
    | none =>
      rcases unaryRead_error _ _ _ hu with ⟨hnil, _, _⟩ | hfe'
      · rw [hnil] at hfe; simp [firstErr] at hfe
      · rw [hfe] at hfe'
        simp only [Option.some.injEq, Prod.mk.injEq] at hfe'
        obtain ⟨rfl, rfl⟩ := hfe'
        simp [ho, errorResponse, okCount, hs]
  · cases neg with
    | some e => simp [toRecv] at hrecv
    | none =>
      rw [hfe] at hf
      simp only [Option.some.injEq, Prod.mk.injEq] at hf
      obtain ⟨rfl, rfl⟩ := hf
      have hc : okCount (decodeAll none req.frames) ≤ k := by
        rw [hdec, hmm, okCount_oks]
        simp only [List.length_map, List.length_take]
        omega
      simp [ho, errorResponse, hs, hc]
  · cases neg with
    | some e => simp [toRecv] at hrecv
    | none => have := unaryRead_ok _ _ hu; rw [hfe] at this; cases this
  · cases neg with
    | some e => simp [toRecv] at hrecv
    | none => rw [hfe] at hf; cases hf

theorem serve_delivered (accS sndS : Slots) (req : SrvReq) (h : Handler) (neg : Option Enc)
    (hE : fromEncodingHeader req.encVals accS = .ok neg) :
    srvDelivered neg req (serve accS sndS req h) = true := by
  unfold srvDelivered
  by_cases hwf : req.frames.all (wellFormedFor neg) = true
  · simp only [hwf, if_true]
    have hd := decodeAll_wellFormed _ req.frames hwf
    rcases serve_cases accS sndS req h with ⟨v, hE', ho⟩ | ⟨neg', c, k', hE', hs, hu, ho⟩ |
      ⟨neg', c, k', hE', hs, hf, ho⟩ | ⟨neg', f, hE', hs, hu, ho⟩ | ⟨neg', hE', hs, hf, ho⟩ <;>
      rw [hE] at hE'
    · cases hE'
    · cases hE'
      rw [hd] at hu
      simp only [hs, if_true]
      cases hfr : req.frames with
      | nil =>
        rcases unaryRead_error _ _ _ hu with ⟨_, rfl, _⟩ | hfe
        · simp [ho, errorResponse]
        · rw [firstErr_expect] at hfe; cases hfe
      | cons f0 rest =>
        rw [hfr] at hu
        obtain ⟨m, hm⟩ := expectItem_ok f0
        simp [unaryRead, hm, firstErr_expect] at hu
    · cases hE'
      rw [hd, firstErr_expect] at hf
      cases hf
    · cases hE'
      rw [hd] at hu
      have hc := respond_called req.shape (fromAcceptEncodingHeader req.accVals sndS) h [.ok f]
      simp only [hs, if_true]
      cases hfr : req.frames with
      | nil => rw [hfr] at hu; simp [unaryRead] at hu
      | cons f0 rest =>
        rw [hfr] at hu
        obtain ⟨m, hm⟩ := expectItem_ok f0
        simp only [List.map_cons, hm, unaryRead, firstErr_expect] at hu
        cases hu
        simp [ho, hc.1, hc.2, hm]
    · cases hE'
      rw [hd] at ho
      have hc := respond_called req.shape (fromAcceptEncodingHeader req.accVals sndS) h
        (req.frames.map expectItem)
      simp [ho, hs, hc.1, hc.2]
  · simp [hwf]

theorem serve_deliver (accS sndS : Slots) (accept : List Enc) (hA : Agree accS accept) (req : SrvReq)
    (h : Handler) : srvDeliver accept req (serve accS sndS req h) = true := by
  have hrecv := fromEncoding_spec accS accept hA req.encVals
  unfold srvDeliver
  rw [← hrecv]
  cases hE : fromEncodingHeader req.encVals accS with
  | error v => rfl
  | ok neg =>
    have := serve_delivered accS sndS req h neg hE
    cases neg <;> simpa [toRecv, Recv.enc] using this

/-! ## F. the client pipeline -/

/-- the result list of a client call, as a function of the pieces -/
def callResult (cfg : CliCfg) (shape : Shape) (resp : CliResp) : List Item × List Bytes :=
  match fromEncodingHeader resp.encVals cfg.accept with
  | .error v => ([.err 12 .unsupported], [v])
  | .ok neg =>
    match resp.hdrStatus with
    | some (c + 1) => ([.err (c + 1) resp.peerCls], resp.accVals)
    | hs =>
      let items := clientItems (if hs.isSome then none else neg) hs.isSome resp
      if shape.singleResponse then
        match unaryRead items with
        | .error (c, k) => ([.err c k], [])
        | .ok f => ([.ok f], [])
      else (items, [])

theorem call_eq (cfg : CliCfg) (shape : Shape) (umdEnc umdAcc : List Bytes) (k : Nat) (resp : CliResp) :
    call cfg shape umdEnc umdAcc k resp =
      { enc := (prepareRequest cfg umdEnc umdAcc (if shape.singleRequest then 1 else k)).1,
        acc := (prepareRequest cfg umdEnc umdAcc (if shape.singleRequest then 1 else k)).2.1,
        frames := (prepareRequest cfg umdEnc umdAcc (if shape.singleRequest then 1 else k)).2.2,
        result := (callResult cfg shape resp).1,
        errAcc := (callResult cfg shape resp).2 } := by
  unfold call callResult
  simp only
  repeat' split
  all_goals simp_all

theorem call_send (cfg : CliCfg) (shape : Shape) (umdAcc : List Bytes) (k : Nat) (resp : CliResp) :
    cliSend cfg.send (call cfg shape [] umdAcc k resp) = true := by
  rw [call_eq]
  unfold cliSend prepareRequest
  cases cfg.send with
  | none => simp [outFrame]
  | some e => simp [outFrame, asStr_eq_name]

theorem acceptValueBody_nil (s : Slots) : acceptValueBody s = [] ↔ enabledList s = [] := by
  induction s with
  | nil => simp [acceptValueBody, enabledList]
  | cons a s ih =>
    cases a with
    | none => simpa [acceptValueBody, enabledList] using ih
    | some e => cases e <;> simp [acceptValueBody, enabledList, asStr, gzipName, deflateName, zstdName]

theorem call_advertise (cfg : CliCfg) (accept : List Enc) (hA : Agree cfg.accept accept) (shape : Shape)
    (umdEnc : List Bytes) (k : Nat) (resp : CliResp) :
    cliAdvertise accept (call cfg shape umdEnc [] k resp) = true := by
  rw [call_eq]
  unfold cliAdvertise prepareRequest
  simp only
  by_cases hl : accept = []
  · subst hl
    have : enabledList cfg.accept = [] := by
      apply List.eq_nil_iff_forall_not_mem.mpr
      intro e he
      have := (mem_enabledList _ e).mp he
      rw [hA e] at this
      simp at this
    have hb := (acceptValueBody_nil cfg.accept).mpr this
    simp [acceptHeaderValue, hb]
  · have hne : accept.isEmpty = false := by cases accept <;> simp_all
    obtain ⟨e, he⟩ := List.exists_mem_of_ne_nil accept hl
    have hen : isEnabled cfg.accept e = true := by rw [hA e]; simpa using he
    have hb : acceptValueBody cfg.accept ≠ [] := by
      intro hb
      have := (acceptValueBody_nil cfg.accept).mp hb
      have hm := (mem_enabledList _ e).mpr hen
      rw [this] at hm
      cases hm
    have hok := acceptListOk_model cfg.accept accept hA
    have hv : acceptHeaderValue cfg.accept = some (acceptValueBody cfg.accept ++ identityName) := by
      simp [acceptHeaderValue, hb]
    rw [hv] at hok ⊢
    simpa [hne] using hok

/-- no item a client reports has the "unsupported encoding" class unless the response was refused -/
theorem clientItems_cls (neg : Option Enc) (empty : Bool) (resp : CliResp) (it : Item)
    (hp : resp.peerCls ≠ .unsupported)
    (h : it ∈ clientItems neg empty resp) : it ≠ .err 12 .unsupported := by
  have hdec : ∀ it ∈ decodeAll neg resp.frames, it ≠ .err 12 .unsupported := by
    intro it hit
    generalize resp.frames = fs at hit
    induction fs with
    | nil => simp [decodeAll] at hit
    | cons f fs ih =>
      unfold decodeAll at hit
      split at hit
      · rename_i c k heq
        simp only [List.mem_singleton] at hit
        subst hit
        unfold decodeFrame at heq
        repeat' split at heq
        all_goals first | (cases heq; decide) | cases heq
      · rcases List.mem_cons.mp hit with rfl | hit'
        · simp
        · exact ih hit'
  unfold clientItems at h
  simp only at h
  split at h
  · exact hdec it h
  · split at h
    · split at h
      · exact hdec it h
      · rcases List.mem_append.mp h with h | h
        · exact hdec it h
        · simp only [List.mem_singleton] at h; subst h; simp [hp]
    · exact hdec it h

theorem firstErr_mem (items : List Item) (c : Nat) (k : ErrCls)
    (h : firstErr items = some (c, k)) : Item.err c k ∈ items := by
  induction items with
  | nil => simp [firstErr] at h
  | cons a items ih =>
    cases a with
    | ok m => simp only [firstErr] at h; exact List.mem_cons_of_mem _ (ih h)
    | err c' k' =>
      simp only [firstErr, Option.some.injEq, Prod.mk.injEq] at h
      obtain ⟨rfl, rfl⟩ := h; simp

theorem call_refuse (cfg : CliCfg) (accept : List Enc) (hA : Agree cfg.accept accept) (shape : Shape)
    (umdEnc umdAcc : List Bytes) (k : Nat) (resp : CliResp) (hp : resp.peerCls ≠ .unsupported) :
    cliRefuse accept resp (call cfg shape umdEnc umdAcc k resp) = true := by
  have hrecv := fromEncoding_spec cfg.accept accept hA resp.encVals
  rw [call_eq]
  unfold cliRefuse callResult
  rw [← hrecv]
  cases hE : fromEncodingHeader resp.encVals cfg.accept with
  | error v => simp [toRecv]
  | ok neg =>
    have goal : ∀ it ∈ (match resp.hdrStatus with
        | some (c + 1) => ([Item.err (c + 1) resp.peerCls], resp.accVals)
        | hs =>
          let items := clientItems (if hs.isSome then none else neg) hs.isSome resp
          if shape.singleResponse then
            match unaryRead items with
            | .error (c, k) => ([.err c k], [])
            | .ok f => ([.ok f], [])
          else (items, [])).1, it ≠ .err 12 .unsupported := by
      intro it hit
      split at hit
      · simp only [List.mem_singleton] at hit; subst hit; simp [hp]
      · simp only at hit
        split at hit
        · split at hit
          · rename_i c k hu
            simp only [List.mem_singleton] at hit; subst hit
            rcases unaryRead_error _ _ _ hu with ⟨_, rfl, rfl⟩ | hfe
            · simp
            · exact clientItems_cls _ _ _ _ hp (firstErr_mem _ _ _ hfe)
          · simp only [List.mem_singleton] at hit; subst hit; simp
        · exact clientItems_cls _ _ _ _ hp hit
    cases neg <;> simp only [toRecv, List.all_eq_true] <;> intro it hit <;>
      simpa using goal it hit

theorem callResult_plain (cfg : CliCfg) (shape : Shape) (resp : CliResp) (neg : Option Enc)
    (hE : fromEncodingHeader resp.encVals cfg.accept = .ok neg) (hh : resp.hdrStatus = none) :
    (callResult cfg shape resp).1 =
      if shape.singleResponse then
        match unaryRead (clientItems neg false resp) with
        | .error (c, k) => [.err c k]
        | .ok f => [.ok f]
      else clientItems neg false resp := by
  unfold callResult
  rw [hE, hh]
  simp only [Option.isSome_none, Bool.false_eq_true, if_false]
  split
  · split <;> rfl
  · rfl

theorem toRecv_identity (x : Except Bytes (Option Enc)) (h : toRecv x = .identity) : x = .ok none := by
  cases x with
  | error v => cases h
  | ok neg => cases neg with
    | none => rfl
    | some e => cases h

theorem call_flag (cfg : CliCfg) (accept : List Enc) (hA : Agree cfg.accept accept) (shape : Shape)
    (umdEnc umdAcc : List Bytes) (k : Nat) (resp : CliResp) :
    cliFlag accept resp (call cfg shape umdEnc umdAcc k resp) = true := by
  have hrecv := fromEncoding_spec cfg.accept accept hA resp.encVals
  rw [call_eq]
  unfold cliFlag
  cases hr : recv accept resp.encVals <;> cases hh : resp.hdrStatus <;>
    cases hk : firstFlagged resp.frames <;> simp only
  rename_i kk
  rw [hr] at hrecv
  have hE := toRecv_identity _ hrecv
  rw [callResult_plain cfg shape resp none hE hh]
  have hdec := decodeAll_flagged resp.frames kk hk
  have hmm : ∀ l : List Frame, l.map (fun f => Item.ok f.form) = (l.map Frame.form).map Item.ok := by
    intro l; simp [List.map_map]
  have hfe : firstErr (decodeAll none resp.frames) = some (13, .flagNoEnc) := by
    rw [hdec, hmm]; exact firstErr_oks _ _ _ _
  have hitems : clientItems none false resp = decodeAll none resp.frames := by
    unfold clientItems; simp [hfe]
  rw [hitems]
  cases hs : shape.singleResponse with
  | true =>
    simp only [if_true]
    cases hu : unaryRead (decodeAll none resp.frames) with
    | ok f => have := unaryRead_ok _ _ hu; rw [hfe] at this; cases this
    | error ck =>
      obtain ⟨c, k'⟩ := ck
      rcases unaryRead_error _ _ _ hu with ⟨hnil, _, _⟩ | hfe'
      · rw [hnil] at hfe; simp [firstErr] at hfe
      · rw [hfe] at hfe'
        simp only [Option.some.injEq, Prod.mk.injEq] at hfe'
        obtain ⟨rfl, rfl⟩ := hfe'
        simp [okCount, Item.isErr]
  | false =>
    simp only [Bool.false_eq_true, if_false]
    have hc : okCount (decodeAll none resp.frames) ≤ kk := by
      rw [hdec, hmm, okCount_oks]
      simp only [List.length_map, List.length_take]
      omega
    rw [hdec] at hc ⊢
    simp only [List.getLast?_append, List.getLast?_singleton, Option.some_or, beq_self_eq_true,
      Bool.true_and, decide_eq_true_eq]
    exact hc

theorem callResult_delivered (cfg : CliCfg) (shape : Shape) (resp : CliResp) (neg : Option Enc)
    (umdEnc umdAcc : List Bytes) (k : Nat)
    (hE : fromEncodingHeader resp.encVals cfg.accept = .ok neg) :
    cliDelivered neg shape resp (call cfg shape umdEnc umdAcc k resp) = true := by
  rw [call_eq]
  unfold cliDelivered
  split
  · rename_i hc
    simp only [Bool.and_eq_true, Option.isNone_iff_eq_none, Bool.or_eq_true, beq_iff_eq] at hc
    obtain ⟨⟨hh, ht⟩, hwf⟩ := hc
    simp only [callResult_plain cfg shape resp neg hE hh]
    have hd := decodeAll_wellFormed _ resp.frames hwf
    have hitems : clientItems neg false resp = resp.frames.map expectItem := by
      unfold clientItems
      simp only [hd, firstErr_expect, Option.isSome_none, Bool.or_false, Bool.false_eq_true, if_false]
      rcases ht with ht | ht <;> simp [ht]
    rw [hitems]
    cases hs : shape.singleResponse with
    | true =>
      simp only [if_true]
      cases hfr : resp.frames with
      | nil => simp [unaryRead]
      | cons f0 rest =>
        obtain ⟨m, hm⟩ := expectItem_ok f0
        simp [unaryRead, hm, firstErr_expect]
    | false => simp
  · rfl

theorem call_deliver (cfg : CliCfg) (accept : List Enc) (hA : Agree cfg.accept accept) (shape : Shape)
    (umdEnc umdAcc : List Bytes) (k : Nat) (resp : CliResp) :
    cliDeliver accept shape resp (call cfg shape umdEnc umdAcc k resp) = true := by
  have hrecv := fromEncoding_spec cfg.accept accept hA resp.encVals
  unfold cliDeliver
  rw [← hrecv]
  cases hE : fromEncodingHeader resp.encVals cfg.accept with
  | error v => rfl
  | ok neg =>
    have := callResult_delivered cfg shape resp neg umdEnc umdAcc k hE
    cases neg <;> simpa [toRecv, Recv.enc] using this

/-! ## G. `offersB` is the declarative `Offers` -/

theorem getLast?_cons_of_some {α} (b : α) (l : List α) (x : α) (h : l.getLast? = some x) :
    (b :: l).getLast? = some x := by
  obtain ⟨ys, rfl⟩ := List.getLast?_eq_some_iff.mp h
  rw [← List.cons_append, List.getLast?_append]; simp

theorem all_takeWhile {α} (p : α → Bool) (l : List α) : ∀ b ∈ l.takeWhile p, p b = true := by
  induction l with
  | nil => simp
  | cons a l ih =>
    intro b hb
    rw [List.takeWhile_cons] at hb
    split at hb
    · rcases List.mem_cons.mp hb with rfl | hb'
      · assumption
      · exact ih b hb'
    · simp at hb

theorem elements_struct (v : Bytes) :
    ∃ hd tl, elements v = hd :: tl ∧
      (∃ post, v = hd ++ post ∧ (post = [] ∨ post.head? = some comma)) ∧
      (∀ t ∈ tl, ∃ pre post, v = pre ++ t ++ post ∧ pre.getLast? = some comma ∧
        (post = [] ∨ post.head? = some comma)) := by
  induction v with
  | nil => exact ⟨[], [], rfl, ⟨[], rfl, Or.inl rfl⟩, by simp⟩
  | cons b v ih =>
    obtain ⟨hd, tl, hel, ⟨post, hv, hpost⟩, htl⟩ := ih
    rw [elements_cons, hel]
    by_cases hb : (b == comma) = true
    · have hbc : b = comma := by simpa using hb
      simp only [hb, if_true]
      refine ⟨[], hd :: tl, rfl, ⟨b :: v, rfl, Or.inr (by simp [hbc])⟩, ?_⟩
      intro t ht
      rcases List.mem_cons.mp ht with rfl | ht'
      · exact ⟨[b], post, by simp [hv], by simp [hbc], hpost⟩
      · obtain ⟨pre, post', hv', hpre, hpost'⟩ := htl t ht'
        exact ⟨b :: pre, post', by simp [hv'], getLast?_cons_of_some _ _ _ hpre, hpost'⟩
    · simp only [hb]
      refine ⟨b :: hd, tl, rfl, ⟨post, by simp [hv], hpost⟩, ?_⟩
      intro t ht
      obtain ⟨pre, post', hv', hpre, hpost'⟩ := htl t ht
      exact ⟨b :: pre, post', by simp [hv'], getLast?_cons_of_some _ _ _ hpre, hpost'⟩

theorem elements_decomp (v t : Bytes) (h : t ∈ elements v) :
    ∃ pre post, v = pre ++ t ++ post ∧ (pre = [] ∨ pre.getLast? = some comma) ∧
      (post = [] ∨ post.head? = some comma) := by
  obtain ⟨hd, tl, hel, ⟨post, hv, hpost⟩, htl⟩ := elements_struct v
  rw [hel] at h
  rcases List.mem_cons.mp h with rfl | h'
  · exact ⟨[], post, by simp [hv], Or.inl rfl, hpost⟩
  · obtain ⟨pre, post', hv', hpre, hpost'⟩ := htl t h'
    exact ⟨pre, post', hv', Or.inr hpre, hpost'⟩

theorem strip_decomp (t : Bytes) :
    ∃ l r, t = l ++ strip t ++ r ∧ l.all isOWS = true ∧ r.all isOWS = true := by
  refine ⟨t.takeWhile isOWS, (((t.dropWhile isOWS).reverse).takeWhile isOWS).reverse, ?_, ?_, ?_⟩
  · unfold strip
    rw [List.append_assoc, ← List.reverse_append, List.takeWhile_append_dropWhile,
      List.reverse_reverse, List.takeWhile_append_dropWhile]
  · simp only [List.all_eq_true]
    intro b hb
    exact all_takeWhile _ _ b hb
  · simp only [List.all_eq_true, List.mem_reverse]
    intro b hb
    exact all_takeWhile _ _ b hb

theorem offers_of_offersB (v : Bytes) (e : Enc) (h : offersB v e = true) : Offers v e := by
  unfold offersB tokens at h
  simp only [List.contains_eq_mem, List.mem_map, decide_eq_true_eq] at h
  obtain ⟨t, ht, hst⟩ := h
  obtain ⟨pre, post, hv, hpre, hpost⟩ := elements_decomp v t ht
  obtain ⟨l, r, htl, hl, hr⟩ := strip_decomp t
  rw [hst] at htl
  exact ⟨pre, l, r, post, by rw [hv, htl], hl, hr, hpre, hpost⟩

theorem elements_no_comma (a : Bytes) (h : comma ∉ a) : elements a = [a] := by
  induction a with
  | nil => rfl
  | cons b a ih =>
    have hb : (b == comma) = false := by
      simp only [beq_eq_false_iff_ne, ne_eq]; intro hc; exact h (by simp [hc])
    have := ih (fun hm => h (List.mem_cons_of_mem _ hm))
    rw [elements_cons, hb, this]; rfl

theorem elements_split (a rest : Bytes) (h : comma ∉ a) :
    elements (a ++ comma :: rest) = a :: elements rest := by
  induction a with
  | nil => simp [elements_cons]
  | cons b a ih =>
    have hb : (b == comma) = false := by
      simp only [beq_eq_false_iff_ne, ne_eq]; intro hc; exact h (by simp [hc])
    have := ih (fun hm => h (List.mem_cons_of_mem _ hm))
    rw [List.cons_append, elements_cons, hb, this]; rfl

theorem elements_suffix (p rest : Bytes) :
    ∃ f0 front, elements (p ++ comma :: rest) = f0 :: front ++ elements rest := by
  induction p with
  | nil => exact ⟨[], [], by simp [elements_cons]⟩
  | cons b p ih =>
    obtain ⟨f0, front, h⟩ := ih
    rw [List.cons_append, elements_cons, h]
    by_cases hb : (b == comma) = true
    · exact ⟨[], f0 :: front, by simp [hb]⟩
    · exact ⟨b :: f0, front, by simp [hb]⟩

theorem elements_mem (pre t post : Bytes) (ht : comma ∉ t)
    (hpre : pre = [] ∨ pre.getLast? = some comma) (hpost : post = [] ∨ post.head? = some comma) :
    t ∈ elements (pre ++ t ++ post) := by
  have h1 : t ∈ elements (t ++ post) := by
    rcases hpost with rfl | hp
    · simp [elements_no_comma t ht]
    · cases post with
      | nil => simp at hp
      | cons c q =>
        simp only [List.head?_cons, Option.some.injEq] at hp
        subst hp
        simp [elements_split t q ht]
  rcases hpre with rfl | hp
  · simpa using h1
  · obtain ⟨p, rfl⟩ := List.getLast?_eq_some_iff.mp hp
    obtain ⟨f0, front, h⟩ := elements_suffix p (t ++ post)
    have : p ++ [comma] ++ t ++ post = p ++ comma :: (t ++ post) := by simp
    rw [this, h]
    exact List.mem_append_right _ h1

theorem dropWhile_append_all {α} (p : α → Bool) (l n : List α) (h : l.all p = true) :
    (l ++ n).dropWhile p = n.dropWhile p := by
  induction l with
  | nil => rfl
  | cons a l ih =>
    simp only [List.all_cons, Bool.and_eq_true] at h
    simp [h.1, ih h.2]

theorem strip_pad (l n r : Bytes) (hl : l.all isOWS = true) (hr : r.all isOWS = true)
    (h1 : ∀ x : Bytes, (n ++ x).dropWhile isOWS = n ++ x)
    (h2 : ∀ x : Bytes, (n.reverse ++ x).dropWhile isOWS = n.reverse ++ x) :
    strip (l ++ n ++ r) = n := by
  unfold strip
  rw [List.append_assoc, dropWhile_append_all _ _ _ hl, h1, List.reverse_append,
    dropWhile_append_all _ _ _ (by simpa using hr)]
  have := h2 []
  simp only [List.append_nil] at this
  rw [this, List.reverse_reverse]

theorem name_no_comma (e : Enc) : comma ∉ name e := by cases e <;> decide

theorem name_head (e : Enc) (x : Bytes) : (name e ++ x).dropWhile isOWS = name e ++ x := by
  cases e <;> rfl

theorem name_last (e : Enc) (x : Bytes) :
    ((name e).reverse ++ x).dropWhile isOWS = (name e).reverse ++ x := by
  cases e <;> rfl

theorem ows_ne_comma (l : Bytes) (h : l.all isOWS = true) : comma ∉ l := by
  intro hm
  have := List.all_eq_true.mp h _ hm
  revert this
  decide

theorem offersB_of_offers (v : Bytes) (e : Enc) (h : Offers v e) : offersB v e = true := by
  obtain ⟨pre, l, r, post, rfl, hl, hr, hpre, hpost⟩ := h
  unfold offersB tokens
  simp only [List.contains_eq_mem, List.mem_map, decide_eq_true_eq]
  refine ⟨l ++ name e ++ r, elements_mem _ _ _ ?_ hpre hpost, strip_pad _ _ _ hl hr (name_head e) (name_last e)⟩
  simp only [List.mem_append, not_or]
  exact ⟨⟨ows_ne_comma l hl, name_no_comma e⟩, ows_ne_comma r hr⟩

theorem offersB_iff (v : Bytes) (e : Enc) : offersB v e = true ↔ Offers v e :=
  ⟨offers_of_offersB v e, offersB_of_offers v e⟩

/-- every response with `grpc-status` in the trailers announces exactly the chosen encoding -/
theorem serve_enc_trl (accS sndS : Slots) (req : SrvReq) (h : Handler) (hmd : h.forges = false) :
    (serve accS sndS req h).stWhere = .trl →
      (serve accS sndS req h).enc =
        ((fromAcceptEncodingHeader req.accVals sndS).map name).toList := by
  have key : ∀ saw, (respond req.shape (fromAcceptEncodingHeader req.accVals sndS) h saw).stWhere = .trl →
      (respond req.shape (fromAcceptEncodingHeader req.accVals sndS) h saw).enc
        = ((fromAcceptEncodingHeader req.accVals sndS).map name).toList := by
    intro saw
    cases h with
    | fail c => intro hw; simp [respond, errorResponse] at hw
    | reply n d md =>
      have : md = [] := by simpa [Handler.forges] using hmd
      subst this
      intro _
      cases fromAcceptEncodingHeader req.accVals sndS <;> simp [respond, asStr_eq_name]
  rcases serve_cases accS sndS req h with ⟨v, _, ho⟩ |
    ⟨neg, c, k, _, _, _, ho⟩ | ⟨neg, c, k, _, _, _, ho⟩ | ⟨neg, f, _, _, _, ho⟩ | ⟨neg, _, _, _, ho⟩ <;>
    rw [ho]
  · intro hw; simp [errorResponse] at hw
  · intro hw; simp [errorResponse] at hw
  · intro hw; simp [errorResponse] at hw
  · exact key _
  · exact key _

/-! ## H. what the oracle's predicates say -/

theorem recv_refuse_iff (enabled : List Enc) (vals : List Bytes) :
    recv enabled vals = .refuse ↔
      ∃ v rest, vals = v :: rest ∧ v ≠ identity ∧ ∀ e, enabled.contains e = true → v ≠ name e := by
  cases vals with
  | nil => simp [recv]
  | cons v rest =>
    have i1 : name .gzip ≠ identity := by decide
    have i2 : name .deflate ≠ identity := by decide
    have i3 : name .zstd ≠ identity := by decide
    have n1 : name .deflate ≠ name .gzip := by decide
    have n2 : name .zstd ≠ name .gzip := by decide
    have n3 : name .zstd ≠ name .deflate := by decide
    unfold recv
    simp only [nameOf_eq, beq_iff_eq, List.cons.injEq, List.contains_eq_mem, decide_eq_true_eq]
    constructor
    · intro h
      refine ⟨v, rest, ⟨rfl, rfl⟩, ?_⟩
      by_cases c0 : v = identity
      · simp [c0] at h
      · refine ⟨c0, ?_⟩
        intro e he hv
        subst hv
        cases e <;> simp_all
    · rintro ⟨v', rest', ⟨rfl, rfl⟩, c0, hall⟩
      simp only [c0, if_false]
      by_cases c1 : v = name .gzip
      · have := hall .gzip; simp_all
      · by_cases c2 : v = name .deflate
        · have := hall .deflate; simp_all
        · by_cases c3 : v = name .zstd
          · have := hall .zstd; simp_all
          · simp [c1, c2, c3]

theorem acceptListOk_meaning (enabled : List Enc) (vals : List Bytes)
    (h : acceptListOk enabled vals = true) :
    ∃ v, vals = [v] ∧ (∀ e, offersB v e = true ↔ enabled.contains e = true) ∧
      ∀ t ∈ tokens v, t = identity ∨ ∃ e, t = name e := by
  unfold acceptListOk at h
  split at h
  · rename_i v
    simp only [Bool.and_eq_true, List.all_eq_true] at h
    obtain ⟨h1, h2⟩ := h
    refine ⟨v, rfl, ?_, ?_⟩
    · intro e
      constructor
      · intro ho
        have hm : name e ∈ tokens v := by simpa [offersB] using ho
        have := h1 _ hm
        have hn : nameOf? (name e) = some e := by rw [← asStr_eq_name]; exact nameOf_asStr e
        have hi : (name e == identity) = false := by cases e <;> decide
        simpa [hn, hi] using this
      · intro he
        have := h2 e (by simpa using he)
        simpa [offersB] using this
    · intro t ht
      have := h1 t ht
      simp only [Bool.or_eq_true, beq_iff_eq] at this
      rcases this with h | h
      · exact Or.inl h
      · right
        rw [nameOf_eq] at h
        by_cases c1 : t = name .gzip
        · exact ⟨_, c1⟩
        · by_cases c2 : t = name .deflate
          · exact ⟨_, c2⟩
          · by_cases c3 : t = name .zstd
            · exact ⟨_, c3⟩
            · simp [c1, c2, c3] at h
  · cases h

/-! ## I. a tonic client against a tonic server -/

theorem enabledList_pack : ∀ l ∈ allNodup, enabledList (pack l) = l := by decide

theorem decodeAll_replicate_out (enc : Option Enc) (d : Bool) (m : Nat) :
    decodeAll enc (List.replicate m (outFrame enc d)) = List.replicate m (.ok .raw) := by
  induction m with
  | zero => rfl
  | succ m ih =>
    simp only [List.replicate_succ]
    cases enc with
    | none => simp [decodeAll, decodeFrame, decodeFlag, outFrame] at ih ⊢; exact ih
    | some e =>
      cases d with
      | true => simp [decodeAll, decodeFrame, decodeFlag, outFrame] at ih ⊢; exact ih
      | false => simp [decodeAll, decodeFrame, decodeFlag, outFrame, decompress] at ih ⊢; exact ih

theorem firstErr_replicate_ok (m : Nat) : firstErr (List.replicate m (Item.ok .raw)) = none := by
  induction m with
  | zero => rfl
  | succ m ih => simpa [List.replicate_succ, firstErr] using ih

theorem fromEncoding_single (s : Slots) (e : Enc) :
    fromEncodingHeader [asStr e] s =
      if isEnabled s e then .ok (some e) else .error ((acceptHeaderValue s).getD identityName) := by
  cases e <;> cases h : isEnabled s _ <;>
    simp [fromEncodingHeader, asStr, gzipName, deflateName, zstdName, identityName, h]

theorem visible_accept (s : Slots) : toStrOk (acceptValueBody s ++ identityName) = true := by
  induction s with
  | nil => decide
  | cons a s ih =>
    cases a with
    | none => simpa [acceptValueBody] using ih
    | some e =>
      have he : (asStr e).all Ascii.isVisible = true := by cases e <;> decide
      have hc : Ascii.isVisible 44 = true := by decide
      simp only [toStrOk, List.all_append] at ih ⊢
      simp only [acceptValueBody, List.all_append, List.all_cons, List.all_nil, he, hc, Bool.and_true,
        Bool.true_and]
      simpa using ih

theorem findSome_names (send : List Enc) (l : List Enc) :
    (l.map asStr ++ [identityName]).findSome?
        (fun t => (nameOf? t).filter (fun e => send.contains e)) =
      l.find? (fun e => send.contains e) := by
  induction l with
  | nil =>
    have : nameOf? identityName = none := by decide
    simp [this, Option.filter]
  | cons a l ih =>
    simp only [List.map_cons, List.cons_append, List.findSome?_cons, nameOf_asStr, List.find?_cons]
    cases h : send.contains a
    · simp only [Option.filter, h]; exact ih
    · simp only [Option.filter, h, if_true]

/-- what a server picks from the header a tonic client writes -/
theorem fromAccept_of_client (cacc sndS : Slots) (sSend : List Enc) (hS : Agree sndS sSend) :
    fromAcceptEncodingHeader (acceptHeaderValue cacc).toList sndS =
      (enabledList cacc).find? (fun e => sSend.contains e) := by
  unfold acceptHeaderValue
  simp only
  split
  · rename_i hb
    have hb' : acceptValueBody cacc = [] := by simpa using hb
    have := (acceptValueBody_nil cacc).mp hb'
    simp [this, fromAcceptEncodingHeader]
  · simp only [Option.toList]
    rw [fromAccept_spec sndS sSend hS _ [] (visible_accept cacc)]
    unfold firstMutual
    rw [acceptValue_tokens, findSome_names]

theorem prepareRequest_eq (ccfg : CliCfg) (n : Nat) :
    prepareRequest ccfg [] [] n =
      ((ccfg.send.map asStr).toList, (acceptHeaderValue ccfg.accept).toList,
        List.replicate n (outFrame ccfg.send false)) := by
  unfold prepareRequest
  cases ccfg.send <;> cases acceptHeaderValue ccfg.accept <;> rfl

theorem unaryRead_one : unaryRead [Item.ok .raw] = .ok .raw := rfl

/-- the server side of a pair call that is not refused -/
theorem serve_prepared (accS sndS : Slots) (shape : Shape) (send : Option Enc) (accVals : List Bytes)
    (n : Nat) (h : Handler) (hn : shape.singleRequest = true → n = 1)
    (hE : fromEncodingHeader (send.map asStr).toList accS = .ok send) :
    serve accS sndS ⟨shape, (send.map asStr).toList, accVals, List.replicate n (outFrame send false)⟩ h =
      respond shape (fromAcceptEncodingHeader accVals sndS) h (List.replicate n (.ok .raw)) := by
  unfold serve
  simp only [hE, decodeAll_replicate_out]
  cases hs : shape.singleRequest with
  | true => simp [hn hs, unaryRead_one]
  | false => simp [firstErr_replicate_ok]

/-- the client side of a pair call whose response the server built with `respond … (reply …)` -/
theorem call_of_reply (ccfg : CliCfg) (cAccept : List Enc) (hC : Agree ccfg.accept cAccept)
    (shape : Shape) (k n : Nat) (dis : Bool) (chosen : Option Enc) (saw : List Item)
    (hch : ∀ e, chosen = some e → e ∈ cAccept) :
    (call ccfg shape [] [] k (respOf (respond shape chosen (.reply n dis []) saw))).result =
      List.replicate (if shape.singleResponse then 1 else n) (.ok .raw) := by
  rw [call_eq]
  simp only
  have hE : fromEncodingHeader (respOf (respond shape chosen (.reply n dis []) saw)).encVals ccfg.accept
      = .ok chosen := by
    cases chosen with
    | none => simp [respOf, respond, fromEncodingHeader]
    | some e =>
      have hen : isEnabled ccfg.accept e = true := by rw [hC e]; simpa using hch e rfl
      simp [respOf, respond, fromEncoding_single, hen]
  have hh : (respOf (respond shape chosen (.reply n dis []) saw)).hdrStatus = none := by
    simp [respOf, respond]
  rw [callResult_plain ccfg shape _ chosen hE hh]
  have hitems : clientItems chosen false (respOf (respond shape chosen (.reply n dis []) saw)) =
      List.replicate (if shape.singleResponse then 1 else n) (.ok .raw) := by
    unfold clientItems
    simp [respOf, respond, decodeAll_replicate_out, firstErr_replicate_ok]
  rw [hitems]
  cases hr : shape.singleResponse with
  | true => simp [unaryRead_one]
  | false => simp

theorem pair_ok (ccfg : CliCfg) (cAccept : List Enc) (hC : Agree ccfg.accept cAccept)
    (hCl : enabledList ccfg.accept = cAccept)
    (accS sndS : Slots) (sAccept sSend : List Enc) (hA : Agree accS sAccept) (hS : Agree sndS sSend)
    (shape : Shape) (k : Nat) (h : Handler) (hmd : h.forges = false) :
    pairOk ccfg.send cAccept sAccept sSend shape k h
      (pair ccfg accS sndS shape k h).1 (pair ccfg accS sndS shape k h).2 = true := by
  unfold pairOk
  have h2 : (pair ccfg accS sndS shape k h).2 =
      call ccfg shape [] [] k (respOf (pair ccfg accS sndS shape k h).1) := rfl
  have hsend := call_send ccfg shape [] k (respOf (pair ccfg accS sndS shape k h).1)
  have hadv := call_advertise ccfg cAccept hC shape [] k (respOf (pair ccfg accS sndS shape k h).1)
  rw [h2, hsend, hadv]
  simp only [Bool.true_and]
  have h1 : (pair ccfg accS sndS shape k h).1 =
      serve accS sndS ⟨shape, (ccfg.send.map asStr).toList, (acceptHeaderValue ccfg.accept).toList,
        List.replicate (if shape.singleRequest then 1 else k) (outFrame ccfg.send false)⟩ h := by
    unfold pair
    simp only [prepareRequest_eq]
  have hchosen := fromAccept_of_client ccfg.accept sndS sSend hS
  rw [hCl] at hchosen
  -- is the request refused?
  by_cases href : pairRefused ccfg.send sAccept = true
  · -- refused: the client sends `e`, the server does not accept it
    simp only [href, if_true]
    cases hs : ccfg.send with
    | none => simp [pairRefused, hs] at href
    | some e =>
      have hne : isEnabled accS e = false := by
        rw [hA e]; simpa [pairRefused, hs] using href
      have hE : fromEncodingHeader [asStr e] accS = .error ((acceptHeaderValue accS).getD identityName) := by
        rw [fromEncoding_single, hne]; rfl
      have hso : (pair ccfg accS sndS shape k h).1 =
          errorResponse false [] 12 .unsupported [(acceptHeaderValue accS).getD identityName] := by
        rw [h1, hs]
        unfold serve
        simp [hE]
      rw [hso, call_eq]
      have hcr : callResult ccfg shape (respOf (errorResponse false [] 12 .unsupported
          [(acceptHeaderValue accS).getD identityName])) =
          ([.err 12 .unsupported], [(acceptHeaderValue accS).getD identityName]) := by
        simp [callResult, respOf, errorResponse, fromEncodingHeader]
      simp only [hcr]
      simp [errorResponse, acceptListOk_model accS sAccept hA]
  · -- accepted
    simp only [href, Bool.false_eq_true, if_false]
    have hE : fromEncodingHeader (ccfg.send.map asStr).toList accS = .ok ccfg.send := by
      cases hs : ccfg.send with
      | none => simp [fromEncodingHeader]
      | some e =>
        have hen : isEnabled accS e = true := by
          rw [hA e]
          have : pairRefused (some e) sAccept = false := by rw [← hs]; simpa using href
          simpa [pairRefused] using this
        simp [fromEncoding_single, hen]
    have hso := serve_prepared accS sndS shape ccfg.send (acceptHeaderValue ccfg.accept).toList
      (if shape.singleRequest then 1 else k) h (by intro hs; simp [hs]) hE
    rw [← h1, hchosen] at hso
    have hcs := respond_called shape (pairResponseEnc cAccept sSend) h
      (List.replicate (if shape.singleRequest then 1 else k) (.ok .raw))
    unfold pairResponseEnc at hcs
    rw [hso]
    cases h with
    | fail c =>
      simp only [hcs.1, hcs.2, beq_self_eq_true, Bool.true_and]
      cases c with
      | zero => simp
      | succ c' =>
        rw [call_eq]
        simp [callResult, respOf, respond, errorResponse, fromEncodingHeader]
    | reply n dis md =>
      have : md = [] := by simpa [Handler.forges] using hmd
      subst this
      have hch : ∀ e, List.find? (fun e => sSend.contains e) cAccept = some e → e ∈ cAccept :=
        fun e he => List.mem_of_find?_eq_some he
      rw [call_of_reply ccfg cAccept hC shape k n dis _ _ hch]
      simp only [hcs.1, hcs.2, beq_self_eq_true, Bool.true_and, Bool.and_true]
      have hann : ∀ chosen : Option Enc, ∀ saw, ((respond shape chosen (.reply n dis []) saw).frames.all
          (frameOk (respond shape chosen (.reply n dis []) saw).enc)) = true := by
        intro chosen saw
        simp only [respond, List.all_eq_true]
        intro f hf
        rw [List.eq_of_mem_replicate hf]
        exact frameOk_outFrame chosen [] _
      rw [hann]
      unfold pairResponseEnc
      cases List.find? (fun e => sSend.contains e) cAccept <;> simp [respond, asStr_eq_name]


theorem enabledList_configure (cs : List Call) :
    enabledList (configure true cs) = Spec.Compression.enabledAfter cs := by
  have h := runCalls_pack cs
  simp only [configure, if_true, h.1]
  exact enabledList_pack _ h.2

end Compression
