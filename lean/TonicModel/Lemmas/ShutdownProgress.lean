import TonicModel.Lemmas.ShutdownLive
/-
Progress: once shutdown has been requested and no handler is waiting for the scenario, a server
that has not resolved can always take another step of its own.  Together with the decreasing
measure this gives: the serve future resolves.
-/
namespace Shutdown

/-- No running handler is waiting for something from the outside: neither for a release by the
scenario, nor (in its last phase) for the rest of its caller's request stream. -/
def Unblocked (s : State) : Prop :=
  ∀ cn ∈ s.conns, cn.closed = false → ∀ k ∈ cn.calls, k.started = true → k.cancelled = false →
    k.todo ≠ [] → (0 < k.permits ∨ s.freeRun = true) ∧ k.reqReady = true

/-- Every caller that is still there has sent its complete request (always true of unary and
server-streaming calls). -/
def RequestsDone (s : State) : Prop :=
  ∀ cn ∈ s.conns, ∀ k ∈ cn.calls, k.cancelled = false → k.reqLeft = 0

theorem reqReady_of_reqLeft {k : Call} (h : k.reqLeft = 0) : k.reqReady = true := by
  simp [Call.reqReady, h]

/-- The signal has fired, or the incoming stream has ended, or the accept loop is already over. -/
def ShutdownRequested (s : State) : Prop :=
  s.sigReady = true ∨ s.ended = true ∨ s.loopRunning = false

/-- The server's own steps that do not take up anything new: every internal step except the
completion of an HTTP/2 handshake, the acceptance of a new stream and the request timeout cutting a
call short.  Draining a server needs only these. -/
def Label.drains : Label → Bool
  | .hsDone .. | .callStart .. | .expire .. => false
  | l => l.internal

theorem Label.drains_internal {l : Label} (h : l.drains = true) : l.internal = true := by
  cases l <;> simp_all [Label.drains, Label.internal]

theorem updConn_isSome {s : State} {c : Nat} {cn : Conn} {g : Conn → Bool} {f : Conn → Conn}
    (hc : s.conns[c]? = some cn) (hg : g cn = true) : (updConn s c g f).isSome = true := by
  simp [updConn, hc, hg]

theorem updCall_isSome {s : State} {c j : Nat} {cn : Conn} {k : Call} {g : Conn → Call → Bool}
    {f : Call → Call} (hc : s.conns[c]? = some cn) (hk : cn.calls[j]? = some k)
    (hg : g cn k = true) : (updCall s c j g f).isSome = true := by
  simp [updCall, hc, hk, hg]

theorem exists_index {α} {l : List α} {a : α} (h : a ∈ l) : ∃ i : Nat, l[i]? = some a :=
  List.mem_iff_getElem?.1 h

/-- A connection task that still holds its watcher can move (or hyper can, or a handler can). -/
theorem conn_progress_drains {s : State} {c : Nat} {cn : Conn} (hc : s.conns[c]? = some cn)
    (hk : ConnOk s.cfgGraceful s.cfgBiased s.sent s.resolved s.sigReady cn)
    (hw : cn.watcher = true) (hsent : s.sent = true) (hub : Unblocked s) :
    ∃ l, l.internal = true ∧ l.drains = true ∧ (step s l).isSome = true := by
  have hacc := (hk.watcher_acc hw).1
  have hcm := mem_of_getElem? hc
  cases hcl : cn.closed with
  | true =>
    refine ⟨.connDropWatcher c, rfl, rfl, ?_⟩
    simp only [step]
    exact updConn_isSome hc (by simp [hcl, hw])
  | false =>
    cases hpg : cn.peerGone with
    | true =>
      refine ⟨.connBreak c, rfl, rfl, ?_⟩
      simp only [step]
      exact updConn_isSome hc (by simp [hacc, hcl, hyperConnDone, hpg])
    | false =>
      cases hss : cn.sawSig with
      | false =>
        refine ⟨.connSig c, rfl, rfl, ?_⟩
        simp only [step]
        exact updConn_isSome hc (by simp [hacc, hcl, hw, hsent, hss])
      | true =>
        have hgrc := hk.sawSig_graceful hss
        cases hhs : cn.hs with
        | false =>
          refine ⟨.connBreak c, rfl, rfl, ?_⟩
          simp only [step]
          exact updConn_isSome hc (by simp [hacc, hcl, hyperConnDone, hgrc, hhs])
        | true =>
          cases hfin : cn.final with
          | false =>
            refine ⟨.final c, rfl, rfl, ?_⟩
            simp only [step]
            exact updConn_isSome hc (by simp [hacc, hcl, hhs, hgrc, hfin])
          | true =>
            cases hset : cn.calls.all Call.settled with
            | true =>
              refine ⟨.connBreak c, rfl, rfl, ?_⟩
              simp only [step]
              exact updConn_isSome hc (by simp [hacc, hcl, hyperConnDone, hfin, hset])
            | false =>
              have : ∃ k ∈ cn.calls, k.settled = false := by
                simpa using hset
              obtain ⟨k, hkm, hns⟩ := this
              obtain ⟨j, hj⟩ := exists_index hkm
              simp only [Call.settled, Bool.or_eq_false_iff, Bool.not_eq_false',
                Bool.and_eq_false_iff] at hns
              obtain ⟨⟨hst, hcan⟩, hinc⟩ := hns
              have hco := hk.calls_ok k hkm
              by_cases hlt : k.recv < k.sent.length
              · refine ⟨.deliver c j, rfl, rfl, ?_⟩
                simp only [step]
                exact updCall_isSome hc hj (by simp [hcl, hpg, hcan, hlt])
              · have heq : k.recv = k.sent.length := by have := hco.recv_le; omega
                have htodo : k.todo.isEmpty = false := by
                  rcases hinc with h | h
                  · exact h
                  · simp [heq] at h
                have hne : k.todo ≠ [] := by
                  intro h0; simp [h0] at htodo
                obtain ⟨hperm, hrr⟩ := hub cn hcm hcl k hkm hst hcan hne
                refine ⟨.produce c j, rfl, rfl, ?_⟩
                simp only [step]
                refine updCall_isSome hc hj ?_
                rcases hperm with hp | hp
                · simp [hcl, hst, hcan, hp, htodo, hrr]
                · simp [hcl, hst, hcan, hp, htodo, hrr]

theorem progress_drains {s : State} (hg : Good s) (hgr : s.cfgGraceful = true)
    (hreq : ShutdownRequested s) (hub : Unblocked s) (hres : s.resolved = false) :
    ∃ l, l.internal = true ∧ l.drains = true ∧ (step s l).isSome = true := by
  cases hrun : s.loopRunning with
  | true =>
    have htk := hg.running_not_taken hrun
    cases hsr : s.sigReady with
    | true =>
      exact ⟨.loopSig, rfl, rfl, by simp [step, hrun, sigBranchReady, hsr, htk]⟩
    | false =>
      have hib : incomingBranch s = true := by
        simp [incomingBranch, sigBranchReady, hrun, hsr]
      have hend : s.ended = true := by
        rcases hreq with h | h | h
        · simp [hsr] at h
        · exact h
        · simp [hrun] at h
      by_cases hpe : 0 < s.pendingErrs
      · exact ⟨.loopErr, rfl, rfl, by simp [step, hib, hpe]⟩
      · have hpe0 : s.pendingErrs = 0 := by omega
        cases hall : s.conns.all (fun cn => !cn.pending || cn.inSet) with
        | true =>
          exact ⟨.loopEnd, rfl, rfl, by simp [step, hib, hend, hpe0, hall]⟩
        | false =>
          have : ∃ cn ∈ s.conns, cn.pending = true ∧ cn.inSet = false := by simpa using hall
          obtain ⟨cn, hcn, hp, hns⟩ := this
          obtain ⟨c, hc⟩ := exists_index hcn
          cases htls : cn.tls with
          | false =>
            refine ⟨.loopAccept c, rfl, rfl, ?_⟩
            simp only [step, hib, if_true]
            exact updConn_isSome hc (by simp [hp, htls])
          | true =>
            -- a TLS connection not yet handed to the handshake set: `ServerIoStream` takes it
            refine ⟨.tlsTake c, rfl, rfl, ?_⟩
            simp only [step, hib, if_true]
            exact updConn_isSome hc (by simp [hp, htls, hns])
  | false =>
    cases had : s.afterDone with
    | false => exact ⟨.afterLoop, rfl, rfl, by simp [step, hrun, had]⟩
    | true =>
      have hsent := hg.after_sent had hgr
      by_cases hw : ∃ cn ∈ s.conns, cn.watcher = true
      · obtain ⟨cn, hcn, hwt⟩ := hw
        obtain ⟨c, hc⟩ := exists_index hcn
        exact conn_progress_drains hc (hg.conns cn hcn) hwt hsent hub
      · have h0 : receiverCount s = 0 := by
          unfold receiverCount
          rw [hg.mainRx_eq, had]
          have : s.conns.countP (·.watcher) = 0 := by
            apply List.countP_eq_zero.2
            intro cn hcn hwt
            exact hw ⟨cn, hcn, hwt⟩
          simp [this]
        exact ⟨.resolve, rfl, rfl, by simp [step, had, hres, h0]⟩

theorem progress {s : State} (hg : Good s) (hgr : s.cfgGraceful = true)
    (hreq : ShutdownRequested s) (hub : Unblocked s) (hres : s.resolved = false) :
    ∃ l, l.internal = true ∧ (step s l).isSome = true := by
  obtain ⟨l, hi, _, hs⟩ := progress_drains hg hgr hreq hub hres
  exact ⟨l, hi, hs⟩

/-- Iterating `progress`: from a state satisfying a property `P` that internal steps preserve and
that guarantees progress, some finite run of internal steps reaches a resolved state. -/
theorem drain (P : State → Prop)
    (hstep : ∀ s l s', Good s → P s → l.internal = true → step s l = some s' → P s')
    (hprog : ∀ s, Good s → P s → s.resolved = false →
      ∃ l, l.internal = true ∧ l.drains = true ∧ (step s l).isSome = true) :
    ∀ (n : Nat) (s : State), weight s ≤ n → Good s → P s →
      ∃ ls s', (∀ l ∈ ls, l.internal = true ∧ l.drains = true) ∧ run s ls = some s'
        ∧ s'.resolved = true ∧ ls.length ≤ n := by
  intro n
  induction n with
  | zero =>
    intro s hw hg hp
    cases hr : s.resolved with
    | true => exact ⟨[], s, by simp, rfl, hr, by simp⟩
    | false =>
      obtain ⟨l, hi, _, hs⟩ := hprog s hg hp hr
      obtain ⟨s1, hs1⟩ := Option.isSome_iff_exists.1 hs
      have := internal_step_decreases hi hs1
      omega
  | succ n ih =>
    intro s hw hg hp
    cases hr : s.resolved with
    | true => exact ⟨[], s, by simp, rfl, hr, by simp⟩
    | false =>
      obtain ⟨l, hi, hdr, hs⟩ := hprog s hg hp hr
      obtain ⟨s1, hs1⟩ := Option.isSome_iff_exists.1 hs
      have hlt := internal_step_decreases hi hs1
      obtain ⟨ls, s', hall, hrun, hres, hlen⟩ :=
        ih s1 (by omega) (good_step hg hs1) (hstep s l s1 hg hp hi hs1)
      refine ⟨l :: ls, s', ?_, ?_, hres, by simp only [List.length_cons]; omega⟩
      · intro x hx
        rcases List.mem_cons.1 hx with rfl | hx
        · exact ⟨hi, hdr⟩
        · exact hall x hx
      · simp only [run, hs1]
        exact hrun

-- ------------------------------------------------------------------ "all closed" is stable once the loop is over

def AllClosed (s : State) : Prop := ∀ cn ∈ s.conns, cn.accepted = true → cn.closed = true

theorem allClosed_updConn {s s' : State} {c : Nat} {g : Conn → Bool} {f : Conn → Conn}
    (ha : AllClosed s) (h : updConn s c g f = some s')
    (hf : ∀ cn, g cn = true → (cn.accepted = true → cn.closed = true) →
      (f cn).accepted = true → (f cn).closed = true) : AllClosed s' := by
  obtain ⟨cn, hc, hgd, rfl⟩ := updConn_some h
  intro x hx
  rcases mem_set hx with rfl | hx
  · exact hf cn hgd (ha cn (mem_of_getElem? hc))
  · exact ha x hx

theorem allClosed_updCall {s s' : State} {c j : Nat} {g : Conn → Call → Bool} {f : Call → Call}
    (ha : AllClosed s) (h : updCall s c j g f = some s') : AllClosed s' := by
  obtain ⟨cn, k, hc, _, _, rfl⟩ := updCall_some h
  intro x hx
  rcases mem_set hx with rfl | hx
  · exact ha cn (mem_of_getElem? hc)
  · exact ha x hx

theorem allClosed_step {s s' : State} {l : Label} (hrun : s.loopRunning = false)
    (ha : AllClosed s) (hi : l.internal = true) (h : step s l = some s') : AllClosed s' := by
  cases l <;> simp only [Label.internal] at hi <;> try (exact absurd hi (by decide))
  case loopSig | loopErr | loopEnd | afterLoop =>
    simp only [step] at h
    split at h
    · cases h; exact ha
    · cases h
  case loopAccept c =>
    simp only [step, incomingBranch, hrun, Bool.false_and] at h
    simp at h
  case tlsTake c =>
    simp only [step, incomingBranch, hrun, Bool.false_and] at h
    simp at h
  case tlsDone c => exact allClosed_updConn ha h (fun _ _ hc => hc)
  case tlsFail c => exact allClosed_updConn ha h (fun _ _ hc => hc)
  case resolve =>
    simp only [step] at h
    split at h
    · cases h
      intro x hx
      obtain ⟨cn, hcn, rfl⟩ := List.mem_map.1 hx
      exact ha cn hcn
    · cases h
  case connSig c => exact allClosed_updConn ha h (fun _ _ hc => hc)
  case connAge c => exact allClosed_updConn ha h (fun _ _ hc => hc)
  case connBreak c => exact allClosed_updConn ha h (fun _ _ _ _ => rfl)
  case connDropWatcher c => exact allClosed_updConn ha h (fun _ _ hc => hc)
  case hsDone c => exact allClosed_updConn ha h (fun _ _ hc => hc)
  case final c => exact allClosed_updConn ha h (fun _ _ hc => hc)
  case callStart c j => exact allClosed_updCall ha h
  case produce c j => exact allClosed_updCall ha h
  case deliver c j => exact allClosed_updCall ha h
  case expire c j =>
    simp only [step] at h
    split at h
    · exact allClosed_updCall ha h
    · cases h

/-- with every accepted connection closed, no handler can be waiting on an open connection -/
theorem unblocked_of_allClosed {s : State} (hg : Good s) (ha : AllClosed s) : Unblocked s := by
  intro cn hcn hcl k hkm hst _ _
  have hk := hg.conns cn hcn
  have := ha cn hcn (hk.hs_acc (hk.started_hs k hkm hst))
  simp [hcl] at this

/-- decidable form of `Unblocked` -/
def unblockedB (s : State) : Bool :=
  s.conns.all fun cn => cn.closed || cn.calls.all fun k =>
    !k.started || k.cancelled || k.todo.isEmpty
      || ((decide (0 < k.permits) || s.freeRun) && k.reqReady)

theorem unblocked_of_bool {s : State} (h : unblockedB s = true) : Unblocked s := by
  intro cn hcn hcl k hk hst hcan hne
  simp only [unblockedB, List.all_eq_true, Bool.or_eq_true, Bool.not_eq_true',
    decide_eq_true_eq, List.isEmpty_iff, Bool.and_eq_true] at h
  rcases h cn hcn with h1 | h1
  · simp [hcl] at h1
  · rcases h1 k hk with ((h2 | h2) | h2) | h2
    · simp [hst] at h2
    · simp [hcan] at h2
    · exact absurd h2 hne
    · exact h2

/-- the server's own steps never touch the request side of a call -/
theorem requestsDone_step {s s' : State} {l : Label} (hd : RequestsDone s) (hi : l.internal = true)
    (h : step s l = some s') : RequestsDone s' := by
  have viaConn : ∀ {c : Nat} {g : Conn → Bool} {f : Conn → Conn},
      updConn s c g f = some s' → (∀ x, (f x).calls = x.calls) → RequestsDone s' := by
    intro c g f hu hf
    obtain ⟨cn, hc, _, rfl⟩ := updConn_some hu
    intro x hx
    rcases mem_set hx with rfl | hx
    · rw [hf]; exact hd cn (mem_of_getElem? hc)
    · exact hd x hx
  have viaCall : ∀ {c j : Nat} {g : Conn → Call → Bool} {f : Call → Call},
      updCall s c j g f = some s' →
      (∀ x, (f x).cancelled = x.cancelled ∧ (f x).reqLeft = x.reqLeft) → RequestsDone s' := by
    intro c j g f hu hf
    obtain ⟨cn, k, hc, hk, _, rfl⟩ := updCall_some hu
    intro x hx
    rcases mem_set hx with rfl | hx
    · intro y hy
      rcases mem_set hy with rfl | hy
      · intro hcan
        rw [(hf k).2]
        exact hd cn (mem_of_getElem? hc) k (mem_of_getElem? hk) ((hf k).1 ▸ hcan)
      · exact hd cn (mem_of_getElem? hc) y hy
    · exact hd x hx
  cases l <;> simp only [Label.internal] at hi <;> try (exact absurd hi (by decide))
  case loopSig | loopErr | loopEnd | afterLoop =>
    simp only [step] at h
    split at h
    · cases h; exact hd
    · cases h
  case loopAccept c =>
    simp only [step] at h
    split at h
    · exact viaConn h (fun _ => rfl)
    · cases h
  case tlsTake c =>
    simp only [step] at h
    split at h
    · exact viaConn h (fun _ => rfl)
    · cases h
  case tlsDone c => exact viaConn h (fun _ => rfl)
  case tlsFail c => exact viaConn h (fun _ => rfl)
  case resolve =>
    simp only [step] at h
    split at h
    · cases h
      intro x hx
      obtain ⟨cn, hcn, rfl⟩ := List.mem_map.1 hx
      exact hd cn hcn
    · cases h
  case connSig c => exact viaConn h (fun _ => rfl)
  case connAge c => exact viaConn h (fun _ => rfl)
  case connBreak c => exact viaConn h (fun _ => rfl)
  case connDropWatcher c => exact viaConn h (fun _ => rfl)
  case hsDone c => exact viaConn h (fun _ => rfl)
  case final c => exact viaConn h (fun _ => rfl)
  case callStart c j => exact viaCall h (fun _ => ⟨rfl, rfl⟩)
  case produce c j =>
    refine viaCall h (fun x => ?_)
    unfold Call.produce
    split <;> exact ⟨rfl, rfl⟩
  case deliver c j => exact viaCall h (fun _ => ⟨rfl, rfl⟩)
  case expire c j =>
    simp only [step] at h
    split at h
    · exact viaCall h (fun _ => ⟨rfl, rfl⟩)
    · cases h

end Shutdown
