import TonicModel.Lemmas.Reconnect
import TonicModel.Model.ReconnectAbandon
import TonicModel.Spec.ReconnectAbandon
/-
C14, abandoned calls: the model's run of any script satisfies every clause of the oracle except
the one of finding C14-F1 (`strictName`), and violates that one exactly when the attempt of an
abandoned call failed.
-/
namespace Reconnect
open ConnScript

/-! ### one request through the worker while an attempt is in progress -/

/-- The attempt in progress succeeds: the request is served by that connection; no new attempt. -/
theorem serve_connecting_connects (r : R) (rest : List Ans)
    (he : r.error = none) (hs : r.st = .connecting) :
    serve r (.ok :: .ok :: rest) =
      ({ r with st := .connected r.made, hasBeen := true }, rest, .resp r.made) := by
  simp [serve, drive, driveLoop, step, call, he, hs]

/-- The attempt in progress fails: `poll_ready` parks the error and says ready, `call` hands it to
THIS request — which made no attempt — and the state machine is idle with nothing stored. -/
theorem serve_connecting_fails (r : R) (e : Nat) (rest : List Ans)
    (he : r.error = none) (hs : r.st = .connecting) (hl : (r.hasBeen || r.isLazy) = true) :
    serve r (.err e :: rest) = ({ r with st := .idle }, rest, .err e) := by
  simp [serve, drive, driveLoop, step, call, he, hs, hl]

/-- The worker waiting for readiness on behalf of a request, nothing connected: it starts an
attempt and is `Pending` on it (the script ends there: the request is abandoned). -/
theorem drive_idle_starts (r : R) (he : r.error = none) (hs : r.st = .idle) :
    drive r [.ok] = ({ r with st := .connecting, made := r.made + 1 }, [], .pending) := by
  simp [drive, driveLoop, step, loop, he, hs]

/-- The same when the established connection has been dropped by the peer. -/
theorem drive_dead_starts (r : R) (c x : Nat) (he : r.error = none) (hs : r.st = .connected c) :
    drive r [.err x, .ok] =
      ({ r with st := .connecting, made := r.made + 1, hasBeen := true }, [], .pending) := by
  simp [drive, driveLoop, step, loop, he, hs]

end Reconnect

namespace Reconnect.Abandon
open ConnScript Reconnect Reconnect.E2E
open Spec.Reconnect (outcomeAt anyConnects callClauses nextSt liveAfter clauses holds served)
open Spec.ReconnectAbandon

/-- Every clause but the one of finding C14-F1 holds. -/
def okBut (l : List (String × Bool)) : Bool := l.all fun c => c.1 == strictName || c.2

theorem okBut_append (a b : List (String × Bool)) : okBut (a ++ b) = (okBut a && okBut b) := by
  simp [okBut, List.all_append]

theorem okBut_of_all {l : List (String × Bool)} (h : l.all (·.2) = true) : okBut l = true := by
  simp only [okBut, List.all_eq_true, Bool.or_eq_true] at *
  intro c hc
  exact Or.inr (h c hc)

/-- How the model state, the scripted world and the oracle's view hang together at a quiescent
point. -/
def Rel (outs : List Outcome) : AS → ASt → Prop
  | .normal r w, s => Inv outs r w ⟨s.live, s.a⟩ ∧ s.inProgress = none
  | .suspended r w o, s =>
    r.st = .connecting ∧ r.error = none ∧ r.made = s.a ∧ 1 ≤ s.a ∧ w.outcomes = outs.drop s.a ∧
    w.alive = none ∧ s.live = none ∧ (r.hasBeen || r.isLazy) = true ∧ o = outcomeAt outs s.a ∧
    s.inProgress = some s.a

theorem nextSt_eta (s : Spec.Reconnect.St) (res : CallRes) (a' : Nat) :
    nextSt s res a' = ⟨(nextSt s res a').live, a'⟩ := by
  simp [nextSt]

/-- An ordinary call in the normal state: the plain oracle's step lemma, re-phrased. -/
theorem normal_call_step (outs : List Outcome) (r : R) (w : World) (s : ASt)
    (h : Inv outs r w ⟨s.live, s.a⟩) (hp : s.inProgress = none) :
    okBut (stepCall outs s (callRes true w (serve r (answersFor w r)).2.2) (serve r (answersFor w r)).1.made) = true ∧
    Rel outs (.normal (serve r (answersFor w r)).1 (w.after r (serve r (answersFor w r)).1))
      (afterCall s (callRes true w (serve r (answersFor w r)).2.2) (serve r (answersFor w r)).1.made) := by
  have hstep := call_step outs r w ⟨s.live, s.a⟩ h
  refine ⟨?_, ?_⟩
  · simp only [stepCall, hp]
    exact okBut_of_all hstep.1
  · refine ⟨?_, rfl⟩
    have := hstep.2
    rw [nextSt_eta] at this
    exact this

/-- A call while an attempt is in progress. -/
theorem resumed_call_step (outs : List Outcome) (r : R) (w : World) (o : Outcome) (s : ASt)
    (h : Rel outs (.suspended r w o) s) :
    okBut (stepCall outs s (callRes true (worldOf o) (serve r (resumeAnswers r o)).2.2)
      (serve r (resumeAnswers r o)).1.made) = true ∧
    Rel outs (.normal (serve r (resumeAnswers r o)).1 { w with alive := if o.connects then some r.made else none })
      (afterCall s (callRes true (worldOf o) (serve r (resumeAnswers r o)).2.2) (serve r (resumeAnswers r o)).1.made) := by
  obtain ⟨hst, herr, hmade, hpos, houts, hal, hlive, hstored, ho, hip⟩ := h
  by_cases hc : o.connects = true
  · have hs := serve_connecting_connects r [] herr hst
    have hc' : (outcomeAt outs s.a).connects = true := by rw [← ho]; exact hc
    have hk : s.a - 1 + 1 = s.a := by omega
    simp only [resumeAnswers, hc, if_true, hs]
    refine ⟨?_, ?_⟩
    · simp only [stepCall, hip, resumedClauses, callRes, hmade, if_true, errorParts]
      apply okBut_of_all
      simp [callClauses, served, hk, hc']
      omega
    · refine ⟨⟨herr, ?_, ?_, ?_, by simp, ?_⟩, rfl⟩
      · simp [afterCall, hmade]
      · simp [afterCall, hmade, houts]
      · simp [afterCall, callRes, nextSt, hmade]
      · exact Or.inr ⟨r.made, rfl, Or.inl rfl⟩
  · have hcf : o.connects = false := by simpa using hc
    have hs := serve_connecting_fails r r.made [.ok] herr hst hstored
    have hc' : (outcomeAt outs s.a).connects = false := by rw [← ho]; exact hcf
    have hfix := statusCode_fixed o
    have hnext : (worldOf o).next = o := by simp [worldOf, World.next]
    simp only [resumeAnswers, hcf, Bool.false_eq_true, if_false, hs]
    refine ⟨?_, ?_⟩
    · simp only [stepCall, hip, resumedClauses, callRes, hmade, if_true, errorParts, errorOf, hnext, hfix]
      by_cases hr : o = .refuse <;> simp [okBut, hr, hc', unavailable, strictName]
    · refine ⟨⟨herr, ?_, ?_, ?_, hstored, ?_⟩, rfl⟩
      · simp [afterCall, hmade]
      · simp [afterCall, hmade, houts]
      · simp [afterCall, callRes, nextSt]
      · exact Or.inl ⟨rfl, rfl⟩

/-- The model's run of the steps of any script, from any related pair of states: every clause of
the oracle but `strictName` holds. -/
theorem runA_ok (outs : List Outcome) (ops : List AOp) :
    ∀ (st : AS) (s : ASt), Rel outs st s → okBut (evClausesA outs s ops (runA st ops)) = true := by
  induction ops with
  | nil => intro st s _; cases st <;> simp [runA, evClausesA, okBut]
  | cons op ops ih =>
    intro st s h
    cases st with
    | normal r w =>
      obtain ⟨hinv, hp⟩ := h
      cases op with
      | die =>
        simp only [runA, evClausesA]
        apply ih
        obtain ⟨herr, hmade, houts, halive, hstored, hshape⟩ := hinv
        refine ⟨⟨herr, hmade, houts, rfl, hstored, ?_⟩, hp⟩
        rcases hshape with ⟨hst, _⟩ | ⟨c, hst, _⟩
        · exact Or.inl ⟨hst, rfl⟩
        · exact Or.inr ⟨c, hst, Or.inr rfl⟩
      | call =>
        have hstep := normal_call_step outs r w s hinv hp
        simp only [runA, evClausesA, okBut_append, Bool.and_eq_true]
        exact ⟨hstep.1, ih _ _ hstep.2⟩
      | abandon =>
        have hinv' := hinv
        obtain ⟨herr, hmade, houts, halive, hstored, hshape⟩ := hinv
        have hnext := next_eq houts
        simp only at hmade halive hnext
        rcases hshape with ⟨hst, hal⟩ | ⟨c, hst, hal | hal⟩
        · -- idle: an attempt is started, the request is dropped
          have hlive : s.live = none := by rw [← halive]; exact hal
          have hd := drive_idle_starts r herr hst
          simp only [runA, needsAttempt, hst, if_true, startAnswers, List.nil_append, hd, evClausesA,
            okBut_append, Bool.and_eq_true]
          refine ⟨by simp [okBut, abandonClauses, hlive, hmade], ih _ _ ?_⟩
          refine ⟨rfl, herr, by simp [hmade], by simp, ?_, rfl, rfl, hstored, ?_, by simp [hmade]⟩
          · simp [houts, hmade, List.tail_drop]
          · simp [hnext, hmade]
        · -- connected and alive: an ordinary call
          have hne : needsAttempt r w = false := by simp [needsAttempt, hst, hal]
          have hstep := normal_call_step outs r w s hinv' hp
          simp only [runA, hne, Bool.false_eq_true, if_false, evClausesA, okBut_append, Bool.and_eq_true]
          exact ⟨hstep.1, ih _ _ hstep.2⟩
        · -- connected, the peer dropped it: an attempt is started, the request is dropped
          have hlive : s.live = none := by rw [← halive]; exact hal
          have hne : needsAttempt r w = true := by simp [needsAttempt, hst, hal]
          have hd := drive_dead_starts r c 0 herr hst
          simp only [runA, hne, if_true, startAnswers, hst, List.cons_append, List.nil_append, hd, evClausesA,
            okBut_append, Bool.and_eq_true]
          refine ⟨by simp [okBut, abandonClauses, hlive, hmade], ih _ _ ?_⟩
          refine ⟨rfl, herr, by simp [hmade], by simp, ?_, rfl, rfl, by simp, ?_, by simp [hmade]⟩
          · simp [houts, hmade, List.tail_drop]
          · simp [hnext, hmade]
    | suspended r w o =>
      cases op with
      | die =>
        simp only [runA, evClausesA]
        apply ih
        obtain ⟨hst, herr, hmade, hpos, houts, hal, hlive, hstored, ho, hip⟩ := h
        exact ⟨hst, herr, hmade, hpos, houts, rfl, rfl, hstored, ho, hip⟩
      | call =>
        have hstep := resumed_call_step outs r w o s h
        simp only [runA, evClausesA, okBut_append, Bool.and_eq_true]
        exact ⟨hstep.1, ih _ _ hstep.2⟩
      | abandon =>
        have hstep := resumed_call_step outs r w o s h
        simp only [runA, evClausesA, okBut_append, Bool.and_eq_true]
        exact ⟨hstep.1, ih _ _ hstep.2⟩

/-- The whole run. -/
theorem run_holdsButStrict (isLazy : Bool) (outs : List Outcome) (ops : List AOp) :
    holdsButStrict isLazy outs ops (run isLazy outs ops) = true := by
  have hplain := run_holds isLazy outs []
  have hfold : holdsButStrict isLazy outs ops (run isLazy outs ops) =
      okBut (clausesA isLazy outs ops (run isLazy outs ops)) := rfl
  rw [hfold]
  unfold clausesA
  rw [okBut_append, Bool.and_eq_true]
  have ht0 : Trace.mk (run isLazy outs ops).build (run isLazy outs ops).buildAttempts [] =
      E2E.run true isLazy outs [] := by
    unfold Abandon.run E2E.run
    cases isLazy with
    | true => simp [E2E.runOps]
    | false =>
      simp only [Bool.false_eq_true, if_false]
      split <;> simp [E2E.runOps]
  refine ⟨?_, ?_⟩
  · rw [ht0]
    exact okBut_of_all hplain
  · cases isLazy with
    | true =>
      have hb : (run true outs ops).build = .ok := by simp [Abandon.run, E2E.run]
      have ha : (run true outs ops).buildAttempts = 0 := by simp [Abandon.run, E2E.run]
      have he : (run true outs ops).evs = runA (.normal (R.init true) { outcomes := outs, alive := none }) ops := by
        simp [Abandon.run, built]
      rw [hb, ha, he]
      simp only [beq_self_eq_true, if_true]
      apply runA_ok
      exact ⟨⟨rfl, rfl, by simp, by simp [liveAfter], by simp [R.init], Or.inl ⟨rfl, rfl⟩⟩, rfl⟩
    | false =>
      have hn := head_eq_outcomeAt outs
      by_cases hc : (outcomeAt outs 1).connects = true
      · have hw : ({ outcomes := outs, alive := none } : World).next.connects = true := by rw [hn]; exact hc
        have hb : (run false outs ops).build = .ok := by
          simp [Abandon.run, E2E.run, connectEager, answersFor, R.init, hw, drive, driveLoop, step]
        have ha : (run false outs ops).buildAttempts = 1 := by
          simp [Abandon.run, E2E.run, connectEager, answersFor, R.init, hw, drive, driveLoop, step]
        have he : (run false outs ops).evs =
            runA (.normal { st := .connected 1, error := none, hasBeen := true, isLazy := false, made := 1 }
              (({ outcomes := outs, alive := none } : World).after (R.init false)
                { st := .connected 1, error := none, hasBeen := true, isLazy := false, made := 1 })) ops := by
          simp [Abandon.run, built, connectEager, answersFor, R.init, hw, drive, driveLoop, step]
        rw [hb, ha, he]
        simp only [beq_self_eq_true, if_true]
        apply runA_ok
        exact ⟨⟨rfl, rfl, by simp [World.after, R.init], by simp [World.after, R.init, hw, liveAfter, hc], by simp,
          Or.inr ⟨1, rfl, Or.inl (by simp [World.after, R.init, hw])⟩⟩, rfl⟩
      · have hw : ({ outcomes := outs, alive := none } : World).next.connects = false := by
          rw [hn]; simpa using hc
        have hb : ((run false outs ops).build == .ok) = false := by
          simp [Abandon.run, E2E.run, connectEager, answersFor, R.init, hw, drive, driveLoop, step]
        have he : (run false outs ops).evs = [] := by
          simp [Abandon.run, built, connectEager, answersFor, R.init, hw, drive, driveLoop, step]
        rw [hb, he]
        simp [okBut]

end Reconnect.Abandon
