import TonicModel.Model.Status
import TonicModel.Spec.Status
/-
Helper lemmas for C04: the wire form of a status as a pure function (`wire`), its per-name
description (`getAll_wire`), code-string parsing against the spec's table, legality of the
values written.
-/
namespace Status

/-! ### base64 / percent output is a legal header value -/

theorem b64char_legal : ∀ n : Fin 64, HMap.legalValueByte (B64.b64char n.val) = true := by decide

theorem b64_encode_legal (pad : Bool) (bs : Bytes) : HMap.legalValue (B64.encode pad bs) = true := by
  unfold HMap.legalValue
  fun_induction B64.encode pad bs with
  | case1 a b c rest ih =>
    have ha := a.toNat_lt; have hb := b.toNat_lt; have hc := c.toNat_lt
    simp only [List.all_cons, ih, Bool.and_true, Bool.and_eq_true]
    exact ⟨b64char_legal ⟨_, by omega⟩, b64char_legal ⟨a.toNat % 4 * 16 + b.toNat / 16, by omega⟩,
      b64char_legal ⟨b.toNat % 16 * 4 + c.toNat / 64, by omega⟩, b64char_legal ⟨c.toNat % 64, by omega⟩⟩
  | case2 a b =>
    have ha := a.toNat_lt; have hb := b.toNat_lt
    have h1 := b64char_legal ⟨a.toNat / 4, by omega⟩
    have h2 := b64char_legal ⟨a.toNat % 4 * 16 + b.toNat / 16, by omega⟩
    have h3 := b64char_legal ⟨b.toNat % 16 * 4, by omega⟩
    cases pad <;> simp_all [B64.PAD, HMap.legalValueByte]
  | case3 a =>
    have ha := a.toNat_lt
    have h1 := b64char_legal ⟨a.toNat / 4, by omega⟩
    have h2 := b64char_legal ⟨a.toNat % 4 * 16, by omega⟩
    cases pad <;> simp_all [B64.PAD, HMap.legalValueByte]
  | case4 => simp

theorem pct_encode_legal (bs : Bytes) : HMap.legalValue (Pct.encode bs) = true := by
  unfold HMap.legalValue
  rw [List.all_eq_true]
  intro b hb
  have := Pct.encode_visible bs b hb
  simp only [HMap.legalValueByte, Bool.or_eq_true, Bool.and_eq_true, decide_eq_true_eq, bne_iff_ne, beq_iff_eq]
  omega

/-! ### `add_header` never fails; its result as a pure function -/

/-- the header block `add_header` produces from `h0` -/
def wire (v : Variant) (st : St) (h0 : HMap) : HMap :=
  let h1 := HMap.insert GRPC_STATUS st.code.headerValue (HMap.extend h0 (statusMetadata v st.metadata))
  let h2 := if st.message = [] then h1 else HMap.insert GRPC_MESSAGE (Pct.encode st.message) h1
  if st.details = [] then h2 else HMap.insert GRPC_STATUS_DETAILS (B64.encode false st.details) h2

theorem addHeader_eq (v : Variant) (st : St) (h0 : HMap) : addHeader v st h0 = .ok (wire v st h0) := by
  unfold addHeader withMessage withDetails wire
  by_cases hm : st.message = [] <;> by_cases hd : st.details = [] <;>
    simp [hm, hd, pct_encode_legal, b64_encode_legal]

theorem names_ne :
    GRPC_STATUS ≠ GRPC_MESSAGE ∧ GRPC_STATUS ≠ GRPC_STATUS_DETAILS ∧ GRPC_MESSAGE ≠ GRPC_STATUS_DETAILS ∧
    GRPC_STATUS_DETAILS ∉ reservedHeaders ∧ GRPC_STATUS ∈ reservedHeaders ∧ GRPC_MESSAGE ∈ reservedHeaders := by
  decide

theorem getAll_sanitize (k : Bytes) (m : HMap) :
    HMap.getAll k (sanitize m) = if k ∈ reservedHeaders then [] else HMap.getAll k m :=
  HMap.getAll_removeAll k reservedHeaders m

/-- a name under which `add_header` copies metadata (repaired tree): not reserved, not the
details header -/
def isCustom (k : Bytes) : Bool := !reservedHeaders.contains k && k != GRPC_STATUS_DETAILS

theorem getAll_statusMetadata (k : Bytes) (m : HMap) :
    HMap.getAll k (statusMetadata .fixed m) = if isCustom k then HMap.getAll k m else [] := by
  unfold statusMetadata isCustom
  by_cases k3 : k = GRPC_STATUS_DETAILS
  · subst k3; simp [HMap.getAll_remove_self]
  · rw [HMap.getAll_remove_ne _ _ _ k3, getAll_sanitize]
    by_cases kr : k ∈ reservedHeaders <;> simp [kr, k3]

theorem getAll_extend' (k : Bytes) (m o : HMap) :
    HMap.getAll k (HMap.extend m o) = if HMap.getAll k o = [] then HMap.getAll k m else HMap.getAll k o := by
  rw [HMap.getAll_extend]
  by_cases h : HMap.hasKey k o = true
  · have := (HMap.hasKey_iff k o).mp h
    simp [h, this]
  · have h' : HMap.hasKey k o = false := by simpa using h
    simp [h', HMap.getAll_eq_nil_of_not_hasKey h']

/-- Per-name content of the block `add_header` makes out of `h0` (repaired tree): the three
status headers as encoded; under every custom name that the metadata has, exactly the
metadata's values in order; everything else as it was in `h0`. -/
theorem getAll_wire (st : St) (h0 : HMap) (k : Bytes) :
    HMap.getAll k (wire .fixed st h0) =
      if k = GRPC_STATUS then [st.code.headerValue]
      else if k = GRPC_MESSAGE ∧ st.message ≠ [] then [Pct.encode st.message]
      else if k = GRPC_STATUS_DETAILS ∧ st.details ≠ [] then [B64.encode false st.details]
      else if isCustom k = true ∧ HMap.getAll k st.metadata ≠ [] then HMap.getAll k st.metadata
      else HMap.getAll k h0 := by
  obtain ⟨n1, n2, n3, n4, n5, n6⟩ := names_ne
  have cS : isCustom GRPC_STATUS = false := by decide
  have cM : isCustom GRPC_MESSAGE = false := by decide
  have cD : isCustom GRPC_STATUS_DETAILS = false := by decide
  have hext : ∀ k, HMap.getAll k (HMap.extend h0 (statusMetadata .fixed st.metadata)) =
      if isCustom k = true ∧ HMap.getAll k st.metadata ≠ [] then HMap.getAll k st.metadata else HMap.getAll k h0 := by
    intro k
    rw [getAll_extend', getAll_statusMetadata]
    by_cases hc : isCustom k = true
    · by_cases hg : HMap.getAll k st.metadata = [] <;> simp [hc, hg]
    · simp [hc]
  unfold wire
  by_cases k1 : k = GRPC_STATUS
  · subst k1
    simp only [if_true]
    by_cases hm : st.message = [] <;> by_cases hd : st.details = [] <;>
      simp [hm, hd, HMap.getAll_insert_self, HMap.getAll_insert_ne _ _ _ _ n1, HMap.getAll_insert_ne _ _ _ _ n2]
  · by_cases k2 : k = GRPC_MESSAGE
    · subst k2
      simp only [k1, if_false, true_and, n3, false_and]
      by_cases hm : st.message = [] <;> by_cases hd : st.details = [] <;>
        simp [hm, hd, HMap.getAll_insert_self, HMap.getAll_insert_ne _ _ _ _ n3, HMap.getAll_insert_ne _ _ _ _ (Ne.symm n1),
          hext, cM]
    · by_cases k3 : k = GRPC_STATUS_DETAILS
      · subst k3
        simp only [k1, k2, if_false, true_and, false_and]
        by_cases hm : st.message = [] <;> by_cases hd : st.details = [] <;>
          simp [hm, hd, HMap.getAll_insert_self, HMap.getAll_insert_ne _ _ _ _ (Ne.symm n3),
            HMap.getAll_insert_ne _ _ _ _ (Ne.symm n2), hext, cD]
      · simp only [k1, k2, k3, if_false, false_and]
        by_cases hm : st.message = [] <;> by_cases hd : st.details = [] <;>
          simp [hm, hd, HMap.getAll_insert_ne _ _ _ _ k1, HMap.getAll_insert_ne _ _ _ _ k2,
            HMap.getAll_insert_ne _ _ _ _ k3, hext]

/-! ### reading -/

/-- the three status headers removed — what `from_header_map` keeps as metadata -/
def stripStatus (h : HMap) : HMap :=
  HMap.remove GRPC_STATUS_DETAILS (HMap.remove GRPC_MESSAGE (HMap.remove GRPC_STATUS h))

theorem getAll_stripStatus (k : Bytes) (h : HMap) :
    HMap.getAll k (stripStatus h) =
      if k = GRPC_STATUS ∨ k = GRPC_MESSAGE ∨ k = GRPC_STATUS_DETAILS then [] else HMap.getAll k h := by
  unfold stripStatus
  by_cases k3 : k = GRPC_STATUS_DETAILS
  · subst k3; simp [HMap.getAll_remove_self]
  · rw [HMap.getAll_remove_ne _ _ _ k3]
    by_cases k2 : k = GRPC_MESSAGE
    · subst k2; simp [HMap.getAll_remove_self]
    · rw [HMap.getAll_remove_ne _ _ _ k2]
      by_cases k1 : k = GRPC_STATUS
      · subst k1; simp [HMap.getAll_remove_self]
      · rw [HMap.getAll_remove_ne _ _ _ k1]; simp [k1, k2, k3]

/-- whenever there is a `grpc-status` header the repaired reader returns a status whose metadata
is the block minus the three status headers -/
theorem fromHeaderMap_fixed_status (h : HMap) (cv : Bytes) (hget : HMap.get GRPC_STATUS h = some cv) :
    ∃ st', fromHeaderMap .fixed h = some (.status st') ∧ st'.metadata = stripStatus h := by
  unfold fromHeaderMap stripStatus
  simp only [hget]
  split <;> (refine ⟨_, rfl, ?_⟩; rfl)

/-! ### code strings -/

theorem codeOfString_none (bs : Bytes) (h : ∀ n : Fin 17, decimal n.val ≠ bs) :
    Spec.Status.codeOfString bs = none := by
  unfold Spec.Status.codeOfString
  rw [List.find?_eq_none]
  intro n hn
  have hn' : n < 17 := List.mem_range.mp hn
  have := h ⟨n, hn'⟩
  simpa using this

theorem decimal_shape : ∀ n : Fin 17,
    (decimal n.val).length = 1 ∨ ((decimal n.val).length = 2 ∧ (decimal n.val).head? = some 49) := by decide

theorem parse1 : ∀ n : Fin 256,
    (Code.fromBytes [UInt8.ofNat n.val]).num = Spec.Status.readCode [UInt8.ofNat n.val] := by decide +kernel

theorem parse2 : ∀ n : Fin 256,
    (Code.fromBytes [49, UInt8.ofNat n.val]).num = Spec.Status.readCode [49, UInt8.ofNat n.val] := by decide +kernel

theorem u8_ofNat_toNat (a : UInt8) : UInt8.ofNat a.toNat = a := by simp

/-- The `grpc-status` parser agrees with the spec's table on every byte string: the 17
canonical decimals give their code, everything else UNKNOWN. -/
theorem fromBytes_is_spec (bs : Bytes) : (Code.fromBytes bs).num = Spec.Status.readCode bs := by
  match bs with
  | [] => decide
  | [a] =>
    have := parse1 ⟨a.toNat, a.toNat_lt⟩
    simpa [u8_ofNat_toNat] using this
  | [a, b] =>
    by_cases ha : a = 49
    · subst ha
      have := parse2 ⟨b.toNat, b.toNat_lt⟩
      simpa [u8_ofNat_toNat] using this
    · have hs : Spec.Status.codeOfString [a, b] = none := by
        apply codeOfString_none
        intro n hn
        rcases decimal_shape n with h1 | ⟨_, h2⟩
        · rw [hn] at h1; simp at h1
        · rw [hn] at h2; simp at h2; exact ha h2
      simp [Code.fromBytes, ha, Spec.Status.readCode, hs, Code.num, Spec.Status.UNKNOWN]
  | a :: b :: c :: rest =>
    have hs : Spec.Status.codeOfString (a :: b :: c :: rest) = none := by
      apply codeOfString_none
      intro n hn
      rcases decimal_shape n with h1 | ⟨h1, _⟩ <;> (rw [hn] at h1; simp at h1)
    simp [Code.fromBytes, Spec.Status.readCode, hs, Code.num, Spec.Status.UNKNOWN]

end Status
