import TonicModel.Model.Framing
import TonicModel.Spec.Framing
/-
Refinement of the streaming decoder model to the reference batch decoder
(`Spec.Framing.batch`): what `decodeChunk` does to a buffer is what `batch` does to the same
bytes followed by *any* continuation `X`.
-/
namespace Framing
open Spec.Framing
variable {α : Type}

def recvOf (cd : Codec α) (cfg : DecCfg) : Recv α where
  limit := cfg.limit
  hasEnc := cfg.enc.isSome
  dz := fun b => match cfg.enc with | some e => cd.dz e b | none => none
  de := cd.de

def stOfBad (cd : Codec α) : Bad → St
  | .flag => ⟨13, .badFlag⟩
  | .noEncoding => ⟨13, .noEncoding⟩
  | .tooLarge => ⟨11, .tooLargeDec⟩
  | .decompress => ⟨13, .decompress⟩
  | .codec => ⟨cd.deErr, .codec⟩

/-- A `body` phase remembers either "identity" or the negotiated encoding. -/
def PhaseOk (cfg : DecCfg) (s : DecSt) : Prop :=
  match s.ph with
  | .hdr => True
  | .body _ comp => comp = none ∨ comp = cfg.enc
  | .failed _ => False

/-- The reference decoder's verdict on the buffer followed by `X`. -/
def specFrom (cd : Codec α) (cfg : DecCfg) (s : DecSt) (X : Bytes) : List α × Stop :=
  match s.ph with
  | .hdr => batch (recvOf cd cfg) (s.buf ++ X)
  | .body len comp => batchBody (recvOf cd cfg) len comp.isSome (s.buf ++ X)
  | .failed _ => ([], .clean)

def consRes (m : α) (r : List α × Stop) : List α × Stop := (m :: r.1, r.2)

theorem be32_eq_readU32 (a b c d : UInt8) : be32 a b c d = readU32 a b c d := by
  simp only [be32, readU32]; omega

/-- What `decodeChunk` guarantees, by result kind. -/
def ChunkGood (cd : Codec α) (cfg : DecCfg) (s s' : DecSt) (r : DC α) : Prop :=
  s'.trailers = s.trailers ∧
  match r with
  | .item m => PhaseOk cfg s' ∧ ∀ X, specFrom cd cfg s X = consRes m (specFrom cd cfg s' X)
  | .fail st => ∃ b, stOfBad cd b = st ∧ ∀ X, specFrom cd cfg s X = ([], .bad b)
  | .more => PhaseOk cfg s' ∧ (∀ X, specFrom cd cfg s X = specFrom cd cfg s' X) ∧
      ((s'.buf = [] ∧ s'.ph = .hdr ∧ specFrom cd cfg s' [] = ([], .clean)) ∨
       specFrom cd cfg s' [] = ([], .incomplete))

theorem take_append_of_le {l : Bytes} {n : Nat} (h : n ≤ l.length) (X : Bytes) :
    (l ++ X).take n = l.take n := by
  rw [List.take_append_of_le_length h]

theorem drop_append_of_le {l : Bytes} {n : Nat} (h : n ≤ l.length) (X : Bytes) :
    (l ++ X).drop n = l.drop n ++ X := by
  rw [List.drop_append_of_le_length h]

theorem readBody_good (cd : Codec α) (cfg : DecCfg) (s : DecSt) (len : Nat) (comp : Option Enc)
    (hc : comp = none ∨ comp = cfg.enc) :
    ChunkGood cd cfg { s with ph := .body len comp } (Dec.readBody cd s len comp).1
      (Dec.readBody cd s len comp).2 := by
  unfold Dec.readBody
  by_cases hlt : s.buf.length < len
  · simp only [hlt, ↓reduceIte, ChunkGood, PhaseOk, true_and]
    refine ⟨hc, by simp, Or.inr ?_⟩
    simp [specFrom, batchBody, Spec.Framing.payload, hlt]
  · have hge : len ≤ s.buf.length := by omega
    simp only [hlt, ↓reduceIte]
    have hpay : ∀ (c : Bool) (X : Bytes), Spec.Framing.payload (recvOf cd cfg) len c (s.buf ++ X)
        = Spec.Framing.payload (recvOf cd cfg) len c s.buf := by
      intro c X
      have : ¬ (s.buf ++ X).length < len := by simp; omega
      simp only [Spec.Framing.payload, this, hlt, ↓reduceIte, take_append_of_le hge]
    cases comp with
    | none =>
      cases hde : cd.de (s.buf.take len) with
      | none =>
        have hp : Spec.Framing.payload (recvOf cd cfg) len false s.buf = .error (.bad .codec) := by
          simp [Spec.Framing.payload, hlt, recvOf, hde]
        simp only [ChunkGood, true_and]
        refine ⟨.codec, rfl, fun X => ?_⟩
        simp only [specFrom, batchBody, Option.isSome_none, hpay, hp]
      | some m =>
        have hp : Spec.Framing.payload (recvOf cd cfg) len false s.buf = .ok m := by
          simp [Spec.Framing.payload, hlt, recvOf, hde]
        simp only [ChunkGood, PhaseOk, true_and]
        intro X
        simp only [specFrom, batchBody, Option.isSome_none, hpay, hp, consRes, drop_append_of_le hge]
    | some e =>
      have hce : cfg.enc = some e := by
        rcases hc with h | h
        · cases h
        · exact h.symm
      dsimp only
      cases hdz : cd.dz e (s.buf.take len) with
      | none =>
        have hp : Spec.Framing.payload (recvOf cd cfg) len true s.buf = .error (.bad .decompress) := by
          simp [Spec.Framing.payload, hlt, recvOf, hce, hdz]
        simp only [ChunkGood, true_and]
        refine ⟨.decompress, rfl, fun X => ?_⟩
        simp only [specFrom, batchBody, Option.isSome_some, hpay, hp]
      | some raw =>
        dsimp only
        cases hde : cd.de raw with
        | none =>
          have hp : Spec.Framing.payload (recvOf cd cfg) len true s.buf = .error (.bad .codec) := by
            simp [Spec.Framing.payload, hlt, recvOf, hce, hdz, hde]
          simp only [ChunkGood, true_and]
          refine ⟨.codec, rfl, fun X => ?_⟩
          simp only [specFrom, batchBody, Option.isSome_some, hpay, hp]
        | some m =>
          have hp : Spec.Framing.payload (recvOf cd cfg) len true s.buf = .ok m := by
            simp [Spec.Framing.payload, hlt, recvOf, hce, hdz, hde]
          simp only [ChunkGood, PhaseOk, true_and]
          intro X
          simp only [specFrom, batchBody, Option.isSome_some, hpay, hp, consRes, drop_append_of_le hge]


theorem batch_cons5 (p : Recv α) (f a b c d : UInt8) (r : Bytes) :
    batch p (f :: a :: b :: c :: d :: r) =
      match header p f (be32 a b c d) with
      | .error e => ([], .bad e)
      | .ok comp => batchBody p (be32 a b c d) comp r := by
  rw [batch]
  cases header p f (be32 a b c d) with
  | error e => rfl
  | ok comp => simp only [batchBody]

theorem batch_nil (p : Recv α) : batch p [] = ([], .clean) := by rw [batch]

theorem batch_short (p : Recv α) (bs : Bytes) (h1 : bs ≠ []) (h5 : bs.length < 5) :
    batch p bs = ([], .incomplete) := by
  match bs, h1, h5 with
  | [_], _, _ => rw [batch] <;> simp
  | [_, _], _, _ => rw [batch] <;> simp
  | [_, _, _], _, _ => rw [batch] <;> simp
  | [_, _, _, _], _, _ => rw [batch] <;> simp
  | _ :: _ :: _ :: _ :: _ :: _, _, h => simp at h; omega

theorem ChunkGood_congr (cd : Codec α) (cfg : DecCfg) (s s0 s' : DecSt) (r : DC α)
    (ht : s.trailers = s0.trailers) (hx : ∀ X, specFrom cd cfg s X = specFrom cd cfg s0 X)
    (h : ChunkGood cd cfg s0 s' r) : ChunkGood cd cfg s s' r := by
  obtain ⟨h1, h2⟩ := h
  refine ⟨h1.trans ht.symm, ?_⟩
  cases r with
  | item m => exact ⟨h2.1, fun X => (hx X).trans (h2.2 X)⟩
  | fail st =>
    obtain ⟨b, hb, hX⟩ := h2
    exact ⟨b, hb, fun X => (hx X).trans (hX X)⟩
  | more => exact ⟨h2.1, fun X => (hx X).trans (h2.2.1 X), h2.2.2⟩

theorem decodeChunk_good (cd : Codec α) (cfg : DecCfg) (s : DecSt) (h : PhaseOk cfg s) :
    ChunkGood cd cfg s (Dec.decodeChunk cd cfg s).1 (Dec.decodeChunk cd cfg s).2 := by
  obtain ⟨buf, ph, tr⟩ := s
  cases ph with
  | failed st => exact absurd h (by simp [PhaseOk])
  | body len comp =>
    simp only [Dec.decodeChunk]
    exact readBody_good cd cfg ⟨buf, .body len comp, tr⟩ len comp (by simpa [PhaseOk] using h)
  | hdr =>
    have short : buf.length < 5 → ChunkGood cd cfg ⟨buf, .hdr, tr⟩ ⟨buf, .hdr, tr⟩ .more := by
      intro hs
      refine ⟨rfl, by simp [PhaseOk], fun _ => rfl, ?_⟩
      by_cases hb : buf = []
      · left; subst hb; simp [specFrom, batch_nil]
      · right; simp [specFrom, batch_short _ _ hb hs]
    match buf with
    | [] => simpa [Dec.decodeChunk] using short (by simp)
    | [_] => simpa [Dec.decodeChunk] using short (by simp)
    | [_, _] => simpa [Dec.decodeChunk] using short (by simp)
    | [_, _, _] => simpa [Dec.decodeChunk] using short (by simp)
    | [_, _, _, _] => simpa [Dec.decodeChunk] using short (by simp)
    | f :: a :: b :: c :: d :: rest =>
      simp only [Dec.decodeChunk]
      have hspec : ∀ X, specFrom cd cfg ⟨f :: a :: b :: c :: d :: rest, .hdr, tr⟩ X =
          match header (recvOf cd cfg) f (readU32 a b c d) with
          | .error e => ([], .bad e)
          | .ok comp => batchBody (recvOf cd cfg) (readU32 a b c d) comp (rest ++ X) := by
        intro X
        simp only [specFrom, List.cons_append, batch_cons5, be32_eq_readU32]
      -- the common continuation once a header is accepted with compression `comp`
      have proceed : ∀ (comp : Option Enc), (comp = none ∨ comp = cfg.enc) →
          header (recvOf cd cfg) f (readU32 a b c d) =
            (if readU32 a b c d > cfg.limit then .error .tooLarge else .ok comp.isSome) →
          ChunkGood cd cfg ⟨f :: a :: b :: c :: d :: rest, .hdr, tr⟩
            (if readU32 a b c d > cfg.limit then
              (({ buf := rest, ph := .hdr, trailers := tr } : DecSt), (DC.fail ⟨11, .tooLargeDec⟩ : DC α))
             else Dec.readBody cd { buf := rest, ph := .hdr, trailers := tr } (readU32 a b c d) comp).1
            (if readU32 a b c d > cfg.limit then
              (({ buf := rest, ph := .hdr, trailers := tr } : DecSt), (DC.fail ⟨11, .tooLargeDec⟩ : DC α))
             else Dec.readBody cd { buf := rest, ph := .hdr, trailers := tr } (readU32 a b c d) comp).2 := by
        intro comp hc hh
        by_cases hl : readU32 a b c d > cfg.limit
        · simp only [hl, ↓reduceIte]
          refine ⟨rfl, .tooLarge, rfl, fun X => ?_⟩
          rw [hspec X, hh]; simp [hl]
        · simp only [hl, ↓reduceIte]
          refine ChunkGood_congr cd cfg _ ⟨rest, .body (readU32 a b c d) comp, tr⟩ _ _ rfl ?_
            (readBody_good cd cfg ⟨rest, .hdr, tr⟩ (readU32 a b c d) comp hc)
          intro X
          rw [hspec X, hh]; simp [hl, specFrom]
      by_cases h0 : f = 0
      · subst h0
        simp only [↓reduceIte]
        exact proceed none (Or.inl rfl) (by simp [header, recvOf])
      · by_cases h1 : f = 1
        · subst h1
          simp only [h0, ↓reduceIte]
          cases he : cfg.enc with
          | none =>
            refine ⟨rfl, .noEncoding, rfl, fun X => ?_⟩
            rw [hspec X]; simp [header, recvOf, he]
          | some e =>
            have := proceed (some e) (Or.inr he.symm) (by simp [header, recvOf, he])
            simpa using this
        · simp only [h0, h1, ↓reduceIte]
          refine ⟨rfl, .flag, rfl, fun X => ?_⟩
          rw [hspec X]; simp [header, h0, h1]


/-- all data bytes an event list will ever deliver -/
def dataOf : List BodyEv → Bytes
  | [] => []
  | .data b :: r => b ++ dataOf r
  | _ :: r => dataOf r

/-- the data bytes the decoder takes into its buffer: all of them, except for a response whose
HTTP status is not 200 (`DecCfg.skipsBody`), whose body is dropped unread -/
def accepted (cfg : DecCfg) : List BodyEv → Bytes
  | [] => []
  | .data b :: r => cfg.accept b ++ accepted cfg r
  | _ :: r => accepted cfg r

theorem accept_keep {cfg : DecCfg} (h : cfg.skipsBody = false) (c : Bytes) : cfg.accept c = c := by
  simp [DecCfg.accept, h]

theorem accept_skip {cfg : DecCfg} (h : cfg.skipsBody = true) (c : Bytes) : cfg.accept c = [] := by
  simp [DecCfg.accept, h]

/-- requests, `Streaming::new_empty` and 200 responses: everything delivered is decoded -/
theorem accepted_keep {cfg : DecCfg} (h : cfg.skipsBody = false) (evs : List BodyEv) :
    accepted cfg evs = dataOf evs := by
  induction evs with
  | nil => rfl
  | cons ev r ih => cases ev <;> simp [accepted, dataOf, ih, accept_keep h]

/-- a non-200 response: nothing is -/
theorem accepted_skip {cfg : DecCfg} (h : cfg.skipsBody = true) (evs : List BodyEv) :
    accepted cfg evs = [] := by
  induction evs with
  | nil => rfl
  | cons ev r ih => cases ev <;> simp [accepted, ih, accept_skip h]

theorem specFrom_push (cd : Codec α) (cfg : DecCfg) (s : DecSt) (c X : Bytes) :
    specFrom cd cfg { s with buf := s.buf ++ c } X = specFrom cd cfg s (c ++ X) := by
  simp only [specFrom]
  cases s.ph <;> simp [List.append_assoc]

theorem specFrom_trailers (cd : Codec α) (cfg : DecCfg) (s : DecSt) (t : Option Tr) (X : Bytes) :
    specFrom cd cfg { s with trailers := t } X = specFrom cd cfg s X := by
  simp only [specFrom]

/-- What `Dec.pre` guarantees from a non-failed state. -/
def PreGood (cd : Codec α) (cfg : DecCfg) (s : DecSt) : Pre α → Prop
  | .out s' (.msg m) => PhaseOk cfg s' ∧ s'.trailers = s.trailers ∧
      ∀ X, specFrom cd cfg s X = consRes m (specFrom cd cfg s' X)
  | .out s' (.err st) => s'.ph = .failed none ∧ ∃ b, stOfBad cd b = st ∧ ∀ X, specFrom cd cfg s X = ([], .bad b)
  | .out _ _ => False
  | .need s' => PhaseOk cfg s' ∧ s'.trailers = s.trailers ∧ (∀ X, specFrom cd cfg s X = specFrom cd cfg s' X) ∧
      ((s'.buf = [] ∧ s'.ph = .hdr ∧ specFrom cd cfg s' [] = ([], .clean)) ∨
       specFrom cd cfg s' [] = ([], .incomplete))

theorem pre_good (cd : Codec α) (cfg : DecCfg) (s : DecSt) (h : PhaseOk cfg s) :
    PreGood cd cfg s (Dec.pre cd cfg s) := by
  have hg := decodeChunk_good cd cfg s h
  unfold Dec.pre
  have hph : ∀ st, s.ph ≠ .failed st := by
    intro st hst; simp [PhaseOk, hst] at h
  split
  · rename_i st hst; exact absurd hst (hph st)
  · generalize Dec.decodeChunk cd cfg s = r at hg
    obtain ⟨s', dc⟩ := r
    cases dc with
    | item m => exact ⟨hg.2.1, hg.1, hg.2.2⟩
    | fail st => exact ⟨rfl, hg.2⟩
    | more => exact ⟨hg.2.1, hg.1, hg.2.2.1, hg.2.2.2⟩

/-- What one `poll_next` guarantees, for an arbitrary event list. -/
def PollGood (cd : Codec α) (cfg : DecCfg) (s : DecSt) (evs : List BodyEv)
    (s' : DecSt) (evs' : List BodyEv) (o : Item α) : Prop :=
  evs'.length ≤ evs.length ∧
  match o with
  | .msg m => PhaseOk cfg s' ∧
      specFrom cd cfg s (accepted cfg evs) = consRes m (specFrom cd cfg s' (accepted cfg evs'))
  | .pending => PhaseOk cfg s' ∧ evs'.length < evs.length ∧
      specFrom cd cfg s (accepted cfg evs) = specFrom cd cfg s' (accepted cfg evs')
  | .none => PhaseOk cfg s' ∧ specFrom cd cfg s (accepted cfg evs) = specFrom cd cfg s' (accepted cfg evs')
  | .err _ => s'.ph = .failed none

theorem finish_good (cd : Codec α) (cfg : DecCfg) (s0 s : DecSt) (evs0 evs : List BodyEv)
    (hp : PhaseOk cfg s) (hl : evs.length ≤ evs0.length)
    (hx : specFrom cd cfg s0 (accepted cfg evs0) = specFrom cd cfg s (accepted cfg evs)) :
    PollGood cd cfg s0 evs0 (Dec.finish (α := α) cfg s evs).1 (Dec.finish (α := α) cfg s evs).2.1
      (Dec.finish (α := α) cfg s evs).2.2 := by
  unfold Dec.finish
  cases Dec.response cfg s with
  | none => exact ⟨hl, hp, hx⟩
  | some e => exact ⟨hl, rfl⟩

theorem pollNext_good (cd : Codec α) (cfg : DecCfg) (evs : List BodyEv) : ∀ (s : DecSt),
    PhaseOk cfg s →
    PollGood cd cfg s evs (Dec.pollNext cd cfg s evs).1 (Dec.pollNext cd cfg s evs).2.1
      (Dec.pollNext cd cfg s evs).2.2 := by
  induction evs with
  | nil =>
    intro s h
    have hp := pre_good cd cfg s h
    unfold Dec.pollNext
    generalize Dec.pre cd cfg s = r at hp
    cases r with
    | out s' o =>
      cases o with
      | msg m => exact ⟨Nat.le_refl _, hp.1, hp.2.2 _⟩
      | err st => exact ⟨Nat.le_refl _, hp.1⟩
      | none => exact absurd hp (by simp [PreGood])
      | pending => exact absurd hp (by simp [PreGood])
    | need s' =>
      obtain ⟨hok, _, hx, _⟩ := hp
      dsimp only
      by_cases hb : s'.buf.isEmpty
      · simp only [hb, ↓reduceIte]
        exact finish_good cd cfg s s' [] [] hok (Nat.le_refl _) (hx _)
      · simp only [hb]
        exact ⟨Nat.le_refl _, rfl⟩
  | cons ev rest ih =>
    intro s h
    have hp := pre_good cd cfg s h
    unfold Dec.pollNext
    generalize Dec.pre cd cfg s = r at hp
    cases r with
    | out s' o =>
      cases o with
      | msg m => exact ⟨Nat.le_refl _, hp.1, hp.2.2 _⟩
      | err st => exact ⟨Nat.le_refl _, hp.1⟩
      | none => exact absurd hp (by simp [PreGood])
      | pending => exact absurd hp (by simp [PreGood])
    | need s' =>
      obtain ⟨hok, _, hx, _⟩ := hp
      dsimp only
      cases ev with
      | pending =>
        exact ⟨by simp, hok, by simp, by simpa [accepted] using hx _⟩
      | data c =>
        have hok' : PhaseOk cfg { s' with buf := s'.buf ++ cfg.accept c } := by
          simpa [PhaseOk] using hok
        have := ih _ hok'
        rcases hr : Dec.pollNext cd cfg ⟨s'.buf ++ cfg.accept c, s'.ph, s'.trailers⟩ rest with ⟨s2, evs2, o⟩
        rw [hr] at this
        simp only [hr]
        obtain ⟨hl, hcase⟩ := this
        dsimp only at hl hcase ⊢
        refine ⟨by simp; omega, ?_⟩
        have hx' : specFrom cd cfg s (accepted cfg (.data c :: rest))
            = specFrom cd cfg { s' with buf := s'.buf ++ cfg.accept c } (accepted cfg rest) := by
          rw [specFrom_push]; simpa [accepted] using hx _
        cases o with
        | msg m => exact ⟨hcase.1, hx'.trans hcase.2⟩
        | pending => exact ⟨hcase.1, by simp; omega, hx'.trans hcase.2.2⟩
        | none => exact ⟨hcase.1, hx'.trans hcase.2⟩
        | err st => exact hcase
      | trailers t =>
        refine finish_good cd cfg s _ _ rest (by simpa [PhaseOk] using hok) (by simp) ?_
        have : specFrom cd cfg ⟨s'.buf, s'.ph, mergeTr s'.trailers t⟩ (accepted cfg rest)
            = specFrom cd cfg s' (accepted cfg rest) := by simp only [specFrom]
        rw [this]; simpa [accepted] using hx _
      | err st =>
        by_cases hc : cfg.dir = .request ∧ st.code = 1
        · simp only [hc, and_self, ↓reduceIte]
          exact finish_good cd cfg s s' _ rest hok (by simp) (by simpa [accepted] using hx _)
        · simp only [hc, ↓reduceIte]
          exact ⟨by simp, rfl⟩


/-! ### Complete drains of well-behaved bodies (data/pending events, optional final trailers) -/

def CleanEvs : List BodyEv → Bool
  | [] => true
  | [.trailers _] => true
  | .data _ :: r => CleanEvs r
  | .pending :: r => CleanEvs r
  | _ => false

/-- the trailers the stream will hold once the body has been read to its end -/
def endTr (tr : Option Tr) : List BodyEv → Option Tr
  | [] => tr
  | .trailers t :: _ => mergeTr tr t
  | _ :: r => endTr tr r

/-- `Dec.response` only looks at the trailers -/
def respTr (cfg : DecCfg) (tr : Option Tr) : Option St :=
  match cfg.dir with
  | .response http => inferStatus tr http
  | _ => none

theorem response_eq (cfg : DecCfg) (s : DecSt) : Dec.response cfg s = respTr cfg s.trailers := rfl

def EndOk (cfg : DecCfg) (s : DecSt) (evs : List BodyEv) : Prop :=
  respTr cfg (endTr s.trailers evs) = none

def CleanPoll (cd : Codec α) (cfg : DecCfg) (s : DecSt) (evs : List BodyEv) (ms : List α)
    (s' : DecSt) (evs' : List BodyEv) (o : Item α) : Prop :=
  CleanEvs evs' = true ∧ PhaseOk cfg s' ∧ EndOk cfg s' evs' ∧
  match o with
  | .msg m => ∃ ms', ms = m :: ms' ∧ specFrom cd cfg s' (accepted cfg evs') = (ms', .clean) ∧
      evs'.length ≤ evs.length
  | .pending => specFrom cd cfg s' (accepted cfg evs') = (ms, .clean) ∧ evs'.length < evs.length
  | .none => ms = [] ∧ evs' = [] ∧ specFrom cd cfg s' [] = ([], .clean)
  | .err _ => False

theorem consRes_inj {m : α} {r : List α × Stop} {ms : List α} {st : Stop}
    (h : consRes m r = (ms, st)) : ∃ ms', ms = m :: ms' ∧ r = (ms', st) := by
  obtain ⟨a, b⟩ := r
  simp only [consRes, Prod.mk.injEq] at h
  exact ⟨a, h.1.symm, by simp [h.2]⟩

theorem finish_clean (cd : Codec α) (cfg : DecCfg) (s0 : DecSt) (evs0 : List BodyEv) (ms : List α)
    (s : DecSt) (hp : PhaseOk cfg s) (he : Dec.response cfg s = none)
    (hx : specFrom cd cfg s [] = (ms, .clean))
    (hstarved : (s.buf = [] ∧ s.ph = .hdr ∧ specFrom cd cfg s [] = ([], .clean)) ∨
       specFrom cd cfg s [] = ([], .incomplete)) :
    CleanPoll cd cfg s0 evs0 ms (Dec.finish (α := α) cfg s []).1 (Dec.finish (α := α) cfg s []).2.1
      (Dec.finish (α := α) cfg s []).2.2 := by
  unfold Dec.finish
  rw [he]
  have hms : ms = [] := by
    rcases hstarved with ⟨_, _, h⟩ | h
    · rw [h] at hx; exact (Prod.mk.inj hx).1.symm
    · rw [h] at hx; exact absurd (Prod.mk.inj hx).2 (by simp)
  subst hms
  exact ⟨rfl, hp, by simpa [EndOk, endTr, response_eq] using he, rfl, rfl, hx⟩

theorem pollNext_clean (cd : Codec α) (cfg : DecCfg) (evs : List BodyEv) : ∀ (s : DecSt) (ms : List α),
    PhaseOk cfg s → CleanEvs evs = true → EndOk cfg s evs →
    specFrom cd cfg s (accepted cfg evs) = (ms, .clean) →
    CleanPoll cd cfg s evs ms (Dec.pollNext cd cfg s evs).1 (Dec.pollNext cd cfg s evs).2.1
      (Dec.pollNext cd cfg s evs).2.2 := by
  induction evs with
  | nil =>
    intro s ms h hc he hx
    have hp := pre_good cd cfg s h
    unfold Dec.pollNext
    generalize Dec.pre cd cfg s = r at hp
    cases r with
    | out s' o =>
      cases o with
      | msg m =>
        obtain ⟨hok, htr, hX⟩ := hp
        rw [hX] at hx
        obtain ⟨ms', rfl, hr⟩ := consRes_inj hx
        exact ⟨rfl, hok, by simpa [EndOk, endTr, htr] using he, ms', rfl, hr, Nat.le_refl _⟩
      | err st =>
        obtain ⟨_, b, _, hX⟩ := hp
        rw [hX] at hx; exact absurd (Prod.mk.inj hx).2 (by simp)
      | none => exact absurd hp (by simp [PreGood])
      | pending => exact absurd hp (by simp [PreGood])
    | need s' =>
      obtain ⟨hok, htr, hX, hst⟩ := hp
      dsimp only
      have hx' : specFrom cd cfg s' [] = (ms, .clean) := by rw [← hX]; simpa [accepted] using hx
      have hbuf : s'.buf.isEmpty = true := by
        rcases hst with ⟨hb, _, _⟩ | hinc
        · simp [hb]
        · rw [hinc] at hx'; exact absurd (Prod.mk.inj hx').2 (by simp)
      simp only [hbuf, ↓reduceIte]
      refine finish_clean cd cfg s [] ms s' hok ?_ hx' hst
      simp only [EndOk, endTr] at he
      simpa [response_eq, htr] using he
  | cons ev rest ih =>
    intro s ms h hc he hx
    have hp := pre_good cd cfg s h
    unfold Dec.pollNext
    generalize Dec.pre cd cfg s = r at hp
    cases r with
    | out s' o =>
      cases o with
      | msg m =>
        obtain ⟨hok, htr, hX⟩ := hp
        rw [hX] at hx
        obtain ⟨ms', rfl, hr⟩ := consRes_inj hx
        exact ⟨hc, hok, by simpa [EndOk, htr] using he, ms', rfl, hr, Nat.le_refl _⟩
      | err st =>
        obtain ⟨_, b, _, hX⟩ := hp
        rw [hX] at hx; exact absurd (Prod.mk.inj hx).2 (by simp)
      | none => exact absurd hp (by simp [PreGood])
      | pending => exact absurd hp (by simp [PreGood])
    | need s' =>
      obtain ⟨hok, htr, hX, hst⟩ := hp
      dsimp only
      cases ev with
      | pending =>
        refine ⟨by simpa [CleanEvs] using hc, hok, ?_, ?_, by simp⟩
        · simpa [EndOk, endTr, htr] using he
        · rw [← hX]; simpa [accepted] using hx
      | data c =>
        have hok' : PhaseOk cfg ⟨s'.buf ++ cfg.accept c, s'.ph, s'.trailers⟩ := by simpa [PhaseOk] using hok
        have hx' : specFrom cd cfg ⟨s'.buf ++ cfg.accept c, s'.ph, s'.trailers⟩ (accepted cfg rest) = (ms, .clean) := by
          have := specFrom_push cd cfg s' (cfg.accept c) (accepted cfg rest)
          rw [this, ← hX]; simpa [accepted] using hx
        have := ih ⟨s'.buf ++ cfg.accept c, s'.ph, s'.trailers⟩ ms hok' (by simpa [CleanEvs] using hc)
          (by simpa [EndOk, endTr, htr] using he) hx'
        rcases hr : Dec.pollNext cd cfg ⟨s'.buf ++ cfg.accept c, s'.ph, s'.trailers⟩ rest with ⟨s2, evs2, o⟩
        rw [hr] at this
        simp only [hr]
        obtain ⟨h1, h2, h3, h4⟩ := this
        dsimp only at h1 h2 h3 h4 ⊢
        refine ⟨h1, h2, h3, ?_⟩
        cases o with
        | msg m =>
          obtain ⟨ms', e1, e2, e3⟩ := h4
          exact ⟨ms', e1, e2, by simp; omega⟩
        | pending => exact ⟨h4.1, by simp; omega⟩
        | none => exact h4
        | err st => exact h4
      | trailers t =>
        have hrest : rest = [] := by
          cases rest with
          | nil => rfl
          | cons _ _ => simp [CleanEvs] at hc
        subst hrest
        have hx' : specFrom cd cfg ⟨s'.buf, s'.ph, mergeTr s'.trailers t⟩ [] = (ms, .clean) := by
          have : specFrom cd cfg ⟨s'.buf, s'.ph, mergeTr s'.trailers t⟩ []
              = specFrom cd cfg s' [] := by simp only [specFrom]
          rw [this, ← hX]; simpa [accepted] using hx
        refine finish_clean cd cfg s _ ms ⟨s'.buf, s'.ph, mergeTr s'.trailers t⟩
          (by simpa [PhaseOk] using hok) ?_ hx' ?_
        · simpa [EndOk, endTr, response_eq, htr] using he
        · have e : ∀ X, specFrom cd cfg ⟨s'.buf, s'.ph, mergeTr s'.trailers t⟩ X = specFrom cd cfg s' X := by
            intro X; simp only [specFrom]
          rcases hst with ⟨hb, hph, hcl⟩ | hinc
          · exact Or.inl ⟨hb, hph, by rw [e]; exact hcl⟩
          · exact Or.inr (by rw [e]; exact hinc)
      | err st => simp [CleanEvs] at hc

end Framing
