import TonicModel.Model.Call
import TonicModel.Lemmas.FramingWire
import TonicModel.Lemmas.Status
/-
Lemmas for the end-to-end call model (C02), part 1: the decoder side.
What the framing lemmas give for clean bodies that end without an error (`pollNext_clean`,
`run_clean`) is extended here to bodies whose trailers carry an error status, with the trailers
the stream holds at its end tracked explicitly; then lifted to `nextItem` / `readN` / `drain`.
-/
namespace Call
open Framing Spec.Framing
variable {α : Type}

/-- what the stream yields once the body has been read to its end -/
def endOf (cfg : DecCfg) (tr : Option Tr) : Ended :=
  match respTr cfg tr with
  | none => .done
  | some e => .err e

/-- What one `poll_next` does on a clean body (data/`Pending`, then at most one trailers frame)
whose bytes the reference decoder reads as `ms` followed by a clean end. -/
def EndPoll (cd : Codec α) (cfg : DecCfg) (s : DecSt) (evs : List BodyEv) (ms : List α)
    (s' : DecSt) (evs' : List BodyEv) (o : Item α) : Prop :=
  match o with
  | .msg m => ∃ ms', ms = m :: ms' ∧ PhaseOk cfg s' ∧ CleanEvs evs' = true ∧
      specFrom cd cfg s' (accepted cfg evs') = (ms', .clean) ∧
      endTr s'.trailers evs' = endTr s.trailers evs ∧ evs'.length ≤ evs.length
  | .pending => PhaseOk cfg s' ∧ CleanEvs evs' = true ∧ specFrom cd cfg s' (accepted cfg evs') = (ms, .clean) ∧
      endTr s'.trailers evs' = endTr s.trailers evs ∧ evs'.length < evs.length
  | .none => ms = [] ∧ respTr cfg (endTr s.trailers evs) = none ∧ s'.trailers = endTr s.trailers evs
  | .err e => ms = [] ∧ respTr cfg (endTr s.trailers evs) = some e

theorem finish_end (cd : Codec α) (cfg : DecCfg) (s0 : DecSt) (evs0 : List BodyEv) (ms : List α)
    (s : DecSt) (rest : List BodyEv) (hms : ms = []) (htr : s.trailers = endTr s0.trailers evs0) :
    EndPoll cd cfg s0 evs0 ms (Dec.finish (α := α) cfg s rest).1 (Dec.finish (α := α) cfg s rest).2.1
      (Dec.finish (α := α) cfg s rest).2.2 := by
  unfold Dec.finish
  rw [response_eq]
  cases h : respTr cfg s.trailers with
  | none => exact ⟨hms, by rw [← htr]; exact h, htr⟩
  | some e => exact ⟨hms, by rw [← htr]; exact h⟩

theorem clean_ms_nil (cd : Codec α) (cfg : DecCfg) (s' : DecSt) (ms : List α)
    (hx : specFrom cd cfg s' [] = (ms, .clean))
    (hst : (s'.buf = [] ∧ s'.ph = .hdr ∧ specFrom cd cfg s' [] = ([], .clean)) ∨
       specFrom cd cfg s' [] = ([], .incomplete)) : ms = [] ∧ s'.buf.isEmpty = true := by
  rcases hst with ⟨hb, _, h⟩ | h
  · rw [h] at hx; exact ⟨(Prod.mk.inj hx).1.symm, by simp [hb]⟩
  · rw [h] at hx; exact absurd (Prod.mk.inj hx).2 (by simp)

theorem pollNext_end (cd : Codec α) (cfg : DecCfg) (evs : List BodyEv) : ∀ (s : DecSt) (ms : List α),
    PhaseOk cfg s → CleanEvs evs = true → specFrom cd cfg s (accepted cfg evs) = (ms, .clean) →
    EndPoll cd cfg s evs ms (Dec.pollNext cd cfg s evs).1 (Dec.pollNext cd cfg s evs).2.1
      (Dec.pollNext cd cfg s evs).2.2 := by
  induction evs with
  | nil =>
    intro s ms h hc hx
    have hp := pre_good cd cfg s h
    unfold Dec.pollNext
    generalize Dec.pre cd cfg s = r at hp
    cases r with
    | out s' o =>
      cases o with
      | msg m =>
        obtain ⟨hok, htr, hX⟩ := hp
        rw [hX] at hx
        obtain ⟨ms', rfl, hr⟩ := consRes_inj hx
        exact ⟨ms', rfl, hok, rfl, hr, by simp [endTr, htr], Nat.le_refl _⟩
      | err st =>
        obtain ⟨_, b, _, hX⟩ := hp
        rw [hX] at hx; exact absurd (Prod.mk.inj hx).2 (by simp)
      | none => exact absurd hp (by simp [PreGood])
      | pending => exact absurd hp (by simp [PreGood])
    | need s' =>
      obtain ⟨hok, htr, hX, hst⟩ := hp
      dsimp only
      have hx' : specFrom cd cfg s' [] = (ms, .clean) := by rw [← hX]; simpa [accepted] using hx
      obtain ⟨hms, hbuf⟩ := clean_ms_nil cd cfg s' ms hx' hst
      simp only [hbuf, ↓reduceIte]
      exact finish_end cd cfg s [] ms s' [] hms (by simp [endTr, htr])
  | cons ev rest ih =>
    intro s ms h hc hx
    have hp := pre_good cd cfg s h
    unfold Dec.pollNext
    generalize Dec.pre cd cfg s = r at hp
    cases r with
    | out s' o =>
      cases o with
      | msg m =>
        obtain ⟨hok, htr, hX⟩ := hp
        rw [hX] at hx
        obtain ⟨ms', rfl, hr⟩ := consRes_inj hx
        exact ⟨ms', rfl, hok, hc, hr, by rw [htr], Nat.le_refl _⟩
      | err st =>
        obtain ⟨_, b, _, hX⟩ := hp
        rw [hX] at hx; exact absurd (Prod.mk.inj hx).2 (by simp)
      | none => exact absurd hp (by simp [PreGood])
      | pending => exact absurd hp (by simp [PreGood])
    | need s' =>
      obtain ⟨hok, htr, hX, hst⟩ := hp
      dsimp only
      cases ev with
      | pending =>
        refine ⟨hok, by simpa [CleanEvs] using hc, ?_, by simp [endTr, htr], by simp⟩
        rw [← hX]; simpa [accepted] using hx
      | data c =>
        have hok' : PhaseOk cfg ⟨s'.buf ++ cfg.accept c, s'.ph, s'.trailers⟩ := by simpa [PhaseOk] using hok
        have hx' : specFrom cd cfg ⟨s'.buf ++ cfg.accept c, s'.ph, s'.trailers⟩ (accepted cfg rest) = (ms, .clean) := by
          have := specFrom_push cd cfg s' (cfg.accept c) (accepted cfg rest)
          rw [this, ← hX]; simpa [accepted] using hx
        have := ih ⟨s'.buf ++ cfg.accept c, s'.ph, s'.trailers⟩ ms hok' (by simpa [CleanEvs] using hc) hx'
        rcases hr : Dec.pollNext cd cfg ⟨s'.buf ++ cfg.accept c, s'.ph, s'.trailers⟩ rest with ⟨s2, evs2, o⟩
        rw [hr] at this
        simp only [hr]
        have htr' : endTr s.trailers (BodyEv.data c :: rest) = endTr s'.trailers rest := by
          simp [endTr, htr]
        cases o with
        | msg m =>
          obtain ⟨ms', e1, e2, e3, e4, e5, e6⟩ := this
          exact ⟨ms', e1, e2, e3, e4, by rw [htr']; exact e5, by simp at e6 ⊢; omega⟩
        | pending =>
          obtain ⟨e2, e3, e4, e5, e6⟩ := this
          exact ⟨e2, e3, e4, by rw [htr']; exact e5, by simp at e6 ⊢; omega⟩
        | none =>
          obtain ⟨e1, e2, e3⟩ := this
          exact ⟨e1, by rw [htr']; exact e2, by rw [htr']; exact e3⟩
        | err st =>
          obtain ⟨e1, e2⟩ := this
          exact ⟨e1, by rw [htr']; exact e2⟩
      | trailers t =>
        have hrest : rest = [] := by
          cases rest with
          | nil => rfl
          | cons _ _ => simp [CleanEvs] at hc
        subst hrest
        have hx' : specFrom cd cfg s' [] = (ms, .clean) := by rw [← hX]; simpa [accepted] using hx
        obtain ⟨hms, _⟩ := clean_ms_nil cd cfg s' ms hx' hst
        exact finish_end cd cfg s _ ms ⟨s'.buf, s'.ph, mergeTr s'.trailers t⟩ [] hms (by simp [endTr, htr])
      | err st => simp [CleanEvs] at hc

/-! ### `nextItem`: polls until the stream is ready -/

/-- `EndPoll` with the `Pending` case excluded -/
theorem nextItem_end (cd : Codec α) (cfg : DecCfg) (fuel : Nat) : ∀ (s : DecSt) (evs : List BodyEv) (ms : List α),
    PhaseOk cfg s → CleanEvs evs = true → specFrom cd cfg s (accepted cfg evs) = (ms, .clean) →
    evs.length < fuel →
    (nextItem cd cfg fuel s evs).2.2 ≠ .pending ∧
    EndPoll cd cfg s evs ms (nextItem cd cfg fuel s evs).1 (nextItem cd cfg fuel s evs).2.1
      (nextItem cd cfg fuel s evs).2.2 := by
  induction fuel with
  | zero => intro s evs ms _ _ _ h; omega
  | succ n ih =>
    intro s evs ms hp hc hx hn
    have he := pollNext_end cd cfg evs s ms hp hc hx
    unfold nextItem
    rcases hr : Dec.pollNext cd cfg s evs with ⟨s1, evs1, o⟩
    rw [hr] at he
    cases o with
    | msg m => exact ⟨by simp, he⟩
    | none => exact ⟨by simp, he⟩
    | err e => exact ⟨by simp, he⟩
    | pending =>
      obtain ⟨e1, e2, e3, e4, e5⟩ := he
      dsimp only at e1 e2 e3 e4 e5 ⊢
      obtain ⟨hne, hend⟩ := ih s1 evs1 ms e1 e2 e3 (by omega)
      refine ⟨hne, ?_⟩
      generalize nextItem cd cfg n s1 evs1 = r at hne hend
      obtain ⟨s2, evs2, o2⟩ := r
      cases o2 with
      | msg m =>
        obtain ⟨ms', a1, a2, a3, a4, a5, a6⟩ := hend
        exact ⟨ms', a1, a2, a3, a4, by rw [← e4]; exact a5, by dsimp only at a6 ⊢; omega⟩
      | pending => exact absurd rfl hne
      | none =>
        obtain ⟨a1, a2, a3⟩ := hend
        exact ⟨a1, by rw [← e4]; exact a2, by rw [← e4]; exact a3⟩
      | err e =>
        obtain ⟨a1, a2⟩ := hend
        exact ⟨a1, by rw [← e4]; exact a2⟩

/-! ### `readN` / `drain` -/

/-- `k` calls of `message()` on a clean body holding `ms`: the first `k` messages if there are
that many (and the stream is left open); otherwise all of them, then the end of the stream —
clean, with the body's trailers held by the stream, or the error the trailers carry. -/
theorem readN_end (cd : Codec α) (cfg : DecCfg) (fuel : Nat) (k : Nat) :
    ∀ (s : DecSt) (evs : List BodyEv) (ms : List α),
    PhaseOk cfg s → CleanEvs evs = true → specFrom cd cfg s (accepted cfg evs) = (ms, .clean) →
    evs.length < fuel →
    (readN cd cfg fuel k s evs).1 = ms.take k ∧
    (readN cd cfg fuel k s evs).2.1 =
      (if k ≤ ms.length then .open else endOf cfg (endTr s.trailers evs)) ∧
    (ms.length < k → respTr cfg (endTr s.trailers evs) = none →
      (readN cd cfg fuel k s evs).2.2.trailers = endTr s.trailers evs) := by
  induction k with
  | zero => intro s evs ms _ _ _ _; simp [readN]
  | succ k ih =>
    intro s evs ms hp hc hx hn
    obtain ⟨hne, hend⟩ := nextItem_end cd cfg fuel s evs ms hp hc hx hn
    unfold readN
    generalize nextItem cd cfg fuel s evs = r at hne hend
    obtain ⟨s1, evs1, o⟩ := r
    cases o with
    | pending => exact absurd rfl hne
    | none =>
      obtain ⟨a1, a2, a3⟩ := hend
      subst a1
      dsimp only at a2 a3 ⊢
      simp [endOf, a2, a3]
    | err e =>
      obtain ⟨a1, a2⟩ := hend
      subst a1
      dsimp only at a2 ⊢
      simp [endOf, a2]
    | msg m =>
      obtain ⟨ms', a1, a2, a3, a4, a5, a6⟩ := hend
      subst a1
      dsimp only at a2 a3 a4 a5 a6 ⊢
      obtain ⟨i1, i2, i3⟩ := ih s1 evs1 ms' a2 a3 a4 (by omega)
      generalize readN cd cfg fuel k s1 evs1 = r2 at i1 i2 i3
      obtain ⟨l, e, s2⟩ := r2
      dsimp only at i1 i2 i3 ⊢
      refine ⟨by simp [i1], ?_, ?_⟩
      · rw [i2, a5]; simp only [List.length_cons, Nat.add_le_add_iff_right]
      · intro hlt hr
        rw [← a5] at hr ⊢
        exact i3 (by simp at hlt; omega) hr

end Call
