import TonicModel.Model.Reflection
import TonicModel.Spec.Reflection
import TonicModel.Lemmas.Reflection
/-
When exactly the reflection service builds (C19).

`ReflectionServiceState::new` examines the registered files in processing order and SKIPS a file
whose file name is already in the map (`continue`) — such a file's contents are never looked at.
So the service builds iff every registered byte string decodes and every file that is the first
of its file name (`Spec.Reflection.served`) is well named; ill-named files behind an earlier file
of the same name do not matter.
-/
namespace Refl
open Reflection Spec.Reflection

theorem any_name_iff_find {done : List File} {nm : Name} :
    done.any (fun g => decide (g.name = some nm)) = (done.find? (fun g => decide (g.name = some nm))).isSome := by
  induction done with
  | nil => rfl
  | cons g gs ih =>
    by_cases h : g.name = some nm <;> simp [List.find?, h, ih]

/-- The loop of `ReflectionServiceState::new` succeeds iff every file it actually examines — the
first of each file name — is well named. -/
theorem addFiles_isOk_iff {useAll : Bool} : ∀ (fs done : List File) (st : State),
    Good done st → (∀ g ∈ done, g.name.isSome = true) →
    (isOk (addFiles useAll fs st) = true ↔ ∀ f ∈ servedFrom done fs, File.wellNamed f = true)
  | [], done, st, _, _ => by simp [addFiles, isOk, servedFrom]
  | f :: fs, done, st, hg, hd => by
    cases hn : f.name with
    | none =>
      have hany : done.any (fun g => decide (g.name = none)) = false := by
        apply Bool.eq_false_iff.2
        intro h
        obtain ⟨g, hg', he⟩ := List.any_eq_true.1 h
        have := hd g hg'
        simp only [decide_eq_true_eq] at he
        rw [he] at this
        cases this
      simp only [addFiles, hn, isOk, servedFrom, hany, Bool.false_eq_true, if_false, false_iff]
      intro h
      have := h f List.mem_cons_self
      simp [File.wellNamed, hn] at this
    | some nm =>
      have hd' : ∀ g ∈ done ++ [f], g.name.isSome = true := by
        intro g hg'
        rcases List.mem_append.1 hg' with h | h
        · exact hd g h
        · rw [List.mem_singleton.1 h, hn]; rfl
      have hany : done.any (fun g => decide (g.name = some nm)) = (assoc nm st.files).isSome := by
        rw [any_name_iff_find, hg.files_eq]
      by_cases hc : (assoc nm st.files).isSome = true
      · simp only [addFiles, hn, hc, if_true, servedFrom, hany]
        exact addFiles_isOk_iff fs (done ++ [f]) st (good_skip hg hn hc) hd'
      · have hc' : assoc nm st.files = none := by simpa using hc
        simp only [addFiles, hn, hc, servedFrom, hany, Bool.false_eq_true, if_false]
        cases hp : processFile f with
        | error e =>
          have hb : File.wellNamedBody f = false := by rw [← processFile_isOk, hp]; rfl
          simp only [isOk, Bool.false_eq_true, false_iff]
          intro h
          have := h f List.mem_cons_self
          simp [File.wellNamed, hb] at this
        | ok r =>
          obtain ⟨syms, svcs⟩ := r
          have hb : File.wellNamedBody f = true := by rw [← processFile_isOk, hp]; rfl
          have hwf : File.wellNamed f = true := by simp [File.wellNamed, hn, hb]
          simp only
          rw [addFiles_isOk_iff fs (done ++ [f]) _ (good_add hg hn hc' hp) hd']
          constructor
          · intro h g hg'
            rcases List.mem_cons.1 hg' with rfl | hg'
            · exact hwf
            · exact h g hg'
          · intro h g hg'
            exact h g (List.mem_cons_of_mem _ hg')

/-- **`build` succeeds iff everything decodes and every file that is the first of its file name,
in processing order, is well named.** -/
theorem build_isOk_iff (c : Config) :
    (∃ st, build c = .ok st) ↔
      (c.decodable = true ∧ ∀ f ∈ served c.procFiles, File.wellNamed f = true) := by
  rw [← isOk_iff, build_eq]
  by_cases hd : c.decodable = true
  · rw [if_pos hd]
    have := addFiles_isOk_iff (useAll := c.chosen.isNone) c.procFiles [] (initState c)
      (good_init _) (fun g hg => by cases hg)
    simp only [served, hd, true_and]
    exact this
  · rw [if_neg hd]
    simp [isOk, hd]

/-- a served file is a registered file -/
theorem served_subset {fs : List File} {f : File} (h : f ∈ served fs) : f ∈ fs :=
  List.mem_of_find?_eq_some (mem_servedFrom.mp h).2

/-- **Removing the own descriptor never breaks a build**: the own descriptor set is examined
last, so a service that builds with it builds without it. -/
theorem build_without_own (c : Config) (o : List File) (s1 : State)
    (h1 : build { c with own := some o } = .ok s1) : ∃ s0, build { c with own := none } = .ok s0 := by
  have hd : ({ c with own := none } : Config).decodable = true := by
    rw [← decodable_with_own c o]; exact (build_ok h1).1
  have b1 := (build_ok h1).2
  rw [procFiles_with_own, addFiles_append] at b1
  rw [build_eq, if_pos hd]
  have hinit : initState { c with own := some o } = initState { c with own := none } := rfl
  have hch : ({ c with own := some o } : Config).chosen = ({ c with own := none } : Config).chosen := rfl
  rw [hinit, hch] at b1
  cases hb : addFiles ({ c with own := none } : Config).chosen.isNone ({ c with own := none } : Config).procFiles
      (initState { c with own := none }) with
  | ok s0 => exact ⟨s0, rfl⟩
  | error e => rw [hb] at b1; cases b1

end Refl
