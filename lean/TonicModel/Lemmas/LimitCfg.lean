import TonicModel.Model.LimitCfg
import TonicModel.Spec.LimitCfg
/-
Lemmas for the C06 `lim.seq` theorems: the model of a `Grpc` value taken through a program of
configuration statements and calls (`Model/LimitCfg.lean`) agrees, call by call, with the oracle
that reads the limit in force off the program text (`Spec/LimitCfg.lean`).
-/
namespace LimitCfg.Lemmas
open LimitProg

theorem recvAll_eq (d : Option Nat) (p : Nat → Bool) (hp : ∀ n, LimitCfg.decRefusesLen d n = p n) (xs : List Nat) :
    LimitCfg.recvAll d xs = match xs.findIdx? p with | some i => (i, true) | none => (xs.length, false) := by
  induction xs with
  | nil => simp [LimitCfg.recvAll]
  | cons x xs ih =>
    simp only [LimitCfg.recvAll, List.findIdx?_cons, hp]
    cases hx : p x with
    | true => simp
    | false =>
      simp only [Bool.false_eq_true, ↓reduceIte, ih]
      cases xs.findIdx? p <;> simp

theorem sendAll_eq (e : Option Nat) (p : Nat → Bool) (hp : ∀ n, LimitCfg.encRefusesLen e n = p n) (xs : List Nat) :
    LimitCfg.sendAll e xs = match xs.findIdx? p with | some i => (i, true) | none => (xs.length, false) := by
  induction xs with
  | nil => simp [LimitCfg.sendAll]
  | cons x xs ih =>
    simp only [LimitCfg.sendAll, List.findIdx?_cons, hp]
    cases hx : p x with
    | true => simp
    | false =>
      simp only [Bool.false_eq_true, ↓reduceIte, ih]
      cases xs.findIdx? p <;> simp

/-- the configuration value agrees with what the statements so far asked for -/
def Agree (c : LimitCfg.Cfg) (seen : List Op) : Prop :=
  c.dec = Spec.LimitCfg.askedDec seen ∧ c.enc = Spec.LimitCfg.askedEnc seen

theorem agree_step (c : LimitCfg.Cfg) (seen : List Op) (h : Agree c seen) (o : Op) : Agree (c.step o) (o :: seen) := by
  obtain ⟨h1, h2⟩ := h
  cases o with
  | setDec l => exact ⟨by simp [LimitCfg.Cfg.step, Spec.LimitCfg.askedDec], by simpa [LimitCfg.Cfg.step, Spec.LimitCfg.askedEnc] using h2⟩
  | setEnc l => exact ⟨by simpa [LimitCfg.Cfg.step, Spec.LimitCfg.askedDec] using h1, by simp [LimitCfg.Cfg.step, Spec.LimitCfg.askedEnc]⟩
  | apply d e =>
    cases d <;> cases e <;> constructor <;> simp [LimitCfg.Cfg.step, Spec.LimitCfg.askedDec, Spec.LimitCfg.askedEnc, h1, h2]
  | acceptZ => exact ⟨by simpa [LimitCfg.Cfg.step, Spec.LimitCfg.askedDec] using h1, by simpa [LimitCfg.Cfg.step, Spec.LimitCfg.askedEnc] using h2⟩
  | sendZ => exact ⟨by simpa [LimitCfg.Cfg.step, Spec.LimitCfg.askedDec] using h1, by simpa [LimitCfg.Cfg.step, Spec.LimitCfg.askedEnc] using h2⟩
  | clone => exact ⟨by simpa [LimitCfg.Cfg.step, Spec.LimitCfg.askedDec] using h1, by simpa [LimitCfg.Cfg.step, Spec.LimitCfg.askedEnc] using h2⟩

theorem dec_agree (c : LimitCfg.Cfg) (seen : List Op) (h : Agree c seen) (n : Nat) :
    LimitCfg.decRefusesLen c.dec n = Spec.LimitCfg.overDec seen n := by
  simp [LimitCfg.decRefusesLen, Spec.LimitCfg.overDec, Framing.DecCfg.limit, Framing.defaultMaxRecv, h.1]

theorem enc_agree (c : LimitCfg.Cfg) (seen : List Op) (h : Agree c seen) (n : Nat) :
    LimitCfg.encRefusesLen c.enc n = Spec.LimitCfg.overEnc seen n := by
  unfold LimitCfg.encRefusesLen Spec.LimitCfg.overEnc
  rw [h.2]
  cases Spec.LimitCfg.askedEnc seen <;> rfl

theorem serverCall_eq (c : LimitCfg.Cfg) (seen : List Op) (h : Agree c seen) (k : Call)
    (hq : k.qs ≠ []) : LimitCfg.serverCall c k = Spec.LimitCfg.srvExpect seen k := by
  simp only [LimitCfg.serverCall, Spec.LimitCfg.srvExpect, LimitCfg.respond,
    recvAll_eq c.dec _ (dec_agree c seen h), sendAll_eq c.enc _ (enc_agree c seen h)]
  cases hf : k.qs.findIdx? (Spec.LimitCfg.overDec seen) with
  | some i => cases k.shape.oneRequest <;> simp
  | none =>
    have hlen : k.qs.length ≠ 0 := by simpa using hq
    cases k.shape.oneRequest <;> simp [hlen] <;>
      (cases (if k.shape.oneResponse = true then List.take 1 k.rs else k.rs).findIdx? (Spec.LimitCfg.overEnc seen) <;> simp)

theorem clientCall_eq (c : LimitCfg.Cfg) (seen : List Op) (h : Agree c seen) (k : Call)
    (hr : k.rs ≠ []) : LimitCfg.clientCall c k = Spec.LimitCfg.cliExpect seen k := by
  simp only [LimitCfg.clientCall, Spec.LimitCfg.cliExpect,
    recvAll_eq c.dec _ (dec_agree c seen h), sendAll_eq c.enc _ (enc_agree c seen h)]
  have hlen : k.rs.length ≠ 0 := by simpa using hr
  cases (if k.shape.oneRequest = true then List.take 1 k.qs else k.qs).findIdx? (Spec.LimitCfg.overEnc seen) with
  | some i => simp
  | none =>
    cases k.rs.findIdx? (Spec.LimitCfg.overDec seen) <;> cases k.shape.oneResponse <;> simp [hlen]

theorem runServer_eq (prog : List Stmt) : ∀ (c : LimitCfg.Cfg) (seen : List Op), Agree c seen → WellFormed prog = true →
    LimitCfg.runServer c prog = Spec.LimitCfg.runServer seen prog := by
  induction prog with
  | nil => intros; rfl
  | cons s rest ih =>
    intro c seen h hwf
    cases s with
    | op o =>
      simp only [LimitCfg.runServer, Spec.LimitCfg.runServer]
      exact ih _ _ (agree_step c seen h o) (by simpa [WellFormed] using hwf)
    | call k =>
      simp only [WellFormed, List.all_cons, Bool.and_eq_true, Bool.not_eq_eq_eq_not, Bool.not_true, List.isEmpty_eq_false_iff] at hwf
      simp only [LimitCfg.runServer, Spec.LimitCfg.runServer]
      rw [serverCall_eq c seen h k hwf.1.1, ih c seen h (by simpa [WellFormed] using hwf.2)]

theorem runClient_eq (prog : List Stmt) : ∀ (c : LimitCfg.Cfg) (seen : List Op), Agree c seen → WellFormed prog = true →
    LimitCfg.runClient c prog = Spec.LimitCfg.runClient seen prog := by
  induction prog with
  | nil => intros; rfl
  | cons s rest ih =>
    intro c seen h hwf
    cases s with
    | op o =>
      simp only [LimitCfg.runClient, Spec.LimitCfg.runClient]
      exact ih _ _ (agree_step c seen h o) (by simpa [WellFormed] using hwf)
    | call k =>
      simp only [WellFormed, List.all_cons, Bool.and_eq_true, Bool.not_eq_eq_eq_not, Bool.not_true, List.isEmpty_eq_false_iff] at hwf
      simp only [LimitCfg.runClient, Spec.LimitCfg.runClient]
      rw [clientCall_eq c seen h k hwf.1.2, ih c seen h (by simpa [WellFormed] using hwf.2)]

theorem agree_init : Agree LimitCfg.Cfg.init [] := ⟨rfl, rfl⟩

theorem agree_foldl (ops : List Op) : ∀ (c : LimitCfg.Cfg) (seen : List Op), Agree c seen →
    Agree (ops.foldl LimitCfg.Cfg.step c) (ops.reverse ++ seen) := by
  induction ops with
  | nil => intro c seen h; simpa using h
  | cons o rest ih =>
    intro c seen h
    simpa using ih _ _ (agree_step c seen h o)

end LimitCfg.Lemmas
