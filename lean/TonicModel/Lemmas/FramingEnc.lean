import TonicModel.Model.Framing
/-
Invariant reasoning for the encoder model (`Enc.loop`, `Enc.pollNext`, `Enc.pollFrame`,
`Enc.run`).  Ghost functions `okPrefix` / `finalSt` say what is still owed to the consumer.
-/
namespace Framing
variable {α : Type}

/-- frames of a list of messages, as the encoder writes them -/
def framesOf (cd : Codec α) (cfg : EncCfg) (ms : List α) : Bytes :=
  (ms.map (frameOf cd cfg)).flatten

@[simp] theorem framesOf_nil (cd : Codec α) (cfg : EncCfg) : framesOf cd cfg [] = [] := rfl
@[simp] theorem framesOf_cons (cd : Codec α) (cfg : EncCfg) (m : α) (ms : List α) :
    framesOf cd cfg (m :: ms) = frameOf cd cfg m ++ framesOf cd cfg ms := by
  simp [framesOf]
theorem framesOf_append (cd : Codec α) (cfg : EncCfg) (a b : List α) :
    framesOf cd cfg (a ++ b) = framesOf cd cfg a ++ framesOf cd cfg b := by
  simp [framesOf]

theorem frameOf_ne_nil (cd : Codec α) (cfg : EncCfg) (m : α) : frameOf cd cfg m ≠ [] := by
  simp [frameOf]

theorem frameOf_length (cd : Codec α) (cfg : EncCfg) (m : α) :
    (frameOf cd cfg m).length = 5 + (payload cd cfg m).length := by
  simp [frameOf, u32be]; omega

/-! ### `buffer_size` never makes `compress` / `decompress` panic (after the fix) -/

theorem reserveCap_isSome (bufSize len : Nat) : (reserveCap bufSize len).isSome = true := by
  have : max 1 bufSize ≠ 0 := by omega
  simp [reserveCap, udiv, this]

theorem compressCall_eq (cd : Codec α) (bufSize : Nat) (e : Enc) (raw : Bytes) :
    compressCall cd bufSize e raw = some (cd.cz e raw) := by
  have h := reserveCap_isSome bufSize raw.length
  simp only [compressCall]
  cases hr : reserveCap bufSize raw.length with
  | none => simp [hr] at h
  | some c => rfl

theorem decompressCall_eq (cd : Codec α) (bufSize : Nat) (e : Enc) (pl : Bytes) :
    decompressCall cd bufSize e pl = some (cd.dz e pl) := by
  have h := reserveCap_isSome bufSize (2 * pl.length)
  simp only [decompressCall]
  cases hr : reserveCap bufSize (2 * pl.length) with
  | none => simp [hr] at h
  | some c => rfl

theorem compressPanics_false (cd : Codec α) (cfg : EncCfg) (m : α) : compressPanics cd cfg m = false := by
  simp only [compressPanics]
  cases cfg.comp with
  | none => rfl
  | some e => simp [compressCall_eq]

/-- messages the source produces before its first error / first unencodable message -/
def okPrefix (cd : Codec α) (cfg : EncCfg) : List (SrcEv α) → List α
  | [] => []
  | .pending :: r => okPrefix cd cfg r
  | .err _ :: _ => []
  | .item m :: r => match encodeErr cd cfg m with
    | some _ => []
    | none => m :: okPrefix cd cfg r

/-- the status of that first failure, if any -/
def finalSt (cd : Codec α) (cfg : EncCfg) : List (SrcEv α) → Option St
  | [] => none
  | .pending :: r => finalSt cd cfg r
  | .err st :: _ => some st
  | .item m :: r => match encodeErr cd cfg m with
    | some st => some st
    | none => finalSt cd cfg r

/-- What one run of the inner loop guarantees, by the kind of its result. -/
def LoopGood (cd : Codec α) (cfg : EncCfg) (buf : Bytes) (evs : List (SrcEv α))
    (s' : EncSt) (evs' : List (SrcEv α)) (o : BytesOut) : Prop :=
  s'.buf = [] ∧ evs'.length ≤ evs.length ∧
  match o with
  | .data d =>
    ∃ ms, d = buf ++ framesOf cd cfg ms ∧ d ≠ [] ∧
      okPrefix cd cfg evs = ms ++ (if s'.error.isSome then [] else okPrefix cd cfg evs') ∧
      finalSt cd cfg evs = (match s'.error with | some st => some st | none => finalSt cd cfg evs') ∧
      evs'.length + (if s'.error.isSome then 1 else 0) < evs.length + (if buf = [] then 0 else 1)
  | .pending =>
    buf = [] ∧ s'.error = none ∧ okPrefix cd cfg evs = okPrefix cd cfg evs' ∧
      finalSt cd cfg evs = finalSt cd cfg evs' ∧ evs'.length < evs.length
  | .err st => buf = [] ∧ s'.error = none ∧ okPrefix cd cfg evs = [] ∧ finalSt cd cfg evs = some st
  | .done => buf = [] ∧ s'.error = none ∧ evs = [] ∧ evs' = []
  | .panic => False

theorem loop_good (cd : Codec α) (cfg : EncCfg) (evs : List (SrcEv α)) : ∀ (buf : Bytes),
    LoopGood cd cfg buf evs (Enc.loop cd cfg buf evs).1 (Enc.loop cd cfg buf evs).2.1
      (Enc.loop cd cfg buf evs).2.2 := by
  induction evs with
  | nil =>
    intro buf
    unfold Enc.loop
    by_cases hb : buf = []
    · subst hb; simp [LoopGood]
    · have : buf.isEmpty = false := by cases buf <;> simp_all
      simp only [this, LoopGood]
      refine ⟨by simp, Nat.le_refl _, [], by simp, hb, by simp [okPrefix], by simp [finalSt], by simp [hb] <;> omega⟩
  | cons ev rest ih =>
    intro buf
    cases ev with
    | pending =>
      unfold Enc.loop
      by_cases hb : buf = []
      · subst hb; simp [LoopGood, okPrefix, finalSt]
      · have : buf.isEmpty = false := by cases buf <;> simp_all
        simp only [this, LoopGood]
        refine ⟨by simp, by simp, [], by simp, hb, by simp [okPrefix], by simp [finalSt], by simp [hb] <;> omega⟩
    | err st =>
      unfold Enc.loop
      by_cases hb : buf = []
      · subst hb; simp [LoopGood, okPrefix, finalSt]
      · have : buf.isEmpty = false := by cases buf <;> simp_all
        simp only [this, LoopGood]
        refine ⟨by simp, by simp, [], by simp, hb, by simp [okPrefix], by simp [finalSt], by simp [hb] <;> omega⟩
    | item m =>
      unfold Enc.loop
      simp only [compressPanics_false, Bool.false_eq_true, ↓reduceIte]
      cases he : encodeErr cd cfg m with
      | some st =>
        simp only [encodeItem, he]
        by_cases hb : buf = []
        · subst hb; simp [LoopGood, okPrefix, finalSt, he]
        · have : buf.isEmpty = false := by cases buf <;> simp_all
          simp only [this, LoopGood]
          refine ⟨by simp, by simp, [], by simp, hb, by simp [okPrefix, he], by simp [finalSt, he], by simp [hb] <;> omega⟩
      | none =>
        simp only [encodeItem, he]
        by_cases hy : (buf ++ frameOf cd cfg m).length ≥ cfg.yieldThr
        · simp only [hy, ↓reduceIte, LoopGood]
          refine ⟨by simp, by simp, [m], by simp, by simp [frameOf_ne_nil], by simp [okPrefix, he],
            by simp [finalSt, he], by simp; split <;> omega⟩
        · simp only [hy, ↓reduceIte]
          have h := ih (buf ++ frameOf cd cfg m)
          generalize Enc.loop cd cfg (buf ++ frameOf cd cfg m) rest = r at h
          obtain ⟨s', evs', o⟩ := r
          obtain ⟨h1, h2, h3⟩ := h
          dsimp only at h1 h2 h3 ⊢
          refine ⟨h1, by simp at h2 ⊢; omega, ?_⟩
          cases o with
          | data d =>
            obtain ⟨ms, hd, hne, hok, hfin, hprog⟩ := h3
            refine ⟨m :: ms, by simp [hd], hne, by simp [okPrefix, he, hok], by simp [finalSt, he, hfin], ?_⟩
            have hne' : (buf ++ frameOf cd cfg m = []) = False := by simp [frameOf_ne_nil]
            simp only [hne', ↓reduceIte, List.length_cons] at hprog ⊢
            cases hs : s'.error <;> by_cases hbb : buf = [] <;> simp [hs, hbb] at hprog ⊢ <;> omega
          | pending => exact absurd h3.1 (by simp [frameOf_ne_nil])
          | err st => exact absurd h3.1 (by simp [frameOf_ne_nil])
          | done => exact absurd h3.1 (by simp [frameOf_ne_nil])
          | panic => exact h3

theorem loop_ne_panic (cd : Codec α) (cfg : EncCfg) (evs : List (SrcEv α)) (buf : Bytes) :
    (Enc.loop cd cfg buf evs).2.2 ≠ .panic := by
  have h := loop_good cd cfg evs buf
  intro hp
  rw [hp] at h
  exact h.2.2

theorem pollNext_ne_panic (cd : Codec α) (cfg : EncCfg) (s : EncSt) (evs : List (SrcEv α)) :
    (Enc.pollNext cd cfg s evs).2.2 ≠ .panic := by
  unfold Enc.pollNext
  cases s.error with
  | some st => simp
  | none => exact loop_ne_panic cd cfg evs s.buf

theorem pollFrame_ne_panic (cd : Codec α) (cfg : EncCfg) (b : BodySt) (evs : List (SrcEv α)) :
    (Enc.pollFrame cd cfg b evs).2.2 ≠ .panic := by
  unfold Enc.pollFrame
  by_cases he : b.isEndStream = true
  · simp [he]
  · simp only [he, Bool.false_eq_true, ↓reduceIte]
    have h := pollNext_ne_panic cd cfg b.inner evs
    generalize Enc.pollNext cd cfg b.inner evs = r at h
    obtain ⟨s', evs', o⟩ := r
    cases o with
    | panic => exact absurd rfl h
    | data d => simp
    | pending => simp
    | err st => dsimp only; split <;> simp
    | done => dsimp only; split <;> simp

/-- **No poll of the body panics**, from any state, for any schedule and any configuration
(any `buffer_size`, zero included). -/
theorem run_ne_panic (cd : Codec α) (cfg : EncCfg) (n : Nat) : ∀ (b : BodySt) (evs : List (SrcEv α)),
    ∀ o ∈ Enc.run cd cfg n b evs, o ≠ .panic := by
  induction n with
  | zero => intro b evs o ho; simp [Enc.run] at ho
  | succ n ih =>
    intro b evs o ho
    simp only [Enc.run] at ho
    have hp := pollFrame_ne_panic cd cfg b evs
    generalize Enc.pollFrame cd cfg b evs = r at ho hp
    obtain ⟨b', evs', o'⟩ := r
    rcases List.mem_cons.mp ho with rfl | ho
    · exact hp
    · exact ih b' evs' o ho

/-- The encoder's behaviour does not depend on `buffer_size`. -/
theorem loop_bufSize (cd : Codec α) (cfg : EncCfg) (k : Nat) (evs : List (SrcEv α)) : ∀ (buf : Bytes),
    Enc.loop cd { cfg with bufSize := k } buf evs = Enc.loop cd cfg buf evs := by
  induction evs with
  | nil => intro buf; simp [Enc.loop]
  | cons ev rest ih =>
    intro buf
    cases ev with
    | pending => simp [Enc.loop]
    | err st => simp [Enc.loop]
    | item m =>
      unfold Enc.loop
      simp only [compressPanics_false, Bool.false_eq_true, ↓reduceIte]
      have he : encodeItem cd { cfg with bufSize := k } buf m = encodeItem cd cfg buf m := rfl
      rw [he]
      cases encodeItem cd cfg buf m with
      | error st => rfl
      | ok buf' =>
        dsimp only
        rw [ih buf']

theorem pollFrame_bufSize (cd : Codec α) (cfg : EncCfg) (k : Nat) (b : BodySt) (evs : List (SrcEv α)) :
    Enc.pollFrame cd { cfg with bufSize := k } b evs = Enc.pollFrame cd cfg b evs := by
  simp only [Enc.pollFrame, Enc.pollNext, loop_bufSize]

theorem run_bufSize (cd : Codec α) (cfg : EncCfg) (k : Nat) (n : Nat) : ∀ (b : BodySt) (evs : List (SrcEv α)),
    Enc.run cd { cfg with bufSize := k } n b evs = Enc.run cd cfg n b evs := by
  induction n with
  | zero => intros; rfl
  | succ n ih =>
    intro b evs
    simp only [Enc.run, pollFrame_bufSize]
    generalize Enc.pollFrame cd cfg b evs = r
    obtain ⟨b', evs', o⟩ := r
    simp only [ih]

theorem trace_run (cd : Codec α) (cfg : EncCfg) (n : Nat) : ∀ (b : BodySt) (evs : List (SrcEv α)),
    (Enc.trace cd cfg n b evs).1.map (·.2) = Enc.run cd cfg n b evs := by
  induction n with
  | zero => intros; rfl
  | succ n ih =>
    intro b evs
    simp only [Enc.trace, Enc.run]
    generalize Enc.pollFrame cd cfg b evs = r
    obtain ⟨b', evs', o⟩ := r
    simp [ih]

theorem trace_flags (cd : Codec α) (cfg : EncCfg) (n : Nat) : ∀ (b : BodySt) (evs : List (SrcEv α)),
    (Enc.trace cd cfg n b evs).1.map (·.1) ++ [(Enc.trace cd cfg n b evs).2] = Enc.endFlags cd cfg n b evs := by
  induction n with
  | zero => intros; rfl
  | succ n ih =>
    intro b evs
    simp only [Enc.trace, Enc.endFlags]
    generalize Enc.pollFrame cd cfg b evs = r
    obtain ⟨b', evs', o⟩ := r
    simp [ih]

/-- the data a frame output carries -/
def FrameOut.bytes : FrameOut → Bytes
  | .data b => b
  | _ => []

def dataConcat (outs : List FrameOut) : Bytes := (outs.map FrameOut.bytes).flatten

@[simp] theorem dataConcat_nil : dataConcat [] = [] := rfl
@[simp] theorem dataConcat_cons (o : FrameOut) (os : List FrameOut) :
    dataConcat (o :: os) = o.bytes ++ dataConcat os := by simp [dataConcat]
theorem dataConcat_append (a b : List FrameOut) : dataConcat (a ++ b) = dataConcat a ++ dataConcat b := by
  simp [dataConcat]

/-- A chunk made of whole frames. -/
def WholeFrames (cd : Codec α) (cfg : EncCfg) (d : Bytes) : Prop := ∃ ms, d = framesOf cd cfg ms

/-- Outputs allowed before the end of a body: pending, or a non-empty chunk of whole frames. -/
def GoodChunk (cd : Codec α) (cfg : EncCfg) (o : FrameOut) : Prop :=
  o = .pending ∨ ∃ d, o = .data d ∧ d ≠ [] ∧ WholeFrames cd cfg d

theorem run_ended (cd : Codec α) (cfg : EncCfg) (n : Nat) : ∀ (b : BodySt) (evs : List (SrcEv α)),
    b.isEndStream = true → Enc.run cd cfg n b evs = List.replicate n .none := by
  induction n with
  | zero => intros; rfl
  | succ n ih =>
    intro b evs h
    simp only [Enc.run, Enc.pollFrame, h, ↓reduceIte, List.replicate_succ]
    rw [ih b evs h]

/-- what is still owed, from a between-polls state (`buf` is always empty there) -/
def owedData (cd : Codec α) (cfg : EncCfg) (e : Option St) (evs : List (SrcEv α)) : Bytes :=
  match e with
  | some _ => []
  | none => framesOf cd cfg (okPrefix cd cfg evs)

def owedSt (cd : Codec α) (cfg : EncCfg) (e : Option St) (evs : List (SrcEv α)) : Option St :=
  match e with
  | some st => some st
  | none => finalSt cd cfg evs

/-- Server body, from any between-polls state: after enough polls the outputs are good chunks
carrying exactly the owed data, one trailers frame with the owed status, then `none` forever. -/
theorem run_server (cd : Codec α) (cfg : EncCfg) (hs : cfg.server = true) (n : Nat) :
    ∀ (e : Option St) (evs : List (SrcEv α)),
      evs.length + (if e.isSome then 1 else 0) + 1 < n + 1 →
      ∃ pre, Enc.run cd cfg n ⟨⟨[], e⟩, false⟩ evs
          = pre ++ [.trailers ((owedSt cd cfg e evs).getD St.okSt)] ++ List.replicate (n - pre.length - 1) .none ∧
        (∀ o ∈ pre, GoodChunk cd cfg o) ∧ dataConcat pre = owedData cd cfg e evs ∧ pre.length < n := by
  induction n with
  | zero => intro e evs h; omega
  | succ n ih =>
    intro e evs hn
    cases e with
    | some st =>
      refine ⟨[], ?_, by simp, by simp [owedData], by simp⟩
      simp [Enc.run, Enc.pollFrame, Enc.pollNext, hs, owedSt, run_ended]
    | none =>
      have hn' : evs.length + 1 < n + 1 + 1 := by simpa using hn
      have hg := loop_good cd cfg evs []
      simp only [Enc.run, Enc.pollFrame, Enc.pollNext, Bool.false_eq_true, ↓reduceIte]
      generalize Enc.loop cd cfg [] evs = r at hg
      obtain ⟨s', evs', o⟩ := r
      obtain ⟨hbuf, hlen, hcase⟩ := hg
      obtain ⟨b', e'⟩ := s'
      dsimp only at hbuf hlen hcase ⊢
      subst hbuf
      cases o with
      | panic => exact hcase.elim
      | done =>
        obtain ⟨_, he, hev, hev'⟩ := hcase
        subst hev
        refine ⟨[], ?_, by simp, by simp [owedData, okPrefix], by simp⟩
        simp [hs, run_ended, owedSt, finalSt]
      | err st =>
        obtain ⟨_, he, hok, hfin⟩ := hcase
        refine ⟨[], ?_, by simp, by simp [owedData, hok], by simp⟩
        simp [hs, run_ended, owedSt, hfin]
      | pending =>
        obtain ⟨_, he, hok, hfin, hlt⟩ := hcase
        subst he
        obtain ⟨pre, hrun, hgood, hdata, hpl⟩ := ih none evs' (by simp only [Option.isSome_none, Bool.false_eq_true, ↓reduceIte]; omega)
        refine ⟨.pending :: pre, ?_, ?_, ?_, by simp; omega⟩
        · simp only [hrun, owedSt, hfin]
          simp
        · intro o ho
          rcases List.mem_cons.mp ho with rfl | ho
          · exact Or.inl rfl
          · exact hgood o ho
        · simp [FrameOut.bytes, hdata, owedData, hok]
      | data d =>
        obtain ⟨ms, hd, hne, hok, hfin, hprog⟩ := hcase
        have hmeasure : evs'.length + (if e'.isSome then 1 else 0) + 1 < n + 1 := by
          simp only [↓reduceIte] at hprog; omega
        obtain ⟨pre, hrun, hgood, hdata, hpl⟩ := ih e' evs' hmeasure
        refine ⟨.data d :: pre, ?_, ?_, ?_, by simp; omega⟩
        · simp only [hrun]
          have : owedSt cd cfg none evs = owedSt cd cfg e' evs' := by
            simp only [owedSt, hfin]
          rw [this]; simp
        · intro o ho
          rcases List.mem_cons.mp ho with rfl | ho
          · exact Or.inr ⟨d, rfl, hne, ms, by simpa using hd⟩
          · exact hgood o ho
        · simp only [dataConcat_cons, FrameOut.bytes, hdata, owedData, hok, hd, List.nil_append]
          cases e' <;> simp [framesOf_append]


theorem run_client_done (cd : Codec α) (cfg : EncCfg) (hs : cfg.server = false) (n : Nat) :
    Enc.run cd cfg n ⟨⟨[], none⟩, false⟩ ([] : List (SrcEv α)) = List.replicate n .none := by
  induction n with
  | zero => rfl
  | succ n ih =>
    simp only [Enc.run, Enc.pollFrame, Enc.pollNext, Enc.loop, Bool.false_eq_true, ↓reduceIte,
      List.isEmpty_nil, hs, List.replicate_succ]
    rw [ih]

/-- Client body, from any between-polls state: good chunks carrying exactly the owed data, then
the first failure as an error (after which the caller stops polling), or `none` for ever; never
a trailers frame before that point. -/
theorem run_client (cd : Codec α) (cfg : EncCfg) (hs : cfg.server = false) (n : Nat) :
    ∀ (e : Option St) (evs : List (SrcEv α)),
      evs.length + (if e.isSome then 1 else 0) + 1 < n + 1 →
      ∃ pre, (∀ o ∈ pre, GoodChunk cd cfg o) ∧ dataConcat pre = owedData cd cfg e evs ∧ pre.length < n ∧
        match owedSt cd cfg e evs with
        | some st => ∃ post, Enc.run cd cfg n ⟨⟨[], e⟩, false⟩ evs = pre ++ .err st :: post
        | none => Enc.run cd cfg n ⟨⟨[], e⟩, false⟩ evs = pre ++ List.replicate (n - pre.length) .none := by
  induction n with
  | zero => intro e evs h; omega
  | succ n ih =>
    intro e evs hn
    cases e with
    | some st =>
      refine ⟨[], by simp, by simp [owedData], by simp, ?_⟩
      simp only [owedSt]
      exact ⟨Enc.run cd cfg n ⟨⟨[], none⟩, false⟩ evs, by simp [Enc.run, Enc.pollFrame, Enc.pollNext, hs]⟩
    | none =>
      have hn' : evs.length + 1 < n + 1 + 1 := by simpa using hn
      have hg := loop_good cd cfg evs []
      simp only [Enc.run, Enc.pollFrame, Enc.pollNext, Bool.false_eq_true, ↓reduceIte]
      generalize Enc.loop cd cfg [] evs = r at hg
      obtain ⟨s', evs', o⟩ := r
      obtain ⟨hbuf, hlen, hcase⟩ := hg
      obtain ⟨b', e'⟩ := s'
      dsimp only at hbuf hlen hcase ⊢
      subst hbuf
      cases o with
      | panic => exact hcase.elim
      | done =>
        obtain ⟨_, he, hev, hev'⟩ := hcase
        subst hev; subst hev'; subst he
        refine ⟨[], by simp, by simp [owedData, okPrefix], by simp, ?_⟩
        simp only [owedSt, finalSt, hs, Bool.false_eq_true, ↓reduceIte, List.nil_append]
        rw [run_client_done cd cfg hs n]; simp [List.replicate_succ]
      | err st =>
        obtain ⟨_, he, hok, hfin⟩ := hcase
        refine ⟨[], by simp, by simp [owedData, hok], by simp, ?_⟩
        simp only [owedSt, hfin, hs, Bool.false_eq_true, ↓reduceIte, List.nil_append]
        exact ⟨_, rfl⟩
      | pending =>
        obtain ⟨_, he, hok, hfin, hlt⟩ := hcase
        subst he
        obtain ⟨pre, hgood, hdata, hpl, hrun⟩ := ih none evs'
          (by simp only [Option.isSome_none, Bool.false_eq_true, ↓reduceIte]; omega)
        refine ⟨.pending :: pre, ?_, ?_, by simp; omega, ?_⟩
        · intro o ho
          rcases List.mem_cons.mp ho with rfl | ho
          · exact Or.inl rfl
          · exact hgood o ho
        · simp [FrameOut.bytes, hdata, owedData, hok]
        · simp only [owedSt, hfin] at hrun ⊢
          cases hf : finalSt cd cfg evs' with
          | some st =>
            rw [hf] at hrun
            obtain ⟨post, hp⟩ := hrun
            exact ⟨post, by simp [hp]⟩
          | none =>
            rw [hf] at hrun
            simp [hrun]
      | data d =>
        obtain ⟨ms, hd, hne, hok, hfin, hprog⟩ := hcase
        have hmeasure : evs'.length + (if e'.isSome then 1 else 0) + 1 < n + 1 := by
          simp only [↓reduceIte] at hprog; omega
        obtain ⟨pre, hgood, hdata, hpl, hrun⟩ := ih e' evs' hmeasure
        have hst : owedSt cd cfg none evs = owedSt cd cfg e' evs' := by
          simp only [owedSt, hfin]
        refine ⟨.data d :: pre, ?_, ?_, by simp; omega, ?_⟩
        · intro o ho
          rcases List.mem_cons.mp ho with rfl | ho
          · exact Or.inr ⟨d, rfl, hne, ms, by simpa using hd⟩
          · exact hgood o ho
        · simp only [dataConcat_cons, FrameOut.bytes, hdata, owedData, hok, hd, List.nil_append]
          cases e' <;> simp [framesOf_append]
        · rw [hst]
          cases hf : owedSt cd cfg e' evs' with
          | some st =>
            rw [hf] at hrun
            obtain ⟨post, hp⟩ := hrun
            exact ⟨post, by simp [hp]⟩
          | none =>
            rw [hf] at hrun
            simp [hrun]

/-! ### `is_end_stream` -/

/-- The flag is raised only by the poll that produces the trailers frame, and only in a server body. -/
theorem pollFrame_end (cd : Codec α) (cfg : EncCfg) (b : BodySt) (evs : List (SrcEv α))
    (hb : b.isEndStream = false) (h : (Enc.pollFrame cd cfg b evs).1.isEndStream = true) :
    cfg.server = true ∧ ∃ st, (Enc.pollFrame cd cfg b evs).2.2 = .trailers st := by
  unfold Enc.pollFrame at h ⊢
  simp only [hb, Bool.false_eq_true, ↓reduceIte] at h ⊢
  generalize Enc.pollNext cd cfg b.inner evs = r at h ⊢
  obtain ⟨s', evs', o⟩ := r
  cases o with
  | data d => simp [hb] at h
  | pending => simp [hb] at h
  | panic => simp [hb] at h
  | err st =>
    dsimp only at h ⊢
    cases hs : cfg.server with
    | true => simp
    | false => simp [hs, hb] at h
  | done =>
    dsimp only at h ⊢
    cases hs : cfg.server with
    | true => simp
    | false => simp [hs, hb] at h

theorem endFlags_ended (cd : Codec α) (cfg : EncCfg) (n : Nat) : ∀ (b : BodySt) (evs : List (SrcEv α)),
    b.isEndStream = true → Enc.endFlags cd cfg n b evs = List.replicate (n + 1) true := by
  induction n with
  | zero => intro b evs h; simp [Enc.endFlags, Enc.isEndStream, h]
  | succ n ih =>
    intro b evs h
    simp only [Enc.endFlags, Enc.pollFrame, h, ↓reduceIte, Enc.isEndStream]
    rw [ih b evs h]
    simp [List.replicate_succ]

/-- **`is_end_stream()` is true only after the trailers frame.**  From a body that has not ended:
if the flag observed before poll `i` (or after the last poll) is true, the body is a server body,
the trailers frame was produced by an earlier poll, and every poll from `i` on yields `None` — in
particular no data frame follows, and a client body never raises the flag. -/
theorem endFlags_sound (cd : Codec α) (cfg : EncCfg) (n : Nat) : ∀ (b : BodySt) (evs : List (SrcEv α)),
    b.isEndStream = false → ∀ (i : Nat), (Enc.endFlags cd cfg n b evs)[i]? = some true →
    cfg.server = true ∧ (∃ (j : Nat) (st : St), j < i ∧ (Enc.run cd cfg n b evs)[j]? = some (FrameOut.trailers st)) ∧
    ∀ (j : Nat) (o : FrameOut), i ≤ j → (Enc.run cd cfg n b evs)[j]? = some o → o = FrameOut.none := by
  induction n with
  | zero =>
    intro b evs hb i hi
    cases i with
    | zero => simp [Enc.endFlags, Enc.isEndStream, hb] at hi
    | succ i => simp [Enc.endFlags] at hi
  | succ n ih =>
    intro b evs hb i hi
    cases i with
    | zero => simp [Enc.endFlags, Enc.isEndStream, hb] at hi
    | succ i =>
      have hend := pollFrame_end cd cfg b evs hb
      simp only [Enc.endFlags, Enc.run] at hi ⊢
      generalize Enc.pollFrame cd cfg b evs = r at hi hend ⊢
      obtain ⟨b', evs', o⟩ := r
      simp only [List.getElem?_cons_succ] at hi
      cases hb' : b'.isEndStream with
      | false =>
        obtain ⟨hs, ⟨j, st, hj, hrun⟩, hafter⟩ := ih b' evs' hb' i hi
        refine ⟨hs, ⟨j + 1, st, by omega, by simpa using hrun⟩, ?_⟩
        intro j' o' hle hget
        cases j' with
        | zero => omega
        | succ j' => exact hafter j' o' (by omega) (by simpa using hget)
      | true =>
        obtain ⟨hs, st, ho⟩ := hend hb'
        dsimp only at ho
        subst ho
        refine ⟨hs, ⟨0, st, by omega, by simp⟩, ?_⟩
        intro j' o' hle hget
        cases j' with
        | zero => omega
        | succ j' =>
          rw [run_ended cd cfg n b' evs' hb'] at hget
          simp only [List.getElem?_cons_succ] at hget
          have := List.mem_of_getElem? hget
          exact (List.mem_replicate.mp this).2

/-! ### A failing `Encoder::encode` at any position -/

/-- a prefix of a schedule that cannot fail: `Pending`s and encodable items only -/
def AllOk (cd : Codec α) (cfg : EncCfg) : List (SrcEv α) → Prop
  | [] => True
  | .pending :: r => AllOk cd cfg r
  | .item m :: r => encodeErr cd cfg m = none ∧ AllOk cd cfg r
  | .err _ :: _ => False

def itemsOfEvs : List (SrcEv α) → List α
  | [] => []
  | .item m :: r => m :: itemsOfEvs r
  | _ :: r => itemsOfEvs r

theorem okPrefix_append (cd : Codec α) (cfg : EncCfg) (pre tail : List (SrcEv α)) (h : AllOk cd cfg pre) :
    okPrefix cd cfg (pre ++ tail) = itemsOfEvs pre ++ okPrefix cd cfg tail ∧
    finalSt cd cfg (pre ++ tail) = finalSt cd cfg tail := by
  induction pre with
  | nil => simp [itemsOfEvs]
  | cons ev r ih =>
    cases ev with
    | pending => simpa [okPrefix, itemsOfEvs, finalSt] using ih h
    | err st => exact absurd h (by simp [AllOk])
    | item m =>
      obtain ⟨he, hr⟩ := h
      simp [okPrefix, itemsOfEvs, finalSt, he, ih hr]

theorem serFail_encodeErr (cd : Codec α) (cfg : EncCfg) (m : α) (h : cd.serFail m = true) :
    encodeErr cd cfg m = some ⟨13, .encode⟩ := by
  simp [encodeErr, h]

end Framing
