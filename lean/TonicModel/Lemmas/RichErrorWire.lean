import TonicModel.Lemmas.PbWire2
import TonicModel.Lemmas.RichError
/-
The concrete prost model satisfies the round-trip laws that the parametric C20 theorems assume:
`decDetail d.kind (encDetail d) = some d` for every well-formed detail, and
`decStatus (encStatus st) = some st` for every well-formed google.rpc.Status.
-/
namespace RichError
open PbWire

theorem normalize_id (s n : Int) (hs : 0 ≤ s) (hn : 0 ≤ n) (hn' : n < 1000000000) : normalize s n = (s, n) := by
  have h1 : ¬ (n ≤ -nanosPerSec ∨ nanosPerSec ≤ n) := by simp only [nanosPerSec]; omega
  simp only [normalize, h1, if_false]
  have h2 : ¬ (s < 0 ∧ 0 < n) := by omega
  have h3 : ¬ (0 < s ∧ n < 0) := by omega
  simp only [h2, h3, if_false]

theorem durOfPb_durToPb (d : Dur) (h : Spec.RichError.wfDur d = true) : durOfPb (durToPb d) = d := by
  obtain ⟨s, n⟩ := d
  simp only [Spec.RichError.wfDur, Bool.and_eq_true, decide_eq_true_eq] at h
  have hs : ((s : Nat) : Int) ≤ i64Max := by simp only [i64Max]; omega
  have hid := normalize_id (s : Int) (n : Int) (by omega) (by omega) (by omega)
  simp only [durToPb, hs, if_true, hid, durOfPb, List.getD_cons_zero, List.getD_cons_succ, svInt, durOfPair]
  have : ¬ ((s : Int) < 0 ∨ (n : Int) < 0) := by omega
  simp [this]

theorem flatOk_durToPb (d : Dur) (h : Spec.RichError.wfDur d = true) : FlatOk [.i64, .i32] (durToPb d) := by
  obtain ⟨s, n⟩ := d
  simp only [Spec.RichError.wfDur, Bool.and_eq_true, decide_eq_true_eq] at h
  have hs : ((s : Nat) : Int) ≤ i64Max := by simp only [i64Max]; omega
  have hid := normalize_id (s : Int) (n : Int) (by omega) (by omega) (by omega)
  simp only [durToPb, hs, if_true, hid, FlatOk, ScOk]
  simp only [i64Max] at hs
  refine ⟨⟨by omega, by omega⟩, ⟨by omega, by omega⟩, trivial⟩

/-- `From<pb::K> for K` undoes `From<K> for pb::K` -/
theorem ofPb_toPb (d : ErrorDetail) (h : Spec.RichError.wfDetail d = true) : ofPb d.kind (toPb d) = d := by
  cases d with
  | retryInfo x =>
    obtain ⟨o⟩ := x
    cases o with
    | none => rfl
    | some dd =>
      simp only [Spec.RichError.wfDetail] at h
      simp [ErrorDetail.kind, toPb, ofPb, getOptFlat, durOfPb_durToPb dd h]
  | debugInfo x => rfl
  | quotaFailure x =>
    simp [ErrorDetail.kind, toPb, ofPb, getRepFlat, flatStr, svBytes, Function.comp_def]
  | errorInfo x => rfl
  | preconditionFailure x =>
    simp [ErrorDetail.kind, toPb, ofPb, getRepFlat, flatStr, svBytes, Function.comp_def]
  | badRequest x =>
    simp [ErrorDetail.kind, toPb, ofPb, getRepFlat, flatStr, svBytes, Function.comp_def]
  | requestInfo x => rfl
  | resourceInfo x => rfl
  | help x =>
    simp [ErrorDetail.kind, toPb, ofPb, getRepFlat, flatStr, svBytes, Function.comp_def]
  | localizedMessage x => rfl

theorem distinctKeys_iff (l : List (Bytes × Bytes)) (h : Spec.RichError.distinctKeys l = true) : DistinctKeys l := by
  induction l with
  | nil => trivial
  | cons e rest ih =>
    simp only [Spec.RichError.distinctKeys, Bool.and_eq_true, Bool.not_eq_true', List.any_eq_false,
      beq_iff_eq] at h
    exact ⟨fun x hx => h.1 x hx, ih h.2⟩

/-- the pb form of a well-formed detail is well-typed for the schema of its kind -/
theorem l2Ok_toPb (d : ErrorDetail) (h : Spec.RichError.wfDetail d = true) : L2Ok (schemaOf d.kind) (toPb d) := by
  cases d with
  | retryInfo x =>
    obtain ⟨o⟩ := x
    refine ⟨by simp [F2.small], ?_, trivial⟩
    intro v hv
    cases o with
    | none => simp at hv
    | some dd =>
      simp only [Spec.RichError.wfDetail] at h
      simp only [Option.map_some, Option.some.injEq] at hv
      subst hv
      exact flatOk_durToPb dd h
  | debugInfo x =>
    simp only [Spec.RichError.wfDetail, Bool.and_eq_true, List.all_eq_true] at h
    exact ⟨trivial, h.1, trivial, h.2, trivial⟩
  | quotaFailure x =>
    simp only [Spec.RichError.wfDetail, Bool.and_eq_true, List.all_eq_true] at h
    refine ⟨by simp [F2.small], ?_, trivial⟩
    intro v hv
    obtain ⟨q, hq, rfl⟩ := List.mem_map.mp hv
    exact ⟨(h q hq).1, (h q hq).2, trivial⟩
  | errorInfo x =>
    simp only [Spec.RichError.wfDetail, Bool.and_eq_true, List.all_eq_true] at h
    exact ⟨trivial, h.1.1.1, trivial, h.1.1.2, trivial, ⟨h.1.2, distinctKeys_iff _ h.2⟩, trivial⟩
  | preconditionFailure x =>
    simp only [Spec.RichError.wfDetail, Bool.and_eq_true, List.all_eq_true] at h
    refine ⟨by simp [F2.small], ?_, trivial⟩
    intro v hv
    obtain ⟨q, hq, rfl⟩ := List.mem_map.mp hv
    exact ⟨(h q hq).1.1, (h q hq).1.2, (h q hq).2, trivial⟩
  | badRequest x =>
    simp only [Spec.RichError.wfDetail, Bool.and_eq_true, List.all_eq_true] at h
    refine ⟨by simp [F2.small], ?_, trivial⟩
    intro v hv
    obtain ⟨q, hq, rfl⟩ := List.mem_map.mp hv
    exact ⟨(h q hq).1, (h q hq).2, trivial⟩
  | requestInfo x =>
    simp only [Spec.RichError.wfDetail, Bool.and_eq_true] at h
    exact ⟨trivial, h.1, trivial, h.2, trivial⟩
  | resourceInfo x =>
    simp only [Spec.RichError.wfDetail, Bool.and_eq_true] at h
    exact ⟨trivial, h.1.1.1, trivial, h.1.1.2, trivial, h.1.2, trivial, h.2, trivial⟩
  | help x =>
    simp only [Spec.RichError.wfDetail, Bool.and_eq_true, List.all_eq_true] at h
    refine ⟨by simp [F2.small], ?_, trivial⟩
    intro v hv
    obtain ⟨q, hq, rfl⟩ := List.mem_map.mp hv
    exact ⟨(h q hq).1, (h q hq).2, trivial⟩
  | localizedMessage x =>
    simp only [Spec.RichError.wfDetail, Bool.and_eq_true] at h
    exact ⟨trivial, h.1, trivial, h.2, trivial⟩

/-- well-formed detail: the Rust-level invariants (`Spec.wfDetail`) and an encoding below 2^64 bytes -/
def WFd (d : ErrorDetail) : Prop :=
  Spec.RichError.wfDetail d = true ∧ (prost.encDetail d).length < 18446744073709551616

/-- well-formed google.rpc.Status: `int32` code, UTF-8 message and type URLs, encoding below 2^64 bytes -/
def WFs (st : PbStatus) : Prop :=
  (-2147483648 ≤ st.code ∧ st.code < 2147483648) ∧ Utf8Rust.valid st.message = true ∧
  (∀ a ∈ st.details, Utf8Rust.valid a.typeUrl = true) ∧
  (prost.encStatus st).length < 18446744073709551616

theorem prost_detail_law (d : ErrorDetail) (h : WFd d) : prost.decDetail d.kind (prost.encDetail d) = some d := by
  have hsch : (schemaOf d.kind).length + 1 < 536870912 := by cases d <;> simp [ErrorDetail.kind, schemaOf]
  simp only [prost]
  rw [decodeL2_encL2 _ _ hsch (l2Ok_toPb d h.1) h.2]
  simp [ofPb_toPb d h.1]

theorem statusOfPb_statusToPb (st : PbStatus) : statusOfPb (statusToPb st) = st := by
  obtain ⟨c, m, ds⟩ := st
  simp [statusOfPb, statusToPb, getInt, getStr, vStr, getRepFlat, flatStr, svBytes, Function.comp_def]

theorem prost_status_law (st : PbStatus) (h : WFs st) : prost.decStatus (prost.encStatus st) = some st := by
  obtain ⟨hc, hm, hu, hb⟩ := h
  have hok : L2Ok statusSchema (statusToPb st) := by
    refine ⟨trivial, hc, trivial, hm, by simp [F2.small], ?_, trivial⟩
    intro v hv
    obtain ⟨a, ha, rfl⟩ := List.mem_map.mp hv
    exact ⟨hu a ha, trivial, trivial⟩
  simp only [prost]
  rw [decodeL2_encL2 _ _ (by decide) hok hb]
  simp [statusOfPb_statusToPb]

theorem kind_ofPb (k : Kind) (vs : List V2) : (ofPb k vs).kind = k := by cases k <;> rfl

theorem prost_kind_law (k : Kind) (b : Bytes) (d : ErrorDetail) (h : prost.decDetail k b = some d) :
    d.kind = k := by
  simp only [prost, Option.map_eq_some_iff] at h
  obtain ⟨vs, _, rfl⟩ := h
  exact kind_ofPb k vs

/-- prost (as modelled) satisfies the laws the parametric theorems assume -/
theorem prost_laws : prost.Laws WFd WFs := ⟨prost_detail_law, prost_status_law⟩



/-! ### one size hypothesis: the details bytes as a whole are shorter than 2^64 -/

theorem length_le_flatMap {α : Type} (g : α → Bytes) (l : List α) (a : α) (h : a ∈ l) :
    (g a).length ≤ (l.flatMap g).length := by
  induction l with
  | nil => simp at h
  | cons x l ih =>
    simp only [List.flatMap_cons, List.length_append]
    rcases List.mem_cons.mp h with rfl | h
    · omega
    · have := ih h; omega

theorem length_le_encScalarField_b (tag : Nat) (k : Sc) (s : Bytes) (hk : k = .str ∨ k = .bytes) :
    s.length ≤ (encScalarField tag k (.b s)).length := by
  rcases hk with rfl | rfl <;> simp only [encScalarField] <;> split
  all_goals first | (subst_vars; simp) | exact length_le_lenDelim tag s

theorem encAny_eq (u v : Bytes) : encFlat [.str, .bytes] [.b u, .b v] =
    encScalarField 1 .str (.b u) ++ (encScalarField 2 .bytes (.b v) ++ []) := rfl

theorem value_le_any (u v : Bytes) : v.length ≤ (encFlat [.str, .bytes] [.b u, .b v]).length := by
  have := length_le_encScalarField_b 2 .bytes v (Or.inr rfl)
  rw [encAny_eq]
  simp only [List.length_append]
  omega

theorem encStatus_eq (st : PbStatus) : prost.encStatus st =
    encScalarField 1 .i32 (.i st.code) ++ (encScalarField 2 .str (.b st.message) ++
      (((st.details.map fun a => [SV.b a.typeUrl, SV.b a.value]).flatMap
        (fun v => lenDelim 3 (encFlat [.str, .bytes] v))) ++ [])) := rfl

theorem le_of_mem_flatMap_ctx {α : Type} (pre1 pre2 : Bytes) (g : α → Bytes) (l : List α) (x : α)
    (n : Nat) (hx : x ∈ l) (hn : n ≤ (g x).length) :
    n ≤ (pre1 ++ (pre2 ++ (l.flatMap g ++ []))).length := by
  have := length_le_flatMap g l x hx
  simp only [List.length_append, List.length_nil]
  omega

theorem encDetail_le_status (code : Nat) (msg : Bytes) (ds : List ErrorDetail) (d : ErrorDetail) (h : d ∈ ds) :
    (prost.encDetail d).length ≤ (genDetailsBytes prost code msg (ds.map (intoAny prost))).length := by
  have hmem : [SV.b (typeUrl d.kind), SV.b (prost.encDetail d)] ∈
      ((ds.map (intoAny prost)).map fun a => [SV.b a.typeUrl, SV.b a.value]) :=
    List.mem_map.mpr ⟨intoAny prost d, List.mem_map.mpr ⟨d, h, rfl⟩, rfl⟩
  have h2 := length_le_lenDelim 3 (encFlat [.str, .bytes] [.b (typeUrl d.kind), .b (prost.encDetail d)])
  have h3 := value_le_any (typeUrl d.kind) (prost.encDetail d)
  unfold genDetailsBytes
  rw [encStatus_eq]
  exact le_of_mem_flatMap_ctx _ _ (fun v : List SV => lenDelim 3 (encFlat [.str, .bytes] v)) _ _ _ hmem
    (Nat.le_trans h3 h2)

theorem valid_of_ascii (l : Bytes) (h : l.all (fun b => b.toNat < 128) = true) : Utf8Rust.valid l = true := by
  induction l with
  | nil => rfl
  | cons a rest ih =>
    simp only [List.all_cons, Bool.and_eq_true, decide_eq_true_eq] at h
    rw [Utf8Rust.valid.eq_def]
    simp [h.1, ih h.2]

theorem valid_typeUrl (k : Kind) : Utf8Rust.valid (typeUrl k) = true := by
  apply valid_of_ascii
  cases k <;> decide

/-- the hypotheses of the parametric theorems from plain ones: well-formed details, UTF-8 message,
a real status code, and details bytes shorter than 2^64 -/
theorem wf_of_plain (code : Nat) (msg : Bytes) (ds : List ErrorDetail)
    (hwf : ∀ d ∈ ds, Spec.RichError.wfDetail d = true) (hmsg : Utf8Rust.valid msg = true)
    (hcode : code ≤ 16)
    (hsize : (genDetailsBytes prost code msg (ds.map (intoAny prost))).length < 18446744073709551616) :
    (∀ d ∈ ds, WFd d) ∧ WFs ⟨code, msg, ds.map (intoAny prost)⟩ := by
  constructor
  · intro d hd
    exact ⟨hwf d hd, by have := encDetail_le_status code msg ds d hd; omega⟩
  · refine ⟨by show (-2147483648 : Int) ≤ (code : Int) ∧ (code : Int) < 2147483648; omega, hmsg, ?_, hsize⟩
    intro a ha
    obtain ⟨d, _, rfl⟩ := List.mem_map.mp ha
    exact valid_typeUrl _

end RichError
