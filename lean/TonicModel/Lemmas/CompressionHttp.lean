import TonicModel.Lemmas.Compression
import TonicModel.Model.CompressionHttp
/-
Lemmas for the HTTP-status dimension of C05 (`Model/CompressionHttp`).
-/
namespace Compression
open CompObs
open Spec.Compression

theorem callHttp_request (cfg : CliCfg) (shape : Shape) (umdEnc umdAcc : List Bytes) (k http : Nat)
    (resp : CliResp) :
    (callHttp cfg shape umdEnc umdAcc k http resp).enc = (call cfg shape umdEnc umdAcc k resp).enc ∧
    (callHttp cfg shape umdEnc umdAcc k http resp).acc = (call cfg shape umdEnc umdAcc k resp).acc ∧
    (callHttp cfg shape umdEnc umdAcc k http resp).frames = (call cfg shape umdEnc umdAcc k resp).frames := by
  unfold callHttp
  split
  · exact ⟨rfl, rfl, rfl⟩
  · rw [call_eq]
    simp only
    cases fromEncodingHeader resp.encVals cfg.accept <;> exact ⟨rfl, rfl, rfl⟩

theorem cliSend_congr (send : Option Enc) (o o' : CliObs) (h1 : o.enc = o'.enc) (h2 : o.frames = o'.frames) :
    cliSend send o = cliSend send o' := by
  unfold cliSend; rw [h1, h2]

theorem cliAdvertise_congr (accept : List Enc) (o o' : CliObs) (h : o.acc = o'.acc) :
    cliAdvertise accept o = cliAdvertise accept o' := by
  unfold cliAdvertise; rw [h]

theorem httpItems_cls (http : Nat) (resp : CliResp) (hp : resp.peerCls ≠ .unsupported) :
    ∀ it ∈ httpItems http resp, it ≠ .err 12 .unsupported := by
  intro it hit
  unfold httpItems at hit
  split at hit
  · cases hit
  · simp only [List.mem_singleton] at hit; subst hit; simp [hp]
  · simp only [List.mem_singleton] at hit; subst hit; simp

theorem callHttp_refuse (cfg : CliCfg) (accept : List Enc) (hA : Agree cfg.accept accept) (shape : Shape)
    (umdEnc umdAcc : List Bytes) (k http : Nat) (resp : CliResp) (hp : resp.peerCls ≠ .unsupported) :
    cliRefuse accept resp (callHttp cfg shape umdEnc umdAcc k http resp) = true := by
  unfold callHttp
  split
  · exact call_refuse cfg accept hA shape umdEnc umdAcc k resp hp
  · have hrecv := fromEncoding_spec cfg.accept accept hA resp.encVals
    unfold cliRefuse
    rw [← hrecv]
    cases hE : fromEncodingHeader resp.encVals cfg.accept with
    | error v => simp [toRecv]
    | ok neg =>
      have goal : ∀ it ∈ (if shape.singleResponse then
            match unaryRead (httpItems http resp) with
            | .error (c, k) => [Item.err c k]
            | .ok f => [Item.ok f]
          else httpItems http resp), it ≠ .err 12 .unsupported := by
        intro it hit
        split at hit
        · split at hit
          · rename_i c k hu
            simp only [List.mem_singleton] at hit; subst hit
            rcases unaryRead_error _ _ _ hu with ⟨_, rfl, rfl⟩ | hfe
            · simp
            · exact httpItems_cls http resp hp _ (firstErr_mem _ _ _ hfe)
          · simp only [List.mem_singleton] at hit; subst hit; simp
        · exact httpItems_cls http resp hp _ hit
      cases neg <;> simp only [toRecv, List.all_eq_true] <;> intro it hit <;>
        simpa using goal it hit

end Compression
