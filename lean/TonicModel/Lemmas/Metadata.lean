import TonicModel.Model.Metadata
import TonicModel.Spec.Metadata
import TonicModel.Lemmas.Status
/-
Helper lemmas for C08: header-name normalisation is ASCII lower-casing, the repaired suffix test
on a lookup key is the spec's test on the stored name, typed construction is the list of accepted
entries, reserved-name bookkeeping.
-/
namespace Metadata
open Status (Variant)

theorem headerChar_lower : ∀ n : Fin 256, ∀ c, HMap.headerChar (UInt8.ofNat n.val) = some c →
    c = Ascii.toLower (UInt8.ofNat n.val) := by decide +kernel

theorem headerChar_lower' (b c : UInt8) (h : HMap.headerChar b = some c) : c = Ascii.toLower b := by
  have := headerChar_lower ⟨b.toNat, b.toNat_lt⟩ c
  simp only [UInt8.ofNat_toNat] at this
  exact this h

theorem mapM_headerChar (ks n : Bytes) (h : ks.mapM HMap.headerChar = some n) : n = ks.map Ascii.toLower := by
  induction ks generalizing n with
  | nil => simp at h; simp [h]
  | cons b rest ih =>
    rw [List.mapM_cons] at h
    cases hb : HMap.headerChar b with
    | none => simp [hb] at h
    | some c =>
      cases hr : rest.mapM HMap.headerChar with
      | none => simp [hb, hr] at h
      | some r =>
        simp [hb, hr] at h
        subst h
        simp [headerChar_lower' b c hb, ih r hr]

/-- a normalised header name is the ASCII lower-casing of what was given -/
theorem normName_lower (ks n : Bytes) (h : HMap.normName ks = some n) : n = ks.map Ascii.toLower := by
  unfold HMap.normName at h
  split at h
  · cases h
  · exact mapM_headerChar ks n h

theorem toLower_idem : ∀ n : Fin 256, Ascii.toLower (Ascii.toLower (UInt8.ofNat n.val)) = Ascii.toLower (UInt8.ofNat n.val) := by
  decide +kernel

theorem toLower_idem' (b : UInt8) : Ascii.toLower (Ascii.toLower b) = Ascii.toLower b := by
  have := toLower_idem ⟨b.toNat, b.toNat_lt⟩
  simpa using this

theorem map_toLower_idem (ks : Bytes) : (ks.map Ascii.toLower).map Ascii.toLower = ks.map Ascii.toLower := by
  simp [toLower_idem']

/-- the model's suffix test (last four bytes) is the spec's (reversed name starts with `nib-`) -/
theorem endsWith_bin_iff (n : Bytes) : endsWith n binSuffix = Spec.Metadata.isBinName n := by
  unfold endsWith Spec.Metadata.isBinName
  have hs : binSuffix = [45, 98, 105, 110] := by decide
  rw [hs]
  simp only [List.length_cons, List.length_nil]
  by_cases hl : 4 ≤ n.length
  · have : n.reverse.take 4 = (n.drop (n.length - 4)).reverse := by
      rw [List.take_reverse]
    rw [this]
    simp only [show (0 + 1 + 1 + 1 + 1) = 4 from rfl, hl, decide_true, Bool.true_and]
    generalize n.drop (n.length - 4) = d
    by_cases hd : d = [45, 98, 105, 110]
    · subst hd; decide
    · have h1 : (d == [45, 98, 105, 110]) = false := by simpa using hd
      have h2 : (d.reverse == [110, 105, 98, 45]) = false := by
        simp only [beq_eq_false_iff_ne, ne_eq]
        intro h
        apply hd
        have := congrArg List.reverse h
        simpa using this
      rw [h1, h2]
  · have h1 : ¬ (0 + 1 + 1 + 1 + 1) ≤ n.length := by omega
    simp only [h1, decide_false, Bool.false_and]
    have : (n.reverse.take 4).length < 4 := by simp; omega
    symm
    simp only [beq_eq_false_iff_ne, ne_eq]
    intro h
    rw [h] at this
    simp at this

/-- **Key fact for the accessors (repaired tree).** Whatever the spelling of a lookup key, the
suffix test applied to it gives the category of the stored name it will find. -/
theorem isBinKey_fixed_norm (ks n : Bytes) (h : HMap.normName ks = some n) :
    isBinKey .fixed ks = Spec.Metadata.isBinName n := by
  have hn := normName_lower ks n h
  unfold isBinKey
  simp only []
  rw [← hn, endsWith_bin_iff]

/-- on the pinned tree the same holds for keys that are already lower-case -/
theorem isBinKey_orig_lower (n : Bytes) :
    isBinKey .orig n = Spec.Metadata.isBinName n := by
  unfold isBinKey
  simp only []
  exact endsWith_bin_iff n

theorem isBinKey_fixed_stored (n : Bytes) (h : HMap.normName n = some n) :
    isBinKey .fixed n = Spec.Metadata.isBinName n := isBinKey_fixed_norm n n h

/-! ### reserved names -/

theorem mem_reserved_iff (k : Bytes) : k ∈ Spec.Metadata.reserved ↔ k ∈ Status.reservedHeaders := by
  simp only [Spec.Metadata.reserved, Status.reservedHeaders, Status.TE, Status.USER_AGENT, Status.CONTENT_TYPE,
    Status.GRPC_MESSAGE, Status.GRPC_MESSAGE_TYPE, Status.GRPC_STATUS, List.mem_cons, List.mem_nil_iff, or_false]
  constructor <;> (intro h; rcases h with h | h | h | h | h | h <;> simp [h])

/-! ### typed construction -/

/-- the stored `(name, wire value)` of a typed entry, if the API accepts it -/
def storedEntry (v : Variant) (e : Enc × Bytes × Bytes) : Option (Bytes × Bytes) :=
  match keyFromBytes v e.1 e.2.1 with
  | none => none
  | some n =>
    match valueFromBytes e.1 e.2.2 with
    | none => none
    | some w => some (n, w)

theorem append_snd (v : Variant) (e : Enc × Bytes × Bytes) (m : HMap) :
    (append v e.1 e.2.1 e.2.2 m).2 = m ++ (storedEntry v e).toList := by
  unfold append storedEntry
  cases keyFromBytes v e.1 e.2.1 with
  | none => simp
  | some n =>
    cases valueFromBytes e.1 e.2.2 with
    | none => simp
    | some w => simp [HMap.append]

theorem buildTyped_from (v : Variant) (es : List (Enc × Bytes × Bytes)) (m : HMap) :
    es.foldl (fun m e => (append v e.1 e.2.1 e.2.2 m).2) m = m ++ es.filterMap (storedEntry v) := by
  induction es generalizing m with
  | nil => simp
  | cons e es ih =>
    rw [List.foldl_cons, ih, append_snd, List.filterMap_cons]
    cases storedEntry v e <;> simp

/-- a map built by typed `append`s is exactly the accepted entries, in order -/
theorem buildTyped_eq (v : Variant) (es : List (Enc × Bytes × Bytes)) :
    buildTyped v es = es.filterMap (storedEntry v) := by
  unfold buildTyped
  rw [buildTyped_from]; simp

/-- the values a typed view shows under one name are the stored values of that name, decoded by
the category of the name, in order -/
theorem typedView_of_name (v : Variant) (m : HMap) (n : Bytes) :
    (typedView v m).filterMap (fun r => if r.2.1 = n then some (r.1, r.2.2) else none) =
      (HMap.getAll n m).map (fun w =>
        let enc := if validKey v .ascii n then Enc.ascii else Enc.binary
        (enc, valueToBytes enc w)) := by
  induction m with
  | nil => simp [typedView, iter, HMap.getAll_nil]
  | cons e m ih =>
    simp only [typedView, iter, List.map_cons, List.filterMap_cons] at ih ⊢
    rw [HMap.getAll_cons]
    by_cases h : e.1 = n
    · subst h; simp only [if_true, List.map_cons]; rw [← ih]
    · simp only [h, if_false]; exact ih

end Metadata
