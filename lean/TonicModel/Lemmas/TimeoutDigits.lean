import TonicModel.Basic.Bytes
import TonicModel.Spec.Timeout
/-
C09: the number reader `digitsVal` / `Ascii.isDigit` (shared by the oracle `Spec.Timeout.denote` and
the model's `parseValue`) against the table-and-powers-of-ten reading `Spec.Timeout.positional`,
which mentions neither.  (Lean review round 4, lr5-6.)
-/
namespace Spec.Timeout

theorem digitOf_eq (b : UInt8) :
    digitOf b = if Ascii.isDigit b then some (b.toNat - 48) else none := by
  unfold digitOf Ascii.isDigit
  repeat' split
  all_goals simp_all
  all_goals omega

theorem digitsVal_acc (bs : Bytes) : ∀ acc : Nat,
    bs.foldl (fun acc b => acc * 10 + (b.toNat - 48)) acc = acc * 10 ^ bs.length + digitsVal bs := by
  induction bs with
  | nil => intro acc; simp [digitsVal]
  | cons b bs ih =>
    intro acc
    simp only [List.foldl_cons, digitsVal, List.length_cons]
    rw [ih, ih (0 * 10 + _)]
    simp [Nat.pow_succ, Nat.add_mul, Nat.mul_assoc, Nat.add_assoc, Nat.mul_comm 10]

/-- The shared reader is the positional reading: on digit strings `digitsVal` is `Σ dᵢ·10^(n-1-i)`
with the digits' values taken from the table, and `Ascii.isDigit` accepts exactly the table's bytes. -/
theorem positional_eq (ds : Bytes) :
    positional ds = if ds.all Ascii.isDigit then some (digitsVal ds) else none := by
  induction ds with
  | nil => simp [positional, digitsVal]
  | cons b bs ih =>
    simp only [positional, ih, digitOf_eq, List.all_cons]
    by_cases hb : Ascii.isDigit b = true <;> by_cases hbs : bs.all Ascii.isDigit = true <;>
      simp [hb, hbs]
    simp only [digitsVal, List.foldl_cons]
    rw [digitsVal_acc (acc := 0 * 10 + _)]
    simp [digitsVal]

/-- The two readings of a header value agree on every byte string. -/
theorem denote_eq_positional (v : Bytes) : denote v = denotePositional v := by
  unfold denote denotePositional
  cases v.getLast? with
  | none => rfl
  | some ub =>
    simp only [positional_eq]
    by_cases h3 : v.dropLast.all Ascii.isDigit = true <;>
      cases hu : unitNanos ub <;> simp_all

end Spec.Timeout
