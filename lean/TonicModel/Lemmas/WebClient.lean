import TonicModel.Model.WebClient
import TonicModel.Spec.GrpcWeb
import TonicModel.Lemmas.GrpcWeb
/-
Lemmas about the repaired grpc-web client loop (`WebClient.Fixed`).
-/
namespace WebClientLemmas
open WebClient WebClient.Fixed
open WebServer (BodyEv Out flat notPending dataOf)
open Spec.GrpcWeb (WellFramed rawFrame flagOk frameBytes framesBytes lineOfSp trailersBlock trailersFrame
  lowerNameOk plainValueOk fieldValueOk tchar isUpper frameStructure frameStructureAux encItems)
open TMap (Pair)

/-! ### terminal frames -/

def isTerminal : Out → Bool
  | .eos => true
  | .err => true
  | _ => false

theorem onTrailer_emit {st st' : St} {len : Nat} {o : Out} (h : onTrailer st len = .emit o st') :
    isTerminal o = false := by
  unfold onTrailer at h
  split at h
  · cases h
  · split at h
    · cases h
    · split at h
      · cases h; rfl
      · cases h

theorem onExhausted_emit {eof : Bool} {st st' : St} {o : Out}
    (h : onExhausted eof st = .emit o st') : isTerminal o = false := by
  unfold onExhausted at h
  split at h
  · cases h
  · split at h
    · cases h
    · split at h
      · cases h; rfl
      · cases h

theorem afterPoll_emit {eof : Bool} {st st' : St} {o : Out} (h : afterPoll eof st = .emit o st') :
    isTerminal o = false := by
  unfold afterPoll at h
  split at h
  · cases h
  · exact onTrailer_emit h
  · split at h <;> cases h
  · split at h
    · exact onExhausted_emit h
    · cases h; rfl

theorem onTrailer_stop {st : St} {len : Nat} {os : List Out} (h : onTrailer st len = .stop os) :
    os = [.err] := by
  unfold onTrailer at h
  split at h
  · cases h; rfl
  · split at h
    · cases h; rfl
    · split at h <;> cases h

theorem onExhausted_stop {eof : Bool} {st : St} {os : List Out}
    (h : onExhausted eof st = .stop os) :
    os = [.err] ∨ (os = [.eos] ∧ eof = true ∧ st.decoded = []) := by
  unfold onExhausted at h
  split at h
  · cases h
  · rename_i he
    split at h
    · cases h; exact Or.inl rfl
    · rename_i hd
      split at h
      · cases h
      · cases h
        refine Or.inr ⟨rfl, by simpa using he, by simpa using hd⟩

theorem afterPoll_stop {eof : Bool} {st : St} {os : List Out} (h : afterPoll eof st = .stop os) :
    os = [.err] ∨ (os = [.eos] ∧ eof = true ∧ st.decoded = []) := by
  unfold afterPoll at h
  split at h
  · cases h; exact Or.inl rfl
  · exact Or.inl (onTrailer_stop h)
  · split at h
    · cases h; exact Or.inl rfl
    · cases h
  · split at h
    · exact onExhausted_stop h
    · cases h

/-! ### well-framed prefixes -/

theorem wf_nil : WellFramed [] := ⟨[], ⟨fun _ h => (by cases h), rfl⟩⟩

theorem wf_append {a b : Bytes} (ha : WellFramed a) (hb : WellFramed b) : WellFramed (a ++ b) := by
  obtain ⟨ia, ha1, ha2⟩ := ha
  obtain ⟨ib, hb1, hb2⟩ := hb
  refine ⟨ia ++ ib, ?_, ?_⟩
  · intro i hi
    rcases List.mem_append.1 hi with h | h
    · exact ha1 i h
    · exact hb1 i h
  · rw [List.flatMap_append, ha2, hb2]

theorem wf_frame (fl : UInt8) (p : Bytes) (hf : flagOk fl) (hp : p.length < 4294967296) :
    WellFramed (rawFrame fl p) := by
  refine ⟨[(fl, p)], ?_, ?_⟩
  · intro i hi
    have : i = (fl, p) := List.mem_singleton.1 hi
    subst this
    exact ⟨hf, hp⟩
  · rw [List.flatMap_cons, List.flatMap_nil, List.append_nil]

theorem rawFrame_length (fl : UInt8) (p : Bytes) : (rawFrame fl p).length = p.length + 5 := by
  simp only [rawFrame, List.length_cons, List.length_append, u32be_length]
  omega

/-- a sequence of complete MESSAGE frames (flag 0 or 1) -/
def MsgFramed (X : Bytes) : Prop :=
  ∃ its : List (UInt8 × Bytes),
    (∀ i ∈ its, (i.1 = 0 ∨ i.1 = 1) ∧ i.2.length < 4294967296) ∧ X = encItems its

theorem mf_nil : MsgFramed [] := ⟨[], ⟨fun _ h => (by cases h), rfl⟩⟩

theorem mf_append {a b : Bytes} (ha : MsgFramed a) (hb : MsgFramed b) : MsgFramed (a ++ b) := by
  obtain ⟨ia, ha1, ha2⟩ := ha
  obtain ⟨ib, hb1, hb2⟩ := hb
  refine ⟨ia ++ ib, ?_, ?_⟩
  · intro i hi
    rcases List.mem_append.1 hi with h | h
    · exact ha1 i h
    · exact hb1 i h
  · rw [encItems, List.flatMap_append, ha2, hb2]; rfl

theorem mf_frame (fl : UInt8) (p : Bytes) (hf : fl = 0 ∨ fl = 1) (hp : p.length < 4294967296) :
    MsgFramed (rawFrame fl p) := by
  refine ⟨[(fl, p)], ?_, ?_⟩
  · intro i hi
    have : i = (fl, p) := List.mem_singleton.1 hi
    subst this
    exact ⟨hf, hp⟩
  · rw [encItems, List.flatMap_cons, List.flatMap_nil, List.append_nil]

theorem mf_wf {X : Bytes} (h : MsgFramed X) : WellFramed X := by
  obtain ⟨its, h1, h2⟩ := h
  refine ⟨its, ?_, h2⟩
  intro i hi
  obtain ⟨hf, hl⟩ := h1 i hi
  refine ⟨?_, hl⟩
  rcases hf with h0 | h1'
  · exact Or.inl h0
  · exact Or.inr (Or.inl h1')

/-- what `hdr5` returns: the announced length `n` is the big-endian reading of bytes 1..4 -/
theorem hdr5_spec {D : Bytes} {h : UInt8} {n : Nat} {rest : Bytes}
    (hh : hdr5 D = some (h, n, rest)) :
    ∃ a b c d, D = h :: a :: b :: c :: d :: rest ∧ u32be n = [a, b, c, d] ∧ n < 4294967296 := by
  match D, hh with
  | h' :: a :: b :: c :: d :: rest', hh =>
    simp only [hdr5, Option.some.injEq, Prod.mk.injEq] at hh
    obtain ⟨rfl, rfl, rfl⟩ := hh
    exact ⟨a, b, c, d, rfl, u32be_readU32 a b c d, readU32_lt a b c d⟩

theorem hdr5_none {D : Bytes} (hh : hdr5 D = none) : D.length < 5 := by
  match D, hh with
  | [], _ => simp
  | [_], _ => simp
  | [_, _], _ => simp
  | [_, _, _], _ => simp
  | [_, _, _, _], _ => simp

/-- a header followed by at least as many bytes as it announces starts with a whole frame -/
theorem split_frame (h a b c d : UInt8) (rest : Bytes) (n : Nat) (hu : u32be n = [a, b, c, d])
    (hn : ¬ rest.length < n) :
    h :: a :: b :: c :: d :: rest = rawFrame h (rest.take n) ++ rest.drop n := by
  have hl : (rest.take n).length = n := by
    rw [List.length_take]; omega
  unfold rawFrame
  rw [hl, hu]
  simp only [List.cons_append, List.nil_append, List.take_append_drop]

theorem take_len (rest : Bytes) (n : Nat) (hn : ¬ rest.length < n) : (rest.take n).length = n := by
  rw [List.length_take]; omega

/-- What `find_trailers` walks over is a sequence of complete message frames; a reported
trailers frame has its five header bytes there and (after the fix) its whole block. -/
theorem scan_sound (fixed : Bool) : ∀ (f : Nat) (D : Bytes),
    (∀ l, scan fixed f D = .trailer l → l ≤ D.length ∧ MsgFramed (D.take l) ∧
      ∃ n rest, hdr5 (D.drop l) = some (128, n, rest) ∧ (fixed = true → ¬ rest.length < n)) ∧
    (∀ l, scan fixed f D = .done l → l ≤ D.length ∧ MsgFramed (D.take l)) := by
  intro f
  induction f with
  | zero => intro D; simp [scan]
  | succ f ih =>
    intro D
    simp only [scan]
    cases hh : hdr5 D with
    | none =>
      simp only
      refine ⟨(by intro l hl; cases hl), ?_⟩
      intro l hl
      cases hl
      exact ⟨Nat.zero_le _, by simpa using mf_nil⟩
    | some x =>
      obtain ⟨h, n, rest⟩ := x
      obtain ⟨a, b, c, d, hD, hu, hn32⟩ := hdr5_spec hh
      simp only
      by_cases h128 : h = 128
      · subst h128
        simp only [if_true]
        by_cases hinc : (fixed && decide (rest.length < n)) = true
        · simp only [hinc, if_true]
          exact ⟨(by intro l hl; cases hl), (by intro l hl; cases hl)⟩
        · simp only [hinc, Bool.false_eq_true, if_false]
          refine ⟨?_, (by intro l hl; cases hl)⟩
          intro l hl
          cases hl
          refine ⟨Nat.zero_le _, by simpa using mf_nil, n, rest, by simpa using hh, ?_⟩
          intro hf
          simpa [hf] using hinc
      · simp only [h128, if_false]
        by_cases hflag : (h = 0 || h = 1) = true
        · simp only [hflag, Bool.not_true, Bool.false_eq_true, if_false]
          by_cases hlt : rest.length < n
          · simp only [hlt, if_true]
            exact ⟨(by intro l hl; cases hl), (by intro l hl; cases hl)⟩
          · simp only [hlt, if_false]
            have hfl : h = 0 ∨ h = 1 := by
              simpa only [Bool.or_eq_true, decide_eq_true_eq] using hflag
            have hsplit := split_frame h a b c d rest n hu hlt
            have hwf := mf_frame h (rest.take n) hfl (by rw [take_len rest n hlt]; exact hn32)
            have hflen : (rawFrame h (rest.take n)).length = n + 5 := by
              rw [rawFrame_length, take_len rest n hlt]
            obtain ⟨iht, ihd⟩ := ih (rest.drop n)
            rw [hD, hsplit]
            constructor
            · intro l hl
              cases hs : scan fixed f (rest.drop n) with
              | trailer l' =>
                rw [hs] at hl
                simp only [FT.shift, FT.trailer.injEq] at hl
                subst hl
                obtain ⟨h1, h2, n', rest', h3, h4⟩ := iht l' hs
                have e : l' + (n + 5) = (rawFrame h (rest.take n)).length + l' := by omega
                refine ⟨?_, ?_, n', rest', ?_, h4⟩
                · rw [List.length_append, hflen]; omega
                · rw [e, List.take_length_add_append]
                  exact mf_append hwf h2
                · rw [e, List.drop_length_add_append]; exact h3
              | done l' => rw [hs] at hl; cases hl
              | incomplete => rw [hs] at hl; cases hl
              | bad => rw [hs] at hl; cases hl
            · intro l hl
              cases hs : scan fixed f (rest.drop n) with
              | done l' =>
                rw [hs] at hl
                simp only [FT.shift, FT.done.injEq] at hl
                subst hl
                obtain ⟨h1, h2⟩ := ihd l' hs
                have e : l' + (n + 5) = (rawFrame h (rest.take n)).length + l' := by omega
                refine ⟨?_, ?_⟩
                · rw [List.length_append, hflen]; omega
                · rw [e, List.take_length_add_append]
                  exact mf_append hwf h2
              | trailer l' => rw [hs] at hl; cases hl
              | incomplete => rw [hs] at hl; cases hl
              | bad => rw [hs] at hl; cases hl
        · simp only [hflag, Bool.not_false, if_true]
          exact ⟨(by intro l hl; cases hl), (by intro l hl; cases hl)⟩


/-! ### what one pass of the loop removes from the buffer -/

/-- `st'` is `st` with a well-framed piece taken off the front of the buffer -/
def Consumes (st st' : St) : Prop :=
  ∃ served, st.decoded = served ++ st'.decoded ∧ WellFramed served

theorem consumes_refl (st : St) : Consumes st st := ⟨[], rfl, wf_nil⟩

theorem onTrailer_consumes {st : St} {len : Nat}
    (hs : findTrailers true st.decoded = .trailer len) :
    (∀ o st', onTrailer st len = .emit o st' → Consumes st st') ∧
    (∀ st', onTrailer st len = .again st' → Consumes st st') := by
  obtain ⟨hle, hmf, n, rest, hh, hcomp⟩ := (scan_sound true _ st.decoded).1 len hs
  have hwf := mf_wf hmf
  obtain ⟨a, b, c, d, hD, hu, hn32⟩ := hdr5_spec hh
  have hlt : ¬ rest.length < n := hcomp rfl
  have hsplit := split_frame 128 a b c d rest n hu hlt
  have hflen : (rawFrame 128 (rest.take n)).length = 5 + n := by
    rw [rawFrame_length, take_len rest n hlt]; omega
  have htake : (st.decoded.drop len).take (5 + n) = rawFrame 128 (rest.take n) := by
    rw [hD, hsplit, ← hflen]
    exact List.take_left' rfl
  have key : Consumes st { decoded := (st.decoded.drop len).drop (5 + n),
                           trailers := st.trailers } := by
    refine ⟨st.decoded.take len ++ (st.decoded.drop len).take (5 + n), ?_, ?_⟩
    · simp only [List.append_assoc, List.take_append_drop]
    · rw [htake]
      exact wf_append hwf (wf_frame 128 _ (Or.inr (Or.inr rfl))
        (by rw [take_len rest n hlt]; exact hn32))
  unfold onTrailer
  rw [hh]
  simp only
  cases decodeTrailersFrame true ((st.decoded.drop len).take (5 + n)) with
  | none => exact ⟨(by intro o st' h; cases h), (by intro st' h; cases h)⟩
  | some t? =>
    simp only
    by_cases hl0 : len > 0
    · simp only [hl0, if_true]
      refine ⟨?_, (by intro st' h; cases h)⟩
      intro o st' h
      cases h
      exact key
    · simp only [hl0, if_false]
      refine ⟨(by intro o st' h; cases h), ?_⟩
      intro st' h
      cases h
      exact key

theorem onExhausted_consumes {eof : Bool} {st : St} :
    (∀ o st', onExhausted eof st = .emit o st' → Consumes st st') ∧
    (∀ st', onExhausted eof st = .again st' → Consumes st st') := by
  unfold onExhausted
  constructor
  · intro o st' h
    split at h
    · cases h
    · split at h
      · cases h
      · split at h
        · cases h; exact consumes_refl _
        · cases h
  · intro st' h
    split at h
    · cases h; exact consumes_refl _
    · split at h
      · cases h
      · split at h <;> cases h

theorem afterPoll_consumes {eof : Bool} {st : St} :
    (∀ o st', afterPoll eof st = .emit o st' → Consumes st st') ∧
    (∀ st', afterPoll eof st = .again st' → Consumes st st') := by
  unfold afterPoll
  cases hs : findTrailers true st.decoded with
  | bad => exact ⟨(by intro o st' h; cases h), (by intro st' h; cases h)⟩
  | trailer len => exact onTrailer_consumes hs
  | incomplete =>
    simp only
    constructor
    · intro o st' h; split at h <;> cases h
    · intro st' h
      split at h
      · cases h
      · cases h; exact consumes_refl _
  | done len =>
    simp only
    by_cases hl0 : len = 0
    · simp only [hl0, if_true]; exact onExhausted_consumes
    · simp only [hl0, if_false]
      refine ⟨?_, (by intro st' h; cases h)⟩
      intro o st' h
      cases h
      obtain ⟨_, hmf⟩ := (scan_sound true _ st.decoded).2 len hs
      exact ⟨st.decoded.take len, (List.take_append_drop _ _).symm, mf_wf hmf⟩

/-- if a well-framed piece is taken off a buffer that, with what is still to come, is not
well-framed, the remainder (with what is still to come) is not well-framed either -/
theorem not_wf_of_consumes {st st' : St} {fut : Bytes} (hc : Consumes st st')
    (h : ¬ WellFramed (st.decoded ++ fut)) : ¬ WellFramed (st'.decoded ++ fut) := by
  obtain ⟨served, hd, hwf⟩ := hc
  intro h'
  apply h
  rw [hd, List.append_assoc]
  exact wf_append hwf h'

theorem getLast_cons_ne_nil {α : Type} (o : α) (l : List α) (h : l ≠ []) :
    (o :: l).getLast? = l.getLast? := List.getLast?_cons_of_ne_nil h

theorem drain_ne_nil : ∀ (f : Nat) (st : St), drain f st ≠ [] := by
  intro f
  induction f with
  | zero => intro st; simp [drain]
  | succ f ih =>
    intro st
    simp only [drain]
    cases h : afterPoll true st with
    | stop os =>
      rcases afterPoll_stop h with rfl | ⟨rfl, _, _⟩ <;> simp
    | emit o st' => simp
    | again st' => exact ih st'

theorem run_ne_nil : ∀ (evs : List BodyEv) (st : St), run st evs ≠ [] := by
  intro evs
  induction evs with
  | nil => intro st; exact drain_ne_nil _ _
  | cons e r ih =>
    intro st
    cases e with
    | pending => exact ih st
    | err => simp [run]
    | trailers t => exact ih _
    | data b =>
      simp only [run]
      cases h : afterPoll false { st with decoded := st.decoded ++ b } with
      | stop os =>
        rcases afterPoll_stop h with rfl | ⟨rfl, _, _⟩ <;> simp
      | emit o st' => simp
      | again st' => exact ih st'

/-- **Malformed or cut-off bodies end in an error.** -/
theorem drain_not_wf : ∀ (f : Nat) (st : St), ¬ WellFramed st.decoded →
    (drain f st).getLast? = some .err := by
  intro f
  induction f with
  | zero => intro st _; rfl
  | succ f ih =>
    intro st hnw
    simp only [drain]
    cases h : afterPoll true st with
    | stop os =>
      rcases afterPoll_stop h with rfl | ⟨rfl, _, hd⟩
      · rfl
      · exact absurd (hd ▸ wf_nil) hnw
    | emit o st' =>
      have hc := afterPoll_consumes.1 o st' h
      have hnw' : ¬ WellFramed st'.decoded := by
        simpa using not_wf_of_consumes (fut := []) hc (by simpa using hnw)
      simp only
      rw [getLast_cons_ne_nil _ _ (drain_ne_nil _ _)]
      exact ih st' hnw'
    | again st' =>
      have hc := afterPoll_consumes.2 st' h
      have hnw' : ¬ WellFramed st'.decoded := by
        simpa using not_wf_of_consumes (fut := []) hc (by simpa using hnw)
      exact ih st' hnw'

theorem run_not_wf : ∀ (evs : List BodyEv) (st : St), ¬ WellFramed (st.decoded ++ flat evs) →
    (run st evs).getLast? = some .err := by
  intro evs
  induction evs with
  | nil =>
    intro st hnw
    exact drain_not_wf _ st (by simpa [flat] using hnw)
  | cons e r ih =>
    intro st hnw
    cases e with
    | pending => exact ih st (by simpa [flat] using hnw)
    | err => rfl
    | trailers t => exact ih _ (by simpa [flat] using hnw)
    | data b =>
      simp only [run]
      have hnw1 : ¬ WellFramed ((st.decoded ++ b) ++ flat r) := by
        simpa [flat, List.append_assoc] using hnw
      cases h : afterPoll false { st with decoded := st.decoded ++ b } with
      | stop os =>
        rcases afterPoll_stop h with rfl | ⟨_, he, _⟩
        · rfl
        · cases he
      | emit o st' =>
        have hc := afterPoll_consumes.1 o st' h
        simp only
        rw [getLast_cons_ne_nil _ _ (run_ne_nil _ _)]
        exact ih st' (not_wf_of_consumes hc hnw1)
      | again st' =>
        have hc := afterPoll_consumes.2 st' h
        exact ih st' (not_wf_of_consumes hc hnw1)

/-! ### every run ends in exactly one terminal frame -/

/-- `os` followed by one terminal frame, none before -/
def EndsOnce (l : List Out) : Prop :=
  ∃ os t, l = os ++ [t] ∧ isTerminal t = true ∧ ∀ o ∈ os, isTerminal o = false

theorem endsOnce_cons {o : Out} {l : List Out} (ho : isTerminal o = false) (h : EndsOnce l) :
    EndsOnce (o :: l) := by
  obtain ⟨os, t, rfl, ht, hos⟩ := h
  refine ⟨o :: os, t, rfl, ht, ?_⟩
  intro x hx
  rcases List.mem_cons.1 hx with rfl | hx
  · exact ho
  · exact hos x hx

theorem endsOnce_stop {eof : Bool} {st : St} {os : List Out} (h : afterPoll eof st = .stop os) :
    EndsOnce os := by
  rcases afterPoll_stop h with rfl | ⟨rfl, _, _⟩
  · exact ⟨[], .err, rfl, rfl, fun _ h => by cases h⟩
  · exact ⟨[], .eos, rfl, rfl, fun _ h => by cases h⟩

theorem drain_endsOnce : ∀ (f : Nat) (st : St), EndsOnce (drain f st) := by
  intro f
  induction f with
  | zero => intro st; exact ⟨[], .err, rfl, rfl, fun _ h => by cases h⟩
  | succ f ih =>
    intro st
    simp only [drain]
    cases h : afterPoll true st with
    | stop os => exact endsOnce_stop h
    | emit o st' => exact endsOnce_cons (afterPoll_emit h) (ih st')
    | again st' => exact ih st'

theorem run_endsOnce : ∀ (evs : List BodyEv) (st : St), EndsOnce (run st evs) := by
  intro evs
  induction evs with
  | nil => intro st; exact drain_endsOnce _ st
  | cons e r ih =>
    intro st
    cases e with
    | pending => exact ih st
    | err => exact ⟨[], .err, rfl, rfl, fun _ h => by cases h⟩
    | trailers t => exact ih _
    | data b =>
      simp only [run]
      cases h : afterPoll false { st with decoded := st.decoded ++ b } with
      | stop os => exact endsOnce_stop h
      | emit o st' => exact endsOnce_cons (afterPoll_emit h) (ih st')
      | again st' => exact ih st'

/-! ### decoding a trailers frame as servers write it -/

theorem nameByte_tab : ∀ n : Fin 256,
    (tchar (UInt8.ofNat n.val) && !isUpper (UInt8.ofNat n.val)) = true →
      headerNameByte (UInt8.ofNat n.val) = some (UInt8.ofNat n.val) ∧
      UInt8.ofNat n.val ≠ 58 ∧ UInt8.ofNat n.val ≠ 13 := by
  decide +kernel

theorem nameByte_ok (b : UInt8) (h : (tchar b && !isUpper b) = true) :
    headerNameByte b = some b ∧ b ≠ 58 ∧ b ≠ 13 := by
  have := nameByte_tab ⟨b.toNat, b.toNat_lt⟩
  simpa using this (by simpa using h)

theorem mapOpt_id {α : Type} (f : α → Option α) : ∀ (l : List α), (∀ x ∈ l, f x = some x) →
    mapOpt f l = some l := by
  intro l
  induction l with
  | nil => intro _; rfl
  | cons x xs ih =>
    intro h
    simp only [mapOpt, h x (by simp), ih (fun y hy => h y (by simp [hy]))]

theorem parseName_ok (k : Bytes) (h : lowerNameOk k = true) : parseName k = some k := by
  simp only [lowerNameOk, Bool.and_eq_true, Bool.not_eq_eq_eq_not, Bool.not_true,
    decide_eq_true_eq, List.all_eq_true] at h
  obtain ⟨⟨h1, h2⟩, h3⟩ := h
  have hlen : ¬ k.length > 65535 := by omega
  simp only [parseName, h1, hlen, Bool.false_or, decide_false, Bool.false_eq_true, if_false]
  exact mapOpt_id _ k (fun b hb => (nameByte_ok b (by simpa using h3 b hb)).1)

theorem name_no_sep (k : Bytes) (h : lowerNameOk k = true) : ∀ b ∈ k, b ≠ 58 ∧ b ≠ 13 := by
  simp only [lowerNameOk, Bool.and_eq_true, List.all_eq_true] at h
  intro b hb
  exact (nameByte_ok b (by simpa using h.2 b hb)).2

theorem value_no_cr (v : Bytes) (h : fieldValueOk v = true) : ∀ b ∈ v, b ≠ 13 := by
  simp only [fieldValueOk, List.all_eq_true] at h
  intro b hb hb13
  have := h b hb
  subst hb13
  simp at this

theorem parseValue_ok (v : Bytes) (h : fieldValueOk v = true) : parseValue v = some v := by
  have : v.all valueByteOk = true := h
  simp [parseValue, this]


theorem crlfLines_line (w : Bool) (l : Bytes) (hl : ∀ b ∈ l, b ≠ 13) (cur rest : Bytes) :
    crlfLines w cur (l ++ 13 :: 10 :: rest) = (cur.reverse ++ l) :: crlfLines w [] rest := by
  induction l generalizing cur with
  | nil => simp [crlfLines]
  | cons x xs ih =>
    have hx : x ≠ 13 := hl x (by simp)
    have hxs : ∀ b ∈ xs, b ≠ 13 := fun b hb => hl b (by simp [hb])
    cases xs with
    | nil =>
      simp only [List.cons_append, List.nil_append]
      rw [crlfLines]
      simp only [hx, false_and, if_false]
      rw [crlfLines]
      simp
    | cons y ys =>
      simp only [List.cons_append] at ih ⊢
      rw [crlfLines]
      simp only [hx, false_and, if_false]
      rw [ih hxs]
      simp

theorem splitFirst_sep (k x : Bytes) (hk : ∀ b ∈ k, b ≠ 58) (cur : Bytes) :
    splitFirst 58 cur (k ++ 58 :: x) = (cur.reverse ++ k, some x) := by
  induction k generalizing cur with
  | nil => simp [splitFirst]
  | cons y ys ih =>
    have hy : y ≠ 58 := hk y (by simp)
    simp only [List.cons_append, splitFirst, hy, if_false]
    rw [ih (fun b hb => hk b (by simp [hb]))]
    simp

theorem splitOn_none (w : Bytes) (hw : ∀ b ∈ w, b ≠ 13) (cur : Bytes) :
    splitOn 13 cur w = [cur.reverse ++ w] := by
  induction w generalizing cur with
  | nil => simp [splitOn]
  | cons y ys ih =>
    have hy : y ≠ 13 := hw y (by simp)
    simp only [splitOn, hy, if_false]
    rw [ih (fun b hb => hw b (by simp [hb]))]
    simp

theorem stripSpace_plain (v : Bytes) (_hv : ∀ b ∈ v, b ≠ 13) (hs : v.head? ≠ some 32) :
    stripSpace true v = v := by
  simp only [stripSpace, if_true]
  match v, hs with
  | [], _ => rfl
  | b :: r, hs =>
    have : b ≠ 32 := by simpa using hs
    split
    · rename_i r' heq
      simp only [List.cons.injEq] at heq
      exact absurd heq.1 this
    · rfl

theorem stripSpace_space (v : Bytes) (_hv : ∀ b ∈ v, b ≠ 13) : stripSpace true (32 :: v) = v := by
  simp [stripSpace]

theorem parseLine_ok (sp : Bool) (p : Pair) (hk : lowerNameOk p.1 = true)
    (hv : plainValueOk p.2 = true) :
    parseLine true (p.1 ++ (if sp then [58, 32] else [58]) ++ p.2) = some p := by
  simp only [plainValueOk, Bool.and_eq_true, bne_iff_ne, ne_eq] at hv
  have hk58 : ∀ b ∈ p.1, b ≠ 58 := fun b hb => (name_no_sep p.1 hk b hb).1
  have hcr := value_no_cr p.2 hv.1
  have hline : p.1 ++ (if sp then [58, 32] else [58]) ++ p.2 =
      p.1 ++ 58 :: ((if sp then [32] else []) ++ p.2) := by
    cases sp <;> simp
  have hstrip : stripSpace true ((if sp then [32] else []) ++ p.2) = p.2 := by
    cases sp
    · simpa using stripSpace_plain p.2 hcr hv.2
    · simpa using stripSpace_space p.2 hcr
  simp only [parseLine, lineKV, if_true, hline, splitFirst_sep p.1 _ hk58 [], List.reverse_nil,
    List.nil_append, hstrip, parseName_ok p.1 hk, parseValue_ok p.2 hv.1]

theorem block_lines (sp : Bool) (ps : List Pair)
    (h : ∀ p ∈ ps, lowerNameOk p.1 = true ∧ plainValueOk p.2 = true) :
    crlfLines true [] (trailersBlock sp ps) =
      ps.map (fun p => p.1 ++ (if sp then [58, 32] else [58]) ++ p.2) := by
  induction ps with
  | nil => simp [trailersBlock, crlfLines]
  | cons p ps ih =>
    have hp := h p (by simp)
    have hv := hp.2
    simp only [plainValueOk, Bool.and_eq_true] at hv
    have hl : ∀ b ∈ p.1 ++ (if sp then [58, 32] else [58]) ++ p.2, b ≠ 13 := by
      intro b hb
      simp only [List.mem_append] at hb
      rcases hb with (hb | hb) | hb
      · exact (name_no_sep p.1 hp.1 b hb).2
      · cases sp <;> simp at hb <;> rcases hb with rfl | rfl <;> decide
      · exact value_no_cr p.2 hv.1 b hb
    have e : trailersBlock sp (p :: ps) =
        (p.1 ++ (if sp then [58, 32] else [58]) ++ p.2) ++ 13 :: 10 :: trailersBlock sp ps := by
      simp [trailersBlock, lineOfSp, List.flatMap_cons]
    rw [e, crlfLines_line true _ hl, ih (fun q hq => h q (by simp [hq]))]
    simp

theorem mapOpt_map {α β : Type} (f : α → Option β) (g : β → α) : ∀ (l : List β),
    (∀ x ∈ l, f (g x) = some x) → mapOpt f (l.map g) = some l := by
  intro l
  induction l with
  | nil => intro _; rfl
  | cons x xs ih =>
    intro h
    simp only [List.map_cons, mapOpt, h x (by simp), ih (fun y hy => h y (by simp [hy]))]

/-- A complete trailers frame, in either of the two customary styles, decodes to exactly the
trailers that were written: every name, every full value, in order. -/
theorem decode_trailersFrame (sp : Bool) (ps : List Pair)
    (h : ∀ p ∈ ps, lowerNameOk p.1 = true ∧ plainValueOk p.2 = true) :
    decodeTrailersFrame true (trailersFrame sp ps) = some (some ps) := by
  have hlen : ¬ (trailersFrame sp ps).length < 5 := by
    rw [trailersFrame, rawFrame_length]; omega
  have hdrop : (trailersFrame sp ps).drop 5 = trailersBlock sp ps := by
    simp [trailersFrame, rawFrame, u32be]
  simp only [decodeTrailersFrame, hlen, if_false, hdrop, block_lines sp ps h, if_true]
  rw [mapOpt_map _ _ ps (fun p hp => parseLine_ok sp p (h p hp).1 (h p hp).2)]

/-! ### `find_trailers` on a prefix of a valid stream -/

theorem hdr5_raw (fl : UInt8) (p tail : Bytes) (hp : p.length < 4294967296) :
    hdr5 (rawFrame fl p ++ tail) = some (fl, p.length, p ++ tail) := by
  simp only [rawFrame, u32be, List.cons_append, List.nil_append, hdr5]
  rw [readU32_u32be _ hp]

theorem hdr5_short (D : Bytes) (h : D.length < 5) : hdr5 D = none := by
  match D, h with
  | [], _ => rfl
  | [_], _ => rfl
  | [_, _], _ => rfl
  | [_, _, _], _ => rfl
  | [_, _, _, _], _ => rfl
  | _ :: _ :: _ :: _ :: _ :: _, h => simp only [List.length_cons] at h; omega

theorem scan_short (fixed : Bool) (f : Nat) (D : Bytes) (h : D.length < 5) :
    scan fixed (f + 1) D = .done 0 := by
  simp only [scan, hdr5_short D h]

/-- a complete message frame in front is walked over -/
theorem scan_frame (fixed : Bool) (f : Nat) (fl : UInt8) (hfl : fl = 0 ∨ fl = 1) (p tail : Bytes)
    (hp : p.length < 4294967296) :
    scan fixed (f + 1) (rawFrame fl p ++ tail) = (scan fixed f tail).shift (p.length + 5) := by
  have h128 : fl ≠ 128 := by rcases hfl with rfl | rfl <;> decide
  have hok : (fl = 0 || fl = 1) = true := by rcases hfl with rfl | rfl <;> decide
  have hlt : ¬ (p ++ tail).length < p.length := by simp
  simp only [scan, hdr5_raw fl p tail hp, h128, if_false, hok, Bool.not_true, Bool.false_eq_true,
    hlt, List.drop_left']

/-- a complete trailers frame in front is reported -/
theorem scan_trailers (f : Nat) (blk more : Bytes) (hb : blk.length < 4294967296) :
    scan true (f + 1) (rawFrame 128 blk ++ more) = .trailer 0 := by
  have hlt : ¬ (blk ++ more).length < blk.length := by simp
  simp only [scan, hdr5_raw 128 blk more hb, if_true, Bool.true_and, decide_eq_true_eq, hlt, if_false]

/-- at least a header but not the whole frame is there: incomplete -/
theorem scan_partial (f : Nat) (fl : UInt8) (hfl : flagOk fl) (p D c' : Bytes)
    (hp : p.length < 4294967296) (hD : rawFrame fl p = D ++ c') (hc : c' ≠ []) (h5 : 5 ≤ D.length) :
    scan true (f + 1) D = .incomplete := by
  -- D = header ++ p1 with p = p1 ++ c'
  have hsplit : ∃ p1, D = rawFrame fl p1 ∧ False ∨ (D = fl :: u32be p.length ++ p1 ∧ p = p1 ++ c') := by
    have h := hD
    simp only [rawFrame] at h
    have h' : (fl :: u32be p.length) ++ p = D ++ c' := by simpa using h
    rcases List.append_eq_append_iff.1 h' with ⟨a', h1, h2⟩ | ⟨c'', h1, h2⟩
    · exact ⟨a', Or.inr ⟨by simpa using h1, h2⟩⟩
    · -- the header alone already covers D: then |D| = 5 and c'' = []
      have hl : (fl :: u32be p.length).length = D.length + c''.length := by rw [h1]; simp
      simp only [List.length_cons, u32be_length] at hl
      have hc0 : c'' = [] := by
        cases c'' with
        | nil => rfl
        | cons _ _ => simp only [List.length_cons] at hl; omega
      subst hc0
      refine ⟨[], Or.inr ⟨by simpa using h1.symm, by simpa using h2.symm⟩⟩
  obtain ⟨p1, hp1⟩ := hsplit
  rcases hp1 with ⟨_, hf⟩ | ⟨hD1, hpp⟩
  · exact absurd hf id
  · have hlen : p1.length < p.length := by
      rw [hpp, List.length_append]
      cases c' with
      | nil => exact absurd rfl hc
      | cons _ _ => simp
    have hh : hdr5 D = some (fl, p.length, p1) := by
      rw [hD1]
      simp only [u32be, List.cons_append, List.nil_append, hdr5]
      rw [readU32_u32be _ hp]
    simp only [scan, hh]
    rcases hfl with rfl | rfl | rfl
    · simp [hlen]
    · simp [hlen]
    · simp [hlen]

theorem frameBytes_raw (c : Bool) (p : Bytes) :
    frameBytes c p = rawFrame (if c then 1 else 0) p := rfl

theorem framesBytes_append (a b : List (Bool × Bytes)) :
    framesBytes (a ++ b) = framesBytes a ++ framesBytes b := by
  induction a with
  | nil => rfl
  | cons x xs ih => simp [framesBytes, ih]

theorem FT.shift_trailer (k l : Nat) : (FT.trailer l).shift k = .trailer (l + k) := rfl

/-- **Prefix lemma.**  `D` is what has arrived of the stream `frames ++ trailers frame`
(`X` is still to come).  If everything has arrived the trailers frame is found behind all
message frames; otherwise the walk ends at a frame boundary `fs1 | fs2` with less than a
header after it (`done`), or inside a frame (`incomplete`). -/
theorem scan_prefix (blk : Bytes) (hb : blk.length < 4294967296) :
    ∀ (fs : List (Bool × Bytes)), (∀ f ∈ fs, f.2.length < 4294967296) →
    ∀ (D X : Bytes) (f : Nat), D.length + 1 ≤ f →
      D ++ X = framesBytes fs ++ rawFrame 128 blk →
      (X = [] → scan true f D = .trailer (framesBytes fs).length) ∧
      (X ≠ [] → scan true f D = .incomplete ∨
        ∃ fs1 fs2 P, fs = fs1 ++ fs2 ∧ D = framesBytes fs1 ++ P ∧
          scan true f D = .done (framesBytes fs1).length) := by
  intro fs
  induction fs with
  | nil =>
    intro _ D X f hf hDX
    obtain ⟨f', rfl⟩ : ∃ f', f = f' + 1 := ⟨f - 1, by omega⟩
    simp only [framesBytes, List.nil_append] at hDX
    constructor
    · intro hX
      subst hX
      simp only [List.append_nil] at hDX
      subst hDX
      have := scan_trailers f' blk [] hb
      simpa [framesBytes] using this
    · intro hX
      by_cases h5 : D.length < 5
      · exact Or.inr ⟨[], [], D, rfl, by simp [framesBytes], by simpa [framesBytes] using scan_short true f' D h5⟩
      · exact Or.inl (scan_partial f' 128 (Or.inr (Or.inr rfl)) blk D X hb hDX.symm hX (by omega))
  | cons fr fs ih =>
    intro hfs D X f hf hDX
    obtain ⟨f', rfl⟩ : ∃ f', f = f' + 1 := ⟨f - 1, by omega⟩
    obtain ⟨c, p⟩ := fr
    have hp : p.length < 4294967296 := hfs (c, p) (by simp)
    have hfs' : ∀ g ∈ fs, g.2.length < 4294967296 := fun g hg => hfs g (by simp [hg])
    have hfl : (if c then (1 : UInt8) else 0) = 0 ∨ (if c then (1 : UInt8) else 0) = 1 := by
      cases c <;> simp
    have hDX' : D ++ X = rawFrame (if c then 1 else 0) p ++ (framesBytes fs ++ rawFrame 128 blk) := by
      simpa [framesBytes, frameBytes_raw, List.append_assoc] using hDX
    have hlenF : (framesBytes ((c, p) :: fs)).length = (framesBytes fs).length + (p.length + 5) := by
      simp only [framesBytes, List.length_append, frameBytes_raw, rawFrame_length]; omega
    -- the first frame is completely inside D
    have full : ∀ a' : Bytes, D = rawFrame (if c then 1 else 0) p ++ a' →
        a' ++ X = framesBytes fs ++ rawFrame 128 blk →
        (X = [] → scan true (f' + 1) D = .trailer (framesBytes ((c, p) :: fs)).length) ∧
        (X ≠ [] → scan true (f' + 1) D = .incomplete ∨
          ∃ fs1 fs2 P, (c, p) :: fs = fs1 ++ fs2 ∧ D = framesBytes fs1 ++ P ∧
            scan true (f' + 1) D = .done (framesBytes fs1).length) := by
      intro a' h1 h2
      have hf' : a'.length + 1 ≤ f' := by
        have : D.length = p.length + 5 + a'.length := by
          rw [h1, List.length_append, rawFrame_length]
        omega
      obtain ⟨ihA, ihB⟩ := ih hfs' a' X f' hf' h2
      have hscan : scan true (f' + 1) D = (scan true f' a').shift (p.length + 5) := by
        rw [h1]; exact scan_frame true f' _ hfl p a' hp
      constructor
      · intro hX
        rw [hscan, ihA hX, hlenF]; rfl
      · intro hX
        rcases ihB hX with hinc | ⟨fs1, fs2, P, e1, e2, e3⟩
        · left; rw [hscan, hinc]; rfl
        · right
          refine ⟨(c, p) :: fs1, fs2, P, by simp [e1], ?_, ?_⟩
          · rw [h1, e2]; simp [framesBytes, frameBytes_raw, List.append_assoc]
          · rw [hscan, e3]
            simp only [FT.shift, framesBytes, List.length_append, frameBytes_raw, rawFrame_length]
            congr 1; omega
    rcases List.append_eq_append_iff.1 hDX' with ⟨a', h1, h2⟩ | ⟨c', h1, h2⟩
    · -- D is a prefix of the first frame
      by_cases ha0 : a' = []
      · subst ha0
        exact full [] (by simpa using h1.symm) (by simpa using h2)
      · have hXne : X ≠ [] := by
          intro hX; rw [hX] at h2
          cases a' with
          | nil => exact ha0 rfl
          | cons _ _ => simp at h2
        constructor
        · intro hX; exact absurd hX hXne
        · intro _
          by_cases h5 : D.length < 5
          · exact Or.inr ⟨[], (c, p) :: fs, D, rfl, by simp [framesBytes],
              by simpa [framesBytes] using scan_short true f' D h5⟩
          · have hflag : flagOk (if c then (1 : UInt8) else 0) := by
              cases c
              · exact Or.inl rfl
              · exact Or.inr (Or.inl rfl)
            exact Or.inl (scan_partial f' _ hflag p D a' hp h1 ha0 (by omega))
    · exact full c' h1 h2.symm

/-! ### the loop on a valid stream -/

theorem afterPoll_incomplete {eof : Bool} {st : St} (h : findTrailers true st.decoded = .incomplete) :
    afterPoll eof st = if eof then .stop [.err] else .again st := by
  simp only [afterPoll, h]

theorem afterPoll_done {eof : Bool} {st : St} {l : Nat} (h : findTrailers true st.decoded = .done l) :
    afterPoll eof st = if l = 0 then onExhausted eof st
      else .emit (.data (st.decoded.take l)) { st with decoded := st.decoded.drop l } := by
  simp only [afterPoll, h]

theorem findTrailers_nil : findTrailers true [] = .done 0 := rfl

/-- all of `frames ++ trailers frame` is buffered: the frames go out (if any), the trailers
are stored, nothing stays behind -/
theorem afterPoll_whole (eof : Bool) (blk : Bytes)
    (out : List Pair) (hdec : decodeTrailersFrame true (rawFrame 128 blk) = some (some out))
    (hb : blk.length < 4294967296)
    (fs : List (Bool × Bytes)) (hfs : ∀ f ∈ fs, f.2.length < 4294967296) :
    afterPoll eof { decoded := framesBytes fs ++ rawFrame 128 blk, trailers := none } =
      if (framesBytes fs).length > 0
      then .emit (.data (framesBytes fs)) { decoded := [], trailers := some out }
      else .again { decoded := [], trailers := some out } := by
  have hscan : findTrailers true (framesBytes fs ++ rawFrame 128 blk) =
      .trailer (framesBytes fs).length :=
    (scan_prefix _ hb fs hfs _ [] _ (Nat.le_refl _) (by simp)).1 rfl
  have hdrop : (framesBytes fs ++ rawFrame 128 blk).drop (framesBytes fs).length =
      rawFrame 128 blk := List.drop_left' rfl
  have htake : (framesBytes fs ++ rawFrame 128 blk).take (framesBytes fs).length =
      framesBytes fs := List.take_left' rfl
  have hh : hdr5 (rawFrame 128 blk) =
      some (128, (blk).length, blk) := by
    have := hdr5_raw 128 blk [] hb
    simpa using this
  have hlenT : (rawFrame 128 blk).length = 5 + (blk).length := by
    rw [rawFrame_length]; omega
  have htakeT : (rawFrame 128 blk).take (5 + (blk).length) = rawFrame 128 blk := by
    rw [← hlenT]; exact List.take_length
  have hdropT : (rawFrame 128 blk).drop (5 + (blk).length) = [] := by
    rw [← hlenT]; exact List.drop_length
  simp only [afterPoll, hscan, onTrailer, hdrop, hh, htakeT, hdec,
    hdropT, htake, mergeOpt, mergeTrailers]

theorem run_filter (evs : List BodyEv) : ∀ st, run st evs = run st (evs.filter notPending) := by
  induction evs with
  | nil => intro _; rfl
  | cons e r ih =>
    intro st
    cases e with
    | pending =>
      simp only [List.filter_cons, show notPending BodyEv.pending = false from rfl, run]
      exact ih st
    | err => simp only [List.filter_cons, show notPending BodyEv.err = true from rfl, if_true, run]
    | trailers t =>
      simp only [List.filter_cons, show notPending (BodyEv.trailers t) = true from rfl, if_true, run]
      exact ih _
    | data b =>
      simp only [List.filter_cons, show notPending (BodyEv.data b) = true from rfl, if_true, run]
      cases afterPoll false { st with decoded := st.decoded ++ b } with
      | stop os => rfl
      | emit o st' => simp only; rw [ih]
      | again st' => simp only; rw [ih]

/-- the trailers have been stored and nothing but empty chunks follows -/
theorem run_after_trailers (ps : List Pair) : ∀ (chunks : List Bytes), chunks.flatten = [] →
    run { decoded := [], trailers := some ps } (chunks.map BodyEv.data) =
      [.trailers ps, .eos] := by
  intro chunks
  induction chunks with
  | nil =>
    intro _
    simp only [List.map_nil, run, List.length_nil, Nat.zero_add, drain]
    simp only [afterPoll, findTrailers_nil, if_true, onExhausted, Bool.not_true, Bool.false_eq_true,
      if_false, List.isEmpty_nil]
  | cons c cs ih =>
    intro hflat
    simp only [List.flatten_cons, List.append_eq_nil_iff] at hflat
    obtain ⟨hc, hcs⟩ := hflat
    subst hc
    simp only [List.map_cons, run, List.append_nil]
    simp only [afterPoll, findTrailers_nil, if_true, onExhausted, Bool.not_false, if_true]
    exact ih hcs

/-- **Run invariant on a valid stream**: whatever part `D` of `frames ++ trailers frame` is
buffered and however the rest is cut into chunks, the caller gets data frames carrying
exactly the message frames, then the trailers, then the end. -/
theorem run_valid (blk : Bytes)
    (out : List Pair) (hdec : decodeTrailersFrame true (rawFrame 128 blk) = some (some out))
    (hb : (blk).length < 4294967296) :
    ∀ (chunks : List Bytes) (fs : List (Bool × Bytes)) (D : Bytes),
      (∀ f ∈ fs, f.2.length < 4294967296) →
      D ++ chunks.flatten = framesBytes fs ++ rawFrame 128 blk →
      ∃ datas : List Bytes,
        run { decoded := D, trailers := none } (chunks.map BodyEv.data) =
          datas.map Out.data ++ [.trailers out, .eos] ∧
        datas.flatten = framesBytes fs := by
  intro chunks
  induction chunks with
  | nil =>
    intro fs D hfs hD
    simp only [List.flatten_nil, List.append_nil] at hD
    subst hD
    have hstep := afterPoll_whole true blk out hdec hb fs hfs
    have hfin : drain 2 { decoded := [], trailers := some out } = [.trailers out, .eos] := by
      simp only [drain, afterPoll, findTrailers_nil, if_true, onExhausted, Bool.not_true,
        Bool.false_eq_true, if_false, List.isEmpty_nil]
    obtain ⟨k, hk⟩ : ∃ k, (framesBytes fs ++ rawFrame 128 blk).length + 3 = (k + 2) + 1 :=
      ⟨(framesBytes fs ++ rawFrame 128 blk).length, by omega⟩
    simp only [List.map_nil, run, hk]
    rw [drain, hstep]
    have hfin' : ∀ k, drain (k + 2) { decoded := [], trailers := some out } = [.trailers out, .eos] := by
      intro k
      simp only [drain, afterPoll, findTrailers_nil, if_true, onExhausted, Bool.not_true,
        Bool.false_eq_true, if_false, List.isEmpty_nil]
    by_cases hl : (framesBytes fs).length > 0
    · simp only [hl, if_true, hfin']
      exact ⟨[framesBytes fs], by simp, by simp⟩
    · simp only [hl, if_false, hfin']
      have : framesBytes fs = [] := by
        cases hfb : framesBytes fs with
        | nil => rfl
        | cons _ _ => rw [hfb] at hl; simp at hl
      exact ⟨[], by simp, by simp [this]⟩
  | cons c cs ih =>
    intro fs D hfs hD
    simp only [List.flatten_cons] at hD
    have hD1 : (D ++ c) ++ cs.flatten = framesBytes fs ++ rawFrame 128 blk := by
      rw [List.append_assoc]; exact hD
    simp only [List.map_cons, run]
    obtain ⟨hA, hB⟩ := scan_prefix _ hb fs hfs (D ++ c) cs.flatten ((D ++ c).length + 1)
      (Nat.le_refl _) hD1
    by_cases hX : cs.flatten = []
    · -- everything has arrived
      have hDc : D ++ c = framesBytes fs ++ rawFrame 128 blk := by simpa [hX] using hD1
      rw [hDc, afterPoll_whole false blk out hdec hb fs hfs]
      by_cases hl : (framesBytes fs).length > 0
      · simp only [hl, if_true, run_after_trailers out cs hX]
        exact ⟨[framesBytes fs], by simp, by simp⟩
      · simp only [hl, if_false, run_after_trailers out cs hX]
        have : framesBytes fs = [] := by
          cases hfb : framesBytes fs with
          | nil => rfl
          | cons _ _ => rw [hfb] at hl; simp at hl
        exact ⟨[], by simp, by simp [this]⟩
    · rcases hB hX with hinc | ⟨fs1, fs2, P, e1, e2, e3⟩
      · rw [afterPoll_incomplete (st := { decoded := D ++ c, trailers := none }) hinc]
        simp only [Bool.false_eq_true, if_false]
        exact ih fs (D ++ c) hfs hD1
      · rw [afterPoll_done (st := { decoded := D ++ c, trailers := none }) e3]
        by_cases hl : (framesBytes fs1).length = 0
        · simp only [hl, if_true, onExhausted, Bool.not_false]
          exact ih fs (D ++ c) hfs hD1
        · simp only [hl, if_false]
          have htake : (D ++ c).take (framesBytes fs1).length = framesBytes fs1 := by
            rw [e2]; exact List.take_left' rfl
          have hdrop : (D ++ c).drop (framesBytes fs1).length = P := by
            rw [e2]; exact List.drop_left' rfl
          have hP : P ++ cs.flatten = framesBytes fs2 ++ rawFrame 128 blk := by
            have := hD1
            rw [e2, e1, framesBytes_append, List.append_assoc, List.append_assoc] at this
            exact List.append_cancel_left this
          have hfs2 : ∀ f ∈ fs2, f.2.length < 4294967296 :=
            fun f hf => hfs f (by rw [e1]; exact List.mem_append_right _ hf)
          obtain ⟨datas, hr, hf⟩ := ih fs2 P hfs2 hP
          rw [htake, hdrop, hr]
          exact ⟨framesBytes fs1 :: datas, by simp, by simp [hf, e1, framesBytes_append]⟩

/-- all of `frames ++ trailers frame` is buffered and the trailers block does not decode: the
error is returned (the frames in front are not handed out) -/
theorem afterPoll_whole_bad (eof : Bool) (blk : Bytes)
    (hdec : decodeTrailersFrame true (rawFrame 128 blk) = none)
    (hb : blk.length < 4294967296)
    (fs : List (Bool × Bytes)) (hfs : ∀ f ∈ fs, f.2.length < 4294967296) :
    afterPoll eof { decoded := framesBytes fs ++ rawFrame 128 blk, trailers := none } =
      .stop [.err] := by
  have hscan : findTrailers true (framesBytes fs ++ rawFrame 128 blk) =
      .trailer (framesBytes fs).length :=
    (scan_prefix _ hb fs hfs _ [] _ (Nat.le_refl _) (by simp)).1 rfl
  have hdrop : (framesBytes fs ++ rawFrame 128 blk).drop (framesBytes fs).length =
      rawFrame 128 blk := List.drop_left' rfl
  have hh : hdr5 (rawFrame 128 blk) = some (128, blk.length, blk) := by
    have := hdr5_raw 128 blk [] hb
    simpa using this
  have hlenT : (rawFrame 128 blk).length = 5 + blk.length := by
    rw [rawFrame_length]; omega
  have htakeT : (rawFrame 128 blk).take (5 + blk.length) = rawFrame 128 blk := by
    rw [← hlenT]; exact List.take_length
  simp only [afterPoll, hscan, onTrailer, hdrop, hh, htakeT, hdec]

/-- **A trailers block that does not decode ends the stream in an error**, whatever part of
`frames ++ trailers frame` is buffered and however the rest is chunked. -/
theorem run_bad_block (blk : Bytes)
    (hdec : decodeTrailersFrame true (rawFrame 128 blk) = none)
    (hb : blk.length < 4294967296) :
    ∀ (chunks : List Bytes) (fs : List (Bool × Bytes)) (D : Bytes),
      (∀ f ∈ fs, f.2.length < 4294967296) →
      D ++ chunks.flatten = framesBytes fs ++ rawFrame 128 blk →
      (run { decoded := D, trailers := none } (chunks.map BodyEv.data)).getLast? = some .err := by
  intro chunks
  induction chunks with
  | nil =>
    intro fs D hfs hD
    simp only [List.flatten_nil, List.append_nil] at hD
    subst hD
    obtain ⟨k, hk⟩ : ∃ k, (framesBytes fs ++ rawFrame 128 blk).length + 3 = k + 1 :=
      ⟨(framesBytes fs ++ rawFrame 128 blk).length + 2, by omega⟩
    simp only [List.map_nil, run, hk]
    rw [drain, afterPoll_whole_bad true blk hdec hb fs hfs]
    rfl
  | cons c cs ih =>
    intro fs D hfs hD
    simp only [List.flatten_cons] at hD
    have hD1 : (D ++ c) ++ cs.flatten = framesBytes fs ++ rawFrame 128 blk := by
      rw [List.append_assoc]; exact hD
    simp only [List.map_cons, run]
    obtain ⟨hA, hB⟩ := scan_prefix _ hb fs hfs (D ++ c) cs.flatten ((D ++ c).length + 1)
      (Nat.le_refl _) hD1
    by_cases hX : cs.flatten = []
    · have hDc : D ++ c = framesBytes fs ++ rawFrame 128 blk := by simpa [hX] using hD1
      rw [hDc, afterPoll_whole_bad false blk hdec hb fs hfs]
      rfl
    · rcases hB hX with hinc | ⟨fs1, fs2, P, e1, e2, e3⟩
      · rw [afterPoll_incomplete (st := { decoded := D ++ c, trailers := none }) hinc]
        simp only [Bool.false_eq_true, if_false]
        exact ih fs (D ++ c) hfs hD1
      · rw [afterPoll_done (st := { decoded := D ++ c, trailers := none }) e3]
        by_cases hl : (framesBytes fs1).length = 0
        · simp only [hl, if_true, onExhausted, Bool.not_false]
          exact ih fs (D ++ c) hfs hD1
        · simp only [hl, if_false]
          have hdrop : (D ++ c).drop (framesBytes fs1).length = P := by
            rw [e2]; exact List.drop_left' rfl
          have hP : P ++ cs.flatten = framesBytes fs2 ++ rawFrame 128 blk := by
            have := hD1
            rw [e2, e1, framesBytes_append, List.append_assoc, List.append_assoc] at this
            exact List.append_cancel_left this
          have hfs2 : ∀ f ∈ fs2, f.2.length < 4294967296 :=
            fun f hf => hfs f (by rw [e1]; exact List.mem_append_right _ hf)
          rw [hdrop, getLast_cons_ne_nil _ _ (run_ne_nil _ _)]
          exact ih fs2 P hfs2 hP

/-! ### `frameStructure` decides `WellFramed` -/

theorem frameStructureAux_sound : ∀ (n : Nat) (b : Bytes) (items : List (UInt8 × Bytes)),
    frameStructureAux n b = some items → WellFramed b := by
  intro n
  induction n with
  | zero => intro b items h; simp [frameStructureAux] at h
  | succ n ih =>
    intro b items h
    match b, h with
    | [], _ => exact wf_nil
    | [_], h => simp [frameStructureAux] at h
    | [_, _], h => simp [frameStructureAux] at h
    | [_, _, _], h => simp [frameStructureAux] at h
    | [_, _, _, _], h => simp [frameStructureAux] at h
    | fl :: a :: b :: c :: d :: rest, h =>
      simp only [frameStructureAux] at h
      obtain ⟨m, hm, hu, hm32⟩ : ∃ m, m = readU32 a b c d ∧ u32be m = [a, b, c, d] ∧ m < 4294967296 :=
        ⟨_, rfl, u32be_readU32 a b c d, readU32_lt a b c d⟩
      rw [← hm] at h
      by_cases hlt : rest.length < m
      · simp [hlt] at h
      · simp only [hlt, if_false] at h
        by_cases hfl : fl = 0 ∨ fl = 1 ∨ fl = 128
        · simp only [hfl, if_true] at h
          cases hr : frameStructureAux n (rest.drop m) with
          | none => simp [hr] at h
          | some is =>
            rw [split_frame fl a b c d rest m hu hlt]
            exact wf_append (wf_frame fl _ hfl (by rw [take_len rest m hlt]; exact hm32)) (ih _ is hr)
        · simp [hfl] at h

theorem frameStructureAux_complete (items : List (UInt8 × Bytes))
    (hi : ∀ i ∈ items, flagOk i.1 ∧ i.2.length < 4294967296) (k : Nat) :
    (frameStructureAux (items.length + k + 1) (items.flatMap (fun i => rawFrame i.1 i.2))).isSome = true := by
  induction items with
  | nil => simp [frameStructureAux]
  | cons i is ih =>
    obtain ⟨fl, p⟩ := i
    have hp := hi (fl, p) (by simp)
    have e : ((fl, p) :: is).length + k + 1 = (is.length + k + 1) + 1 := by simp; omega
    have hlt : ¬ (p ++ is.flatMap (fun i => rawFrame i.1 i.2)).length < p.length := by simp
    have hfl : fl = 0 ∨ fl = 1 ∨ fl = 128 := hp.1
    rw [e]
    simp only [List.flatMap_cons, rawFrame, u32be, List.cons_append, List.nil_append,
      frameStructureAux]
    rw [readU32_u32be _ hp.2]
    simp only [hlt, if_false, hfl, if_true, List.drop_left']
    have := ih (fun j hj => hi j (by simp [hj]))
    simp only [rawFrame, u32be, List.cons_append, List.nil_append] at this
    cases hr : frameStructureAux (is.length + k + 1)
        (is.flatMap (fun i => i.1 :: UInt8.ofNat (i.2.length / 16777216 % 256) ::
          UInt8.ofNat (i.2.length / 65536 % 256) :: UInt8.ofNat (i.2.length / 256 % 256) ::
          UInt8.ofNat (i.2.length % 256) :: i.2)) with
    | none => rw [hr] at this; simp at this
    | some _ => simp

theorem wellFramed_iff (b : Bytes) : WellFramed b ↔ (frameStructure b).isSome = true := by
  constructor
  · rintro ⟨items, hi, rfl⟩
    have hlen : items.length ≤ (items.flatMap (fun i => rawFrame i.1 i.2)).length := by
      clear hi
      induction items with
      | nil => simp
      | cons i is ih => simp only [List.flatMap_cons, List.length_append, rawFrame_length, List.length_cons]; omega
    obtain ⟨k, hk⟩ : ∃ k, (items.flatMap (fun i => rawFrame i.1 i.2)).length + 1 = items.length + k + 1 :=
      ⟨(items.flatMap (fun i => rawFrame i.1 i.2)).length - items.length, by omega⟩
    rw [frameStructure, hk]
    exact frameStructureAux_complete items hi k
  · intro h
    cases hs : frameStructure b with
    | none => rw [hs] at h; simp at h
    | some items => exact frameStructureAux_sound _ b items hs

instance (b : Bytes) : Decidable (WellFramed b) :=
  decidable_of_iff _ (wellFramed_iff b).symm

/-! ### unique readability: a well-framed prefix of a well-framed body ends at a frame boundary -/

theorem u32be_inj (n m : Nat) (hn : n < 4294967296) (hm : m < 4294967296) (h : u32be n = u32be m) :
    n = m := by
  have h1 := readU32_u32be n hn
  have h2 := readU32_u32be m hm
  simp only [u32be, List.cons.injEq, and_true] at h
  obtain ⟨e1, e2, e3, e4⟩ := h
  rw [e1, e2, e3, e4] at h1
  rw [← h1, h2]

theorem rawFrame_append_inj (fl fl' : UInt8) (p p' z z' : Bytes) (hp : p.length < 4294967296)
    (hp' : p'.length < 4294967296) (h : rawFrame fl' p' ++ z' = rawFrame fl p ++ z) :
    fl' = fl ∧ p' = p ∧ z' = z := by
  simp only [rawFrame, List.cons_append, List.cons.injEq, List.append_assoc] at h
  obtain ⟨hfl, h⟩ := h
  have hlen4 : (u32be p'.length).length = (u32be p.length).length := rfl
  obtain ⟨hu, h⟩ := List.append_inj h hlen4
  have hl := u32be_inj _ _ hp' hp hu
  obtain ⟨hpp, hz⟩ := List.append_inj h hl
  exact ⟨hfl, hpp, hz⟩

theorem wf_prefix_boundary : ∀ (items : List (UInt8 × Bytes)),
    (∀ i ∈ items, flagOk i.1 ∧ i.2.length < 4294967296) →
    ∀ (X Y : Bytes), X ++ Y = encItems items → WellFramed X →
    ∃ j, X = encItems (items.take j) := by
  intro items
  induction items with
  | nil =>
    intro _ X Y h _
    simp only [encItems, List.flatMap_nil, List.append_eq_nil_iff] at h
    exact ⟨0, by simp [encItems, h.1]⟩
  | cons it items ih =>
    intro hi X Y h hw
    obtain ⟨its', hi', hX⟩ := hw
    cases its' with
    | nil => exact ⟨0, by simpa [encItems] using hX⟩
    | cons it' r' =>
      obtain ⟨fl, p⟩ := it
      obtain ⟨fl', p'⟩ := it'
      have hp := (hi (fl, p) (by simp)).2
      have hp' := (hi' (fl', p') (by simp)).2
      have hX' : X = rawFrame fl' p' ++ encItems r' := by simpa [encItems] using hX
      have h' : rawFrame fl' p' ++ (encItems r' ++ Y) = rawFrame fl p ++ encItems items := by
        rw [← List.append_assoc, ← hX', h]; simp [encItems]
      obtain ⟨hfl, hpp, hz⟩ := rawFrame_append_inj fl fl' p p' _ _ hp hp' h'
      have hwr : WellFramed (encItems r') := ⟨r', fun i hi'' => hi' i (by simp [hi'']), rfl⟩
      obtain ⟨j, hj⟩ := ih (fun i hi'' => hi i (by simp [hi''])) (encItems r') Y hz hwr
      refine ⟨j + 1, ?_⟩
      rw [hX', hj, hfl, hpp]
      simp [encItems]

/-! ### on a clean end, the data delivered is exactly the message frames of the body -/

def validItems (its : List (UInt8 × Bytes)) : Prop := ∀ i ∈ its, flagOk i.1 ∧ i.2.length < 4294967296

/-- the message frames among `its` -/
def msgsOf (its : List (UInt8 × Bytes)) : List (UInt8 × Bytes) := its.filter (fun i => i.1 != 128)

/-- `st'` is `st` minus the frames `its` at the front of the buffer; `out` are the message
frames among them -/
def Takes (st st' : St) (out : Bytes) : Prop :=
  ∃ its, validItems its ∧ st.decoded = encItems its ++ st'.decoded ∧ out = encItems (msgsOf its)

theorem encItems_append (a b : List (UInt8 × Bytes)) : encItems (a ++ b) = encItems a ++ encItems b := by
  simp [encItems]

theorem msgsOf_append (a b : List (UInt8 × Bytes)) : msgsOf (a ++ b) = msgsOf a ++ msgsOf b := by
  simp [msgsOf]

theorem takes_refl (st : St) : Takes st st [] := ⟨[], ⟨fun _ h => (by cases h), rfl, rfl⟩⟩

theorem msgsOf_msgs {its : List (UInt8 × Bytes)}
    (h : ∀ i ∈ its, (i.1 = 0 ∨ i.1 = 1) ∧ i.2.length < 4294967296) : msgsOf its = its := by
  simp only [msgsOf, List.filter_eq_self]
  intro i hi
  rcases (h i hi).1 with h0 | h1
  · rw [h0]; decide
  · rw [h1]; decide

theorem valid_of_msgs {its : List (UInt8 × Bytes)}
    (h : ∀ i ∈ its, (i.1 = 0 ∨ i.1 = 1) ∧ i.2.length < 4294967296) : validItems its := by
  intro i hi
  obtain ⟨hf, hl⟩ := h i hi
  refine ⟨?_, hl⟩
  rcases hf with h0 | h1
  · exact Or.inl h0
  · exact Or.inr (Or.inl h1)

theorem onTrailer_takes {st : St} {len : Nat}
    (hs : findTrailers true st.decoded = .trailer len) :
    (∀ o st', onTrailer st len = .emit o st' → Takes st st' (dataOf [o])) ∧
    (∀ st', onTrailer st len = .again st' → Takes st st' []) := by
  obtain ⟨hle, ⟨mits, hm1, hm2⟩, n, rest, hh, hcomp⟩ := (scan_sound true _ st.decoded).1 len hs
  obtain ⟨a, b, c, d, hD, hu, hn32⟩ := hdr5_spec hh
  have hlt : ¬ rest.length < n := hcomp rfl
  have hsplit := split_frame 128 a b c d rest n hu hlt
  have hflen : (rawFrame 128 (rest.take n)).length = 5 + n := by
    rw [rawFrame_length, take_len rest n hlt]; omega
  have htake : (st.decoded.drop len).take (5 + n) = rawFrame 128 (rest.take n) := by
    rw [hD, hsplit, ← hflen]
    exact List.take_left' rfl
  have key : ∀ tr, Takes st { decoded := (st.decoded.drop len).drop (5 + n), trailers := tr }
      (st.decoded.take len) := by
    intro tr
    refine ⟨mits ++ [(128, rest.take n)], ?_, ?_, ?_⟩
    · intro i hi
      rcases List.mem_append.1 hi with h | h
      · exact valid_of_msgs hm1 i h
      · have : i = (128, rest.take n) := List.mem_singleton.1 h
        subst this
        exact ⟨Or.inr (Or.inr rfl), by rw [take_len rest n hlt]; exact hn32⟩
    · rw [encItems_append, ← hm2]
      have e1 : encItems [(128, rest.take n)] = rawFrame 128 (rest.take n) := by simp [encItems]
      rw [e1, ← htake, List.append_assoc, List.take_append_drop, List.take_append_drop]
    · rw [msgsOf_append, msgsOf_msgs hm1]
      have : msgsOf [((128 : UInt8), rest.take n)] = [] := by simp [msgsOf]
      rw [this, List.append_nil, hm2]
  unfold onTrailer
  rw [hh]
  simp only
  cases decodeTrailersFrame true ((st.decoded.drop len).take (5 + n)) with
  | none => exact ⟨(by intro o st' h; cases h), (by intro st' h; cases h)⟩
  | some t? =>
    simp only
    by_cases hl0 : len > 0
    · simp only [hl0, if_true]
      refine ⟨?_, (by intro st' h; cases h)⟩
      intro o st' h
      cases h
      simpa [dataOf] using key _
    · simp only [hl0, if_false]
      refine ⟨(by intro o st' h; cases h), ?_⟩
      intro st' h
      cases h
      have h0 : len = 0 := by omega
      subst h0
      simpa using key _

theorem onExhausted_takes {eof : Bool} {st : St} :
    (∀ o st', onExhausted eof st = .emit o st' → Takes st st' (dataOf [o])) ∧
    (∀ st', onExhausted eof st = .again st' → Takes st st' []) := by
  unfold onExhausted
  constructor
  · intro o st' h
    split at h
    · cases h
    · split at h
      · cases h
      · split at h
        · cases h; exact takes_refl _
        · cases h
  · intro st' h
    split at h
    · cases h; exact takes_refl _
    · split at h
      · cases h
      · split at h <;> cases h

theorem afterPoll_takes {eof : Bool} {st : St} :
    (∀ o st', afterPoll eof st = .emit o st' → Takes st st' (dataOf [o])) ∧
    (∀ st', afterPoll eof st = .again st' → Takes st st' []) := by
  unfold afterPoll
  cases hs : findTrailers true st.decoded with
  | bad => exact ⟨(by intro o st' h; cases h), (by intro st' h; cases h)⟩
  | trailer len => exact onTrailer_takes hs
  | incomplete =>
    simp only
    constructor
    · intro o st' h; split at h <;> cases h
    · intro st' h
      split at h
      · cases h
      · cases h; exact takes_refl _
  | done len =>
    simp only
    by_cases hl0 : len = 0
    · simp only [hl0, if_true]; exact onExhausted_takes
    · simp only [hl0, if_false]
      refine ⟨?_, (by intro st' h; cases h)⟩
      intro o st' h
      cases h
      obtain ⟨_, mits, hm1, hm2⟩ := (scan_sound true _ st.decoded).2 len hs
      refine ⟨mits, valid_of_msgs hm1, ?_, ?_⟩
      · rw [← hm2]; exact (List.take_append_drop _ _).symm
      · rw [msgsOf_msgs hm1, ← hm2]; simp [dataOf]

/-- the conclusion about a run that starts with `D` buffered and `fut` still to come -/
def CleanSpec (D fut : Bytes) (outs : List Out) : Prop :=
  ∃ its, validItems its ∧ D ++ fut = encItems its ∧ dataOf outs = encItems (msgsOf its)

theorem cleanSpec_step {st st' : St} {fut out : Bytes} {outs : List Out}
    (ht : Takes st st' out) (h : CleanSpec st'.decoded fut outs) (o : List Out)
    (ho : dataOf (o ++ outs) = out ++ dataOf outs) :
    CleanSpec st.decoded fut (o ++ outs) := by
  obtain ⟨its1, hv1, hd1, hout⟩ := ht
  obtain ⟨its2, hv2, hd2, hdata⟩ := h
  refine ⟨its1 ++ its2, ?_, ?_, ?_⟩
  · intro i hi
    rcases List.mem_append.1 hi with h | h
    · exact hv1 i h
    · exact hv2 i h
  · rw [hd1, List.append_assoc, hd2, encItems_append]
  · rw [ho, hout, hdata, msgsOf_append, encItems_append]

theorem getLast_eos_tail {o : Out} {l : List Out} (hne : l ≠ [])
    (h : (o :: l).getLast? = some .eos) : l.getLast? = some .eos := by
  rwa [List.getLast?_cons_of_ne_nil hne] at h

theorem drain_clean : ∀ (f : Nat) (st : St), (drain f st).getLast? = some .eos →
    CleanSpec st.decoded [] (drain f st) := by
  intro f
  induction f with
  | zero => intro st h; simp [drain] at h
  | succ f ih =>
    intro st h
    simp only [drain] at h ⊢
    cases hp : afterPoll true st with
    | stop os =>
      rw [hp] at h
      simp only at h ⊢
      rcases afterPoll_stop hp with rfl | ⟨rfl, _, hd⟩
      · simp at h
      · exact ⟨[], ⟨fun _ h => (by cases h), (by simp [hd, encItems]), (by simp [dataOf, msgsOf, encItems])⟩⟩
    | emit o st' =>
      rw [hp] at h
      simp only at h ⊢
      have ht := afterPoll_takes.1 o st' hp
      have h' := getLast_eos_tail (drain_ne_nil f st') h
      have := cleanSpec_step ht (ih st' h') [o] (by cases o <;> simp [dataOf])
      simpa using this
    | again st' =>
      rw [hp] at h
      simp only at h ⊢
      have ht := afterPoll_takes.2 st' hp
      have := cleanSpec_step ht (ih st' h) [] (by simp)
      simpa using this

theorem run_clean : ∀ (evs : List BodyEv) (st : St), (run st evs).getLast? = some .eos →
    CleanSpec st.decoded (flat evs) (run st evs) := by
  intro evs
  induction evs with
  | nil =>
    intro st h
    simpa [flat, run] using drain_clean _ st (by simpa [run] using h)
  | cons e r ih =>
    intro st h
    cases e with
    | pending => simpa [flat, run] using ih st (by simpa [run] using h)
    | err => simp [run] at h
    | trailers t =>
      have := ih { st with trailers := mergeTrailers st.trailers t } (by simpa [run] using h)
      simpa [flat, run] using this
    | data b =>
      simp only [run] at h ⊢
      have hflat : ∀ (X : Bytes), (X ++ b) ++ flat r = X ++ flat (BodyEv.data b :: r) := by
        intro X; simp [flat]
      cases hp : afterPoll false { st with decoded := st.decoded ++ b } with
      | stop os =>
        rw [hp] at h
        simp only at h
        rcases afterPoll_stop hp with rfl | ⟨_, he, _⟩
        · simp at h
        · cases he
      | emit o st' =>
        rw [hp] at h
        simp only at h ⊢
        have ht := afterPoll_takes.1 o st' hp
        have h' := getLast_eos_tail (run_ne_nil r st') h
        have := cleanSpec_step ht (ih st' h') [o] (by cases o <;> simp [dataOf])
        obtain ⟨its, hv, hd, hdata⟩ := this
        exact ⟨its, hv, by rw [← hflat]; exact hd, by simpa using hdata⟩
      | again st' =>
        rw [hp] at h
        simp only at h ⊢
        have ht := afterPoll_takes.2 st' hp
        have := cleanSpec_step ht (ih st' h) [] (by simp)
        obtain ⟨its, hv, hd, hdata⟩ := this
        exact ⟨its, hv, by rw [← hflat]; exact hd, by simpa using hdata⟩


/-! ### names in any case (other servers write `Grpc-Status`) -/

theorem nameByte_any_tab : ∀ n : Fin 256, tchar (UInt8.ofNat n.val) = true →
      headerNameByte (UInt8.ofNat n.val) = some (Ascii.toLower (UInt8.ofNat n.val)) ∧
      UInt8.ofNat n.val ≠ 58 ∧ UInt8.ofNat n.val ≠ 13 := by
  decide +kernel

theorem nameByte_any (b : UInt8) (h : tchar b = true) :
    headerNameByte b = some (Ascii.toLower b) ∧ b ≠ 58 ∧ b ≠ 13 := by
  have := nameByte_any_tab ⟨b.toNat, b.toNat_lt⟩
  simpa using this (by simpa using h)

theorem mapOpt_fun {α β : Type} (f : α → Option β) (g : α → β) : ∀ (l : List α),
    (∀ x ∈ l, f x = some (g x)) → mapOpt f l = some (l.map g) := by
  intro l
  induction l with
  | nil => intro _; rfl
  | cons x xs ih =>
    intro h
    simp only [List.map_cons, mapOpt, h x (by simp), ih (fun y hy => h y (by simp [hy]))]

open Spec.GrpcWeb (anyCaseNameOk lowerName) in
theorem parseName_any (k : Bytes) (h : anyCaseNameOk k = true) :
    parseName k = some (lowerName k) := by
  simp only [anyCaseNameOk, Bool.and_eq_true, Bool.not_eq_eq_eq_not, Bool.not_true,
    decide_eq_true_eq, List.all_eq_true] at h
  obtain ⟨⟨h1, h2⟩, h3⟩ := h
  have hlen : ¬ k.length > 65535 := by omega
  simp only [parseName, h1, hlen, Bool.false_or, decide_false, Bool.false_eq_true, if_false]
  exact mapOpt_fun _ _ k (fun b hb => (nameByte_any b (h3 b hb)).1)

open Spec.GrpcWeb (anyCaseNameOk lowerName) in
theorem name_any_no_sep (k : Bytes) (h : anyCaseNameOk k = true) : ∀ b ∈ k, b ≠ 58 ∧ b ≠ 13 := by
  simp only [anyCaseNameOk, Bool.and_eq_true, List.all_eq_true] at h
  intro b hb
  exact (nameByte_any b (h.2 b hb)).2

open Spec.GrpcWeb (anyCaseNameOk lowerName) in
theorem parseLine_any (sp : Bool) (p : Pair) (hk : anyCaseNameOk p.1 = true)
    (hv : plainValueOk p.2 = true) :
    parseLine true (p.1 ++ (if sp then [58, 32] else [58]) ++ p.2) = some (lowerName p.1, p.2) := by
  simp only [plainValueOk, Bool.and_eq_true, bne_iff_ne, ne_eq] at hv
  have hk58 : ∀ b ∈ p.1, b ≠ 58 := fun b hb => (name_any_no_sep p.1 hk b hb).1
  have hcr := value_no_cr p.2 hv.1
  have hline : p.1 ++ (if sp then [58, 32] else [58]) ++ p.2 =
      p.1 ++ 58 :: ((if sp then [32] else []) ++ p.2) := by
    cases sp <;> simp
  have hstrip : stripSpace true ((if sp then [32] else []) ++ p.2) = p.2 := by
    cases sp
    · simpa using stripSpace_plain p.2 hcr hv.2
    · simpa using stripSpace_space p.2 hcr
  simp only [parseLine, lineKV, if_true, hline, splitFirst_sep p.1 _ hk58 [], List.reverse_nil,
    List.nil_append, hstrip, parseName_any p.1 hk, parseValue_ok p.2 hv.1]

open Spec.GrpcWeb (anyCaseNameOk lowerName) in
theorem block_lines_any (sp : Bool) (ps : List Pair)
    (h : ∀ p ∈ ps, anyCaseNameOk p.1 = true ∧ plainValueOk p.2 = true) :
    crlfLines true [] (trailersBlock sp ps) =
      ps.map (fun p => p.1 ++ (if sp then [58, 32] else [58]) ++ p.2) := by
  induction ps with
  | nil => simp [trailersBlock, crlfLines]
  | cons p ps ih =>
    have hp := h p (by simp)
    have hv := hp.2
    simp only [plainValueOk, Bool.and_eq_true] at hv
    have hl : ∀ b ∈ p.1 ++ (if sp then [58, 32] else [58]) ++ p.2, b ≠ 13 := by
      intro b hb
      simp only [List.mem_append] at hb
      rcases hb with (hb | hb) | hb
      · exact (name_any_no_sep p.1 hp.1 b hb).2
      · cases sp <;> simp at hb <;> rcases hb with rfl | rfl <;> decide
      · exact value_no_cr p.2 hv.1 b hb
    have e : trailersBlock sp (p :: ps) =
        (p.1 ++ (if sp then [58, 32] else [58]) ++ p.2) ++ 13 :: 10 :: trailersBlock sp ps := by
      simp [trailersBlock, lineOfSp, List.flatMap_cons]
    rw [e, crlfLines_line true _ hl, ih (fun q hq => h q (by simp [hq]))]
    simp

theorem mapOpt_map_fun {α β γ : Type} (f : α → Option γ) (g : β → α) (k : β → γ) :
    ∀ (l : List β), (∀ x ∈ l, f (g x) = some (k x)) → mapOpt f (l.map g) = some (l.map k) := by
  intro l
  induction l with
  | nil => intro _; rfl
  | cons x xs ih =>
    intro h
    simp only [List.map_cons, mapOpt, h x (by simp), ih (fun y hy => h y (by simp [hy]))]

open Spec.GrpcWeb (anyCaseNameOk lowerName) in
/-- names written in any case arrive in lower case, values untouched -/
theorem decode_trailersFrame_any (sp : Bool) (ps : List Pair)
    (h : ∀ p ∈ ps, anyCaseNameOk p.1 = true ∧ plainValueOk p.2 = true) :
    decodeTrailersFrame true (trailersFrame sp ps) =
      some (some (ps.map (fun p => (lowerName p.1, p.2)))) := by
  have hlen : ¬ (trailersFrame sp ps).length < 5 := by
    rw [trailersFrame, rawFrame_length]; omega
  have hdrop : (trailersFrame sp ps).drop 5 = trailersBlock sp ps := by
    simp [trailersFrame, rawFrame, u32be]
  simp only [decodeTrailersFrame, hlen, if_false, hdrop, block_lines_any sp ps h, if_true]
  rw [mapOpt_map_fun _ _ (fun p => (lowerName p.1, p.2)) ps
    (fun p hp => parseLine_any sp p (h p hp).1 (h p hp).2)]

end WebClientLemmas
