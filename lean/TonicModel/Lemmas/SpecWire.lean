import TonicModel.Lemmas.PbWire2
import TonicModel.Spec.RichError
/-
The independent record cutter of `Spec/RichError` reads back what the prost wire model writes:
`Spec.parse (serialize recs) = some recs`, and the model's encoders are `serialize` of explicit
record lists.
-/
namespace SpecWire
open PbWire Spec.RichError

/-! ### the spec's varint reader against the model's varint writer -/

theorem varintGo_encode (n : Nat) : ∀ (v acc mul : Nat) (r : Bytes), v < 2 * 128 ^ n →
    acc + v * mul < 18446744073709551616 →
    varintGo acc mul (n + 1) (encodeVarintAux (n + 1) v ++ r) = some (acc + v * mul, r) := by
  induction n with
  | zero =>
    intro v acc mul r h hb
    have hv : v < 128 := by omega
    have hbt := byteOf_toNat v (by omega)
    simp [encodeVarintAux, hv, varintGo, hbt, hb]
  | succ n ih =>
    intro v acc mul r h hb
    by_cases hv : v < 128
    · have hbt := byteOf_toNat v (by omega)
      simp [encodeVarintAux, hv, varintGo, hbt, hb]
    · have h1 : v / 128 < 2 * 128 ^ n := by rw [Nat.pow_succ] at h; omega
      have hbt : (byteOf (v % 128 + 128)).toNat = v % 128 + 128 := byteOf_toNat _ (by omega)
      have hnl : ¬ (v % 128 + 128 < 128) := by omega
      have he : encodeVarintAux (n + 1 + 1) v = byteOf (v % 128 + 128) :: encodeVarintAux (n + 1) (v / 128) := by
        rw [encodeVarintAux]; simp [hv]
      have harith : acc + (v % 128 + 128 - 128) * mul + v / 128 * (mul * 128) = acc + v * mul := by
        have hdm : v = 128 * (v / 128) + v % 128 := (Nat.div_add_mod v 128).symm
        have e1 : v % 128 + 128 - 128 = v % 128 := by omega
        rw [e1]
        have e2 : v / 128 * (mul * 128) = 128 * (v / 128) * mul := by
          rw [Nat.mul_comm mul 128, ← Nat.mul_assoc, Nat.mul_comm (v / 128) 128]
        have e3 : v * mul = 128 * (v / 128) * mul + v % 128 * mul := by
          rw [← Nat.add_mul, ← hdm]
        omega
      rw [he, List.cons_append, varintGo, hbt, if_neg hnl, ih _ _ _ r h1 (by rw [harith]; exact hb), harith]

theorem varint_encode (v : Nat) (r : Bytes) (h : v < 18446744073709551616) :
    varint (encodeVarint v ++ r) = some (v, r) := by
  have := varintGo_encode 9 v 0 1 r (by omega) (by omega)
  simpa [varint, encodeVarint] using this

/-! ### records -/

/-- the reference writer: key, then the value in its wire form (only the two wire types a proto3
writer of these messages uses) -/
def recBytes : Nat × Wire → Bytes
  | (n, .varint v) => encodeKey n 0 ++ encodeVarint v
  | (n, .len b) => encodeKey n 2 ++ (encodeVarint b.length ++ b)
  | (_, _) => []

def serialize (recs : List (Nat × Wire)) : Bytes := recs.flatMap recBytes

def RecOk : Nat × Wire → Prop
  | (n, .varint v) => 1 ≤ n ∧ n < 536870912 ∧ v < 18446744073709551616
  | (n, .len b) => 1 ≤ n ∧ n < 536870912 ∧ b.length < 18446744073709551616
  | (_, _) => False

theorem serialize_append (a b : List (Nat × Wire)) : serialize (a ++ b) = serialize a ++ serialize b := by
  simp [serialize]

theorem serialize_nil : serialize [] = [] := rfl

theorem key_varint (n wt : Nat) (r : Bytes) (h : n < 536870912) (hw : wt < 8) :
    varint (encodeKey n wt ++ r) = some (n * 8 + wt, r) :=
  varint_encode _ r (by omega)

theorem fields_serialize (recs : List (Nat × Wire)) (h : ∀ x ∈ recs, RecOk x) :
    ∀ fuel, (serialize recs).length ≤ fuel → fields fuel (serialize recs) = some recs := by
  induction recs with
  | nil => intro fuel _; cases fuel <;> rfl
  | cons x recs ih =>
    intro fuel hf
    have hx := h x (by simp)
    have ih' := ih (fun y hy => h y (by simp [hy]))
    obtain ⟨n, w⟩ := x
    have hser : serialize ((n, w) :: recs) = recBytes (n, w) ++ serialize recs := by simp [serialize]
    cases w with
    | varint v =>
      obtain ⟨h1, h2, h3⟩ := hx
      have hne := encodeKey_ne_nil n 0
      rw [hser] at hf ⊢
      simp only [recBytes, List.append_assoc, List.length_append] at hf ⊢
      obtain ⟨b, bs, hb⟩ := List.exists_cons_of_ne_nil hne
      have hpos : (encodeKey n 0).length ≥ 1 := by rw [hb]; simp
      cases fuel with
      | zero => omega
      | succ f =>
        have e1 : (n * 8 + 0) / 8 = n := by omega
        have e2 : (n * 8 + 0) % 8 = 0 := by omega
        have hk := key_varint n 0 (encodeVarint v ++ serialize recs) h2 (by omega)
        rw [hb] at hk ⊢
        simp only [List.cons_append] at hk ⊢
        rw [fields, hk]
        have hc : ¬ (n = 0 ∨ 536870912 ≤ n) := by omega
        simp only [e2, if_true, varint_encode v _ h3, e1]
        rw [ih' f (by omega)]
        simp [hc]
    | len p =>
      obtain ⟨h1, h2, h3⟩ := hx
      have hne := encodeKey_ne_nil n 2
      rw [hser] at hf ⊢
      simp only [recBytes, List.append_assoc, List.length_append] at hf ⊢
      obtain ⟨b, bs, hb⟩ := List.exists_cons_of_ne_nil hne
      have hpos : (encodeKey n 2).length ≥ 1 := by rw [hb]; simp
      cases fuel with
      | zero => omega
      | succ f =>
        have e1 : (n * 8 + 2) / 8 = n := by omega
        have e2 : (n * 8 + 2) % 8 = 2 := by omega
        have hk := key_varint n 2 (encodeVarint p.length ++ (p ++ serialize recs)) h2 (by omega)
        rw [hb] at hk ⊢
        simp only [List.cons_append] at hk ⊢
        rw [fields, hk]
        have hc : ¬ (n = 0 ∨ 536870912 ≤ n) := by omega
        simp only [e2, varint_encode p.length _ h3, e1]
        simp only [show ¬ ((2 : Nat) = 0) by omega, show ¬ ((2 : Nat) = 1) by omega, if_false, if_true,
          List.length_append, Nat.le_add_right, List.drop_left, List.take_left]
        rw [ih' f (by omega)]
        simp [hc]
    | fixed64 _ => exact hx.elim
    | fixed32 _ => exact hx.elim

theorem parse_serialize (recs : List (Nat × Wire)) (h : ∀ x ∈ recs, RecOk x) :
    parse (serialize recs) = some recs :=
  fields_serialize recs h _ (Nat.le_refl _)

end SpecWire
