import TonicModel.Lemmas.BalanceRun
/-
Load-balanced channel (C14): how many calls can still fail once every endpoint is reachable.
An endpoint can hold at most ONE failure that no call has been told about yet (`pot`): a parked
connect error, an attempt in flight that was refused, or a connection established in this very
call to a peer that is already gone.  With every endpoint reachable no new failure arises, and
every call that does not get a response uses one up.
-/
namespace Balance
open ConnScript BalScript Reconnect

/-- the failure endpoint `e` still holds for some call (0 or 1) -/
def pot (e : EP) : Nat :=
  if e.member = false then 0
  else if e.r.error.isSome = true then 1
  else
    match e.r.st with
    | .connecting => if e.flight = true ∧ e.w.alive = some e.r.made then 0 else 1
    | .connected c => if e.fresh = true ∧ e.w.alive ≠ some c then 1 else 0
    | .idle => 0
    | .spent => 0

/-- the failures the channel still holds -/
def debt (eps : List EP) : Nat := (eps.map pot).sum

/-- every endpoint of the channel has a server listening -/
def Up (e : EP) : Prop := e.member = true → e.w.up = true

/-- a call that did not get a response but an error -/
def BRes.errored : BRes → Bool
  | .resp _ _ => false
  | .hang => false
  | .err _ _ => true
  | .lost _ => true
  | .panic => true

def failN : Option BRes → Nat
  | some r => if r.errored then 1 else 0
  | none => 0

theorem pot_le_one (e : EP) : pot e ≤ 1 := by
  unfold pot; (repeat' split) <;> omega

theorem pot_nonmember (e : EP) (h : e.member = false) : pot e = 0 := by simp [pot, h]

theorem advance_pot (e : EP) (h : Up e) : pot (advance e) ≤ pot e ∧ Up (advance e) := by
  obtain ⟨key, member, ⟨st, error, hasBeen, isLazy, made⟩, ready, flight, fresh, ⟨up, gen, alive⟩⟩ := e
  cases member
  · simp [advance_eq, adv, pot, Up]; (repeat' split) <;> simp_all
  · have hu : up = true := h rfl
    subst hu
    cases error with
    | some x => simp [advance_eq, adv, pot, Up]
    | none =>
      cases st with
      | idle => simp [advance_eq, adv, pot, Up]
      | connecting =>
        cases flight
        · simp only [advance_eq, adv, pot, Up]; (repeat' split) <;> simp_all
        · simp only [advance_eq, adv, pot, Up]; (repeat' split) <;> simp_all
      | connected c =>
        simp only [advance_eq, adv, pot, Up]; (repeat' split) <;> simp_all
      | spent => simp [advance_eq, adv, pot, Up]

/-- a parked connect error sits in an idle `Reconnect` (`Lemmas/Reconnect.lean: Good`) -/
def Gd (e : EP) : Prop := Good e.r

theorem advance_gd (e : EP) (h : Gd e) : Gd (advance e) := by
  unfold Gd Good at *
  revert h
  adv_cases

theorem tryOne_gd (e : EP) (h : Gd e) : Gd (tryOne e).1 := by
  unfold tryOne
  split
  · unfold Gd; rw [serveEP_r]; exact call_good _ (advance_gd e h)
  · exact advance_gd e h

theorem tryOne_pot (e : EP) (h : Up e) (hg : Gd e) :
    pot (tryOne e).1 + failN (tryOne e).2 ≤ pot e ∧ Up (tryOne e).1 := by
  obtain ⟨key, member, ⟨st, error, hasBeen, isLazy, made⟩, ready, flight, fresh, ⟨up, gen, alive⟩⟩ := e
  cases member
  · simp [tryOne, advance_eq, adv, pot, Up, failN]; (repeat' split) <;> simp_all [failN]
  · have hu : up = true := h rfl
    subst hu
    cases error with
    | some x =>
      have hst : st = .idle := by simpa [Gd, Good] using hg
      subst hst
      simp [tryOne, advance_eq, adv, pot, Up, failN, serveEP, Reconnect.call, BRes.errored]
    | none =>
      cases st with
      | idle => simp [tryOne, advance_eq, adv, pot, Up, failN]
      | connecting =>
        cases flight
        · by_cases hb : hasBeen = true ∨ isLazy = true
          · simp [tryOne, advance_eq, adv, pot, Up, failN, serveEP, Reconnect.call, BRes.errored, hb]
          · simp [tryOne, advance_eq, adv, pot, Up, failN, hb]
        · by_cases ha : alive = some made
          · simp [tryOne, advance_eq, adv, pot, Up, failN, serveEP, Reconnect.call, BRes.errored, ha]
          · simp [tryOne, advance_eq, adv, pot, Up, failN, serveEP, Reconnect.call, BRes.errored, ha]
      | connected c =>
        by_cases ha : alive = some c
        · simp [tryOne, advance_eq, adv, pot, Up, failN, serveEP, Reconnect.call, BRes.errored, ha]
        · cases fresh
          · simp [tryOne, advance_eq, adv, pot, Up, failN, ha]
          · simp [tryOne, advance_eq, adv, pot, Up, failN, serveEP, Reconnect.call, BRes.errored, ha]
      | spent => simp [tryOne, advance_eq, adv, pot, Up, failN]

theorem settle_pot (e : EP) (h : Up e) : pot { e with fresh := false } ≤ pot e ∧ Up { e with fresh := false } := by
  refine ⟨?_, h⟩
  unfold pot; (repeat' split) <;> simp_all

/-! ### the endpoint list -/

def UG (e : EP) : Prop := Up e ∧ Gd e

theorem debt_cons (a : EP) (as : List EP) : debt (a :: as) = pot a + debt as := by simp [debt]

theorem debt_nil : debt [] = 0 := rfl

theorem mem_cons_forall {P : EP → Prop} {a : EP} {as : List EP} (h : ∀ e ∈ a :: as, P e) :
    P a ∧ ∀ e ∈ as, P e :=
  ⟨h a List.mem_cons_self, fun e he => h e (List.mem_cons_of_mem _ he)⟩

theorem forall_cons {P : EP → Prop} {a : EP} {as : List EP} (ha : P a) (has : ∀ e ∈ as, P e) :
    ∀ e ∈ a :: as, P e := by
  intro e he
  rcases List.mem_cons.1 he with rfl | he
  · exact ha
  · exact has e he

theorem pass_debt (eps : List EP) (h : ∀ e ∈ eps, UG e) :
    debt (pass eps) ≤ debt eps ∧ ∀ e ∈ pass eps, UG e := by
  induction eps with
  | nil => exact ⟨Nat.le_refl _, h⟩
  | cons a as ih =>
    obtain ⟨ha, has⟩ := mem_cons_forall h
    obtain ⟨ih1, ih2⟩ := ih has
    simp only [pass, List.map_cons] at ih1 ih2 ⊢
    rw [debt_cons, debt_cons]
    split
    · exact ⟨Nat.add_le_add (advance_pot a ha.1).1 ih1,
        forall_cons ⟨(advance_pot a ha.1).2, advance_gd a ha.2⟩ ih2⟩
    · exact ⟨Nat.add_le_add (Nat.le_refl _) ih1, forall_cons ha ih2⟩

theorem settle_debt (eps : List EP) (h : ∀ e ∈ eps, UG e) :
    debt (settle eps) ≤ debt eps ∧ ∀ e ∈ settle eps, UG e := by
  induction eps with
  | nil => exact ⟨Nat.le_refl _, h⟩
  | cons a as ih =>
    obtain ⟨ha, has⟩ := mem_cons_forall h
    obtain ⟨ih1, ih2⟩ := ih has
    simp only [settle, List.map_cons] at ih1 ih2 ⊢
    rw [debt_cons, debt_cons]
    exact ⟨Nat.add_le_add (settle_pot a ha.1).1 ih1, forall_cons ⟨(settle_pot a ha.1).2, ha.2⟩ ih2⟩

theorem tryKey_debt (k : Nat) (eps : List EP) (h : ∀ e ∈ eps, UG e) :
    debt (tryKey k eps).1 + failN (tryKey k eps).2 ≤ debt eps ∧ ∀ e ∈ (tryKey k eps).1, UG e := by
  induction eps with
  | nil => exact ⟨Nat.le_refl _, h⟩
  | cons a as ih =>
    obtain ⟨ha, has⟩ := mem_cons_forall h
    obtain ⟨ih1, ih2⟩ := ih has
    unfold tryKey
    split
    · have := tryOne_pot a ha.1 ha.2
      refine ⟨?_, forall_cons ⟨this.2, tryOne_gd a ha.2⟩ has⟩
      simp only [debt_cons]; omega
    · refine ⟨?_, forall_cons ha ih2⟩
      simp only [debt_cons]; omega

theorem tryKeys_debt (ks : List Nat) : ∀ (eps : List EP), (∀ e ∈ eps, UG e) →
    debt (tryKeys eps ks).1 + failN (tryKeys eps ks).2 ≤ debt eps ∧ ∀ e ∈ (tryKeys eps ks).1, UG e := by
  induction ks with
  | nil => intro eps h; exact ⟨Nat.le_refl _, h⟩
  | cons k ks ih =>
    intro eps h
    have hk := tryKey_debt k eps h
    unfold tryKeys
    split
    · rename_i r hr
      rw [hr] at hk
      exact hk
    · rename_i hr
      rw [hr] at hk
      have := ih _ hk.2
      refine ⟨?_, this.2⟩
      simp only [failN] at hk
      omega

theorem sweep_debt (eps : List EP) (h : ∀ e ∈ eps, UG e) :
    debt (sweep eps).1 + failN (sweep eps).2 ≤ debt eps ∧ ∀ e ∈ (sweep eps).1, UG e := by
  induction eps with
  | nil => exact ⟨Nat.le_refl _, h⟩
  | cons a as ih =>
    obtain ⟨ha, has⟩ := mem_cons_forall h
    obtain ⟨ih1, ih2⟩ := ih has
    have ht := tryOne_pot a ha.1 ha.2
    unfold sweep
    split
    · split
      · rename_i r hr
        rw [hr] at ht
        refine ⟨?_, forall_cons ⟨ht.2, tryOne_gd a ha.2⟩ has⟩
        simp only [debt_cons]; omega
      · rename_i hr
        rw [hr] at ht
        refine ⟨?_, forall_cons ⟨ht.2, tryOne_gd a ha.2⟩ ih2⟩
        have ht1 : pot (tryOne a).1 ≤ pot a := by simpa [failN] using ht.1
        simp only [debt_cons]; omega
    · refine ⟨?_, forall_cons ha ih2⟩
      simp only [debt_cons]; omega

theorem phase_debt (eps : List EP) (ks : List Nat) (h : ∀ e ∈ eps, UG e) :
    debt (phase eps ks).1 + failN (phase eps ks).2 ≤ debt eps ∧ ∀ e ∈ (phase eps ks).1, UG e := by
  have hk := tryKeys_debt ks eps h
  unfold phase
  split
  · rename_i r hr
    rw [hr] at hk
    exact hk
  · rename_i hr
    rw [hr] at hk
    have := sweep_debt _ hk.2
    refine ⟨?_, this.2⟩
    simp only [failN] at hk
    omega

/-- One call with every endpoint reachable: the failures still held do not grow, and an error
uses one up. -/
theorem call_debt (s : B) (ch : Choice) (h : ∀ e ∈ s.eps, UG e) :
    debt (call s ch).1.eps + (if (call s ch).2.errored then 1 else 0) ≤ debt s.eps ∧
      ∀ e ∈ (call s ch).1.eps, UG e := by
  have h1 := pass_debt s.eps h
  have h2 := phase_debt _ ch.tries h1.2
  unfold call
  split
  · rename_i r hr
    rw [hr] at h2
    have h3 := settle_debt _ h2.2
    refine ⟨?_, h3.2⟩
    simp only [failN] at h2
    simp only
    omega
  · rename_i hr
    rw [hr] at h2
    have h3 := pass_debt _ h2.2
    have h4 := phase_debt _ [ch.final] h3.2
    have h5 := settle_debt _ h4.2
    simp only [failN] at h2
    split
    · rename_i r hr2
      rw [hr2] at h4
      refine ⟨?_, h5.2⟩
      simp only [failN] at h4
      simp only
      omega
    · rename_i hr2
      rw [hr2] at h4
      refine ⟨?_, h5.2⟩
      simp only [failN] at h4
      simp only [BRes.errored, Bool.false_eq_true, if_false]
      omega

/-- Any number of calls in a row with every endpoint reachable: the calls that end in an error are
at most as many as the failures the channel held at the start. -/
theorem calls_debt (chs : List Choice) : ∀ (s : B), (∀ e ∈ s.eps, UG e) →
    ((calls s chs).filter BRes.errored).length ≤ debt s.eps := by
  induction chs with
  | nil => intro s _; simp [calls]
  | cons ch chs ih =>
    intro s h
    have hc := call_debt s ch h
    have := ih _ hc.2
    simp only [calls, List.filter_cons]
    split
    · rename_i he
      simp only [he, if_true] at hc
      simp only [List.length_cons]
      omega
    · omega

theorem debt_le_members (eps : List EP) : debt eps ≤ members eps := by
  induction eps with
  | nil => simp [debt, members]
  | cons a as ih =>
    rw [debt_cons]
    simp only [members, List.filter_cons] at ih ⊢
    cases hm : a.member
    · simp [pot_nonmember a hm]; exact ih
    · have := pot_le_one a
      simp only [if_true, List.length_cons]
      omega

/-! ### the endpoint that served a call holds no failure -/

theorem tryOne_served (e : EP) (r : BRes) (hg : Gd e) (h : (tryOne e).2 = some r) :
    pot (tryOne e).1 = 0 ∧ (tryOne e).1.member = true := by
  obtain ⟨key, member, ⟨st, error, hasBeen, isLazy, made⟩, ready, flight, fresh, ⟨up, gen, alive⟩⟩ := e
  revert h
  cases error with
  | some x =>
    have hst : st = .idle := by simpa [Gd, Good] using hg
    subst hst
    cases member <;> simp [tryOne, advance_eq, adv, pot, serveEP, Reconnect.call]
  | none =>
    cases st with
    | idle => simp [tryOne, advance_eq, adv]
    | connecting =>
      cases flight
      · by_cases hb : hasBeen = true ∨ isLazy = true
        · cases member <;> simp [tryOne, advance_eq, adv, pot, serveEP, Reconnect.call, hb]
        · simp [tryOne, advance_eq, adv, hb]
      · cases member <;> simp [tryOne, advance_eq, adv, pot, serveEP, Reconnect.call]
    | connected c =>
      by_cases ha : alive = some c ∨ fresh = true
      · cases member <;> simp [tryOne, advance_eq, adv, pot, serveEP, Reconnect.call, ha]
      · simp [tryOne, advance_eq, adv, ha]
    | spent => simp [tryOne, advance_eq, adv]

theorem members_cons (a : EP) (as : List EP) :
    members (a :: as) = (if a.member = true then 1 else 0) + members as := by
  simp only [members, List.filter_cons]
  split <;> simp <;> omega

theorem pw_gd {as bs : List EP} (h : PW as bs) (ha : ∀ e ∈ as, Gd e) : ∀ e ∈ bs, Gd e :=
  h.forall (fun _ _ ev hg => Ev.keeps advance_gd tryOne_gd (fun _ hx => hx) ev hg) ha

theorem tryKey_slack (k : Nat) (eps : List EP) (r : BRes) (hg : ∀ e ∈ eps, Gd e)
    (h : (tryKey k eps).2 = some r) : debt (tryKey k eps).1 + 1 ≤ members (tryKey k eps).1 := by
  induction eps with
  | nil => simp [tryKey] at h
  | cons a as ih =>
    obtain ⟨ha, has⟩ := mem_cons_forall hg
    unfold tryKey at h ⊢
    split
    · rename_i hc
      simp only [hc, if_true] at h
      obtain ⟨h0, hm⟩ := tryOne_served a r ha h
      have := debt_le_members as
      simp only [debt_cons, members_cons, h0, hm, if_true]
      omega
    · rename_i hc
      simp only [hc] at h
      have := ih has h
      have hp : pot a ≤ (if a.member = true then 1 else 0) := by
        cases hm : a.member
        · simp [pot_nonmember a hm]
        · simpa using pot_le_one a
      simp only [debt_cons, members_cons]
      omega

theorem tryKeys_slack (ks : List Nat) : ∀ (eps : List EP) (r : BRes), (∀ e ∈ eps, Gd e) →
    (tryKeys eps ks).2 = some r → debt (tryKeys eps ks).1 + 1 ≤ members (tryKeys eps ks).1 := by
  induction ks with
  | nil => intro eps r _ h; simp [tryKeys] at h
  | cons k ks ih =>
    intro eps r hg h
    unfold tryKeys at h ⊢
    split
    · rename_i r' hr
      exact tryKey_slack k eps r' hg hr
    · rename_i hr
      simp only [hr] at h
      exact ih _ r (pw_gd (tryKey_pw k eps) hg) h

theorem sweep_slack (eps : List EP) (r : BRes) (hg : ∀ e ∈ eps, Gd e) (h : (sweep eps).2 = some r) :
    debt (sweep eps).1 + 1 ≤ members (sweep eps).1 := by
  induction eps with
  | nil => simp [sweep] at h
  | cons a as ih =>
    obtain ⟨ha, has⟩ := mem_cons_forall hg
    unfold sweep at h ⊢
    split
    · rename_i hc
      simp only [hc, if_true] at h
      split
      · rename_i r' hr
        obtain ⟨h0, hm⟩ := tryOne_served a r' ha hr
        have := debt_le_members as
        simp only [debt_cons, members_cons, h0, hm, if_true]
        omega
      · rename_i hr
        simp only [hr] at h
        have := ih has h
        have hp : pot (tryOne a).1 ≤ (if (tryOne a).1.member = true then 1 else 0) := by
          cases hm : (tryOne a).1.member
          · simp [pot_nonmember _ hm]
          · simpa using pot_le_one _
        simp only [debt_cons, members_cons]
        omega
    · rename_i hc
      simp only [hc] at h
      have := ih has h
      have hp : pot a ≤ (if a.member = true then 1 else 0) := by
        cases hm : a.member
        · simp [pot_nonmember a hm]
        · simpa using pot_le_one a
      simp only [debt_cons, members_cons]
      omega

theorem phase_slack (eps : List EP) (ks : List Nat) (r : BRes) (hg : ∀ e ∈ eps, Gd e)
    (h : (phase eps ks).2 = some r) : debt (phase eps ks).1 + 1 ≤ members (phase eps ks).1 := by
  unfold phase at h ⊢
  split
  · rename_i r' hr
    exact tryKeys_slack ks eps r' hg hr
  · rename_i hr
    simp only [hr] at h
    exact sweep_slack _ r (pw_gd (tryKeys_pw ks eps) hg) h

theorem settle_debt_le (eps : List EP) : debt (settle eps) ≤ debt eps := by
  induction eps with
  | nil => exact Nat.le_refl _
  | cons a as ih =>
    simp only [settle, List.map_cons] at ih ⊢
    rw [debt_cons, debt_cons]
    have : pot { a with fresh := false } ≤ pot a := by
      unfold pot; (repeat' split) <;> simp_all
    omega

theorem settle_members (eps : List EP) : members (settle eps) = members eps := by
  induction eps with
  | nil => rfl
  | cons a as ih =>
    simp only [settle, List.map_cons] at ih ⊢
    rw [members_cons, members_cons, ih]

/-- After a call that was served, at least one endpoint of the channel — the one that served it —
holds no failure. -/
theorem call_slack (s : B) (ch : Choice) (hg : ∀ e ∈ s.eps, Gd e) (h : (call s ch).2 ≠ .hang) :
    debt (call s ch).1.eps + 1 ≤ members (call s ch).1.eps := by
  unfold call at h ⊢
  split
  · rename_i r hr
    have := phase_slack _ ch.tries r (pw_gd (pass_pw _) hg) hr
    have := settle_debt_le (phase (pass s.eps) ch.tries).1
    simp only [settle_members]
    omega
  · rename_i hr
    split
    · rename_i r hr2
      have hg2 : ∀ e ∈ pass (phase (pass s.eps) ch.tries).1, Gd e :=
        pw_gd (((pass_pw _).trans (phase_pw _ _)).trans (pass_pw _)) hg
      have := phase_slack _ [ch.final] r hg2 hr2
      have := settle_debt_le (phase (pass (phase (pass s.eps) ch.tries).1) [ch.final]).1
      simp only [settle_members]
      omega
    · rename_i hr2
      simp [hr, hr2] at h

theorem debt_append (a b : List EP) : debt (a ++ b) = debt a + debt b := by
  simp [debt, List.map_append, List.sum_append]

theorem debt_ensure (k : Nat) (eps : List EP) : debt (ensure k eps) = debt eps := by
  unfold ensure
  split
  · rfl
  · rw [debt_append]; simp [debt, pot, blank]

theorem debt_onKey (k : Nat) (f : EP → EP) (eps : List EP) (hf : ∀ e, pot (f e) = pot e) :
    debt (onKey k f eps) = debt eps := by
  induction eps with
  | nil => rfl
  | cons a as ih =>
    simp only [onKey, List.map_cons] at ih ⊢
    rw [debt_cons, debt_cons, ih]
    split
    · rw [hf]
    · rfl

/-- a server that starts changes nothing in what the endpoints hold -/
theorem env_up_debt (s : B) (k : Nat) : debt (env s (.up k)).eps = debt s.eps := by
  simp only [env]
  rw [debt_onKey k (fun e => { e with w := e.w.setUp }) _ (fun e => by
    unfold pot EW.setUp; (repeat' split) <;> simp_all), debt_ensure]

/-! ### reachable states -/

theorem env_gd (s : B) (op : BOp) (h : ∀ e ∈ s.eps, Gd e) : ∀ e ∈ (env s op).eps, Gd e := by
  have hb : ∀ k, ∀ e ∈ ensure k s.eps, Gd e := by
    intro k e he
    unfold ensure at he
    split at he
    · exact h e he
    · rcases List.mem_append.1 he with he | he
      · exact h e he
      · simp only [List.mem_singleton] at he; subst he; simp [Gd, Good, blank, R.init]
  cases op with
  | up k => exact onKey_forall k _ _ (hb k) (fun e he => he)
  | down k => exact onKey_forall k _ _ (hb k) (fun e he => he)
  | insert k => exact onKey_forall k _ _ (hb k) (fun e _ => by simp [Gd, Good, inserted, R.init])
  | remove k => exact onKey_forall k _ _ (hb k) (fun e he => he)
  | call => exact h

theorem exec_gd (ops : List BOp) : ∀ (s : B) (chs : List Choice), (∀ e ∈ s.eps, Gd e) →
    ∀ e ∈ (exec s ops chs).eps, Gd e := by
  induction ops with
  | nil => intro s chs h; exact h
  | cons op ops ih =>
    intro s chs h
    cases op with
    | call => exact ih _ _ (pw_gd (call_pw s _) h)
    | up k => exact ih (env s (.up k)) chs (env_gd s _ h)
    | down k => exact ih (env s (.down k)) chs (env_gd s _ h)
    | insert k => exact ih (env s (.insert k)) chs (env_gd s _ h)
    | remove k => exact ih (env s (.remove k)) chs (env_gd s _ h)

/-- all results of `calls` are definite while the channel has an endpoint -/
theorem calls_definite (chs : List Choice) : ∀ (s : B), (∀ e ∈ s.eps, Lz e) → 0 < members s.eps →
    ∀ r ∈ calls s chs, r.definite = true := by
  induction chs with
  | nil => intro s _ _ r hr; simp [calls] at hr
  | cons ch chs ih =>
    intro s h hm r hr
    simp only [calls, List.mem_cons] at hr
    rcases hr with rfl | hr
    · exact call_definite s ch h hm
    · exact ih _ (call_lz s ch h) (by rw [pw_members (call_pw s ch) h]; exact hm) r hr

end Balance
