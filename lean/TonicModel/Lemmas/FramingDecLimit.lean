import TonicModel.Lemmas.FramingWire
import TonicModel.Model.FramingReserve
/-
Run-level consequences for bodies that simply deliver their bytes and end (data chunks and
`Pending`s in any arrangement, no trailers, no body error): what the stream yields is *exactly*
what the reference batch decoder reads from the delivered bytes — every valid message, then the
error that belongs to the first refused frame (bad flag, compressed flag without encoding,
over-limit length, undecompressible / undecodable payload), or `Unexpected EOF` when the input
ends inside a frame the receiver holds bytes of, or the end of the stream.

Also: the `buf.reserve(len)` of `decode_chunk` as a function of the state (`Dec.chunkReserve`),
never over the limit, and the only way into the `body` phase.

Built on `pre_good` (Lemmas/FramingDec.lean); the refinement for `Spec.Framing.held` (what the
receiver still holds at the end of the input) is proved here the same way.
-/
namespace Framing
open Spec.Framing
variable {α : Type}

/-! ### `held`: unfolding -/

theorem held_nil (p : Recv α) : held p [] = [] := by rw [held]

theorem held_short (p : Recv α) (bs : Bytes) (h5 : bs.length < 5) : held p bs = bs := by
  match bs, h5 with
  | [], _ => rw [held]
  | [_], _ => rw [held] <;> simp
  | [_, _], _ => rw [held] <;> simp
  | [_, _, _], _ => rw [held] <;> simp
  | [_, _, _, _], _ => rw [held] <;> simp
  | _ :: _ :: _ :: _ :: _ :: _, h => simp at h; omega

theorem held_cons5 (p : Recv α) (f a b c d : UInt8) (r : Bytes) :
    held p (f :: a :: b :: c :: d :: r) =
      match header p f (be32 a b c d) with
      | .error _ => []
      | .ok comp => heldBody p (be32 a b c d) comp r := by
  rw [held]
  cases header p f (be32 a b c d) with
  | error e => rfl
  | ok comp => simp only [heldBody]

/-- what the receiver would still hold of the buffer followed by `X`, should the input end there -/
def heldFrom (cd : Codec α) (cfg : DecCfg) (s : DecSt) (X : Bytes) : Bytes :=
  match s.ph with
  | .hdr => held (recvOf cd cfg) (s.buf ++ X)
  | .body len comp => heldBody (recvOf cd cfg) len comp.isSome (s.buf ++ X)
  | .failed _ => []

/-- What `decodeChunk` does to `heldFrom`, by result kind. -/
def HeldGood (cd : Codec α) (cfg : DecCfg) (s s' : DecSt) (r : DC α) : Prop :=
  match r with
  | .item _ => ∀ X, heldFrom cd cfg s X = heldFrom cd cfg s' X
  | .fail _ => True
  | .more => (∀ X, heldFrom cd cfg s X = heldFrom cd cfg s' X) ∧
      (specFrom cd cfg s' [] = ([], .incomplete) → heldFrom cd cfg s' [] = s'.buf)

theorem readBody_held (cd : Codec α) (cfg : DecCfg) (s : DecSt) (len : Nat) (comp : Option Enc)
    (hc : comp = none ∨ comp = cfg.enc) :
    HeldGood cd cfg { s with ph := .body len comp } (Dec.readBody cd s len comp).1
      (Dec.readBody cd s len comp).2 := by
  unfold Dec.readBody
  by_cases hlt : s.buf.length < len
  · simp only [hlt, ↓reduceIte]
    exact ⟨fun _ => rfl, fun _ => by simp [heldFrom, heldBody, Spec.Framing.payload, hlt]⟩
  · have hge : len ≤ s.buf.length := by omega
    simp only [hlt, ↓reduceIte]
    have hpay : ∀ (c : Bool) (X : Bytes), Spec.Framing.payload (recvOf cd cfg) len c (s.buf ++ X)
        = Spec.Framing.payload (recvOf cd cfg) len c s.buf := by
      intro c X
      have : ¬ (s.buf ++ X).length < len := by simp; omega
      simp only [Spec.Framing.payload, this, hlt, ↓reduceIte, take_append_of_le hge]
    cases comp with
    | none =>
      cases hde : cd.de (s.buf.take len) with
      | none => simp only [HeldGood]
      | some m =>
        have hp : Spec.Framing.payload (recvOf cd cfg) len false s.buf = .ok m := by
          simp [Spec.Framing.payload, hlt, recvOf, hde]
        simp only [HeldGood]
        intro X
        simp only [heldFrom, heldBody, Option.isSome_none, hpay, hp, drop_append_of_le hge]
    | some e =>
      have hce : cfg.enc = some e := by
        rcases hc with h | h
        · cases h
        · exact h.symm
      dsimp only
      cases hdz : cd.dz e (s.buf.take len) with
      | none => simp only [HeldGood]
      | some raw =>
        dsimp only
        cases hde : cd.de raw with
        | none => simp only [HeldGood]
        | some m =>
          have hp : Spec.Framing.payload (recvOf cd cfg) len true s.buf = .ok m := by
            simp [Spec.Framing.payload, hlt, recvOf, hce, hdz, hde]
          simp only [HeldGood]
          intro X
          simp only [heldFrom, heldBody, Option.isSome_some, hpay, hp, drop_append_of_le hge]

theorem HeldGood_congr (cd : Codec α) (cfg : DecCfg) (s s0 s' : DecSt) (r : DC α)
    (hx : ∀ X, heldFrom cd cfg s X = heldFrom cd cfg s0 X)
    (h : HeldGood cd cfg s0 s' r) : HeldGood cd cfg s s' r := by
  cases r with
  | item m => exact fun X => (hx X).trans (h X)
  | fail st => trivial
  | more => exact ⟨fun X => (hx X).trans (h.1 X), h.2⟩

theorem decodeChunk_held (cd : Codec α) (cfg : DecCfg) (s : DecSt) (h : PhaseOk cfg s) :
    HeldGood cd cfg s (Dec.decodeChunk cd cfg s).1 (Dec.decodeChunk cd cfg s).2 := by
  obtain ⟨buf, ph, tr⟩ := s
  cases ph with
  | failed st => exact absurd h (by simp [PhaseOk])
  | body len comp =>
    simp only [Dec.decodeChunk]
    exact readBody_held cd cfg ⟨buf, .body len comp, tr⟩ len comp (by simpa [PhaseOk] using h)
  | hdr =>
    have short : buf.length < 5 → HeldGood cd cfg ⟨buf, .hdr, tr⟩ ⟨buf, .hdr, tr⟩ .more := by
      intro hs
      refine ⟨fun _ => rfl, fun _ => ?_⟩
      simp [heldFrom, held_short _ _ hs]
    match buf with
    | [] => simpa [Dec.decodeChunk] using short (by simp)
    | [_] => simpa [Dec.decodeChunk] using short (by simp)
    | [_, _] => simpa [Dec.decodeChunk] using short (by simp)
    | [_, _, _] => simpa [Dec.decodeChunk] using short (by simp)
    | [_, _, _, _] => simpa [Dec.decodeChunk] using short (by simp)
    | f :: a :: b :: c :: d :: rest =>
      simp only [Dec.decodeChunk]
      have hheld : ∀ X, heldFrom cd cfg ⟨f :: a :: b :: c :: d :: rest, .hdr, tr⟩ X =
          match header (recvOf cd cfg) f (readU32 a b c d) with
          | .error _ => []
          | .ok comp => heldBody (recvOf cd cfg) (readU32 a b c d) comp (rest ++ X) := by
        intro X
        simp only [heldFrom, List.cons_append, held_cons5, be32_eq_readU32]
      have proceed : ∀ (comp : Option Enc), (comp = none ∨ comp = cfg.enc) →
          header (recvOf cd cfg) f (readU32 a b c d) =
            (if readU32 a b c d > cfg.limit then .error .tooLarge else .ok comp.isSome) →
          HeldGood cd cfg ⟨f :: a :: b :: c :: d :: rest, .hdr, tr⟩
            (if readU32 a b c d > cfg.limit then
              (({ buf := rest, ph := .hdr, trailers := tr } : DecSt), (DC.fail ⟨11, .tooLargeDec⟩ : DC α))
             else Dec.readBody cd { buf := rest, ph := .hdr, trailers := tr } (readU32 a b c d) comp).1
            (if readU32 a b c d > cfg.limit then
              (({ buf := rest, ph := .hdr, trailers := tr } : DecSt), (DC.fail ⟨11, .tooLargeDec⟩ : DC α))
             else Dec.readBody cd { buf := rest, ph := .hdr, trailers := tr } (readU32 a b c d) comp).2 := by
        intro comp hc hh
        by_cases hl : readU32 a b c d > cfg.limit
        · rw [if_pos hl]; exact True.intro
        · simp only [hl, ↓reduceIte]
          refine HeldGood_congr cd cfg _ ⟨rest, .body (readU32 a b c d) comp, tr⟩ _ _ ?_
            (readBody_held cd cfg ⟨rest, .hdr, tr⟩ (readU32 a b c d) comp hc)
          intro X
          rw [hheld X, hh]; simp [hl, heldFrom]
      by_cases h0 : f = 0
      · subst h0
        simp only [↓reduceIte]
        exact proceed none (Or.inl rfl) (by simp [header, recvOf])
      · by_cases h1 : f = 1
        · subst h1
          simp only [h0, ↓reduceIte]
          cases he : cfg.enc with
          | none => simp only [HeldGood]
          | some e =>
            have := proceed (some e) (Or.inr he.symm) (by simp [header, recvOf, he])
            simpa using this
        · simp only [h0, h1, ↓reduceIte, HeldGood]

theorem heldFrom_push (cd : Codec α) (cfg : DecCfg) (s : DecSt) (c X : Bytes) :
    heldFrom cd cfg { s with buf := s.buf ++ c } X = heldFrom cd cfg s (c ++ X) := by
  simp only [heldFrom]
  cases s.ph <;> simp [List.append_assoc]

/-- What `Dec.pre` does to `heldFrom`. -/
def PreHeld (cd : Codec α) (cfg : DecCfg) (s : DecSt) : Pre α → Prop
  | .out s' (.msg _) => ∀ X, heldFrom cd cfg s X = heldFrom cd cfg s' X
  | .out _ _ => True
  | .need s' => (∀ X, heldFrom cd cfg s X = heldFrom cd cfg s' X) ∧
      (specFrom cd cfg s' [] = ([], .incomplete) → heldFrom cd cfg s' [] = s'.buf)

theorem pre_held (cd : Codec α) (cfg : DecCfg) (s : DecSt) (h : PhaseOk cfg s) :
    PreHeld cd cfg s (Dec.pre cd cfg s) := by
  have hg := decodeChunk_held cd cfg s h
  unfold Dec.pre
  have hph : ∀ st, s.ph ≠ .failed st := by
    intro st hst; simp [PhaseOk, hst] at h
  split
  · rename_i st hst; exact absurd hst (hph st)
  · generalize Dec.decodeChunk cd cfg s = r at hg
    obtain ⟨s', dc⟩ := r
    cases dc with
    | item m => exact hg
    | fail st => trivial
    | more => exact hg

/-! ### One poll of a plain body (data chunks and `Pending`s only) -/

def PlainEvs : List BodyEv → Bool
  | [] => true
  | .data _ :: r => PlainEvs r
  | .pending :: r => PlainEvs r
  | _ => false

/-- What one `poll_next` does on a plain body, against the reference decoder's reading
`(ms, stop)` of all the bytes still to be looked at and what it would hold at the end (`hb`). -/
def PlainPoll (cd : Codec α) (cfg : DecCfg) (s : DecSt) (evs : List BodyEv) (ms : List α) (stop : Stop)
    (hb : Bytes) (s' : DecSt) (evs' : List BodyEv) (o : Item α) : Prop :=
  PlainEvs evs' = true ∧
  match o with
  | .msg m => PhaseOk cfg s' ∧ s'.trailers = s.trailers ∧ evs'.length ≤ evs.length ∧
      heldFrom cd cfg s' (dataOf evs') = hb ∧
      ∃ ms', ms = m :: ms' ∧ specFrom cd cfg s' (dataOf evs') = (ms', stop)
  | .pending => PhaseOk cfg s' ∧ s'.trailers = s.trailers ∧ evs'.length < evs.length ∧
      heldFrom cd cfg s' (dataOf evs') = hb ∧ specFrom cd cfg s' (dataOf evs') = (ms, stop)
  | .err st => ms = [] ∧ s'.ph = .failed none ∧
      ((∃ b, stop = .bad b ∧ st = stOfBad cd b) ∨
       (stop = .incomplete ∧ hb ≠ [] ∧ st = ⟨13, .eof⟩) ∨
       ((stop = .clean ∨ (stop = .incomplete ∧ hb = [])) ∧ respTr cfg s.trailers = some st))
  | .none => ms = [] ∧ (stop = .clean ∨ (stop = .incomplete ∧ hb = [])) ∧ respTr cfg s.trailers = none ∧
      evs' = [] ∧ PhaseOk cfg s' ∧ s'.trailers = s.trailers ∧ specFrom cd cfg s' [] = ([], stop) ∧
      heldFrom cd cfg s' [] = hb

/-- the end of a plain body, reached in a starved state `s'` -/
theorem plain_end (cd : Codec α) (cfg : DecCfg) (s s' : DecSt) (evs : List BodyEv) (ms : List α) (stop : Stop)
    (hb : Bytes) (hok : PhaseOk cfg s') (htr : s'.trailers = s.trailers)
    (hx : specFrom cd cfg s' [] = (ms, stop)) (hh : heldFrom cd cfg s' [] = hb)
    (hst : (s'.buf = [] ∧ s'.ph = .hdr ∧ specFrom cd cfg s' [] = ([], .clean)) ∨
       specFrom cd cfg s' [] = ([], .incomplete))
    (hhe : specFrom cd cfg s' [] = ([], .incomplete) → heldFrom cd cfg s' [] = s'.buf) :
    PlainPoll cd cfg s evs ms stop hb
      (if s'.buf.isEmpty then Dec.finish (α := α) cfg s' [] else ({ s' with ph := .failed none }, [], .err ⟨13, .eof⟩)).1
      (if s'.buf.isEmpty then Dec.finish (α := α) cfg s' [] else ({ s' with ph := .failed none }, [], .err ⟨13, .eof⟩)).2.1
      (if s'.buf.isEmpty then Dec.finish (α := α) cfg s' [] else ({ s' with ph := .failed none }, [], .err ⟨13, .eof⟩)).2.2 := by
  have hms : ms = [] ∧ ((stop = .clean ∧ s'.buf = []) ∨ (stop = .incomplete ∧ hb = s'.buf)) := by
    rcases hst with ⟨hbuf, _, hcl⟩ | hinc
    · rw [hcl] at hx
      exact ⟨(Prod.mk.inj hx).1.symm, Or.inl ⟨(Prod.mk.inj hx).2.symm, hbuf⟩⟩
    · have := hhe hinc
      rw [hinc] at hx
      exact ⟨(Prod.mk.inj hx).1.symm, Or.inr ⟨(Prod.mk.inj hx).2.symm, by rw [← hh, this]⟩⟩
  obtain ⟨hms, hstop⟩ := hms
  subst hms
  by_cases hbuf : s'.buf.isEmpty = true
  · simp only [hbuf, ↓reduceIte]
    have hbn : s'.buf = [] := by simpa using hbuf
    have hstop' : stop = .clean ∨ (stop = .incomplete ∧ hb = []) := by
      rcases hstop with ⟨h, _⟩ | ⟨h, h2⟩
      · exact Or.inl h
      · exact Or.inr ⟨h, by rw [h2, hbn]⟩
    unfold Dec.finish
    rw [response_eq, htr]
    cases hr : respTr cfg s.trailers with
    | none => exact ⟨rfl, rfl, hstop', hr, rfl, hok, htr, hx, hh⟩
    | some e => exact ⟨rfl, rfl, rfl, Or.inr (Or.inr ⟨hstop', hr⟩)⟩
  · simp only [hbuf]
    have hbn : s'.buf ≠ [] := by simpa using hbuf
    refine ⟨rfl, rfl, rfl, Or.inr (Or.inl ?_)⟩
    rcases hstop with ⟨_, h⟩ | ⟨h, h2⟩
    · exact absurd h hbn
    · exact ⟨h, by rw [h2]; exact hbn, rfl⟩

theorem pollNext_plain (cd : Codec α) (cfg : DecCfg) (hk : cfg.skipsBody = false) (evs : List BodyEv) :
    ∀ (s : DecSt) (ms : List α) (stop : Stop) (hb : Bytes),
    PhaseOk cfg s → PlainEvs evs = true →
    specFrom cd cfg s (dataOf evs) = (ms, stop) → heldFrom cd cfg s (dataOf evs) = hb →
    PlainPoll cd cfg s evs ms stop hb (Dec.pollNext cd cfg s evs).1 (Dec.pollNext cd cfg s evs).2.1
      (Dec.pollNext cd cfg s evs).2.2 := by
  induction evs with
  | nil =>
    intro s ms stop hb h hc hx hh
    have hp := pre_good cd cfg s h
    have hq := pre_held cd cfg s h
    unfold Dec.pollNext
    generalize Dec.pre cd cfg s = r at hp hq
    cases r with
    | out s' o =>
      cases o with
      | msg m =>
        obtain ⟨hok, htr, hX⟩ := hp
        rw [hX] at hx
        obtain ⟨ms', rfl, hr⟩ := consRes_inj hx
        exact ⟨rfl, hok, htr, Nat.le_refl _, by rw [← hq]; exact hh, ms', rfl, hr⟩
      | err st =>
        obtain ⟨hf, b, hb', hX⟩ := hp
        rw [hX] at hx
        have h1 := (Prod.mk.inj hx).1
        have h2 := (Prod.mk.inj hx).2
        exact ⟨rfl, h1.symm, hf, Or.inl ⟨b, h2.symm, hb'.symm⟩⟩
      | none => exact absurd hp (by simp [PreGood])
      | pending => exact absurd hp (by simp [PreGood])
    | need s' =>
      obtain ⟨hok, htr, hX, hst⟩ := hp
      obtain ⟨hH, hhe⟩ := hq
      dsimp only
      exact plain_end cd cfg s s' [] ms stop hb hok htr (by rw [← hX]; simpa [dataOf] using hx)
        (by rw [← hH]; simpa [dataOf] using hh) hst hhe
  | cons ev rest ih =>
    intro s ms stop hb h hc hx hh
    have hp := pre_good cd cfg s h
    have hq := pre_held cd cfg s h
    unfold Dec.pollNext
    generalize Dec.pre cd cfg s = r at hp hq
    cases r with
    | out s' o =>
      cases o with
      | msg m =>
        obtain ⟨hok, htr, hX⟩ := hp
        rw [hX] at hx
        obtain ⟨ms', rfl, hr⟩ := consRes_inj hx
        exact ⟨hc, hok, htr, Nat.le_refl _, by rw [← hq]; exact hh, ms', rfl, hr⟩
      | err st =>
        obtain ⟨hf, b, hb', hX⟩ := hp
        rw [hX] at hx
        have h1 := (Prod.mk.inj hx).1
        have h2 := (Prod.mk.inj hx).2
        exact ⟨hc, h1.symm, hf, Or.inl ⟨b, h2.symm, hb'.symm⟩⟩
      | none => exact absurd hp (by simp [PreGood])
      | pending => exact absurd hp (by simp [PreGood])
    | need s' =>
      obtain ⟨hok, htr, hX, hst⟩ := hp
      obtain ⟨hH, hhe⟩ := hq
      dsimp only
      cases ev with
      | pending =>
        refine ⟨by simpa [PlainEvs] using hc, hok, htr, by simp, ?_, ?_⟩
        · rw [← hH]; simpa [dataOf] using hh
        · rw [← hX]; simpa [dataOf] using hx
      | data c =>
        simp only [accept_keep hk c]
        have hok' : PhaseOk cfg ⟨s'.buf ++ c, s'.ph, s'.trailers⟩ := by simpa [PhaseOk] using hok
        have hx' : specFrom cd cfg ⟨s'.buf ++ c, s'.ph, s'.trailers⟩ (dataOf rest) = (ms, stop) := by
          have := specFrom_push cd cfg s' c (dataOf rest)
          rw [this, ← hX]; simpa [dataOf] using hx
        have hh' : heldFrom cd cfg ⟨s'.buf ++ c, s'.ph, s'.trailers⟩ (dataOf rest) = hb := by
          have := heldFrom_push cd cfg s' c (dataOf rest)
          rw [this, ← hH]; simpa [dataOf] using hh
        have := ih ⟨s'.buf ++ c, s'.ph, s'.trailers⟩ ms stop hb hok' (by simpa [PlainEvs] using hc) hx' hh'
        rcases hr : Dec.pollNext cd cfg ⟨s'.buf ++ c, s'.ph, s'.trailers⟩ rest with ⟨s2, evs2, o⟩
        rw [hr] at this
        simp only [hr]
        obtain ⟨h1, h2⟩ := this
        dsimp only at h1 h2 ⊢
        refine ⟨h1, ?_⟩
        cases o with
        | msg m =>
          obtain ⟨e1, e2, e3, e4, e5⟩ := h2
          exact ⟨e1, e2.trans htr, by simp; omega, e4, e5⟩
        | pending =>
          obtain ⟨e1, e2, e3, e4, e5⟩ := h2
          exact ⟨e1, e2.trans htr, by simp; omega, e4, e5⟩
        | none =>
          obtain ⟨e1, e2, e3, e4, e5, e6, e7⟩ := h2
          exact ⟨e1, e2, by rw [← htr]; exact e3, e4, e5, e6.trans htr, e7⟩
        | err st =>
          obtain ⟨e1, e2, e3⟩ := h2
          refine ⟨e1, e2, ?_⟩
          rw [← htr]; exact e3
      | trailers t => simp [PlainEvs] at hc
      | err st => simp [PlainEvs] at hc

/-! ### Runs over plain bodies: exactly the reference decoder's reading -/

/-- how the stream of a plain body ends after its messages: `some e` = the error `e` (then `None`
for ever), `none` = the clean end -/
def plainTail (cd : Codec α) (cfg : DecCfg) (tr : Option Tr) (stop : Stop) (hb : Bytes) : Option St :=
  match stop with
  | .bad b => some (stOfBad cd b)
  | .incomplete => if hb = [] then respTr cfg tr else some ⟨13, .eof⟩
  | .clean => respTr cfg tr

/-- the results after the messages: the error then `None`s, or `None`s only -/
def plainEnd (t : Option St) (k : Nat) : List (Item α) :=
  match t with
  | some e => .err e :: List.replicate k .none
  | none => List.replicate (k + 1) .none

theorem run_plain_ended (cd : Codec α) (cfg : DecCfg) (hk : cfg.skipsBody = false) (stop : Stop) (hb : Bytes) (n : Nat) : ∀ (s : DecSt),
    PhaseOk cfg s → specFrom cd cfg s [] = ([], stop) → heldFrom cd cfg s [] = hb →
    (stop = .clean ∨ (stop = .incomplete ∧ hb = [])) → respTr cfg s.trailers = none →
    Dec.run cd cfg n s [] = List.replicate n .none := by
  induction n with
  | zero => intros; rfl
  | succ n ih =>
    intro s hp hx hh hstop hr
    have hg := pollNext_plain cd cfg hk [] s [] stop hb hp rfl (by simpa [dataOf] using hx)
      (by simpa [dataOf] using hh)
    simp only [Dec.run]
    generalize Dec.pollNext cd cfg s [] = r at hg
    obtain ⟨s', evs', o⟩ := r
    obtain ⟨_, hcase⟩ := hg
    cases o with
    | msg m => obtain ⟨_, _, _, _, ms', h, _⟩ := hcase; simp at h
    | pending => exact absurd hcase.2.2.1 (by simp)
    | err st =>
      obtain ⟨_, _, h⟩ := hcase
      rcases h with ⟨b, hb', _⟩ | ⟨h1, h2, _⟩ | ⟨_, h2⟩
      · rcases hstop with h | ⟨h, _⟩ <;> simp [h] at hb'
      · rcases hstop with h | ⟨_, h⟩
        · simp [h] at h1
        · exact absurd h h2
      · rw [hr] at h2; simp at h2
    | none =>
      obtain ⟨_, _, _, hev, hp', htr, hx', hh'⟩ := hcase
      dsimp only at hev; subst hev
      simp only [List.replicate_succ]
      rw [ih s' hp' hx' hh' hstop (by rw [htr]; exact hr)]

/-- **A plain body is drained to exactly the reference decoder's reading of its bytes**: the
messages `ms`, then the error belonging to how the reading stopped (`plainTail`), then `None`
for ever — for every arrangement of the bytes into chunks and every placement of `Pending`s. -/
theorem run_plain (cd : Codec α) (cfg : DecCfg) (hk : cfg.skipsBody = false) (n : Nat) :
    ∀ (s : DecSt) (evs : List BodyEv) (ms : List α) (stop : Stop) (hb : Bytes),
    PhaseOk cfg s → PlainEvs evs = true →
    specFrom cd cfg s (dataOf evs) = (ms, stop) → heldFrom cd cfg s (dataOf evs) = hb →
    evs.length + ms.length < n →
    ∃ k, nonPending (Dec.run cd cfg n s evs) = ms.map .msg ++ plainEnd (plainTail cd cfg s.trailers stop hb) k := by
  induction n with
  | zero => intro s evs ms stop hb _ _ _ _ h; omega
  | succ n ih =>
    intro s evs ms stop hb hp hc hx hh hn
    have hg := pollNext_plain cd cfg hk evs s ms stop hb hp hc hx hh
    simp only [Dec.run]
    generalize Dec.pollNext cd cfg s evs = r at hg
    obtain ⟨s', evs', o⟩ := r
    obtain ⟨hc', hcase⟩ := hg
    cases o with
    | msg m =>
      obtain ⟨hp', htr, hl, hh', ms', rfl, hx'⟩ := hcase
      dsimp only at hl
      obtain ⟨k, hrun⟩ := ih s' evs' ms' stop hb hp' hc' hx' hh' (by simp at hn; omega)
      refine ⟨k, ?_⟩
      rw [htr] at hrun
      simp only [nonPending, Item.isPending, List.filter_cons, Bool.not_false, ↓reduceIte, List.map_cons,
        List.cons_append] at hrun ⊢
      rw [hrun]
    | pending =>
      obtain ⟨hp', htr, hl, hh', hx'⟩ := hcase
      dsimp only at hl
      obtain ⟨k, hrun⟩ := ih s' evs' ms stop hb hp' hc' hx' hh' (by omega)
      refine ⟨k, ?_⟩
      rw [htr] at hrun
      simp only [nonPending, Item.isPending, List.filter_cons, Bool.not_true, Bool.false_eq_true,
        ↓reduceIte] at hrun ⊢
      exact hrun
    | err st =>
      obtain ⟨rfl, hf, h⟩ := hcase
      have htail : plainTail cd cfg s.trailers stop hb = some st := by
        rcases h with ⟨b, rfl, rfl⟩ | ⟨rfl, h2, rfl⟩ | ⟨h1, h2⟩
        · rfl
        · simp [plainTail, h2]
        · rcases h1 with rfl | ⟨rfl, h3⟩
          · simpa [plainTail] using h2
          · simpa [plainTail, h3] using h2
      refine ⟨n, ?_⟩
      rw [htail, run_failed cd cfg n s' evs' hf]
      simp only [plainEnd]
      have := nonPending_replicate_none (α := α) n
      simp only [nonPending, Item.isPending, List.filter_cons, Bool.not_false, ↓reduceIte, List.map_nil,
        List.nil_append] at this ⊢
      rw [this]
    | none =>
      obtain ⟨rfl, hstop, hr, hev, hp', htr, hx', hh'⟩ := hcase
      dsimp only at hev; subst hev
      have htail : plainTail cd cfg s.trailers stop hb = none := by
        rcases hstop with rfl | ⟨rfl, h3⟩
        · simpa [plainTail] using hr
        · simpa [plainTail, h3] using hr
      refine ⟨n, ?_⟩
      rw [htail, run_plain_ended cd cfg hk stop hb n s' hp' hx' hh' hstop (by rw [htr]; exact hr)]
      simp only [plainEnd]
      have := nonPending_replicate_none (α := α) (n + 1)
      simpa [List.replicate_succ] using this

/-! ### Valid frames in front of anything -/

def consAll (ms : List α) (r : List α × Stop) : List α × Stop := (ms ++ r.1, r.2)

/-- The reference decoder reads a valid sent stream followed by arbitrary bytes `T` as the
stream's messages followed by its reading of `T`; what it holds at the end is what it holds of `T`. -/
theorem batch_frames_append (cd : Codec α) (cfg : DecCfg) (xs : List (Sent α)) (laws : CodecLawsOn cd xs)
    (h : ∀ x ∈ xs, SentOk cd cfg x) (T : Bytes) :
    batch (recvOf cd cfg) (Spec.Framing.frames (xs.map (wireOf cd cfg.enc)) ++ T)
        = consAll (xs.map (·.msg)) (batch (recvOf cd cfg) T) ∧
    held (recvOf cd cfg) (Spec.Framing.frames (xs.map (wireOf cd cfg.enc)) ++ T) = held (recvOf cd cfg) T := by
  induction xs with
  | nil => simp [Spec.Framing.frames, consAll]
  | cons x xs ih =>
    have hx := h x (by simp)
    have hdx : cd.de (cd.ser x.msg) = some x.msg := laws.de_ser x (by simp)
    have ih' := ih ⟨fun y hy => laws.de_ser y (by simp [hy]), laws.dz_cz⟩ (fun y hy => h y (by simp [hy]))
    obtain ⟨hlim, h32⟩ := hx
    simp only [List.map_cons, Spec.Framing.frames, Spec.Framing.frame, List.cons_append, List.nil_append,
      List.append_assoc]
    rw [batch_cons5, held_cons5, be32_u32 _ h32]
    have hnl : ¬ (wireOf cd cfg.enc x).2.length > cfg.limit := by omega
    -- the payload of the first frame is complete and decodes to the message
    have key : ∀ (pl : Bytes) (c : Bool),
        (if c then (recvOf cd cfg).dz pl else some pl) = some (cd.ser x.msg) →
        batchBody (recvOf cd cfg) pl.length c (pl ++ (Spec.Framing.frames (xs.map (wireOf cd cfg.enc)) ++ T))
          = consAll (x.msg :: xs.map (·.msg)) (batch (recvOf cd cfg) T) ∧
        heldBody (recvOf cd cfg) pl.length c (pl ++ (Spec.Framing.frames (xs.map (wireOf cd cfg.enc)) ++ T))
          = held (recvOf cd cfg) T := by
      intro pl c hz
      have hlen : ¬ (pl ++ (Spec.Framing.frames (xs.map (wireOf cd cfg.enc)) ++ T)).length < pl.length := by
        simp
      have hp : Spec.Framing.payload (recvOf cd cfg) pl.length c
          (pl ++ (Spec.Framing.frames (xs.map (wireOf cd cfg.enc)) ++ T)) = .ok x.msg := by
        simp only [Spec.Framing.payload, hlen, ↓reduceIte, List.take_left', hz, recvOf_de, hdx]
      simp only [batchBody, heldBody, hp, List.drop_left', ih'.1, ih'.2, consAll, List.cons_append, and_self]
    obtain ⟨m, c⟩ := x
    cases c with
    | false =>
      have hw : wireOf cd cfg.enc ⟨m, false⟩ = (0, cd.ser m) := by simp [wireOf]
      rw [hw] at hnl ⊢
      have hh : header (recvOf cd cfg) 0 (cd.ser m).length = .ok false := by simp [header, hnl]
      simp only [hh]
      exact key (cd.ser m) false (by simp)
    | true =>
      cases he : cfg.enc with
      | none =>
        have hw : wireOf cd none ⟨m, true⟩ = (0, cd.ser m) := by simp [wireOf]
        rw [he] at hnl key
        rw [hw] at hnl ⊢
        have hh : header (recvOf cd cfg) 0 (cd.ser m).length = .ok false := by simp [header, hnl]
        simp only [hh]
        exact key (cd.ser m) false (by simp)
      | some e =>
        have hw : wireOf cd (some e) ⟨m, true⟩ = (1, cd.cz e (cd.ser m)) := by simp [wireOf]
        rw [he] at hnl key
        rw [hw] at hnl ⊢
        have hh : header (recvOf cd cfg) 1 (cd.cz e (cd.ser m)).length = .ok true := by
          simp [header, he, hnl]
        simp only [hh]
        exact key (cd.cz e (cd.ser m)) true (by simp [recvOf_dz cd cfg e he, laws.dz_cz])

/-! ### The reservation of `decode_chunk` -/

/-- No call of `decode_chunk`, in any state whatever, reserves more than the limit. -/
theorem chunkReserve_le (cfg : DecCfg) (s : DecSt) (r : Nat) (h : Dec.chunkReserve cfg s = some r) :
    r ≤ cfg.limit := by
  unfold Dec.chunkReserve at h
  split at h
  · split at h
    · rename_i hc
      cases h
      exact hc.2
    · cases h
  · cases h

theorem readBody_phase (cd : Codec α) (s : DecSt) (len : Nat) (comp : Option Enc) :
    (Dec.readBody cd s len comp).1.ph = .body len comp ∨
    ((Dec.readBody cd s len comp).1.ph = .hdr ∧ ∃ m, (Dec.readBody cd s len comp).2 = .item m) := by
  unfold Dec.readBody
  split
  · exact Or.inl rfl
  · cases comp with
    | none =>
      dsimp only
      split
      · exact Or.inl rfl
      · exact Or.inr ⟨rfl, _, rfl⟩
    | some e =>
      dsimp only
      split
      · exact Or.inl rfl
      · split
        · exact Or.inl rfl
        · exact Or.inr ⟨rfl, _, rfl⟩

/-- The `ReadBody` state and the decoding of a payload are reached from `ReadHeader` only through
the reservation: if a call of `decode_chunk` in the header phase ends in the body phase for `len`
or yields a message, it reserved (`len`, within the limit); if it reserved nothing it stays in
the header phase and yields nothing. -/
theorem decodeChunk_reserve (cd : Codec α) (cfg : DecCfg) (s : DecSt) (hph : s.ph = .hdr) :
    (∀ len comp, (Dec.decodeChunk cd cfg s).1.ph = .body len comp → Dec.chunkReserve cfg s = some len) ∧
    (∀ m, (Dec.decodeChunk cd cfg s).2 = .item m → ∃ len, Dec.chunkReserve cfg s = some len) ∧
    (Dec.chunkReserve cfg s = none →
      (Dec.decodeChunk cd cfg s).1.ph = .hdr ∧ ∀ m, (Dec.decodeChunk cd cfg s).2 ≠ .item m) := by
  obtain ⟨buf, ph, tr⟩ := s
  dsimp only at hph
  subst hph
  match buf with
  | [] => simp [Dec.decodeChunk, Dec.chunkReserve]
  | [_] => simp [Dec.decodeChunk, Dec.chunkReserve]
  | [_, _] => simp [Dec.decodeChunk, Dec.chunkReserve]
  | [_, _, _] => simp [Dec.decodeChunk, Dec.chunkReserve]
  | [_, _, _, _] => simp [Dec.decodeChunk, Dec.chunkReserve]
  | f :: a :: b :: c :: d :: rest =>
    have body : ∀ (comp : Option Enc), ¬ readU32 a b c d > cfg.limit →
        (∀ len comp', (Dec.readBody cd ⟨rest, .hdr, tr⟩ (readU32 a b c d) comp).1.ph = .body len comp' →
          readU32 a b c d = len) := by
      intro comp _ len comp' h
      rcases readBody_phase cd ⟨rest, .hdr, tr⟩ (readU32 a b c d) comp with h1 | ⟨h1, _⟩
      · rw [h1] at h; cases h; rfl
      · rw [h1] at h; cases h
    by_cases h0 : f = 0
    · subst h0
      by_cases hl : readU32 a b c d > cfg.limit
      · have hl' : ¬ readU32 a b c d ≤ cfg.limit := by omega
        simp [Dec.decodeChunk, Dec.chunkReserve, hl, hl']
      · have hl' : readU32 a b c d ≤ cfg.limit := by omega
        simp only [Dec.decodeChunk, Dec.chunkReserve, hl, hl', ↓reduceIte, true_or, and_self, Option.some.injEq]
        exact ⟨fun len comp' h => body none hl len comp' h, fun _ _ => ⟨_, rfl⟩, fun h => by cases h⟩
    · by_cases h1 : f = 1
      · subst h1
        cases he : cfg.enc with
        | none => simp [Dec.decodeChunk, Dec.chunkReserve, he]
        | some e =>
          by_cases hl : readU32 a b c d > cfg.limit
          · have hl' : ¬ readU32 a b c d ≤ cfg.limit := by omega
            simp [Dec.decodeChunk, Dec.chunkReserve, he, hl, hl']
          · have hl' : readU32 a b c d ≤ cfg.limit := by omega
            simp only [Dec.decodeChunk, Dec.chunkReserve, he, hl, hl', h0, ↓reduceIte, Option.isSome_some,
              and_self, or_true, Option.some.injEq]
            exact ⟨fun len comp' h => body (some e) hl len comp' h, fun _ _ => ⟨_, rfl⟩, fun h => by cases h⟩
      · simp [Dec.decodeChunk, Dec.chunkReserve, h0, h1]

/-! ### One more frame header after the valid frames -/

/-- the flag of a header the receiver does not refuse for its flag -/
def FlagOk (cfg : DecCfg) (f : UInt8) : Prop := f = 0 ∨ (f = 1 ∧ cfg.enc.isSome = true)

theorem header_of_flagOk (cd : Codec α) (cfg : DecCfg) (f : UInt8) (len : Nat) (hf : FlagOk cfg f) :
    header (recvOf cd cfg) f len = if len > cfg.limit then .error .tooLarge else .ok (f == 1) := by
  rcases hf with rfl | ⟨rfl, he⟩
  · simp [header]
  · simp [header, he]

theorem batch_header (cd : Codec α) (cfg : DecCfg) (f : UInt8) (len : Nat) (rest : Bytes)
    (hf : FlagOk cfg f) (h32 : len < 4294967296) :
    batch (recvOf cd cfg) (f :: (u32be len ++ rest)) =
      if len > cfg.limit then ([], .bad .tooLarge) else batchBody (recvOf cd cfg) len (f == 1) rest := by
  simp only [u32be, List.cons_append, List.nil_append]
  rw [batch_cons5, be32_u32 len h32, header_of_flagOk cd cfg f len hf]
  by_cases hl : len > cfg.limit <;> simp [hl]

/-- a payload problem is never a size problem -/
theorem batchBody_nil_stop (p : Recv α) (len : Nat) (c : Bool) (bs : Bytes) (stop : Stop)
    (h : batchBody p len c bs = ([], stop)) :
    stop = .incomplete ∨ stop = .bad .decompress ∨ stop = .bad .codec := by
  simp only [batchBody] at h
  cases hp : Spec.Framing.payload p len c bs with
  | ok m => simp [hp] at h
  | error st =>
    simp only [hp, Prod.mk.injEq, true_and] at h
    subst h
    simp only [Spec.Framing.payload] at hp
    split at hp
    · cases hp; exact Or.inl rfl
    · split at hp
      · cases hp; exact Or.inr (Or.inl rfl)
      · split at hp
        · cases hp; exact Or.inr (Or.inr rfl)
        · cases hp

theorem respTr_none_cls (cfg : DecCfg) (st : St) (h : respTr cfg none = some st) : st.cls = .http := by
  simp only [respTr] at h
  cases hd : cfg.dir with
  | request => simp [hd] at h
  | empty => simp [hd] at h
  | response http =>
    simp only [hd, inferStatus] at h
    repeat' split at h
    all_goals first | (cases h; rfl) | cases h

/-- among the ways the stream of a plain body can end, only a refused over-limit frame gives
OUT_OF_RANGE "message too large" -/
theorem plainTail_tooLarge (cd : Codec α) (cfg : DecCfg) (stop : Stop) (hb : Bytes)
    (h : plainTail cd cfg none stop hb = some ⟨11, .tooLargeDec⟩) : stop = .bad .tooLarge := by
  cases stop with
  | clean =>
    have := respTr_none_cls cfg _ (by simpa [plainTail] using h)
    cases this
  | incomplete =>
    simp only [plainTail] at h
    split at h
    · have := respTr_none_cls cfg _ h
      cases this
    · cases h
  | bad b => cases b <;> simp [plainTail, stOfBad] at h ⊢

end Framing
