import TonicModel.Lemmas.FramingWire
/-
Run-level consequences for bodies that simply deliver their bytes and end (data chunks and
`Pending`s in any arrangement, no trailers, no body error): what the stream yields is *exactly*
what the reference batch decoder reads from the delivered bytes — every valid message, then the
error that belongs to the first refused frame (bad flag, compressed flag without encoding,
over-limit length, undecompressible / undecodable payload), or `Unexpected EOF` when the input
ends inside a frame the receiver holds bytes of, or the end of the stream.

Also: the `buf.reserve(len)` of `decode_chunk` as a function of the state (`Dec.chunkReserve`),
never over the limit, and the only way into the `body` phase.

Built on `pre_good` (Lemmas/FramingDec.lean); the refinement for `Spec.Framing.held` (what the
receiver still holds at the end of the input) is proved here the same way.
-/
namespace Framing
open Spec.Framing
variable {α : Type}

/-! ### `held`: unfolding -/

theorem held_nil (p : Recv α) : held p [] = [] := by rw [held]

theorem held_short (p : Recv α) (bs : Bytes) (h5 : bs.length < 5) : held p bs = bs := by
  match bs, h5 with
  | [], _ => rw [held]
  | [_], _ => rw [held] <;> simp
  | [_, _], _ => rw [held] <;> simp
  | [_, _, _], _ => rw [held] <;> simp
  | [_, _, _, _], _ => rw [held] <;> simp
  | _ :: _ :: _ :: _ :: _ :: _, h => simp at h; omega

theorem held_cons5 (p : Recv α) (f a b c d : UInt8) (r : Bytes) :
    held p (f :: a :: b :: c :: d :: r) =
      match header p f (be32 a b c d) with
      | .error _ => []
      | .ok comp => heldBody p (be32 a b c d) comp r := by
  rw [held]
  cases header p f (be32 a b c d) with
  | error e => rfl
  | ok comp => simp only [heldBody]

/-- what the receiver would still hold of the buffer followed by `X`, should the input end there -/
def heldFrom (cd : Codec α) (cfg : DecCfg) (s : DecSt) (X : Bytes) : Bytes :=
  match s.ph with
  | .hdr => held (recvOf cd cfg) (s.buf ++ X)
  | .body len comp => heldBody (recvOf cd cfg) len comp.isSome (s.buf ++ X)
  | .failed _ => []

/-- What `decodeChunk` does to `heldFrom`, by result kind. -/
def HeldGood (cd : Codec α) (cfg : DecCfg) (s s' : DecSt) (r : DC α) : Prop :=
  match r with
  | .item _ => ∀ X, heldFrom cd cfg s X = heldFrom cd cfg s' X
  | .fail _ => True
  | .more => (∀ X, heldFrom cd cfg s X = heldFrom cd cfg s' X) ∧
      (specFrom cd cfg s' [] = ([], .incomplete) → heldFrom cd cfg s' [] = s'.buf)

theorem readBody_held (cd : Codec α) (cfg : DecCfg) (s : DecSt) (len : Nat) (comp : Option Enc)
    (hc : comp = none ∨ comp = cfg.enc) :
    HeldGood cd cfg { s with ph := .body len comp } (Dec.readBody cd s len comp).1
      (Dec.readBody cd s len comp).2 := by
  unfold Dec.readBody
  by_cases hlt : s.buf.length < len
  · simp only [hlt, ↓reduceIte]
    exact ⟨fun _ => rfl, fun _ => by simp [heldFrom, heldBody, Spec.Framing.payload, hlt]⟩
  · have hge : len ≤ s.buf.length := by omega
    simp only [hlt, ↓reduceIte]
    have hpay : ∀ (c : Bool) (X : Bytes), Spec.Framing.payload (recvOf cd cfg) len c (s.buf ++ X)
        = Spec.Framing.payload (recvOf cd cfg) len c s.buf := by
      intro c X
      have : ¬ (s.buf ++ X).length < len := by simp; omega
      simp only [Spec.Framing.payload, this, hlt, ↓reduceIte, take_append_of_le hge]
    cases comp with
    | none =>
      cases hde : cd.de (s.buf.take len) with
      | none => simp only [HeldGood]
      | some m =>
        have hp : Spec.Framing.payload (recvOf cd cfg) len false s.buf = .ok m := by
          simp [Spec.Framing.payload, hlt, recvOf, hde]
        simp only [HeldGood]
        intro X
        simp only [heldFrom, heldBody, Option.isSome_none, hpay, hp, drop_append_of_le hge]
    | some e =>
      have hce : cfg.enc = some e := by
        rcases hc with h | h
        · cases h
        · exact h.symm
      dsimp only
      cases hdz : cd.dz e (s.buf.take len) with
      | none => simp only [HeldGood]
      | some raw =>
        dsimp only
        cases hde : cd.de raw with
        | none => simp only [HeldGood]
        | some m =>
          have hp : Spec.Framing.payload (recvOf cd cfg) len true s.buf = .ok m := by
            simp [Spec.Framing.payload, hlt, recvOf, hce, hdz, hde]
          simp only [HeldGood]
          intro X
          simp only [heldFrom, heldBody, Option.isSome_some, hpay, hp, drop_append_of_le hge]

theorem HeldGood_congr (cd : Codec α) (cfg : DecCfg) (s s0 s' : DecSt) (r : DC α)
    (hx : ∀ X, heldFrom cd cfg s X = heldFrom cd cfg s0 X)
    (h : HeldGood cd cfg s0 s' r) : HeldGood cd cfg s s' r := by
  cases r with
  | item m => exact fun X => (hx X).trans (h X)
  | fail st => trivial
  | more => exact ⟨fun X => (hx X).trans (h.1 X), h.2⟩

theorem decodeChunk_held (cd : Codec α) (cfg : DecCfg) (s : DecSt) (h : PhaseOk cfg s) :
    HeldGood cd cfg s (Dec.decodeChunk cd cfg s).1 (Dec.decodeChunk cd cfg s).2 := by
  obtain ⟨buf, ph, tr⟩ := s
  cases ph with
  | failed st => exact absurd h (by simp [PhaseOk])
  | body len comp =>
    simp only [Dec.decodeChunk]
    exact readBody_held cd cfg ⟨buf, .body len comp, tr⟩ len comp (by simpa [PhaseOk] using h)
  | hdr =>
    have short : buf.length < 5 → HeldGood cd cfg ⟨buf, .hdr, tr⟩ ⟨buf, .hdr, tr⟩ .more := by
      intro hs
      refine ⟨fun _ => rfl, fun _ => ?_⟩
      simp [heldFrom, held_short _ _ hs]
    match buf with
    | [] => simpa [Dec.decodeChunk] using short (by simp)
    | [_] => simpa [Dec.decodeChunk] using short (by simp)
    | [_, _] => simpa [Dec.decodeChunk] using short (by simp)
    | [_, _, _] => simpa [Dec.decodeChunk] using short (by simp)
    | [_, _, _, _] => simpa [Dec.decodeChunk] using short (by simp)
    | f :: a :: b :: c :: d :: rest =>
      simp only [Dec.decodeChunk]
      have hheld : ∀ X, heldFrom cd cfg ⟨f :: a :: b :: c :: d :: rest, .hdr, tr⟩ X =
          match header (recvOf cd cfg) f (readU32 a b c d) with
          | .error _ => []
          | .ok comp => heldBody (recvOf cd cfg) (readU32 a b c d) comp (rest ++ X) := by
        intro X
        simp only [heldFrom, List.cons_append, held_cons5, be32_eq_readU32]
      have proceed : ∀ (comp : Option Enc), (comp = none ∨ comp = cfg.enc) →
          header (recvOf cd cfg) f (readU32 a b c d) =
            (if readU32 a b c d > cfg.limit then .error .tooLarge else .ok comp.isSome) →
          HeldGood cd cfg ⟨f :: a :: b :: c :: d :: rest, .hdr, tr⟩
            (if readU32 a b c d > cfg.limit then
              (({ buf := rest, ph := .hdr, trailers := tr } : DecSt), (DC.fail ⟨11, .tooLargeDec⟩ : DC α))
             else Dec.readBody cd { buf := rest, ph := .hdr, trailers := tr } (readU32 a b c d) comp).1
            (if readU32 a b c d > cfg.limit then
              (({ buf := rest, ph := .hdr, trailers := tr } : DecSt), (DC.fail ⟨11, .tooLargeDec⟩ : DC α))
             else Dec.readBody cd { buf := rest, ph := .hdr, trailers := tr } (readU32 a b c d) comp).2 := by
        intro comp hc hh
        by_cases hl : readU32 a b c d > cfg.limit
        · rw [if_pos hl]; exact True.intro
        · simp only [hl, ↓reduceIte]
          refine HeldGood_congr cd cfg _ ⟨rest, .body (readU32 a b c d) comp, tr⟩ _ _ ?_
            (readBody_held cd cfg ⟨rest, .hdr, tr⟩ (readU32 a b c d) comp hc)
          intro X
          rw [hheld X, hh]; simp [hl, heldFrom]
      by_cases h0 : f = 0
      · subst h0
        simp only [↓reduceIte]
        exact proceed none (Or.inl rfl) (by simp [header, recvOf])
      · by_cases h1 : f = 1
        · subst h1
          simp only [h0, ↓reduceIte]
          cases he : cfg.enc with
          | none => simp only [HeldGood]
          | some e =>
            have := proceed (some e) (Or.inr he.symm) (by simp [header, recvOf, he])
            simpa using this
        · simp only [h0, h1, ↓reduceIte, HeldGood]

theorem heldFrom_push (cd : Codec α) (cfg : DecCfg) (s : DecSt) (c X : Bytes) :
    heldFrom cd cfg { s with buf := s.buf ++ c } X = heldFrom cd cfg s (c ++ X) := by
  simp only [heldFrom]
  cases s.ph <;> simp [List.append_assoc]

/-- What `Dec.pre` does to `heldFrom`. -/
def PreHeld (cd : Codec α) (cfg : DecCfg) (s : DecSt) : Pre α → Prop
  | .out s' (.msg _) => ∀ X, heldFrom cd cfg s X = heldFrom cd cfg s' X
  | .out _ _ => True
  | .need s' => (∀ X, heldFrom cd cfg s X = heldFrom cd cfg s' X) ∧
      (specFrom cd cfg s' [] = ([], .incomplete) → heldFrom cd cfg s' [] = s'.buf)

theorem pre_held (cd : Codec α) (cfg : DecCfg) (s : DecSt) (h : PhaseOk cfg s) :
    PreHeld cd cfg s (Dec.pre cd cfg s) := by
  have hg := decodeChunk_held cd cfg s h
  unfold Dec.pre
  have hph : ∀ st, s.ph ≠ .failed st := by
    intro st hst; simp [PhaseOk, hst] at h
  split
  · rename_i st hst; exact absurd hst (hph st)
  · generalize Dec.decodeChunk cd cfg s = r at hg
    obtain ⟨s', dc⟩ := r
    cases dc with
    | item m => exact hg
    | fail st => trivial
    | more => exact hg

end Framing
