import TonicModel.Model.Health
import TonicModel.Spec.Health
import TonicModel.Lemmas.Health
/-
Helper lemmas for C18, histories with awaiting watchers (`Health.pstep`): polling is the only
thing the parked layer does to the table, a parked task never has anything deliverable, and a
`set` / `clear` on its channel makes it poll.
-/
set_option linter.unusedSimpArgs false

namespace Health
open Spec.Health

/-! ### a stream with nothing to deliver -/

/-- Stream `w` is open, has been polled, and has seen the current version of its channel. -/
def Quiet (h : H) (w : Nat) : Prop :=
  ∃ wt c, h.watchers[w]? = some (some wt) ∧ h.chans[wt.chan]? = some c ∧
    wt.seen = some c.version ∧ c.closed = false

theorem next_pending_iff (h : H) (w : Nat) : (step h (.next w)).2 = .pending ↔ Quiet h w := by
  constructor
  · intro hp
    simp only [step] at hp
    split at hp
    · next wt hw =>
      split at hp
      · next c hc =>
        split at hp
        · next hseen =>
          cases hcl : c.closed with
          | true => simp [hcl] at hp
          | false => exact ⟨wt, c, hw, hc, hseen, hcl⟩
        · simp at hp
      · simp at hp
    · simp at hp
  · rintro ⟨wt, c, hw, hc, hseen, hcl⟩
    simp [step, hw, hc, hseen, hcl]

/-- A poll that delivers nothing changes nothing. -/
theorem next_pending_state {h : H} {w : Nat} (hp : (step h (.next w)).2 = .pending) :
    (step h (.next w)).1 = h := by
  obtain ⟨wt, c, hw, hc, hseen, hcl⟩ := (next_pending_iff h w).mp hp
  simp [step, hw, hc, hseen]

/-- What a poll of stream `w` answers depends on slot `w` and on the channels only. -/
theorem next_congr {h h' : H} {w : Nat} (hw : h'.watchers[w]? = h.watchers[w]?)
    (hc : h'.chans = h.chans) : (step h' (.next w)).2 = (step h (.next w)).2 := by
  simp only [step, hw, hc]
  split
  · split
    · split <;> rfl
    · rfl
  · rfl

theorem chanOf_congr {h h' : H} {w : Nat} (hw : h'.watchers[w]? = h.watchers[w]?) :
    chanOf h' w = chanOf h w := by
  simp only [chanOf, hw]

/-- Polling one stream leaves every other slot and all channels alone. -/
theorem next_other (h : H) {w w' : Nat} (hne : w' ≠ w) :
    (step h (.next w')).1.watchers[w]? = h.watchers[w]? ∧ (step h (.next w')).1.chans = h.chans := by
  simp only [step]
  split
  · split
    · split
      · exact ⟨rfl, rfl⟩
      · exact ⟨by simp [List.getElem?_set, hne], rfl⟩
    · exact ⟨rfl, rfl⟩
  · exact ⟨rfl, rfl⟩

theorem quiet_congr {h h' : H} {w : Nat} (hw : h'.watchers[w]? = h.watchers[w]?)
    (hc : h'.chans = h.chans) (hq : Quiet h w) : Quiet h' w := by
  obtain ⟨wt, c, h1, h2, h3, h4⟩ := hq
  exact ⟨wt, c, by rw [hw]; exact h1, by rw [hc]; exact h2, h3, h4⟩

/-- Polling a stream — another one, or this one — keeps a quiet stream quiet. -/
theorem quiet_next {h : H} {w : Nat} (hq : Quiet h w) (w' : Nat) : Quiet (step h (.next w')).1 w := by
  by_cases hne : w' = w
  · subst hne
    rw [next_pending_state ((next_pending_iff h w').mpr hq)]; exact hq
  · obtain ⟨h1, h2⟩ := next_other h hne
    exact quiet_congr h1 h2 hq

/-- An operation that is not a poll or drop of `w` and does not notify `w`'s channel keeps `w`
quiet. -/
theorem quiet_step {h : H} {w : Nat} (hq : Quiet h w) (o : Op)
    (hn : o ≠ .drop w) (hnot : notified h o = none ∨ notified h o ≠ chanOf h w) :
    Quiet (step h o).1 w := by
  obtain ⟨wt, c, hw, hc, hseen, hcl⟩ := hq
  have hchan : chanOf h w = some wt.chan := by simp [chanOf, hw]
  have hlt : wt.chan < h.chans.length := by
    rcases Nat.lt_or_ge wt.chan h.chans.length with hl | hl
    · exact hl
    · rw [List.getElem?_eq_none hl] at hc; simp at hc
  have hwlt : w < h.watchers.length := by
    rcases Nat.lt_or_ge w h.watchers.length with hl | hl
    · exact hl
    · rw [List.getElem?_eq_none hl] at hw; simp at hw
  cases o with
  | set n st =>
    simp only [step]
    cases hl : lookup n h.reg with
    | none => exact ⟨wt, c, hw, by simp [List.getElem?_append_left hlt, hc], hseen, hcl⟩
    | some i =>
      have hi : i ≠ wt.chan := by
        rcases hnot with h0 | h0
        · simp [notified, hl] at h0
        · intro e; apply h0; simp [notified, hl, hchan, e]
      exact ⟨wt, c, hw, by simp [List.getElem?_modify, hi, hc], hseen, hcl⟩
  | clear n =>
    simp only [step]
    cases hl : lookup n h.reg with
    | none => exact ⟨wt, c, hw, hc, hseen, hcl⟩
    | some i =>
      have hi : i ≠ wt.chan := by
        rcases hnot with h0 | h0
        · simp [notified, hl] at h0
        · intro e; apply h0; simp [notified, hl, hchan, e]
      exact ⟨wt, c, hw, by simp [List.getElem?_modify, hi, hc], hseen, hcl⟩
  | check n =>
    have : (step h (.check n)).1 = h := by simp only [step]; split <;> rfl
    rw [this]; exact ⟨wt, c, hw, hc, hseen, hcl⟩
  | watch n =>
    simp only [step]
    split
    · exact ⟨wt, c, by simp [List.getElem?_append_left hwlt, hw], hc, hseen, hcl⟩
    · exact ⟨wt, c, by simp [List.getElem?_append_left hwlt, hw], hc, hseen, hcl⟩
  | next w' => exact quiet_next ⟨wt, c, hw, hc, hseen, hcl⟩ w'
  | drop w' =>
    have hne : w' ≠ w := fun e => hn (by rw [e])
    simp only [step]
    split
    · exact ⟨wt, c, by simp [List.getElem?_set, hne, hw], hc, hseen, hcl⟩
    · exact ⟨wt, c, hw, hc, hseen, hcl⟩

/-- `set` / `clear` / `check` / `watch` never change which channel a stream listens on. -/
theorem chanOf_step_update (h : H) (w : Nat) (o : Op) (hn : ∀ w', o ≠ .next w') (hd : ∀ w', o ≠ .drop w')
    (hw : (chanOf h w).isSome) : chanOf (step h o).1 w = chanOf h w := by
  have hwlt : w < h.watchers.length := by
    rcases Nat.lt_or_ge w h.watchers.length with hl | hl
    · exact hl
    · simp [chanOf, List.getElem?_eq_none hl] at hw
  cases o with
  | set n st => simp only [step]; split <;> rfl
  | clear n => simp only [step]; split <;> rfl
  | check n => simp only [step]; split <;> rfl
  | watch n =>
    simp only [step]
    split <;> simp [chanOf, List.getElem?_append_left hwlt]
  | next w' => exact absurd rfl (hn w')
  | drop w' => exact absurd rfl (hd w')

/-! ### `repoll` -/

/-- The polls of `repoll` are `next` operations of `step`, executed in order. -/
theorem repoll_exec (i : Nat) (h : H) (ws : List Nat) :
    (repoll i h ws).1 = exec h ((repoll i h ws).2.map (fun p => Op.next p.1)) ∧
    (repoll i h ws).2.map (·.2) = run h ((repoll i h ws).2.map (fun p => Op.next p.1)) := by
  induction ws generalizing h with
  | nil => exact ⟨rfl, rfl⟩
  | cons w ws ih =>
    simp only [repoll]
    split
    · obtain ⟨h1, h2⟩ := ih (step h (.next w)).1
      exact ⟨by simp only [List.map_cons, exec]; exact h1,
        by simp only [List.map_cons, run]; rw [← h2]⟩
    · exact ih h

/-- A quiet stream is still quiet after the others have polled. -/
theorem repoll_quiet (i : Nat) {h : H} {w : Nat} (hq : Quiet h w) (ws : List Nat) :
    Quiet (repoll i h ws).1 w := by
  induction ws generalizing h with
  | nil => exact hq
  | cons w' ws ih =>
    simp only [repoll]
    split
    · exact ih (quiet_next hq w')
    · exact ih hq

/-- Every parked task that listens on the notified channel polls, and gets the answer the
stream has for it at that moment. -/
theorem repoll_mem (i : Nat) {h : H} {w : Nat} (ws : List Nat) (hnd : ws.Nodup) (hw : w ∈ ws)
    (hc : chanOf h w = some i) : (w, (step h (.next w)).2) ∈ (repoll i h ws).2 := by
  induction ws generalizing h with
  | nil => simp at hw
  | cons w' ws ih =>
    rw [List.nodup_cons] at hnd
    simp only [repoll]
    rcases List.mem_cons.mp hw with rfl | hin
    · simp [hc]
    · have hne : w' ≠ w := fun e => hnd.1 (e ▸ hin)
      split
      · obtain ⟨h1, h2⟩ := next_other h hne
        have := ih (h := (step h (.next w')).1) hnd.2 hin (by rw [chanOf_congr h1]; exact hc)
        rw [next_congr h1 h2] at this
        exact List.mem_cons_of_mem _ this
      · exact ih hnd.2 hin hc

theorem repoll_fst_mem (i : Nat) (h : H) (ws : List Nat) :
    ∀ p ∈ (repoll i h ws).2, p.1 ∈ ws := by
  induction ws generalizing h with
  | nil => intro p hp; simp [repoll] at hp
  | cons w' ws ih =>
    intro p hp
    simp only [repoll] at hp
    split at hp
    · rcases List.mem_cons.mp hp with rfl | hp'
      · exact List.mem_cons_self
      · exact List.mem_cons_of_mem _ (ih _ p hp')
    · exact List.mem_cons_of_mem _ (ih _ p hp)

theorem mem_stillParked {parked : List Nat} {polls : List (Nat × Resp)} {w : Nat} :
    w ∈ stillParked parked polls ↔ w ∈ parked ∧ ∀ r, (w, r) ∈ polls → r = .pending := by
  simp only [stillParked, wokenOf, List.mem_filter, Bool.not_eq_true', List.any_eq_false,
    List.mem_filter, decide_eq_true_eq, beq_iff_eq, and_imp, Prod.forall]
  constructor
  · rintro ⟨h1, h2⟩
    refine ⟨h1, fun r hr => ?_⟩
    cases hrp : decide (r = Resp.pending) with
    | true => exact of_decide_eq_true hrp
    | false => exact absurd rfl (h2 w r hr (of_decide_eq_false hrp))
  · rintro ⟨h1, h2⟩
    exact ⟨h1, fun a r hr hne e => hne (h2 r (e ▸ hr))⟩

/-! ### the invariant of the parked layer -/

/-- No task is parked twice, and no parked task has anything deliverable. -/
structure PInv (s : P) : Prop where
  nodup : s.parked.Nodup
  quiet : ∀ w ∈ s.parked, Quiet s.h w

theorem pinv_init : PInv pinit := ⟨List.nodup_nil, fun w hw => by simp [pinit] at hw⟩

/-- the non-parking poll of a stream that no task holds -/
private theorem pinv_poll {s : P} (hs : PInv s) (w : Nat) :
    PInv ⟨(step s.h (.next w)).1, s.parked⟩ :=
  ⟨hs.nodup, fun w' hw' => quiet_next (hs.quiet w' hw') w⟩

/-- `set` / `clear` / `check` / `watch` followed by the polls of the woken tasks. -/
theorem pinv_update {s : P} (hs : PInv s) (o : Op) (hn : ∀ w', o ≠ .next w') (hd : ∀ w', o ≠ .drop w') :
    PInv (pupdate s o).1 := by
  simp only [pupdate]
  cases hno : notified s.h o with
  | none =>
    exact ⟨hs.nodup, fun w hw => quiet_step (hs.quiet w hw) o (hd w) (Or.inl hno)⟩
  | some i =>
    refine ⟨hs.nodup.filter _, fun w hw => ?_⟩
    obtain ⟨hwp, hpend⟩ := mem_stillParked.mp hw
    have hq := hs.quiet w hwp
    by_cases hc : chanOf s.h w = some i
    · -- it polled; it is still parked, so the poll delivered nothing
      have hc' : chanOf (step s.h o).1 w = some i := by
        rw [chanOf_step_update s.h w o hn hd (by simp [hc])]; exact hc
      have hm := repoll_mem i (h := (step s.h o).1) s.parked hs.nodup hwp hc'
      exact repoll_quiet i ((next_pending_iff _ _).mp (hpend _ hm)) _
    · exact repoll_quiet i (quiet_step hq o (hd w) (Or.inr (by rw [hno]; exact fun e => hc e.symm))) _

theorem pinv_step {s : P} (hs : PInv s) (it : Item) : PInv (pstep s it).1 := by
  cases it with
  | await w =>
    simp only [pstep, pstepFull]
    split
    · exact hs
    · next hnp =>
      split
      · next hp =>
        refine ⟨List.nodup_cons.mpr ⟨hnp, hs.nodup⟩, fun w' hw' => ?_⟩
        show Quiet (step s.h (.next w)).1 w'
        rw [next_pending_state hp]
        rcases List.mem_cons.mp hw' with rfl | h1
        · exact (next_pending_iff _ _).mp hp
        · exact hs.quiet w' h1
      · exact pinv_poll hs w
  | op o =>
    cases o with
    | next w =>
      simp only [pstep, pstepFull]
      split
      · exact hs
      · exact pinv_poll hs w
    | drop w =>
      simp only [pstep, pstepFull]
      refine ⟨hs.nodup.filter _, fun w' hw' => ?_⟩
      obtain ⟨h1, h2⟩ := List.mem_filter.mp hw'
      have hne : w' ≠ w := by simpa using h2
      exact quiet_step (hs.quiet w' h1) (.drop w) (by simp; exact fun e => hne e.symm) (Or.inl rfl)
    | set n st => exact pinv_update hs (.set n st) (by simp) (by simp)
    | clear n => exact pinv_update hs (.clear n) (by simp) (by simp)
    | check n => exact pinv_update hs (.check n) (by simp) (by simp)
    | watch n => exact pinv_update hs (.watch n) (by simp) (by simp)

theorem pinv_exec {s : P} (hs : PInv s) (items : List Item) : PInv (pexec s items) := by
  induction items generalizing s with
  | nil => exact hs
  | cons it items ih => exact ih (pinv_step hs it)

/-! ### the parked layer only schedules `next` operations -/

theorem run_append (s : H) (a b : List Op) : run s (a ++ b) = run s a ++ run (exec s a) b := by
  induction a generalizing s with
  | nil => rfl
  | cons op a ih => simp only [List.cons_append, run, exec, ih]

/-- One item amounts to the `step` operations listed in its third component. -/
theorem pstepFull_events (s : P) (it : Item) :
    (pstepFull s it).1.h = exec s.h ((pstepFull s it).2.2.map (·.1)) ∧
    (pstepFull s it).2.2.map (·.2) = run s.h ((pstepFull s it).2.2.map (·.1)) := by
  have upd : ∀ o : Op, (pupdate s o).1.h = exec s.h ((pupdate s o).2.2.map (·.1)) ∧
      (pupdate s o).2.2.map (·.2) = run s.h ((pupdate s o).2.2.map (·.1)) := by
    intro o
    simp only [pupdate]
    split
    · exact ⟨rfl, rfl⟩
    · next i _ =>
      obtain ⟨h1, h2⟩ := repoll_exec i (step s.h o).1 s.parked
      simp only [List.map_cons, List.map_map, exec, run]
      refine ⟨?_, ?_⟩
      · rw [h1]; rfl
      · have e1 : ((fun x : Ev => x.2) ∘ fun p : Nat × Resp => (Op.next p.1, p.2)) = fun p => p.2 := rfl
        have e2 : ((fun x : Ev => x.1) ∘ fun p : Nat × Resp => (Op.next p.1, p.2)) = fun p => Op.next p.1 := rfl
        rw [e1, e2, h2]
  cases it with
  | await w =>
    simp only [pstepFull]
    split
    · exact ⟨rfl, rfl⟩
    · split <;> exact ⟨rfl, rfl⟩
  | op o =>
    cases o with
    | next w =>
      simp only [pstepFull]
      split <;> exact ⟨rfl, rfl⟩
    | drop w => exact ⟨rfl, rfl⟩
    | set n st => exact upd (.set n st)
    | clear n => exact upd (.clear n)
    | check n => exact upd (.check n)
    | watch n => exact upd (.watch n)

/-- The whole history amounts to the sequential history `pevents`. -/
theorem pexec_events (s : P) (items : List Item) :
    (pexec s items).h = exec s.h ((pevents s items).map (·.1)) ∧
    (pevents s items).map (·.2) = run s.h ((pevents s items).map (·.1)) := by
  induction items generalizing s with
  | nil => exact ⟨rfl, rfl⟩
  | cons it items ih =>
    obtain ⟨h1, h2⟩ := pstepFull_events s it
    obtain ⟨h3, h4⟩ := ih (pstep s it).1
    have hh : (pstep s it).1.h = exec s.h ((pstepFull s it).2.2.map (·.1)) := h1
    simp only [pexec, pevents, List.map_append]
    refine ⟨?_, ?_⟩
    · rw [exec_append, ← hh]; exact h3
    · rw [run_append, ← hh, ← h2, ← h4]

/-! ### wake-ups -/

/-- After a `send` on its channel a quiet stream delivers the new status. -/
theorem next_after_set {h : H} {w : Nat} {wt : Watcher} {c : Chan}
    (hw : h.watchers[w]? = some (some wt)) (hc : h.chans[wt.chan]? = some c)
    (hseen : wt.seen = some c.version) (n : Name) (st : St) (hl : lookup n h.reg = some wt.chan) :
    (step (step h (.set n st)).1 (.next w)).2 = .value st := by
  have h1 : (step h (.set n st)).1 = { h with chans := h.chans.modify wt.chan (fun c => c.send st) } := by
    simp only [step, hl]
  rw [h1]
  simp [step, hw, List.getElem?_modify, hc, hseen, Chan.send]

/-- After the drop of its channel's `Sender` a quiet stream is over. -/
theorem next_after_clear {h : H} {w : Nat} {wt : Watcher} {c : Chan}
    (hw : h.watchers[w]? = some (some wt)) (hc : h.chans[wt.chan]? = some c)
    (hseen : wt.seen = some c.version) (n : Name) (hl : lookup n h.reg = some wt.chan) :
    (step (step h (.clear n)).1 (.next w)).2 = .ended := by
  have h1 : (step h (.clear n)).1 =
      { h with chans := h.chans.modify wt.chan Chan.close, reg := erase n h.reg } := by
    simp only [step, hl]
  rw [h1]
  simp [step, hw, List.getElem?_modify, hc, hseen, Chan.close]

/-- A parked task whose channel the operation notifies and whose stream then has something
completes with exactly that, and is no longer parked. -/
theorem woken_of_update {s : P} (hs : PInv s) {w : Nat} (hw : w ∈ s.parked) (o : Op)
    (hn : ∀ w', o ≠ .next w') (hd : ∀ w', o ≠ .drop w') {i : Nat}
    (hno : notified s.h o = some i) (hc : chanOf s.h w = some i)
    (hne : (step (step s.h o).1 (.next w)).2 ≠ .pending) :
    (w, (step (step s.h o).1 (.next w)).2) ∈ (pupdate s o).2.1.woken ∧ w ∉ (pupdate s o).1.parked := by
  have hc' : chanOf (step s.h o).1 w = some i := by
    rw [chanOf_step_update s.h w o hn hd (by simp [hc])]; exact hc
  have hm := repoll_mem i (h := (step s.h o).1) s.parked hs.nodup hw hc'
  simp only [pupdate, hno]
  refine ⟨?_, ?_⟩
  · simp only [wokenOf, List.mem_filter, decide_eq_true_eq]
    exact ⟨hm, hne⟩
  · intro hin
    exact hne ((mem_stillParked.mp hin).2 _ hm)

/-- The state of a history with awaiting watchers is the state of the sequential history it
amounts to, hence related to that history's log. -/
theorem pexec_sim (items : List Item) :
    (pexec pinit items).h = exec init (pops items) ∧ Sim (pexec pinit items).h (logOf (pops items)) := by
  have h1 := (pexec_events pinit items).1
  refine ⟨h1, ?_⟩
  rw [h1]
  exact sim_exec sim_init _

end Health
