import TonicModel.Lemmas.ShutdownProgress
import TonicModel.Lemmas.ShutdownTrack
/-
The request timeout (`Server::timeout`, `GrpcTimeout`) in the shutdown model (C13): `expire c j` is
the only step that cuts call `j` of connection `c`; the steps a drain consists of never cut a call.
-/
namespace Shutdown

/-- `expire c j` is the only step that sets the `expired` flag of call `j` of connection `c`:
every other step — of the server, of any peer, of the clock — leaves it as it is. -/
theorem step_expired_eq {s s' : State} {l : Label} {c j : Nat} {cn : Conn} {k : Call}
    (h : step s l = some s') (hc : s.conns[c]? = some cn) (hk : cn.calls[j]? = some k)
    (hl : l ≠ .expire c j) :
    ∃ cn' k', s'.conns[c]? = some cn' ∧ cn'.calls[j]? = some k' ∧ k'.expired = k.expired := by
  have viaConn : ∀ {c' : Nat} {g : Conn → Bool} {f : Conn → Conn},
      updConn s c' g f = some s' → (∀ x, (f x).calls = x.calls) →
      (∀ x, (f x).peerGone = x.peerGone) →
      ∃ cn' k', s'.conns[c]? = some cn' ∧ cn'.calls[j]? = some k' ∧ k'.expired = k.expired :=
    fun hu h1 h2 => by
    obtain ⟨cn', a, b, _⟩ := track_updConn hu hc hk h1 h2
    exact ⟨cn', k, a, b, rfl⟩
  have viaCall : ∀ {c' j' : Nat} {g : Conn → Call → Bool} {f : Call → Call},
      updCall s c' j' g f = some s' → (∀ x, (f x).expired = x.expired) →
      ∃ cn' k', s'.conns[c]? = some cn' ∧ cn'.calls[j]? = some k' ∧ k'.expired = k.expired :=
    fun hu hf => by
    obtain ⟨cn', k', a, b, _, e⟩ := track_updCall hu hc hk
    rcases e with ⟨_, _, _, rfl⟩ | ⟨_, rfl⟩
    · exact ⟨cn', _, a, b, hf k⟩
    · exact ⟨cn', _, a, b, rfl⟩
  have hlt : c < s.conns.length := by
    rcases Nat.lt_or_ge c s.conns.length with h' | h'
    · exact h'
    · rw [List.getElem?_eq_none h'] at hc; cases hc
  cases l <;> simp only [step] at h
  case offer | offerTls =>
    cases h
    exact ⟨cn, k, by show (s.conns ++ _)[c]? = some cn; rw [List.getElem?_append_left hlt]; exact hc,
      hk, rfl⟩
  case clientHello | tlsDone | tlsFail | connSig | connAge | connBreak | connDropWatcher | hsDone
      | final =>
    exact viaConn h (fun _ => rfl) (fun _ => rfl)
  case tlsTake | ageTick | loopAccept =>
    split at h
    · exact viaConn h (fun _ => rfl) (fun _ => rfl)
    · cases h
  case freeRun => cases h; exact ⟨cn, k, hc, hk, rfl⟩
  case sigFire | endIncoming | acceptErr | loopSig | loopErr | loopEnd | afterLoop =>
    split at h
    · cases h; exact ⟨cn, k, hc, hk, rfl⟩
    · cases h
  case resolve =>
    split at h
    · cases h
      exact ⟨{ cn with pending := false }, k,
        by show (s.conns.map _)[c]? = _; rw [List.getElem?_map, hc]; rfl, hk, rfl⟩
    · cases h
  case issue c' chunks req =>
    obtain ⟨cn0, hc0, _, rfl⟩ := updConn_some h
    rcases getElem?_set_cases (i := c') (a := { cn0 with calls := cn0.calls ++ [Call.new chunks req] }) hc
      with ⟨rfl, hs⟩ | ⟨_, hs⟩
    · have : cn0 = cn := by rw [hc0] at hc; exact Option.some.inj hc
      subst this
      refine ⟨_, k, hs, ?_, rfl⟩
      show (cn0.calls ++ _)[j]? = some k
      rw [List.getElem?_append_left]
      · exact hk
      · rcases Nat.lt_or_ge j cn0.calls.length with h' | h'
        · exact h'
        · rw [List.getElem?_eq_none h'] at hk; cases hk
    · exact ⟨cn, k, hs, hk, rfl⟩
  case peerDrop c' =>
    obtain ⟨cn0, hc0, _, rfl⟩ := updConn_some h
    rcases getElem?_set_cases (i := c')
      (a := { cn0 with peerGone := true,
                       calls := cn0.calls.map (fun k => { k with cancelled := true }) }) hc
      with ⟨rfl, hs⟩ | ⟨_, hs⟩
    · have : cn0 = cn := by rw [hc0] at hc; exact Option.some.inj hc
      subst this
      refine ⟨_, { k with cancelled := true }, hs, ?_, rfl⟩
      show (cn0.calls.map _)[j]? = _
      rw [List.getElem?_map, hk]; rfl
    · exact ⟨cn, k, hs, hk, rfl⟩
  case permit | reqSend | cancel | callStart | deliver => exact viaCall h (fun _ => rfl)
  case produce =>
    refine viaCall h (fun x => ?_)
    unfold Call.produce
    split <;> rfl
  case deadlineTick =>
    split at h
    · exact viaCall h (fun _ => rfl)
    · cases h
  case expire c' j' =>
    split at h
    · obtain ⟨cn', k', a, b, _, e⟩ := track_updCall h hc hk
      rcases e with ⟨rfl, rfl, _, _⟩ | ⟨_, rfl⟩
      · exact absurd rfl hl
      · exact ⟨cn', _, a, b, rfl⟩
    · cases h

/-- along a run of `drains` steps (which is what a drain consists of: no `expire`) a tracked call
is not cut by the request timeout unless it already was -/
theorem run_keeps_unexpired {ls : List Label} : ∀ {s s' : State} {c j : Nat} {cn : Conn} {k : Call},
    (∀ l ∈ ls, l.internal = true ∧ l.drains = true) → run s ls = some s' →
    s.conns[c]? = some cn → cn.calls[j]? = some k → k.cancelled = false → cn.peerGone = false →
    ∃ cn' k', s'.conns[c]? = some cn' ∧ cn'.calls[j]? = some k' ∧ k'.expired = k.expired := by
  induction ls with
  | nil =>
    intro s s' c j cn k _ h hc hk _ _
    simp only [run, Option.some.injEq] at h; subst h; exact ⟨cn, k, hc, hk, rfl⟩
  | cons l ls ih =>
    intro s s' c j cn k hall h hc hk hcan hpg
    simp only [run] at h
    split at h
    · rename_i s1 hs1
      obtain ⟨hi, hd⟩ := hall l List.mem_cons_self
      have hl1 : l ≠ .cancel c j := by intro e; subst e; simp [Label.internal] at hi
      have hl2 : l ≠ .peerDrop c := by intro e; subst e; simp [Label.internal] at hi
      have hl3 : l ≠ .expire c j := by intro e; subst e; simp [Label.drains] at hd
      obtain ⟨cn1, k1, a1, a2, a3⟩ := step_expired_eq hs1 hc hk hl3
      obtain ⟨cn1', k1', b1, b2, b3, b4, _⟩ := step_keeps_call hs1 hc hk hcan hpg hl1 hl2
      have e1 : cn1' = cn1 := by rw [a1] at b1; exact (Option.some.inj b1).symm
      subst e1
      have e2 : k1' = k1 := by rw [a2] at b2; exact (Option.some.inj b2).symm
      subst e2
      obtain ⟨cn2, k2, c1, c2, c3⟩ :=
        ih (fun x hx => hall x (List.mem_cons_of_mem _ hx)) h a1 a2 b3 b4
      exact ⟨cn2, k2, c1, c2, c3.trans a3⟩
    · cases h

end Shutdown
