import TonicModel.Model.WebServerX
import TonicModel.Spec.BodyHints
import TonicModel.Lemmas.WebServer
/-
Lemmas for the hints of the translated grpc-web bodies (`Model/WebServerX`).
-/
namespace WebServerLemmas
open WebServer
open TMap (Pair)

theorem encode_length_ge (x : Bytes) : x.length ≤ (B64.encode true x).length := by
  fun_induction B64.encode true x with
  | case1 a b c r ih => simp only [List.length_cons]; omega
  | case2 a b => simp
  | case3 a => simp
  | case4 => simp

theorem wrap_length_ge (enc : Enc) (b : Bytes) : b.length ≤ (wrap enc b).length := by
  cases enc with
  | base64 => exact encode_length_ge b
  | none => exact Nat.le_refl _

theorem respRun_ne_nil (enc : Enc) (evs : List BodyEv) : respRun enc evs ≠ [] := by
  induction evs with
  | nil => simp [respRun]
  | cons e r ih => cases e <;> simp [respRun, ih]

theorem reqBin_ne_nil (evs : List BodyEv) : reqBin evs ≠ [] := by
  induction evs with
  | nil => simp [reqBin]
  | cons e r ih => cases e <;> simp [reqBin, ih]

theorem dataLen_cons_data (b : Bytes) (r : List Out) : dataLen (.data b :: r) = b.length + dataLen r := by
  simp [dataLen, dataOf]

/-- A response body that ends cleanly emits at least the inner body's data bytes. -/
theorem respRun_dataLen_ge (enc : Enc) (evs : List BodyEv) (hc : endsClean (respRun enc evs) = true) :
    (flat evs).length ≤ dataLen (respRun enc evs) := by
  induction evs with
  | nil => simp [flat]
  | cons e r ih =>
    cases e with
    | data b =>
      have hc' : endsClean (respRun enc r) = true := by
        simpa [respRun, endsClean_cons _ _ (respRun_ne_nil enc r)] using hc
      have := ih hc'
      have hw := wrap_length_ge enc b
      simp only [respRun, flat, dataLen_cons_data, List.length_append]
      omega
    | trailers h =>
      have hc' : endsClean (respRun enc r) = true := by
        simpa [respRun, endsClean_cons _ _ (respRun_ne_nil enc r)] using hc
      have := ih hc'
      simp only [respRun, flat, dataLen_cons_data]
      omega
    | err => simp [respRun, endsClean] at hc
    | pending => simpa [respRun, flat] using ih (by simpa [respRun] using hc)

/-- A binary request body hands on exactly the inner body's data bytes when it ends cleanly. -/
theorem reqBin_dataLen_eq (evs : List BodyEv) (hc : endsClean (reqBin evs) = true) :
    dataLen (reqBin evs) = (flat evs).length := by
  induction evs with
  | nil => simp [flat, reqBin, dataLen, dataOf]
  | cons e r ih =>
    cases e with
    | data b =>
      have hc' : endsClean (reqBin r) = true := by
        simpa [reqBin, endsClean_cons _ _ (reqBin_ne_nil r)] using hc
      simp only [reqBin, flat, dataLen_cons_data, List.length_append, ih hc']
    | trailers h =>
      have hc' : endsClean (reqBin r) = true := by
        simpa [reqBin, endsClean_cons _ _ (reqBin_ne_nil r)] using hc
      simpa [reqBin, flat, dataLen, dataOf] using ih hc'
    | err => simp [reqBin, endsClean] at hc
    | pending => simpa [reqBin, flat] using ih (by simpa [reqBin] using hc)

/-- … and never more than them, however it ends. -/
theorem reqBin_dataLen_le (evs : List BodyEv) : dataLen (reqBin evs) ≤ (flat evs).length := by
  induction evs with
  | nil => simp [flat, reqBin, dataLen, dataOf]
  | cons e r ih =>
    cases e with
    | data b => simp only [reqBin, flat, dataLen_cons_data, List.length_append]; omega
    | trailers h => simpa [reqBin, flat, dataLen, dataOf] using ih
    | err => simp [reqBin, dataLen, dataOf]
    | pending => simpa [reqBin, flat] using ih

/-! ### readings: a hint next to what the body then emits, in the oracle's vocabulary -/

def dataLens : List Out → List Nat
  | [] => []
  | .data b :: r => b.length :: dataLens r
  | _ :: r => dataLens r

def others : List Out → Nat
  | [] => 0
  | .trailers _ :: r => others r + 1
  | _ :: r => others r

def reading (h : Hint) (outs : List Out) : Spec.BodyHints.Reading :=
  { lo := h.lo, hi := h.hi, eos := h.eos, restData := dataLens outs, restOther := others outs,
    clean := endsClean outs }

theorem dataLens_sum (o : List Out) : (dataLens o).sum = dataLen o := by
  induction o with
  | nil => rfl
  | cons x r ih =>
    cases x with
    | data b => simp [dataLens, dataLen_cons_data, ih]
    | trailers h => simpa [dataLens, dataLen, dataOf] using ih
    | err => simpa [dataLens, dataLen, dataOf] using ih
    | eos => simpa [dataLens, dataLen, dataOf] using ih

/-- the oracle's predicate, unfolded -/
theorem truthful_iff (h : Hint) (outs : List Out) :
    Spec.BodyHints.truthful (reading h outs) = true ↔
      (∀ u, h.hi = some u → dataLen outs ≤ u) ∧
      (endsClean outs = true → h.lo ≤ dataLen outs) ∧
      (h.eos = true → dataLens outs = [] ∧ others outs = 0 ∧ endsClean outs = true) := by
  unfold Spec.BodyHints.truthful reading
  simp only [dataLens_sum, Bool.and_eq_true, Bool.or_eq_true, Bool.not_eq_true', decide_eq_true_eq,
    List.isEmpty_iff, beq_iff_eq]
  constructor
  · rintro ⟨⟨h1, h2⟩, h3⟩
    refine ⟨?_, ?_, ?_⟩
    · intro u hu; rw [hu] at h1; simpa using h1
    · intro hc; rcases h2 with h2 | h2
      · rw [hc] at h2; cases h2
      · exact h2
    · intro he; rcases h3 with h3 | h3
      · rw [he] at h3; cases h3
      · exact ⟨h3.1.1, h3.1.2, h3.2⟩
  · rintro ⟨h1, h2, h3⟩
    refine ⟨⟨?_, ?_⟩, ?_⟩
    · cases hh : h.hi with
      | none => simp
      | some u => simpa using h1 u hh
    · cases hc : endsClean outs with
      | false => exact Or.inl rfl
      | true => exact Or.inr (h2 hc)
    · cases he : h.eos with
      | false => exact Or.inl rfl
      | true => obtain ⟨a, b, c⟩ := h3 he; exact Or.inr ⟨⟨a, b⟩, c⟩

end WebServerLemmas
