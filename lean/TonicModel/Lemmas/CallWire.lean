import TonicModel.Lemmas.Call
import TonicModel.Spec.Call
import TonicModel.Props.C04
import TonicModel.Props.C08
/-
Lemmas for the end-to-end call model (C02), part 2: what the two `EncodeBody`s put on the wire
(from `run_server` / `run_client`), what the reference decoder makes of it (`batch_wire`), the
event lists of deliveries, and the header / status facts taken from C04 and C08.
-/
namespace Call
open Framing Spec.Framing
variable {α : Type}

/-! ### messages both ends can carry -/

/-- the encoder serialises the message, and the serialisation fits the default receive limit
(4 MiB), hence also the 32-bit length -/
def MsgOk (cd : Codec α) (m : α) : Prop := cd.serFail m = false ∧ (cd.ser m).length ≤ defaultMaxRecv

theorem encodeErr_none (c : Cfg α) (server : Bool) (m : α) (h : MsgOk c.cd m) :
    encodeErr c.cd (encCfg c server) m = none := by
  have : ¬ (c.cd.ser m).length > u32Max := by
    simp only [MsgOk, defaultMaxRecv] at h; simp only [u32Max]; omega
  simp [encodeErr, encCfg, Framing.payload, this, h.1]

theorem okPrefix_srcOf (c : Cfg α) (server : Bool) (sched : Sched α) (tail : List (SrcEv α))
    (h : ∀ m ∈ sched.msgs, MsgOk c.cd m) :
    okPrefix c.cd (encCfg c server) (srcOf sched ++ tail) = sched.msgs ++ okPrefix c.cd (encCfg c server) tail ∧
    finalSt c.cd (encCfg c server) (srcOf sched ++ tail) = finalSt c.cd (encCfg c server) tail := by
  induction sched with
  | nil => simp [srcOf, Sched.msgs]
  | cons x xs ih =>
    cases x with
    | none =>
      have := ih (by simpa [Sched.msgs] using h)
      simpa [srcOf, Sched.msgs, okPrefix, finalSt] using this
    | some m =>
      have hm : MsgOk c.cd m := h m (by simp [Sched.msgs])
      have := ih (fun m' hm' => h m' (by simp [Sched.msgs] at hm' ⊢; exact Or.inr hm'))
      simp only [srcOf, Sched.msgs, List.map_cons, List.cons_append, okPrefix, finalSt,
        encodeErr_none c server m hm, List.filterMap_cons, id] at this ⊢
      exact ⟨by rw [this.1], this.2⟩

theorem okPrefix_items (c : Cfg α) (server : Bool) (ms : List α) (h : ∀ m ∈ ms, MsgOk c.cd m) :
    okPrefix c.cd (encCfg c server) (ms.map .item) = ms ∧
    finalSt c.cd (encCfg c server) (ms.map .item) = none := by
  induction ms with
  | nil => simp [okPrefix, finalSt]
  | cons m ms ih =>
    have hm := h m (by simp)
    have := ih (fun m' hm' => h m' (by simp [hm']))
    simp [okPrefix, finalSt, encodeErr_none c server m hm, this]

/-- frames as the specification writes them: flag 0, big-endian length, the serialised message -/
def wireFrames (cd : Codec α) (ms : List α) : Bytes :=
  Spec.Framing.frames (ms.map (fun m => ((0 : UInt8), cd.ser m)))

theorem framesOf_wire (c : Cfg α) (server : Bool) (ms : List α) :
    framesOf c.cd (encCfg c server) ms = wireFrames c.cd ms := by
  rw [framesOf_eq_spec]
  simp [wireFrames, flagByte, encCfg, Framing.payload]

/-! ### the bodies -/

theorem respData_decorate (c : Cfg α) (sc : Script α) (outs : List FrameOut) :
    respData (outs.map (decorate c sc)) = dataConcat outs := by
  induction outs with
  | nil => rfl
  | cons o os ih =>
    simp only [respData, List.map_cons, List.flatten_cons, dataConcat_cons] at ih ⊢
    rw [ih]
    cases o <;> simp [decorate, FrameOut.bytes]

theorem respTrailers_good (c : Cfg α) (sc : Script α) (cfg : EncCfg) (pre : List FrameOut)
    (h : ∀ o ∈ pre, GoodChunk c.cd cfg o) : respTrailers (pre.map (decorate c sc)) = [] := by
  induction pre with
  | nil => rfl
  | cons o os ih =>
    have ho := h o (by simp)
    have := ih (fun o' ho' => h o' (by simp [ho']))
    rcases ho with rfl | ⟨d, rfl, _, _⟩ <;> simpa [respTrailers, decorate] using this

theorem respTrailers_nones (c : Cfg α) (sc : Script α) (k : Nat) :
    respTrailers ((List.replicate k FrameOut.none).map (decorate c sc)) = [] := by
  induction k with
  | zero => rfl
  | succ k ih => simpa [List.replicate_succ, respTrailers, decorate] using ih

theorem reqData_eq (outs : List FrameOut) : reqData outs = dataConcat outs := by
  induction outs with
  | nil => rfl
  | cons o os ih =>
    simp only [reqData, List.map_cons, List.flatten_cons, dataConcat_cons] at ih ⊢
    rw [ih]
    cases o <;> simp [FrameOut.bytes]

theorem reqFailed_good (cd : Codec α) (cfg : EncCfg) (pre : List FrameOut) (k : Nat)
    (h : ∀ o ∈ pre, GoodChunk cd cfg o) : reqFailed (pre ++ List.replicate k .none) = false := by
  simp only [reqFailed, List.any_eq_false, List.mem_append, List.mem_replicate]
  intro o ho
  rcases ho with ho | ⟨_, rfl⟩
  · rcases h o ho with rfl | ⟨d, rfl, _, _⟩ <;> simp
  · simp

/-- the framing-level status the server body's trailers are written from -/
def owedOf (respStream : Bool) (sc : Script α) : Framing.St :=
  if respStream then
    match sc.final with
    | some st => ⟨st.code.num, .user⟩
    | none => St.okSt
  else St.okSt

/-- the messages a handler's response carries -/
def respMsgs (respStream : Bool) (sc : Script α) : List α :=
  if respStream then sc.body.msgs else sc.body.msgs.take 1

/-- **The response as handed to the transport**, for a handler that returned a `Response`: status
200, the sanitised metadata plus `content-type`, data frames that concatenate to the
specification's framing of the script's messages, and exactly one trailers frame, written from
the script's final status (or OK). -/
theorem handlerResponse_ok (c : Cfg α) (n : Nat) (respStream : Bool) (sc : Script α)
    (hearly : sc.early = none) (hm : ∀ m ∈ sc.body.msgs, MsgOk c.cd m)
    (hn : (handlerSrc respStream sc).length + 1 < n) :
    (handlerResponse c n respStream sc).status = 200 ∧
    (handlerResponse c n respStream sc).headers = Metadata.responseWire sc.initMd ∧
    respData (handlerResponse c n respStream sc).body = wireFrames c.cd (respMsgs respStream sc) ∧
    (respTrailers (handlerResponse c n respStream sc).body).head? =
      some (trailersOfSt c sc (owedOf respStream sc)) := by
  obtain ⟨pre, hrun, hgood, hdata, _⟩ :=
    run_server c.cd (encCfg c true) rfl n none (handlerSrc respStream sc)
      (by simp only [Option.isSome_none, Bool.false_eq_true, ↓reduceIte]; omega)
  have hbody : (handlerResponse c n respStream sc).body =
      (pre ++ [FrameOut.trailers ((owedSt c.cd (encCfg c true) none (handlerSrc respStream sc)).getD St.okSt)] ++
        List.replicate (n - pre.length - 1) FrameOut.none).map (decorate c sc) := by
    simp only [handlerResponse, hearly, Enc.init, hrun]
  -- what is owed
  have howed : okPrefix c.cd (encCfg c true) (handlerSrc respStream sc) = respMsgs respStream sc ∧
      (finalSt c.cd (encCfg c true) (handlerSrc respStream sc)).getD St.okSt = owedOf respStream sc := by
    cases respStream with
    | true =>
      simp only [handlerSrc, ↓reduceIte, respMsgs, owedOf]
      cases hf : sc.final with
      | none =>
        obtain ⟨h1, h2⟩ := okPrefix_srcOf c true sc.body [] hm
        simp only [List.append_nil, okPrefix, finalSt] at h1 h2
        simp [h1, h2]
      | some st =>
        obtain ⟨h1, h2⟩ := okPrefix_srcOf c true sc.body [.err ⟨st.code.num, .user⟩] hm
        simp only [okPrefix, finalSt, List.append_nil] at h1 h2
        simp [h1, h2]
    | false =>
      simp only [handlerSrc, Bool.false_eq_true, ↓reduceIte, respMsgs, owedOf]
      obtain ⟨h1, h2⟩ := okPrefix_items c true (sc.body.msgs.take 1)
        (fun m hm' => hm m (List.mem_of_mem_take hm'))
      rw [h1, h2]; simp
  refine ⟨by simp [handlerResponse, hearly], by simp [handlerResponse, hearly], ?_, ?_⟩
  · rw [hbody, respData_decorate, dataConcat_append, dataConcat_append, hdata]
    have hz : dataConcat (List.replicate (n - pre.length - 1) FrameOut.none) = [] := by
      generalize n - pre.length - 1 = k
      induction k with
      | zero => rfl
      | succ k ih => simp [List.replicate_succ, FrameOut.bytes, ih]
    simp [owedData, howed.1, framesOf_wire, FrameOut.bytes, hz]
  · rw [hbody]
    simp only [List.map_append, respTrailers, List.filterMap_append] at *
    have h1 := respTrailers_good c sc (encCfg c true) pre hgood
    have h2 := respTrailers_nones c sc (n - pre.length - 1)
    simp only [respTrailers] at h1 h2
    rw [h1, h2]
    simp [decorate, owedSt, howed.2]

/-- **The request as handed to the transport**: the sanitised metadata plus `te` and
`content-type`; a body that does not fail and whose data frames concatenate to the
specification's framing of the caller's messages. -/
theorem clientRequest_ok (c : Cfg α) (n : Nat) (r : CallReq α)
    (hm : ∀ m ∈ r.msgs.msgs, MsgOk c.cd m) (hn : r.msgs.length + 1 < n) :
    (clientRequest c n r).headers = Metadata.requestWire r.md ∧
    reqData (clientRequest c n r).body = wireFrames c.cd r.msgs.msgs ∧
    reqFailed (clientRequest c n r).body = false := by
  have hlen : (srcOf r.msgs).length = r.msgs.length := by simp [srcOf]
  obtain ⟨pre, hgood, hdata, _, hrun⟩ :=
    run_client c.cd (encCfg c false) rfl n none (srcOf r.msgs)
      (by simp only [Option.isSome_none, Bool.false_eq_true, ↓reduceIte, hlen]; omega)
  obtain ⟨h1, h2⟩ := okPrefix_srcOf c false r.msgs [] hm
  simp only [List.append_nil, okPrefix, finalSt] at h1 h2
  simp only [owedSt, h2] at hrun
  have hbody : (clientRequest c n r).body = pre ++ List.replicate (n - pre.length) FrameOut.none := by
    simp only [clientRequest, Enc.init, hrun]
  refine ⟨rfl, ?_, ?_⟩
  · rw [hbody, reqData_eq, dataConcat_append, hdata]
    have hz : dataConcat (List.replicate (n - pre.length) FrameOut.none) = [] := by
      generalize n - pre.length = k
      induction k with
      | zero => rfl
      | succ k ih => simp [List.replicate_succ, FrameOut.bytes, ih]
    simp [owedData, h1, framesOf_wire, hz]
  · rw [hbody]; exact reqFailed_good c.cd _ pre _ hgood

/-! ### deliveries as event lists -/

theorem clean_chunkEvs (cs : List (Option Bytes)) (tail : List BodyEv) (ht : CleanEvs tail = true) :
    CleanEvs (chunkEvs cs ++ tail) = true := by
  induction cs with
  | nil => simpa [chunkEvs] using ht
  | cons x xs ih =>
    cases x <;> simpa [chunkEvs, CleanEvs] using ih

theorem dataOf_chunkEvs (cs : List (Option Bytes)) (tail : List BodyEv) :
    dataOf (chunkEvs cs ++ tail) = chunkData cs ++ dataOf tail := by
  induction cs with
  | nil => simp [chunkEvs, chunkData]
  | cons x xs ih =>
    cases x with
    | none => simpa [chunkEvs, chunkData, dataOf] using ih
    | some b =>
      simp only [chunkEvs, chunkData, List.map_cons, List.cons_append, dataOf, List.filterMap_cons, id,
        List.flatten_cons, List.append_assoc] at ih ⊢
      rw [ih]

theorem endTr_chunkEvs (tr : Option Tr) (cs : List (Option Bytes)) (tail : List BodyEv) :
    endTr tr (chunkEvs cs ++ tail) = endTr tr tail := by
  induction cs with
  | nil => simp [chunkEvs]
  | cons x xs ih =>
    cases x <;> simpa [chunkEvs, endTr] using ih

theorem length_chunkEvs (cs : List (Option Bytes)) : (chunkEvs cs).length = cs.length := by
  simp [chunkEvs]

theorem clean_reqEvs (d : ReqDelivery) : CleanEvs (reqEvs d) = true := by
  have := clean_chunkEvs d.chunks [] rfl
  simpa [reqEvs] using this

theorem dataOf_reqEvs (d : ReqDelivery) : dataOf (reqEvs d) = chunkData d.chunks := by
  have := dataOf_chunkEvs d.chunks []
  simpa [reqEvs, dataOf] using this

theorem endTr_reqEvs (d : ReqDelivery) : endTr none (reqEvs d) = none := by
  have := endTr_chunkEvs none d.chunks []
  simpa [reqEvs, endTr] using this

theorem clean_respEvs (d : RespDelivery) : CleanEvs (respEvs d) = true := by
  unfold respEvs
  cases d.trailers with
  | none => exact clean_chunkEvs d.chunks [] rfl
  | some t => exact clean_chunkEvs d.chunks _ rfl

theorem dataOf_respEvs (d : RespDelivery) : dataOf (respEvs d) = chunkData d.chunks := by
  unfold respEvs
  rw [dataOf_chunkEvs]
  cases d.trailers <;> simp [dataOf]

theorem endTr_respEvs (d : RespDelivery) : endTr none (respEvs d) = d.trailers.map trOf := by
  unfold respEvs
  rw [endTr_chunkEvs]
  cases d.trailers <;> simp [endTr, mergeTr]

theorem length_respEvs (d : RespDelivery) : (respEvs d).length ≤ d.chunks.length + 1 := by
  unfold respEvs
  cases d.trailers <;> simp [length_chunkEvs]

/-! ### the reference decoder on the wire bytes -/

theorem limit_none (dir : Dir) : ({ enc := none, maxSize := none, dir := dir } : DecCfg).limit = defaultMaxRecv := rfl

/-- the reference decoder reads the wire bytes of `ms` back as `ms`, for either direction -/
theorem spec_wire (cd : Codec α) (laws : CodecLaws cd) (dir : Dir) (ms : List α) (h : ∀ m ∈ ms, MsgOk cd m) :
    specFrom cd { enc := none, maxSize := none, dir := dir } Dec.init (wireFrames cd ms) = (ms, .clean) := by
  have hb := batch_wire cd { enc := none, maxSize := none, dir := dir } laws (ms.map (fun m => ⟨m, false⟩))
    (by
      intro x hx
      simp only [List.mem_map] at hx
      obtain ⟨m, hm, rfl⟩ := hx
      have := h m hm
      simp only [MsgOk, defaultMaxRecv] at this
      simp only [SentOk, wireOf, limit_none, defaultMaxRecv]
      omega)
  simp only [List.map_map, Function.comp_def, wireOf] at hb
  simpa [specFrom, Dec.init, wireFrames] using hb

/-! ### headers and statuses (from C04 / C08) -/

theorem protocolNames_reserved (k : Bytes) (h : k ∉ Spec.Call.protocolNames) :
    k ∉ Spec.Metadata.reserved ∧ k ≠ Status.GRPC_STATUS_DETAILS ∧ k ≠ Status.CONTENT_TYPE := by
  refine ⟨fun hk => h ?_, fun hk => h ?_, fun hk => h ?_⟩
  · have : ∀ r ∈ Spec.Metadata.reserved, r ∈ Spec.Call.protocolNames := by decide
    exact this k hk
  · rw [hk]; decide
  · rw [hk]; decide

/-- the Bool oracle `carried` from a per-name statement -/
theorem carried_of (attached got : HMap)
    (h : ∀ k, k ∉ Spec.Call.protocolNames → HMap.getAll k got = HMap.getAll k attached) :
    Spec.Call.carried attached got = true := by
  simp only [Spec.Call.carried, List.all_eq_true, Bool.or_eq_true, List.contains_iff_mem, beq_iff_eq]
  intro k _
  by_cases hk : k ∈ Spec.Call.protocolNames
  · exact Or.inl hk
  · exact Or.inr (h k hk)

/-- the Bool oracle `exactly` from the same per-name statement -/
theorem exactly_of (attached got : HMap)
    (h : ∀ k, k ∉ Spec.Call.protocolNames → HMap.getAll k got = HMap.getAll k attached) :
    Spec.Call.exactly attached got = true := by
  simp only [Spec.Call.exactly, List.all_eq_true, Bool.or_eq_true, List.contains_iff_mem, beq_iff_eq]
  intro k _
  by_cases hk : k ∈ Spec.Call.protocolNames
  · exact Or.inl hk
  · exact Or.inr (h k hk)

def noEncodingName (m : HMap) : Prop := HMap.getAll GRPC_ENCODING m = []

theorem encoding_not_reserved : GRPC_ENCODING ∉ Spec.Metadata.reserved ∧ GRPC_ENCODING ≠ Status.GRPC_STATUS_DETAILS ∧
    Status.isCustom GRPC_ENCODING = true := by decide

theorem encodingCheck_none (h : HMap) (hh : HMap.getAll GRPC_ENCODING h = []) : encodingCheck h = none := by
  simp [encodingCheck, HMap.get, hh]

theorem encodingCheck_requestWire (md : HMap) (h : noEncodingName md) :
    encodingCheck (Metadata.requestWire md) = none :=
  encodingCheck_none _ (by rw [C08.C08_preserved_request md _ encoding_not_reserved.1]; exact h)

theorem encodingCheck_responseWire (md : HMap) (h : noEncodingName md) :
    encodingCheck (Metadata.responseWire md) = none :=
  encodingCheck_none _ (by rw [(C08.C08_preserved_response md _ encoding_not_reserved.1).1]; exact h)

/-- response headers never carry a `grpc-status`, so a response with a body is not mistaken for
a trailers-only one -/
theorem fromHeaderMap_responseWire (md : HMap) :
    Status.fromHeaderMap .fixed (Metadata.responseWire md) = none := by
  have hr : Status.GRPC_STATUS ∈ Spec.Metadata.reserved := by decide
  have := (C08.C08_reserved_never_emitted md Status.GRPC_STATUS hr).2
  have hnil : HMap.getAll Status.GRPC_STATUS (Metadata.responseWire md) = [] := by
    rw [this]; decide
  simp [Status.fromHeaderMap, HMap.get, hnil]

/-- `got` is the status `want` as the property demands: same code, message, details, and every
custom metadata entry under its name with its values in order -/
def SameStatus (want got : FSt) : Prop :=
  got.code = want.code ∧ got.message = want.message ∧ got.details = want.details ∧
  ∀ k, k ∉ Spec.Call.protocolNames → HMap.getAll k got.metadata = HMap.getAll k want.metadata

/-- A status written by `add_header` into `[]` (trailers) or `[content-type]` (trailers-only
response) is read back by `from_header_map` as the same status. -/
theorem status_roundtrip (st : FSt) (h0 : HMap) (hutf : Utf8.valid st.message = true)
    (h0c : ∀ k, k ∉ Spec.Call.protocolNames → HMap.getAll k h0 = [])
    (hm0 : HMap.getAll Status.GRPC_MESSAGE h0 = []) (hd0 : HMap.getAll Status.GRPC_STATUS_DETAILS h0 = []) :
    ∃ st', Status.fromHeaderMap .fixed (Status.wire .fixed st h0) = some (.status st') ∧ SameStatus st st' := by
  obtain ⟨h, hw, hr, hmd⟩ := C04.C04_status_roundtrip st h0 hutf hm0 hd0
  rw [Status.addHeader_eq] at hw
  cases hw
  refine ⟨_, hr, rfl, rfl, rfl, ?_⟩
  intro k hk
  obtain ⟨k1, k2, k3⟩ := protocolNames_reserved k hk
  have hk' : k ∉ Status.reservedHeaders := fun h => k1 ((Metadata.mem_reserved_iff k).mpr h)
  have n1 : k ≠ Status.GRPC_STATUS := by intro h; apply hk'; rw [h]; decide
  have n2 : k ≠ Status.GRPC_MESSAGE := by intro h; apply hk'; rw [h]; decide
  have hc : Status.isCustom k = true := by simp [Status.isCustom, hk', k2]
  dsimp only
  rw [hmd k]
  simp only [n1, n2, k2, or_self, if_false, hc, true_and]
  by_cases hg : HMap.getAll k st.metadata = []
  · simp [hg, h0c k hk]
  · simp [hg]

theorem toHeaderMap_eq (st : FSt) : Status.toHeaderMap .fixed st = .ok (Status.wire .fixed st []) :=
  Status.addHeader_eq .fixed st []

theorem errorResponseWire_eq (st : FSt) :
    Metadata.errorResponseWire .fixed st =
      .ok (Status.wire .fixed st [(Status.CONTENT_TYPE, Metadata.GRPC_CONTENT_TYPE)]) :=
  Status.addHeader_eq .fixed st _

theorem ct_block (k : Bytes) (hk : k ∉ Spec.Call.protocolNames) :
    HMap.getAll k [(Status.CONTENT_TYPE, Metadata.GRPC_CONTENT_TYPE)] = [] := by
  have := (protocolNames_reserved k hk).2.2
  simp [HMap.getAll_cons, HMap.getAll_nil, Ne.symm this]

end Call
