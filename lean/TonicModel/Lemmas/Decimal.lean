import TonicModel.Basic.Bytes
/- Facts about `decimal` / `digitsVal`: round-trip, digit-ness, length bound. -/

theorem digitsVal_append (xs ys : Bytes) :
    digitsVal (xs ++ ys) = ys.foldl (fun acc b => acc * 10 + (b.toNat - 48)) (digitsVal xs) := by
  simp [digitsVal, List.foldl_append]

theorem foldl_digits_shift (ys : Bytes) (a : Nat) :
    ys.foldl (fun acc b => acc * 10 + (b.toNat - 48)) a
      = a * 10 ^ ys.length + digitsVal ys := by
  induction ys generalizing a with
  | nil => simp [digitsVal]
  | cons y ys ih =>
    simp only [List.foldl_cons, List.length_cons, digitsVal]
    rw [ih, ih (0 * 10 + (y.toNat - 48))]
    simp [Nat.pow_succ, Nat.add_mul, Nat.mul_assoc, Nat.mul_comm 10, Nat.add_assoc]

theorem digitsVal_cons (d : UInt8) (acc : Bytes) :
    digitsVal (d :: acc) = (d.toNat - 48) * 10 ^ acc.length + digitsVal acc := by
  have := foldl_digits_shift acc (0 * 10 + (d.toNat - 48))
  simpa [digitsVal] using this

theorem digit_toNat (k : Nat) (h : k < 10) : (digitByte k).toNat = 48 + k := by
  simp [digitByte, UInt8.toNat_ofNat']; omega

theorem decimalAux_val (fuel : Nat) : ∀ (n : Nat) (acc : Bytes), n < fuel →
    digitsVal (decimalAux fuel n acc) = n * 10 ^ acc.length + digitsVal acc := by
  induction fuel with
  | zero => intro n acc h; omega
  | succ f ih =>
    intro n acc h
    simp only [decimalAux]
    have hd : (digitByte (n % 10)).toNat = 48 + n % 10 := digit_toNat _ (Nat.mod_lt _ (by decide))
    split
    · rename_i h0
      rw [digitsVal_cons, hd]
      have hn : n % 10 = n := by omega
      have e : 48 + n % 10 - 48 = n := by omega
      rw [e]
    · rename_i h0
      rw [ih (n / 10) _ (by omega), digitsVal_cons, hd]
      simp only [List.length_cons, Nat.pow_succ]
      have : n = n / 10 * 10 + n % 10 := by omega
      generalize 10 ^ acc.length = p at *
      have e : 48 + n % 10 - 48 = n % 10 := by omega
      rw [e]
      calc n / 10 * (p * 10) + (n % 10 * p + digitsVal acc)
          = (n / 10 * 10 + n % 10) * p + digitsVal acc := by
            simp [Nat.add_mul, Nat.mul_assoc, Nat.mul_comm p 10, Nat.add_assoc]
        _ = n * p + digitsVal acc := by rw [← this]

theorem digitsVal_decimal (n : Nat) : digitsVal (decimal n) = n := by
  have := decimalAux_val (n + 1) n [] (by omega)
  simpa [decimal, digitsVal] using this

theorem isDigit_digit (k : Nat) (h : k < 10) : Ascii.isDigit (digitByte k) = true := by
  simp only [Ascii.isDigit, digit_toNat k h]; simp; omega

theorem decimalAux_digits (fuel : Nat) : ∀ (n : Nat) (acc : Bytes),
    acc.all Ascii.isDigit = true → (decimalAux fuel n acc).all Ascii.isDigit = true := by
  induction fuel with
  | zero => intro n acc h; simpa [decimalAux] using h
  | succ f ih =>
    intro n acc h
    simp only [decimalAux]
    have hd := isDigit_digit (n % 10) (Nat.mod_lt _ (by decide))
    split
    · simp [hd]; simpa using h
    · apply ih; simp [hd]; simpa using h

theorem decimal_digits (n : Nat) : (decimal n).all Ascii.isDigit = true :=
  decimalAux_digits _ _ _ (by simp)

theorem decimalAux_length (fuel : Nat) : ∀ (n k : Nat) (acc : Bytes), n < fuel → 1 ≤ k → n < 10 ^ k →
    (decimalAux fuel n acc).length ≤ k + acc.length ∧ acc.length + 1 ≤ (decimalAux fuel n acc).length := by
  induction fuel with
  | zero => intro n k acc h; omega
  | succ f ih =>
    intro n k acc h hk hn
    simp only [decimalAux]
    split
    · simp; omega
    · rename_i h0
      have hk2 : 2 ≤ k := by
        rcases Nat.lt_or_ge k 2 with h2 | h2
        · have : k = 1 := by omega
          subst this; simp at hn; omega
        · exact h2
      have hn' : n / 10 < 10 ^ (k - 1) := by
        have : 10 ^ k = 10 ^ (k - 1) * 10 := by
          rw [← Nat.pow_succ]; congr 1; omega
        rw [this] at hn
        exact Nat.div_lt_of_lt_mul (by rw [Nat.mul_comm]; exact hn)
      have := ih (n / 10) (k - 1) (digitByte (n % 10) :: acc) (by omega) (by omega) hn'
      simp only [List.length_cons] at this
      omega

theorem decimal_length (n k : Nat) (hk : 1 ≤ k) (hn : n < 10 ^ k) :
    1 ≤ (decimal n).length ∧ (decimal n).length ≤ k := by
  have := decimalAux_length (n + 1) n k [] (by omega) hk hn
  simp only [List.length_nil] at this
  unfold decimal; omega
