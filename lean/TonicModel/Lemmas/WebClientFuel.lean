import TonicModel.Model.WebClient
import TonicModel.Lemmas.WebClient
import TonicModel.Lemmas.WebClientHints
/-
The fuel of `WebClient.Fixed.drain` is never exhausted.

`Fixed.drain` is written with a fuel argument whose exhausted case returns `[.err]` — the same
frame the totality / truncation theorems assert.  To make "no busy loop" a theorem rather than a
consequence of that default, this file gives the loop a FUEL-FREE semantics (`Drains`, `Runs`:
inductive big-step relations over `afterPoll` only — a loop that passes without ever stopping has
no derivation) and proves that the fuelled functions compute it: the fuel `Fixed.run` hands to
`drain` (`decoded.length + 3`) is more than the loop can use (`mu st + 1 ≤ decoded.length + 2`
passes, because every `emit`/`continue` pass after the end of the inner body takes at least one
buffered byte or the stored trailers: `WebClientHintsLemmas.afterPoll_mu`).
-/
namespace WebClientLemmas
open WebClient WebClient.Fixed
open WebServer (BodyEv Out)
open WebClientHintsLemmas (mu mu_le afterPoll_mu)

/-- The loop after the inner body has ended, WITHOUT fuel: `Drains st os` iff passing through
`afterPoll true` from `st` reaches a `stop` after finitely many passes, the frames emitted on the
way followed by the stop's frames being `os`. -/
inductive Drains : St → List Out → Prop
  | stop {st : St} {os : List Out} : afterPoll true st = .stop os → Drains st os
  | emit {st st' : St} {o : Out} {os : List Out} :
      afterPoll true st = .emit o st' → Drains st' os → Drains st (o :: os)
  | again {st st' : St} {os : List Out} :
      afterPoll true st = .again st' → Drains st' os → Drains st os

/-- The whole consumer loop, WITHOUT fuel: `Fixed.run` clause by clause, with `Drains` in the
place of `drain (st.decoded.length + 3)`. -/
inductive Runs : St → List BodyEv → List Out → Prop
  | ended {st : St} {os : List Out} : Drains st os → Runs st [] os
  | pending {st : St} {r : List BodyEv} {os : List Out} : Runs st r os → Runs st (.pending :: r) os
  | err {st : St} {r : List BodyEv} : Runs st (.err :: r) [.err]
  | trailers {st : St} {t : List TMap.Pair} {r : List BodyEv} {os : List Out} :
      Runs { st with trailers := mergeTrailers st.trailers t } r os → Runs st (.trailers t :: r) os
  | dataStop {st : St} {b : Bytes} {r : List BodyEv} {os : List Out} :
      afterPoll false { st with decoded := st.decoded ++ b } = .stop os → Runs st (.data b :: r) os
  | dataEmit {st st' : St} {b : Bytes} {r : List BodyEv} {o : Out} {os : List Out} :
      afterPoll false { st with decoded := st.decoded ++ b } = .emit o st' → Runs st' r os →
      Runs st (.data b :: r) (o :: os)
  | dataAgain {st st' : St} {b : Bytes} {r : List BodyEv} {os : List Out} :
      afterPoll false { st with decoded := st.decoded ++ b } = .again st' → Runs st' r os →
      Runs st (.data b :: r) os

/-- the fuel-free loop has at most one result -/
theorem Drains.unique {st : St} {a b : List Out} (ha : Drains st a) (hb : Drains st b) : a = b := by
  induction ha generalizing b with
  | stop h =>
    cases hb with
    | stop h' => rw [h] at h'; cases h'; rfl
    | emit h' _ => rw [h] at h'; cases h'
    | again h' _ => rw [h] at h'; cases h'
  | emit h _ ih =>
    cases hb with
    | stop h' => rw [h] at h'; cases h'
    | emit h' hb' => rw [h] at h'; cases h'; rw [ih hb']
    | again h' _ => rw [h] at h'; cases h'
  | again h _ ih =>
    cases hb with
    | stop h' => rw [h] at h'; cases h'
    | emit h' _ => rw [h] at h'; cases h'
    | again h' hb' => rw [h] at h'; cases h'; exact ih hb'

theorem Runs.unique {st : St} {evs : List BodyEv} {a b : List Out}
    (ha : Runs st evs a) (hb : Runs st evs b) : a = b := by
  induction ha generalizing b with
  | ended h => cases hb with | ended h' => exact h.unique h'
  | pending _ ih => cases hb with | pending h' => exact ih h'
  | err => cases hb with | err => rfl
  | trailers _ ih => cases hb with | trailers h' => exact ih h'
  | dataStop h =>
    cases hb with
    | dataStop h' => rw [h] at h'; cases h'; rfl
    | dataEmit h' _ => rw [h] at h'; cases h'
    | dataAgain h' _ => rw [h] at h'; cases h'
  | dataEmit h _ ih =>
    cases hb with
    | dataStop h' => rw [h] at h'; cases h'
    | dataEmit h' hb' => rw [h] at h'; cases h'; rw [ih hb']
    | dataAgain h' _ => rw [h] at h'; cases h'
  | dataAgain h _ ih =>
    cases hb with
    | dataStop h' => rw [h] at h'; cases h'
    | dataEmit h' _ => rw [h] at h'; cases h'
    | dataAgain h' hb' => rw [h] at h'; cases h'; exact ih hb'

/-- **The fuel suffices.**  With more fuel than `mu st` (buffered bytes, plus one if trailers are
stored) the fuelled `drain` never reaches its `0` case: its result is the fuel-free loop's. -/
theorem drain_drains : ∀ (f : Nat) (st : St), mu st < f → Drains st (drain f st) := by
  intro f
  induction f with
  | zero => intro st h; omega
  | succ f ih =>
    intro st hf
    simp only [drain]
    cases h : afterPoll true st with
    | stop os => exact .stop h
    | emit o st' =>
      have := afterPoll_mu.1 o st' h
      exact .emit h (ih st' (by omega))
    | again st' =>
      have := afterPoll_mu.2 st' h
      exact .again h (ih st' (by omega))

/-- … so the amount of fuel is irrelevant once it exceeds `mu st`. -/
theorem drain_fuel_irrelevant (f g : Nat) (st : St) (hf : mu st < f) (hg : mu st < g) :
    drain f st = drain g st :=
  (drain_drains f st hf).unique (drain_drains g st hg)

/-- the fuel `Fixed.run` passes is enough -/
theorem drain_run_fuel (st : St) : Drains st (drain (st.decoded.length + 3) st) :=
  drain_drains _ st (by have := mu_le st; omega)

/-- **`Fixed.run` computes the fuel-free loop**, for every start state and every event list. -/
theorem run_runs : ∀ (evs : List BodyEv) (st : St), Runs st evs (run st evs) := by
  intro evs
  induction evs with
  | nil => intro st; exact .ended (drain_run_fuel st)
  | cons e r ih =>
    intro st
    cases e with
    | pending => exact .pending (ih st)
    | err => exact .err
    | trailers t => exact .trailers (ih _)
    | data b =>
      simp only [run]
      cases h : afterPoll false { st with decoded := st.decoded ++ b } with
      | stop os => exact .dataStop h
      | emit o st' => exact .dataEmit h (ih st')
      | again st' => exact .dataAgain h (ih st')

/-- the fuel-free loop reaches a `stop` from every state: no state spins -/
theorem drains_exists (st : St) : ∃ os, Drains st os := ⟨_, drain_run_fuel st⟩

end WebClientLemmas
