import TonicModel.Lemmas.SpecWire
/-
The model's encoders as `serialize` of explicit record lists, and how the spec's field lookups
evaluate on such lists.
-/
namespace SpecWire
open PbWire Spec.RichError

def recsScalar (tag : Nat) : Sc → SV → List (Nat × Wire)
  | .str, .b s => if s = [] then [] else [(tag, .len s)]
  | .bytes, .b s => if s = [] then [] else [(tag, .len s)]
  | .i32, .i x => if x = 0 then [] else [(tag, .varint (u64OfInt x))]
  | .i64, .i x => if x = 0 then [] else [(tag, .varint (u64OfInt x))]
  | _, _ => []

theorem encScalarField_eq (tag : Nat) (k : Sc) (v : SV) :
    encScalarField tag k v = serialize (recsScalar tag k v) := by
  cases k <;> cases v <;> simp only [encScalarField, recsScalar] <;>
    first | rfl | (split <;> simp [serialize, recBytes, lenDelim])

def recsFlatFrom (tag : Nat) : Flat → List SV → List (Nat × Wire)
  | k :: ks, v :: vs => recsScalar tag k v ++ recsFlatFrom (tag + 1) ks vs
  | _, _ => []

theorem encFlatFrom_eq (tag : Nat) (s : Flat) (v : List SV) :
    encFlatFrom tag s v = serialize (recsFlatFrom tag s v) := by
  induction s generalizing tag v with
  | nil => cases v <;> rfl
  | cons k ks ih =>
    cases v with
    | nil => rfl
    | cons x xs => simp [encFlatFrom, recsFlatFrom, serialize_append, encScalarField_eq, ih]

theorem lenDelim_eq (tag : Nat) (p : Bytes) : lenDelim tag p = serialize [(tag, .len p)] := by
  simp [serialize, recBytes, lenDelim]

theorem flatMap_lenDelim_eq {α : Type} (tag : Nat) (g : α → Bytes) (l : List α) :
    l.flatMap (fun a => lenDelim tag (g a)) = serialize (l.map fun a => (tag, Wire.len (g a))) := by
  simp only [serialize, List.flatMap_map]
  rfl

def recsL2Field (tag : Nat) : F2 → V2 → List (Nat × Wire)
  | .sc k, .sc v => recsScalar tag k v
  | .repStr, .repStr l => l.map fun s => (tag, .len s)
  | .repFlat s, .repFlat l => l.map fun v => (tag, .len (encFlat s v))
  | .optFlat s, .optFlat o =>
    match o with
    | none => []
    | some v => [(tag, .len (encFlat s v))]
  | .mapSS, .map l => l.map fun e => (tag, .len (encEntry e))
  | _, _ => []

theorem encL2Field_eq (tag : Nat) (f : F2) (v : V2) : encL2Field tag f v = serialize (recsL2Field tag f v) := by
  cases f <;> cases v <;> simp only [encL2Field, recsL2Field] <;>
    first
    | exact encScalarField_eq _ _ _
    | exact flatMap_lenDelim_eq _ _ _
    | rfl
    | (split <;> first | rfl | exact lenDelim_eq _ _)

def recsL2From (tag : Nat) : List F2 → List V2 → List (Nat × Wire)
  | f :: fs, v :: vs => recsL2Field tag f v ++ recsL2From (tag + 1) fs vs
  | _, _ => []

theorem encL2From_eq (tag : Nat) (s : List F2) (v : List V2) :
    encL2From tag s v = serialize (recsL2From tag s v) := by
  induction s generalizing tag v with
  | nil => cases v <;> rfl
  | cons k ks ih =>
    cases v with
    | nil => rfl
    | cons x xs => simp [encL2From, recsL2From, serialize_append, encL2Field_eq, ih]

/-! ### sizes: a record's payload is no longer than the serialization it is part of -/

def payloadLen : Nat × Wire → Nat
  | (_, .len b) => b.length
  | _ => 0

theorem length_le_flatMap' {α : Type} (g : α → Bytes) (l : List α) (a : α) (h : a ∈ l) :
    (g a).length ≤ (l.flatMap g).length := by
  induction l with
  | nil => simp at h
  | cons x l ih =>
    simp only [List.flatMap_cons, List.length_append]
    rcases List.mem_cons.mp h with rfl | h
    · omega
    · have := ih h; omega

theorem payloadLen_le (recs : List (Nat × Wire)) (x : Nat × Wire) (h : x ∈ recs) :
    payloadLen x ≤ (serialize recs).length := by
  have h1 := length_le_flatMap' recBytes recs x
  have : payloadLen x ≤ (recBytes x).length := by
    obtain ⟨n, w⟩ := x
    cases w <;> simp [payloadLen, recBytes]
    omega
  have := h1 h
  simp only [serialize]
  omega

/-- shape of the records a proto3 writer of these messages produces: tags in range, varints below
2^64, no fixed-width values -/
def RecShape : Nat × Wire → Prop
  | (n, .varint v) => 1 ≤ n ∧ n < 536870912 ∧ v < 18446744073709551616
  | (n, .len _) => 1 ≤ n ∧ n < 536870912
  | (_, _) => False

theorem recOk_of_shape (recs : List (Nat × Wire)) (hs : ∀ x ∈ recs, RecShape x)
    (hb : (serialize recs).length < 18446744073709551616) : ∀ x ∈ recs, RecOk x := by
  intro x hx
  have h1 := hs x hx
  have h2 := payloadLen_le recs x hx
  obtain ⟨n, w⟩ := x
  cases w <;> simp only [RecShape, RecOk, payloadLen] at h1 h2 ⊢
  · exact h1
  · exact ⟨h1.1, h1.2, by omega⟩

theorem parse_of_shape (recs : List (Nat × Wire)) (hs : ∀ x ∈ recs, RecShape x)
    (hb : (serialize recs).length < 18446744073709551616) : parse (serialize recs) = some recs :=
  parse_serialize recs (recOk_of_shape recs hs hb)

end SpecWire
