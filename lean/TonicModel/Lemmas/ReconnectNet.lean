import TonicModel.Lemmas.Reconnect
/-
The channel against a real listening socket (`Net.run`): for every script the model's run
satisfies the network oracle `Spec.Reconnect.netClauses`.
-/
namespace Reconnect.Net
open ConnScript
open Spec.Reconnect (NSt netCallClauses netNext netEvClauses netClauses)

/-- How the model state, the scripted network and the oracle's view hang together at a quiescent
point. -/
structure NInv (r : R) (w : W) (s : NSt) : Prop where
  err : r.error = none
  stored : (r.hasBeen || r.isLazy) = true
  up : w.up = s.up
  gen : w.gen = s.gen
  shape : (r.st = .idle ∧ w.alive = none ∧ s.live = none) ∨
    ∃ c, r.st = .connected c ∧
      ((w.alive = some c ∧ s.live = some w.aliveGen) ∨ (w.alive = none ∧ s.live = none))

theorem refusedCode_eq : refusedCode = unavailable := by decide

theorem world_connects (w : W) : w.world.next.connects = w.up := by
  cases h : w.up <;> simp [W.world, E2E.World.next, h, Outcome.connects]

theorem env_inv {r : R} {w : W} {s : NSt} (h : NInv r w s) (op : NOp) (hop : op ≠ .call) :
    NInv r (w.env op) (s.env op) := by
  obtain ⟨herr, hstored, hup, hgen, hshape⟩ := h
  cases op with
  | call => exact absurd rfl hop
  | up =>
    by_cases hu : w.up = true
    · have hu' : s.up = true := by rw [← hup]; exact hu
      simpa [W.env, NSt.env, hu, hu'] using (⟨herr, hstored, hup, hgen, hshape⟩ : NInv r w s)
    · have hu' : s.up = false := by rw [← hup]; simpa using hu
      have hu'' : w.up = false := by simpa using hu
      simp only [W.env, NSt.env, hu'', hu', Bool.false_eq_true, if_false]
      exact ⟨herr, hstored, rfl, by simp [hgen], hshape⟩
  | down =>
    simp only [W.env, NSt.env]
    refine ⟨herr, hstored, rfl, hgen, ?_⟩
    rcases hshape with ⟨hst, _, _⟩ | ⟨c, hst, _⟩
    · exact Or.inl ⟨hst, rfl, rfl⟩
    · exact Or.inr ⟨c, hst, Or.inr ⟨rfl, rfl⟩⟩

/-- One call: the oracle's clauses hold for what the model answers, and the invariant is
re-established. -/
theorem call_step (r : R) (w : W) (s : NSt) (h : NInv r w s) :
    (netCallClauses s (callStep r w).1).all (·.2) = true ∧
    NInv (callStep r w).2.1 (callStep r w).2.2 (netNext s (callStep r w).1) := by
  obtain ⟨herr, hstored, hup, hgen, hshape⟩ := h
  have hcon := world_connects w
  rcases hshape with ⟨hst, hal, hlive⟩ | ⟨c, hst, ⟨hal, hlive⟩ | ⟨hal, hlive⟩⟩
  · -- idle
    cases hu : w.up with
    | true =>
      have hu' : s.up = true := by rw [← hup]; exact hu
      have hs := serve_idle_connects r [] herr hst
      simp only [callStep, E2E.answersFor, hst, hcon, hu, if_true, List.nil_append, hs, hal]
      refine ⟨?_, ?_⟩
      · simp [netCallClauses, hlive, hu', hgen]
      · exact ⟨herr, by simp, by simp [netNext, hu'], by simp [netNext, hgen],
          Or.inr ⟨_, rfl, Or.inl ⟨by simp, by simp [netNext]⟩⟩⟩
    | false =>
      have hu' : s.up = false := by rw [← hup]; exact hu
      have hs := serve_idle_fails r (r.made + 1) [.ok] herr hst hstored
      simp only [callStep, E2E.answersFor, hst, hcon, hu, Bool.false_eq_true, if_false,
        List.nil_append, hs]
      refine ⟨?_, ?_⟩
      · simp [netCallClauses, hlive, hu', refusedCode_eq]
      · exact ⟨herr, hstored, by simp [netNext, hu'], by simp [netNext, hgen],
          Or.inl ⟨rfl, rfl, by simp [netNext]⟩⟩
  · -- connected and alive
    have hs := serve_connected_ok r c
      [Ans.ok, if w.world.next.connects then Ans.ok else Ans.err (r.made + 1), Ans.ok] herr hst
    have hwa : w.world.alive = some c := by simp [W.world, hal]
    simp only [callStep, E2E.answersFor, hst, hwa, if_true, List.cons_append, List.nil_append, hs, hal]
    refine ⟨?_, ?_⟩
    · simp [netCallClauses, hlive]
    · exact ⟨herr, by simp, by simp [netNext, hup], by simp [netNext, hgen],
        Or.inr ⟨c, by simp, Or.inl ⟨by simp, by simp [netNext]⟩⟩⟩
  · -- connected, peer gone
    have hne : ¬ (w.world.alive = some c) := by simp [W.world, hal]
    cases hu : w.up with
    | true =>
      have hu' : s.up = true := by rw [← hup]; exact hu
      have hs := serve_dead_reconnects r c 0 [] herr hst
      simp only [callStep, E2E.answersFor, hst, hne, hcon, hu, if_true, if_false, List.cons_append,
        List.nil_append, hs, hal]
      refine ⟨?_, ?_⟩
      · simp [netCallClauses, hlive, hu', hgen]
      · exact ⟨herr, by simp, by simp [netNext, hu'], by simp [netNext, hgen],
          Or.inr ⟨_, rfl, Or.inl ⟨by simp, by simp [netNext]⟩⟩⟩
    | false =>
      have hu' : s.up = false := by rw [← hup]; exact hu
      have hs := serve_dead_fails r c 0 (r.made + 1) [.ok] herr hst
      simp only [callStep, E2E.answersFor, hst, hne, hcon, hu, Bool.false_eq_true, if_false,
        List.cons_append, List.nil_append, hs]
      refine ⟨?_, ?_⟩
      · simp [netCallClauses, hlive, hu', refusedCode_eq]
      · exact ⟨herr, by simp, by simp [netNext, hu'], by simp [netNext, hgen],
          Or.inl ⟨rfl, rfl, by simp [netNext]⟩⟩

theorem runOps_ok (ops : List NOp) : ∀ (r : R) (w : W) (s : NSt), NInv r w s →
    (netEvClauses s ops (runOps r w ops)).all (·.2) = true := by
  induction ops with
  | nil => intro r w s _; simp [runOps, netEvClauses]
  | cons op ops ih =>
    intro r w s h
    cases op with
    | up =>
      simp only [runOps, netEvClauses]
      exact ih _ _ _ (env_inv h .up (by simp))
    | down =>
      simp only [runOps, netEvClauses]
      exact ih _ _ _ (env_inv h .down (by simp))
    | call =>
      have hstep := call_step r w s h
      simp only [runOps, netEvClauses, List.all_append, Bool.and_eq_true]
      exact ⟨hstep.1, ih _ _ _ hstep.2⟩

/-- The environment's steps before the channel exists. -/
theorem pre_fold (pre : List NOp) (hpre : ∀ op ∈ pre, op ≠ .call) : ∀ (w : W) (s : NSt),
    w.up = s.up → w.gen = s.gen → w.alive = none → s.live = none →
    (pre.foldl W.env w).up = (pre.foldl NSt.env s).up ∧
    (pre.foldl W.env w).gen = (pre.foldl NSt.env s).gen ∧
    (pre.foldl W.env w).alive = none ∧ (pre.foldl NSt.env s).live = none := by
  induction pre with
  | nil => intro w s hu hg ha hl; exact ⟨hu, hg, ha, hl⟩
  | cons op pre ih =>
    intro w s hu hg ha hl
    have hop := hpre op (by simp)
    have hrest : ∀ o ∈ pre, o ≠ .call := fun o ho => hpre o (by simp [ho])
    simp only [List.foldl_cons]
    cases op with
    | call => exact absurd rfl hop
    | up =>
      by_cases hw : w.up = true
      · have hs : s.up = true := by rw [← hu]; exact hw
        simpa [W.env, NSt.env, hw, hs] using ih hrest w s hu hg ha hl
      · have hw' : w.up = false := by simpa using hw
        have hs : s.up = false := by rw [← hu]; exact hw'
        have := ih hrest { w with up := true, gen := w.gen + 1 } { s with up := true, gen := s.gen + 1 }
          rfl (by simp [hg]) ha hl
        simpa [W.env, NSt.env, hw', hs] using this
    | down =>
      exact ih hrest { w with up := false, alive := none } { s with up := false, live := none }
        rfl hg rfl rfl

/-- The model's run of any network script satisfies every clause of the network oracle. -/
theorem run_holds (isLazy : Bool) (pre post : List NOp) (hpre : ∀ op ∈ pre, op ≠ .call) :
    (netClauses isLazy pre post (run isLazy pre post)).all (·.2) = true := by
  obtain ⟨hu, hg, ha, hl'⟩ := pre_fold pre hpre
    { up := false, gen := 0, alive := none, aliveGen := 0 } { up := false, gen := 0, live := none }
    rfl rfl rfl rfl
  unfold netClauses run
  generalize hw : pre.foldl W.env { up := false, gen := 0, alive := none, aliveGen := 0 } = w at hu hg ha
  generalize hs : pre.foldl NSt.env { up := false, gen := 0, live := none } = s at hu hg hl'
  cases isLazy with
  | true =>
    simp only [if_true, List.all_cons, Bool.and_eq_true]
    refine ⟨by simp, ?_⟩
    apply runOps_ok
    exact ⟨rfl, by simp [R.init], hu, hg, Or.inl ⟨rfl, ha, hl'⟩⟩
  | false =>
    have hcon := world_connects w
    simp only [Bool.false_eq_true, if_false]
    cases hup : s.up with
    | true =>
      have hwu : w.up = true := by rw [hu]; exact hup
      have hc : w.world.next.connects = true := by rw [hcon]; exact hwu
      simp only [if_true, connectEager, E2E.answersFor, R.init, hc, List.nil_append,
        drive, driveLoop, step, Option.isSome_none, Bool.false_eq_true, if_false]
      simp only [List.all_cons, Bool.and_eq_true]
      refine ⟨by simp, ?_⟩
      apply runOps_ok
      exact ⟨rfl, by simp, by simp [hu, hup], by simp [hg], Or.inr ⟨1, rfl, Or.inl ⟨rfl, by simp [hg]⟩⟩⟩
    | false =>
      have hwu : w.up = false := by rw [hu]; exact hup
      have hc : w.world.next.connects = false := by rw [hcon]; exact hwu
      simp [connectEager, E2E.answersFor, R.init, hc, drive, driveLoop, step, refusedCode_eq]

end Reconnect.Net
