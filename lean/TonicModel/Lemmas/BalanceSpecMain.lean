import TonicModel.Lemmas.BalanceSpecRun
/-
Load-balanced channel (C14): the script's own steps keep the oracle and the model related; one
call's clauses; whole scripts.
-/
namespace Balance
open ConnScript BalScript Reconnect
open Spec.Balance (O)

/-! ### the script's own steps -/

theorem A2.any_key {os : List O} {eps : List EP} (a : A2 RelQ os eps) (k : Nat) :
    os.any (fun o => decide (o.key = k)) = eps.any (fun e => decide (e.key = k)) := by
  induction a with
  | nil => rfl
  | cons p _ ih => simp only [List.any_cons, ih, p.rel.key]

theorem A2.append {P : O → EP → Prop} {os os' : List O} {eps eps' : List EP} (a : A2 P os eps)
    (b : A2 P os' eps') : A2 P (os ++ os') (eps ++ eps') := by
  induction a with
  | nil => exact b
  | cons p _ ih => exact .cons p ih

theorem blank_relq (k : Nat) : RelQ (Spec.Balance.blank k) (blank k) := by
  refine ⟨⟨rfl, rfl, rfl, rfl, by simp [blank, EW.init], ?_, ?_⟩, blank_lz k, by simp [Gd, Good, blank, R.init]⟩
  · intro h; simp [blank] at h
  · intro h; simp [blank] at h

theorem A2.ensure {os : List O} {eps : List EP} (a : A2 RelQ os eps) (k : Nat) :
    A2 RelQ (Spec.Balance.ensure k os) (ensure k eps) := by
  unfold Spec.Balance.ensure Balance.ensure
  rw [a.any_key k]
  split
  · exact a
  · exact a.append (.cons (blank_relq k) .nil)

theorem A2.onKey {os : List O} {eps : List EP} (a : A2 RelQ os eps) (k : Nat) (fo : O → O) (fe : EP → EP)
    (h : ∀ o e, RelQ o e → RelQ (fo o) (fe e)) :
    A2 RelQ (Spec.Balance.onKey k fo os) (onKey k fe eps) := by
  induction a with
  | nil => exact .nil
  | cons p _ ih =>
    simp only [Spec.Balance.onKey, Balance.onKey, List.map_cons] at ih ⊢
    refine .cons ?_ ih
    rw [p.rel.key]
    split
    · exact h _ _ p
    · exact p

theorem up_relq (o : O) (e : EP) (h : RelQ o e) :
    RelQ (if o.up = true then o else { o with up := true, gen := o.gen + 1 }) { e with w := e.w.setUp } := by
  obtain ⟨⟨hk, hm, hu, hg, hau, ho, hkl⟩, hl, hgd⟩ := h
  unfold EW.setUp
  rw [hu]
  split
  · exact ⟨⟨hk, hm, hu, hg, hau, ho, hkl⟩, hl, hgd⟩
  · exact ⟨⟨hk, hm, rfl, by simp [hg], fun _ => rfl, ho, hkl⟩, hl, hgd⟩

theorem down_relq (o : O) (e : EP) (h : RelQ o e) :
    RelQ { o with up := false, owes := o.owes || o.member, killed := o.killed || (o.member && o.up) }
      { e with w := e.w.setDown } := by
  obtain ⟨⟨hk, hm, hu, hg, hau, ho, hkl⟩, hl, hgd⟩ := h
  refine ⟨⟨hk, hm, rfl, hg, by simp [EW.setDown], ?_, ?_⟩, hl, hgd⟩
  · intro hme _; simp [hm, show e.member = true from hme]
  · intro hme hd
    have hme' : e.member = true := hme
    simp only [hm, hme', hu, Bool.true_and, Bool.or_eq_true]
    cases hup : e.w.up
    · left
      have hnone : e.w.alive = none := by
        cases ha : e.w.alive with
        | none => rfl
        | some c => have := hau (by simp [ha]); rw [hup] at this; cases this
      apply hkl hme'
      unfold D at hd ⊢
      simp only [EW.setDown] at hd
      rw [hnone]
      exact hd
    · right; rfl

theorem insert_relq (o : O) (e : EP) (h : RelQ o e) :
    RelQ { o with member := true, owes := false, killed := false } (inserted true e) := by
  obtain ⟨⟨hk, hm, hu, hg, hau, ho, hkl⟩, hl, hgd⟩ := h
  refine ⟨⟨hk, rfl, hu, hg, by simp [inserted], ?_, ?_⟩, by simp [Lz, inserted, R.init],
    by simp [Gd, Good, inserted, R.init]⟩
  · intro _ hh; simp [H, inserted, R.init] at hh
  · intro _ hh; simp [D, inserted, R.init] at hh

theorem remove_relq (o : O) (e : EP) (h : RelQ o e) :
    RelQ { o with member := false, owes := false, killed := false } (removed e) := by
  obtain ⟨⟨hk, hm, hu, hg, hau, ho, hkl⟩, hl, hgd⟩ := h
  refine ⟨⟨hk, rfl, hu, hg, by simp [removed], ?_, ?_⟩, by simp [Lz, removed], hgd⟩
  · intro hh; simp [removed] at hh
  · intro hh; simp [removed] at hh

theorem env_relq (s : B) (op : BOp) (hl : s.lazyEps = true) {os : List O} (a : A2 RelQ os s.eps) :
    A2 RelQ (Spec.Balance.env os op) (env s op).eps := by
  cases op with
  | up k => exact (a.ensure k).onKey k _ _ up_relq
  | down k => exact (a.ensure k).onKey k _ _ down_relq
  | insert k => simp only [Spec.Balance.env, env, hl]; exact (a.ensure k).onKey k _ _ insert_relq
  | remove k => exact (a.ensure k).onKey k _ _ remove_relq
  | call => exact a

/-! ### keys stay pairwise different -/

theorem keys_map (f : O → O) (h : ∀ o, (f o).key = o.key) (os : List O) :
    (os.map f).map (·.key) = os.map (·.key) := by
  induction os with
  | nil => rfl
  | cons o os ih => simp only [List.map_cons, h, ih]

theorem keysNodup_map (f : O → O) (h : ∀ o, (f o).key = o.key) {os : List O} (hn : KeysNodup os) :
    KeysNodup (os.map f) := by
  unfold KeysNodup at *; rw [keys_map f h]; exact hn

theorem keysNodup_ensure (k : Nat) {os : List O} (hn : KeysNodup os) : KeysNodup (Spec.Balance.ensure k os) := by
  unfold Spec.Balance.ensure
  split
  · exact hn
  · rename_i hany
    unfold KeysNodup at *
    simp only [List.map_append, List.map_cons, List.map_nil]
    rw [List.nodup_append]
    refine ⟨hn, by simp, ?_⟩
    intro a ha b hb
    simp only [List.mem_singleton] at hb
    subst hb
    intro hab
    apply hany
    simp only [List.any_eq_true, decide_eq_true_eq]
    obtain ⟨o, ho, hk⟩ := List.mem_map.1 ha
    exact ⟨o, ho, by rw [hk, hab]⟩

theorem keysNodup_onKey (k : Nat) (f : O → O) (h : ∀ o, (f o).key = o.key) {os : List O} (hn : KeysNodup os) :
    KeysNodup (Spec.Balance.onKey k f os) :=
  keysNodup_map _ (fun o => by split; exact h o; rfl) hn

theorem keysNodup_env (op : BOp) {os : List O} (hn : KeysNodup os) : KeysNodup (Spec.Balance.env os op) := by
  cases op with
  | up k =>
    simp only [Spec.Balance.env]
    refine keysNodup_onKey k _ ?_ (keysNodup_ensure k hn)
    intro o; split <;> rfl
  | down k =>
    simp only [Spec.Balance.env]
    refine keysNodup_onKey k _ ?_ (keysNodup_ensure k hn)
    intro o; rfl
  | insert k =>
    simp only [Spec.Balance.env]
    refine keysNodup_onKey k _ ?_ (keysNodup_ensure k hn)
    intro o; rfl
  | remove k =>
    simp only [Spec.Balance.env]
    refine keysNodup_onKey k _ ?_ (keysNodup_ensure k hn)
    intro o; rfl
  | call => exact hn

theorem keysNodup_atCall {os : List O} (hn : KeysNodup os) : KeysNodup (Spec.Balance.atCall os) :=
  keysNodup_map _ (fun o => by split <;> rfl) hn

theorem keysNodup_afterCall (res : BObs) {os : List O} (hn : KeysNodup os) :
    KeysNodup (Spec.Balance.afterCall os res) := by
  cases res with
  | resp k g =>
    simp only [Spec.Balance.afterCall]
    refine keysNodup_onKey k _ ?_ hn
    intro o; rfl
  | hang => exact hn
  | garbled => exact hn
  | error c =>
    simp only [Spec.Balance.afterCall]
    split
    · exact keysNodup_map _ (fun o => by split <;> rfl) hn
    · exact hn
  | lost =>
    simp only [Spec.Balance.afterCall]
    split
    · exact keysNodup_map _ (fun o => by split <;> rfl) hn
    · exact hn

/-! ### one call's clauses -/

theorem membersOf_length {P : O → EP → Prop} (hP : ∀ o e, P o e → o.member = e.member) {os : List O}
    {eps : List EP} (a : A2 P os eps) : (Spec.Balance.membersOf os).length = members eps := by
  induction a with
  | nil => rfl
  | cons p _ ih =>
    simp only [Spec.Balance.membersOf, members, List.filter_cons] at ih ⊢
    rw [hP _ _ p]
    split <;> simp [ih]

theorem mem_membersOf {o : O} {os : List O} (h : o ∈ os) (hm : o.member = true) :
    o ∈ Spec.Balance.membersOf os := by
  simp [Spec.Balance.membersOf, h, hm]

theorem obs_hang (r : BRes) : r.obs = .hang ↔ r = .hang := by
  cases r <;> simp [BRes.obs]

theorem callClauses_ok (r : BRes) (os : List O)
    (hhang : r = .hang → Spec.Balance.membersOf os = [])
    (hs : r ≠ .hang → ∃ o ∈ os, resOK o r) :
    (Spec.Balance.callClauses os r.obs).all (·.2) = true := by
  cases r with
  | hang => simp [Spec.Balance.callClauses, BRes.obs, hhang rfl, Spec.Balance.isResp]
  | panic =>
    obtain ⟨o, _, ok⟩ := hs (by simp)
    exact ok.elim
  | resp k g =>
    obtain ⟨o, ho, hk, hm, hu, hg⟩ := hs (by simp)
    have hmem := mem_membersOf ho hm
    simp only [Spec.Balance.callClauses, BRes.obs, Spec.Balance.isResp, List.all_cons, List.all_nil,
      Bool.and_true, Bool.or_true, Bool.true_and]
    simp only [List.any_eq_true, Bool.and_eq_true, beq_iff_eq]
    exact ⟨o, hmem, ⟨hk, hu⟩, hg⟩
  | err k x =>
    obtain ⟨o, ho, hm, hw⟩ := hs (by simp)
    have hmem := mem_membersOf ho hm
    have h1 : (Spec.Balance.membersOf os).any (·.owes) = true := List.any_eq_true.2 ⟨o, hmem, hw⟩
    have h2 : (Spec.Balance.membersOf os).any (fun o => !o.up || o.owes) = true :=
      List.any_eq_true.2 ⟨o, hmem, by simp [hw]⟩
    simp [Spec.Balance.callClauses, BRes.obs, h1, h2]
    decide
  | lost k =>
    obtain ⟨o, ho, hm, hw, hkl⟩ := hs (by simp)
    have hmem := mem_membersOf ho hm
    have h1 : (Spec.Balance.membersOf os).any (·.owes) = true := List.any_eq_true.2 ⟨o, hmem, hw⟩
    have h2 : (Spec.Balance.membersOf os).any (fun o => !o.up || o.owes) = true :=
      List.any_eq_true.2 ⟨o, hmem, by simp [hw]⟩
    have h3 : (Spec.Balance.membersOf os).any (fun o => o.owes && o.killed) = true :=
      List.any_eq_true.2 ⟨o, hmem, by simp [hw, hkl]⟩
    simp [Spec.Balance.callClauses, BRes.obs, h1, h2, h3]

/-! ### whole scripts -/

/-- Every run of the model, under every sequence of choices of the balancer, satisfies every
clause of the oracle. -/
theorem run_spec (ops : List BOp) : ∀ (os : List O) (s : B) (chs : List Choice), s.lazyEps = true →
    A2 RelQ os s.eps → KeysNodup os →
    (Spec.Balance.clauses os ops ((run s ops chs).map fun p => p.2.obs)).all (·.2) = true := by
  induction ops with
  | nil => intro os s chs _ _ _; simp [run, Spec.Balance.clauses]
  | cons op ops ih =>
    intro os s chs hl a hn
    cases op with
    | up k =>
      simp only [run, Spec.Balance.clauses]
      exact ih _ (env s (.up k)) chs (by rw [env_lazyEps]; exact hl) (env_relq s _ hl a) (keysNodup_env _ hn)
    | down k =>
      simp only [run, Spec.Balance.clauses]
      exact ih _ (env s (.down k)) chs (by rw [env_lazyEps]; exact hl) (env_relq s _ hl a) (keysNodup_env _ hn)
    | insert k =>
      simp only [run, Spec.Balance.clauses]
      exact ih _ (env s (.insert k)) chs (by rw [env_lazyEps]; exact hl) (env_relq s _ hl a) (keysNodup_env _ hn)
    | remove k =>
      simp only [run, Spec.Balance.clauses]
      exact ih _ (env s (.remove k)) chs (by rw [env_lazyEps]; exact hl) (env_relq s _ hl a) (keysNodup_env _ hn)
    | call =>
      have ac := atCall_relc a
      have hsv := call_served s (chs.headD ⟨[], 0⟩) ac
      have hlz : ∀ e ∈ s.eps, Lz e := by
        intro e he
        have : ∀ {os : List O} {eps : List EP}, A2 RelQ os eps → ∀ e ∈ eps, Lz e := by
          intro os eps a
          induction a with
          | nil => intro e he; cases he
          | cons p _ ih =>
            intro e he
            rcases List.mem_cons.1 he with rfl | he
            · exact p.lz
            · exact ih e he
        exact this a e he
      have hcnt : (Spec.Balance.membersOf (Spec.Balance.atCall os)).length = members s.eps :=
        membersOf_length (fun _ _ p => p.rel.member) ac
      have hcl : (Spec.Balance.callClauses (Spec.Balance.atCall os) (call s (chs.headD ⟨[], 0⟩)).2.obs).all (·.2) = true := by
        apply callClauses_ok
        · intro hh
          have : members s.eps = 0 := by
            cases hm : members s.eps with
            | zero => rfl
            | succ n =>
              have := call_definite s (chs.headD ⟨[], 0⟩) hlz (by omega)
              rw [hh] at this; cases this
          rw [this] at hcnt
          exact List.eq_nil_of_length_eq_zero hcnt
        · intro hh
          obtain ⟨o, e, m, ok, _⟩ := hsv.2 hh
          exact ⟨o, m.left, ok⟩
      simp only [run, List.map_cons, Spec.Balance.clauses, List.all_append, hcl, Bool.true_and]
      by_cases hh : (call s (chs.headD ⟨[], 0⟩)).2 = .hang
      · simp only [hh, BRes.obs, if_true, List.map_nil, List.isEmpty_nil, List.all_nil]
      · have hobs : ¬ (call s (chs.headD ⟨[], 0⟩)).2.obs = .hang := fun h => hh ((obs_hang _).1 h)
        simp only [hh, hobs, if_false]
        exact ih _ _ _ (by rw [call_lazyEps]; exact hl)
          (afterCall_relq _ hsv.1 hsv.2 (keysNodup_atCall hn))
          (keysNodup_afterCall _ (keysNodup_atCall hn))

theorem run_spec_init (ops : List BOp) (chs : List Choice) :
    Spec.Balance.holds ops ((run (B.init true) ops chs).map fun p => p.2.obs) = true :=
  run_spec ops [] (B.init true) chs rfl .nil (by simp [KeysNodup])

end Balance
