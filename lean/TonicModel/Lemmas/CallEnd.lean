import TonicModel.Lemmas.CallWire
/-
Lemmas for the end-to-end call model (C02), part 3: the two directions end to end —
handler script → `map_response`/`into_http` → server `EncodeBody` → ANY delivery allowed by the
transport relation → `create_response` → `Streaming` → client API result; and symmetrically
caller → client `EncodeBody` → any delivery → `map_request_*` → what the handler is given.
-/
namespace Call
open Framing Spec.Framing
variable {α : Type}

/-- What the theorems ask of a handler script: messages both ends can carry; error statuses
that are errors (code ≠ OK) with a message that is a Rust `String` (valid UTF-8); and no
metadata entry named `grpc-encoding` where it would travel in response *headers* (tonic does not
reserve that name, and the client would take it for the compression announcement). -/
structure ScriptOk (cd : Codec α) (sc : Script α) : Prop where
  msgs : ∀ m ∈ sc.body.msgs, MsgOk cd m
  early : ∀ st, sc.early = some st → st.code ≠ .ok ∧ Utf8.valid st.message = true ∧ noEncodingName st.metadata
  final : ∀ st, sc.final = some st → st.code ≠ .ok ∧ Utf8.valid st.message = true
  initMd : noEncodingName sc.initMd

theorem num_eq_zero (c : Status.Code) : c.num = 0 ↔ c = .ok := by cases c <;> decide

theorem okTrailers_eq (c : Cfg α) (sc : Script α) : trailersOfSt c sc St.okSt = Metadata.okTrailers := by
  simp only [trailersOfSt, St.okSt, toHeaderMap_eq]
  decide

theorem trOf_okTrailers : trOf Metadata.okTrailers = some 0 := by decide

theorem userTrailers_eq (c : Cfg α) (sc : Script α) (st : FSt) (n : Nat) (hf : sc.final = some st) :
    trailersOfSt c sc ⟨n, .user⟩ = Status.wire .fixed st [] := by
  simp [trailersOfSt, hf, toHeaderMap_eq]

theorem encodingCheck_wire (st : FSt) (h0 : HMap) (hmd : noEncodingName st.metadata)
    (h0e : HMap.getAll GRPC_ENCODING h0 = []) : encodingCheck (Status.wire .fixed st h0) = none := by
  apply encodingCheck_none
  rw [Status.getAll_wire]
  have n1 : GRPC_ENCODING ≠ Status.GRPC_STATUS := by decide
  have n2 : GRPC_ENCODING ≠ Status.GRPC_MESSAGE := by decide
  have n3 : GRPC_ENCODING ≠ Status.GRPC_STATUS_DETAILS := by decide
  simp only [n1, n2, n3, if_false, false_and]
  unfold noEncodingName at hmd
  simp [hmd, h0e]

/-- `create_response` on a response that has a body (the handler returned a `Response`) -/
theorem createResponse_body (d : RespDelivery) (md : HMap) (hmd : noEncodingName md)
    (hh : d.headers = Metadata.responseWire md) :
    createResponse d = .ok { enc := none, maxSize := none, dir := .response d.status } := by
  simp [createResponse, hh, encodingCheck_responseWire md hmd, fromHeaderMap_responseWire]

/-- `create_response` on a trailers-only response carrying error status `st` -/
theorem createResponse_trailersOnly (d : RespDelivery) (st : FSt)
    (hcode : st.code ≠ .ok) (hutf : Utf8.valid st.message = true) (hmd : noEncodingName st.metadata)
    (hh : d.headers = (statusIntoHttp st).headers) :
    ∃ st', createResponse d = .error st' ∧ SameStatus st st' := by
  have hw : (statusIntoHttp st).headers = Status.wire .fixed st [(Status.CONTENT_TYPE, Metadata.GRPC_CONTENT_TYPE)] := by
    simp [statusIntoHttp, errorResponseWire_eq]
  obtain ⟨st', hr, hsame⟩ := status_roundtrip st [(Status.CONTENT_TYPE, Metadata.GRPC_CONTENT_TYPE)] hutf
    ct_block (by decide) (by decide)
  refine ⟨st', ?_, hsame⟩
  have hc : st'.code ≠ .ok := by rw [hsame.1]; exact hcode
  have he : encodingCheck (Status.wire .fixed st [(Status.CONTENT_TYPE, Metadata.GRPC_CONTENT_TYPE)]) = none :=
    encodingCheck_wire st [(Status.CONTENT_TYPE, Metadata.GRPC_CONTENT_TYPE)] hmd (by decide)
  simp [createResponse, hh, hw, he, hr, hc]

/-! ### response direction: the client reads the stream -/

/-- Reading a response body to its end, for any delivery of the response the server built from
a `Response`-returning handler: the script's messages, then how the script ended. -/
theorem drain_response (c : Cfg α) (laws : CodecLaws c.cd) (respStream : Bool) (sc : Script α)
    (hearly : sc.early = none) (ok : ScriptOk c.cd sc)
    (n : Nat) (hn : (handlerSrc respStream sc).length + 1 < n)
    (d : RespDelivery) (ht : RespTransports (handlerResponse c n respStream sc) d)
    (hfuel : d.chunks.length + 1 + sc.body.msgs.length < c.fuel) :
    let cfg : DecCfg := { enc := none, maxSize := none, dir := .response d.status }
    d.status = 200 ∧ d.headers = Metadata.responseWire sc.initMd ∧
    d.trailers = some (trailersOfSt c sc (owedOf respStream sc)) ∧
    PhaseOk cfg Dec.init ∧ CleanEvs (respEvs d) = true ∧
    specFrom c.cd cfg Dec.init (accepted cfg (respEvs d)) = (respMsgs respStream sc, .clean) ∧
    endTr Dec.init.trailers (respEvs d) = some (trOf (trailersOfSt c sc (owedOf respStream sc))) ∧
    (respEvs d).length < c.fuel ∧ (respMsgs respStream sc).length < c.fuel := by
  obtain ⟨h1, h2, h3, h4⟩ := handlerResponse_ok c n respStream sc hearly ok.msgs hn
  obtain ⟨t1, t2, t3, t4⟩ := ht
  have hmsgs : ∀ m ∈ respMsgs respStream sc, MsgOk c.cd m := by
    intro m hm
    cases respStream with
    | true => exact ok.msgs m (by simpa [respMsgs] using hm)
    | false => exact ok.msgs m (List.mem_of_mem_take (by simpa [respMsgs] using hm))
  have hlen : (respMsgs respStream sc).length ≤ sc.body.msgs.length := by
    cases respStream <;> simp [respMsgs, List.length_take]; omega
  have htr : d.trailers = some (trailersOfSt c sc (owedOf respStream sc)) := by rw [t4, h4]
  refine ⟨by rw [t1, h1], by rw [t2, h2], htr, by simp [PhaseOk, Dec.init], clean_respEvs d, ?_, ?_, ?_, by omega⟩
  · have h200 : d.status = 200 := by rw [t1, h1]
    rw [accepted_keep (by simp [DecCfg.skipsBody, h200]), dataOf_respEvs, t3, h3]
    exact spec_wire c.cd laws _ _ hmsgs
  · simp only [Dec.init]
    rw [endTr_respEvs, htr]; rfl
  · have := length_respEvs d; omega

theorem take_all {β : Type} (l : List β) (k : Nat) (h : l.length < k) : l.take k = l :=
  List.take_of_length_le (by omega)

/-- **Streaming-response shapes, handler returned a `Response`.** -/
theorem clientStream_sees (c : Cfg α) (laws : CodecLaws c.cd) (sc : Script α)
    (hearly : sc.early = none) (ok : ScriptOk c.cd sc)
    (n : Nat) (hn : (handlerSrc true sc).length + 1 < n)
    (d : RespDelivery) (ht : RespTransports (handlerResponse c n true sc) d)
    (hfuel : d.chunks.length + 1 + sc.body.msgs.length < c.fuel) :
    ∃ ended tr, clientStream c d = .stream (Metadata.responseWire sc.initMd) sc.body.msgs ended tr ∧
      match sc.final with
      | none => ended = none ∧ tr = some Metadata.okTrailers
      | some st => tr = none ∧ ∃ st', ended = some st' ∧
          Status.fromHeaderMap .fixed (Status.wire .fixed st []) = some (.status st') ∧ SameStatus st st' := by
  obtain ⟨hs, hh, htr, hp, hc, hx, he, hl, hm⟩ := drain_response c laws true sc hearly ok n hn d ht hfuel
  have hcr := createResponse_body d sc.initMd ok.initMd hh
  obtain ⟨r1, r2, r3⟩ := readN_end c.cd { enc := none, maxSize := none, dir := .response d.status } c.fuel c.fuel
    Dec.init (respEvs d) (respMsgs true sc) hp hc hx hl
  have hnot : ¬ c.fuel ≤ (respMsgs true sc).length := by omega
  rw [take_all _ _ hm] at r1
  simp only [hnot, ↓reduceIte, he] at r2
  simp only [he] at r3
  simp only [clientStream, hcr, drain]
  generalize readN c.cd { enc := none, maxSize := none, dir := .response d.status } c.fuel c.fuel Dec.init (respEvs d) = r at r1 r2 r3
  obtain ⟨ms, e, s'⟩ := r
  dsimp only at r1 r2 r3
  subst r1
  have hmsgs : respMsgs true sc = sc.body.msgs := rfl
  cases hf : sc.final with
  | none =>
    have howed : owedOf true sc = St.okSt := by simp [owedOf, hf]
    rw [howed, okTrailers_eq, trOf_okTrailers] at r2 r3
    have hend : endOf { enc := none, maxSize := none, dir := .response d.status } (some (some 0)) = .done := by
      simp [endOf, respTr, inferStatus]
    rw [hend] at r2
    subst r2
    have hresp : respTr { enc := none, maxSize := none, dir := .response d.status } (some (some 0)) = none := by
      simp [respTr, inferStatus]
    have hs' := r3 hm hresp
    refine ⟨none, some Metadata.okTrailers, ?_, rfl, rfl⟩
    simp [hs', hh, hmsgs, htr, howed, okTrailers_eq]
  | some st =>
    obtain ⟨hcode, hutf⟩ := ok.final st hf
    have howed : owedOf true sc = ⟨st.code.num, .user⟩ := by simp [owedOf, hf]
    have hT := userTrailers_eq c sc st st.code.num hf
    obtain ⟨st', hr, hsame⟩ := status_roundtrip st [] hutf (fun _ _ => rfl) rfl rfl
    have htrof : trOf (Status.wire .fixed st []) = some st.code.num := by
      simp [trOf, hr, hsame.1]
    have hne : st.code.num ≠ 0 := fun h => hcode ((num_eq_zero _).mp h)
    rw [howed, hT, htrof] at r2
    have hend : endOf { enc := none, maxSize := none, dir := .response d.status } (some (some st.code.num))
        = .err ⟨st.code.num, .user⟩ := by
      simp [endOf, respTr, inferStatus, hne]
    rw [hend] at r2
    subst r2
    refine ⟨some st', none, ?_, rfl, st', rfl, hr, hsame⟩
    have : respErr c.deMsg d ⟨st.code.num, .user⟩ = st' := by
      simp [respErr, htr, howed, hT, hr]
    simp [this, hh, hmsgs]

/-- **Any shape, handler returned `Err(status)`**: a trailers-only response; both client entry
points fail with the handler's status. -/
theorem client_sees_early (c : Cfg α) (respStream : Bool) (sc : Script α) (st : FSt)
    (hearly : sc.early = some st) (ok : ScriptOk c.cd sc) (n : Nat)
    (d : RespDelivery) (ht : RespTransports (handlerResponse c n respStream sc) d) (cliStream : Bool) :
    ∃ st', clientReceive c cliStream d = .err st' ∧ SameStatus st st' := by
  obtain ⟨hcode, hutf, hmd⟩ := ok.early st hearly
  have hh : d.headers = (statusIntoHttp st).headers := by
    rw [ht.2.1]; simp [handlerResponse, hearly]
  obtain ⟨st', hcr, hsame⟩ := createResponse_trailersOnly d st hcode hutf hmd hh
  refine ⟨st', ?_, hsame⟩
  cases cliStream <;> simp [clientReceive, clientStream, clientSingle, hcr]

/-- **Unary-response shapes, handler returned a `Response`.** -/
theorem clientSingle_sees (c : Cfg α) (laws : CodecLaws c.cd) (sc : Script α) (m : α)
    (hearly : sc.early = none) (hone : sc.body.msgs = [m]) (ok : ScriptOk c.cd sc)
    (n : Nat) (hn : (handlerSrc false sc).length + 1 < n)
    (d : RespDelivery) (ht : RespTransports (handlerResponse c n false sc) d)
    (hfuel : d.chunks.length + 1 + sc.body.msgs.length < c.fuel) :
    clientSingle c d = .single (Metadata.clientUnaryMetadata sc.initMd) m := by
  obtain ⟨hs, hh, htr, hp, hc, hx, he, hl, hm⟩ := drain_response c laws false sc hearly ok n hn d ht hfuel
  have hcr := createResponse_body d sc.initMd ok.initMd hh
  have hmsgs : respMsgs false sc = [m] := by simp [respMsgs, hone]
  have howed : owedOf false sc = St.okSt := by simp [owedOf]
  rw [hmsgs] at hx
  rw [howed, okTrailers_eq] at htr he
  rw [trOf_okTrailers] at he
  obtain ⟨hne, hend⟩ := nextItem_end c.cd { enc := none, maxSize := none, dir := .response d.status } c.fuel
    Dec.init (respEvs d) [m] hp hc hx hl
  simp only [clientSingle, hcr]
  generalize nextItem c.cd { enc := none, maxSize := none, dir := .response d.status } c.fuel Dec.init (respEvs d) = r at hne hend
  obtain ⟨s1, evs1, o⟩ := r
  cases o with
  | pending => exact absurd rfl hne
  | none => exact absurd hend.1 (by simp)
  | err e => exact absurd hend.1 (by simp)
  | msg m' =>
    obtain ⟨ms', a1, a2, a3, a4, a5, a6⟩ := hend
    dsimp only at a2 a3 a4 a5 a6
    have hm' : m' = m ∧ ms' = [] := by
      simp only [List.cons.injEq] at a1; exact ⟨a1.1.symm, a1.2.symm⟩
    obtain ⟨rfl, rfl⟩ := hm'
    obtain ⟨r1, r2, r3⟩ := readN_end c.cd { enc := none, maxSize := none, dir := .response d.status } c.fuel c.fuel
      s1 evs1 [] a2 a3 a4 (by omega)
    have hfpos : ¬ c.fuel ≤ ([] : List α).length := by simp; omega
    rw [a5, he] at r2 r3
    have hresp : respTr { enc := none, maxSize := none, dir := .response d.status } (some (some 0)) = none := by
      simp [respTr, inferStatus]
    have hendv : endOf { enc := none, maxSize := none, dir := .response d.status } (some (some 0)) = .done := by
      simp [endOf, hresp]
    simp only [hfpos, ↓reduceIte, hendv] at r2
    have hs2 := r3 (by simp; omega) hresp
    simp only [drain]
    generalize readN c.cd { enc := none, maxSize := none, dir := .response d.status } c.fuel c.fuel s1 evs1 = r at r1 r2 hs2
    obtain ⟨l, e, s2⟩ := r
    dsimp only at r1 r2 hs2
    subst r2
    simp [hs2, htr, hh, Metadata.clientUnaryMetadata]

/-- **A single-response client (`unary` / `client_streaming`) reading what a STREAMING handler produced**:
any number of messages, then an error status in the trailers — the wire shape any gRPC server may answer a
unary call with when it fails after having produced output.  The call fails with that status (read from the
trailers: `body.trailers().await?` drains what is left and must not swallow the error — seed C02f); when no
message preceded it, the response headers are merged into the status' metadata. -/
theorem clientSingle_sees_streamed_error (c : Cfg α) (laws : CodecLaws c.cd) (sc : Script α) (st : FSt)
    (hearly : sc.early = none) (hf : sc.final = some st) (ok : ScriptOk c.cd sc)
    (n : Nat) (hn : (handlerSrc true sc).length + 1 < n)
    (d : RespDelivery) (ht : RespTransports (handlerResponse c n true sc) d)
    (hfuel : d.chunks.length + 1 + sc.body.msgs.length < c.fuel) :
    ∃ st', Status.fromHeaderMap .fixed (Status.wire .fixed st []) = some (.status st') ∧ SameStatus st st' ∧
      clientSingle c d = .err (if sc.body.msgs = [] then
        { st' with metadata := HMap.extend st'.metadata (Metadata.responseWire sc.initMd) } else st') := by
  obtain ⟨hs, hh, htr, hp, hc, hx, he, hl, hm⟩ := drain_response c laws true sc hearly ok n hn d ht hfuel
  have hcr := createResponse_body d sc.initMd ok.initMd hh
  have hmsgs : respMsgs true sc = sc.body.msgs := rfl
  rw [hmsgs] at hx hm
  obtain ⟨hcode, hutf⟩ := ok.final st hf
  have howed : owedOf true sc = ⟨st.code.num, .user⟩ := by simp [owedOf, hf]
  have hT := userTrailers_eq c sc st st.code.num hf
  obtain ⟨st', hr, hsame⟩ := status_roundtrip st [] hutf (fun _ _ => rfl) rfl rfl
  have htrof : trOf (Status.wire .fixed st []) = some st.code.num := by
    simp [trOf, hr, hsame.1]
  have hne : st.code.num ≠ 0 := fun h => hcode ((num_eq_zero _).mp h)
  rw [howed, hT, htrof] at he
  have hresp : respTr { enc := none, maxSize := none, dir := .response d.status } (some (some st.code.num))
      = some ⟨st.code.num, .user⟩ := by
    simp [respTr, inferStatus, hne]
  have hend' : endOf { enc := none, maxSize := none, dir := .response d.status } (some (some st.code.num))
      = .err ⟨st.code.num, .user⟩ := by
    simp [endOf, hresp]
  have hrespErr : respErr c.deMsg d ⟨st.code.num, .user⟩ = st' := by
    simp [respErr, htr, howed, hT, hr]
  refine ⟨st', hr, hsame, ?_⟩
  obtain ⟨hnp, hend⟩ := nextItem_end c.cd { enc := none, maxSize := none, dir := .response d.status } c.fuel
    Dec.init (respEvs d) sc.body.msgs hp hc hx hl
  simp only [clientSingle, hcr]
  generalize nextItem c.cd { enc := none, maxSize := none, dir := .response d.status } c.fuel Dec.init (respEvs d) = r at hnp hend
  obtain ⟨s1, evs1, o⟩ := r
  cases o with
  | pending => exact absurd rfl hnp
  | none =>
    obtain ⟨_, a2, _⟩ := hend
    rw [he, hresp] at a2
    exact absurd a2 (by simp)
  | err e =>
    obtain ⟨a1, a2⟩ := hend
    rw [he, hresp] at a2
    have : e = ⟨st.code.num, .user⟩ := by simpa using a2.symm
    subst this
    simp [a1, hrespErr, hh]
  | msg m' =>
    obtain ⟨ms', a1, a2, a3, a4, a5, a6⟩ := hend
    dsimp only at a2 a3 a4 a5 a6
    obtain ⟨r1, r2, r3⟩ := readN_end c.cd { enc := none, maxSize := none, dir := .response d.status } c.fuel c.fuel
      s1 evs1 ms' a2 a3 a4 (by omega)
    have hlen : ms'.length < c.fuel := by
      have : sc.body.msgs.length = ms'.length + 1 := by rw [a1]; simp
      omega
    have hnot : ¬ c.fuel ≤ ms'.length := by omega
    rw [a5, he] at r2
    simp only [hnot, ↓reduceIte, hend'] at r2
    simp only [drain]
    generalize readN c.cd { enc := none, maxSize := none, dir := .response d.status } c.fuel c.fuel s1 evs1 = r at r1 r2
    obtain ⟨l, e, s2⟩ := r
    dsimp only at r1 r2
    subst r2
    have hnil : sc.body.msgs ≠ [] := by rw [a1]; simp
    simp [hrespErr, hnil]

/-! ### request direction: what the handler is given -/

/-- the request body as the server's decoder meets it, for any delivery of the request -/
theorem request_delivered (c : Cfg α) (laws : CodecLaws c.cd) (r : CallReq α)
    (hm : ∀ m ∈ r.msgs.msgs, MsgOk c.cd m)
    (nc : Nat) (hnc : r.msgs.length + 1 < nc)
    (d : ReqDelivery) (ht : ReqTransports (clientRequest c nc r) d) :
    d.headers = Metadata.requestWire r.md ∧ PhaseOk reqDecCfg Dec.init ∧ CleanEvs (reqEvs d) = true ∧
    specFrom c.cd reqDecCfg Dec.init (accepted reqDecCfg (reqEvs d)) = (r.msgs.msgs, .clean) ∧
    endTr Dec.init.trailers (reqEvs d) = none ∧ (reqEvs d).length = d.chunks.length := by
  obtain ⟨h1, h2, _⟩ := clientRequest_ok c nc r hm hnc
  obtain ⟨t1, t2, _⟩ := ht
  refine ⟨by rw [t1, h1], by simp [PhaseOk, Dec.init], clean_reqEvs d, ?_, endTr_reqEvs d, by simp [reqEvs, length_chunkEvs]⟩
  rw [accepted_keep (by rfl), dataOf_reqEvs, t2, h2]
  exact spec_wire c.cd laws .request _ hm

theorem endOf_request (tr : Option Tr) : endOf reqDecCfg tr = .done := by
  simp [endOf, respTr, reqDecCfg]

/-- **Streaming-request shapes**: the handler is called; its `message()` calls return the
caller's messages in order, then the clean end of the stream. -/
theorem serve_stream_sees (c : Cfg α) (laws : CodecLaws c.cd) (r : CallReq α)
    (hm : ∀ m ∈ r.msgs.msgs, MsgOk c.cd m) (hmd : noEncodingName r.md)
    (nc : Nat) (hnc : r.msgs.length + 1 < nc)
    (d : ReqDelivery) (ht : ReqTransports (clientRequest c nc r) d)
    (hfuel : d.chunks.length < c.fuel)
    (ns : Nat) (respStream : Bool) (sc : Script α) :
    serve c ns true respStream sc d =
      (.stream (Metadata.requestWire r.md) (r.msgs.msgs.take sc.reads)
         (if sc.reads ≤ r.msgs.msgs.length then none else some none),
       handlerResponse c ns respStream sc) := by
  obtain ⟨hh, hp, hc, hx, he, hl⟩ := request_delivered c laws r hm nc hnc d ht
  obtain ⟨r1, r2, _⟩ := readN_end c.cd reqDecCfg c.fuel sc.reads Dec.init (reqEvs d) r.msgs.msgs hp hc hx (by omega)
  simp only [serve, ↓reduceIte, hh, encodingCheck_requestWire r.md hmd]
  generalize readN c.cd reqDecCfg c.fuel sc.reads Dec.init (reqEvs d) = x at r1 r2
  obtain ⟨ms, e, s'⟩ := x
  dsimp only at r1 r2
  subst r1; subst r2
  by_cases hk : sc.reads ≤ r.msgs.msgs.length
  · simp [hk, endedFull]
  · simp [hk, endedFull, endOf_request]

/-- **Unary-request shapes**: the handler is called with the caller's message. -/
theorem serve_unary_sees (c : Cfg α) (laws : CodecLaws c.cd) (r : CallReq α) (m : α)
    (hone : r.msgs.msgs = [m]) (hm : MsgOk c.cd m) (hmd : noEncodingName r.md)
    (nc : Nat) (hnc : r.msgs.length + 1 < nc)
    (d : ReqDelivery) (ht : ReqTransports (clientRequest c nc r) d)
    (hfuel : d.chunks.length < c.fuel)
    (ns : Nat) (respStream : Bool) (sc : Script α) :
    serve c ns false respStream sc d =
      (.unary (Metadata.requestWire r.md) m, handlerResponse c ns respStream sc) := by
  have hms : ∀ m' ∈ r.msgs.msgs, MsgOk c.cd m' := by
    intro m' h; rw [hone] at h; simp at h; rw [h]; exact hm
  obtain ⟨hh, hp, hc, hx, he, hl⟩ := request_delivered c laws r hms nc hnc d ht
  rw [hone] at hx
  obtain ⟨hne, hend⟩ := nextItem_end c.cd reqDecCfg c.fuel Dec.init (reqEvs d) [m] hp hc hx (by omega)
  have hmap : mapRequestUnary c d = .ok (Metadata.requestWire r.md, m) := by
    simp only [mapRequestUnary, hh, encodingCheck_requestWire r.md hmd]
    generalize nextItem c.cd reqDecCfg c.fuel Dec.init (reqEvs d) = x at hne hend
    obtain ⟨s1, evs1, o⟩ := x
    cases o with
    | pending => exact absurd rfl hne
    | none => exact absurd hend.1 (by simp)
    | err e => exact absurd hend.1 (by simp)
    | msg m' =>
      obtain ⟨ms', a1, a2, a3, a4, a5, a6⟩ := hend
      dsimp only at a2 a3 a4 a5 a6
      have hm' : m' = m ∧ ms' = [] := by
        simp only [List.cons.injEq] at a1; exact ⟨a1.1.symm, a1.2.symm⟩
      obtain ⟨rfl, rfl⟩ := hm'
      obtain ⟨_, r2, _⟩ := readN_end c.cd reqDecCfg c.fuel c.fuel s1 evs1 [] a2 a3 a4 (by omega)
      have hfpos : ¬ c.fuel ≤ ([] : List α).length := by simp; omega
      simp only [hfpos, ↓reduceIte, endOf_request] at r2
      simp only [drain]
      generalize readN c.cd reqDecCfg c.fuel c.fuel s1 evs1 = y at r2
      obtain ⟨l, e, s2⟩ := y
      dsimp only at r2
      subst r2
      rfl
  simp [serve, hmap]

/-! ### the projection the framing model works on is faithful -/

/-- HTTP status → code: the framing model's table is the status model's table. -/
theorem http_map (http : Nat) :
    match Status.httpToCode http with
    | none => Framing.inferStatus none http = none ∧ Framing.inferStatus (some none) http = none
    | some c => Framing.inferStatus none http = some ⟨c.num, .http⟩ ∧
        Framing.inferStatus (some none) http = some ⟨c.num, .http⟩ ∧ Status.Code.ofNum c.num = c := by
  unfold Status.httpToCode Framing.inferStatus
  by_cases h1 : http = 400
  · subst h1; simp [Status.Code.num, Status.Code.ofNum]
  by_cases h2 : http = 401
  · subst h2; simp [Status.Code.num, Status.Code.ofNum]
  by_cases h3 : http = 403
  · subst h3; simp [Status.Code.num, Status.Code.ofNum]
  by_cases h4 : http = 404
  · subst h4; simp [Status.Code.num, Status.Code.ofNum]
  by_cases h5 : http = 429 ∨ http = 502 ∨ http = 503 ∨ http = 504
  · have : http ≠ 200 := by omega
    simp [h1, h2, h3, h4, h5, this, Status.Code.num, Status.Code.ofNum]
  by_cases h6 : http = 200
  · subst h6; simp
  · simp [h1, h2, h3, h4, h5, h6, Status.Code.num, Status.Code.ofNum]

/-- **The two views of a response's end agree.**  The call model lets the framing model see a
trailers block as its `grpc-status` code (`trOf`) and turns the framing-level error back into a
full status (`respErr`); this is exactly `infer_grpc_status` on the full trailers: same decision
(finished / error), and the same status. -/
theorem inferStatus_agrees (deMsg : Bytes) (d : RespDelivery) :
    match Status.inferGrpcStatus .fixed d.trailers d.status with
    | .done => Framing.inferStatus (d.trailers.map trOf) d.status = none
    | .noStatus => Framing.inferStatus (d.trailers.map trOf) d.status = none
    | .err st => ∃ e, Framing.inferStatus (d.trailers.map trOf) d.status = some e ∧ respErr deMsg d e = st
    | .panic => False := by
  have hm := http_map d.status
  cases ht : d.trailers with
  | none =>
    simp only [Status.inferGrpcStatus, Option.map_none]
    cases hc : Status.httpToCode d.status with
    | none => rw [hc] at hm; exact hm.1
    | some c =>
      rw [hc] at hm
      exact ⟨_, hm.1, by simp [respErr, mkSt, hm.2.2]⟩
  | some T =>
    simp only [Status.inferGrpcStatus, Option.map_some]
    cases hf : Status.fromHeaderMap .fixed T with
    | none =>
      have : trOf T = none := by simp [trOf, hf]
      rw [this]
      cases hc : Status.httpToCode d.status with
      | none => rw [hc] at hm; exact hm.2
      | some c =>
        rw [hc] at hm
        exact ⟨_, hm.2.1, by simp [respErr, mkSt, hm.2.2]⟩
    | some o =>
      cases o with
      | panic => exact absurd hf (C04.C04_read_total T)
      | status st =>
        have : trOf T = some st.code.num := by simp [trOf, hf]
        rw [this]
        by_cases hok : st.code = .ok
        · simp [hok, Framing.inferStatus, Status.Code.num]
        · have hne : st.code.num ≠ 0 := fun h => hok ((num_eq_zero _).mp h)
          simp only [hok, ↓reduceIte]
          exact ⟨⟨st.code.num, .user⟩, by simp [Framing.inferStatus, hne], by simp [respErr, ht, hf]⟩

end Call
