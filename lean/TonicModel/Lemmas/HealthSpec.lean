import TonicModel.Spec.Health
/-
Lemmas about the C18 oracle alone (`Spec/Health`): how its scans of the log change when one
more event is logged, and that the reference interpreter's own answers satisfy the property's
clauses (`allowed`).  Nothing here mentions the model.
-/
set_option linter.unusedSimpArgs false

namespace Health
open Spec.Health

/-! ### how the oracle's per-stream scans change when one more event is logged -/

theorem closed_cons (n : Name) (e : Ev) (l : Hist) :
    closed n (e :: l) = (decide (e.1 = Op.clear n) || closed n l) := by
  simp [closed]

theorem hasReported_cons (w : Nat) (e : Ev) (l : Hist) :
    hasReported w (e :: l) = (isReport w e || hasReported w l) := by
  simp [hasReported]

theorem latest_cons_closed {n : Name} {l : Hist} (h : closed n l = true) (s0 : St) (e : Ev) :
    latest n s0 (e :: l) = latest n s0 l := by
  simp [latest, h]

theorem latest_cons_set {n : Name} {l : Hist} (h : closed n l = false) (s0 s : St) (r : Resp) :
    latest n s0 ((Op.set n s, r) :: l) = s := by
  simp [latest, h]

theorem latest_cons_other {n : Name} (s0 : St) (e : Ev) (l : Hist)
    (h : ∀ s, e.1 ≠ Op.set n s) : latest n s0 (e :: l) = latest n s0 l := by
  obtain ⟨op, r⟩ := e
  cases op <;> simp [latest]
  case set m s =>
    intro _ hm; exact absurd (by rw [hm]) (h s)

theorem fresh_cons_report {w : Nat} {e : Ev} (h : isReport w e = true) (n : Name) (l : Hist) :
    fresh n w (e :: l) = false := by
  simp [fresh, h]

theorem fresh_cons_set_closed {n : Name} {l : Hist} (h : closed n l = true) (w : Nat) (m : Name)
    (s : St) (r : Resp) : fresh n w ((Op.set m s, r) :: l) = fresh n w l := by
  simp [fresh, isReport, h]

theorem fresh_cons_set_open {n : Name} {l : Hist} (h : closed n l = false) (w : Nat)
    (s : St) (r : Resp) : fresh n w ((Op.set n s, r) :: l) = true := by
  simp [fresh, isReport, h]

theorem fresh_cons_other {n : Name} {w : Nat} {e : Ev} (l : Hist) (hr : isReport w e = false)
    (h : ∀ s, e.1 ≠ Op.set n s) : fresh n w (e :: l) = fresh n w l := by
  obtain ⟨op, r⟩ := e
  cases op <;> simp [fresh, hr]
  case set m s =>
    intro hm; exact absurd (by rw [hm]) (h s)

theorem isReport_of_not_next {w : Nat} {e : Ev} (h : ∀ w', e.1 ≠ Op.next w') : isReport w e = false := by
  obtain ⟨op, r⟩ := e
  cases op <;> simp [isReport]
  case next w' => exact absurd rfl (h w')

theorem view_cons_plain {e : Ev} (h : Hist) (w : Nat)
    (hw : ∀ n, e.1 ≠ Op.watch n) (hd : ∀ w', e.1 ≠ Op.drop w') :
    view (e :: h) w = (view h w).map (·.push e) := by
  obtain ⟨op, r⟩ := e
  cases op <;> simp [view]
  case watch n => exact absurd rfl (hw n)
  case drop w' => exact absurd rfl (hd w')

theorem current_cons_set (h : Hist) (n m : Name) (st : St) (r : Resp) :
    current ((Op.set n st, r) :: h) m = if n = m then some st else current h m := by
  simp [current]

theorem current_cons_clear (h : Hist) (n m : Name) (r : Resp) :
    current ((Op.clear n, r) :: h) m = if n = m then none else current h m := by
  simp [current]

theorem current_cons_other (h : Hist) (e : Ev) (m : Name)
    (hs : ∀ n s, e.1 ≠ Op.set n s) (hc : ∀ n, e.1 ≠ Op.clear n) :
    current (e :: h) m = current h m := by
  obtain ⟨op, r⟩ := e
  cases op <;> simp [current]
  case set n s => exact absurd rfl (hs n s)
  case clear n => exact absurd rfl (hc n)

theorem numWatches_cons_other (h : Hist) (e : Ev) (hw : ∀ n, e.1 ≠ Op.watch n) :
    numWatches (e :: h) = numWatches h := by
  obtain ⟨op, r⟩ := e
  cases op <;> simp [numWatches]
  case watch n => exact absurd rfl (hw n)

theorem view_cons_watch (h : Hist) (n : Name) (r : Resp) (w : Nat) :
    view ((Op.watch n, r) :: h) w =
      if numWatches h = w then (current h n).map (fun s0 => ⟨n, s0, []⟩)
      else (view h w).map (·.push (Op.watch n, r)) := by
  simp [view]

theorem view_cons_drop (h : Hist) (w' : Nat) (r : Resp) (w : Nat) :
    view ((Op.drop w', r) :: h) w =
      if w' = w then none else (view h w).map (·.push (Op.drop w', r)) := by
  simp [view]

theorem isReport_next_ne {w w' : Nat} (h : w ≠ w') (r : Resp) : isReport w' (Op.next w, r) = false := by
  cases r <;> simp [isReport, h]

/-! ### the reference interpreter's answers satisfy the property's clauses -/

/-- Every logged answer is the reference answer given the log before it. -/
def wellLogged : Hist → Prop
  | [] => True
  | e :: h => e.2 = expected h e.1 ∧ wellLogged h

theorem wellLogged_log (h : Hist) (ops : List Op) (hw : wellLogged h) : wellLogged (log h ops) := by
  induction ops generalizing h with
  | nil => exact hw
  | cons op ops ih => exact ih _ ⟨rfl, hw⟩

/-- Within a stream's events, every poll of that stream got the reference answer. -/
def evsOK (n : Name) (s0 : St) (w : Nat) : Hist → Prop
  | [] => True
  | e :: l => (∀ r, e = (Op.next w, r) → r = expectedNext ⟨n, s0, l⟩ w) ∧ evsOK n s0 w l

theorem isReport_iff {w : Nat} {e : Ev} : isReport w e = true ↔ ∃ s, e = (Op.next w, Resp.value s) := by
  obtain ⟨op, r⟩ := e
  constructor
  · intro h
    cases op <;> cases r <;> simp [isReport] at h
    case next.value w' s => subst h; exact ⟨s, rfl⟩
  · rintro ⟨s, hs⟩; cases hs; simp [isReport]

theorem lastReported_cons_report (w : Nat) (s : St) (l : Hist) :
    lastReported w ((Op.next w, Resp.value s) :: l) = some s := by
  simp [lastReported]

theorem lastReported_cons_other {w : Nat} {e : Ev} (h : isReport w e = false) (l : Hist) :
    lastReported w (e :: l) = lastReported w l := by
  obtain ⟨op, r⟩ := e
  cases op <;> cases r <;> simp [lastReported]
  case next.value w' s =>
    intro hw; subst hw; simp [isReport] at h

theorem expectedNext_value {v : View} {w : Nat} {s : St} (h : expectedNext v w = .value s) :
    s = latest v.name v.start v.evs := by
  unfold expectedNext at h
  split at h
  · cases h; rfl
  · split at h <;> cases h

/-- A stream whose every poll got the reference answer, that has delivered something and has
seen no update since, has delivered the latest status. -/
theorem upToDate_of_evsOK (n : Name) (s0 : St) (w : Nat) (l : Hist) (hok : evsOK n s0 w l)
    (hrep : hasReported w l = true) (hfresh : fresh n w l = false) :
    lastReported w l = some (latest n s0 l) := by
  induction l with
  | nil => simp [hasReported] at hrep
  | cons e l ih =>
    obtain ⟨hhead, htail⟩ := hok
    cases hr : isReport w e with
    | true =>
      obtain ⟨s, rfl⟩ := isReport_iff.mp hr
      have : s = latest n s0 l := expectedNext_value (v := ⟨n, s0, l⟩) (hhead _ rfl).symm
      rw [lastReported_cons_report, latest_cons_other _ _ _ (by simp), this]
    | false =>
      rw [hasReported_cons, hr] at hrep
      simp only [Bool.false_or] at hrep
      rw [lastReported_cons_other hr]
      obtain ⟨op, r⟩ := e
      by_cases hset : ∃ st, op = Op.set n st
      · obtain ⟨st, rfl⟩ := hset
        cases hcl : closed n l with
        | false => rw [fresh_cons_set_open hcl] at hfresh; cases hfresh
        | true =>
          rw [fresh_cons_set_closed hcl] at hfresh
          rw [latest_cons_closed hcl]
          exact ih htail hrep hfresh
      · have hns : ∀ st, (op, r).1 ≠ Op.set n st := fun st e => hset ⟨st, e⟩
        rw [fresh_cons_other _ hr hns] at hfresh
        rw [latest_cons_other _ _ _ hns]
        exact ih htail hrep hfresh

theorem view_evsOK (h : Hist) (hw : wellLogged h) (w : Nat) (v : View) (hv : view h w = some v) :
    evsOK v.name v.start w v.evs := by
  induction h generalizing v with
  | nil => simp [view] at hv
  | cons e h ih =>
    obtain ⟨hans, hw'⟩ := hw
    obtain ⟨op, r⟩ := e
    -- the pushed case, common to all operations
    have pushed : ∀ v', view h w = some v' → v = v'.push (op, r) →
        (∀ r', (op, r) = (Op.next w, r') → r' = expectedNext v' w) →
        evsOK v.name v.start w v.evs := by
      intro v' hv' hvv hhead
      subst hvv
      exact ⟨fun r' e => hhead r' e, ih hw' v' hv'⟩
    have headNot : (∀ w', op ≠ Op.next w') → ∀ (v' : View) r', (op, r) = (Op.next w, r') → r' = expectedNext v' w := by
      intro hne v' r' e; cases e; exact absurd rfl (hne w)
    cases op with
    | watch n =>
      rw [view_cons_watch] at hv
      split at hv
      · cases hc : current h n with
        | none => simp [hc] at hv
        | some s0 => simp [hc] at hv; subst hv; trivial
      · cases hv' : view h w with
        | none => simp [hv'] at hv
        | some v' =>
          simp [hv'] at hv
          exact pushed v' hv' hv.symm (headNot (by simp) v')
    | drop w' =>
      rw [view_cons_drop] at hv
      split at hv
      · cases hv
      · cases hv' : view h w with
        | none => simp [hv'] at hv
        | some v' =>
          simp [hv'] at hv
          exact pushed v' hv' hv.symm (headNot (by simp) v')
    | next w' =>
      rw [view_cons_plain _ _ (by simp) (by simp)] at hv
      cases hv' : view h w with
      | none => simp [hv'] at hv
      | some v' =>
        simp [hv'] at hv
        refine pushed v' hv' hv.symm ?_
        intro r' e
        cases e
        simp only at hans
        rw [hans]; simp [expected, hv']
    | set n st =>
      rw [view_cons_plain _ _ (by simp) (by simp)] at hv
      cases hv' : view h w with
      | none => simp [hv'] at hv
      | some v' => simp [hv'] at hv; exact pushed v' hv' hv.symm (headNot (by simp) v')
    | clear n =>
      rw [view_cons_plain _ _ (by simp) (by simp)] at hv
      cases hv' : view h w with
      | none => simp [hv'] at hv
      | some v' => simp [hv'] at hv; exact pushed v' hv' hv.symm (headNot (by simp) v')
    | check n =>
      rw [view_cons_plain _ _ (by simp) (by simp)] at hv
      cases hv' : view h w with
      | none => simp [hv'] at hv
      | some v' => simp [hv'] at hv; exact pushed v' hv' hv.symm (headNot (by simp) v')

theorem latest_mem_statuses (n : Name) (s0 : St) (l : Hist) : latest n s0 l ∈ statuses n s0 l := by
  induction l with
  | nil => simp [latest, statuses]
  | cons e l ih =>
    obtain ⟨op, r⟩ := e
    cases hcl : closed n l with
    | true => simp [latest, statuses, hcl]; exact ih
    | false =>
      cases op <;> simp [latest, statuses, hcl] <;> try exact ih
      case set m st =>
        by_cases hm : m = n
        · simp [hm]
        · simp [hm]; exact ih

/-- The reference answer passes the property's clauses (given a log of reference answers). -/
theorem allowed_expected (h : Hist) (hw : wellLogged h) (op : Op) : allowed h op (expected h op) = true := by
  cases op with
  | set n st => simp [allowed, clauses, expected]
  | clear n => simp [allowed, clauses, expected]
  | check n => simp [allowed, clauses, expected]
  | watch n => simp [allowed, clauses, expected]
  | drop w => simp [allowed, clauses, expected]
  | next w =>
    cases hv : view h w with
    | none => simp [allowed, clauses, expected, hv]
    | some v =>
      have hok := view_evsOK h hw w v hv
      simp only [allowed, clauses, expected, hv, expectedNext]
      cases hrep : hasReported w v.evs with
      | false => simp [latest_mem_statuses]
      | true =>
        cases hf : fresh v.name w v.evs with
        | true => simp [latest_mem_statuses]
        | false =>
          have hup := upToDate_of_evsOK v.name v.start w v.evs hok hrep hf
          cases hcl : closed v.name v.evs <;> simp [upToDate, hup]

theorem allowedTrace_run (h : Hist) (hw : wellLogged h) (ops : List Op) :
    allowedTrace h (ops.zip (run h ops)) = true := by
  induction ops generalizing h with
  | nil => rfl
  | cons op ops ih =>
    simp only [run, List.zip_cons_cons, allowedTrace, allowed_expected h hw op, Bool.true_and]
    exact ih _ ⟨rfl, hw⟩

end Health
