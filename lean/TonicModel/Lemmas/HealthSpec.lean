import TonicModel.Spec.Health
/-
Lemmas about the C18 oracle alone (`Spec/Health`): how its scans of the log change when one
more event is logged, and that the reference interpreter's own answers satisfy the property's
clauses (`allowed`).  Nothing here mentions the model.
-/
set_option linter.unusedSimpArgs false

namespace Health
open Spec.Health

/-! ### how the oracle's per-stream scans change when one more event is logged -/

theorem closed_cons (n : Name) (e : Ev) (l : Hist) :
    closed n (e :: l) = (decide (e.1 = Op.clear n) || closed n l) := by
  simp [closed]

theorem hasReported_cons (w : Nat) (e : Ev) (l : Hist) :
    hasReported w (e :: l) = (isReport w e || hasReported w l) := by
  simp [hasReported]

theorem latest_cons_closed {n : Name} {l : Hist} (h : closed n l = true) (s0 : St) (e : Ev) :
    latest n s0 (e :: l) = latest n s0 l := by
  simp [latest, h]

theorem latest_cons_set {n : Name} {l : Hist} (h : closed n l = false) (s0 s : St) (r : Resp) :
    latest n s0 ((Op.set n s, r) :: l) = s := by
  simp [latest, h]

theorem latest_cons_other {n : Name} (s0 : St) (e : Ev) (l : Hist)
    (h : ∀ s, e.1 ≠ Op.set n s) : latest n s0 (e :: l) = latest n s0 l := by
  obtain ⟨op, r⟩ := e
  cases op <;> simp [latest]
  case set m s =>
    intro _ hm; exact absurd (by rw [hm]) (h s)

theorem fresh_cons_report {w : Nat} {e : Ev} (h : isReport w e = true) (n : Name) (l : Hist) :
    fresh n w (e :: l) = false := by
  simp [fresh, h]

theorem fresh_cons_set_closed {n : Name} {l : Hist} (h : closed n l = true) (w : Nat) (m : Name)
    (s : St) (r : Resp) : fresh n w ((Op.set m s, r) :: l) = fresh n w l := by
  simp [fresh, isReport, h]

theorem fresh_cons_set_open {n : Name} {l : Hist} (h : closed n l = false) (w : Nat)
    (s : St) (r : Resp) : fresh n w ((Op.set n s, r) :: l) = true := by
  simp [fresh, isReport, h]

theorem fresh_cons_other {n : Name} {w : Nat} {e : Ev} (l : Hist) (hr : isReport w e = false)
    (h : ∀ s, e.1 ≠ Op.set n s) : fresh n w (e :: l) = fresh n w l := by
  obtain ⟨op, r⟩ := e
  cases op <;> simp [fresh, hr]
  case set m s =>
    intro hm; exact absurd (by rw [hm]) (h s)

theorem isReport_of_not_next {w : Nat} {e : Ev} (h : ∀ w', e.1 ≠ Op.next w') : isReport w e = false := by
  obtain ⟨op, r⟩ := e
  cases op <;> simp [isReport]
  case next w' => exact absurd rfl (h w')

theorem view_cons_plain {e : Ev} (h : Hist) (w : Nat)
    (hw : ∀ n, e.1 ≠ Op.watch n) (hd : ∀ w', e.1 ≠ Op.drop w') :
    view (e :: h) w = (view h w).map (·.push e) := by
  obtain ⟨op, r⟩ := e
  cases op <;> simp [view]
  case watch n => exact absurd rfl (hw n)
  case drop w' => exact absurd rfl (hd w')

theorem current_cons_set (h : Hist) (n m : Name) (st : St) (r : Resp) :
    current ((Op.set n st, r) :: h) m = if n = m then some st else current h m := by
  simp [current]

theorem current_cons_clear (h : Hist) (n m : Name) (r : Resp) :
    current ((Op.clear n, r) :: h) m = if n = m then none else current h m := by
  simp [current]

theorem current_cons_other (h : Hist) (e : Ev) (m : Name)
    (hs : ∀ n s, e.1 ≠ Op.set n s) (hc : ∀ n, e.1 ≠ Op.clear n) :
    current (e :: h) m = current h m := by
  obtain ⟨op, r⟩ := e
  cases op <;> simp [current]
  case set n s => exact absurd rfl (hs n s)
  case clear n => exact absurd rfl (hc n)

theorem numWatches_cons_other (h : Hist) (e : Ev) (hw : ∀ n, e.1 ≠ Op.watch n) :
    numWatches (e :: h) = numWatches h := by
  obtain ⟨op, r⟩ := e
  cases op <;> simp [numWatches]
  case watch n => exact absurd rfl (hw n)

theorem view_cons_watch (h : Hist) (n : Name) (r : Resp) (w : Nat) :
    view ((Op.watch n, r) :: h) w =
      if numWatches h = w then (current h n).map (fun s0 => ⟨n, s0, []⟩)
      else (view h w).map (·.push (Op.watch n, r)) := by
  simp [view]

theorem view_cons_drop (h : Hist) (w' : Nat) (r : Resp) (w : Nat) :
    view ((Op.drop w', r) :: h) w =
      if w' = w then none else (view h w).map (·.push (Op.drop w', r)) := by
  simp [view]

theorem isReport_next_ne {w w' : Nat} (h : w ≠ w') (r : Resp) : isReport w' (Op.next w, r) = false := by
  cases r <;> simp [isReport, h]

/-! ### the reference interpreter's answers satisfy the property's clauses -/

/-- Every logged answer is the reference answer given the log before it. -/
def wellLogged : Hist → Prop
  | [] => True
  | e :: h => e.2 = expected h e.1 ∧ wellLogged h

theorem wellLogged_log (h : Hist) (ops : List Op) (hw : wellLogged h) : wellLogged (log h ops) := by
  induction ops generalizing h with
  | nil => exact hw
  | cons op ops ih => exact ih _ ⟨rfl, hw⟩

/-- Within a stream's events, every poll of that stream got the reference answer. -/
def evsOK (n : Name) (s0 : St) (w : Nat) : Hist → Prop
  | [] => True
  | e :: l => (∀ r, e = (Op.next w, r) → r = expectedNext ⟨n, s0, l⟩ w) ∧ evsOK n s0 w l

theorem isReport_iff {w : Nat} {e : Ev} : isReport w e = true ↔ ∃ s, e = (Op.next w, Resp.value s) := by
  obtain ⟨op, r⟩ := e
  constructor
  · intro h
    cases op <;> cases r <;> simp [isReport] at h
    case next.value w' s => subst h; exact ⟨s, rfl⟩
  · rintro ⟨s, hs⟩; cases hs; simp [isReport]

theorem lastReported_cons_report (w : Nat) (s : St) (l : Hist) :
    lastReported w ((Op.next w, Resp.value s) :: l) = some s := by
  simp [lastReported]

theorem lastReported_cons_other {w : Nat} {e : Ev} (h : isReport w e = false) (l : Hist) :
    lastReported w (e :: l) = lastReported w l := by
  obtain ⟨op, r⟩ := e
  cases op <;> cases r <;> simp [lastReported]
  case next.value w' s =>
    intro hw; subst hw; simp [isReport] at h

theorem expectedNext_value {v : View} {w : Nat} {s : St} (h : expectedNext v w = .value s) :
    s = latest v.name v.start v.evs := by
  unfold expectedNext at h
  split at h
  · cases h; rfl
  · split at h <;> cases h

/-- A stream whose every poll got the reference answer, that has delivered something and has
seen no update since, has delivered the latest status. -/
theorem upToDate_of_evsOK (n : Name) (s0 : St) (w : Nat) (l : Hist) (hok : evsOK n s0 w l)
    (hrep : hasReported w l = true) (hfresh : fresh n w l = false) :
    lastReported w l = some (latest n s0 l) := by
  induction l with
  | nil => simp [hasReported] at hrep
  | cons e l ih =>
    obtain ⟨hhead, htail⟩ := hok
    cases hr : isReport w e with
    | true =>
      obtain ⟨s, rfl⟩ := isReport_iff.mp hr
      have : s = latest n s0 l := expectedNext_value (v := ⟨n, s0, l⟩) (hhead _ rfl).symm
      rw [lastReported_cons_report, latest_cons_other _ _ _ (by simp), this]
    | false =>
      rw [hasReported_cons, hr] at hrep
      simp only [Bool.false_or] at hrep
      rw [lastReported_cons_other hr]
      obtain ⟨op, r⟩ := e
      by_cases hset : ∃ st, op = Op.set n st
      · obtain ⟨st, rfl⟩ := hset
        cases hcl : closed n l with
        | false => rw [fresh_cons_set_open hcl] at hfresh; cases hfresh
        | true =>
          rw [fresh_cons_set_closed hcl] at hfresh
          rw [latest_cons_closed hcl]
          exact ih htail hrep hfresh
      · have hns : ∀ st, (op, r).1 ≠ Op.set n st := fun st e => hset ⟨st, e⟩
        rw [fresh_cons_other _ hr hns] at hfresh
        rw [latest_cons_other _ _ _ hns]
        exact ih htail hrep hfresh

theorem view_evsOK (h : Hist) (hw : wellLogged h) (w : Nat) (v : View) (hv : view h w = some v) :
    evsOK v.name v.start w v.evs := by
  induction h generalizing v with
  | nil => simp [view] at hv
  | cons e h ih =>
    obtain ⟨hans, hw'⟩ := hw
    obtain ⟨op, r⟩ := e
    -- the pushed case, common to all operations
    have pushed : ∀ v', view h w = some v' → v = v'.push (op, r) →
        (∀ r', (op, r) = (Op.next w, r') → r' = expectedNext v' w) →
        evsOK v.name v.start w v.evs := by
      intro v' hv' hvv hhead
      subst hvv
      exact ⟨fun r' e => hhead r' e, ih hw' v' hv'⟩
    have headNot : (∀ w', op ≠ Op.next w') → ∀ (v' : View) r', (op, r) = (Op.next w, r') → r' = expectedNext v' w := by
      intro hne v' r' e; cases e; exact absurd rfl (hne w)
    cases op with
    | watch n =>
      rw [view_cons_watch] at hv
      split at hv
      · cases hc : current h n with
        | none => simp [hc] at hv
        | some s0 => simp [hc] at hv; subst hv; trivial
      · cases hv' : view h w with
        | none => simp [hv'] at hv
        | some v' =>
          simp [hv'] at hv
          exact pushed v' hv' hv.symm (headNot (by simp) v')
    | drop w' =>
      rw [view_cons_drop] at hv
      split at hv
      · cases hv
      · cases hv' : view h w with
        | none => simp [hv'] at hv
        | some v' =>
          simp [hv'] at hv
          exact pushed v' hv' hv.symm (headNot (by simp) v')
    | next w' =>
      rw [view_cons_plain _ _ (by simp) (by simp)] at hv
      cases hv' : view h w with
      | none => simp [hv'] at hv
      | some v' =>
        simp [hv'] at hv
        refine pushed v' hv' hv.symm ?_
        intro r' e
        cases e
        simp only at hans
        rw [hans]; simp [expected, hv']
    | set n st =>
      rw [view_cons_plain _ _ (by simp) (by simp)] at hv
      cases hv' : view h w with
      | none => simp [hv'] at hv
      | some v' => simp [hv'] at hv; exact pushed v' hv' hv.symm (headNot (by simp) v')
    | clear n =>
      rw [view_cons_plain _ _ (by simp) (by simp)] at hv
      cases hv' : view h w with
      | none => simp [hv'] at hv
      | some v' => simp [hv'] at hv; exact pushed v' hv' hv.symm (headNot (by simp) v')
    | check n =>
      rw [view_cons_plain _ _ (by simp) (by simp)] at hv
      cases hv' : view h w with
      | none => simp [hv'] at hv
      | some v' => simp [hv'] at hv; exact pushed v' hv' hv.symm (headNot (by simp) v')

theorem latest_mem_statuses (n : Name) (s0 : St) (l : Hist) : latest n s0 l ∈ statuses n s0 l := by
  induction l with
  | nil => simp [latest, statuses]
  | cons e l ih =>
    obtain ⟨op, r⟩ := e
    cases hcl : closed n l with
    | true => simp [latest, statuses, hcl]; exact ih
    | false =>
      cases op <;> simp [latest, statuses, hcl] <;> try exact ih
      case set m st =>
        by_cases hm : m = n
        · simp [hm]
        · simp [hm]; exact ih

/-- The reference answer passes the property's clauses (given a log of reference answers). -/
theorem allowed_expected (h : Hist) (hw : wellLogged h) (op : Op) : allowed h op (expected h op) = true := by
  cases op with
  | set n st => simp [allowed, clauses, expected]
  | clear n => simp [allowed, clauses, expected]
  | check n => simp [allowed, clauses, expected]
  | watch n => simp [allowed, clauses, expected]
  | drop w => simp [allowed, clauses, expected]
  | next w =>
    cases hv : view h w with
    | none => simp [allowed, clauses, expected, hv]
    | some v =>
      have hok := view_evsOK h hw w v hv
      simp only [allowed, clauses, expected, hv, expectedNext]
      cases hrep : hasReported w v.evs with
      | false => simp [latest_mem_statuses]
      | true =>
        cases hf : fresh v.name w v.evs with
        | true => simp [latest_mem_statuses]
        | false =>
          have hup := upToDate_of_evsOK v.name v.start w v.evs hok hrep hf
          cases hcl : closed v.name v.evs <;> simp [upToDate, hup]

theorem allowedTrace_run (h : Hist) (hw : wellLogged h) (ops : List Op) :
    allowedTrace h (ops.zip (run h ops)) = true := by
  induction ops generalizing h with
  | nil => rfl
  | cons op ops ih =>
    simp only [run, List.zip_cons_cons, allowedTrace, allowed_expected h hw op, Bool.true_and]
    exact ih _ ⟨rfl, hw⟩

/-! ### what a view is, and how it grows -/

theorem view_lt {h : Hist} {w : Nat} {v : View} (hv : view h w = some v) : w < numWatches h := by
  induction h generalizing v with
  | nil => simp [view] at hv
  | cons e h ih =>
    obtain ⟨op, r⟩ := e
    have plain : (∀ n, op ≠ Op.watch n) → (∀ w', op ≠ Op.drop w') → w < numWatches ((op, r) :: h) := by
      intro h1 h2
      rw [view_cons_plain _ _ (by simpa using h1) (by simpa using h2)] at hv
      rw [numWatches_cons_other _ _ (by simpa using h1)]
      cases hv' : view h w with
      | none => simp [hv'] at hv
      | some v' => exact ih hv'
    cases op with
    | watch n =>
      rw [view_cons_watch] at hv
      simp only [numWatches]
      split at hv
      · omega
      · cases hv' : view h w with
        | none => simp [hv'] at hv
        | some v' => have := ih hv'; omega
    | drop w' =>
      rw [view_cons_drop] at hv
      rw [numWatches_cons_other _ _ (by simp)]
      split at hv
      · cases hv
      · cases hv' : view h w with
        | none => simp [hv'] at hv
        | some v' => exact ih hv'
    | set n st => exact plain (by simp) (by simp)
    | clear n => exact plain (by simp) (by simp)
    | check n => exact plain (by simp) (by simp)
    | next w' => exact plain (by simp) (by simp)

/-- Logging anything but the drop of stream `w` appends the event to `w`'s view. -/
theorem view_push {h : Hist} {w : Nat} {v : View} (hv : view h w = some v) (e : Ev)
    (hd : e.1 ≠ Op.drop w) : view (e :: h) w = some (v.push e) := by
  obtain ⟨op, r⟩ := e
  have hlt := view_lt hv
  cases op with
  | watch n => rw [view_cons_watch, if_neg (by omega), hv]; rfl
  | drop w' =>
    rw [view_cons_drop, if_neg (by intro e; subst e; exact hd rfl), hv]; rfl
  | set n st => rw [view_cons_plain _ _ (by simp) (by simp), hv]; rfl
  | clear n => rw [view_cons_plain _ _ (by simp) (by simp), hv]; rfl
  | check n => rw [view_cons_plain _ _ (by simp) (by simp), hv]; rfl
  | next w' => rw [view_cons_plain _ _ (by simp) (by simp), hv]; rfl

/-- A view of a non-empty log is either freshly opened by the newest event or the older view
with the newest event appended. -/
theorem view_cons_cases {e : Ev} {h : Hist} {w : Nat} {v : View} (hv : view (e :: h) w = some v) :
    (∃ n s0, e.1 = Op.watch n ∧ numWatches h = w ∧ current h n = some s0 ∧ v = ⟨n, s0, []⟩) ∨
    (∃ v', view h w = some v' ∧ v = v'.push e ∧ e.1 ≠ Op.drop w) := by
  obtain ⟨op, r⟩ := e
  have plain : (∀ n, op ≠ Op.watch n) → (∀ w', op ≠ Op.drop w') →
      ∃ v', view h w = some v' ∧ v = v'.push (op, r) ∧ (op, r).1 ≠ Op.drop w := by
    intro h1 h2
    rw [view_cons_plain _ _ (by simpa using h1) (by simpa using h2)] at hv
    cases hv' : view h w with
    | none => simp [hv'] at hv
    | some v' => simp [hv'] at hv; exact ⟨v', rfl, hv.symm, h2 w⟩
  cases op with
  | watch n =>
    rw [view_cons_watch] at hv
    split at hv
    · next hw =>
      cases hc : current h n with
      | none => simp [hc] at hv
      | some s0 => simp [hc] at hv; exact Or.inl ⟨n, s0, rfl, hw, hc, hv.symm⟩
    · cases hv' : view h w with
      | none => simp [hv'] at hv
      | some v' => simp [hv'] at hv; exact Or.inr ⟨v', rfl, hv.symm, by simp⟩
  | drop w' =>
    rw [view_cons_drop] at hv
    split at hv
    · cases hv
    · next hne =>
      cases hv' : view h w with
      | none => simp [hv'] at hv
      | some v' =>
        simp [hv'] at hv
        exact Or.inr ⟨v', rfl, hv.symm, by intro e; cases e; exact hne rfl⟩
  | set n st => exact Or.inr (plain (by simp) (by simp))
  | clear n => exact Or.inr (plain (by simp) (by simp))
  | check n => exact Or.inr (plain (by simp) (by simp))
  | next w' => exact Or.inr (plain (by simp) (by simp))

/-- What a view is: the log splits into the stream's events, the Watch call that opened slot
`w`, and the history before it, in which the name had the status `start`. -/
theorem view_sound {h : Hist} {w : Nat} {v : View} (hv : view h w = some v) :
    ∃ h0 r, h = v.evs ++ (Op.watch v.name, r) :: h0 ∧ current h0 v.name = some v.start ∧
      numWatches h0 = w := by
  induction h generalizing v with
  | nil => simp [view] at hv
  | cons e h ih =>
    rcases view_cons_cases hv with ⟨n, s0, he, hw, hc, rfl⟩ | ⟨v', hv', rfl, _⟩
    · obtain ⟨op, r⟩ := e
      simp only at he; subst he
      exact ⟨h, r, rfl, hc, hw⟩
    · obtain ⟨h0, r, hh, hc, hw⟩ := ih hv'
      exact ⟨h0, r, by simp [View.push, hh], hc, hw⟩

/-- While its name has not been cleared, a stream's latest status is the name's status. -/
theorem view_latest_current {h : Hist} {w : Nat} {v : View} (hv : view h w = some v)
    (hopen : closed v.name v.evs = false) :
    current h v.name = some (latest v.name v.start v.evs) := by
  induction h generalizing v with
  | nil => simp [view] at hv
  | cons e h ih =>
    rcases view_cons_cases hv with ⟨n, s0, he, hw, hc, rfl⟩ | ⟨v', hv', rfl, _⟩
    · obtain ⟨op, r⟩ := e
      simp only at he; subst he
      rw [current_cons_other _ _ _ (by simp) (by simp)]
      simpa [latest] using hc
    · simp only [View.push] at hopen ⊢
      rw [closed_cons] at hopen
      simp only [Bool.or_eq_false_iff, decide_eq_false_iff_not] at hopen
      have ih' := ih hv' hopen.2
      obtain ⟨op, r⟩ := e
      by_cases hset : ∃ st, op = Op.set v'.name st
      · obtain ⟨st, rfl⟩ := hset
        rw [current_cons_set, latest_cons_set hopen.2]; simp
      · have hns : ∀ st, (op, r).1 ≠ Op.set v'.name st := fun st e => hset ⟨st, e⟩
        rw [latest_cons_other _ _ _ hns, ← ih']
        cases op with
        | set m st =>
          rw [current_cons_set]
          have : ¬ m = v'.name := by intro e; subst e; exact hset ⟨st, rfl⟩
          simp [this]
        | clear m =>
          rw [current_cons_clear]
          have : ¬ m = v'.name := by intro e; subst e; exact hopen.1 rfl
          simp [this]
        | check m => exact current_cons_other _ _ _ (by simp) (by simp)
        | watch m => exact current_cons_other _ _ _ (by simp) (by simp)
        | next m => exact current_cons_other _ _ _ (by simp) (by simp)
        | drop m => exact current_cons_other _ _ _ (by simp) (by simp)

theorem mem_statuses {n : Name} {s0 x : St} {l : Hist} (hx : x ∈ statuses n s0 l) :
    x = s0 ∨ ∃ r, (Op.set n x, r) ∈ l := by
  induction l with
  | nil => simp [statuses] at hx; exact Or.inl hx
  | cons e l ih =>
    have lift : (x = s0 ∨ ∃ r, (Op.set n x, r) ∈ l) → (x = s0 ∨ ∃ r, (Op.set n x, r) ∈ e :: l) := by
      rintro (h | ⟨r, hr⟩)
      · exact Or.inl h
      · exact Or.inr ⟨r, List.mem_cons_of_mem _ hr⟩
    obtain ⟨op, r⟩ := e
    cases hcl : closed n l with
    | true => simp [statuses, hcl] at hx; exact lift (ih hx)
    | false =>
      cases op with
      | set m st =>
        by_cases hm : m = n
        · subst hm
          simp [statuses, hcl] at hx
          rcases hx with rfl | hx
          · exact Or.inr ⟨r, List.mem_cons_self⟩
          · exact lift (ih hx)
        · simp [statuses, hcl, hm] at hx; exact lift (ih hx)
      | clear m => simp [statuses, hcl] at hx; exact lift (ih hx)
      | check m => simp [statuses, hcl] at hx; exact lift (ih hx)
      | watch m => simp [statuses, hcl] at hx; exact lift (ih hx)
      | next m => simp [statuses, hcl] at hx; exact lift (ih hx)
      | drop m => simp [statuses, hcl] at hx; exact lift (ih hx)

/-! ### invariants of a view along a run of the reference interpreter -/

/-- A property of stream `w`'s view that every logged step (other than dropping `w`) of a
class of operations keeps, holds after any run of such operations. -/
theorem view_log_inv (w : Nat) (P : View → Prop) (okOp : Op → Prop)
    (hok : ∀ op, okOp op → op ≠ Op.drop w)
    (hstep : ∀ h v op, view h w = some v → P v → okOp op → P (v.push (op, expected h op)))
    (h : Hist) (v : View) (hv : view h w = some v) (hP : P v) (q : List Op)
    (hq : ∀ op ∈ q, okOp op) : ∃ v', view (log h q) w = some v' ∧ P v' := by
  induction q generalizing h v with
  | nil => exact ⟨v, hv, hP⟩
  | cons op q ih =>
    have hop := hq op List.mem_cons_self
    exact ih _ _ (view_push hv _ (hok op hop)) (hstep h v op hv hP hop)
      (fun o ho => hq o (List.mem_cons_of_mem _ ho))

/-- Stream `w` has delivered something and its registration has not been updated since. -/
def Settled (w : Nat) (v : View) : Prop :=
  hasReported w v.evs = true ∧ fresh v.name w v.evs = false

theorem expectedNext_settled {w : Nat} {v : View} (hs : Settled w v) :
    expectedNext v w = if closed v.name v.evs then .ended else .pending := by
  simp [expectedNext, hs.1, hs.2]

/-- Whatever the reference answer to a poll is, the stream is settled right after it. -/
theorem settled_after_next (w : Nat) (v : View) :
    Settled w (v.push (Op.next w, expectedNext v w)) := by
  unfold expectedNext
  split
  · -- a delivery
    constructor
    · simp [View.push, hasReported, isReport]
    · simp [View.push, fresh, isReport]
  · next hcond =>
    simp only [Bool.or_eq_true, Bool.not_eq_eq_eq_not, Bool.not_true, not_or, Bool.not_eq_false,
      Bool.not_eq_true] at hcond
    have hnr : ∀ r : Resp, (∀ st, r ≠ .value st) → Settled w (v.push (Op.next w, r)) := by
      intro r hr
      have hrep : isReport w (Op.next w, r) = false := by
        cases r <;> simp [isReport]
        case value st => exact absurd rfl (hr st)
      constructor
      · simp only [View.push]; rw [hasReported_cons, hrep]; simpa using hcond.1
      · simp only [View.push]; rw [fresh_cons_other _ hrep (by simp)]; exact hcond.2
    split
    · exact hnr _ (by simp)
    · exact hnr _ (by simp)

/-- A settled stream stays settled under every logged reference step that is not an update of
its name while registered (its own polls answer `pending`/`ended`, which are not deliveries). -/
theorem settled_step {w : Nat} {h : Hist} {v : View} (hv : view h w = some v) (hs : Settled w v)
    (op : Op) (hop : closed v.name v.evs = true ∨ ∀ st, op ≠ Op.set v.name st) :
    Settled w (v.push (op, expected h op)) := by
  have hrep : isReport w (op, expected h op) = false := by
    cases op with
    | next w' =>
      by_cases hw : w' = w
      · subst hw
        simp only [expected, hv, expectedNext_settled hs]
        cases closed v.name v.evs <;> simp [isReport]
      · exact isReport_next_ne hw _
    | set n st => exact isReport_of_not_next (by simp)
    | clear n => exact isReport_of_not_next (by simp)
    | check n => exact isReport_of_not_next (by simp)
    | watch n => exact isReport_of_not_next (by simp)
    | drop n => exact isReport_of_not_next (by simp)
  constructor
  · simp only [View.push]; rw [hasReported_cons, hrep]; simpa using hs.1
  · simp only [View.push]
    rcases hop with hcl | hns
    · cases op with
      | set n st => rw [fresh_cons_set_closed hcl]; exact hs.2
      | clear n => rw [fresh_cons_other _ hrep (by simp)]; exact hs.2
      | check n => rw [fresh_cons_other _ hrep (by simp)]; exact hs.2
      | watch n => rw [fresh_cons_other _ hrep (by simp)]; exact hs.2
      | next n => rw [fresh_cons_other _ hrep (by simp)]; exact hs.2
      | drop n => rw [fresh_cons_other _ hrep (by simp)]; exact hs.2
    · rw [fresh_cons_other _ hrep (by simpa using hns)]; exact hs.2

/-! ### the status of a name along a run -/

theorem current_cons_ne (h : Hist) (e : Ev) (n : Name)
    (hs : ∀ st, e.1 ≠ Op.set n st) (hc : e.1 ≠ Op.clear n) : current (e :: h) n = current h n := by
  obtain ⟨op, r⟩ := e
  cases op with
  | set m st =>
    have : ¬ m = n := by intro e; subst e; exact hs st rfl
    simp [current_cons_set, this]
  | clear m =>
    have : ¬ m = n := by intro e; subst e; exact hc rfl
    simp [current_cons_clear, this]
  | check m => exact current_cons_other _ _ _ (by simp) (by simp)
  | watch m => exact current_cons_other _ _ _ (by simp) (by simp)
  | next m => exact current_cons_other _ _ _ (by simp) (by simp)
  | drop m => exact current_cons_other _ _ _ (by simp) (by simp)

/-- Operations that neither set nor clear `n` leave its status alone. -/
theorem current_log_quiet (n : Name) (h : Hist) (q : List Op)
    (hs : ∀ st, Op.set n st ∉ q) (hc : Op.clear n ∉ q) : current (log h q) n = current h n := by
  induction q generalizing h with
  | nil => rfl
  | cons op q ih =>
    simp only [log]
    rw [ih _ (fun st hm => hs st (List.mem_cons_of_mem _ hm)) (fun hm => hc (List.mem_cons_of_mem _ hm))]
    exact current_cons_ne _ _ _ (fun st e => hs st (by simp at e; simp [e])) (fun e => hc (by simp at e; simp [e]))

/-- A name without a status stays without one as long as nobody sets it. -/
theorem current_log_none (n : Name) (h : Hist) (q : List Op) (hn : current h n = none)
    (hs : ∀ st, Op.set n st ∉ q) : current (log h q) n = none := by
  induction q generalizing h with
  | nil => exact hn
  | cons op q ih =>
    simp only [log]
    apply ih _ _ (fun st hm => hs st (List.mem_cons_of_mem _ hm))
    by_cases hc : op = Op.clear n
    · subst hc; simp [current_cons_clear]
    · rw [current_cons_ne _ _ _ (fun st e => hs st (by simp at e; simp [e])) (by simpa using hc)]
      exact hn

theorem closed_iff_mem (n : Name) (l : Hist) : closed n l = true ↔ Op.clear n ∈ l.map (·.1) := by
  simp [closed]

/-- Along a run that does not drop stream `w`, its view collects exactly the run's events. -/
theorem view_log_evs {h : Hist} {w : Nat} {v : View} (hv : view h w = some v) (q : List Op)
    (hq : ∀ op ∈ q, op ≠ Op.drop w) :
    ∃ v', view (log h q) w = some v' ∧ v'.name = v.name ∧ v'.start = v.start ∧
      v'.evs.map (·.1) = q.reverse ++ v.evs.map (·.1) := by
  induction q generalizing h v with
  | nil => exact ⟨v, hv, rfl, rfl, by simp⟩
  | cons op q ih =>
    obtain ⟨v', h1, h2, h3, h4⟩ := ih (view_push hv (op, expected h op) (hq op List.mem_cons_self))
      (fun o ho => hq o (List.mem_cons_of_mem _ ho))
    exact ⟨v', h1, h2, h3, by simp [h4, View.push]⟩

end Health
