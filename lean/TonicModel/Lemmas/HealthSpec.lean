import TonicModel.Spec.Health
/-
Lemmas about the C18 oracle alone (`Spec/Health`): how its scans of the log change when one
more event is logged, and that the reference interpreter's own answers satisfy the property's
clauses (`allowed`).  Nothing here mentions the model.
-/
set_option linter.unusedSimpArgs false

namespace Health
open Spec.Health

/-! ### how the oracle's per-stream scans change when one more event is logged -/

theorem closed_cons (n : Name) (e : Ev) (l : Hist) :
    closed n (e :: l) = (decide (e.1 = Op.clear n) || closed n l) := by
  simp [closed]

theorem hasReported_cons (w : Nat) (e : Ev) (l : Hist) :
    hasReported w (e :: l) = (isReport w e || hasReported w l) := by
  simp [hasReported]

theorem latest_cons_closed {n : Name} {l : Hist} (h : closed n l = true) (s0 : St) (e : Ev) :
    latest n s0 (e :: l) = latest n s0 l := by
  simp [latest, h]

theorem latest_cons_set {n : Name} {l : Hist} (h : closed n l = false) (s0 s : St) (r : Resp) :
    latest n s0 ((Op.set n s, r) :: l) = s := by
  simp [latest, h]

theorem latest_cons_other {n : Name} (s0 : St) (e : Ev) (l : Hist)
    (h : ∀ s, e.1 ≠ Op.set n s) : latest n s0 (e :: l) = latest n s0 l := by
  obtain ⟨op, r⟩ := e
  cases op <;> simp [latest]
  case set m s =>
    intro _ hm; exact absurd (by rw [hm]) (h s)

theorem fresh_cons_report {w : Nat} {e : Ev} (h : isReport w e = true) (n : Name) (l : Hist) :
    fresh n w (e :: l) = false := by
  simp [fresh, h]

theorem fresh_cons_set_closed {n : Name} {l : Hist} (h : closed n l = true) (w : Nat) (m : Name)
    (s : St) (r : Resp) : fresh n w ((Op.set m s, r) :: l) = fresh n w l := by
  simp [fresh, isReport, h]

theorem fresh_cons_set_open {n : Name} {l : Hist} (h : closed n l = false) (w : Nat)
    (s : St) (r : Resp) : fresh n w ((Op.set n s, r) :: l) = true := by
  simp [fresh, isReport, h]

theorem fresh_cons_other {n : Name} {w : Nat} {e : Ev} (l : Hist) (hr : isReport w e = false)
    (h : ∀ s, e.1 ≠ Op.set n s) : fresh n w (e :: l) = fresh n w l := by
  obtain ⟨op, r⟩ := e
  cases op <;> simp [fresh, hr]
  case set m s =>
    intro hm; exact absurd (by rw [hm]) (h s)

theorem isReport_of_not_next {w : Nat} {e : Ev} (h : ∀ w', e.1 ≠ Op.next w') : isReport w e = false := by
  obtain ⟨op, r⟩ := e
  cases op <;> simp [isReport]
  case next w' => exact absurd rfl (h w')

theorem view_cons_plain {e : Ev} (h : Hist) (w : Nat)
    (hw : ∀ n, e.1 ≠ Op.watch n) (hd : ∀ w', e.1 ≠ Op.drop w') :
    view (e :: h) w = (view h w).map (·.push e) := by
  obtain ⟨op, r⟩ := e
  cases op <;> simp [view]
  case watch n => exact absurd rfl (hw n)
  case drop w' => exact absurd rfl (hd w')

theorem current_cons_set (h : Hist) (n m : Name) (st : St) (r : Resp) :
    current ((Op.set n st, r) :: h) m = if n = m then some st else current h m := by
  simp [current]

theorem current_cons_clear (h : Hist) (n m : Name) (r : Resp) :
    current ((Op.clear n, r) :: h) m = if n = m then none else current h m := by
  simp [current]

theorem current_cons_other (h : Hist) (e : Ev) (m : Name)
    (hs : ∀ n s, e.1 ≠ Op.set n s) (hc : ∀ n, e.1 ≠ Op.clear n) :
    current (e :: h) m = current h m := by
  obtain ⟨op, r⟩ := e
  cases op <;> simp [current]
  case set n s => exact absurd rfl (hs n s)
  case clear n => exact absurd rfl (hc n)

theorem numWatches_cons_other (h : Hist) (e : Ev) (hw : ∀ n, e.1 ≠ Op.watch n) :
    numWatches (e :: h) = numWatches h := by
  obtain ⟨op, r⟩ := e
  cases op <;> simp [numWatches]
  case watch n => exact absurd rfl (hw n)

theorem view_cons_watch (h : Hist) (n : Name) (r : Resp) (w : Nat) :
    view ((Op.watch n, r) :: h) w =
      if numWatches h = w then (current h n).map (fun s0 => ⟨n, s0, []⟩)
      else (view h w).map (·.push (Op.watch n, r)) := by
  simp [view]

theorem view_cons_drop (h : Hist) (w' : Nat) (r : Resp) (w : Nat) :
    view ((Op.drop w', r) :: h) w =
      if w' = w then none else (view h w).map (·.push (Op.drop w', r)) := by
  simp [view]

theorem isReport_next_ne {w w' : Nat} (h : w ≠ w') (r : Resp) : isReport w' (Op.next w, r) = false := by
  cases r <;> simp [isReport, h]

end Health
