import TonicModel.Lemmas.FramingEnc
/-
What a CLIENT request body does when it is polled again after it has reported an error (review round 4,
lr4 #6): `run_client` leaves the polls after the error unconstrained (`∃ post`).  Here they are
determined: after the error the body is in its initial state again (empty buffer, no latched error, not
ended) and goes on with the source events not yet consumed, so `post` is the run of a fresh body over the
rest of the source.  (hyper does not poll a body again after an error; the statement is about the model.)
-/
namespace Framing
variable {α : Type}

/-- the body and the source events left after `k` polls -/
def Enc.after (cd : Codec α) (cfg : EncCfg) : Nat → BodySt → List (SrcEv α) → BodySt × List (SrcEv α)
  | 0, b, evs => (b, evs)
  | k + 1, b, evs =>
    match Enc.pollFrame cd cfg b evs with
    | (b', evs', _) => Enc.after cd cfg k b' evs'

theorem run_length (cd : Codec α) (cfg : EncCfg) (n : Nat) : ∀ (b : BodySt) (evs : List (SrcEv α)),
    (Enc.run cd cfg n b evs).length = n := by
  induction n with
  | zero => intros; rfl
  | succ n ih => intro b evs; simp [Enc.run, ih]

/-- `k + n` polls are `k` polls followed by `n` polls from the state reached -/
theorem run_add (cd : Codec α) (cfg : EncCfg) (k n : Nat) : ∀ (b : BodySt) (evs : List (SrcEv α)),
    Enc.run cd cfg (k + n) b evs
      = Enc.run cd cfg k b evs ++ Enc.run cd cfg n (Enc.after cd cfg k b evs).1 (Enc.after cd cfg k b evs).2 := by
  induction k with
  | zero => intro b evs; simp [Enc.run, Enc.after]
  | succ k ih =>
    intro b evs
    rw [Nat.succ_add]
    simp only [Enc.run, Enc.after]
    generalize Enc.pollFrame cd cfg b evs = r
    obtain ⟨b', evs', o⟩ := r
    simp [ih]

/-- the inner loop consumes a prefix of the source events -/
theorem loop_suffix (cd : Codec α) (cfg : EncCfg) (evs : List (SrcEv α)) : ∀ (buf : Bytes),
    ∃ l, evs = l ++ (Enc.loop cd cfg buf evs).2.1 := by
  induction evs with
  | nil => intro buf; unfold Enc.loop; split <;> exact ⟨[], rfl⟩
  | cons ev rest ih =>
    intro buf
    cases ev with
    | pending => unfold Enc.loop; split <;> exact ⟨[.pending], rfl⟩
    | err st => unfold Enc.loop; split <;> exact ⟨[.err st], rfl⟩
    | item m =>
      unfold Enc.loop
      simp only [compressPanics_false, Bool.false_eq_true, ↓reduceIte]
      cases encodeItem cd cfg buf m with
      | error st => dsimp only; split <;> exact ⟨[.item m], rfl⟩
      | ok buf' =>
        dsimp only
        split
        · exact ⟨[.item m], rfl⟩
        · obtain ⟨l, hl⟩ := ih buf'
          exact ⟨.item m :: l, by rw [List.cons_append, ← hl]⟩

/-- One poll of a client body from a between-polls state (not ended, buffer empty): the state after it is
again one; the events left are a suffix of the events before; and a poll that reports an error leaves no
error latched. -/
theorem pollFrame_client_step (cd : Codec α) (cfg : EncCfg) (hs : cfg.server = false) (b : BodySt)
    (evs : List (SrcEv α)) (hb : b.isEndStream = false) (hbuf : b.inner.buf = []) :
    (Enc.pollFrame cd cfg b evs).1.isEndStream = false ∧ (Enc.pollFrame cd cfg b evs).1.inner.buf = [] ∧
    (∃ l, evs = l ++ (Enc.pollFrame cd cfg b evs).2.1) ∧
    (∀ st, (Enc.pollFrame cd cfg b evs).2.2 = .err st → (Enc.pollFrame cd cfg b evs).1.inner.error = none) := by
  unfold Enc.pollFrame
  simp only [hb, Bool.false_eq_true, ↓reduceIte]
  unfold Enc.pollNext
  cases he : b.inner.error with
  | some st0 =>
    simp only [hs, Bool.false_eq_true, ↓reduceIte]
    exact ⟨trivial, hbuf, ⟨[], rfl⟩, fun _ _ => trivial⟩
  | none =>
    dsimp only
    have hg := loop_good cd cfg evs b.inner.buf
    have hsuf := loop_suffix cd cfg evs b.inner.buf
    generalize Enc.loop cd cfg b.inner.buf evs = r at hg hsuf
    obtain ⟨s', evs', o⟩ := r
    obtain ⟨hbuf', _, hcase⟩ := hg
    dsimp only at hbuf' hcase hsuf
    cases o with
    | panic => exact hcase.elim
    | data d => exact ⟨rfl, hbuf', hsuf, fun st h => by simp at h⟩
    | pending => exact ⟨rfl, hbuf', hsuf, fun st h => by simp at h⟩
    | done =>
      simp only [hs, Bool.false_eq_true, ↓reduceIte]
      exact ⟨trivial, hbuf', hsuf, fun st h => by simp at h⟩
    | err st =>
      simp only [hs, Bool.false_eq_true, ↓reduceIte]
      exact ⟨trivial, hbuf', hsuf, fun _ _ => hcase.2.1⟩

theorem after_client (cd : Codec α) (cfg : EncCfg) (hs : cfg.server = false) (k : Nat) :
    ∀ (b : BodySt) (evs : List (SrcEv α)), b.isEndStream = false → b.inner.buf = [] →
      (Enc.after cd cfg k b evs).1.isEndStream = false ∧ (Enc.after cd cfg k b evs).1.inner.buf = [] ∧
      ∃ l, evs = l ++ (Enc.after cd cfg k b evs).2 := by
  induction k with
  | zero => intro b evs hb hbuf; exact ⟨hb, hbuf, [], rfl⟩
  | succ k ih =>
    intro b evs hb hbuf
    obtain ⟨h1, h2, ⟨l, hl⟩, _⟩ := pollFrame_client_step cd cfg hs b evs hb hbuf
    simp only [Enc.after]
    generalize Enc.pollFrame cd cfg b evs = r at h1 h2 hl
    obtain ⟨b', evs', o⟩ := r
    dsimp only at h1 h2 hl ⊢
    obtain ⟨g1, g2, l2, hl2⟩ := ih b' evs' h1 h2
    exact ⟨g1, g2, l ++ l2, by rw [List.append_assoc, ← hl2]; exact hl⟩

/-- **A client body polled again after an error resumes as a fresh body over the rest of the source.**
From a between-polls state: whenever the run reads `pre ++ .err st :: post`, the polls after the error are
the run of the initial state over a suffix of the source events. -/
theorem run_client_err_resumes (cd : Codec α) (cfg : EncCfg) (hs : cfg.server = false) (n : Nat) (b : BodySt)
    (evs : List (SrcEv α)) (hb : b.isEndStream = false) (hbuf : b.inner.buf = [])
    (pre post : List FrameOut) (st : St) (h : Enc.run cd cfg n b evs = pre ++ .err st :: post) :
    ∃ done rest, evs = done ++ rest ∧ post = Enc.run cd cfg (n - pre.length - 1) Enc.init rest := by
  have hlen : n = pre.length + (post.length + 1) := by
    have := congrArg List.length h
    simpa [run_length] using this
  have hn : n = pre.length + ((n - pre.length - 1) + 1) := by omega
  rw [hn, run_add] at h
  have hpre : Enc.run cd cfg pre.length b evs = pre ∧
      Enc.run cd cfg ((n - pre.length - 1) + 1) (Enc.after cd cfg pre.length b evs).1 (Enc.after cd cfg pre.length b evs).2
        = .err st :: post :=
    List.append_inj h (by simp [run_length])
  obtain ⟨a1, a2, l, hl⟩ := after_client cd cfg hs pre.length b evs hb hbuf
  generalize Enc.after cd cfg pre.length b evs = q at hpre a1 a2 hl
  obtain ⟨b1, evs1⟩ := q
  dsimp only at hpre a1 a2 hl
  obtain ⟨s1, s2, ⟨l2, hl2⟩, s4⟩ := pollFrame_client_step cd cfg hs b1 evs1 a1 a2
  have hstep := hpre.2
  simp only [Enc.run] at hstep
  generalize Enc.pollFrame cd cfg b1 evs1 = r at hstep s1 s2 hl2 s4
  obtain ⟨b2, evs2, o⟩ := r
  dsimp only at hstep s1 s2 hl2 s4
  simp only [List.cons.injEq] at hstep
  obtain ⟨ho, hpost⟩ := hstep
  have herr := s4 st ho
  have hb2 : b2 = Enc.init := by
    obtain ⟨⟨bb, be⟩, bf⟩ := b2
    simp only at s1 s2 herr
    subst s1; subst s2; subst herr
    rfl
  subst hb2
  exact ⟨l ++ l2, evs2, by rw [List.append_assoc, ← hl2]; exact hl, hpost.symm⟩

end Framing
