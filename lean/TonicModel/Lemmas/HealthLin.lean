import TonicModel.Basic.HealthLin
/-
Soundness of the linearizability search used on recorded concurrent histories (C18): when the
search answers "yes" there is a schedule — a sequence of picks of task heads that respects
every task's own order and the real-time order of the recorded calls — along which the
sequential machine accepts every recorded answer.
-/
namespace Health.Lin

/-- The task after its head call has been linearized in state `s`: a `watch` call fixes the
task's slot to the next free one. -/
def afterCall {σ : Type} (nslots : σ → Nat) (s : σ) (c : Call) (t : Task) : Task :=
  match c.op with
  | .watch _ => { t with slot := nslots s }
  | _ => t

/-- `Run acc nslots s ts`: the pending calls of `ts` can all be linearized from state `s`. -/
inductive Run {σ : Type} (acc : σ → Op → Resp → Option σ) (nslots : σ → Nat) : σ → List Task → Prop
  | done {s : σ} {ts : List Task} : total ts = 0 → Run acc nslots s ts
  | step {s s' : σ} {ts : List Task} {c : Call} {t : Task} {others : List Task} :
      (c, t, others) ∈ picks [] ts → minimal c others = true →
      acc s (localise t c.op) c.ans = some s' →
      Run acc nslots s' (afterCall nslots s c t :: others) → Run acc nslots s ts

theorem afterCall_readOnly {σ : Type} (nslots : σ → Nat) (s : σ) (c : Call) (t : Task)
    (h : readOnly c.op c.ans = true) : afterCall nslots s c t = t := by
  unfold afterCall
  cases hc : c.op <;> simp [hc, readOnly] at h ⊢

private theorem foldl_found {α : Type} (f : α → Bool × Nat → Bool × Nat)
    (_hkeep : ∀ a r, r.1 = true → f a r = r) (l : List α) (r : Bool × Nat)
    (h : (l.foldl (fun r a => f a r) r).1 = true) :
    r.1 = true ∨ ∃ a ∈ l, ∃ r', r'.1 = false ∧ (f a r').1 = true := by
  induction l generalizing r with
  | nil => exact Or.inl h
  | cons a l ih =>
    simp only [List.foldl_cons] at h
    rcases ih _ h with h1 | ⟨b, hb, r', hr', hf⟩
    · cases hr : r.1 with
      | true => exact Or.inl rfl
      | false => exact Or.inr ⟨a, List.mem_cons_self, r, hr, h1⟩
    · exact Or.inr ⟨b, List.mem_cons_of_mem _ hb, r', hr', hf⟩

theorem search_sound {σ : Type} (acc : σ → Op → Resp → Option σ) (nslots : σ → Nat)
    (fuel b : Nat) (s : σ) (ts : List Task)
    (h : (search acc nslots fuel b s ts).1 = true) : Run acc nslots s ts := by
  induction fuel generalizing b s ts with
  | zero =>
    simp only [search] at h
    exact Run.done (by simpa using h)
  | succ fuel ih =>
    unfold search at h
    split at h
    · simp at h
    · split at h
      · next ht => exact Run.done (by simpa using ht)
      · simp only at h
        split at h
        · -- committed to a read-only call
          next s' ts' hro =>
          obtain ⟨cand, hmem, hsome⟩ := List.exists_of_findSome?_eq_some hro
          obtain ⟨c, t, others⟩ := cand
          simp only at hsome
          split at hsome
          · next hr =>
            cases hacc : acc s (localise t c.op) c.ans with
            | none => simp [hacc] at hsome
            | some s1 =>
              simp [hacc] at hsome
              obtain ⟨rfl, rfl⟩ := hsome
              have hm := List.mem_filter.mp hmem
              refine Run.step hm.1 (by simpa using hm.2) hacc ?_
              rw [afterCall_readOnly nslots s c t hr]
              exact ih _ _ _ h
          · cases hsome
        · -- branching over the enabled calls
          next hro =>
          rcases foldl_found
              (fun (cand : Call × Task × List Task) (r : Bool × Nat) =>
                if r.1 then r
                else if r.2 == 0 then r
                else match acc s (localise cand.2.1 cand.1.op) cand.1.ans with
                  | none => r
                  | some s' =>
                    search acc nslots fuel r.2 s'
                      ((match cand.1.op with
                        | .watch _ => { cand.2.1 with slot := nslots s }
                        | _ => cand.2.1) :: cand.2.2))
              (by intro a r hr; simp [hr]) _ _ h with h0 | ⟨cand, hmem, r', hr', hf⟩
          · simp at h0
          · obtain ⟨c, t, others⟩ := cand
            by_cases hb : (r'.2 == 0) = true
            · simp [hr', hb] at hf
            · cases hacc : acc s (localise t c.op) c.ans with
              | none => simp [hacc, hr', hb] at hf
              | some s1 =>
                simp only [hr', hb, hacc, Bool.false_eq_true, if_false] at hf
                have hm := List.mem_filter.mp hmem
                exact Run.step hm.1 (by simpa using hm.2) hacc (ih _ _ _ hf)

theorem linearizable_sound {σ : Type} (acc : σ → Op → Resp → Option σ) (nslots : σ → Nat)
    (s : σ) (ts : List Task) (h : linearizable acc nslots s ts = .yes) : Run acc nslots s ts := by
  unfold linearizable at h
  split at h
  · next hs => exact search_sound acc nslots _ _ s ts (by rw [hs])
  · cases h
  · cases h

end Health.Lin
