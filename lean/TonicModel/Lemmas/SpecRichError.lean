import TonicModel.Lemmas.SpecLookup
import TonicModel.Lemmas.RichErrorWire
/-
The independent spec decoder reads the model's encodings of the detail messages and of
google.rpc.Status back to the values that were encoded (wire conformance, at theorem level).
-/
namespace SpecWire
open PbWire Spec.RichError RichError

theorem lookup2 (a b : Bytes) (ha : Utf8Rust.valid a = true) (hb : Utf8Rust.valid b = true) :
    stringField 1 (recsFlatFrom 1 [.str, .str] [.b a, .b b]) = some a ∧
    stringField 2 (recsFlatFrom 1 [.str, .str] [.b a, .b b]) = some b := by
  constructor
  · exact stringField_of_occ _ _ _ (by simp [recsFlatFrom, occurrences_append, occ_scalar_str, occ_scalar_ne]) ha
  · exact stringField_of_occ _ _ _ (by simp [recsFlatFrom, occurrences_append, occ_scalar_str, occ_scalar_ne]) hb

theorem lookup3 (a b c : Bytes) (ha : Utf8Rust.valid a = true) (hb : Utf8Rust.valid b = true)
    (hc : Utf8Rust.valid c = true) :
    stringField 1 (recsFlatFrom 1 [.str, .str, .str] [.b a, .b b, .b c]) = some a ∧
    stringField 2 (recsFlatFrom 1 [.str, .str, .str] [.b a, .b b, .b c]) = some b ∧
    stringField 3 (recsFlatFrom 1 [.str, .str, .str] [.b a, .b b, .b c]) = some c := by
  refine ⟨?_, ?_, ?_⟩
  · exact stringField_of_occ _ _ _ (by simp [recsFlatFrom, occurrences_append, occ_scalar_str, occ_scalar_ne]) ha
  · exact stringField_of_occ _ _ _ (by simp [recsFlatFrom, occurrences_append, occ_scalar_str, occ_scalar_ne]) hb
  · exact stringField_of_occ _ _ _ (by simp [recsFlatFrom, occurrences_append, occ_scalar_str, occ_scalar_ne]) hc

theorem spec_quotaViolation (a b : Bytes) (ha : Utf8Rust.valid a = true) (hb : Utf8Rust.valid b = true)
    (hsz : (encFlat [.str, .str] [.b a, .b b]).length < 18446744073709551616) :
    quotaViolation (encFlat [.str, .str] [.b a, .b b]) = some ⟨a, b⟩ := by
  obtain ⟨h1, h2⟩ := lookup2 a b ha hb
  simp [quotaViolation, parse_encFlat _ _ (by decide) hsz, h1, h2]

theorem spec_fieldViolation (a b : Bytes) (ha : Utf8Rust.valid a = true) (hb : Utf8Rust.valid b = true)
    (hsz : (encFlat [.str, .str] [.b a, .b b]).length < 18446744073709551616) :
    fieldViolation (encFlat [.str, .str] [.b a, .b b]) = some ⟨a, b⟩ := by
  obtain ⟨h1, h2⟩ := lookup2 a b ha hb
  simp [fieldViolation, parse_encFlat _ _ (by decide) hsz, h1, h2]

theorem spec_helpLink (a b : Bytes) (ha : Utf8Rust.valid a = true) (hb : Utf8Rust.valid b = true)
    (hsz : (encFlat [.str, .str] [.b a, .b b]).length < 18446744073709551616) :
    helpLink (encFlat [.str, .str] [.b a, .b b]) = some ⟨a, b⟩ := by
  obtain ⟨h1, h2⟩ := lookup2 a b ha hb
  simp [helpLink, parse_encFlat _ _ (by decide) hsz, h1, h2]

theorem spec_mapEntry (a b : Bytes) (ha : Utf8Rust.valid a = true) (hb : Utf8Rust.valid b = true)
    (hsz : (encEntry (a, b)).length < 18446744073709551616) :
    mapEntry (encEntry (a, b)) = some (a, b) := by
  obtain ⟨h1, h2⟩ := lookup2 a b ha hb
  simp only [encEntry, entrySchema] at hsz ⊢
  simp [mapEntry, parse_encFlat _ _ (by decide) hsz, h1, h2]

theorem spec_preconditionViolation (a b c : Bytes) (ha : Utf8Rust.valid a = true)
    (hb : Utf8Rust.valid b = true) (hc : Utf8Rust.valid c = true)
    (hsz : (encFlat [.str, .str, .str] [.b a, .b b, .b c]).length < 18446744073709551616) :
    preconditionViolation (encFlat [.str, .str, .str] [.b a, .b b, .b c]) = some ⟨a, b, c⟩ := by
  obtain ⟨h1, h2, h3⟩ := lookup3 a b c ha hb hc
  simp [preconditionViolation, parse_encFlat _ _ (by decide) hsz, h1, h2, h3]


theorem mapM_map_of {α β : Type} (f : Bytes → Option β) (enc : α → Bytes) (g : α → β) (l : List α)
    (h : ∀ a ∈ l, f (enc a) = some (g a)) : (l.map enc).mapM f = some (l.map g) := by
  induction l with
  | nil => rfl
  | cons a l ih =>
    simp [List.mapM_cons, h a (by simp), ih (fun x hx => h x (by simp [hx]))]

/-- every record of an encoding shorter than 2^64 bytes is readable -/
theorem recOk_encL2 (s : List F2) (v : List V2) (hs : s.length < 536870912)
    (hb : (encL2 s v).length < 18446744073709551616) : ∀ x ∈ recsL2From 1 s v, RecOk x := by
  rw [encL2, encL2From_eq] at hb
  exact recOk_of_shape _ (shape_l2 s 1 v (by omega) (by omega)) hb

theorem int64Of_u64OfInt (x : Int) (h : -9223372036854775808 ≤ x ∧ x < 9223372036854775808) :
    int64Of (u64OfInt x) = x := by
  unfold int64Of u64OfInt; split <;> omega

theorem int32Of_u64OfInt (x : Int) (h : -2147483648 ≤ x ∧ x < 2147483648) : int32Of (u64OfInt x) = x := by
  unfold int32Of u64OfInt; split <;> omega

/-! ### the ten detail messages -/

theorem spec_duration (d : Dur) (h : wfDur d = true)
    (hsz : (encFlat [.i64, .i32] (durToPb d)).length < 18446744073709551616) :
    duration (encFlat [.i64, .i32] (durToPb d)) = some d := by
  obtain ⟨s, n⟩ := d
  simp only [wfDur, Bool.and_eq_true, decide_eq_true_eq] at h
  have hs : ((s : Nat) : Int) ≤ i64Max := by simp only [i64Max]; omega
  have hid := normalize_id (s : Int) (n : Int) (by omega) (by omega) (by omega)
  have hd : durToPb ⟨s, n⟩ = [.i (s : Int), .i (n : Int)] := by simp [durToPb, hs, hid]
  rw [hd] at hsz ⊢
  have h1 : varintField 1 (recsFlatFrom 1 [.i64, .i32] [.i (s : Int), .i (n : Int)]) = some (u64OfInt s) :=
    varintField_of_occ _ _ _ (by simp [recsFlatFrom, occurrences_append, occ_scalar_i64, occ_scalar_ne])
  have h2 : varintField 2 (recsFlatFrom 1 [.i64, .i32] [.i (s : Int), .i (n : Int)]) = some (u64OfInt n) :=
    varintField_of_occ _ _ _ (by simp [recsFlatFrom, occurrences_append, occ_scalar_i32, occ_scalar_ne])
  have e1 := int64Of_u64OfInt (s : Int) (by omega)
  have e2 := int32Of_u64OfInt (n : Int) (by omega)
  have hc : (0 : Int) ≤ s ∧ (0 : Int) ≤ n ∧ (n : Int) < 1000000000 := by omega
  simp [duration, parse_encFlat _ _ (by decide) hsz, h1, h2, e1, e2, hc]

theorem spec_retryInfo (x : RichError.RetryInfo) (h : wfDetail (.retryInfo x) = true)
    (hsz : (prost.encDetail (.retryInfo x)).length < 18446744073709551616) :
    retryInfo (prost.encDetail (.retryInfo x)) = some x := by
  obtain ⟨o⟩ := x
  have hp := parse_encL2 (schemaOf .retryInfo) (toPb (.retryInfo ⟨o⟩)) (by decide) hsz
  have hok := recOk_encL2 (schemaOf .retryInfo) (toPb (.retryInfo ⟨o⟩)) (by decide) hsz
  simp only [prost, ErrorDetail.kind] at hsz ⊢
  cases o with
  | none =>
    have : messageField 1 (recsL2From 1 (schemaOf .retryInfo) (toPb (.retryInfo ⟨none⟩))) = some none :=
      messageField_none _ _ (by simp [schemaOf, toPb, recsL2From, recsL2Field, occurrences_nil])
    simp [retryInfo, hp, this]
  | some d =>
    simp only [wfDetail] at h
    have hm : messageField 1 (recsL2From 1 (schemaOf .retryInfo) (toPb (.retryInfo ⟨some d⟩))) =
        some (some (encFlat [.i64, .i32] (durToPb d))) :=
      messageField_one _ _ _ (by simp [schemaOf, toPb, recsL2From, recsL2Field, occurrences])
    have hsz' : (encFlat [.i64, .i32] (durToPb d)).length < 18446744073709551616 := by
      have := hok (1, .len (encFlat [.i64, .i32] (durToPb d))) (by simp [schemaOf, toPb, recsL2From, recsL2Field])
      exact this.2.2
    simp [retryInfo, hp, hm, spec_duration d h hsz']


theorem spec_debugInfo (x : RichError.DebugInfo) (h : wfDetail (.debugInfo x) = true)
    (hsz : (prost.encDetail (.debugInfo x)).length < 18446744073709551616) :
    debugInfo (prost.encDetail (.debugInfo x)) = some x := by
  obtain ⟨st, dt⟩ := x
  simp only [wfDetail, Bool.and_eq_true, List.all_eq_true] at h
  have hp := parse_encL2 (schemaOf .debugInfo) (toPb (.debugInfo ⟨st, dt⟩)) (by decide) hsz
  simp only [prost, ErrorDetail.kind] at hsz ⊢
  have h1 : repeatedString 1 (recsL2From 1 (schemaOf .debugInfo) (toPb (.debugInfo ⟨st, dt⟩))) = some st :=
    repeatedString_of_occ _ _ _ (by
      simp [schemaOf, toPb, recsL2From, recsL2Field, vStr, occurrences_append, occ_map_self (g := fun s : Bytes => s),
        occ_scalar_ne]) h.1
  have h2 : stringField 2 (recsL2From 1 (schemaOf .debugInfo) (toPb (.debugInfo ⟨st, dt⟩))) = some dt :=
    stringField_of_occ _ _ _ (by
      simp [schemaOf, toPb, recsL2From, recsL2Field, vStr, occurrences_append, occ_map_ne (g := fun s : Bytes => s),
        occ_scalar_str]) h.2
  simp [debugInfo, hp, h1, h2]

theorem spec_two (a b : Bytes) (ha : Utf8Rust.valid a = true) (hb : Utf8Rust.valid b = true) :
    stringField 1 (recsL2From 1 [.sc .str, .sc .str] [vStr a, vStr b]) = some a ∧
    stringField 2 (recsL2From 1 [.sc .str, .sc .str] [vStr a, vStr b]) = some b := by
  constructor
  · exact stringField_of_occ _ _ _ (by simp [recsL2From, recsL2Field, vStr, occurrences_append, occ_scalar_str, occ_scalar_ne]) ha
  · exact stringField_of_occ _ _ _ (by simp [recsL2From, recsL2Field, vStr, occurrences_append, occ_scalar_str, occ_scalar_ne]) hb

theorem spec_requestInfo (x : RichError.RequestInfo) (h : wfDetail (.requestInfo x) = true)
    (hsz : (prost.encDetail (.requestInfo x)).length < 18446744073709551616) :
    requestInfo (prost.encDetail (.requestInfo x)) = some x := by
  obtain ⟨a, b⟩ := x
  simp only [wfDetail, Bool.and_eq_true] at h
  have hp := parse_encL2 (schemaOf .requestInfo) (toPb (.requestInfo ⟨a, b⟩)) (by decide) hsz
  obtain ⟨h1, h2⟩ := spec_two a b h.1 h.2
  simp only [prost, ErrorDetail.kind] at hsz ⊢
  simp only [schemaOf, toPb] at hp
  simp [requestInfo, schemaOf, toPb, hp, h1, h2]

theorem spec_localizedMessage (x : RichError.LocalizedMessage) (h : wfDetail (.localizedMessage x) = true)
    (hsz : (prost.encDetail (.localizedMessage x)).length < 18446744073709551616) :
    localizedMessage (prost.encDetail (.localizedMessage x)) = some x := by
  obtain ⟨a, b⟩ := x
  simp only [wfDetail, Bool.and_eq_true] at h
  have hp := parse_encL2 (schemaOf .localizedMessage) (toPb (.localizedMessage ⟨a, b⟩)) (by decide) hsz
  obtain ⟨h1, h2⟩ := spec_two a b h.1 h.2
  simp only [prost, ErrorDetail.kind] at hsz ⊢
  simp only [schemaOf, toPb] at hp
  simp [localizedMessage, schemaOf, toPb, hp, h1, h2]

theorem spec_resourceInfo (x : RichError.ResourceInfo) (h : wfDetail (.resourceInfo x) = true)
    (hsz : (prost.encDetail (.resourceInfo x)).length < 18446744073709551616) :
    resourceInfo (prost.encDetail (.resourceInfo x)) = some x := by
  obtain ⟨a, b, c, d⟩ := x
  simp only [wfDetail, Bool.and_eq_true] at h
  have hp := parse_encL2 (schemaOf .resourceInfo) (toPb (.resourceInfo ⟨a, b, c, d⟩)) (by decide) hsz
  simp only [prost, ErrorDetail.kind] at hsz ⊢
  simp only [schemaOf, toPb] at hp
  have h1 : stringField 1 (recsL2From 1 [.sc .str, .sc .str, .sc .str, .sc .str] [vStr a, vStr b, vStr c, vStr d]) = some a :=
    stringField_of_occ _ _ _ (by simp [recsL2From, recsL2Field, vStr, occurrences_append, occ_scalar_str, occ_scalar_ne]) h.1.1.1
  have h2 : stringField 2 (recsL2From 1 [.sc .str, .sc .str, .sc .str, .sc .str] [vStr a, vStr b, vStr c, vStr d]) = some b :=
    stringField_of_occ _ _ _ (by simp [recsL2From, recsL2Field, vStr, occurrences_append, occ_scalar_str, occ_scalar_ne]) h.1.1.2
  have h3 : stringField 3 (recsL2From 1 [.sc .str, .sc .str, .sc .str, .sc .str] [vStr a, vStr b, vStr c, vStr d]) = some c :=
    stringField_of_occ _ _ _ (by simp [recsL2From, recsL2Field, vStr, occurrences_append, occ_scalar_str, occ_scalar_ne]) h.1.2
  have h4 : stringField 4 (recsL2From 1 [.sc .str, .sc .str, .sc .str, .sc .str] [vStr a, vStr b, vStr c, vStr d]) = some d :=
    stringField_of_occ _ _ _ (by simp [recsL2From, recsL2Field, vStr, occurrences_append, occ_scalar_str, occ_scalar_ne]) h.2
  simp [resourceInfo, schemaOf, toPb, hp, h1, h2, h3, h4]

/-- a message whose only field is `repeated <flat message> = 1` -/
theorem spec_repeated {α : Type} (sf : Flat) (_hsf : sf.length + 1 < 536870912) (l : List α) (toV : α → List SV)
    (f : Bytes → Option α) (hsz : (encL2 [.repFlat sf] [.repFlat (l.map toV)]).length < 18446744073709551616)
    (hf : ∀ a ∈ l, (encFlat sf (toV a)).length < 18446744073709551616 → f (encFlat sf (toV a)) = some a) :
    parse (encL2 [.repFlat sf] [.repFlat (l.map toV)]) =
      some (recsL2From 1 [.repFlat sf] [.repFlat (l.map toV)]) ∧
    ((repeatedLen 1 (recsL2From 1 [.repFlat sf] [.repFlat (l.map toV)])).bind fun bs => bs.mapM f) = some l := by
  have hp := parse_encL2 [.repFlat sf] [.repFlat (l.map toV)] (by simp) hsz
  have hok := recOk_encL2 [.repFlat sf] [.repFlat (l.map toV)] (by simp) hsz
  refine ⟨hp, ?_⟩
  have hr : repeatedLen 1 (recsL2From 1 [.repFlat sf] [.repFlat (l.map toV)]) = some (l.map fun a => encFlat sf (toV a)) :=
    repeatedLen_of_occ _ _ _ (by
      simp only [recsL2From, recsL2Field, List.append_nil, List.map_map]
      rw [show ((fun v => (1, Wire.len (encFlat sf v))) ∘ toV) = fun a => (1, Wire.len (encFlat sf (toV a))) from rfl,
        occ_map_self 1 (fun a => encFlat sf (toV a)) l]
      simp [Function.comp_def])
  rw [hr]
  simp only [Option.bind_some]
  have := mapM_map_of f (fun a => encFlat sf (toV a)) id l (by
    intro a ha
    refine hf a ha ?_
    have := hok (1, .len (encFlat sf (toV a))) (by
      simp only [recsL2From, recsL2Field, List.append_nil, List.map_map, List.mem_map]
      exact ⟨a, ha, rfl⟩)
    exact this.2.2)
  simpa using this

theorem spec_quotaFailure (x : RichError.QuotaFailure) (h : wfDetail (.quotaFailure x) = true)
    (hsz : (prost.encDetail (.quotaFailure x)).length < 18446744073709551616) :
    quotaFailure (prost.encDetail (.quotaFailure x)) = some x := by
  obtain ⟨l⟩ := x
  simp only [wfDetail, List.all_eq_true, Bool.and_eq_true] at h
  simp only [prost, ErrorDetail.kind, schemaOf, toPb] at hsz ⊢
  obtain ⟨hp, hm⟩ := spec_repeated [.str, .str] (by decide) l (fun v => [.b v.subject, .b v.description])
    quotaViolation hsz (fun a ha hs => spec_quotaViolation a.subject a.description (h a ha).1 (h a ha).2 hs)
  cases hr : repeatedLen 1 (recsL2From 1 [.repFlat [.str, .str]] [.repFlat (l.map fun v => [.b v.subject, .b v.description])]) with
  | none => simp [hr] at hm
  | some bs => simp only [hr, Option.bind_some] at hm; simp [quotaFailure, hp, hr, hm]

theorem spec_badRequest (x : RichError.BadRequest) (h : wfDetail (.badRequest x) = true)
    (hsz : (prost.encDetail (.badRequest x)).length < 18446744073709551616) :
    badRequest (prost.encDetail (.badRequest x)) = some x := by
  obtain ⟨l⟩ := x
  simp only [wfDetail, List.all_eq_true, Bool.and_eq_true] at h
  simp only [prost, ErrorDetail.kind, schemaOf, toPb] at hsz ⊢
  obtain ⟨hp, hm⟩ := spec_repeated [.str, .str] (by decide) l (fun v => [.b v.field, .b v.description])
    fieldViolation hsz (fun a ha hs => spec_fieldViolation a.field a.description (h a ha).1 (h a ha).2 hs)
  cases hr : repeatedLen 1 (recsL2From 1 [.repFlat [.str, .str]] [.repFlat (l.map fun v => [.b v.field, .b v.description])]) with
  | none => simp [hr] at hm
  | some bs => simp only [hr, Option.bind_some] at hm; simp [badRequest, hp, hr, hm]

theorem spec_help (x : RichError.Help) (h : wfDetail (.help x) = true)
    (hsz : (prost.encDetail (.help x)).length < 18446744073709551616) :
    help (prost.encDetail (.help x)) = some x := by
  obtain ⟨l⟩ := x
  simp only [wfDetail, List.all_eq_true, Bool.and_eq_true] at h
  simp only [prost, ErrorDetail.kind, schemaOf, toPb] at hsz ⊢
  obtain ⟨hp, hm⟩ := spec_repeated [.str, .str] (by decide) l (fun v => [.b v.description, .b v.url])
    helpLink hsz (fun a ha hs => spec_helpLink a.description a.url (h a ha).1 (h a ha).2 hs)
  cases hr : repeatedLen 1 (recsL2From 1 [.repFlat [.str, .str]] [.repFlat (l.map fun v => [.b v.description, .b v.url])]) with
  | none => simp [hr] at hm
  | some bs => simp only [hr, Option.bind_some] at hm; simp [help, hp, hr, hm]

theorem spec_preconditionFailure (x : RichError.PreconditionFailure) (h : wfDetail (.preconditionFailure x) = true)
    (hsz : (prost.encDetail (.preconditionFailure x)).length < 18446744073709551616) :
    preconditionFailure (prost.encDetail (.preconditionFailure x)) = some x := by
  obtain ⟨l⟩ := x
  simp only [wfDetail, List.all_eq_true, Bool.and_eq_true] at h
  simp only [prost, ErrorDetail.kind, schemaOf, toPb] at hsz ⊢
  obtain ⟨hp, hm⟩ := spec_repeated [.str, .str, .str] (by decide) l (fun v => [.b v.type, .b v.subject, .b v.description])
    preconditionViolation hsz
    (fun a ha hs => spec_preconditionViolation a.type a.subject a.description (h a ha).1.1 (h a ha).1.2 (h a ha).2 hs)
  cases hr : repeatedLen 1 (recsL2From 1 [.repFlat [.str, .str, .str]]
      [.repFlat (l.map fun v => [.b v.type, .b v.subject, .b v.description])]) with
  | none => simp [hr] at hm
  | some bs => simp only [hr, Option.bind_some] at hm; simp [preconditionFailure, hp, hr, hm]


theorem spec_errorInfo (x : RichError.ErrorInfo) (h : wfDetail (.errorInfo x) = true)
    (hsz : (prost.encDetail (.errorInfo x)).length < 18446744073709551616) :
    errorInfo (prost.encDetail (.errorInfo x)) = some x := by
  obtain ⟨a, b, l⟩ := x
  simp only [wfDetail, List.all_eq_true, Bool.and_eq_true] at h
  have hp := parse_encL2 (schemaOf .errorInfo) (toPb (.errorInfo ⟨a, b, l⟩)) (by decide) hsz
  have hok := recOk_encL2 (schemaOf .errorInfo) (toPb (.errorInfo ⟨a, b, l⟩)) (by decide) hsz
  simp only [prost, ErrorDetail.kind] at hsz ⊢
  simp only [schemaOf, toPb] at hp hok
  have h1 : stringField 1 (recsL2From 1 [.sc .str, .sc .str, .mapSS] [vStr a, vStr b, .map l]) = some a :=
    stringField_of_occ _ _ _ (by
      simp [recsL2From, recsL2Field, vStr, occurrences_append, occ_scalar_str, occ_scalar_ne,
        occ_map_ne (g := encEntry)]) h.1.1.1
  have h2 : stringField 2 (recsL2From 1 [.sc .str, .sc .str, .mapSS] [vStr a, vStr b, .map l]) = some b :=
    stringField_of_occ _ _ _ (by
      simp [recsL2From, recsL2Field, vStr, occurrences_append, occ_scalar_str, occ_scalar_ne,
        occ_map_ne (g := encEntry)]) h.1.1.2
  have h3 : repeatedLen 3 (recsL2From 1 [.sc .str, .sc .str, .mapSS] [vStr a, vStr b, .map l]) = some (l.map encEntry) :=
    repeatedLen_of_occ _ _ _ (by
      simp [recsL2From, recsL2Field, vStr, occurrences_append, occ_scalar_ne, occ_map_self (g := encEntry),
        Function.comp_def])
  have h4 : (l.map encEntry).mapM mapEntry = some l := by
    have := mapM_map_of mapEntry encEntry id l (by
      intro e he
      have hv := h.1.2 e he
      have := hok (3, .len (encEntry e)) (by
        simp only [recsL2From, recsL2Field, List.mem_append, List.mem_map]
        exact Or.inr (Or.inr (Or.inl ⟨e, he, rfl⟩)))
      obtain ⟨k, v⟩ := e
      exact spec_mapEntry k v hv.1 hv.2 this.2.2)
    simpa using this
  simp [errorInfo, schemaOf, toPb, hp, h1, h2, h3, h4]

/-! ### dispatch on the type URL -/

theorem urlOf_eq : urlOf "RetryInfo" = typeUrl .retryInfo ∧ urlOf "DebugInfo" = typeUrl .debugInfo ∧
    urlOf "QuotaFailure" = typeUrl .quotaFailure ∧ urlOf "ErrorInfo" = typeUrl .errorInfo ∧
    urlOf "PreconditionFailure" = typeUrl .preconditionFailure ∧ urlOf "BadRequest" = typeUrl .badRequest ∧
    urlOf "RequestInfo" = typeUrl .requestInfo ∧ urlOf "ResourceInfo" = typeUrl .resourceInfo ∧
    urlOf "Help" = typeUrl .help ∧ urlOf "LocalizedMessage" = typeUrl .localizedMessage := by decide

/-- the spec decoder reads each well-formed detail back from the `Any` the model writes for it -/
theorem spec_detailOf (d : ErrorDetail) (h : wfDetail d = true)
    (hsz : (prost.encDetail d).length < 18446744073709551616) :
    detailOf (typeUrl d.kind) (prost.encDetail d) = some (some d) := by
  obtain ⟨u1, u2, u3, u4, u5, u6, u7, u8, u9, u10⟩ := urlOf_eq
  have ne : ∀ k k' : Kind, k ≠ k' → typeUrl k ≠ typeUrl k' := fun k k' hk e => hk (typeUrl_injective k k' e)
  unfold detailOf
  rw [u1, u2, u3, u4, u5, u6, u7, u8, u9, u10]
  cases d with
  | retryInfo x => simp [ErrorDetail.kind, spec_retryInfo x h hsz]
  | debugInfo x =>
    simp [ErrorDetail.kind, spec_debugInfo x h hsz, ne .debugInfo .retryInfo (by decide)]
  | quotaFailure x =>
    simp [ErrorDetail.kind, spec_quotaFailure x h hsz, ne .quotaFailure .retryInfo (by decide),
      ne .quotaFailure .debugInfo (by decide)]
  | errorInfo x =>
    simp [ErrorDetail.kind, spec_errorInfo x h hsz, ne .errorInfo .retryInfo (by decide),
      ne .errorInfo .debugInfo (by decide), ne .errorInfo .quotaFailure (by decide)]
  | preconditionFailure x =>
    simp [ErrorDetail.kind, spec_preconditionFailure x h hsz, ne .preconditionFailure .retryInfo (by decide),
      ne .preconditionFailure .debugInfo (by decide), ne .preconditionFailure .quotaFailure (by decide),
      ne .preconditionFailure .errorInfo (by decide)]
  | badRequest x =>
    simp [ErrorDetail.kind, spec_badRequest x h hsz, ne .badRequest .retryInfo (by decide),
      ne .badRequest .debugInfo (by decide), ne .badRequest .quotaFailure (by decide),
      ne .badRequest .errorInfo (by decide), ne .badRequest .preconditionFailure (by decide)]
  | requestInfo x =>
    simp [ErrorDetail.kind, spec_requestInfo x h hsz, ne .requestInfo .retryInfo (by decide),
      ne .requestInfo .debugInfo (by decide), ne .requestInfo .quotaFailure (by decide),
      ne .requestInfo .errorInfo (by decide), ne .requestInfo .preconditionFailure (by decide),
      ne .requestInfo .badRequest (by decide)]
  | resourceInfo x =>
    simp [ErrorDetail.kind, spec_resourceInfo x h hsz, ne .resourceInfo .retryInfo (by decide),
      ne .resourceInfo .debugInfo (by decide), ne .resourceInfo .quotaFailure (by decide),
      ne .resourceInfo .errorInfo (by decide), ne .resourceInfo .preconditionFailure (by decide),
      ne .resourceInfo .badRequest (by decide), ne .resourceInfo .requestInfo (by decide)]
  | help x =>
    simp [ErrorDetail.kind, spec_help x h hsz, ne .help .retryInfo (by decide),
      ne .help .debugInfo (by decide), ne .help .quotaFailure (by decide),
      ne .help .errorInfo (by decide), ne .help .preconditionFailure (by decide),
      ne .help .badRequest (by decide), ne .help .requestInfo (by decide), ne .help .resourceInfo (by decide)]
  | localizedMessage x =>
    simp [ErrorDetail.kind, spec_localizedMessage x h hsz, ne .localizedMessage .retryInfo (by decide),
      ne .localizedMessage .debugInfo (by decide), ne .localizedMessage .quotaFailure (by decide),
      ne .localizedMessage .errorInfo (by decide), ne .localizedMessage .preconditionFailure (by decide),
      ne .localizedMessage .badRequest (by decide), ne .localizedMessage .requestInfo (by decide),
      ne .localizedMessage .resourceInfo (by decide), ne .localizedMessage .help (by decide)]


/-! ### google.rpc.Status -/

theorem spec_any (u v : Bytes) (hu : Utf8Rust.valid u = true)
    (hsz : (encFlat [.str, .bytes] [.b u, .b v]).length < 18446744073709551616) :
    any (encFlat [.str, .bytes] [.b u, .b v]) = some (u, v) := by
  have h1 : stringField 1 (recsFlatFrom 1 [.str, .bytes] [.b u, .b v]) = some u :=
    stringField_of_occ _ _ _ (by simp [recsFlatFrom, occurrences_append, occ_scalar_str, occ_scalar_ne]) hu
  have h2 : bytesField 2 (recsFlatFrom 1 [.str, .bytes] [.b u, .b v]) = some v :=
    bytesField_of_occ _ _ _ (by simp [recsFlatFrom, occurrences_append, occ_scalar_bytes, occ_scalar_ne])
  simp [any, parse_encFlat _ _ (by decide) hsz, h1, h2]

theorem recs_status (code : Int) (msg : Bytes) (anys : List Any) :
    recsL2From 1 [.sc .i32, .sc .str, .repFlat [.str, .bytes]]
      [.sc (.i code), vStr msg, .repFlat (anys.map fun a => [.b a.typeUrl, .b a.value])] =
    recsScalar 1 .i32 (.i code) ++ (recsScalar 2 .str (.b msg) ++
      ((anys.map fun a => (3, Wire.len (encFlat [.str, .bytes] [.b a.typeUrl, .b a.value]))))) := by
  simp [recsL2From, recsL2Field, vStr, List.map_map, Function.comp_def]

theorem spec_status (st : PbStatus) (h : WFs st) :
    status (prost.encStatus st) = some ⟨st.code, st.message, st.details.map fun a => (a.typeUrl, a.value)⟩ := by
  obtain ⟨code, msg, anys⟩ := st
  obtain ⟨hc, hm, hu, hsz⟩ := h
  have hp := parse_encL2 statusSchema (statusToPb ⟨code, msg, anys⟩) (by decide) hsz
  have hok := recOk_encL2 statusSchema (statusToPb ⟨code, msg, anys⟩) (by decide) hsz
  simp only [prost] at hsz ⊢
  simp only [statusSchema, statusToPb, recs_status] at hp hok
  have h1 : varintField 1 (recsScalar 1 .i32 (.i code) ++ (recsScalar 2 .str (.b msg) ++
      ((anys.map fun a => (3, Wire.len (encFlat [.str, .bytes] [.b a.typeUrl, .b a.value])))))) =
      some (u64OfInt code) :=
    varintField_of_occ _ _ _ (by
      rw [occurrences_append, occurrences_append, occ_scalar_i32,
        occ_scalar_ne 1 2 _ _ (by decide),
        occ_map_ne 1 3 (fun a : Any => encFlat [.str, .bytes] [.b a.typeUrl, .b a.value]) anys (by decide)]
      simp)
  have h2 : stringField 2 (recsScalar 1 .i32 (.i code) ++ (recsScalar 2 .str (.b msg) ++
      ((anys.map fun a => (3, Wire.len (encFlat [.str, .bytes] [.b a.typeUrl, .b a.value])))))) = some msg :=
    stringField_of_occ _ _ _ (by
      rw [occurrences_append, occurrences_append, occ_scalar_str,
        occ_scalar_ne 2 1 _ _ (by decide),
        occ_map_ne 2 3 (fun a : Any => encFlat [.str, .bytes] [.b a.typeUrl, .b a.value]) anys (by decide)]
      simp) hm
  have h3 : repeatedLen 3 (recsScalar 1 .i32 (.i code) ++ (recsScalar 2 .str (.b msg) ++
      ((anys.map fun a => (3, Wire.len (encFlat [.str, .bytes] [.b a.typeUrl, .b a.value])))))) =
      some (anys.map fun a => encFlat [.str, .bytes] [.b a.typeUrl, .b a.value]) :=
    repeatedLen_of_occ _ _ _ (by
      rw [occurrences_append, occurrences_append,
        occ_scalar_ne 3 1 _ _ (by decide), occ_scalar_ne 3 2 _ _ (by decide),
        occ_map_self 3 (fun a : Any => encFlat [.str, .bytes] [.b a.typeUrl, .b a.value]) anys]
      simp [Function.comp_def])
  have h4 : (anys.map fun a => encFlat [.str, .bytes] [.b a.typeUrl, .b a.value]).mapM any =
      some (anys.map fun a => (a.typeUrl, a.value)) :=
    mapM_map_of any _ _ anys (by
      intro a ha
      have := hok (3, .len (encFlat [.str, .bytes] [.b a.typeUrl, .b a.value])) (by
        simp only [List.mem_append, List.mem_map]
        exact Or.inr (Or.inr ⟨a, ha, rfl⟩))
      exact spec_any a.typeUrl a.value (hu a ha) this.2.2)
  simp [status, statusSchema, statusToPb, recs_status, hp, h1, h2, h3, h4, int32Of_u64OfInt code hc]

theorem isPerm_refl (l : List (Bytes × Bytes)) : isPerm l l = true := by
  induction l with
  | nil => rfl
  | cons a l ih => simp [isPerm, ih]

theorem sameDetail_refl (d : ErrorDetail) : sameDetail d d = true := by
  cases d <;> simp [sameDetail, isPerm_refl]

theorem sameDetails_refl (ds : List ErrorDetail) : sameDetails ds ds = true := by
  induction ds with
  | nil => rfl
  | cons d ds ih => simp [sameDetails, sameDetail_refl, ih]

theorem spec_standardDetails (ds : List ErrorDetail) (h : ∀ d ∈ ds, WFd d) :
    standardDetails ((ds.map (intoAny prost)).map fun a => (a.typeUrl, a.value)) = some ds := by
  induction ds with
  | nil => rfl
  | cons d ds ih =>
    have hd := h d (by simp)
    have := spec_detailOf d hd.1 hd.2
    have ih' := ih (fun x hx => h x (by simp [hx]))
    simp only [List.map_cons, standardDetails]
    have e : detailOf (intoAny prost d).typeUrl (intoAny prost d).value = some (some d) := this
    rw [e, ih']
    rfl

/-- the details bytes the model writes *are* a google.rpc.Status carrying the given code, message
and details, according to the independent decoder -/
theorem spec_carries (code : Nat) (msg : Bytes) (ds : List ErrorDetail)
    (hd : ∀ d ∈ ds, WFd d) (hs : WFs ⟨code, msg, ds.map (intoAny prost)⟩) :
    carries code msg ds (genDetailsBytes prost code msg (ds.map (intoAny prost))) = true := by
  have h1 := spec_status _ hs
  have h2 := spec_standardDetails ds hd
  simp only [carries, genDetailsBytes, h1, h2, sameDetails_refl]
  simp

theorem spec_carriesSet (code : Nat) (msg : Bytes) (ds : List ErrorDetail)
    (hd : ∀ d ∈ ds, WFd d) (hs : WFs ⟨code, msg, ds.map (intoAny prost)⟩) :
    carriesSet code msg ds (genDetailsBytes prost code msg (ds.map (intoAny prost))) = true := by
  have h1 := spec_status _ hs
  have h2 := spec_standardDetails ds hd
  have h3 : ∀ o : Option ErrorDetail, (match o, o with
      | none, none => true
      | some a, some b => sameDetail a b
      | _, _ => false) = true := by
    intro o; cases o <;> simp [sameDetail_refl]
  simp only [carriesSet, genDetailsBytes, h1, h2]
  simp only [List.length_map, beq_self_eq_true, Bool.and_self, Bool.true_and, List.all_eq_true]
  intro k _
  exact h3 _

theorem spec_embeds (code : Nat) (msg : Bytes) (anys : List Any) (hs : WFs ⟨code, msg, anys⟩) :
    embeds code msg (genDetailsBytes prost code msg anys) = true := by
  simp [embeds, genDetailsBytes, spec_status _ hs]

end SpecWire
