import TonicModel.Lemmas.ShutdownProgress
/-
The part of C13 that is taken from hyper on trust, as one named object, and what follows from it.

`Model/Shutdown` has the five steps that are hyper's to take (`connBreak`, `hsDone`, `final`,
`callStart`, `deliver`) enabled by guards written into `step`; `stepH H` is the same transition
system with those guards replaced by an arbitrary `H : Hyper`.  `HyperGracefulContract H` says what
`H` must satisfy:

  * a SAFETY half (`HyperSafety`): hyper takes each of its steps ONLY in the situations the model
    allows — above all, the connection future resolves only if the peer left, or graceful
    shutdown was requested and either the HTTP/2 handshake had not completed or the final GOAWAY is
    out and every accepted stream has been answered and flushed;
  * a LIVENESS half (`HyperLiveness`): in those situations hyper DOES (eventually) resolve the
    connection future, send the final GOAWAY, and deliver what was written.

Every `stepH H`-execution of a safe `H` is a `step`-execution, so all safety theorems of C13 hold
of it; with the liveness half every maximal run of the server's own steps resolves.
-/
namespace Shutdown

/-- hyper does its steps only where the model allows them -/
structure HyperSafety (H : Hyper) : Prop where
  /-- THE graceful-shutdown contract: the connection future resolves only if the peer left, or
  `graceful_shutdown()` was called and either the handshake had not completed or the final GOAWAY
  is out and every accepted stream is settled (answered completely and flushed, or given up by
  its caller) -/
  connDone_only : ∀ cn, H.connDone cn = true →
    cn.peerGone = true ∨ (cn.graceful = true ∧ cn.hs = false)
      ∨ (cn.final = true ∧ ∀ k ∈ cn.calls, k.settled = true)
  /-- a handshake completes once, not after `graceful_shutdown()`, not without a peer -/
  handshake_only : ∀ cn, H.handshake cn = true →
    cn.hs = false ∧ cn.graceful = false ∧ cn.peerGone = false
  /-- the final GOAWAY follows a `graceful_shutdown()` on a connection that is serving -/
  finalGoaway_only : ∀ cn, H.finalGoaway cn = true →
    cn.hs = true ∧ cn.graceful = true ∧ cn.final = false
  /-- streams are accepted on a serving connection, before the final GOAWAY, once each -/
  acceptStream_only : ∀ cn k, H.acceptStream cn k = true →
    cn.hs = true ∧ cn.final = false ∧ cn.peerGone = false ∧ k.started = false
      ∧ k.cancelled = false
  /-- only what was written is delivered, in order, to a caller that is still there -/
  deliver_only : ∀ cn k, H.deliver cn k = true →
    cn.peerGone = false ∧ k.cancelled = false ∧ k.recv < k.sent.length

/-- hyper does not sit on its hands when shutting down -/
structure HyperLiveness (H : Hyper) : Prop where
  /-- the connection future does resolve in each of the three situations -/
  connDone_when : ∀ cn,
    (cn.peerGone = true ∨ (cn.graceful = true ∧ cn.hs = false)
      ∨ (cn.final = true ∧ ∀ k ∈ cn.calls, k.settled = true)) → H.connDone cn = true
  /-- after `graceful_shutdown()` on a serving connection the final GOAWAY goes out -/
  finalGoaway_when : ∀ cn, cn.hs = true → cn.graceful = true → cn.final = false →
    H.finalGoaway cn = true
  /-- what was written to a stream reaches a caller that is still there -/
  deliver_when : ∀ cn k, cn.peerGone = false → k.cancelled = false → k.recv < k.sent.length →
    H.deliver cn k = true

/-- What C13 needs from hyper / h2.  This — together with tokio's `watch` / `select!` semantics,
which `step` writes out for tonic's own two tasks — is the trusted part of the model. -/
structure HyperGracefulContract (H : Hyper) : Prop extends HyperSafety H, HyperLiveness H

theorem hyperConnDone_iff (cn : Conn) :
    hyperConnDone cn = true ↔
      (cn.peerGone = true ∨ (cn.graceful = true ∧ cn.hs = false)
        ∨ (cn.final = true ∧ ∀ k ∈ cn.calls, k.settled = true)) := by
  simp only [hyperConnDone, Bool.or_eq_true, Bool.and_eq_true, Bool.not_eq_true', List.all_eq_true]
  constructor
  · rintro ((h | h) | h)
    · exact Or.inl h
    · exact Or.inr (Or.inl h)
    · exact Or.inr (Or.inr h)
  · rintro (h | h | h)
    · exact Or.inl (Or.inl h)
    · exact Or.inl (Or.inr h)
    · exact Or.inr h

/-- the guards written into `step` satisfy the contract -/
theorem hyperModel_contract : HyperGracefulContract hyperModel where
  connDone_only cn h := (hyperConnDone_iff cn).1 h
  handshake_only cn h := by simpa [hyperModel, and_assoc] using h
  finalGoaway_only cn h := by simpa [hyperModel, and_assoc] using h
  acceptStream_only cn k h := by simpa [hyperModel, and_assoc] using h
  deliver_only cn k h := by simpa [hyperModel, and_assoc] using h
  connDone_when cn h := (hyperConnDone_iff cn).2 h
  finalGoaway_when cn h1 h2 h3 := by simp [hyperModel, h1, h2, h3]
  deliver_when cn k h1 h2 h3 := by simp [hyperModel, h1, h2, h3]

-- ------------------------------------------------------------------ guards only matter pointwise

theorem updConn_mono {s s' : State} {c : Nat} {g g' : Conn → Bool} {f : Conn → Conn}
    (hgg : ∀ cn, g cn = true → g' cn = true) (h : updConn s c g f = some s') :
    updConn s c g' f = some s' := by
  obtain ⟨cn, hc, hgd, rfl⟩ := updConn_some h
  simp [updConn, hc, hgg cn hgd]

theorem updCall_mono {s s' : State} {c j : Nat} {g g' : Conn → Call → Bool} {f : Call → Call}
    (hgg : ∀ cn k, g cn k = true → g' cn k = true) (h : updCall s c j g f = some s') :
    updCall s c j g' f = some s' := by
  obtain ⟨cn, k, hc, hk, hgd, rfl⟩ := updCall_some h
  simp [updCall, hc, hk, hgg cn k hgd]

/-- SAFETY transfer: a step of the system over a safe hyper is a step of the model. -/
theorem stepH_sub {H : Hyper} (hs : HyperSafety H) {s s' : State} {l : Label}
    (h : stepH H s l = some s') : step s l = some s' := by
  cases l <;> try exact h
  case connBreak c =>
    refine updConn_mono (fun cn hg => ?_) h
    simp only [Bool.and_eq_true] at hg
    simp only [Bool.and_eq_true]
    exact ⟨hg.1, (hyperConnDone_iff cn).2 (hs.connDone_only cn hg.2)⟩
  case hsDone c =>
    refine updConn_mono (fun cn hg => ?_) h
    simp only [Bool.and_eq_true, Bool.not_eq_true'] at hg
    obtain ⟨h1, h2, h3⟩ := hs.handshake_only cn hg.2
    simp [hg.1.1, hg.1.2, h1, h2, h3]
  case final c =>
    refine updConn_mono (fun cn hg => ?_) h
    simp only [Bool.and_eq_true, Bool.not_eq_true'] at hg
    obtain ⟨h1, h2, h3⟩ := hs.finalGoaway_only cn hg.2
    simp [hg.1.1, hg.1.2, h1, h2, h3]
  case callStart c j =>
    refine updCall_mono (fun cn k hg => ?_) h
    simp only [Bool.and_eq_true, Bool.not_eq_true'] at hg
    obtain ⟨h1, h2, h3, h4, h5⟩ := hs.acceptStream_only cn k hg.2
    simp [hg.1.1, hg.1.2, h1, h2, h3, h4, h5]
  case deliver c j =>
    refine updCall_mono (fun cn k hg => ?_) h
    simp only [Bool.and_eq_true, Bool.not_eq_true'] at hg
    obtain ⟨h1, h2, h3⟩ := hs.deliver_only cn k hg.2
    simp [hg.1, h1, h2, h3]

theorem runH_sub {H : Hyper} (hs : HyperSafety H) {ls : List Label} : ∀ {s s' : State},
    runH H s ls = some s' → run s ls = some s' := by
  induction ls with
  | nil => intro s s' h; exact h
  | cons l ls ih =>
    intro s s' h
    simp only [runH] at h
    split at h
    · rename_i s1 hs1
      simp only [run, stepH_sub hs hs1]
      exact ih h
    · cases h

theorem reachableH_sub {H : Hyper} (hs : HyperSafety H) {g b a : Bool} {s : State}
    (h : ReachableH H g b a s) : Reachable g b a s := by
  induction h with
  | init t => exact .init t
  | step l _ hst ih => exact .step l ih (stepH_sub hs hst)

/-- LIVENESS transfer: a draining step of the model is enabled over a live hyper too. -/
theorem stepH_of_step_drains {H : Hyper} (hl : HyperLiveness H) {s : State} {l : Label}
    (hd : l.drains = true) (h : (step s l).isSome = true) : (stepH H s l).isSome = true := by
  obtain ⟨s', hs'⟩ := Option.isSome_iff_exists.1 h
  cases l <;> try exact h
  case hsDone => simp [Label.drains] at hd
  case callStart => simp [Label.drains] at hd
  case connBreak c =>
    have : stepH H s (.connBreak c) = some s' := by
      refine updConn_mono (fun cn hg => ?_) hs'
      simp only [Bool.and_eq_true] at hg
      simp only [Bool.and_eq_true]
      exact ⟨hg.1, hl.connDone_when cn ((hyperConnDone_iff cn).1 hg.2)⟩
    simp [this]
  case final c =>
    have : stepH H s (.final c) = some s' := by
      refine updConn_mono (fun cn hg => ?_) hs'
      simp only [Bool.and_eq_true, Bool.not_eq_true'] at hg
      simp only [Bool.and_eq_true, Bool.not_eq_true']
      exact ⟨⟨hg.1.1.1.1, hg.1.1.1.2⟩, hl.finalGoaway_when cn hg.1.1.2 hg.1.2 hg.2⟩
    simp [this]
  case deliver c j =>
    have : stepH H s (.deliver c j) = some s' := by
      refine updCall_mono (fun cn k hg => ?_) hs'
      simp only [Bool.and_eq_true, Bool.not_eq_true', decide_eq_true_eq] at hg
      simp only [Bool.and_eq_true, Bool.not_eq_true']
      exact ⟨hg.1.1.1, hl.deliver_when cn k hg.1.1.2 hg.1.2 hg.2⟩
    simp [this]

/-- `step` is `stepH` over the model's own guards -/
theorem stepH_hyperModel (s : State) (l : Label) : stepH hyperModel s l = step s l := by
  cases l <;> try rfl
  case hsDone c =>
    simp only [stepH, step, hyperModel, Bool.and_assoc]
  case final c =>
    simp only [stepH, step, hyperModel, Bool.and_assoc]
  case callStart c j =>
    simp only [stepH, step, hyperModel]
    congr 1
    funext cn k
    cases cn.accepted <;> cases cn.closed <;> cases cn.hs <;> cases cn.final <;> cases cn.peerGone
      <;> cases k.started <;> cases k.cancelled <;> rfl
  case deliver c j =>
    simp only [stepH, step, hyperModel, Bool.and_assoc]

-- ------------------------------------------------------------------ closeable states

/-- All connections are closeable: every call its caller still wants has its complete request and
every release its handler still needs (or handlers run freely). -/
def Closeable (s : State) : Prop :=
  ∀ cn ∈ s.conns, ∀ k ∈ cn.calls, k.cancelled = false →
    (k.todo.length ≤ k.permits ∨ s.freeRun = true) ∧ k.reqLeft = 0

theorem unblocked_of_closeable {s : State} (h : Closeable s) : Unblocked s := by
  intro cn hcn _ k hk _ hcan hne
  obtain ⟨hp, hr⟩ := h cn hcn k hk hcan
  refine ⟨?_, reqReady_of_reqLeft hr⟩
  rcases hp with hp | hp
  · left
    have : 0 < k.todo.length := List.length_pos_iff.2 hne
    omega
  · exact Or.inr hp

theorem step_freeRun_internal {s s' : State} {l : Label} (hi : l.internal = true)
    (h : step s l = some s') : s'.freeRun = s.freeRun := by
  cases l <;> simp only [Label.internal] at hi <;> try (exact absurd hi (by decide))
  case loopSig | loopErr | loopEnd | afterLoop | resolve =>
    simp only [step] at h
    split at h
    · cases h; rfl
    · cases h
  case loopAccept | tlsTake =>
    simp only [step] at h
    split at h
    · obtain ⟨_, _, _, rfl⟩ := updConn_some h; rfl
    · cases h
  case connSig | connAge | connBreak | connDropWatcher | hsDone | final | tlsDone | tlsFail =>
    simp only [step] at h
    obtain ⟨_, _, _, rfl⟩ := updConn_some h; rfl
  case callStart | produce | deliver =>
    simp only [step] at h
    obtain ⟨_, _, _, _, _, rfl⟩ := updCall_some h; rfl
  case expire =>
    simp only [step] at h
    split at h
    · obtain ⟨_, _, _, _, _, rfl⟩ := updCall_some h; rfl
    · cases h

/-- the server's own steps keep a closeable state closeable -/
theorem closeable_step {s s' : State} {l : Label} (hd : Closeable s) (hi : l.internal = true)
    (h : step s l = some s') : Closeable s' := by
  have hfr := step_freeRun_internal hi h
  have viaConn : ∀ {c : Nat} {g : Conn → Bool} {f : Conn → Conn},
      updConn s c g f = some s' → (∀ x, (f x).calls = x.calls) → Closeable s' := by
    intro c g f hu hf
    obtain ⟨cn, hc, _, rfl⟩ := updConn_some hu
    intro x hx
    rcases mem_set hx with rfl | hx
    · rw [hf]; exact hd cn (mem_of_getElem? hc)
    · exact hd x hx
  have viaCall : ∀ {c j : Nat} {g : Conn → Call → Bool} {f : Call → Call},
      updCall s c j g f = some s' →
      (∀ cn x, g cn x = true → (f x).cancelled = x.cancelled ∧ (f x).reqLeft = x.reqLeft
        ∧ (x.todo.length ≤ x.permits → (f x).todo.length ≤ (f x).permits)) → Closeable s' := by
    intro c j g f hu hf
    obtain ⟨cn, k, hc, hk, hgd, rfl⟩ := updCall_some hu
    intro x hx
    rcases mem_set hx with rfl | hx
    · intro y hy
      rcases mem_set hy with rfl | hy
      · intro hcan
        obtain ⟨f1, f2, f3⟩ := hf cn k hgd
        obtain ⟨hp, hr⟩ := hd cn (mem_of_getElem? hc) k (mem_of_getElem? hk) (f1 ▸ hcan)
        refine ⟨?_, f2 ▸ hr⟩
        rcases hp with hp | hp
        · exact Or.inl (f3 hp)
        · exact Or.inr hp
      · exact hd cn (mem_of_getElem? hc) y hy
    · exact hd x hx
  cases l <;> simp only [Label.internal] at hi <;> try (exact absurd hi (by decide))
  case loopSig | loopErr | loopEnd | afterLoop =>
    simp only [step] at h
    split at h
    · cases h; exact hd
    · cases h
  case loopAccept c =>
    simp only [step] at h
    split at h
    · exact viaConn h (fun _ => rfl)
    · cases h
  case tlsTake c =>
    simp only [step] at h
    split at h
    · exact viaConn h (fun _ => rfl)
    · cases h
  case resolve =>
    simp only [step] at h
    split at h
    · cases h
      intro x hx
      obtain ⟨cn, hcn, rfl⟩ := List.mem_map.1 hx
      exact hd cn hcn
    · cases h
  case tlsDone c => exact viaConn h (fun _ => rfl)
  case tlsFail c => exact viaConn h (fun _ => rfl)
  case connSig c => exact viaConn h (fun _ => rfl)
  case connAge c => exact viaConn h (fun _ => rfl)
  case connBreak c => exact viaConn h (fun _ => rfl)
  case connDropWatcher c => exact viaConn h (fun _ => rfl)
  case hsDone c => exact viaConn h (fun _ => rfl)
  case final c => exact viaConn h (fun _ => rfl)
  case callStart c j => exact viaCall h (fun _ _ _ => ⟨rfl, rfl, id⟩)
  case produce c j =>
    refine viaCall h (fun cn x hg => ?_)
    simp only [Bool.and_eq_true, Bool.not_eq_true', List.isEmpty_eq_false_iff] at hg
    unfold Call.produce
    split
    · rename_i ch rest htodo
      refine ⟨rfl, rfl, fun hle => ?_⟩
      simp only [htodo, List.length_cons] at hle
      show rest.length ≤ x.permits - 1
      omega
    · exact ⟨rfl, rfl, id⟩
  case deliver c j => exact viaCall h (fun _ _ _ => ⟨rfl, rfl, id⟩)
  case expire c j =>
    simp only [step] at h
    split at h
    · exact viaCall h (fun _ _ _ => ⟨rfl, rfl, fun _ => Nat.zero_le _⟩)
    · cases h

/-- What holds at the start of a drain keeps holding along any run of the server's own steps. -/
structure Draining (s : State) : Prop where
  good : Good s
  graceful : s.cfgGraceful = true
  requested : ShutdownRequested s
  closeable : Closeable s

theorem draining_step {s s' : State} {l : Label} (hd : Draining s) (hi : l.internal = true)
    (h : step s l = some s') : Draining s' := by
  have hm := step_mono h
  refine ⟨good_step hd.good h, (step_cfg h).1.trans hd.graceful, ?_, closeable_step hd.closeable hi h⟩
  rcases hd.requested with hx | hx | hx
  · exact Or.inl (hm.1 hx)
  · exact Or.inr (Or.inl (hm.2.1 hx))
  · exact Or.inr (Or.inr (hm.2.2.1 hx))

theorem draining_run {ls : List Label} : ∀ {s s' : State}, Draining s →
    (∀ l ∈ ls, l.internal = true) → run s ls = some s' → Draining s' := by
  induction ls with
  | nil => intro s s' hd _ h; simp only [run, Option.some.injEq] at h; exact h ▸ hd
  | cons l ls ih =>
    intro s s' hd hall h
    simp only [run] at h
    split at h
    · rename_i s1 hs1
      exact ih (draining_step hd (hall l List.mem_cons_self) hs1)
        (fun x hx => hall x (List.mem_cons_of_mem _ hx)) h
    · cases h

/-- A draining server that has not resolved can take a draining step of its own. -/
theorem draining_progress {s : State} (hd : Draining s) (hres : s.resolved = false) :
    ∃ l, l.internal = true ∧ l.drains = true ∧ (step s l).isSome = true :=
  progress_drains hd.good hd.graceful hd.requested (unblocked_of_closeable hd.closeable) hres

/-- decidable form of `RequestsDone` for the examples -/
def requestsDoneB (s : State) : Bool :=
  s.conns.all fun cn => cn.calls.all fun k => k.cancelled || k.reqLeft == 0

theorem requestsDone_of_bool {s : State} (h : requestsDoneB s = true) : RequestsDone s := by
  intro cn hcn k hk hcan
  simp only [requestsDoneB, List.all_eq_true, Bool.or_eq_true, beq_iff_eq] at h
  rcases h cn hcn k hk with h1 | h1
  · simp [hcan] at h1
  · exact h1

/-- decidable form of `Closeable` (for examples) -/
def closeableB (s : State) : Bool :=
  s.conns.all fun cn => cn.calls.all fun k =>
    k.cancelled || ((decide (k.todo.length ≤ k.permits) || s.freeRun) && k.reqLeft == 0)

theorem closeable_of_bool {s : State} (h : closeableB s = true) : Closeable s := by
  intro cn hcn k hk hcan
  simp only [closeableB, List.all_eq_true, Bool.or_eq_true, Bool.and_eq_true,
    decide_eq_true_eq, beq_iff_eq] at h
  rcases h cn hcn k hk with h1 | h1
  · simp [hcan] at h1
  · exact h1

end Shutdown
