import TonicModel.Model.Reconnect
import TonicModel.Spec.Reconnect
/-
Lemmas about `Reconnect.ErrClass` (the model of `Status::from_error`): plain wrappers are
transparent, the first meaningful node decides, a connect error decides UNAVAILABLE whatever its
cause is.
-/
namespace Reconnect.ErrClass
open ErrChain

theorem findInChain_plain_cons (n : Node) (rest : List Node) (h : n.plain = true) :
    findInChain (n :: rest) = findInChain rest := by
  cases n <;> simp_all [Node.plain, findInChain]

/-- Wrappers that mean nothing by themselves are looked through. -/
theorem findInChain_plain_prefix (pre rest : List Node) (h : ∀ n ∈ pre, n.plain = true) :
    findInChain (pre ++ rest) = findInChain rest := by
  induction pre with
  | nil => rfl
  | cons n pre ih =>
    rw [List.cons_append, findInChain_plain_cons n _ (h n (by simp))]
    exact ih (fun m hm => h m (by simp [hm]))

theorem tryFromError_plain_cons (n : Node) (rest : List Node) (h : n.plain = true) :
    tryFromError (n :: rest) = findInChain rest := by
  cases n <;> simp_all [Node.plain, tryFromError, findInChain]

/-- The outermost-error shortcuts of `try_from_error` do not fire on a chain whose search result
is already decided by `find_status_in_source_chain` at a node they do not look at. -/
theorem tryFromError_prefix (pre : List Node) (n : Node) (rest : List Node)
    (h : ∀ m ∈ pre, m.plain = true) (hn : ∀ c, n ≠ .status c) (hh : ∀ r, n ≠ .h2 r) :
    tryFromError (pre ++ n :: rest) = findInChain (n :: rest) := by
  cases pre with
  | nil =>
    cases n <;> simp_all [tryFromError]
  | cons m pre =>
    rw [List.cons_append, tryFromError_plain_cons m _ (h m (by simp))]
    exact findInChain_plain_prefix pre _ (fun k hk => h k (by simp [hk]))

/-- A connect error under any plain wrappers, over ANY cause chain: UNAVAILABLE. -/
theorem fromError_connect (pre cause : List Node) (h : ∀ n ∈ pre, n.plain = true) :
    fromError (pre ++ .connectError :: cause) = 14 := by
  unfold fromError
  rw [tryFromError_prefix pre .connectError cause h (by simp) (by simp)]
  rfl

/-- A `Status` under plain wrappers: its own code. -/
theorem fromError_status (pre rest : List Node) (c : Nat) (h : ∀ n ∈ pre, n.plain = true) :
    fromError (pre ++ .status c :: rest) = c := by
  unfold fromError
  cases pre with
  | nil => simp [tryFromError]
  | cons m pre =>
    rw [List.cons_append, tryFromError_plain_cons m _ (h m (by simp)),
      findInChain_plain_prefix pre _ (fun k hk => h k (by simp [hk]))]
    rfl

/-- `TimeoutExpired` under plain wrappers: CANCELLED. -/
theorem fromError_timeoutExpired (pre rest : List Node) (h : ∀ n ∈ pre, n.plain = true) :
    fromError (pre ++ .timeoutExpired :: rest) = 1 := by
  unfold fromError
  rw [tryFromError_prefix pre .timeoutExpired rest h (by simp) (by simp)]
  rfl

/-- Nothing recognisable: UNKNOWN. -/
theorem fromError_plain (chain : List Node) (h : ∀ n ∈ chain, n.plain = true) :
    fromError chain = 2 := by
  unfold fromError
  cases chain with
  | nil => rfl
  | cons m rest =>
    rw [tryFromError_plain_cons m _ (h m (by simp))]
    have := findInChain_plain_prefix rest [] (fun k hk => h k (by simp [hk]))
    rw [List.append_nil] at this
    rw [this]; rfl

/-- The error of a failed connection attempt on the fixed tree, for ANY cause. -/
theorem fromError_attempt (inConnector : Bool) (cause : List Node) :
    fromError (attemptChain true inConnector cause) = 14 := by
  unfold attemptChain
  exact fromError_connect [.transport] _ (by simp [Node.plain])

/-- On the pinned tree a failure raised outside `Connector::call` is not a connect error: the
class then depends on the cause (here: all plain ⇒ UNKNOWN). -/
theorem fromError_attempt_unfixed (cause : List Node) (h : ∀ n ∈ cause, n.plain = true) :
    fromError (attemptChain false false cause) = 2 := by
  unfold attemptChain
  apply fromError_plain
  intro n hn
  simp at hn
  rcases hn with rfl | hn
  · rfl
  · exact h n hn

/-- The spec's reading of "this is a connection failure" agrees with the shape used above. -/
theorem isConnectFailure_iff (chain : List Node) :
    Spec.Reconnect.isConnectFailure chain = true ↔
      ∃ pre cause, chain = pre ++ .connectError :: cause ∧ ∀ n ∈ pre, n.plain = true := by
  induction chain with
  | nil => simp [Spec.Reconnect.isConnectFailure]
  | cons n rest ih =>
    by_cases hc : n = .connectError
    · subst hc
      simp only [Spec.Reconnect.isConnectFailure, true_iff]
      exact ⟨[], rest, rfl, by simp⟩
    · have hdef : Spec.Reconnect.isConnectFailure (n :: rest) =
          (n.plain && Spec.Reconnect.isConnectFailure rest) := by
        cases n <;> simp_all [Spec.Reconnect.isConnectFailure]
      rw [hdef, Bool.and_eq_true, ih]
      constructor
      · rintro ⟨hp, pre, cause, rfl, hpre⟩
        exact ⟨n :: pre, cause, rfl, by
          intro m hm
          simp at hm
          rcases hm with rfl | hm
          · exact hp
          · exact hpre m hm⟩
      · rintro ⟨pre, cause, heq, hpre⟩
        cases pre with
        | nil => simp at heq; exact absurd heq.1 hc
        | cons m pre =>
          simp at heq
          obtain ⟨rfl, rfl⟩ := heq
          exact ⟨hpre n (by simp), pre, cause, rfl, fun k hk => hpre k (by simp [hk])⟩

/-- What the model answers satisfies the class clause of the oracle, for every chain. -/
theorem classClauses_hold (chain : List Node) :
    (Spec.Reconnect.classClauses chain (fromError chain)).all (·.2) = true := by
  simp only [Spec.Reconnect.classClauses, List.all_cons, List.all_nil, Bool.and_true]
  by_cases h : Spec.Reconnect.isConnectFailure chain = true
  · obtain ⟨pre, cause, rfl, hpre⟩ := (isConnectFailure_iff chain).1 h
    simp [fromError_connect pre cause hpre, ConnScript.unavailable]
  · simp [h]

end Reconnect.ErrClass
