import TonicModel.Basic.HealthLin
import TonicModel.Lemmas.HealthLin
/-
Real-time order of the schedules found by the linearizability search (C18).

`Lin.Run` records, for every pick, `Lin.minimal c others`: no HEAD of another task had returned
before `c` was invoked.  That is the real-time condition for ALL pending calls only when every
task's return stamps increase along the task — which is a property of the record, not of the
search.  Here: the condition for all pending calls (`Enabled`), the schedule predicate with it
(`RunRT`), and `Run → RunRT` for records whose stamps increase (`wellStamped`).
-/
namespace Health.Lin

/-- return stamps do not decrease along a task's calls -/
def increasing : List Call → Bool
  | [] => true
  | [_] => true
  | d :: e :: r => decide (d.res ≤ e.res) && increasing (e :: r)

/-- every task of the record has increasing return stamps -/
def wellStamped (ts : List Task) : Bool := ts.all (fun t => increasing t.calls)

/-- `c` may come next in real time: NO pending call of another task (head or not) had returned
before `c` was invoked. -/
def Enabled (c : Call) (others : List Task) : Prop :=
  ∀ t ∈ others, ∀ e ∈ t.calls, ¬ e.res < c.inv

/-- `Run` with the real-time condition on all pending calls instead of the heads. -/
inductive RunRT {σ : Type} (acc : σ → Op → Resp → Option σ) (nslots : σ → Nat) : σ → List Task → Prop
  | done {s : σ} {ts : List Task} : total ts = 0 → RunRT acc nslots s ts
  | step {s s' : σ} {ts : List Task} {c : Call} {t : Task} {others : List Task} :
      (c, t, others) ∈ picks [] ts → Enabled c others →
      acc s (localise t c.op) c.ans = some s' →
      RunRT acc nslots s' (afterCall nslots s c t :: others) → RunRT acc nslots s ts

theorem increasing_cons {d : Call} {l : List Call} (h : increasing (d :: l) = true) :
    (∀ e ∈ l, d.res ≤ e.res) ∧ increasing l = true := by
  induction l generalizing d with
  | nil => exact ⟨fun _ h => (by cases h), rfl⟩
  | cons e r ih =>
    simp only [increasing, Bool.and_eq_true, decide_eq_true_eq] at h
    obtain ⟨h1, h2⟩ := h
    obtain ⟨h3, _⟩ := ih h2
    refine ⟨?_, h2⟩
    intro x hx
    rcases List.mem_cons.1 hx with rfl | hx
    · exact h1
    · exact Nat.le_trans h1 (h3 x hx)

theorem enabled_of_minimal {c : Call} {others : List Task} (hw : wellStamped others = true)
    (hm : minimal c others = true) : Enabled c others := by
  intro t ht e he
  have hinc : increasing t.calls = true := (List.all_eq_true.1 hw) t ht
  have hmt := (List.all_eq_true.1 hm) t ht
  cases hc : t.calls with
  | nil => rw [hc] at he; cases he
  | cons d rest =>
    rw [hc] at he hinc
    simp only [hc, Bool.not_eq_true', decide_eq_false_iff_not] at hmt
    rcases List.mem_cons.1 he with rfl | he
    · exact hmt
    · have := (increasing_cons hinc).1 e he
      omega

/-- what `picks` returns: the head of one task, that task without it, and the other tasks -/
theorem picks_spec {c : Call} {t : Task} {others : List Task} :
    ∀ (after before : List Task), (c, t, others) ∈ picks before after →
      (∃ t0 ∈ after, t0.calls = c :: t.calls) ∧ ∀ o ∈ others, o ∈ before ∨ o ∈ after := by
  intro after
  induction after with
  | nil => intro before h; simp [picks] at h
  | cons t0 after ih =>
    intro before h
    simp only [picks, List.mem_append] at h
    rcases h with h | h
    · cases hc : t0.calls with
      | nil => simp [hc] at h
      | cons c0 cs =>
        simp only [hc, List.mem_singleton, Prod.mk.injEq] at h
        obtain ⟨rfl, rfl, rfl⟩ := h
        refine ⟨⟨t0, List.mem_cons_self, hc⟩, ?_⟩
        intro o ho
        rcases List.mem_append.1 ho with ho | ho
        · exact Or.inl (List.mem_reverse.1 ho)
        · exact Or.inr (List.mem_cons_of_mem _ ho)
    · obtain ⟨⟨t1, ht1, hc1⟩, hothers⟩ := ih (t0 :: before) h
      refine ⟨⟨t1, List.mem_cons_of_mem _ ht1, hc1⟩, ?_⟩
      intro o ho
      rcases hothers o ho with h1 | h1
      · rcases List.mem_cons.1 h1 with rfl | h1
        · exact Or.inr List.mem_cons_self
        · exact Or.inl h1
      · exact Or.inr (List.mem_cons_of_mem _ h1)

theorem afterCall_calls {σ : Type} (nslots : σ → Nat) (s : σ) (c : Call) (t : Task) :
    (afterCall nslots s c t).calls = t.calls := by
  unfold afterCall; split <;> rfl

/-- **On a record whose stamps increase inside every task, a `Run` respects real time for all
pending calls.** -/
theorem run_realtime {σ : Type} (acc : σ → Op → Resp → Option σ) (nslots : σ → Nat)
    {s : σ} {ts : List Task} (h : Run acc nslots s ts) (hw : wellStamped ts = true) :
    RunRT acc nslots s ts := by
  induction h with
  | done h0 => exact .done h0
  | @step s s' ts c t others hp hm hacc _ ih =>
    obtain ⟨⟨t0, ht0, hc0⟩, hothers⟩ := picks_spec ts [] hp
    have hall := List.all_eq_true.1 hw
    have hwo : wellStamped others = true := by
      apply List.all_eq_true.2
      intro o ho
      rcases hothers o ho with h1 | h1
      · cases h1
      · exact hall o h1
    have hwt : increasing t.calls = true := by
      have := hall t0 ht0
      rw [hc0] at this
      exact (increasing_cons this).2
    refine .step hp (enabled_of_minimal hwo hm) hacc (ih ?_)
    apply List.all_eq_true.2
    intro o ho
    rcases List.mem_cons.1 ho with rfl | ho
    · rw [afterCall_calls]; exact hwt
    · exact (List.all_eq_true.1 hwo) o ho

end Health.Lin
