import TonicModel.Model.ShutdownBurst
import TonicModel.Lemmas.Shutdown
import TonicModel.Lemmas.ShutdownTrack
import TonicModel.Lemmas.ShutdownLive
/-
C13, bursts: following ONE connection slot through a run — the only step that can turn an offered
connection into an accepted one is the accept loop's `loopAccept` of that very slot.  With
`accept_disabled` (the biased loop takes nothing once the signal is ready) this gives the burst
statement: whatever is still queued when the signal becomes ready is never accepted.
-/
namespace Shutdown

/-- slot `c` holds a connection, and the accept loop has not taken it -/
def Unaccepted (s : State) (c : Nat) : Prop := ∃ cn, s.conns[c]? = some cn ∧ cn.accepted = false

theorem unaccepted_updConn {s s' : State} {c' c : Nat} {g : Conn → Bool} {f : Conn → Conn}
    (h : updConn s c' g f = some s') (hu : Unaccepted s c)
    (hf : ∀ x, c' = c → x.accepted = false → (f x).accepted = false) : Unaccepted s' c := by
  obtain ⟨cn, hc, ha⟩ := hu
  obtain ⟨cn0, hc0, _, rfl⟩ := updConn_some h
  rcases getElem?_set_cases (i := c') (a := f cn0) hc with ⟨rfl, hs⟩ | ⟨_, hs⟩
  · have : cn0 = cn := by rw [hc0] at hc; exact Option.some.inj hc
    subst this
    exact ⟨_, hs, hf _ rfl ha⟩
  · exact ⟨cn, hs, ha⟩

theorem unaccepted_updCall {s s' : State} {c' j' c : Nat} {g : Conn → Call → Bool} {f : Call → Call}
    (h : updCall s c' j' g f = some s') (hu : Unaccepted s c) : Unaccepted s' c := by
  obtain ⟨cn, hc, ha⟩ := hu
  obtain ⟨cn0, k0, hc0, _, _, rfl⟩ := updCall_some h
  rcases getElem?_set_cases (i := c') (a := { cn0 with calls := cn0.calls.set j' (f k0) }) hc
    with ⟨rfl, hs⟩ | ⟨_, hs⟩
  · have : cn0 = cn := by rw [hc0] at hc; exact Option.some.inj hc
    subst this
    exact ⟨_, hs, ha⟩
  · exact ⟨cn, hs, ha⟩

theorem unaccepted_append {s : State} {c : Nat} (hu : Unaccepted s c) (extra : List Conn) :
    Unaccepted { s with conns := s.conns ++ extra } c := by
  obtain ⟨cn, hc, ha⟩ := hu
  refine ⟨cn, ?_, ha⟩
  show (s.conns ++ extra)[c]? = some cn
  rw [List.getElem?_append_left]
  · exact hc
  · rcases Nat.lt_or_ge c s.conns.length with h' | h'
    · exact h'
    · rw [List.getElem?_eq_none h'] at hc; cases hc

/-- ONE STEP: a connection that has not been accepted stays unaccepted under every step of the
system except the accept loop's `loopAccept` of that very connection. -/
theorem step_keeps_unaccepted {s s' : State} {l : Label} {c : Nat}
    (h : step s l = some s') (hu : Unaccepted s c) (hl : l ≠ .loopAccept c) : Unaccepted s' c := by
  have viaConn : ∀ {c' : Nat} {g : Conn → Bool} {f : Conn → Conn},
      updConn s c' g f = some s' → (∀ x, (f x).accepted = x.accepted) → Unaccepted s' c :=
    fun hu' hf => unaccepted_updConn hu' hu (fun x _ hx => (hf x).trans hx)
  cases l <;> simp only [step] at h
  case offer => cases h; exact unaccepted_append hu _
  case offerTls => cases h; exact unaccepted_append hu _
  case freeRun => cases h; exact hu
  case sigFire | endIncoming | acceptErr | loopSig | loopErr | loopEnd | afterLoop =>
    split at h
    · cases h; exact hu
    · cases h
  case resolve =>
    split at h
    · cases h
      obtain ⟨cn, hc, ha⟩ := hu
      refine ⟨{ cn with pending := false }, ?_, ha⟩
      show (s.conns.map _)[c]? = _
      rw [List.getElem?_map, hc]; rfl
    · cases h
  case clientHello | tlsDone | tlsFail | peerDrop | connSig | connAge | connBreak
     | connDropWatcher | hsDone | final | issue =>
    exact viaConn h (fun _ => rfl)
  case tlsTake | ageTick =>
    split at h
    · exact viaConn h (fun _ => rfl)
    · cases h
  case loopAccept c' =>
    split at h
    · refine unaccepted_updConn h hu ?_
      intro x hcc _
      exact absurd (hcc ▸ rfl) hl
    · cases h
  case reqSend | permit | cancel | callStart | produce | deliver =>
    exact unaccepted_updCall h hu
  case deadlineTick | expire =>
    split at h
    · exact unaccepted_updCall h hu
    · cases h

/-- ALONG A RUN in which the accept loop is never handed connection `c`. -/
theorem run_keeps_unaccepted {ls : List Label} : ∀ {s s' : State} {c : Nat},
    run s ls = some s' → Unaccepted s c → (∀ l ∈ ls, l ≠ .loopAccept c) → Unaccepted s' c := by
  induction ls with
  | nil => intro s s' c h hu _; simp only [run, Option.some.injEq] at h; exact h ▸ hu
  | cons l ls ih =>
    intro s s' c h hu hl
    simp only [run] at h
    split at h
    · rename_i s1 hs1
      exact ih h (step_keeps_unaccepted hs1 hu (hl l (List.mem_cons_self ..)))
        (fun x hx => hl x (List.mem_cons_of_mem _ hx))
    · cases h

/-- ALONG ANY RUN of the repaired (`biased;`) server that starts with the signal ready: the labels
are arbitrary — an accept simply cannot be among the steps taken. -/
theorem run_keeps_unaccepted_after_signal {g a : Bool} {ls : List Label} : ∀ {s s' : State} {c : Nat},
    Reachable g true a s → s.sigReady = true → run s ls = some s' → Unaccepted s c →
    Unaccepted s' c := by
  induction ls with
  | nil => intro s s' c _ _ h hu; simp only [run, Option.some.injEq] at h; exact h ▸ hu
  | cons l ls ih =>
    intro s s' c hr hsig h hu
    simp only [run] at h
    split at h
    · rename_i s1 hs1
      have hne : l ≠ .loopAccept c := by
        intro e
        subst e
        have := accept_disabled (good_reachable hr) (Or.inl ⟨(reachable_cfg hr).2.1, hsig⟩) c
        rw [this] at hs1; cases hs1
      exact ih (.step l hr hs1) ((step_mono hs1).1 hsig) h (step_keeps_unaccepted hs1 hu hne)
    · cases h

theorem run_offers_length {n : Nat} : ∀ {s s' : State}, run s (burstOffers n) = some s' →
    s'.conns.length = s.conns.length + n := by
  induction n with
  | zero => intro s s' h; simp only [burstOffers, List.replicate, run, Option.some.injEq] at h; subst h; rfl
  | succ n ih =>
    intro s s' h
    simp only [burstOffers, List.replicate, run, step] at h
    have := ih (s := { s with conns := s.conns ++ [Conn.new (!s.ended && !s.resolved) s.sigReady] }) h
    rw [this]; simp; omega

/-- after a burst of `n` offers every one of the new slots holds an unaccepted connection -/
theorem run_offers_unaccepted {n : Nat} : ∀ {s s' : State} {i : Nat}, run s (burstOffers n) = some s' →
    i < n → Unaccepted s' (s.conns.length + i) := by
  induction n with
  | zero => intro s s' i _ hi; omega
  | succ n ih =>
    intro s s' i h hi
    simp only [burstOffers, List.replicate, run, step] at h
    cases i with
    | zero =>
      -- the slot the first offer fills; the other offers leave it alone
      refine run_keeps_unaccepted (c := s.conns.length) h ⟨Conn.new (!s.ended && !s.resolved) s.sigReady, ?_, rfl⟩ ?_
      · simp
      · intro l hl
        have : l = .offer := List.eq_of_mem_replicate hl
        subst this
        intro e; cases e
    | succ i =>
      have := ih (s := { s with conns := s.conns ++ [Conn.new (!s.ended && !s.resolved) s.sigReady] })
        (i := i) h (by omega)
      have hlen : ({ s with conns := s.conns ++ [Conn.new (!s.ended && !s.resolved) s.sigReady] } : State).conns.length
          = s.conns.length + 1 := by simp
      rw [hlen] at this
      have e : s.conns.length + (i + 1) = s.conns.length + 1 + i := by omega
      rw [e]; exact this

theorem mem_burstAccepts {base j : Nat} {l : Label} (h : l ∈ burstAccepts base j) :
    ∃ i, i < j ∧ l = .loopAccept (base + i) := by
  simp only [burstAccepts, List.mem_map, List.mem_range] at h
  obtain ⟨i, hi, rfl⟩ := h
  exact ⟨i, hi, rfl⟩

/-- THE BURST, state form.  Any reachable state of the repaired server; `n` connections are offered
at once, the accept loop is handed the first `j` of them, the signal becomes ready, and then
ANYTHING happens (`rest`): each of the connections `j`, …, `n - 1` of the burst is still there and
has not been accepted. -/
theorem burst_rest_unaccepted {g a : Bool} {s0 s2 : State} (h0 : Reachable g true a s0)
    (n j : Nat) (rest : List Label)
    (hrun : run s0 (burstLabels s0.conns.length n j ++ rest) = some s2)
    (i : Nat) (hji : j ≤ i) (hin : i < n) : Unaccepted s2 (s0.conns.length + i) := by
  simp only [burstLabels, List.append_assoc] at hrun
  rw [run_append] at hrun
  cases h1 : run s0 (burstOffers n) with
  | none => simp [h1] at hrun
  | some s1 =>
    simp only [h1, Option.bind_some] at hrun
    rw [run_append] at hrun
    cases h2 : run s1 (burstAccepts s0.conns.length j) with
    | none => simp [h2] at hrun
    | some s1' =>
      simp only [h2, Option.bind_some] at hrun
      rw [run_append] at hrun
      cases h3 : run s1' [.sigFire] with
      | none => simp [h3] at hrun
      | some s1'' =>
        simp only [h3, Option.bind_some] at hrun
        have hu1 : Unaccepted s1 (s0.conns.length + i) := run_offers_unaccepted h1 hin
        have hu2 : Unaccepted s1' (s0.conns.length + i) := by
          refine run_keeps_unaccepted h2 hu1 ?_
          intro l hl e
          obtain ⟨i', hi', rfl⟩ := mem_burstAccepts hl
          injection e with e
          omega
        have hu3 : Unaccepted s1'' (s0.conns.length + i) := by
          refine run_keeps_unaccepted h3 hu2 ?_
          intro l hl e
          simp only [List.mem_singleton] at hl
          subst hl
          cases e
        have hr3 : Reachable g true a s1'' :=
          reachable_run (reachable_run (reachable_run h0 h1) h2) h3
        have hsig : s1''.sigReady = true := by
          simp only [run, step] at h3
          split at h3
          · rename_i s' hs'
            split at hs'
            · cases hs'; cases h3; rfl
            · cases hs'
          · cases h3
        exact run_keeps_unaccepted_after_signal hr3 hsig hrun hu3

end Shutdown
