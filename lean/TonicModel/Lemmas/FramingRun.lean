import TonicModel.Lemmas.FramingDec
/-
Run-level consequences for the decoder model: prefix-correctness for arbitrary event lists,
finality of the first error, and complete drains of clean bodies.
-/
namespace Framing
open Spec.Framing
variable {α : Type}

def Item.isPending : Item α → Bool
  | .pending => true
  | _ => false

/-- outputs with the `Pending`s dropped -/
def nonPending (l : List (Item α)) : List (Item α) := l.filter (fun o => !o.isPending)

/-- the messages among the outputs, in order -/
def msgsOf : List (Item α) → List α
  | [] => []
  | .msg m :: r => m :: msgsOf r
  | _ :: r => msgsOf r

theorem phaseOk_or_failed (cfg : DecCfg) (s : DecSt) : PhaseOk cfg s ∨ ∃ st, s.ph = .failed st ∨
    (∃ len comp, s.ph = .body len comp ∧ ¬ (comp = none ∨ comp = cfg.enc)) := by
  cases h : s.ph with
  | hdr => left; simp [PhaseOk, h]
  | failed st => right; exact ⟨st, Or.inl rfl⟩
  | body len comp =>
    by_cases hc : comp = none ∨ comp = cfg.enc
    · left; simp [PhaseOk, h, hc]
    · right; exact ⟨none, Or.inr ⟨len, comp, rfl, hc⟩⟩

theorem pollNext_failed (cd : Codec α) (cfg : DecCfg) (s : DecSt) (st : Option St) (evs : List BodyEv)
    (h : s.ph = .failed st) :
    Dec.pollNext cd cfg s evs =
      ({ s with ph := .failed none }, evs, match st with | some e => .err e | none => .none) := by
  cases evs <;> cases st <;> simp [Dec.pollNext, Dec.pre, h]

theorem run_failed (cd : Codec α) (cfg : DecCfg) (n : Nat) : ∀ (s : DecSt) (evs : List BodyEv),
    s.ph = .failed none → Dec.run cd cfg n s evs = List.replicate n .none := by
  induction n with
  | zero => intros; rfl
  | succ n ih =>
    intro s evs h
    simp only [Dec.run, pollNext_failed cd cfg s none evs h, List.replicate_succ]
    rw [ih _ evs rfl]

/-- Once a poll has returned an error the stream is latched. -/
theorem poll_err_latches (cd : Codec α) (cfg : DecCfg) (s : DecSt) (evs : List BodyEv) (e : St)
    (hinv : ∀ len comp, s.ph = .body len comp → comp = none ∨ comp = cfg.enc)
    (h : (Dec.pollNext cd cfg s evs).2.2 = .err e) : (Dec.pollNext cd cfg s evs).1.ph = .failed none := by
  cases hph : s.ph with
  | failed st => rw [pollNext_failed cd cfg s st evs hph]
  | hdr =>
    have := pollNext_good cd cfg evs s (by simp [PhaseOk, hph])
    rw [h] at this; exact this.2
  | body len comp =>
    have := pollNext_good cd cfg evs s (by simpa [PhaseOk, hph] using hinv len comp hph)
    rw [h] at this; exact this.2

/-- Reachable-state invariant: a `body` phase remembers identity or the negotiated encoding. -/
def StateOk (cfg : DecCfg) (s : DecSt) : Prop :=
  ∀ len comp, s.ph = .body len comp → comp = none ∨ comp = cfg.enc

theorem stateOk_of_phaseOk {cfg : DecCfg} {s : DecSt} (h : PhaseOk cfg s) : StateOk cfg s := by
  intro len comp hph; simpa [PhaseOk, hph] using h

theorem stateOk_step (cd : Codec α) (cfg : DecCfg) (s : DecSt) (evs : List BodyEv) (h : StateOk cfg s) :
    StateOk cfg (Dec.pollNext cd cfg s evs).1 := by
  cases hph : s.ph with
  | failed st =>
    rw [pollNext_failed cd cfg s st evs hph]; intro len comp hb; simp at hb
  | hdr =>
    have hg := pollNext_good cd cfg evs s (by simp [PhaseOk, hph])
    generalize Dec.pollNext cd cfg s evs = r at hg
    obtain ⟨s', evs', o⟩ := r
    cases o with
    | msg m => exact stateOk_of_phaseOk hg.2.1
    | pending => exact stateOk_of_phaseOk hg.2.1
    | none => exact stateOk_of_phaseOk hg.2.1
    | err st => intro len comp hb; rw [hg.2] at hb; simp at hb
  | body len comp =>
    have hg := pollNext_good cd cfg evs s (by simpa [PhaseOk, hph] using h len comp hph)
    generalize Dec.pollNext cd cfg s evs = r at hg
    obtain ⟨s', evs', o⟩ := r
    cases o with
    | msg m => exact stateOk_of_phaseOk hg.2.1
    | pending => exact stateOk_of_phaseOk hg.2.1
    | none => exact stateOk_of_phaseOk hg.2.1
    | err st => intro len comp hb; rw [hg.2] at hb; simp at hb

/-- The first error is final, for every event list and every number of polls. -/
theorem run_first_error_final (cd : Codec α) (cfg : DecCfg) (n : Nat) :
    ∀ (s : DecSt) (evs : List BodyEv) (pre post : List (Item α)) (e : St), StateOk cfg s →
      Dec.run cd cfg n s evs = pre ++ .err e :: post → ∀ o ∈ post, o = .none := by
  induction n with
  | zero => intro s evs pre post e _ h; simp [Dec.run] at h
  | succ n ih =>
    intro s evs pre post e hs h
    simp only [Dec.run] at h
    have hl := poll_err_latches cd cfg s evs
    have hstep := stateOk_step cd cfg s evs hs
    generalize Dec.pollNext cd cfg s evs = r at h hl hstep
    obtain ⟨s', evs', o⟩ := r
    cases pre with
    | nil =>
      simp only [List.nil_append, List.cons.injEq] at h
      obtain ⟨ho, hrest⟩ := h
      have := hl e hs (by simpa using ho)
      rw [run_failed cd cfg n s' evs' this] at hrest
      intro o' ho'
      rw [← hrest] at ho'
      exact (List.mem_replicate.mp ho').2
    | cons p pre' =>
      simp only [List.cons_append, List.cons.injEq] at h
      exact ih s' evs' pre' post e hstep h.2

theorem msgsOf_replicate_none (n : Nat) : msgsOf (List.replicate n (Item.none : Item α)) = [] := by
  induction n with
  | zero => rfl
  | succ n ih => simp [List.replicate_succ, msgsOf, ih]

/-- Every message ever yielded is, in order, a message of the reference decoding of the data
delivered — for arbitrary event lists (errors and trailers anywhere) and any number of polls. -/
theorem run_msgs_prefix (cd : Codec α) (cfg : DecCfg) (n : Nat) : ∀ (s : DecSt) (evs : List BodyEv),
    PhaseOk cfg s →
    msgsOf (Dec.run cd cfg n s evs) <+: (specFrom cd cfg s (accepted cfg evs)).1 := by
  induction n with
  | zero => intro s evs _; simp [Dec.run, msgsOf]
  | succ n ih =>
    intro s evs h
    have hg := pollNext_good cd cfg evs s h
    simp only [Dec.run]
    generalize Dec.pollNext cd cfg s evs = r at hg
    obtain ⟨s', evs', o⟩ := r
    obtain ⟨_, hcase⟩ := hg
    cases o with
    | msg m =>
      simp only [msgsOf]
      rw [hcase.2]
      simp only [consRes]
      exact List.prefix_cons_inj m |>.mpr (ih s' evs' hcase.1)
    | pending =>
      simp only [msgsOf]; rw [hcase.2.2]; exact ih s' evs' hcase.1
    | none =>
      simp only [msgsOf]; rw [hcase.2]; exact ih s' evs' hcase.1
    | err st =>
      simp only [msgsOf]
      rw [run_failed cd cfg n s' evs' hcase, msgsOf_replicate_none]
      exact List.nil_prefix

theorem run_at_end (cd : Codec α) (cfg : DecCfg) (n : Nat) : ∀ (s : DecSt),
    PhaseOk cfg s → specFrom cd cfg s [] = ([], .clean) → respTr cfg s.trailers = none →
    Dec.run cd cfg n s [] = List.replicate n .none := by
  induction n with
  | zero => intros; rfl
  | succ n ih =>
    intro s hp hx he
    have hc := pollNext_clean cd cfg [] s [] hp rfl (by simpa [EndOk, endTr] using he)
      (by simpa [accepted] using hx)
    simp only [Dec.run]
    generalize Dec.pollNext cd cfg s [] = r at hc
    obtain ⟨s', evs', o⟩ := r
    obtain ⟨_, hp', he', hcase⟩ := hc
    cases o with
    | msg m => obtain ⟨ms', h, _⟩ := hcase; simp at h
    | pending => exact absurd hcase.2 (by simp)
    | err st => exact absurd hcase id
    | none =>
      obtain ⟨_, hev, hx'⟩ := hcase
      dsimp only at hev; subst hev
      simp only [List.replicate_succ]
      rw [ih s' hp' hx' (by simpa [EndOk, endTr] using he')]

theorem nonPending_replicate_none (n : Nat) :
    nonPending (List.replicate n (Item.none : Item α)) = List.replicate n .none := by
  induction n with
  | zero => rfl
  | succ n ih => simp [List.replicate_succ, nonPending, Item.isPending] at ih ⊢

/-- A clean body (data/pending events, optional final OK trailers) whose bytes the reference
decoder reads as `ms` then a clean end is drained to exactly `ms`, then `None` for ever. -/
theorem run_clean (cd : Codec α) (cfg : DecCfg) (n : Nat) : ∀ (s : DecSt) (evs : List BodyEv) (ms : List α),
    PhaseOk cfg s → CleanEvs evs = true → EndOk cfg s evs →
    specFrom cd cfg s (accepted cfg evs) = (ms, .clean) → evs.length + ms.length < n →
    ∃ k, 1 ≤ k ∧ nonPending (Dec.run cd cfg n s evs) = ms.map .msg ++ List.replicate k .none := by
  induction n with
  | zero => intro s evs ms _ _ _ _ h; omega
  | succ n ih =>
    intro s evs ms hp hc he hx hn
    have hg := pollNext_clean cd cfg evs s ms hp hc he hx
    simp only [Dec.run]
    generalize Dec.pollNext cd cfg s evs = r at hg
    obtain ⟨s', evs', o⟩ := r
    obtain ⟨hc', hp', he', hcase⟩ := hg
    cases o with
    | msg m =>
      obtain ⟨ms', rfl, hx', hl⟩ := hcase
      dsimp only at hl
      obtain ⟨k, hk, hrun⟩ := ih s' evs' ms' hp' hc' he' hx' (by simp at hn; omega)
      exact ⟨k, hk, by simp [nonPending, Item.isPending] at hrun ⊢; exact hrun⟩
    | pending =>
      obtain ⟨hx', hl⟩ := hcase
      dsimp only at hl
      obtain ⟨k, hk, hrun⟩ := ih s' evs' ms hp' hc' he' hx' (by omega)
      exact ⟨k, hk, by simp [nonPending, Item.isPending] at hrun ⊢; exact hrun⟩
    | err st => exact absurd hcase id
    | none =>
      obtain ⟨rfl, hev, hx'⟩ := hcase
      dsimp only at hev; subst hev
      refine ⟨n + 1, by omega, ?_⟩
      rw [run_at_end cd cfg n s' hp' hx' (by simpa [EndOk, endTr] using he')]
      have := nonPending_replicate_none (α := α) (n + 1)
      simpa [List.replicate_succ] using this


def Item.isTerminal : Item α → Bool
  | .none => true
  | .err _ => true
  | _ => false

/-- A drain loop always terminates: within `#events + #messages + 1` polls the stream reports
the end of the stream or an error. -/
theorem run_reaches_end (cd : Codec α) (cfg : DecCfg) (n : Nat) : ∀ (s : DecSt) (evs : List BodyEv),
    PhaseOk cfg s → evs.length + (specFrom cd cfg s (accepted cfg evs)).1.length < n →
    ∃ o ∈ Dec.run cd cfg n s evs, o.isTerminal = true := by
  induction n with
  | zero => intro s evs _ h; omega
  | succ n ih =>
    intro s evs hp hn
    have hg := pollNext_good cd cfg evs s hp
    simp only [Dec.run]
    generalize Dec.pollNext cd cfg s evs = r at hg
    obtain ⟨s', evs', o⟩ := r
    obtain ⟨hl, hcase⟩ := hg
    dsimp only at hl hcase
    cases o with
    | msg m =>
      rw [hcase.2] at hn
      simp only [consRes, List.length_cons] at hn
      obtain ⟨o, ho, ht⟩ := ih s' evs' hcase.1 (by omega)
      exact ⟨o, List.mem_cons_of_mem _ ho, ht⟩
    | pending =>
      rw [hcase.2.2] at hn
      obtain ⟨o, ho, ht⟩ := ih s' evs' hcase.1 (by have := hcase.2.1; omega)
      exact ⟨o, List.mem_cons_of_mem _ ho, ht⟩
    | none => exact ⟨.none, by simp, rfl⟩
    | err st => exact ⟨.err st, by simp, rfl⟩

end Framing
