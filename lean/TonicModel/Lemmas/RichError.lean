import TonicModel.Model.RichError
import TonicModel.Spec.RichError
/-
Lemmas about the tonic-types layer of C20 for an arbitrary `Prost` satisfying the round-trip
laws: URL dispatch, the three walks over the `Any` list, the set form.
-/
namespace RichError

theorem kindOfUrl_typeUrl (k : Kind) : kindOfUrl (typeUrl k) = some k := by
  cases k <;> decide

theorem typeUrl_injective (k k' : Kind) (h : typeUrl k = typeUrl k') : k = k' := by
  have := kindOfUrl_typeUrl k
  rw [h, kindOfUrl_typeUrl] at this
  exact (Option.some.inj this).symm

/-- The round-trip laws of prost that tonic-types relies on, relative to well-formedness
predicates for details and for the enclosing status message. -/
structure Prost.Laws (P : Prost) (WFd : ErrorDetail → Prop) (WFs : PbStatus → Prop) : Prop where
  detail : ∀ d, WFd d → P.decDetail d.kind (P.encDetail d) = some d
  status : ∀ st, WFs st → P.decStatus (P.encStatus st) = some st

section
variable (P : Prost) {WFd : ErrorDetail → Prop} {WFs : PbStatus → Prop} (L : P.Laws WFd WFs)
include L

theorem checkVecAnys_intoAny (ds : List ErrorDetail) (h : ∀ d ∈ ds, WFd d) :
    checkVecAnys P (ds.map (intoAny P)) = some ds := by
  induction ds with
  | nil => rfl
  | cons d ds ih =>
    have hd := L.detail d (h d (by simp))
    have ih' := ih (fun x hx => h x (by simp [hx]))
    simp [checkVecAnys, intoAny, kindOfUrl_typeUrl, hd] at ih' ⊢
    simp [ih']

theorem checkSetAnys_intoAny (ds : List ErrorDetail) (h : ∀ d ∈ ds, WFd d) (acc : ErrorDetails) :
    checkSetAnys P acc (ds.map (intoAny P)) = some (ds.foldl ErrorDetails.put acc) := by
  induction ds generalizing acc with
  | nil => rfl
  | cons d ds ih =>
    have hd := L.detail d (h d (by simp))
    simp [checkSetAnys, intoAny, kindOfUrl_typeUrl, hd]
    exact ih (fun x hx => h x (by simp [hx])) _

theorem firstOfKindAnys_intoAny (k : Kind) (ds : List ErrorDetail) (h : ∀ d ∈ ds, WFd d) :
    firstOfKindAnys P k (ds.map (intoAny P)) = Spec.RichError.firstOfKind k ds := by
  induction ds with
  | nil => rfl
  | cons d ds ih =>
    have hd := L.detail d (h d (by simp))
    have ih' := ih (fun x hx => h x (by simp [hx]))
    simp only [List.map_cons, firstOfKindAnys, intoAny, Spec.RichError.firstOfKind, List.find?_cons]
    by_cases hk : d.kind = k
    · subst hk; simp [hd]
    · have : typeUrl d.kind ≠ typeUrl k := fun e => hk (typeUrl_injective _ _ e)
      simp only [this, if_false]
      have : (d.kind == k) = false := by simp [hk]
      simp only [this]
      exact ih'

end

/-! ### decode side, arbitrary `Any` lists: the three walks agree with each other -/

section
variable (P : Prost) (hk : ∀ k b d, P.decDetail k b = some d → d.kind = k)
include hk

theorem kindOfUrl_eq_some (u : Bytes) (k : Kind) (h : kindOfUrl u = some k) : u = typeUrl k := by
  unfold kindOfUrl at h
  repeat' split at h
  all_goals first | (cases h; assumption) | cases h

theorem checkSet_of_checkVec (anys : List Any) (ds : List ErrorDetail) (acc : ErrorDetails)
    (h : checkVecAnys P anys = some ds) : checkSetAnys P acc anys = some (ds.foldl ErrorDetails.put acc) := by
  induction anys generalizing ds acc with
  | nil => simp [checkVecAnys] at h; subst h; rfl
  | cons a rest ih =>
    simp only [checkVecAnys, checkSetAnys] at h ⊢
    cases hu : kindOfUrl a.typeUrl with
    | none => simp only [hu] at h ⊢; exact ih ds acc h
    | some k =>
      simp only [hu] at h ⊢
      cases hd : P.decDetail k a.value with
      | none => simp [hd] at h
      | some d =>
        simp only [hd] at h ⊢
        cases hr : checkVecAnys P rest with
        | none => simp [hr] at h
        | some ds' =>
          simp only [hr, Option.map_some, Option.some.injEq] at h
          subst h
          exact ih ds' (acc.put d) hr

theorem firstOfKind_of_checkVec (k : Kind) (anys : List Any) (ds : List ErrorDetail)
    (h : checkVecAnys P anys = some ds) :
    firstOfKindAnys P k anys = Spec.RichError.firstOfKind k ds := by
  induction anys generalizing ds with
  | nil => simp [checkVecAnys] at h; subst h; rfl
  | cons a rest ih =>
    simp only [checkVecAnys] at h
    simp only [firstOfKindAnys]
    cases hu : kindOfUrl a.typeUrl with
    | none =>
      simp only [hu] at h
      have : a.typeUrl ≠ typeUrl k := by
        intro e; rw [e, kindOfUrl_typeUrl] at hu; cases hu
      simp only [this, if_false]
      exact ih ds h
    | some k' =>
      simp only [hu] at h
      have hurl := kindOfUrl_eq_some P hk a.typeUrl k' hu
      cases hd : P.decDetail k' a.value with
      | none => simp [hd] at h
      | some d =>
        simp only [hd] at h
        cases hr : checkVecAnys P rest with
        | none => simp [hr] at h
        | some ds' =>
          simp only [hr, Option.map_some, Option.some.injEq] at h
          subst h
          have hkd := hk k' a.value d hd
          simp only [Spec.RichError.firstOfKind, List.find?_cons]
          by_cases hkk : k' = k
          · subst hkk
            simp [hurl, hd, hkd]
          · have : a.typeUrl ≠ typeUrl k := by
              rw [hurl]; exact fun e => hkk (typeUrl_injective _ _ e)
            simp only [this, if_false]
            have : (d.kind == k) = false := by simp [hkd, hkk]
            simp only [this]
            exact ih ds' hr

end

/-- pushing the present members in the fixed order and folding them back gives the set -/
theorem foldl_put_toList (s : ErrorDetails) : s.toList.foldl ErrorDetails.put {} = s := by
  obtain ⟨a, b, c, d, e, f, g, h, i, j⟩ := s
  simp only [ErrorDetails.toList, List.append_assoc]
  have s0 : ∀ rest : List ErrorDetail, (((a.map ErrorDetail.retryInfo).toList ++ rest).foldl ErrorDetails.put ({} : ErrorDetails)) =
      rest.foldl ErrorDetails.put ({ retryInfo := a } : ErrorDetails) := by
    intro rest; cases a <;> rfl
  rw [s0]
  have s1 : ∀ rest : List ErrorDetail, (((b.map ErrorDetail.debugInfo).toList ++ rest).foldl ErrorDetails.put ({ retryInfo := a } : ErrorDetails)) =
      rest.foldl ErrorDetails.put ({ retryInfo := a, debugInfo := b } : ErrorDetails) := by
    intro rest; cases b <;> rfl
  rw [s1]
  have s2 : ∀ rest : List ErrorDetail, (((c.map ErrorDetail.quotaFailure).toList ++ rest).foldl ErrorDetails.put ({ retryInfo := a, debugInfo := b } : ErrorDetails)) =
      rest.foldl ErrorDetails.put ({ retryInfo := a, debugInfo := b, quotaFailure := c } : ErrorDetails) := by
    intro rest; cases c <;> rfl
  rw [s2]
  have s3 : ∀ rest : List ErrorDetail, (((d.map ErrorDetail.errorInfo).toList ++ rest).foldl ErrorDetails.put ({ retryInfo := a, debugInfo := b, quotaFailure := c } : ErrorDetails)) =
      rest.foldl ErrorDetails.put ({ retryInfo := a, debugInfo := b, quotaFailure := c, errorInfo := d } : ErrorDetails) := by
    intro rest; cases d <;> rfl
  rw [s3]
  have s4 : ∀ rest : List ErrorDetail, (((e.map ErrorDetail.preconditionFailure).toList ++ rest).foldl ErrorDetails.put ({ retryInfo := a, debugInfo := b, quotaFailure := c, errorInfo := d } : ErrorDetails)) =
      rest.foldl ErrorDetails.put ({ retryInfo := a, debugInfo := b, quotaFailure := c, errorInfo := d, preconditionFailure := e } : ErrorDetails) := by
    intro rest; cases e <;> rfl
  rw [s4]
  have s5 : ∀ rest : List ErrorDetail, (((f.map ErrorDetail.badRequest).toList ++ rest).foldl ErrorDetails.put ({ retryInfo := a, debugInfo := b, quotaFailure := c, errorInfo := d, preconditionFailure := e } : ErrorDetails)) =
      rest.foldl ErrorDetails.put ({ retryInfo := a, debugInfo := b, quotaFailure := c, errorInfo := d, preconditionFailure := e, badRequest := f } : ErrorDetails) := by
    intro rest; cases f <;> rfl
  rw [s5]
  have s6 : ∀ rest : List ErrorDetail, (((g.map ErrorDetail.requestInfo).toList ++ rest).foldl ErrorDetails.put ({ retryInfo := a, debugInfo := b, quotaFailure := c, errorInfo := d, preconditionFailure := e, badRequest := f } : ErrorDetails)) =
      rest.foldl ErrorDetails.put ({ retryInfo := a, debugInfo := b, quotaFailure := c, errorInfo := d, preconditionFailure := e, badRequest := f, requestInfo := g } : ErrorDetails) := by
    intro rest; cases g <;> rfl
  rw [s6]
  have s7 : ∀ rest : List ErrorDetail, (((h.map ErrorDetail.resourceInfo).toList ++ rest).foldl ErrorDetails.put ({ retryInfo := a, debugInfo := b, quotaFailure := c, errorInfo := d, preconditionFailure := e, badRequest := f, requestInfo := g } : ErrorDetails)) =
      rest.foldl ErrorDetails.put ({ retryInfo := a, debugInfo := b, quotaFailure := c, errorInfo := d, preconditionFailure := e, badRequest := f, requestInfo := g, resourceInfo := h } : ErrorDetails) := by
    intro rest; cases h <;> rfl
  rw [s7]
  have s8 : ∀ rest : List ErrorDetail, (((i.map ErrorDetail.help).toList ++ rest).foldl ErrorDetails.put ({ retryInfo := a, debugInfo := b, quotaFailure := c, errorInfo := d, preconditionFailure := e, badRequest := f, requestInfo := g, resourceInfo := h } : ErrorDetails)) =
      rest.foldl ErrorDetails.put ({ retryInfo := a, debugInfo := b, quotaFailure := c, errorInfo := d, preconditionFailure := e, badRequest := f, requestInfo := g, resourceInfo := h, help := i } : ErrorDetails) := by
    intro rest; cases i <;> rfl
  rw [s8]
  cases j <;> rfl

theorem mem_toList_kind (s : ErrorDetails) (d : ErrorDetail) (h : d ∈ s.toList) : s.get d.kind = some d := by
  obtain ⟨a, b, c, d', e, f, g, h', i, j⟩ := s
  simp only [ErrorDetails.toList, List.mem_append, Option.mem_toList, Option.map_eq_some_iff] at h
  rcases h with ((((((((( h | h) | h) | h) | h) | h) | h) | h) | h) | h) <;>
    obtain ⟨x, hx, rfl⟩ := h <;> simp_all [ErrorDetails.get, ErrorDetail.kind]

end RichError
