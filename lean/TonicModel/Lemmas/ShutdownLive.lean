import TonicModel.Lemmas.Shutdown
/-
Liveness side of C13: a measure that every internal step strictly decreases (so the server's own
steps cannot go on for ever), and the monotone flags.
-/
namespace Shutdown

def b2n (b : Bool) : Nat := if b then 1 else 0

def Call.weight (k : Call) : Nat :=
  b2n (!k.started) + k.todo.length + 2 * k.todo.flatten.length + (k.sent.length - k.recv)
  + 2 * b2n (!k.expired)

def Conn.weight (cn : Conn) : Nat :=
  2 * b2n cn.pending + b2n cn.watcher + b2n (!cn.hs) + b2n (!cn.sawSig) + b2n (!cn.ageFired)
  + b2n (!cn.final) + b2n (!cn.closed) + b2n (!cn.inSet) + b2n (!cn.tlsOk)
  + (cn.calls.map Call.weight).sum

/-- Upper bound on the number of internal steps the server can still take without new input. -/
def weight (s : State) : Nat :=
  b2n s.loopRunning + s.pendingErrs + b2n (!s.afterDone) + b2n (!s.resolved)
  + (s.conns.map Conn.weight).sum

theorem sum_set_lt {α} (w : α → Nat) : ∀ (l : List α) (i : Nat) (a b : α),
    l[i]? = some a → w b < w a → ((l.set i b).map w).sum < (l.map w).sum
  | [], _, _, _, h, _ => by simp at h
  | x :: xs, 0, a, b, h, hw => by
    simp only [List.getElem?_cons_zero, Option.some.injEq] at h
    subst h
    simp only [List.set_cons_zero, List.map_cons, List.sum_cons]
    omega
  | x :: xs, i + 1, a, b, h, hw => by
    simp only [List.getElem?_cons_succ] at h
    have := sum_set_lt w xs i a b h hw
    simp only [List.set_cons_succ, List.map_cons, List.sum_cons]
    omega

theorem sum_map_le {α} (w : α → Nat) (f : α → α) (hf : ∀ a, w (f a) ≤ w a) :
    ∀ l : List α, ((l.map f).map w).sum ≤ (l.map w).sum
  | [] => by simp
  | x :: xs => by
    have := sum_map_le w f hf xs
    have := hf x
    simp only [List.map_cons, List.sum_cons]
    omega

theorem weight_updConn {s s' : State} {c : Nat} {g : Conn → Bool} {f : Conn → Conn}
    (h : updConn s c g f = some s') (hf : ∀ cn, g cn = true → (f cn).weight < cn.weight) :
    weight s' < weight s := by
  obtain ⟨cn, hc, hgd, rfl⟩ := updConn_some h
  have := sum_set_lt Conn.weight s.conns c cn (f cn) hc (hf cn hgd)
  simp only [weight]
  omega

theorem weight_updCall {s s' : State} {c j : Nat} {g : Conn → Call → Bool} {f : Call → Call}
    (h : updCall s c j g f = some s') (hf : ∀ cn k, g cn k = true → (f k).weight < k.weight) :
    weight s' < weight s := by
  obtain ⟨cn, k, hc, hk, hgd, rfl⟩ := updCall_some h
  have h1 := sum_set_lt Call.weight cn.calls j k (f k) hk (hf cn k hgd)
  have h2 : ({ cn with calls := cn.calls.set j (f k) } : Conn).weight < cn.weight := by
    simp only [Conn.weight]; omega
  have := sum_set_lt Conn.weight s.conns c cn _ hc h2
  simp only [weight]
  omega

/-- Every step the server takes on its own strictly decreases the measure. -/
theorem internal_step_decreases {s s' : State} {l : Label} (hi : l.internal = true)
    (h : step s l = some s') : weight s' < weight s := by
  cases l <;> simp only [Label.internal] at hi <;> try (exact absurd hi (by decide))
  case loopSig =>
    simp only [step] at h
    split at h
    · rename_i hc
      simp only [Bool.and_eq_true] at hc
      cases h
      simp [weight, hc.1, b2n]
    · cases h
  case loopAccept c =>
    simp only [step] at h
    split at h
    · refine weight_updConn h ?_
      intro cn hgd
      simp only [Bool.and_eq_true] at hgd
      have hp := hgd.1
      simp only [Conn.weight, hp, b2n]
      cases s.cfgGraceful <;> cases cn.watcher <;> simp <;> omega
    · cases h
  case loopErr =>
    simp only [step] at h
    split at h
    · rename_i hc
      simp only [Bool.and_eq_true, decide_eq_true_eq] at hc
      cases h
      simp only [weight]
      omega
    · cases h
  case loopEnd =>
    simp only [step] at h
    split at h
    · rename_i hc
      simp only [incomingBranch, Bool.and_eq_true] at hc
      cases h
      simp [weight, hc.1.1.1.1, b2n]
    · cases h
  case afterLoop =>
    simp only [step] at h
    split at h
    · rename_i hc
      simp only [Bool.and_eq_true, Bool.not_eq_true'] at hc
      cases h
      simp [weight, hc.2, b2n]
    · cases h
  case resolve =>
    simp only [step] at h
    split at h
    · rename_i hc
      simp only [Bool.and_eq_true, Bool.not_eq_true'] at hc
      cases h
      have := sum_map_le Conn.weight (fun cn => { cn with pending := false })
        (by intro cn; simp only [Conn.weight, b2n]; cases cn.pending <;> simp) s.conns
      simp only [weight, hc.1.2, b2n]
      simp only [Bool.not_false, Bool.not_true, if_true]
      simp only [Bool.false_eq_true, if_false]
      omega
    · cases h
  case tlsTake c =>
    simp only [step] at h
    split at h
    · refine weight_updConn h ?_
      intro cn hgd
      simp only [Bool.and_eq_true, Bool.not_eq_true'] at hgd
      simp [Conn.weight, hgd.2, b2n]
    · cases h
  case tlsDone c =>
    refine weight_updConn h ?_
    intro cn hgd
    simp only [Bool.and_eq_true, Bool.not_eq_true'] at hgd
    simp [Conn.weight, hgd.1.1.1.2, b2n]
  case tlsFail c =>
    refine weight_updConn h ?_
    intro cn hgd
    simp only [Bool.and_eq_true, Bool.not_eq_true'] at hgd
    simp [Conn.weight, hgd.1.1.2, b2n]
  case connSig c =>
    refine weight_updConn h ?_
    intro cn hgd
    simp only [Bool.and_eq_true, Bool.not_eq_true'] at hgd
    simp [Conn.weight, hgd.2, b2n]
  case connAge c =>
    refine weight_updConn h ?_
    intro cn hgd
    simp only [Bool.and_eq_true, Bool.not_eq_true'] at hgd
    simp [Conn.weight, hgd.2, b2n]
  case connBreak c =>
    refine weight_updConn h ?_
    intro cn hgd
    simp only [Bool.and_eq_true, Bool.not_eq_true'] at hgd
    simp [Conn.weight, hgd.1.2, b2n]
  case connDropWatcher c =>
    refine weight_updConn h ?_
    intro cn hgd
    simp only [Bool.and_eq_true] at hgd
    simp [Conn.weight, hgd.2, b2n]
  case hsDone c =>
    refine weight_updConn h ?_
    intro cn hgd
    simp only [Bool.and_eq_true, Bool.not_eq_true'] at hgd
    simp [Conn.weight, hgd.1.1.2, b2n]
  case final c =>
    refine weight_updConn h ?_
    intro cn hgd
    simp only [Bool.and_eq_true, Bool.not_eq_true'] at hgd
    simp [Conn.weight, hgd.2, b2n]
  case callStart c j =>
    refine weight_updCall h ?_
    intro cn k hgd
    simp only [Bool.and_eq_true, Bool.not_eq_true'] at hgd
    simp [Call.weight, hgd.1.2, b2n]
  case produce c j =>
    refine weight_updCall h ?_
    intro cn k hgd
    simp only [Bool.and_eq_true, Bool.not_eq_true', List.isEmpty_eq_false_iff] at hgd
    unfold Call.produce
    split
    · rename_i ch rest htodo
      simp only [Call.weight, htodo, List.length_cons, List.flatten_cons, List.length_append]
      omega
    · rename_i htodo
      exact absurd htodo hgd.2
  case deliver c j =>
    refine weight_updCall h ?_
    intro cn k hgd
    simp only [Bool.and_eq_true, Bool.not_eq_true', decide_eq_true_eq] at hgd
    simp only [Call.weight]
    omega
  case expire c j =>
    simp only [step] at h
    split at h
    · refine weight_updCall h ?_
      intro cn k hgd
      simp only [Bool.and_eq_true, Bool.not_eq_true'] at hgd
      simp only [Call.weight, Call.expire, hgd.2, b2n, List.length_append, List.length_nil,
        List.flatten_nil, List.length_cons]
      simp
      omega
    · cases h

/-- A run of internal steps is no longer than the measure allows: the server's own activity
always comes to rest. -/
theorem internal_run_bounded {ls : List Label} : ∀ {s s' : State},
    (∀ l ∈ ls, l.internal = true) → run s ls = some s' → ls.length + weight s' ≤ weight s := by
  induction ls with
  | nil => intro s s' _ h; simp only [run, Option.some.injEq] at h; subst h; simp
  | cons l ls ih =>
    intro s s' hall h
    simp only [run] at h
    split at h
    · rename_i s1 hs1
      have h1 := internal_step_decreases (hall l (List.mem_cons_self)) hs1
      have h2 := ih (fun x hx => hall x (List.mem_cons_of_mem _ hx)) h
      simp only [List.length_cons]
      omega
    · cases h

-- ------------------------------------------------------------------ monotone flags

theorem step_mono {s s' : State} {l : Label} (h : step s l = some s') :
    (s.sigReady = true → s'.sigReady = true) ∧ (s.ended = true → s'.ended = true)
    ∧ (s.loopRunning = false → s'.loopRunning = false) ∧ (s.freeRun = true → s'.freeRun = true) := by
  cases l <;> simp only [step] at h
  case offer | offerTls | freeRun => cases h; simp
  case sigFire | endIncoming | acceptErr | loopSig | loopErr | loopEnd | afterLoop
      | resolve =>
    split at h
    · cases h; simp
    · cases h
  case ageTick | tlsTake =>
    split at h
    · obtain ⟨_, _, _, rfl⟩ := updConn_some h; simp
    · cases h
  case deadlineTick | expire =>
    split at h
    · obtain ⟨_, _, _, _, _, rfl⟩ := updCall_some h; simp
    · cases h
  case issue | peerDrop | connSig | connAge | connBreak | connDropWatcher | hsDone | final
      | clientHello | tlsDone | tlsFail =>
    obtain ⟨_, _, _, rfl⟩ := updConn_some h; simp
  case permit | reqSend | cancel | callStart | produce | deliver =>
    obtain ⟨_, _, _, _, _, rfl⟩ := updCall_some h; simp
  case loopAccept =>
    split at h
    · obtain ⟨_, _, _, rfl⟩ := updConn_some h; simp
    · cases h

theorem run_append (s : State) (xs ys : List Label) :
    run s (xs ++ ys) = (run s xs).bind (fun s' => run s' ys) := by
  induction xs generalizing s with
  | nil => simp [run]
  | cons x xs ih =>
    simp only [List.cons_append, run]
    split
    · exact ih _
    · rfl

theorem run_mono {s s' : State} {ls : List Label} (h : run s ls = some s') :
    (s.sigReady = true → s'.sigReady = true) ∧ (s.loopRunning = false → s'.loopRunning = false) := by
  induction ls generalizing s with
  | nil => simp only [run, Option.some.injEq] at h; subst h; exact ⟨id, id⟩
  | cons l ls ih =>
    simp only [run] at h
    split at h
    · rename_i s1 hs1
      have h1 := step_mono hs1
      have h2 := ih h
      exact ⟨fun x => h2.1 (h1.1 x), fun x => h2.2 (h1.2.2.1 x)⟩
    · cases h

theorem reachable_run {g b a : Bool} {ls : List Label} : ∀ {s0 s : State},
    Reachable g b a s0 → run s0 ls = some s → Reachable g b a s := by
  induction ls with
  | nil => intro s0 s h0 hr; simp only [run, Option.some.injEq] at hr; exact hr ▸ h0
  | cons l ls ih =>
    intro s0 s h0 hr
    simp only [run] at hr
    split at hr
    · rename_i s1 hs1; exact ih (.step l h0 hs1) hr
    · cases hr

/-- the accept branch is dead once the signal is ready (repaired loop) or the loop is over -/
theorem accept_disabled {s : State} (hg : Good s)
    (h : (s.cfgBiased = true ∧ s.sigReady = true) ∨ s.loopRunning = false) (c : Nat) :
    step s (.loopAccept c) = none := by
  simp only [step]
  cases hrun : s.loopRunning with
  | false => simp [incomingBranch, hrun]
  | true =>
    rcases h with ⟨hb, hs⟩ | h
    · have := hg.running_not_taken hrun
      simp [incomingBranch, sigBranchReady, hrun, hb, hs, this]
    · simp [hrun] at h

end Shutdown
