import TonicModel.Model.FramingReserve
/-
The traced `decode_chunk` (`Dec.decodeChunkT`) projects onto the transition function the rest of the
development uses (`Dec.decodeChunk`) and onto the reservation function (`Dec.chunkReserve`).
-/
namespace Framing
variable {α : Type}

theorem decodeChunkT_fst (cd : Codec α) (cfg : DecCfg) (s : DecSt) :
    (Dec.decodeChunkT cd cfg s).1 = Dec.decodeChunk cd cfg s := by
  unfold Dec.decodeChunkT Dec.decodeChunk
  cases hp : s.ph with
  | failed o => simp
  | body l c => simp
  | hdr =>
    match hb : s.buf with
    | [] => simp
    | [_] => simp
    | [_, _] => simp
    | [_, _, _] => simp
    | [_, _, _, _] => simp
    | f :: a :: b :: c :: d :: rest =>
      simp only
      by_cases h0 : f = 0
      · subst h0; by_cases hl : readU32 a b c d > cfg.limit <;> simp [hl]
      · by_cases h1 : f = 1
        · subst h1
          cases he : cfg.enc with
          | none => simp
          | some e => by_cases hl : readU32 a b c d > cfg.limit <;> simp [hl]
        · simp [h0, h1]

theorem decodeChunkT_snd (cd : Codec α) (cfg : DecCfg) (s : DecSt) :
    (Dec.decodeChunkT cd cfg s).2 = Dec.chunkReserve cfg s := by
  unfold Dec.decodeChunkT Dec.chunkReserve
  cases hp : s.ph with
  | failed o => simp
  | body l c => simp
  | hdr =>
    match hb : s.buf with
    | [] => simp
    | [_] => simp
    | [_, _] => simp
    | [_, _, _] => simp
    | [_, _, _, _] => simp
    | f :: a :: b :: c :: d :: rest =>
      simp only
      by_cases h0 : f = 0
      · subst h0; by_cases hl : readU32 a b c d > cfg.limit <;> simp [hl] <;> omega
      · by_cases h1 : f = 1
        · subst h1
          cases he : cfg.enc with
          | none => simp
          | some e => by_cases hl : readU32 a b c d > cfg.limit <;> simp [hl] <;> omega
        · simp [h0, h1]
end Framing
