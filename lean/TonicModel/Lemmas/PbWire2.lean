import TonicModel.Lemmas.PbWire
/-
Whole-message round trip for the prost wire model: `decodeL2 sch (encL2 sch v) = some v`.
-/
namespace PbWire

def L2Ok : List F2 → List V2 → Prop
  | [], [] => True
  | f :: fs, v :: vs => f.small ∧ F2Ok f v ∧ L2Ok fs vs
  | _, _ => False

theorem l2_loop (sch : List F2) (ctx : Nat) (hctx : ctx ≠ 0) (hsch : sch.length + 1 < 536870912) :
    ∀ (s2 s1 : List F2) (v1 v2 : List V2) (fuel : Nat), sch = s1 ++ s2 → s1.length = v1.length →
      L2Ok s2 v2 → (encL2From (s1.length + 1) s2 v2).length < 18446744073709551616 →
      (encL2From (s1.length + 1) s2 v2).length ≤ fuel →
      fieldsLoop (mergeL2Field sch ctx) fuel (v1 ++ s2.map F2.default)
        (encL2From (s1.length + 1) s2 v2) = some (v1 ++ v2) := by
  intro s2
  induction s2 with
  | nil =>
    intro s1 v1 v2 fuel _ _ hok _ _
    cases v2 with
    | nil => simp [encL2From, fieldsLoop_nil]
    | cons _ _ => exact hok.elim
  | cons f fs ih =>
    intro s1 v1 v2 fuel hs hl hok hb hf
    cases v2 with
    | nil => exact hok.elim
    | cons x xs =>
      obtain ⟨hsm, hfx, hrest⟩ := hok
      have hs' : sch = (s1 ++ [f]) ++ fs := by simp [hs]
      have hl' : (s1 ++ [f]).length = (v1 ++ [x]).length := by simp [hl]
      have hidx : (s1 ++ [f]).length + 1 = s1.length + 1 + 1 := by simp
      have hff : sch[s1.length]? = some f := by simp [hs]
      have hsl : s1.length < sch.length := by simp [hs]
      simp only [encL2From, List.length_append] at hb hf ⊢
      have hst : (v1 ++ List.map F2.default (f :: fs))[s1.length]? = some f.default := by simp [hl]
      obtain ⟨fuel', hf', he⟩ := l2_field sch ctx hctx s1.length (by omega) f x hff hsm hfx _ hst
        (encL2From (s1.length + 1 + 1) fs xs) fuel (by omega) (by simp only [List.length_append]; omega)
      rw [he]
      have hset : (v1 ++ List.map F2.default (f :: fs)).set s1.length x = (v1 ++ [x]) ++ fs.map F2.default := by
        simp [hl]
      rw [hset]
      have ih' := ih (s1 ++ [f]) (v1 ++ [x]) xs fuel' hs' hl' hrest
      rw [hidx] at ih'
      simpa using ih' (by omega) hf'

/-- `Message::decode` inverts `Message::encode_to_vec` on well-typed values whose encoding is
shorter than 2^64 bytes -/
theorem decodeL2_encL2 (sch : List F2) (v : List V2) (hsch : sch.length + 1 < 536870912)
    (hok : L2Ok sch v) (hb : (encL2 sch v).length < 18446744073709551616) :
    decodeL2 sch (encL2 sch v) = some v := by
  have := l2_loop sch recursionLimit (by decide) hsch sch [] [] v (encL2 sch v).length (by simp) rfl hok
    (by simpa [encL2] using hb) (by simp [encL2])
  simpa [decodeL2, runFields, encL2] using this

end PbWire
