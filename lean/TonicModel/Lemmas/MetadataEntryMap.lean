import TonicModel.Model.MetadataEntry
import TonicModel.Spec.MetadataEntry
/-
Provenance lemmas for the entry-API theorem of C08: one step of an operation sequence adds to
the map only entries that a `wrote` event of that step announces (and otherwise only drops
entries).
-/
set_option linter.unusedSimpArgs false
set_option linter.unusedVariables false

namespace Metadata
open Status (Variant)
open MetaOps

/-- some `wrote` event of `evs` announces the entry `e` -/
def announced (evs : List Ev) (e : Bytes × Bytes) : Prop := ∃ b raw, Ev.wrote b e.1 raw e.2 ∈ evs

theorem announced_mono {evs evs' : List Ev} {e : Bytes × Bytes} (h : announced evs e)
    (hsub : ∀ ev ∈ evs, ev ∈ evs') : announced evs' e := by
  obtain ⟨b, raw, hm⟩ := h
  exact ⟨b, raw, hsub _ hm⟩

theorem mem_hremove {k : Bytes} {m : HMap} {e : Bytes × Bytes} (h : e ∈ HMap.remove k m) : e ∈ m :=
  (List.mem_filter.mp h).1

theorem mem_hinsert {k v : Bytes} {m : HMap} {e : Bytes × Bytes} (h : e ∈ HMap.insert k v m) :
    e ∈ m ∨ e = (k, v) := by
  unfold HMap.insert at h
  rcases List.mem_append.mp h with h1 | h1
  · exact .inl (mem_hremove h1)
  · exact .inr (by simpa using h1)

theorem mem_happend {k v : Bytes} {m : HMap} {e : Bytes × Bytes} (h : e ∈ HMap.append k v m) :
    e ∈ m ∨ e = (k, v) := by
  unfold HMap.append at h
  rcases List.mem_append.mp h with h1 | h1
  · exact .inl h1
  · exact .inr (by simpa using h1)

theorem occStep_prov (n : Bytes) (b : Bool) (u : OccUse) (m : HMap) :
    ∀ e ∈ (occStep n b u m).2, e ∈ m ∨ announced (occStep n b u m).1 e := by
  unfold occStep
  cases HMap.get n m with
  | none => intro e he; exact .inl he
  | some first =>
    cases u with
    | key => intro e he; exact .inl he
    | get => intro e he; exact .inl he
    | getMut => intro e he; exact .inl he
    | insert raw =>
      simp only []
      cases valueFromBytes (encOf b) raw with
      | none => intro e he; exact .inl he
      | some w =>
        intro e he
        rcases mem_hinsert he with h1 | h1
        · exact .inl h1
        · subst h1; exact .inr ⟨b, raw, by simp⟩
    | insertMult raw =>
      simp only []
      cases valueFromBytes (encOf b) raw with
      | none => intro e he; exact .inl he
      | some w =>
        simp only []
        split
        · intro e he; exact .inl he
        · intro e he
          rcases mem_hinsert he with h1 | h1
          · exact .inl h1
          · subst h1; exact .inr ⟨b, raw, by simp⟩
    | append raw =>
      simp only []
      cases valueFromBytes (encOf b) raw with
      | none => intro e he; exact .inl he
      | some w =>
        intro e he
        rcases mem_happend he with h1 | h1
        · exact .inl h1
        · subst h1; exact .inr ⟨b, raw, by simp⟩
    | iter => intro e he; exact .inl he
    | iterMut => intro e he; exact .inl he
    | intoIter => intro e he; exact .inl he
    | intoMut => intro e he; exact .inl he
    | remove => intro e he; exact .inl (mem_hremove he)
    | removeEntry => intro e he; exact .inl (mem_hremove he)
    | removeEntryMult => intro e he; exact .inl (mem_hremove he)

theorem occRun_prov (n : Bytes) (b : Bool) (us : List OccUse) (m : HMap) :
    ∀ e ∈ (occRun n b us m).2, e ∈ m ∨ announced (occRun n b us m).1 e := by
  induction us generalizing m with
  | nil => intro e he; exact .inl he
  | cons u us ih =>
    intro e he
    unfold occRun at he ⊢
    by_cases ht : u.terminal = true
    · simp only [ht, if_true] at he ⊢
      exact occStep_prov n b u m e he
    · simp only [ht, Bool.false_eq_true, if_false] at he ⊢
      rcases ih _ e he with h1 | h1
      · rcases occStep_prov n b u m e h1 with h2 | h2
        · exact .inl h2
        · exact .inr (announced_mono h2 (fun ev hev => List.mem_append_left _ hev))
      · exact .inr (announced_mono h1 (fun ev hev => List.mem_append_right _ hev))

theorem entryOp_prov (v : Variant) (ie : IE) (b : Bool) (kf : KeyForm) (key : Bytes) (use : EntryUse) (m : HMap) :
    ∀ e ∈ (entryOp v ie b kf key use m).2, e ∈ m ∨ announced (entryOp v ie b kf key use m).1 e := by
  unfold entryOp
  cases resolveKey v (encOf b) kf key with
  | none => intro e he; exact .inl he
  | some n =>
    simp only []
    cases use with
    | orInsert raw =>
      simp only []
      cases valueFromBytes (encOf b) raw with
      | none => intro e he; exact .inl he
      | some w =>
        cases HMap.get n m with
        | some cur => intro e he; exact .inl he
        | none =>
          intro e he
          rcases mem_happend he with h1 | h1
          · exact .inl h1
          · subst h1; exact .inr ⟨b, raw, by simp⟩
    | orInsertWith raw =>
      simp only []
      cases valueFromBytes (encOf b) raw with
      | none => intro e he; exact .inl he
      | some w =>
        cases HMap.get n m with
        | some cur => intro e he; exact .inl he
        | none =>
          intro e he
          rcases mem_happend he with h1 | h1
          · exact .inl h1
          · subst h1; exact .inr ⟨b, raw, by simp⟩
    | branch vac occ =>
      simp only []
      by_cases ho : HMap.hasKey n m = true
      · simp only [ho, if_true]
        intro e he
        rcases occRun_prov n b occ m e he with h1 | h1
        · exact .inl h1
        · exact .inr (announced_mono h1 (fun ev hev => List.mem_append_right _ hev))
      · simp only [ho, Bool.false_eq_true, if_false]
        cases vac with
        | nothing => intro e he; exact .inl he
        | key => intro e he; exact .inl he
        | intoKey => intro e he; exact .inl he
        | insert raw =>
          simp only []
          cases valueFromBytes (encOf b) raw with
          | none => intro e he; exact .inl he
          | some w =>
            intro e he
            rcases mem_happend he with h1 | h1
            · exact .inl h1
            · subst h1; exact .inr ⟨b, raw, by simp⟩
        | insertEntry raw =>
          simp only []
          cases valueFromBytes (encOf b) raw with
          | none => intro e he; exact .inl he
          | some w =>
            intro e he
            rcases occRun_prov n (insertEntryHandle ie b) occ _ e he with h1 | h1
            · rcases mem_happend h1 with h2 | h2
              · exact .inl h2
              · subst h2; exact .inr ⟨b, raw, by simp⟩
            · exact .inr (announced_mono h1 (fun ev hev => List.mem_append_right _ hev))

theorem step_prov (v : Variant) (ie : IE) (op : Op) (m : HMap) :
    ∀ e ∈ (step v ie op m).2, e ∈ m ∨ announced (step v ie op m).1 e := by
  cases op with
  | insert b key raw =>
    simp only [step]
    cases keyFromBytes v (encOf b) key with
    | none => intro e he; exact .inl he
    | some n =>
      simp only []
      cases valueFromBytes (encOf b) raw with
      | none => intro e he; exact .inl he
      | some w =>
        intro e he
        rcases mem_hinsert he with h1 | h1
        · exact .inl h1
        · subst h1; exact .inr ⟨b, raw, by simp⟩
  | append b key raw =>
    simp only [step]
    cases keyFromBytes v (encOf b) key with
    | none => intro e he; exact .inl he
    | some n =>
      simp only []
      cases valueFromBytes (encOf b) raw with
      | none => intro e he; exact .inl he
      | some w =>
        intro e he
        rcases mem_happend he with h1 | h1
        · exact .inl h1
        · subst h1; exact .inr ⟨b, raw, by simp⟩
  | remove b key =>
    simp only [step]
    cases resolveKey v (encOf b) .str key with
    | none => intro e he; exact .inl he
    | some n =>
      simp only []
      cases HMap.get n m with
      | none => intro e he; exact .inl he
      | some w => intro e he; exact .inl (mem_hremove he)
  | getAll b kf key =>
    simp only [step]
    cases resolveKey v (encOf b) kf key with
    | none => intro e he; exact .inl he
    | some n => intro e he; exact .inl he
  | entry b kf key use => exact entryOp_prov v ie b kf key use m

/-- every entry of the map after a run was in the map before it or is announced by a `wrote`
event of some step -/
theorem run_prov (v : Variant) (ie : IE) (ops : List Op) (m0 : HMap) :
    ∀ e ∈ finalMap (run v ie ops m0) m0, e ∈ m0 ∨ ∃ s ∈ run v ie ops m0, announced s.1 e := by
  induction ops generalizing m0 with
  | nil => intro e he; exact .inl (by simpa [run, finalMap] using he)
  | cons op ops ih =>
    intro e he
    have hfin : finalMap (run v ie (op :: ops) m0) m0 = finalMap (run v ie ops (step v ie op m0).2) (step v ie op m0).2 := by
      simp only [run, finalMap]
      cases hr : run v ie ops (step v ie op m0).2 with
      | nil => simp
      | cons s ss =>
        rw [List.getLast?_cons_cons]
        cases hl : (s :: ss).getLast? with
        | none => simp at hl
        | some x => rfl
    rw [hfin] at he
    rcases ih _ e he with h1 | ⟨s, hs, ha⟩
    · rcases step_prov v ie op m0 e h1 with h2 | h2
      · exact .inl h2
      · exact .inr ⟨_, by simp [run], h2⟩
    · exact .inr ⟨s, by simp [run, hs], ha⟩

end Metadata
