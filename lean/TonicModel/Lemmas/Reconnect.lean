import TonicModel.Model.Reconnect
import TonicModel.Spec.Reconnect
/-
Helper lemmas for C14 (`Props/C14.lean`).
-/
namespace Reconnect
open ConnScript

/-- What "ready to be called" means for the state machine. -/
def Callable (r : R) : Prop := r.error.isSome = true ∨ ∃ c, r.st = .connected c

theorem step_ready_callable {r r' : R} {a : Ans} (h : step r a = (r', .done .ready)) :
    Callable r' := by
  unfold step at h
  repeat' split at h
  all_goals simp_all [Callable]
  all_goals (obtain ⟨rfl, _⟩ := h; simp_all)

theorem loop_ready_callable (r : R) (env : List Ans) :
    (loop r env).2.2 = .ready → Callable (loop r env).1 := by
  induction env generalizing r with
  | nil =>
    unfold loop
    cases r.st <;> simp
  | cons a env ih =>
    unfold loop
    by_cases hs : r.st = .spent
    · simp [hs]
    · simp only [hs, if_false]
      rcases hstep : step r a with ⟨r', _ | p⟩
      · exact ih r'
      · intro hp
        simp only at hp
        subst hp
        exact step_ready_callable hstep

end Reconnect

namespace Reconnect
open ConnScript

/-! ### big-step behaviour of one `serve` on the answer patterns that matter -/

theorem serve_stored_error (r : R) (e : Nat) (env : List Ans) (h : r.error = some e) :
    serve r env = ({ r with error := none }, env, .err e) := by
  simp [serve, drive, call, h]

theorem serve_connected_ok (r : R) (c : Nat) (rest : List Ans)
    (he : r.error = none) (hs : r.st = .connected c) :
    serve r (.ok :: rest) = ({ r with hasBeen := true }, rest, .resp c) := by
  simp [serve, drive, driveLoop, step, call, he, hs]

theorem serve_idle_connects (r : R) (rest : List Ans)
    (he : r.error = none) (hs : r.st = .idle) :
    serve r (.ok :: .ok :: .ok :: rest) =
      ({ r with st := .connected (r.made + 1), made := r.made + 1, hasBeen := true }, rest,
        .resp (r.made + 1)) := by
  simp [serve, drive, driveLoop, step, call, he, hs]

theorem serve_idle_fails (r : R) (e : Nat) (rest : List Ans)
    (he : r.error = none) (hs : r.st = .idle) (hl : (r.hasBeen || r.isLazy) = true) :
    serve r (.ok :: .err e :: rest) =
      ({ r with st := .idle, made := r.made + 1 }, rest, .err e) := by
  simp [serve, drive, driveLoop, step, call, he, hs, hl]

theorem serve_dead_reconnects (r : R) (c x : Nat) (rest : List Ans)
    (he : r.error = none) (hs : r.st = .connected c) :
    serve r (.err x :: .ok :: .ok :: .ok :: rest) =
      ({ r with st := .connected (r.made + 1), made := r.made + 1, hasBeen := true }, rest,
        .resp (r.made + 1)) := by
  simp [serve, drive, driveLoop, step, call, he, hs]

theorem serve_dead_fails (r : R) (c x e : Nat) (rest : List Ans)
    (he : r.error = none) (hs : r.st = .connected c) :
    serve r (.err x :: .ok :: .err e :: rest) =
      ({ r with st := .idle, made := r.made + 1, hasBeen := true }, rest, .err e) := by
  simp [serve, drive, driveLoop, step, call, he, hs]

end Reconnect
