import TonicModel.Model.Reconnect
import TonicModel.Spec.Reconnect
/-
Helper lemmas for C14 (`Props/C14.lean`).
-/
namespace Reconnect
open ConnScript

/-- What "ready to be called" means for the state machine. -/
def Callable (r : R) : Prop := r.error.isSome = true ∨ ∃ c, r.st = .connected c

theorem step_ready_callable {r r' : R} {a : Ans} (h : step r a = (r', .done .ready)) :
    Callable r' := by
  unfold step at h
  repeat' split at h
  all_goals simp_all [Callable]
  all_goals (obtain ⟨rfl, _⟩ := h; simp_all)

theorem loop_ready_callable (r : R) (env : List Ans) :
    (loop r env).2.2 = .ready → Callable (loop r env).1 := by
  induction env generalizing r with
  | nil =>
    unfold loop
    cases r.st <;> simp
  | cons a env ih =>
    unfold loop
    by_cases hs : r.st = .spent
    · simp [hs]
    · simp only [hs, if_false]
      rcases hstep : step r a with ⟨r', _ | p⟩
      · exact ih r'
      · intro hp
        simp only at hp
        subst hp
        exact step_ready_callable hstep

end Reconnect

namespace Reconnect
open ConnScript

/-! ### big-step behaviour of one `serve` on the answer patterns that matter -/

theorem serve_stored_error (r : R) (e : Nat) (env : List Ans) (h : r.error = some e) :
    serve r env = ({ r with error := none }, env, .err e) := by
  simp [serve, drive, call, h]

theorem serve_connected_ok (r : R) (c : Nat) (rest : List Ans)
    (he : r.error = none) (hs : r.st = .connected c) :
    serve r (.ok :: rest) = ({ r with hasBeen := true }, rest, .resp c) := by
  simp [serve, drive, driveLoop, step, call, he, hs]

theorem serve_idle_connects (r : R) (rest : List Ans)
    (he : r.error = none) (hs : r.st = .idle) :
    serve r (.ok :: .ok :: .ok :: rest) =
      ({ r with st := .connected (r.made + 1), made := r.made + 1, hasBeen := true }, rest,
        .resp (r.made + 1)) := by
  simp [serve, drive, driveLoop, step, call, he, hs]

theorem serve_idle_fails (r : R) (e : Nat) (rest : List Ans)
    (he : r.error = none) (hs : r.st = .idle) (hl : (r.hasBeen || r.isLazy) = true) :
    serve r (.ok :: .err e :: rest) =
      ({ r with st := .idle, made := r.made + 1 }, rest, .err e) := by
  simp [serve, drive, driveLoop, step, call, he, hs, hl]

theorem serve_dead_reconnects (r : R) (c x : Nat) (rest : List Ans)
    (he : r.error = none) (hs : r.st = .connected c) :
    serve r (.err x :: .ok :: .ok :: .ok :: rest) =
      ({ r with st := .connected (r.made + 1), made := r.made + 1, hasBeen := true }, rest,
        .resp (r.made + 1)) := by
  simp [serve, drive, driveLoop, step, call, he, hs]

theorem serve_dead_fails (r : R) (c x e : Nat) (rest : List Ans)
    (he : r.error = none) (hs : r.st = .connected c) :
    serve r (.err x :: .ok :: .err e :: rest) =
      ({ r with st := .idle, made := r.made + 1, hasBeen := true }, rest, .err e) := by
  simp [serve, drive, driveLoop, step, call, he, hs]

end Reconnect

namespace Reconnect
open ConnScript
open Spec.Reconnect (failures reported)

/-! ### which part of the script an operation consumes, and where a stored error comes from -/

theorem failures_append (a b : List Ans) : failures (a ++ b) = failures a ++ failures b := by
  simp [failures, List.filterMap_append]

theorem failures_cons (a : Ans) (b : List Ans) : failures (a :: b) = failures [a] ++ failures b := by
  rw [← failures_append]; rfl

theorem step_cont_error {r r' : R} {a : Ans} (he : r.error = none)
    (h : step r a = (r', .cont)) : r'.error = none := by
  unfold step at h
  repeat' split at h
  all_goals simp_all
  all_goals (obtain ⟨rfl, _⟩ := h; simp_all)

theorem step_pending_error {r r' : R} {a : Ans}
    (h : step r a = (r', .done .pending)) : r'.error = r.error := by
  unfold step at h
  repeat' split at h
  all_goals simp_all
  all_goals (try (obtain ⟨rfl, _⟩ := h; simp_all))
  all_goals (try (subst h; rfl))

theorem step_done_error {r r' : R} {a : Ans} {p : Poll} (he : r.error = none)
    (h : step r a = (r', .done p)) :
    (r'.error.toList).Sublist (failures [a]) ∧ ∀ e, p = .failed e → e ∈ failures [a] := by
  unfold step at h
  repeat' split at h
  all_goals simp_all [failures]
  all_goals (try (obtain ⟨rfl, rfl⟩ := h; simp_all))

end Reconnect

namespace Reconnect
open ConnScript
open Spec.Reconnect (failures reported)

/-- What one `poll_ready` (entered with no stored error) did with the script: it consumed a prefix
`used`; an error it stored, or returned, is a failure inside that prefix. -/
def Consumed (env : List Ans) (out : R × List Ans × Poll) : Prop :=
  ∃ used, env = used ++ out.2.1 ∧ (out.1.error.toList).Sublist (failures used) ∧
    ∀ e, out.2.2 = .failed e → e ∈ failures used

theorem Consumed.cons {a : Ans} {env : List Ans} {out : R × List Ans × Poll}
    (h : Consumed env out) : Consumed (a :: env) out := by
  obtain ⟨used, h1, h2, h3⟩ := h
  refine ⟨a :: used, by simp [h1], ?_, ?_⟩
  · rw [failures_cons]; exact List.Sublist.trans h2 (List.sublist_append_right _ _)
  · intro e he; rw [failures_cons]; exact List.mem_append_right _ (h3 e he)

theorem loop_consumes (r : R) (env : List Ans) (he : r.error = none) :
    Consumed env (loop r env) := by
  induction env generalizing r with
  | nil =>
    refine ⟨[], ?_, ?_, ?_⟩ <;> unfold loop <;> cases r.st <;> simp [he]
  | cons a env ih =>
    unfold loop
    by_cases hs : r.st = .spent
    · simp only [hs, if_true]
      exact ⟨[], by simp, by simp [he], by simp⟩
    · simp only [hs, if_false]
      rcases hstep : step r a with ⟨r', _ | p⟩
      · exact (ih r' (step_cont_error he hstep)).cons
      · have := step_done_error he hstep
        exact ⟨[a], by simp, this.1, this.2⟩

theorem driveLoop_consumes (r : R) (env : List Ans) (he : r.error = none) :
    Consumed env (driveLoop r env) := by
  induction env generalizing r with
  | nil => unfold driveLoop; exact loop_consumes r [] he
  | cons a env ih =>
    unfold driveLoop
    by_cases hs : r.st = .spent
    · simp only [hs, if_true]
      exact ⟨[], by simp, by simp [he], by simp⟩
    · simp only [hs, if_false]
      rcases hstep : step r a with ⟨r', _ | p⟩
      · exact (ih r' (step_cont_error he hstep)).cons
      · by_cases hp : p = .pending
        · subst hp
          simp only [if_true]
          exact (ih r' (by rw [step_pending_error hstep]; exact he)).cons
        · simp only [hp, if_false]
          have := step_done_error he hstep
          exact ⟨[a], by simp, this.1, this.2⟩

/-- `poll_ready` from any state: the stored error afterwards is the one stored before, or a
failure consumed by this poll. -/
theorem pollReady_consumes (r : R) (env : List Ans) :
    ∃ used, env = used ++ (pollReady r env).2.1 ∧
      ((pollReady r env).1.error.toList).Sublist (r.error.toList ++ failures used) ∧
      ∀ e, (pollReady r env).2.2 = .failed e → e ∈ failures used := by
  unfold pollReady
  by_cases he : r.error.isSome = true
  · simp only [he, if_true]
    exact ⟨[], by simp, by simp [failures], by simp⟩
  · simp only [he]
    have hn : r.error = none := by cases h : r.error <;> simp_all
    obtain ⟨used, h1, h2, h3⟩ := loop_consumes r env hn
    exact ⟨used, h1, by simpa [hn] using h2, h3⟩

end Reconnect

namespace Reconnect
open ConnScript
open Spec.Reconnect (failures reported)

/-- The connect errors handed to calls by an arbitrary operation sequence, in order. -/
def handed (os : List UOut) : List Nat :=
  os.filterMap fun o => match o with
    | .called (.error e) _ => some e
    | .called (.sent _) _ => none
    | .called .panic _ => none
    | .polled _ _ => none

theorem call_handed (r : R) :
    (match (call r).2 with
      | .error e => [e]
      | .sent _ => []
      | .panic => []) ++ (call r).1.error.toList = r.error.toList := by
  unfold call
  cases he : r.error with
  | some e => simp
  | none => cases r.st <;> simp [he]

/-- No replay, for any use of the two entry points: the errors handed out form a subsequence of
(the error stored at the start, then) the failures of the script. -/
theorem runOps_handed_sublist (r : R) (env : List Ans) (ops : List UOp) :
    (handed (runOps r env ops).1).Sublist (r.error.toList ++ failures env) := by
  induction ops generalizing r env with
  | nil => simp [runOps, handed]
  | cons op ops ih =>
    cases op with
    | poll =>
      unfold runOps
      obtain ⟨used, h1, h2, _⟩ := pollReady_consumes r env
      rcases hp : pollReady r env with ⟨r', env', p⟩
      rw [hp] at h1 h2
      simp only at h1 h2
      by_cases hpan : p = .panic
      · simp [hpan, handed]
      · simp only [hpan, if_false]
        have := ih r' env'
        rcases hr : runOps r' env' ops with ⟨os, r'', env''⟩
        rw [hr] at this
        simp only [handed, List.filterMap_cons] at this ⊢
        refine List.Sublist.trans this ?_
        rw [h1, failures_append, ← List.append_assoc]
        exact List.Sublist.append h2 (List.Sublist.refl _)
    | call =>
      unfold runOps
      have hc := call_handed r
      rcases hcall : call r with ⟨r', o⟩
      rw [hcall] at hc
      simp only at hc
      by_cases hpan : o = .panic
      · subst hpan; simp [handed]
      · simp only [hpan, if_false]
        have := ih r' env
        rcases hr : runOps r' env ops with ⟨os, r'', env''⟩
        rw [hr] at this
        rw [← hc]
        cases o with
        | panic => exact absurd rfl hpan
        | sent c =>
          simp only [handed, List.filterMap_cons, List.nil_append] at this ⊢
          exact this
        | error e =>
          simp only [handed, List.filterMap_cons, List.cons_append] at this ⊢
          exact List.Sublist.cons_cons e this

end Reconnect

namespace Reconnect
open ConnScript
open Spec.Reconnect (failures reported)

/-- One request through the worker, started with no stored error: it consumes a prefix of the
script; an error it hands to the caller (or closes the channel with) is a failure inside that
prefix — it was produced while this very request was waiting; and it leaves no error behind. -/
theorem serve_consumes (r : R) (env : List Ans) (he : r.error = none) :
    ∃ used, env = used ++ (serve r env).2.1 ∧
      (reported [(serve r env).2.2]).Sublist (failures used) ∧
      (∀ e, (serve r env).2.2 = .closed e → e ∈ failures used) ∧
      ((serve r env).2.2 ≠ .hang → (serve r env).2.2 ≠ .panic →
        (∀ e, (serve r env).2.2 ≠ .closed e) → (serve r env).1.error = none) := by
  obtain ⟨used, h1, h2, h3⟩ := driveLoop_consumes r env he
  refine ⟨used, ?_⟩
  unfold serve drive
  simp only [he, Option.isSome_none, Bool.false_eq_true, if_false]
  rcases hd : driveLoop r env with ⟨r1, env1, p⟩
  rw [hd] at h1 h2 h3
  simp only at h1 h2 h3
  cases p with
  | ready =>
    simp only
    unfold call
    cases he1 : r1.error with
    | some e =>
      simp only [he1, Option.toList_some] at h2 ⊢
      exact ⟨h1, by simpa [reported] using h2, by simp, by simp⟩
    | none =>
      cases hs : r1.st <;> simp [reported, h1, he1]
  | failed e =>
    simp only
    exact ⟨h1, by simp [reported], by intro e' h; cases h; exact h3 e rfl, by simp⟩
  | pending => simp [reported, h1]
  | panic => simp [reported, h1]

theorem reported_replicate_closed (n e : Nat) : reported (List.replicate n (Res.closed e)) = [] := by
  induction n with
  | zero => rfl
  | succ n ih => simp [List.replicate_succ, reported] at ih ⊢

/-- No replay through the worker: over any script and any number of calls, the connect errors
handed to calls form a subsequence of the failures that happened. -/
theorem session_reported_sublist (r : R) (env : List Ans) (n : Nat) (he : r.error = none) :
    (reported (session r env n).1).Sublist (failures env) := by
  induction n generalizing r env with
  | zero => simp [session, reported]
  | succ n ih =>
    obtain ⟨used, h1, h2, _, h4⟩ := serve_consumes r env he
    unfold session
    rcases hs : serve r env with ⟨r', env', res⟩
    rw [hs] at h1 h2 h4
    simp only at h1 h2 h4
    cases res with
    | closed e => simp [reported_replicate_closed]
    | hang => simp [reported]
    | panic => simp [reported]
    | resp c =>
      have he' := h4 (by simp) (by simp) (by simp)
      have := ih r' env' he'
      simp only [reported, List.filterMap_cons] at this ⊢
      rw [h1, failures_append]
      exact List.Sublist.trans this (List.sublist_append_right _ _)
    | err e =>
      have he' := h4 (by simp) (by simp) (by simp)
      have := ih r' env' he'
      simp only [reported, List.filterMap_cons, List.filterMap_nil] at this h2 ⊢
      rw [h1, failures_append]
      exact List.Sublist.append h2 this

end Reconnect

namespace Reconnect.E2E
open ConnScript
open Spec.Reconnect (outcomeAt anyConnects callClauses nextSt evClauses liveAfter clauses holds isResp served)

/-- How the model state, the scripted world and the oracle's view hang together at a quiescent
point of an end-to-end run. -/
structure Inv (outs : List Outcome) (r : R) (w : World) (s : Spec.Reconnect.St) : Prop where
  err : r.error = none
  made : r.made = s.a
  outs : w.outcomes = outs.drop s.a
  alive : w.alive = s.live
  stored : (r.hasBeen || r.isLazy) = true
  shape : (r.st = .idle ∧ w.alive = none) ∨ ∃ c, r.st = .connected c ∧ (w.alive = some c ∨ w.alive = none)

theorem next_eq {outs : List Outcome} {w : World} {a : Nat} (h : w.outcomes = outs.drop a) :
    w.next = outcomeAt outs (a + 1) := by
  simp [World.next, outcomeAt, h, List.head?_drop]

theorem statusCode_fixed (o : Outcome) : statusCode (classOf true o) = unavailable := by
  cases o <;> rfl

theorem anyConnects_one (outs : List Outcome) (a : Nat) :
    anyConnects outs a (a + 1) = (outcomeAt outs (a + 1)).connects := by
  simp [anyConnects]

end Reconnect.E2E

namespace Reconnect.E2E
open ConnScript
open Spec.Reconnect (outcomeAt anyConnects callClauses nextSt evClauses liveAfter clauses holds isResp served)

/-- One call of any kind at a quiescent point: every clause of the oracle holds for what the model
does, and the invariant is re-established. -/
theorem callK_step (outs : List Outcome) (r : R) (w : World) (s : Spec.Reconnect.St) (k : CallKind)
    (h : Inv outs r w s) :
    (callClauses outs s k (resK k (callRes true w (serve r (answersFor w r)).2.2))
        (serve r (answersFor w r)).1.made).all (·.2) = true ∧
    Inv outs (serve r (answersFor w r)).1
      ((w.after r (serve r (answersFor w r)).1).afterK k (callRes true w (serve r (answersFor w r)).2.2))
      (nextSt s (resK k (callRes true w (serve r (answersFor w r)).2.2)) (serve r (answersFor w r)).1.made) := by
  obtain ⟨herr, hmade, houts, halive, hstored, hshape⟩ := h
  have hnext := next_eq houts
  have hfix := statusCode_fixed w.next
  rcases hshape with ⟨hst, hal⟩ | ⟨c, hst, hal | hal⟩
  · -- idle, nothing alive
    have hlive : s.live = none := by rw [← halive]; exact hal
    by_cases hc : w.next.connects = true
    · have hs := serve_idle_connects r [] herr hst
      have hc' : (outcomeAt outs (s.a + 1)).connects = true := by rw [← hnext]; exact hc
      simp only [answersFor, hst, hc, if_true, List.nil_append, hs]
      refine ⟨?_, ?_⟩
      · cases k <;> simp [callClauses, callRes, resK, served, hmade, hlive, hc']
      · refine ⟨herr, by simp [nextSt], ?_, ?_, by simp, ?_⟩
        · cases k <;> simp [World.after, World.afterK, callRes, houts, hmade, List.tail_drop, nextSt]
        · cases k <;> simp [World.after, World.afterK, hc, nextSt, callRes, resK, hlive]
        · cases k
          · exact Or.inr ⟨_, rfl, Or.inl (by simp [World.after, World.afterK, hc])⟩
          · exact Or.inr ⟨_, rfl, Or.inl (by simp [World.after, World.afterK, hc])⟩
          · exact Or.inr ⟨_, rfl, Or.inr (by simp [World.after, World.afterK, callRes])⟩
    · have hs := serve_idle_fails r (r.made + 1) [.ok] herr hst hstored
      have hc' : (outcomeAt outs (s.a + 1)).connects = false := by
        rw [← hnext]; simpa using hc
      simp only [answersFor, hst, hc, Bool.false_eq_true, if_false, List.nil_append, hs]
      refine ⟨?_, ?_⟩
      · simp only [callClauses, callRes, errorOf, hfix, resK]
        by_cases hr : w.next = .refuse <;>
          simp [hr, hmade, hlive, hc', served, anyConnects_one, unavailable]
      · refine ⟨herr, by simp [nextSt], ?_, ?_, hstored, ?_⟩
        · cases k <;> simp [World.after, World.afterK, callRes, houts, hmade, List.tail_drop, nextSt]
        · cases k <;> simp [World.after, World.afterK, hc, nextSt, callRes, resK]
        · exact Or.inl ⟨rfl, by cases k <;> simp [World.after, World.afterK, callRes, hc]⟩
  · -- connected, and that connection is alive
    have hlive : s.live = some c := by rw [← halive]; exact hal
    have hs := serve_connected_ok r c
      [Ans.ok, if w.next.connects then Ans.ok else Ans.err (r.made + 1), Ans.ok] herr hst
    simp only [answersFor, hst, hal, if_true, List.cons_append, List.nil_append, hs]
    refine ⟨?_, ?_⟩
    · cases k <;> simp [callClauses, callRes, resK, served, hmade, hlive]
    · refine ⟨herr, by simp [nextSt, hmade], ?_, ?_, by simp, ?_⟩
      · cases k <;> simp [World.after, World.afterK, callRes, houts, nextSt, hmade]
      · cases k <;> simp [World.after, World.afterK, nextSt, callRes, resK, hal, hlive]
      · cases k
        · exact Or.inr ⟨c, by simp, Or.inl (by simp [World.after, World.afterK, hal])⟩
        · exact Or.inr ⟨c, by simp, Or.inl (by simp [World.after, World.afterK, hal])⟩
        · exact Or.inr ⟨c, by simp, Or.inr (by simp [World.after, World.afterK, callRes])⟩
  · -- connected, but the peer dropped that connection
    have hlive : s.live = none := by rw [← halive]; exact hal
    have hne : ¬ (w.alive = some c) := by simp [hal]
    by_cases hc : w.next.connects = true
    · have hs := serve_dead_reconnects r c 0 [] herr hst
      have hc' : (outcomeAt outs (s.a + 1)).connects = true := by rw [← hnext]; exact hc
      simp only [answersFor, hst, hne, hc, if_true, if_false, List.cons_append,
        List.nil_append, hs]
      refine ⟨?_, ?_⟩
      · cases k <;> simp [callClauses, callRes, resK, served, hmade, hlive, hc']
      · refine ⟨herr, by simp [nextSt], ?_, ?_, by simp, ?_⟩
        · cases k <;> simp [World.after, World.afterK, callRes, houts, hmade, List.tail_drop, nextSt]
        · cases k <;> simp [World.after, World.afterK, hc, nextSt, callRes, resK, hlive]
        · cases k
          · exact Or.inr ⟨_, rfl, Or.inl (by simp [World.after, World.afterK, hc])⟩
          · exact Or.inr ⟨_, rfl, Or.inl (by simp [World.after, World.afterK, hc])⟩
          · exact Or.inr ⟨_, rfl, Or.inr (by simp [World.after, World.afterK, callRes])⟩
    · have hs := serve_dead_fails r c 0 (r.made + 1) [.ok] herr hst
      have hc' : (outcomeAt outs (s.a + 1)).connects = false := by
        rw [← hnext]; simpa using hc
      simp only [answersFor, hst, hne, hc, Bool.false_eq_true, if_false, List.cons_append,
        List.nil_append, hs]
      refine ⟨?_, ?_⟩
      · simp only [callClauses, callRes, errorOf, hfix, resK]
        by_cases hr : w.next = .refuse <;>
          simp [hr, hmade, hlive, hc', served, anyConnects_one, unavailable]
      · refine ⟨herr, by simp [nextSt], ?_, ?_, by simp, ?_⟩
        · cases k <;> simp [World.after, World.afterK, callRes, houts, hmade, List.tail_drop, nextSt]
        · cases k <;> simp [World.after, World.afterK, hc, nextSt, callRes, resK]
        · exact Or.inl ⟨rfl, by cases k <;> simp [World.after, World.afterK, callRes, hc]⟩

/-- An ordinary call: `resK .plain` and `afterK .plain` change nothing. -/
theorem resK_plain (res : CallRes) : resK .plain res = res := by cases res <;> rfl

theorem afterK_plain (w : World) (res : CallRes) : w.afterK .plain res = w := by
  cases res <;> rfl

theorem call_step (outs : List Outcome) (r : R) (w : World) (s : Spec.Reconnect.St)
    (h : Inv outs r w s) :
    (callClauses outs s .plain (callRes true w (serve r (answersFor w r)).2.2)
        (serve r (answersFor w r)).1.made).all (·.2) = true ∧
    Inv outs (serve r (answersFor w r)).1 (w.after r (serve r (answersFor w r)).1)
      (nextSt s (callRes true w (serve r (answersFor w r)).2.2) (serve r (answersFor w r)).1.made) := by
  have := callK_step outs r w s .plain h
  simpa only [resK_plain, afterK_plain] using this

end Reconnect.E2E

namespace Reconnect.E2E
open ConnScript
open Spec.Reconnect (outcomeAt anyConnects callClauses nextSt evClauses liveAfter clauses holds isResp served)

theorem callClauses_mono {outs : List Outcome} {s : Spec.Reconnect.St} {k : CallKind} {res : CallRes}
    {a' : Nat} (h : (callClauses outs s k res a').all (·.2) = true) : s.a ≤ a' := by
  simp only [callClauses, List.all_cons, Bool.and_eq_true, decide_eq_true_eq] at h
  exact h.2.1

/-- The oracle's next state after an ordinary call depends on the state before only through a
deadline expiry, which the model never produces for such a call. -/
theorem nextSt_callRes (s1 s2 : Spec.Reconnect.St) (fixed : Bool) (w : World) (res : Res) (a : Nat) :
    nextSt s1 (callRes fixed w res) a = nextSt s2 (callRes fixed w res) a := by
  cases res <;> rfl

theorem runOps_ok (outs : List Outcome) (ops : List Op) :
    ∀ (r : R) (w : World) (s : Spec.Reconnect.St), Inv outs r w s →
      (evClauses outs s ops (runOps true r w ops)).all (·.2) = true := by
  induction ops with
  | nil => intro r w s _; simp [runOps, evClauses]
  | cons op ops ih =>
    intro r w s h
    cases op with
    | die =>
      simp only [runOps, evClauses]
      apply ih
      obtain ⟨herr, hmade, houts, halive, hstored, hshape⟩ := h
      refine ⟨herr, hmade, houts, rfl, hstored, ?_⟩
      rcases hshape with ⟨hst, _⟩ | ⟨c, hst, _⟩
      · exact Or.inl ⟨hst, rfl⟩
      · exact Or.inr ⟨c, hst, Or.inr rfl⟩
    | call =>
      have hstep := call_step outs r w s h
      simp only [runOps, evClauses, List.all_append, Bool.and_eq_true]
      exact ⟨hstep.1, ih _ _ _ hstep.2⟩
    | callZero =>
      have hstep := callK_step outs r w s .zeroDeadline h
      simp only [runOps, callK, evClauses, List.all_append, Bool.and_eq_true]
      exact ⟨hstep.1, ih _ _ _ hstep.2⟩
    | callDie =>
      have hstep := callK_step outs r w s .peerDies h
      simp only [runOps, callK, evClauses, List.all_append, Bool.and_eq_true]
      exact ⟨hstep.1, ih _ _ _ hstep.2⟩
    | pair =>
      have h1 := call_step outs r w s h
      have h2 := call_step outs _ _ _ h1.2
      have m1 := callClauses_mono h1.1
      have m2 := callClauses_mono h2.1
      simp only [nextSt] at m2
      simp only [runOps, evClauses, List.all_cons, Bool.and_eq_true]
      refine ⟨?_, ih _ _ _ ?_⟩
      · unfold Spec.Reconnect.pairOk
        rw [List.any_eq_true]
        refine ⟨(serve r (answersFor w r)).1.made - s.a, by simp; omega, ?_⟩
        have : s.a + ((serve r (answersFor w r)).1.made - s.a) = (serve r (answersFor w r)).1.made := by omega
        rw [this, List.all_append, Bool.and_eq_true]
        exact ⟨h1.1, h2.1⟩
      · rw [nextSt_callRes _ (nextSt s (callRes true w (serve r (answersFor w r)).2.2) (serve r (answersFor w r)).1.made)]
        exact h2.2

theorem head_eq_outcomeAt (outs : List Outcome) :
    ({ outcomes := outs, alive := none } : World).next = outcomeAt outs 1 := by
  simp [World.next, outcomeAt, List.head?_eq_getElem?]

/-- The model's run of any fault script satisfies every clause of the oracle. -/
theorem run_holds (isLazy : Bool) (outs : List Outcome) (ops : List Op) :
    holds isLazy outs ops (run true isLazy outs ops) = true := by
  unfold holds clauses run
  cases isLazy with
  | true =>
    simp only [if_true, List.all_cons, Bool.and_eq_true]
    refine ⟨by simp, ?_⟩
    apply runOps_ok
    exact ⟨rfl, rfl, by simp, by simp [liveAfter], by simp [R.init], Or.inl ⟨rfl, rfl⟩⟩
  | false =>
    have hn := head_eq_outcomeAt outs
    simp only [Bool.false_eq_true, if_false]
    by_cases hc : (outcomeAt outs 1).connects = true
    · have hw : ({ outcomes := outs, alive := none } : World).next.connects = true := by rw [hn]; exact hc
      simp only [hc, if_true, connectEager, answersFor, R.init, hw, List.nil_append,
        drive, driveLoop, step, Option.isSome_none, Bool.false_eq_true, if_false]
      simp only [List.all_cons, Bool.and_eq_true]
      refine ⟨by simp, ?_⟩
      apply runOps_ok
      exact ⟨rfl, rfl, by simp [World.after], by simp [World.after, hw, liveAfter, hc], by simp,
        Or.inr ⟨1, rfl, Or.inl (by simp [World.after, hw])⟩⟩
    · have hw : ({ outcomes := outs, alive := none } : World).next.connects = false := by
        rw [hn]; simpa using hc
      have hfix := statusCode_fixed ({ outcomes := outs, alive := none } : World).next
      simp only [hc, Bool.false_eq_true, if_false, connectEager, answersFor, R.init, hw, List.nil_append,
        drive, driveLoop, step, Option.isSome_none, Bool.or_self, errorOf, hfix]
      by_cases hr : ({ outcomes := outs, alive := none } : World).next = .refuse <;>
        simp [hr, unavailable]

end Reconnect.E2E

namespace Reconnect
open ConnScript

/-! ### the state invariant, absence of panics, hangs only on a silent environment -/

/-- A stored error always sits in the `Idle` state. -/
def Good (r : R) : Prop := r.error.isSome = true → r.st = .idle

theorem good_init (l : Bool) : Good (R.init l) := by simp [Good, R.init]

theorem step_good {r r' : R} {a : Ans} {c : Ctl} (he : r.error = none)
    (h : step r a = (r', c)) : Good r' := by
  unfold step at h
  repeat' split at h
  all_goals simp_all [Good]
  all_goals (try (obtain ⟨rfl, _⟩ := h; simp_all))

theorem loop_good (r : R) (env : List Ans) (he : r.error = none) : Good (loop r env).1 := by
  induction env generalizing r with
  | nil => unfold loop; cases r.st <;> simp [Good, he]
  | cons a env ih =>
    unfold loop
    by_cases hs : r.st = .spent
    · simp [hs, Good, he]
    · simp only [hs, if_false]
      rcases hstep : step r a with ⟨r', _ | p⟩
      · exact ih r' (step_cont_error he hstep)
      · exact step_good he hstep

theorem pollReady_good (r : R) (env : List Ans) (h : Good r) : Good (pollReady r env).1 := by
  unfold pollReady
  by_cases he : r.error.isSome = true
  · simpa [he] using h
  · simp only [he]
    exact loop_good r env (by cases hh : r.error <;> simp_all)

theorem call_good (r : R) (_h : Good r) : Good (call r).1 := by
  unfold call
  cases he : r.error with
  | some e => simp [Good]
  | none => cases r.st <;> simp [Good, he]

theorem runOps_good (r : R) (env : List Ans) (ops : List UOp) (h : Good r) :
    Good (runOps r env ops).2.1 := by
  induction ops generalizing r env with
  | nil => simpa [runOps] using h
  | cons op ops ih =>
    cases op with
    | poll =>
      unfold runOps
      have hg := pollReady_good r env h
      rcases hp : pollReady r env with ⟨r', env', p⟩
      rw [hp] at hg
      by_cases hpan : p = .panic
      · simpa [hpan] using hg
      · simp only [hpan, if_false]
        exact ih r' env' hg
    | call =>
      unfold runOps
      have hg := call_good r h
      rcases hc : call r with ⟨r', o⟩
      rw [hc] at hg
      by_cases hpan : o = .panic
      · simpa [hpan] using hg
      · simp only [hpan, if_false]
        exact ih r' env hg

theorem step_not_spent {r r' : R} {a : Ans} {c : Ctl} (hs : r.st ≠ .spent)
    (h : step r a = (r', c)) (hc : c = .cont ∨ c = .done .pending ∨ c = .done .ready) :
    r'.st ≠ .spent := by
  unfold step at h
  repeat' split at h
  all_goals simp_all
  all_goals (try (obtain ⟨rfl, rfl⟩ := h; simp_all))
  all_goals (try (obtain ⟨rfl, _⟩ := h; simp_all))

/-- What `driveLoop` can end with, from a state that is not `spent`: never a panic; `Pending`
only with the script exhausted; `Ready` only in a callable, non-`spent` state. -/
theorem driveLoop_outcome (r : R) (env : List Ans) (hs : r.st ≠ .spent) :
    (driveLoop r env).2.2 ≠ .panic ∧
    ((driveLoop r env).2.2 = .pending → (driveLoop r env).2.1 = []) ∧
    ((driveLoop r env).2.2 = .ready → Callable (driveLoop r env).1 ∧ (driveLoop r env).1.st ≠ .spent) := by
  induction env generalizing r with
  | nil =>
    unfold driveLoop loop
    cases hst : r.st <;> simp_all
  | cons a env ih =>
    unfold driveLoop
    simp only [hs, if_false]
    rcases hstep : step r a with ⟨r', _ | p⟩
    · exact ih r' (step_not_spent hs hstep (Or.inl rfl))
    · by_cases hp : p = .pending
      · subst hp
        simp only [if_true]
        exact ih r' (step_not_spent hs hstep (Or.inr (Or.inl rfl)))
      · simp only [hp, if_false]
        refine ⟨?_, by intro h; simp_all, ?_⟩
        · intro hpan
          subst hpan
          unfold step at hstep
          repeat' split at hstep
          all_goals simp_all
        · intro hr
          subst hr
          exact ⟨step_ready_callable hstep, step_not_spent hs hstep (Or.inr (Or.inr rfl))⟩

end Reconnect

namespace Reconnect
open ConnScript

/-! ### `Pending` answers only delay -/

theorem driveLoop_pending_idle (r : R) (env : List Ans) (hs : r.st = .idle) :
    driveLoop r (.pending :: env) = driveLoop r env := by
  rw [driveLoop]; simp [step, hs]

theorem driveLoop_pending_connecting (r : R) (env : List Ans) (hs : r.st = .connecting) :
    driveLoop r (.pending :: env) = driveLoop r env := by
  rw [driveLoop]; simp [step, hs]

theorem driveLoop_pending_connected (r : R) (env : List Ans) (c : Nat) (hs : r.st = .connected c) :
    driveLoop r (.pending :: env) = driveLoop { r with hasBeen := true } env := by
  rw [driveLoop]; simp [step, hs]

theorem driveLoop_pendings_idle (r : R) (p : Nat) (env : List Ans) (hs : r.st = .idle) :
    driveLoop r (List.replicate p .pending ++ env) = driveLoop r env := by
  induction p with
  | zero => simp
  | succ p ih => rw [List.replicate_succ, List.cons_append, driveLoop_pending_idle r _ hs, ih]

theorem driveLoop_pendings_connecting (r : R) (p : Nat) (env : List Ans) (hs : r.st = .connecting) :
    driveLoop r (List.replicate p .pending ++ env) = driveLoop r env := by
  induction p with
  | zero => simp
  | succ p ih => rw [List.replicate_succ, List.cons_append, driveLoop_pending_connecting r _ hs, ih]

/-- Eager channel, first attempt fails (after any number of `Pending`s from the connector and
from the connect future): `poll_ready` returns that error; one attempt was made; nothing after the
failure was consumed. -/
theorem eager_initial_failure (p q e : Nat) (rest : List Ans) :
    connectEager (List.replicate p .pending ++ .ok :: (List.replicate q .pending ++ .err e :: rest)) =
      ({ R.init false with st := .spent, made := 1 }, rest, .failed e) := by
  unfold connectEager drive
  simp only [R.init, Option.isSome_none, Bool.false_eq_true, if_false]
  rw [driveLoop_pendings_idle _ _ _ rfl, driveLoop]
  simp only [step]
  rw [driveLoop_pendings_connecting _ _ _ rfl, driveLoop]
  simp [step]

/-- Lazy channel, same script: the channel is built regardless and the first call gets that
error — and only it: the state afterwards holds no error. -/
theorem lazy_initial_failure (p q e : Nat) (rest : List Ans) :
    serve (R.init true) (List.replicate p .pending ++ .ok :: (List.replicate q .pending ++ .err e :: rest)) =
      ({ R.init true with made := 1 }, rest, .err e) := by
  unfold serve drive
  simp only [R.init, Option.isSome_none, Bool.false_eq_true, if_false]
  rw [driveLoop_pendings_idle _ _ _ rfl, driveLoop]
  simp only [step]
  rw [driveLoop_pendings_connecting _ _ _ rfl, driveLoop]
  simp [step, call]

/-! ### recovery -/

/-- How many `Ready(Ok)` answers the state machine needs to become ready. -/
def need (r : R) : Nat :=
  match r.st with
  | .connected _ => 1
  | .connecting => 2
  | .idle => 3
  | .spent => 0

/-- The connection that will serve the next call if nothing fails any more. -/
def target (r : R) : Nat :=
  match r.st with
  | .connected c => c
  | .connecting => r.made
  | .idle => r.made + 1
  | .spent => 0

def countOk (env : List Ans) : Nat := (env.filter (· = .ok)).length

def Quiet (env : List Ans) : Prop := ∀ a ∈ env, a = .ok ∨ a = .pending

theorem driveLoop_quiet (env : List Ans) :
    ∀ r : R, r.error = none → r.st ≠ .spent → Quiet env → need r ≤ countOk env →
      (driveLoop r env).2.2 = .ready ∧ (driveLoop r env).1.st = .connected (target r) ∧
      (driveLoop r env).1.error = none ∧ (driveLoop r env).1.made = (if r.st = .idle then r.made + 1 else r.made) := by
  induction env with
  | nil =>
    intro r _ hs _ hn
    cases hst : r.st <;> simp_all [need, countOk]
  | cons a env ih =>
    intro r he hs hq hn
    have hq' : Quiet env := fun b hb => hq b (List.mem_cons_of_mem _ hb)
    rcases hq a (List.mem_cons_self) with rfl | rfl
    · -- ok
      have hcount : countOk (.ok :: env) = countOk env + 1 := by simp [countOk]
      rw [hcount] at hn
      rw [driveLoop]
      simp only [hs, if_false]
      cases hst : r.st with
      | spent => exact absurd hst hs
      | idle =>
        simp only [step, hst]
        have := ih { r with st := .connecting, made := r.made + 1 } he (by simp) hq'
          (by simp [need, hst] at hn ⊢; omega)
        simpa [target, hst] using this
      | connecting =>
        simp only [step, hst]
        have := ih { r with st := .connected r.made } he (by simp) hq'
          (by simp [need, hst] at hn ⊢; omega)
        simpa [target, hst] using this
      | connected c =>
        simp [step, hst, target, he]
    · -- pending
      have hcount : countOk (.pending :: env) = countOk env := by simp [countOk]
      rw [hcount] at hn
      cases hst : r.st with
      | spent => exact absurd hst hs
      | idle =>
        rw [driveLoop_pending_idle r env hst]
        simpa [hst] using ih r he hs hq' hn
      | connecting =>
        rw [driveLoop_pending_connecting r env hst]
        simpa [hst] using ih r he hs hq' hn
      | connected c =>
        rw [driveLoop_pending_connected r env c hst]
        have := ih { r with hasBeen := true } he (by simp [hst]) hq' (by simpa [need, hst] using hn)
        simpa [target, hst] using this

end Reconnect

namespace Reconnect
open ConnScript

/-! ### `drive` is "call `poll_ready` again while it says `Pending`" -/

theorem step_pending_loop_nil {r r' : R} {a : Ans} (h : step r a = (r', .done .pending)) :
    loop r' [] = (r', [], .pending) := by
  unfold step at h
  repeat' split at h
  all_goals simp_all
  all_goals (try (obtain ⟨rfl, _⟩ := h))
  all_goals (try subst h)
  all_goals simp_all [loop]

theorem driveLoop_repolls (r : R) (env : List Ans) (he : r.error = none) :
    driveLoop r env =
      if (loop r env).2.2 = .pending ∧ (loop r env).2.1 ≠ [] then
        driveLoop (loop r env).1 (loop r env).2.1
      else loop r env := by
  induction env generalizing r with
  | nil =>
    have : (loop r []).2.1 = [] := by unfold loop; cases r.st <;> rfl
    simp [driveLoop, this]
  | cons a env ih =>
    rw [driveLoop]
    by_cases hs : r.st = .spent
    · simp [hs, loop]
    · simp only [loop, hs, if_false]
      rcases hstep : step r a with ⟨r', _ | p⟩
      · simp only
        exact ih r' (step_cont_error he hstep)
      · simp only
        by_cases hp : p = .pending
        · subst hp
          simp only [if_true, true_and]
          by_cases hnil : env = []
          · subst hnil
            simp [driveLoop, step_pending_loop_nil hstep]
          · simp [hnil]
        · simp [hp]

end Reconnect

namespace Reconnect
open ConnScript

theorem step_done_pending_error {r r' : R} {a : Ans} (he : r.error = none)
    (h : step r a = (r', .done .pending)) : r'.error = none := by
  rw [step_pending_error h]; exact he

theorem loop_pending_error (r : R) (env : List Ans) (he : r.error = none)
    (hp : (loop r env).2.2 = .pending) : (loop r env).1.error = none := by
  induction env generalizing r with
  | nil => unfold loop; cases r.st <;> simp [he]
  | cons a env ih =>
    unfold loop at hp ⊢
    by_cases hs : r.st = .spent
    · simp [hs, he]
    · simp only [hs, if_false] at hp ⊢
      rcases hstep : step r a with ⟨r', _ | p⟩
      · rw [hstep] at hp
        exact ih r' (step_cont_error he hstep) hp
      · rw [hstep] at hp
        simp only at hp
        subst hp
        exact step_done_pending_error he hstep

theorem call_st (r : R) : (call r).1.st = r.st := by
  unfold call
  cases r.error with
  | some e => rfl
  | none => cases hst : r.st <;> simp [hst]

/-- A request that was answered with a response or a connect error leaves the service in a state
that is still in use. -/
theorem serve_not_spent (r : R) (env : List Ans) (hs : r.st ≠ .spent) :
    (match (serve r env).2.2 with
      | .resp _ => True
      | .err _ => True
      | .closed _ => False
      | .hang => False
      | .panic => False) → (serve r env).1.st ≠ .spent := by
  unfold serve drive
  by_cases he : r.error.isSome = true
  · cases hr : r.error with
    | none => simp [hr] at he
    | some e => simp [call, hr, hs]
  · simp only [he]
    obtain ⟨_, _, h3⟩ := driveLoop_outcome r env hs
    rcases hd : driveLoop r env with ⟨r1, env1, p⟩
    rw [hd] at h3
    simp only at h3
    cases p with
    | ready =>
      obtain ⟨_, hns⟩ := h3 rfl
      have hc := call_st r1
      rcases hcall : call r1 with ⟨r2, o⟩
      rw [hcall] at hc
      simp only at hc
      cases o <;> simp [hcall, hc, hns]
    | failed e => simp
    | pending => simp
    | panic => simp

end Reconnect

namespace Reconnect
open ConnScript

/-! ### results do not depend on the `Pending` pattern -/

/-- The script with every `Pending` answer removed. -/
def strip (env : List Ans) : List Ans := env.filter (· ≠ .pending)

theorem driveLoop_spent (r : R) (env : List Ans) (hs : r.st = .spent) :
    driveLoop r env = (r, env, .panic) := by
  cases env with
  | nil => simp [driveLoop, loop, hs]
  | cons a env => simp [driveLoop, hs]

/-- In the `Connected` state the old value of `has_been_connected` is irrelevant (it is
overwritten before anything else happens). -/
theorem driveLoop_touch (r : R) (c : Nat) (env : List Ans) (hs : r.st = .connected c) :
    driveLoop { r with hasBeen := true } env = driveLoop r env := by
  cases env with
  | nil => simp [driveLoop, loop, hs]
  | cons a env =>
    rw [driveLoop, driveLoop]
    cases a <;> simp [step, hs]

theorem driveLoop_strip (r : R) (env : List Ans) :
    driveLoop r (strip env) =
      ((driveLoop r env).1, strip (driveLoop r env).2.1, (driveLoop r env).2.2) := by
  induction env generalizing r with
  | nil =>
    have : (loop r []).2.1 = [] := by unfold loop; cases r.st <;> rfl
    simp only [strip, List.filter_nil, driveLoop]
    rcases hl : loop r [] with ⟨a, b, c⟩
    rw [hl] at this
    simp only at this
    subst this
    rfl
  | cons a env ih =>
    by_cases hs : r.st = .spent
    · simp [driveLoop_spent _ _ hs]
    · cases a with
      | pending =>
        have hstrip : strip (.pending :: env) = strip env := by simp [strip]
        rw [hstrip]
        cases hst : r.st with
        | spent => exact absurd hst hs
        | idle => rw [driveLoop_pending_idle r env hst]; exact ih r
        | connecting => rw [driveLoop_pending_connecting r env hst]; exact ih r
        | connected c =>
          rw [driveLoop_pending_connected r env c hst, ← ih, driveLoop_touch r c _ hst]
      | ok =>
        have hstrip : strip (.ok :: env) = .ok :: strip env := by simp [strip]
        rw [hstrip, driveLoop, driveLoop]
        simp only [hs, if_false]
        rcases hstep : step r .ok with ⟨r', _ | p⟩
        · exact ih r'
        · have hp : p ≠ .pending := by
            intro hp; subst hp
            unfold step at hstep
            repeat' split at hstep
            all_goals simp_all
          simp [hp]
      | err e =>
        have hstrip : strip (.err e :: env) = .err e :: strip env := by simp [strip]
        rw [hstrip, driveLoop, driveLoop]
        simp only [hs, if_false]
        rcases hstep : step r (.err e) with ⟨r', _ | p⟩
        · exact ih r'
        · have hp : p ≠ .pending := by
            intro hp; subst hp
            unfold step at hstep
            repeat' split at hstep
            all_goals simp_all
          simp [hp]

theorem serve_strip (r : R) (env : List Ans) :
    serve r (strip env) = ((serve r env).1, strip (serve r env).2.1, (serve r env).2.2) := by
  unfold serve drive
  by_cases he : r.error.isSome = true
  · simp only [he, if_true]
    rcases call r with ⟨r', o⟩
    cases o <;> rfl
  · have hn : r.error = none := by cases h : r.error <;> simp_all
    simp only [hn, Option.isSome_none, Bool.false_eq_true, if_false]
    rw [driveLoop_strip]
    rcases driveLoop r env with ⟨r1, env1, p⟩
    cases p with
    | ready =>
      simp only
      rcases call r1 with ⟨r', o⟩
      cases o <;> rfl
    | failed e => rfl
    | pending => rfl
    | panic => rfl

theorem session_strip (r : R) (env : List Ans) (n : Nat) :
    (session r (strip env) n).1 = (session r env n).1 ∧
    (session r (strip env) n).2.1 = (session r env n).2.1 := by
  induction n generalizing r env with
  | zero => simp [session]
  | succ n ih =>
    unfold session
    rw [serve_strip]
    rcases serve r env with ⟨r', env', res⟩
    cases res with
    | closed e => simp
    | hang => simp
    | panic => simp
    | resp c =>
      have := ih r' env'
      simp only
      exact ⟨by rw [this.1], this.2⟩
    | err e =>
      have := ih r' env'
      simp only
      exact ⟨by rw [this.1], this.2⟩

end Reconnect

namespace Reconnect
open ConnScript
open Spec.Reconnect (failures reported closedIds sessClauses sessBuildClauses)

/-! ### the flat-script oracle holds of every session -/

/-- `serve` never panics from a state in use and hangs only on an exhausted script. -/
theorem serve_definite (r : R) (env : List Ans) (hs : r.st ≠ .spent) :
    (serve r env).2.2 ≠ .panic ∧ ((serve r env).2.2 = .hang → (serve r env).2.1 = []) := by
  unfold serve drive
  by_cases he : r.error.isSome = true
  · cases hr : r.error with
    | none => simp [hr] at he
    | some e => simp [call, hr]
  · simp only [he]
    obtain ⟨h1, h2, h3⟩ := driveLoop_outcome r env hs
    rcases hd : driveLoop r env with ⟨r1, env1, p⟩
    rw [hd] at h1 h2 h3
    simp only at h1 h2 h3
    cases p with
    | ready =>
      obtain ⟨hc, _⟩ := h3 rfl
      unfold call
      rcases hc with hc | ⟨c, hc⟩
      · cases hr : r1.error with
        | none => simp [hr] at hc
        | some e => simp [hr]
      · cases hr : r1.error <;> simp [hc, hr]
    | failed e => simp
    | pending => simpa using h2
    | panic => exact absurd rfl h1

/-- Everything the flat-script oracle asks of a session, from any state in use with no stored
error. `pre` is whatever part of the script was consumed before (building an eager channel). -/
theorem session_facts (n : Nat) : ∀ (r : R) (env : List Ans), r.error = none → r.st ≠ .spent →
    Res.panic ∉ (session r env n).1 ∧
    (Res.hang ∈ (session r env n).1 → (session r env n).2.2 = []) ∧
    (∀ e, Res.closed e ∈ (session r env n).1 → e ∈ failures env) := by
  induction n with
  | zero => intro r env _ _; simp [session]
  | succ n ih =>
    intro r env he hs
    have hd := serve_definite r env hs
    have hns := serve_not_spent r env hs
    obtain ⟨used, h1, _, h3, h4⟩ := serve_consumes r env he
    unfold session
    rcases hsv : serve r env with ⟨r', env', res⟩
    rw [hsv] at hd hns h1 h3 h4
    simp only at hd hns h1 h3 h4
    cases res with
    | closed e =>
      refine ⟨by simp [List.mem_replicate], by simp [List.mem_replicate], ?_⟩
      intro e' he'
      simp only [List.mem_replicate] at he'
      obtain ⟨_, he'⟩ := he'
      cases he'
      rw [h1, failures_append]
      exact List.mem_append_left _ (h3 e rfl)
    | hang => simpa using hd.2
    | panic => exact absurd rfl hd.1
    | resp c =>
      obtain ⟨i1, i2, i3⟩ := ih r' env' (h4 (by simp) (by simp) (by simp)) (hns trivial)
      refine ⟨by simpa using i1, by simpa using i2, ?_⟩
      intro e he'
      simp only [List.mem_cons] at he'
      rcases he' with he' | he'
      · cases he'
      · rw [h1, failures_append]
        exact List.mem_append_right _ (i3 e he')
    | err e0 =>
      obtain ⟨i1, i2, i3⟩ := ih r' env' (h4 (by simp) (by simp) (by simp)) (hns trivial)
      refine ⟨by simpa using i1, by simpa using i2, ?_⟩
      intro e he'
      simp only [List.mem_cons] at he'
      rcases he' with he' | he'
      · cases he'
      · rw [h1, failures_append]
        exact List.mem_append_right _ (i3 e he')

theorem closedIds_all (rs : List Res) (p : Nat → Bool) (h : ∀ e, Res.closed e ∈ rs → p e = true) :
    (closedIds rs).all p = true := by
  simp only [List.all_eq_true, closedIds, List.mem_filterMap]
  rintro e ⟨r, hr, hre⟩
  cases r <;> simp at hre
  subst hre
  exact h _ hr

/-- The session part of the oracle holds, relative to any script `full` that ends with `env`. -/
theorem session_clauses (r : R) (pre env : List Ans) (n : Nat) (he : r.error = none)
    (hs : r.st ≠ .spent) :
    (sessClauses (pre ++ env) (session r env n).1 (session r env n).2.2.length).all (·.2) = true := by
  obtain ⟨h1, h2, h3⟩ := session_facts n r env he hs
  have hsub := session_reported_sublist r env n he
  simp only [sessClauses, List.all_cons, List.all_nil, Bool.and_true, Bool.and_eq_true]
  refine ⟨?_, ?_, ?_, ?_⟩
  · simpa using h1
  · rw [List.isSublist_iff_sublist, failures_append]
    exact List.Sublist.trans hsub (List.sublist_append_right _ _)
  · by_cases hh : Res.hang ∈ (session r env n).1
    · simp [h2 hh]
    · simp [hh]
  · apply closedIds_all
    intro e he'
    have := h3 e he'
    simp only [List.contains_eq_mem, decide_eq_true_eq, failures_append]
    exact List.mem_append_right _ this

end Reconnect

namespace Reconnect
open ConnScript
open Spec.Reconnect (failures reported closedIds sessClauses sessBuildClauses)

theorem session_stored (r : R) (e : Nat) (env : List Ans) (n : Nat) (he : r.error = some e) :
    session r env (n + 1) =
      (.err e :: (session { r with error := none } env n).1,
        (session { r with error := none } env n).2.1, (session { r with error := none } env n).2.2) := by
  rw [session, serve_stored_error r e env he]

/-- `session_clauses` for a state that may still hold an error stored while the (eager) channel
was being built over the part `pre` of the script. -/
theorem session_clauses' (r : R) (pre env : List Ans) (n : Nat) (hs : r.st ≠ .spent)
    (hpre : (r.error.toList).Sublist (failures pre)) :
    (sessClauses (pre ++ env) (session r env n).1 (session r env n).2.2.length).all (·.2) = true := by
  cases he : r.error with
  | none => exact session_clauses r pre env n he hs
  | some e =>
    cases n with
    | zero => simp [session, sessClauses, reported, closedIds]
    | succ n =>
      rw [session_stored r e env n he]
      have hs' : ({ r with error := none } : R).st ≠ .spent := hs
      obtain ⟨h1, h2, h3⟩ := session_facts n { r with error := none } env rfl hs'
      have hsub := session_reported_sublist { r with error := none } env n rfl
      rw [he] at hpre
      simp only [sessClauses, List.all_cons, List.all_nil, Bool.and_true, Bool.and_eq_true]
      refine ⟨?_, ?_, ?_, ?_⟩
      · simpa using h1
      · rw [List.isSublist_iff_sublist, failures_append]
        simp only [reported, List.filterMap_cons]
        exact List.Sublist.append (l₁ := [e]) hpre hsub
      · by_cases hh : Res.hang ∈ (session { r with error := none } env n).1
        · simp [h2 hh]
        · simp [hh]
      · apply closedIds_all
        intro e' he'
        simp only [List.mem_cons] at he'
        rcases he' with he' | he'
        · cases he'
        · have := h3 e' he'
          simp only [List.contains_eq_mem, decide_eq_true_eq, failures_append]
          exact List.mem_append_right _ this

/-- The flat-script oracle (build clauses and session clauses) holds of everything the model does
over any script, lazy or eager, for any number of calls. -/
theorem channelSession_spec (isLazy : Bool) (env : List Ans) (n : Nat) :
    (sessBuildClauses isLazy env (channelSession isLazy env n).1
        (channelSession isLazy env n).2.2.2.length ++
      sessClauses env (channelSession isLazy env n).2.1
        (channelSession isLazy env n).2.2.2.length).all (·.2) = true := by
  unfold channelSession
  cases isLazy with
  | true =>
    simp only [if_true, List.all_append, Bool.and_eq_true]
    refine ⟨by simp [sessBuildClauses], ?_⟩
    simpa using session_clauses (R.init true) [] env n rfl (by simp [R.init])
  | false =>
    simp only [Bool.false_eq_true, if_false]
    have hinit : (R.init false).st ≠ .spent := by simp [R.init]
    obtain ⟨used, h1, h2, h3⟩ := driveLoop_consumes (R.init false) env rfl
    obtain ⟨o1, o2, o3⟩ := driveLoop_outcome (R.init false) env hinit
    have hce : connectEager env = driveLoop (R.init false) env := by
      simp [connectEager, drive, R.init]
    rw [hce]
    rcases hd : driveLoop (R.init false) env with ⟨r', env', p⟩
    rw [hd] at h1 h2 h3 o1 o2 o3
    simp only at h1 h2 h3 o1 o2 o3
    cases p with
    | ready =>
      simp only [List.all_append, Bool.and_eq_true]
      refine ⟨by simp [sessBuildClauses], ?_⟩
      rw [h1]
      exact session_clauses' r' used env' n (o3 rfl).2 h2
    | failed e =>
      have := h3 e rfl
      simp [sessBuildClauses, sessClauses, reported, closedIds, h1, failures_append, this]
    | pending =>
      simp [sessBuildClauses, sessClauses, reported, closedIds, o2 rfl]
    | panic => exact absurd rfl o1

end Reconnect

namespace Reconnect
open ConnScript
open Spec.Reconnect (failures UnitObs UnitEv unitErrs contractOk unitClauses)

/-! ### the single-operation oracle holds of every operation sequence -/

def stNum : St → Nat
  | .idle => 0
  | .connecting => 1
  | .spent => 1
  | .connected _ => 2

/-- How an operation of the model is seen through the hook (`ReconnectHook::state`). -/
def toObs : UOut → UnitObs
  | .polled .ready r => ⟨.ready, stNum r.st, r.error.isSome, r.hasBeen⟩
  | .polled .pending r => ⟨.pending, stNum r.st, r.error.isSome, r.hasBeen⟩
  | .polled (.failed e) r => ⟨.fail e, stNum r.st, r.error.isSome, r.hasBeen⟩
  | .polled .panic _ => ⟨.pollPanic, 0, false, false⟩
  | .called (.sent c) r => ⟨.sent c, stNum r.st, r.error.isSome, r.hasBeen⟩
  | .called (.error e) r => ⟨.cerr e, stNum r.st, r.error.isSome, r.hasBeen⟩
  | .called .panic _ => ⟨.callPanic, 0, false, false⟩

theorem loop_spent (r : R) (env : List Ans) (hs : r.st ≠ .spent) :
    (loop r env).2.2 ≠ .panic ∧
    ((loop r env).1.st = .spent → ∃ e, (loop r env).2.2 = .failed e) := by
  induction env generalizing r with
  | nil => unfold loop; cases hst : r.st <;> simp_all
  | cons a env ih =>
    unfold loop
    simp only [hs, if_false]
    rcases hstep : step r a with ⟨r', _ | p⟩
    · exact ih r' (step_not_spent hs hstep (Or.inl rfl))
    · simp only
      unfold step at hstep
      repeat' split at hstep
      all_goals simp_all
      all_goals (try (obtain ⟨rfl, rfl⟩ := hstep; simp_all))

theorem pollReady_facts (r : R) (env : List Ans) :
    ((pollReady r env).2.2 = .panic → r.st = .spent) ∧
    ((pollReady r env).2.2 = .ready → Callable (pollReady r env).1) ∧
    ((pollReady r env).1.st = .spent → r.st = .spent ∨ ∃ e, (pollReady r env).2.2 = .failed e) := by
  unfold pollReady
  by_cases he : r.error.isSome = true
  · simp [he, Callable]
  · simp only [he]
    refine ⟨?_, loop_ready_callable r env, ?_⟩
    · intro hp
      by_cases hs : r.st = .spent
      · exact hs
      · exact absurd hp (loop_spent r env hs).1
    · intro hsp
      by_cases hs : r.st = .spent
      · exact Or.inl hs
      · exact Or.inr ((loop_spent r env hs).2 hsp)

theorem call_facts (r : R) :
    (Callable r → (call r).2 ≠ .panic) ∧ (∀ e, (call r).2 = .error e → (call r).1.error = none) := by
  unfold call Callable
  cases he : r.error with
  | some e => simp
  | none => cases hst : r.st <;> simp [he]

theorem runOps_contract (ops : List UOp) : ∀ (r : R) (env : List Ans) (pr fb : Bool),
    (pr = true → Callable r) → (r.st = .spent → fb = true) →
    contractOk pr fb ((runOps r env ops).1.map toObs) = true := by
  induction ops with
  | nil => intro r env pr fb _ _; simp [runOps, contractOk]
  | cons op ops ih =>
    intro r env pr fb hpr hfb
    cases op with
    | poll =>
      unfold runOps
      obtain ⟨f1, f2, f3⟩ := pollReady_facts r env
      rcases hp : pollReady r env with ⟨r', env', p⟩
      rw [hp] at f1 f2 f3
      simp only at f1 f2 f3
      cases p with
      | panic => simp [toObs, contractOk, hfb (f1 rfl)]
      | ready =>
        simp only [reduceCtorEq, if_false]
        simp only [List.map_cons, toObs, contractOk, Bool.true_and]
        apply ih
        · intro _; exact f2 rfl
        · intro hsp
          rcases f3 hsp with h | ⟨e, h⟩
          · simp [hfb h]
          · cases h
      | pending =>
        simp only [reduceCtorEq, if_false]
        simp only [List.map_cons, toObs, contractOk, Bool.true_and]
        apply ih
        · intro h; simp at h
        · intro hsp
          rcases f3 hsp with h | ⟨e, h⟩
          · simp [hfb h]
          · cases h
      | failed e =>
        simp only [reduceCtorEq, if_false]
        simp only [List.map_cons, toObs, contractOk, Bool.true_and]
        apply ih
        · intro h; simp at h
        · intro _; simp
    | call =>
      unfold runOps
      obtain ⟨c1, _⟩ := call_facts r
      have hst := call_st r
      rcases hc : call r with ⟨r', o⟩
      rw [hc] at c1 hst
      simp only at c1 hst
      cases o with
      | panic =>
        have : pr = false := by
          cases pr with
          | false => rfl
          | true => exact absurd rfl (c1 (hpr rfl))
        simp [toObs, contractOk, this]
      | sent c =>
        simp only [reduceCtorEq, if_false]
        simp only [List.map_cons, toObs, contractOk, Bool.true_and]
        apply ih
        · intro h; simp at h
        · intro hsp; rw [hst] at hsp; simp [hfb hsp]
      | error e =>
        simp only [reduceCtorEq, if_false]
        simp only [List.map_cons, toObs, contractOk, Bool.true_and]
        apply ih
        · intro h; simp at h
        · intro hsp; rw [hst] at hsp; simp [hfb hsp]

end Reconnect

namespace Reconnect
open ConnScript
open Spec.Reconnect (failures UnitObs UnitEv unitErrs contractOk unitClauses)

theorem unitErrs_toObs (os : List UOut) : unitErrs (os.map toObs) = handed os := by
  induction os with
  | nil => rfl
  | cons o os ih =>
    simp only [List.map_cons, unitErrs, handed, List.filterMap_cons] at ih ⊢
    rcases o with ⟨p, r⟩ | ⟨c, r⟩
    · cases p <;> simp [toObs, ih]
    · cases c <;> simp [toObs, ih]

theorem stNum_eq_two (s : St) : (stNum s == 2) = true ↔ ∃ c, s = .connected c := by
  cases s <;> simp [stNum]

/-- Per-operation facts: a ready poll leaves a callable state; a call that hands out an error
leaves none behind. -/
theorem runOps_pointwise (ops : List UOp) : ∀ (r : R) (env : List Ans),
    ∀ o ∈ (runOps r env ops).1,
      (∀ r', o = .polled .ready r' → Callable r') ∧
      (∀ e r', o = .called (.error e) r' → r'.error = none) := by
  induction ops with
  | nil => intro r env o ho; simp [runOps] at ho
  | cons op ops ih =>
    intro r env o ho
    cases op with
    | poll =>
      unfold runOps at ho
      obtain ⟨_, f2, _⟩ := pollReady_facts r env
      rcases hp : pollReady r env with ⟨r', env', p⟩
      rw [hp] at ho f2
      simp only at ho f2
      by_cases hpan : p = .panic
      · subst hpan
        simp at ho
        subst ho
        exact ⟨(by intro r'' h; cases h), (by intro e r'' h; cases h)⟩
      · simp only [hpan, if_false, List.mem_cons] at ho
        rcases ho with rfl | ho
        · refine ⟨?_, (by intro e r'' h; cases h)⟩
          intro r'' h
          cases h
          exact f2 rfl
        · exact ih r' env' o ho
    | call =>
      unfold runOps at ho
      obtain ⟨_, c2⟩ := call_facts r
      rcases hc : call r with ⟨r', co⟩
      rw [hc] at ho c2
      simp only at ho c2
      by_cases hpan : co = .panic
      · subst hpan
        simp at ho
        subst ho
        exact ⟨(by intro r'' h; cases h), (by intro e r'' h; cases h)⟩
      · simp only [hpan, if_false, List.mem_cons] at ho
        rcases ho with rfl | ho
        · refine ⟨(by intro r'' h; cases h), ?_⟩
          intro e r'' h
          cases h
          exact c2 e rfl
        · exact ih r' env o ho

/-- The single-operation oracle holds of everything the model does, for any sequence of
`poll_ready` / `call` on any script. -/
theorem runOps_spec (l : Bool) (env : List Ans) (ops : List UOp) :
    (unitClauses env ((runOps (R.init l) env ops).1.map toObs)).all (·.2) = true := by
  simp only [unitClauses, List.all_cons, List.all_nil, Bool.and_true, Bool.and_eq_true]
  refine ⟨?_, ?_, ?_, ?_⟩
  · exact runOps_contract ops (R.init l) env false false (by simp) (by simp [R.init])
  · simp only [List.all_eq_true, List.mem_map]
    rintro _ ⟨o, ho, rfl⟩
    obtain ⟨h1, _⟩ := runOps_pointwise ops (R.init l) env o ho
    rcases o with ⟨p, r⟩ | ⟨c, r⟩
    · cases p with
      | ready =>
        rcases h1 r rfl with h | ⟨c, h⟩
        · simp [toObs, h]
        · simp [toObs, h, stNum]
      | pending => simp [toObs]
      | failed e => simp [toObs]
      | panic => simp [toObs]
    · cases c <;> simp [toObs]
  · simp only [List.all_eq_true, List.mem_map]
    rintro _ ⟨o, ho, rfl⟩
    obtain ⟨_, h2⟩ := runOps_pointwise ops (R.init l) env o ho
    rcases o with ⟨p, r⟩ | ⟨c, r⟩
    · cases p <;> simp [toObs]
    · cases c with
      | error e => simp [toObs, h2 e r rfl]
      | sent c => simp [toObs]
      | panic => simp [toObs]
  · rw [List.isSublist_iff_sublist, unitErrs_toObs]
    simpa [R.init] using runOps_handed_sublist (R.init l) env ops

end Reconnect
