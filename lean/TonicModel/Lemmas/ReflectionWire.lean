import TonicModel.Model.ReflectionWire
import TonicModel.Spec.ReflectionWire
/-
Round trip: what `Model/ReflectionWire` writes for a skeleton descriptor, the independent
reader of `Spec/ReflectionWire` turns back into that descriptor.
-/
namespace ReflWire
open Refl Spec.ReflWire

theorem readVarint_varint (n : Nat) (rest : Bytes) :
    readVarint (varint n ++ rest) = some (n, rest) := by
  induction n using varint.induct with
  | case1 n h =>
    have e : (UInt8.ofNat n).toNat = n := by simp [UInt8.toNat_ofNat']; omega
    rw [varint]; simp only [h, dite_true, List.cons_append, List.nil_append, readVarint, e]
    simp
  | case2 n h ih =>
    rw [varint]; simp only [h, dite_false, List.cons_append, readVarint]
    have : (UInt8.ofNat (n % 128 + 128)).toNat = n % 128 + 128 := by
      simp [UInt8.toNat_ofNat']; omega
    rw [this, ih]
    have h2 : ¬ (n % 128 + 128 < 128) := by omega
    simp [h2]; omega

theorem varint_ne_nil (n : Nat) : varint n ≠ [] := by
  rw [varint]; split <;> simp

theorem readField_ld (k : Nat) (p rest : Bytes) :
    readField (ld k p ++ rest) = some (some (k, p), rest) := by
  unfold readField ld
  simp only [List.append_assoc, readVarint_varint]
  have h1 : (k * 8 + 2) % 8 = 2 := by omega
  have h2 : (k * 8 + 2) / 8 = k := by omega
  simp [h1, h2]

theorem ld_ne_nil (k : Nat) (p : Bytes) : ld k p ≠ [] := by
  unfold ld
  intro h
  exact varint_ne_nil _ (List.append_eq_nil_iff.mp h).1

theorem parseFields_step (fuel : Nat) (k : Nat) (p rest : Bytes) :
    parseFields (fuel + 1) (ld k p ++ rest) =
      (match parseFields fuel rest with
       | none => none
       | some xs => some ((k, p) :: xs)) := by
  cases h : ld k p ++ rest with
  | nil => exact absurd (List.append_eq_nil_iff.mp h).1 (ld_ne_nil k p)
  | cons b bs =>
    simp only [parseFields]
    rw [← h, readField_ld]
    cases hp : parseFields fuel rest <;> simp [hp]

theorem parseFields_serialize : ∀ (fs : List (Nat × Bytes)) (fuel : Nat), fs.length ≤ fuel →
    parseFields fuel (serialize fs) = some fs
  | [], fuel, _ => by cases fuel <;> simp [serialize, parseFields]
  | (k, p) :: fs, 0, h => by simp at h
  | (k, p) :: fs, fuel + 1, h => by
    simp only [serialize]
    rw [parseFields_step, parseFields_serialize fs fuel (by simpa using h)]

theorem length_le_serialize : ∀ fs : List (Nat × Bytes), fs.length ≤ (serialize fs).length
  | [] => by simp [serialize]
  | (k, p) :: fs => by
    have h1 := length_le_serialize fs
    have h2 : 1 ≤ (ld k p).length := by
      cases h : ld k p with
      | nil => exact absurd h (ld_ne_nil k p)
      | cons _ _ => simp
    simp only [serialize, List.length_cons, List.length_append]
    omega

theorem parse_serialize (fs : List (Nat × Bytes)) : parse (serialize fs) = some fs :=
  parseFields_serialize fs _ (length_le_serialize fs)

/-! field-list algebra -/

theorem getAll_append (k : Nat) (a b : List (Nat × Bytes)) :
    getAll k (a ++ b) = getAll k a ++ getAll k b := by
  simp [getAll]

theorem getAll_map {α : Type} (k j : Nat) (g : α → Bytes) (l : List α) :
    getAll k (l.map (fun x => (j, g x))) = if j = k then l.map g else [] := by
  induction l with
  | nil => simp [getAll]
  | cons x xs ih =>
    by_cases h : j = k
    · simp [getAll, h] at ih ⊢; exact ih
    · simp [getAll, h] at ih ⊢ <;> try exact ih

theorem getAll_optField (k j : Nat) (o : Option Name) :
    getAll k (optField j o) = if j = k then o.toList else [] := by
  cases o <;> by_cases h : j = k <;> simp [getAll, optField, h]

theorem getAll_encMsgs (k j : Nat) : ∀ ms : MsgList,
    getAll k (encMsgs j ms) = if j = k then ms.toList.map encMsg else []
  | .nil => by simp [getAll, encMsgs, MsgList.toList]
  | .cons m ms => by
    have ih := getAll_encMsgs k j ms
    by_cases h : j = k
    · simp [getAll, encMsgs, MsgList.toList, h] at ih ⊢; exact ih
    · simp [getAll, encMsgs, h] at ih ⊢ <;> try exact ih

theorem getOpt_eq (k : Nat) (fs : List (Nat × Bytes)) : getOpt k fs = (getAll k fs).getLast? := rfl

theorem getLast?_toList (o : Option Name) : o.toList.getLast? = o := by cases o <;> simp

theorem mapAll_map {α : Type} (enc : α → Bytes) (dec : Bytes → Option α) :
    ∀ l : List α, (∀ x ∈ l, dec (enc x) = some x) → mapAll dec (l.map enc) = some l
  | [], _ => by simp [mapAll]
  | x :: xs, h => by
    simp only [List.map_cons, mapAll, h x (by simp),
      mapAll_map enc dec xs (fun y hy => h y (List.mem_cons_of_mem _ hy))]

theorem decNamed_encNamed (o : Option Name) : decNamed (encNamed o) = some o := by
  simp [decNamed, encNamed, parse_serialize, getOpt_eq, getAll_optField, getLast?_toList]

theorem decEnum_encEnum (e : EnumD) : decEnum (encEnum e) = some e := by
  simp only [decEnum, encEnum, parse_serialize, getOpt_eq, getAll_append, getAll_optField,
    getAll_map]
  simp [mapAll_map encNamed decNamed e.values (fun x _ => decNamed_encNamed x), getLast?_toList]

theorem decService_encService (s : Service) : decService (encService s) = some s := by
  simp only [decService, encService, parse_serialize, getOpt_eq, getAll_append, getAll_optField,
    getAll_map]
  simp [mapAll_map encNamed decNamed s.methods (fun x _ => decNamed_encNamed x), getLast?_toList]

theorem ofList_toList : ∀ ms : MsgList, MsgList.ofList ms.toList = ms
  | .nil => rfl
  | .cons m ms => by simp [MsgList.toList, MsgList.ofList, ofList_toList ms]

mutual
theorem decMsg_encMsg : ∀ (m : Msg) (fuel : Nat), Msg.depth m ≤ fuel → decMsg fuel (encMsg m) = some m
  | .mk name nested enums fields oneofs, 0, h => by simp [Msg.depth] at h
  | .mk name nested enums fields oneofs, fuel + 1, h => by
    have hn : MsgList.depth nested ≤ fuel := by simp [Msg.depth] at h; exact h
    simp only [decMsg, encMsg, parse_serialize, getOpt_eq, getAll_append, getAll_optField,
      getAll_map, getAll_encMsgs]
    simp only [Nat.reduceEqDiff, if_true, if_false, List.append_nil, List.nil_append,
      mapAll_map encNamed decNamed fields (fun x _ => decNamed_encNamed x),
      mapAll_map encNamed decNamed oneofs (fun x _ => decNamed_encNamed x),
      mapAll_map encEnum decEnum enums (fun x _ => decEnum_encEnum x),
      decMsgs_encMsgs nested fuel hn, getLast?_toList, ofList_toList]
theorem decMsgs_encMsgs : ∀ (ms : MsgList) (fuel : Nat), MsgList.depth ms ≤ fuel →
    mapAll (decMsg fuel) (ms.toList.map encMsg) = some ms.toList
  | .nil, _, _ => by simp [MsgList.toList, mapAll]
  | .cons m ms, fuel, h => by
    have h1 : Msg.depth m ≤ fuel := by simp [MsgList.depth] at h; omega
    have h2 : MsgList.depth ms ≤ fuel := by simp [MsgList.depth] at h; omega
    simp only [MsgList.toList, List.map_cons, mapAll, decMsg_encMsg m fuel h1,
      decMsgs_encMsgs ms fuel h2]
end

/-- The independent reader recovers exactly the skeleton descriptor that was written, for every
recursion limit that covers its nesting depth. -/
theorem decFile_encFile (f : File) (hx : f.extra = 0) (fuel : Nat)
    (hd : MsgList.depth f.messages ≤ fuel) : decFile fuel (encFile f) = some f := by
  simp only [decFile, encFile, parse_serialize, getOpt_eq, getAll_append, getAll_optField,
    getAll_map, getAll_encMsgs]
  simp only [Nat.reduceEqDiff, if_true, if_false, List.append_nil, List.nil_append,
    mapAll_map encEnum decEnum f.enums (fun x _ => decEnum_encEnum x),
    mapAll_map encService decService f.services (fun x _ => decService_encService x),
    decMsgs_encMsgs f.messages fuel hd, getLast?_toList, ofList_toList]
  cases f
  simp_all

end ReflWire
