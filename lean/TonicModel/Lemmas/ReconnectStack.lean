import TonicModel.Lemmas.Reconnect
/-
Lemmas about the middleware above `Reconnect` (`stackCall`, `serveD`) and about sessions whose
calls carry deadlines or die in flight (`serveX`, `sessionX`): as far as the state machine and the
script are concerned they are ordinary sessions, so the session theorems carry over.
-/
namespace Reconnect
open ConnScript
open Spec.Reconnect (failures reported)

/-- The middleware never changes what `Reconnect::call` does to the state. -/
theorem stackCall_state (r : R) (zero : Bool) : (stackCall r zero).1 = (call r).1 := by
  unfold stackCall
  rcases hc : call r with ⟨r', o⟩
  cases o <;> simp

/-- A parked connect error is taken by the very next call, whatever its deadline. -/
theorem stackCall_parked (r : R) (e : Nat) (zero : Bool) (he : r.error = some e) :
    (stackCall r zero).2 = .error e ∧ (stackCall r zero).1.error = none := by
  simp [stackCall, call, he]

/-- How a worker result looks from outside once the deadline is taken into account. -/
def viewD (zero : Bool) : Res → SRes
  | .resp c => if zero then .expired c else .plain (.resp c)
  | .err e => .plain (.err e)
  | .closed e => .plain (.closed e)
  | .hang => .plain .hang
  | .panic => .plain .panic

/-- `serveD` is `serve` with the result seen through the deadline: same state, same script
consumption. -/
theorem serveD_eq (r : R) (env : List Ans) (zero : Bool) :
    serveD r env zero = ((serve r env).1, (serve r env).2.1, viewD zero (serve r env).2.2) := by
  unfold serveD serve stackCall
  rcases hd : drive r env with ⟨r', env', p⟩
  cases p with
  | ready =>
    rcases hc : call r' with ⟨r'', o⟩
    cases o <;> cases zero <;> simp [viewD, hc]
  | failed e => simp [viewD]
  | pending => simp [viewD]
  | panic => simp [viewD]

/-- Forget what became of a request after it went out. -/
def XRes.toRes : XRes → Res
  | .plain res => res
  | .expired c => .resp c
  | .lost c _ => .resp c

theorem serveX_eq (r : R) (env : List Ans) (cs : CallSpec) :
    (serveX r env cs).1 = (serve r env).1 ∧ (serveX r env cs).2.1 = (serve r env).2.1 ∧
    (serveX r env cs).2.2.toRes = (serve r env).2.2 := by
  unfold serveX
  rw [serveD_eq]
  rcases hs : serve r env with ⟨r', env', res⟩
  rcases cs with ⟨zero, fate⟩
  cases res <;> cases zero <;> cases fate <;> simp [viewD, XRes.toRes]

/-- A session with deadlines and in-flight deaths drives the state machine and consumes the
script exactly like the plain session of the same length; only the view of the served calls
differs. -/
theorem sessionX_eq (specs : List CallSpec) : ∀ (r : R) (env : List Ans),
    (sessionX r env specs).1.map XRes.toRes = (session r env specs.length).1 ∧
    (sessionX r env specs).2 = (session r env specs.length).2 := by
  induction specs with
  | nil => intro r env; simp [sessionX, session]
  | cons cs rest ih =>
    intro r env
    obtain ⟨h1, h2, h3⟩ := serveX_eq r env cs
    rcases hx : serveX r env cs with ⟨r', env', x⟩
    rcases hs : serve r env with ⟨r1, env1, res⟩
    rw [hx, hs] at h1 h2 h3
    simp only at h1 h2 h3
    subst h1 h2
    have ihr := ih r' env'
    simp only [sessionX, session, List.length_cons, hx, hs]
    cases x with
    | plain pr =>
      simp only [XRes.toRes] at h3
      subst h3
      cases pr with
      | resp c =>
        simp [XRes.toRes, ihr.1, ihr.2]
      | err e =>
        simp [XRes.toRes, ihr.1, ihr.2]
      | closed e => simp [XRes.toRes]
      | hang => simp [XRes.toRes]
      | panic => simp [XRes.toRes]
    | expired c =>
      simp only [XRes.toRes] at h3
      subst h3
      simp [XRes.toRes, ihr.1, ihr.2]
    | lost c x =>
      simp only [XRes.toRes] at h3
      subst h3
      simp [XRes.toRes, ihr.1, ihr.2]

/-- The connect errors handed to the calls of such a session. -/
def reportedX (xs : List XRes) : List Nat := reported (xs.map XRes.toRes)

/-- The in-flight errors delivered, in order. -/
def lostIds (xs : List XRes) : List Nat :=
  xs.filterMap fun x => match x with
    | .lost _ x => some x
    | .plain _ => none
    | .expired _ => none

/-- The in-flight errors the script holds in store, in order. -/
def fateIds (specs : List CallSpec) : List Nat :=
  specs.filterMap fun cs => match cs.fate with
    | .dies x => some x
    | .answered => none

theorem serveX_lost (r : R) (env : List Ans) (cs : CallSpec) (c x : Nat)
    (h : (serveX r env cs).2.2 = .lost c x) : cs.fate = .dies x := by
  unfold serveX at h
  rcases hd : serveD r env cs.zero with ⟨r', env', sr⟩
  rw [hd] at h
  cases sr with
  | expired c' => simp at h
  | plain pr =>
    cases pr with
    | resp c' =>
      cases hf : cs.fate with
      | answered => simp [hf] at h
      | dies y => simp [hf] at h; rw [h.2]
    | err e => simp at h
    | closed e => simp at h
    | hang => simp at h
    | panic => simp at h

/-- Every in-flight error goes to the call it belongs to and to no other: the errors delivered
are, in order, a subsequence of the fates scripted. -/
theorem sessionX_lost_sublist (specs : List CallSpec) : ∀ (r : R) (env : List Ans),
    (lostIds (sessionX r env specs).1).Sublist (fateIds specs) := by
  induction specs with
  | nil => intro r env; simp [sessionX, lostIds, fateIds]
  | cons cs rest ih =>
    intro r env
    rcases hx : serveX r env cs with ⟨r', env', x⟩
    have ihr := ih r' env'
    have hskip : (fateIds rest).Sublist (fateIds (cs :: rest)) := by
      unfold fateIds
      rw [List.filterMap_cons]
      cases cs.fate <;> simp
    cases x with
    | plain pr =>
      cases pr with
      | resp c =>
        rcases hxs : sessionX r' env' rest with ⟨xs, r2, env2⟩
        rw [hxs] at ihr
        simp only [sessionX, hx, hxs]
        exact List.Sublist.trans (by simpa [lostIds] using ihr) hskip
      | err e =>
        rcases hxs : sessionX r' env' rest with ⟨xs, r2, env2⟩
        rw [hxs] at ihr
        simp only [sessionX, hx, hxs]
        exact List.Sublist.trans (by simpa [lostIds] using ihr) hskip
      | closed e =>
        simp only [sessionX, hx]
        have : lostIds (List.replicate (rest.length + 1) (XRes.plain (Res.closed e))) = [] := by
          simp [lostIds]
        rw [this]; exact List.nil_sublist _
      | hang => simp [sessionX, hx, lostIds]
      | panic => simp [sessionX, hx, lostIds]
    | expired c =>
      rcases hxs : sessionX r' env' rest with ⟨xs, r2, env2⟩
      rw [hxs] at ihr
      simp only [sessionX, hx, hxs]
      exact List.Sublist.trans (by simpa [lostIds] using ihr) hskip
    | lost c x =>
      have hf := serveX_lost r env cs c x (by rw [hx])
      rcases hxs : sessionX r' env' rest with ⟨xs, r2, env2⟩
      rw [hxs] at ihr
      simp only [sessionX, hx, hxs]
      have : fateIds (cs :: rest) = x :: fateIds rest := by
        unfold fateIds; rw [List.filterMap_cons]; simp [hf]
      rw [this]
      simpa [lostIds] using ihr

end Reconnect
