import TonicModel.Model.RichError
/-
`prost_types::Duration::normalize` in two stages, and when its seconds come out as `i64::MIN`
(the trigger of the pinned tree's panic in `From<pb::RetryInfo>`), in terms of the RAW
`(seconds, nanos)` a peer sends.
-/
namespace RichError

theorem tdiv_tmod_facts (n : Int) : n = 1000000000 * n.tdiv nanosPerSec + n.tmod nanosPerSec ∧
    (n < 0 ∨ (0 ≤ n.tmod nanosPerSec ∧ n.tmod nanosPerSec < 1000000000)) ∧
    (0 < n ∨ (-1000000000 < n.tmod nanosPerSec ∧ n.tmod nanosPerSec ≤ 0)) := by
  have e : nanosPerSec = 1000000000 := rfl
  refine ⟨?_, ?_, ?_⟩
  · have := Int.mul_tdiv_add_tmod n nanosPerSec
    rw [e] at this ⊢; omega
  · by_cases h : n < 0
    · exact Or.inl h
    · right
      have h1 := Int.tmod_nonneg nanosPerSec (show 0 ≤ n by omega)
      have h2 := Int.tmod_lt_of_pos n (show (0:Int) < nanosPerSec by decide)
      rw [e] at h1 h2 ⊢; omega
  · by_cases h : 0 < n
    · exact Or.inl h
    · right
      have h1 := Int.tmod_nonneg nanosPerSec (show 0 ≤ -n by omega)
      have h2 := Int.tmod_lt_of_pos (-n) (show (0:Int) < nanosPerSec by decide)
      rw [Int.neg_tmod] at h1 h2
      rw [e] at h1 h2 ⊢; omega

def stage1 (s n : Int) : Int × Int :=
  if n ≤ -nanosPerSec ∨ nanosPerSec ≤ n then
    if i64Min ≤ s + n.tdiv nanosPerSec ∧ s + n.tdiv nanosPerSec ≤ i64Max then
      (s + n.tdiv nanosPerSec, n.tmod nanosPerSec)
    else if n < 0 then (i64Min, -999999999)
    else (i64Max, 999999999)
  else (s, n)

def stage2 (p : Int × Int) : Int × Int :=
  if p.1 < 0 ∧ 0 < p.2 then
    (if p.1 + 1 ≤ i64Max then (p.1 + 1, p.2 - nanosPerSec) else (p.1, 999999999))
  else if 0 < p.1 ∧ p.2 < 0 then
    (if i64Min ≤ p.1 - 1 then (p.1 - 1, p.2 + nanosPerSec) else (p.1, -999999999))
  else p

theorem normalize_stages (s n : Int) : normalize s n = stage2 (stage1 s n) := rfl

theorem stage2_fst (p1 p2 : Int) (h : i64Min ≤ p1) :
    (stage2 (p1, p2)).1 = i64Min ↔ (p1 = i64Min ∧ p2 ≤ 0) := by
  have e1 : nanosPerSec = 1000000000 := rfl
  have e2 : i64Min = -9223372036854775808 := rfl
  have e3 : i64Max = 9223372036854775807 := rfl
  unfold stage2
  simp only
  repeat' split
  all_goals simp only
  all_goals omega

theorem stage1_cases (s n : Int) (hs : i64Min ≤ s) (hs' : s ≤ i64Max) :
    i64Min ≤ (stage1 s n).1 ∧
    (((stage1 s n).1 = i64Min ∧ (stage1 s n).2 ≤ 0) ↔ (n ≤ 0 ∧ s + n.tdiv nanosPerSec ≤ i64Min)) := by
  have e1 : nanosPerSec = 1000000000 := rfl
  have e2 : i64Min = -9223372036854775808 := rfl
  have e3 : i64Max = 9223372036854775807 := rfl
  obtain ⟨hn, hpos, hneg⟩ := tdiv_tmod_facts n
  unfold stage1
  repeat' split
  all_goals simp only [true_and]
  all_goals omega


/-- For an `i64` seconds field: the normalized seconds are `i64::MIN` exactly when the nanos are
not positive and the seconds plus the whole seconds the nanos carry are at or below `i64::MIN`. -/
theorem normalize_fst_min_iff (s n : Int) (hs : i64Min ≤ s) (hs' : s ≤ i64Max) :
    (normalize s n).1 = i64Min ↔ (n ≤ 0 ∧ s + n.tdiv nanosPerSec ≤ i64Min) := by
  rw [normalize_stages]
  obtain ⟨h1, h2⟩ := stage1_cases s n hs hs'
  rw [← h2]
  exact stage2_fst _ _ h1

end RichError
