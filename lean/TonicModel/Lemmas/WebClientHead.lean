import TonicModel.Model.WebClient
import TonicModel.Model.WebCaller
import TonicModel.Spec.GrpcWeb
/-
Lemmas for the response-head part of C17: a text-mode (base64) grpc-web body is never a sequence
of binary grpc-web frames, and the caller's view of a 200 response does not depend on the rest of
the head.
-/
namespace WebClientHeadLemmas
open Spec.GrpcWeb (WellFramed flagOk rawFrame symVal quantum b64StreamDecode)
open WebServer (Out)

/-- no frame flag (0, 1, 0x80) is a symbol of the base64 alphabet -/
theorem symVal_flag (a : UInt8) (h : flagOk a) : symVal a = none := by
  rcases h with rfl | rfl | rfl <;> decide

/-- a body of complete frames starts with a frame flag -/
theorem wellFramed_first (a : UInt8) (rest : Bytes) (h : WellFramed (a :: rest)) : flagOk a := by
  obtain ⟨items, hv, hb⟩ := h
  cases items with
  | nil => simp at hb
  | cons i is =>
    have hi := (hv i (by simp)).1
    simp only [List.flatMap_cons, rawFrame, List.cons_append] at hb
    have : a = i.1 := (List.cons.inj hb).1
    rw [this]; exact hi

/-- a text-mode body the independent reader accepts starts with a base64 symbol -/
theorem decode_first_sym (a : UInt8) (rest raw : Bytes)
    (h : b64StreamDecode (a :: rest) = some raw) : symVal a ≠ none := by
  match rest, h with
  | b :: c :: d :: r, h =>
    intro hs
    simp only [b64StreamDecode, quantum, hs] at h
    cases h

/-- hence: a non-empty body in the text form is not well framed as a binary body -/
theorem text_not_wellFramed (body raw : Bytes) (hne : body ≠ [])
    (h : b64StreamDecode body = some raw) : ¬ WellFramed body := by
  cases body with
  | nil => exact absurd rfl hne
  | cons a rest =>
    intro hw
    exact decode_first_sym a rest raw h (symVal_flag a (wellFramed_first a rest hw))

/-- `endAt 200` is `endOf`, `messagesAt 200` is `messages ∘ dataOf` -/
theorem endAt_200 (outs : List Out) : WebCaller.endAt 200 outs = WebCaller.endOf outs := rfl

theorem streamingAt_200 (head : WebClient.RespHead) (h : head.status = 200) (outs : List Out) :
    WebCaller.streamingAt head outs = WebCaller.streaming outs := by
  simp [WebCaller.streamingAt, WebCaller.streaming, WebCaller.messagesAt, h, endAt_200]

end WebClientHeadLemmas
