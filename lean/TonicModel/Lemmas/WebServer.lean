import TonicModel.Model.WebServer
import TonicModel.Lemmas.GrpcWeb
/-
Lemmas about the grpc-web server model (`Model/WebServer`): schedules with `pending`,
per-chunk output, and the request-decoder invariant.
-/
namespace WebServerLemmas
open WebServer GrpcWebLemmas
open TMap (Pair)

theorem respRun_filter (enc : Enc) (evs : List BodyEv) :
    respRun enc evs = respRun enc (evs.filter notPending) := by
  induction evs with
  | nil => rfl
  | cons e r ih => cases e <;> simp [respRun, notPending, List.filter_cons, ih]

theorem reqText_filter (evs : List BodyEv) : ∀ buf,
    reqText buf evs = reqText buf (evs.filter notPending) := by
  induction evs with
  | nil => intro _; rfl
  | cons e r ih =>
    intro buf
    cases e with
    | data b =>
      simp only [reqText, notPending, List.filter_cons, if_true]
      split
      · exact ih _
      · split
        · rfl
        · rw [ih]
    | trailers h => simp [reqText, notPending, List.filter_cons]
    | err => simp [reqText, notPending, List.filter_cons]
    | pending => simp [reqText, notPending, ih]

theorem reqBin_filter (evs : List BodyEv) : reqBin evs = reqBin (evs.filter notPending) := by
  induction evs with
  | nil => rfl
  | cons e r ih => cases e <;> simp [reqBin, notPending, List.filter_cons, ih]

theorem respRun_data (enc : Enc) (chunks : List Bytes) (rest : List BodyEv) :
    respRun enc (chunks.map BodyEv.data ++ rest) =
      (chunks.map (fun c => Out.data (wrap enc c))) ++ respRun enc rest := by
  induction chunks with
  | nil => rfl
  | cons c cs ih => simp [respRun, ih]

theorem reqBin_data (chunks : List Bytes) :
    reqBin (chunks.map BodyEv.data) = chunks.map Out.data ++ [Out.eos] := by
  induction chunks with
  | nil => rfl
  | cons c cs ih => simp [reqBin, ih]

theorem encodeTrailers_eq (h : List Pair) :
    encodeTrailers h = (TMap.group h).flatMap Spec.GrpcWeb.lineOf := rfl

/-- Request decoder invariant: if what is buffered plus what is still to come is the canonical
padded encoding of `x`, the decoder delivers exactly `x` and ends cleanly. -/
theorem reqText_canonical (chunks : List Bytes) : ∀ (buf x : Bytes), buf.length < 4 →
    buf ++ chunks.flatten = B64.encode true x →
    ∃ outs : List Bytes, reqText buf (chunks.map BodyEv.data) = outs.map Out.data ++ [Out.eos] ∧
      outs.flatten = x := by
  induction chunks with
  | nil =>
    intro buf x hb h
    simp only [List.flatten_nil, List.append_nil] at h
    have hm := encode_length_mod x
    rw [← h] at hm
    have hb0 : buf = [] := by
      cases buf with
      | nil => rfl
      | cons _ _ => simp only [List.length_cons] at hb hm; omega
    subst hb0
    have hx := encode_eq_nil x h.symm
    subst hx
    exact ⟨[], by simp [reqText], rfl⟩
  | cons c cs ih =>
    intro buf x hb h
    simp only [List.map_cons, reqText]
    by_cases hlt : (buf ++ c).length < 4
    · simp only [hlt, if_true]
      exact ih (buf ++ c) x hlt (by simpa [List.append_assoc] using h)
    · simp only [hlt, if_false]
      have hn4 : maxDecodable (buf ++ c) % 4 = 0 := by simp [maxDecodable]
      have hnle : maxDecodable (buf ++ c) ≤ (buf ++ c).length := by
        simp only [maxDecodable]; omega
      have hall : (buf ++ c) ++ cs.flatten = B64.encode true x := by
        simpa [List.append_assoc] using h
      have hnle' : maxDecodable (buf ++ c) ≤ (B64.encode true x).length := by
        rw [← hall, List.length_append]; omega
      obtain ⟨x1, x2, hx, htake, hdrop⟩ := encode_split x _ hn4 hnle'
      have htake' : (buf ++ c).take (maxDecodable (buf ++ c)) = B64.encode true x1 := by
        rw [← htake, ← hall, List.take_append_of_le_length hnle]
      have hdrop' : (buf ++ c).drop (maxDecodable (buf ++ c)) ++ cs.flatten = B64.encode true x2 := by
        rw [← hdrop, ← hall, List.drop_append_of_le_length hnle]
      have hrem : ((buf ++ c).drop (maxDecodable (buf ++ c))).length < 4 := by
        simp only [List.length_drop, maxDecodable]; omega
      rw [htake', B64.decode_encode]
      obtain ⟨outs, ho, hf⟩ := ih _ x2 hrem hdrop'
      exact ⟨x1 :: outs, by simp [ho], by simp [hf, hx]⟩

theorem endsClean_cons (o : Out) (r : List Out) (h : r ≠ []) :
    endsClean (o :: r) = endsClean r := by
  simp [endsClean, List.getLast?_cons_of_ne_nil h]

theorem reqText_ne_nil (evs : List BodyEv) : ∀ buf, reqText buf evs ≠ [] := by
  induction evs with
  | nil => intro buf; simp only [reqText]; split <;> simp
  | cons e r ih =>
    intro buf
    cases e with
    | data b =>
      simp only [reqText]
      split
      · exact ih _
      · split <;> simp
    | trailers h => simp [reqText]
    | err => simp [reqText]
    | pending => simpa [reqText] using ih buf

/-- Soundness of the request decoder against the independent reader, for *every* body: if the
stream handed to the inner service ends cleanly, the bytes delivered are exactly what the
independent quantum-wise reader recovers from the whole body. -/
theorem reqText_sound (evs : List BodyEv) : ∀ buf,
    endsClean (reqText buf evs) = true →
    Spec.GrpcWeb.b64StreamDecode (buf ++ flat evs) = some (dataOf (reqText buf evs)) := by
  induction evs with
  | nil =>
    intro buf h
    simp only [reqText] at h ⊢
    split at h
    · rename_i hb
      have : buf = [] := by simpa using hb
      subst this; simp [flat, Spec.GrpcWeb.b64StreamDecode, dataOf]
    · simp [endsClean] at h
  | cons e r ih =>
    intro buf h
    cases e with
    | data b =>
      simp only [reqText] at h ⊢
      split at h
      · rename_i hlt
        simp only [hlt, if_true, flat]
        rw [← List.append_assoc]
        exact ih _ h
      · rename_i hlt
        simp only [hlt, if_false, flat]
        split at h
        · simp [endsClean] at h
        · rename_i d hd
          rw [endsClean_cons _ _ (reqText_ne_nil _ _)] at h
          have hn4 : ((buf ++ b).take (maxDecodable (buf ++ b))).length % 4 = 0 := by
            simp only [List.length_take, maxDecodable]
            have : (buf ++ b).length / 4 * 4 ≤ (buf ++ b).length := by omega
            rw [Nat.min_eq_left this]; omega
          have h1 := stream_of_decode _ _ d rfl hn4 hd
          have h2 := ih _ h
          have hsplit : buf ++ (b ++ flat r) =
              (buf ++ b).take (maxDecodable (buf ++ b)) ++
                ((buf ++ b).drop (maxDecodable (buf ++ b)) ++ flat r) := by
            rw [← List.append_assoc, ← List.append_assoc, List.take_append_drop]
          rw [hsplit, stream_append _ _ hn4, h1, h2]
          simp [dataOf]
    | trailers t => simp [reqText, endsClean] at h
    | err => simp [reqText, endsClean] at h
    | pending =>
      simp only [reqText, flat] at h ⊢
      exact ih _ h

/-! ### header maps -/

theorem getAll_hremove_self (k : Bytes) (h : List Pair) : TMap.getAll k (hremove k h) = [] := by
  simp [TMap.getAll, hremove, List.filter_filter]

theorem getAll_hremove_ne (k k' : Bytes) (h : List Pair) (hne : k ≠ k') :
    TMap.getAll k (hremove k' h) = TMap.getAll k h := by
  simp only [TMap.getAll, hremove, List.filter_filter]
  congr 1
  apply List.filter_congr
  intro p _
  by_cases hp : p.1 = k
  · have : ¬ (k = k') := hne
    simp [hp, this]
  · simp [hp]

theorem getAll_hinsert_self (k v : Bytes) (h : List Pair) : TMap.getAll k (hinsert k v h) = [v] := by
  rw [hinsert, TMap.getAll_append, getAll_hremove_self]
  simp [TMap.getAll]

theorem getAll_hinsert_ne (k k' v : Bytes) (h : List Pair) (hne : k ≠ k') :
    TMap.getAll k (hinsert k' v h) = TMap.getAll k h := by
  have : ¬ (k' = k) := fun e => hne e.symm
  rw [hinsert, TMap.getAll_append, getAll_hremove_ne k k' h hne]
  simp [TMap.getAll, this]

/-- `Body::new` hands every frame on: data chunks, then (if present) the trailers, then the end. -/
theorem passRun_data_trailers (chunks : List Bytes) (t : List Pair) :
    passRun (chunks.map BodyEv.data ++ [BodyEv.trailers t]) =
      chunks.map Out.data ++ [Out.trailers (TMap.group t), Out.eos] := by
  induction chunks with
  | nil => rfl
  | cons c cs ih => simp [reqBin] at ih ⊢; exact ih

end WebServerLemmas
