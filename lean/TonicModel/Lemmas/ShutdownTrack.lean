import TonicModel.Lemmas.Shutdown
/-
Following one call through one step (C13): which steps can touch it, and how.
-/
namespace Shutdown

theorem getElem?_set_cases {α} {l : List α} {i j : Nat} {a b : α} (h : l[j]? = some b) :
    (i = j ∧ (l.set i a)[j]? = some a) ∨ (i ≠ j ∧ (l.set i a)[j]? = some b) := by
  by_cases hij : i = j
  · subst hij
    left
    refine ⟨rfl, ?_⟩
    have hlt : i < l.length := by
      rcases Nat.lt_or_ge i l.length with h' | h'
      · exact h'
      · rw [List.getElem?_eq_none h'] at h; cases h
    simp [hlt]
  · right
    exact ⟨hij, by rw [List.getElem?_set_ne hij]; exact h⟩

/-- The tracked call (slot `j` of connection `c`, which held `k`) is still there in `s'`: not
cancelled, its connection's peer still present, started if it was, same handler's outcome, what
was written only extended, what was received only grown; past its response head if it was; and cut
by the request timeout only if it already was, or had not reached its response head. -/
def KeptIn (s' : State) (c j : Nat) (k : Call) : Prop :=
  ∃ cn' k', s'.conns[c]? = some cn' ∧ cn'.calls[j]? = some k' ∧ k'.cancelled = false
    ∧ cn'.peerGone = false ∧ (k.started = true → k'.started = true) ∧ k'.plan = k.plan
    ∧ (∃ more, k'.sent = k.sent ++ more) ∧ k.recv ≤ k'.recv
    ∧ (k.headDone = true → k'.headDone = true)
    ∧ (k'.expired = true → k.expired = true ∨ k.headDone = false)

/-- a guarded rewrite of one connection that leaves `calls`, `peerGone` alone -/
theorem track_updConn {s s' : State} {c' c j : Nat} {g : Conn → Bool} {f : Conn → Conn}
    {cn : Conn} {k : Call} (h : updConn s c' g f = some s')
    (hc : s.conns[c]? = some cn) (hk : cn.calls[j]? = some k)
    (hcalls : ∀ x, (f x).calls = x.calls) (hpg : ∀ x, (f x).peerGone = x.peerGone) :
    ∃ cn', s'.conns[c]? = some cn' ∧ cn'.calls[j]? = some k ∧ cn'.peerGone = cn.peerGone := by
  obtain ⟨cn0, hc0, _, rfl⟩ := updConn_some h
  rcases getElem?_set_cases (i := c') (a := f cn0) hc with ⟨rfl, hs⟩ | ⟨_, hs⟩
  · have : cn0 = cn := by rw [hc0] at hc; exact Option.some.inj hc
    subst this
    exact ⟨_, hs, by rw [hcalls]; exact hk, hpg _⟩
  · exact ⟨cn, hs, hk, rfl⟩

/-- a guarded rewrite of one call -/
theorem track_updCall {s s' : State} {c' j' c j : Nat} {g : Conn → Call → Bool} {f : Call → Call}
    {cn : Conn} {k : Call} (h : updCall s c' j' g f = some s')
    (hc : s.conns[c]? = some cn) (hk : cn.calls[j]? = some k) :
    ∃ cn' k', s'.conns[c]? = some cn' ∧ cn'.calls[j]? = some k' ∧ cn'.peerGone = cn.peerGone
      ∧ ((c' = c ∧ j' = j ∧ g cn k = true ∧ k' = f k) ∨ ((c' ≠ c ∨ j' ≠ j) ∧ k' = k)) := by
  obtain ⟨cn0, k0, hc0, hk0, hgd, rfl⟩ := updCall_some h
  rcases getElem?_set_cases (i := c') (a := { cn0 with calls := cn0.calls.set j' (f k0) }) hc
    with ⟨rfl, hs⟩ | ⟨hne, hs⟩
  · have : cn0 = cn := by rw [hc0] at hc; exact Option.some.inj hc
    subst this
    rcases getElem?_set_cases (i := j') (a := f k0) hk with ⟨rfl, hs2⟩ | ⟨hne2, hs2⟩
    · have : k0 = k := by rw [hk0] at hk; exact Option.some.inj hk
      subst this
      exact ⟨_, _, hs, hs2, rfl, Or.inl ⟨rfl, rfl, hgd, rfl⟩⟩
    · exact ⟨_, _, hs, hs2, rfl, Or.inr ⟨Or.inr hne2, rfl⟩⟩
  · exact ⟨cn, k, hs, hk, rfl, Or.inr ⟨Or.inl hne, rfl⟩⟩

/-- One step, one tracked accepted call: unless the step is the caller's own `cancel` of this call
or `peerDrop` of its connection, the call is still there, still accepted, not cancelled, its true
outcome unchanged, what was written only extended, what was received only grown. -/
theorem step_keeps_call {s s' : State} {l : Label} {c j : Nat} {cn : Conn} {k : Call}
    (h : step s l = some s') (hc : s.conns[c]? = some cn) (hk : cn.calls[j]? = some k)
    (hcan : k.cancelled = false) (hpg : cn.peerGone = false)
    (hl1 : l ≠ .cancel c j) (hl2 : l ≠ .peerDrop c) :
    KeptIn s' c j k := by
  have same : ∀ cn', s'.conns[c]? = some cn' → cn'.calls[j]? = some k → cn'.peerGone = cn.peerGone →
      KeptIn s' c j k :=
    fun cn' h1 h2 h3 => ⟨cn', k, h1, h2, hcan, h3.trans hpg, id, rfl, ⟨[], by simp⟩, Nat.le_refl _,
      id, Or.inl⟩
  have viaConn : ∀ {c' : Nat} {g : Conn → Bool} {f : Conn → Conn},
      updConn s c' g f = some s' → (∀ x, (f x).calls = x.calls) →
      (∀ x, (f x).peerGone = x.peerGone) → KeptIn s' c j k := fun hu h1 h2 => by
    obtain ⟨cn', a, b, d⟩ := track_updConn hu hc hk h1 h2
    exact same cn' a b d
  have viaCall : ∀ {c' j' : Nat} {g : Conn → Call → Bool} {f : Call → Call},
      updCall s c' j' g f = some s' →
      (∀ x, g cn x = true → x.cancelled = false → (f x).cancelled = false ∧ (x.started = true → (f x).started = true)
        ∧ (f x).plan = x.plan ∧ (∃ more, (f x).sent = x.sent ++ more) ∧ x.recv ≤ (f x).recv
        ∧ (x.headDone = true → (f x).headDone = true)
        ∧ ((f x).expired = true → x.expired = true ∨ x.headDone = false)) →
      KeptIn s' c j k :=
    fun hu hf => by
    obtain ⟨cn', k', a, b, d, e⟩ := track_updCall hu hc hk
    rcases e with ⟨_, _, hgd, rfl⟩ | ⟨_, rfl⟩
    · obtain ⟨f1, f2, f3, f4, f5, f6, f7⟩ := hf k hgd hcan
      exact ⟨cn', _, a, b, f1, d.trans hpg, f2, f3, f4, f5, f6, f7⟩
    · exact same cn' a b d
  cases l <;> simp only [step] at h
  case offer =>
    cases h
    refine same cn ?_ hk rfl
    show (s.conns ++ _)[c]? = some cn
    rw [List.getElem?_append_left]
    · exact hc
    · rcases Nat.lt_or_ge c s.conns.length with h' | h'
      · exact h'
      · rw [List.getElem?_eq_none h'] at hc; cases hc
  case offerTls =>
    cases h
    refine same cn ?_ hk rfl
    show (s.conns ++ _)[c]? = some cn
    rw [List.getElem?_append_left]
    · exact hc
    · rcases Nat.lt_or_ge c s.conns.length with h' | h'
      · exact h'
      · rw [List.getElem?_eq_none h'] at hc; cases hc
  case clientHello c' => exact viaConn h (fun _ => rfl) (fun _ => rfl)
  case tlsTake c' =>
    split at h
    · exact viaConn h (fun _ => rfl) (fun _ => rfl)
    · cases h
  case tlsDone c' => exact viaConn h (fun _ => rfl) (fun _ => rfl)
  case tlsFail c' => exact viaConn h (fun _ => rfl) (fun _ => rfl)
  case freeRun => cases h; exact same cn hc hk rfl
  case sigFire | endIncoming | acceptErr | loopSig | loopErr | loopEnd | afterLoop =>
    split at h
    · cases h; exact same cn hc hk rfl
    · cases h
  case ageTick c' =>
    split at h
    · exact viaConn h (fun _ => rfl) (fun _ => rfl)
    · cases h
  case resolve =>
    split at h
    · cases h
      exact same { cn with pending := false }
        (by show (s.conns.map _)[c]? = _; rw [List.getElem?_map, hc]; rfl) hk rfl
    · cases h
  case issue c' chunks req =>
    obtain ⟨cn0, hc0, _, rfl⟩ := updConn_some h
    rcases getElem?_set_cases (i := c') (a := { cn0 with calls := cn0.calls ++ [Call.new chunks req] }) hc
      with ⟨rfl, hs⟩ | ⟨_, hs⟩
    · have : cn0 = cn := by rw [hc0] at hc; exact Option.some.inj hc
      subst this
      refine same _ hs ?_ rfl
      show (cn0.calls ++ _)[j]? = some k
      rw [List.getElem?_append_left]
      · exact hk
      · rcases Nat.lt_or_ge j cn0.calls.length with h' | h'
        · exact h'
        · rw [List.getElem?_eq_none h'] at hk; cases hk
    · exact same cn hs hk rfl
  case peerDrop c' =>
    obtain ⟨cn0, _, _, rfl⟩ := updConn_some h
    have hne : c' ≠ c := fun e => hl2 (by rw [e])
    exact same cn (by show (s.conns.set c' _)[c]? = _; rw [List.getElem?_set_ne hne]; exact hc) hk rfl
  case loopAccept c' =>
    split at h
    · exact viaConn h (fun _ => rfl) (fun _ => rfl)
    · cases h
  case connSig c' => exact viaConn h (fun _ => rfl) (fun _ => rfl)
  case connAge c' => exact viaConn h (fun _ => rfl) (fun _ => rfl)
  case connBreak c' => exact viaConn h (fun _ => rfl) (fun _ => rfl)
  case connDropWatcher c' => exact viaConn h (fun _ => rfl) (fun _ => rfl)
  case hsDone c' => exact viaConn h (fun _ => rfl) (fun _ => rfl)
  case final c' => exact viaConn h (fun _ => rfl) (fun _ => rfl)
  case permit c' j' =>
    exact viaCall h (fun x _ hx => ⟨hx, id, rfl, ⟨[], by simp⟩, Nat.le_refl _, id, Or.inl⟩)
  case reqSend c' j' =>
    exact viaCall h (fun x _ hx => ⟨hx, id, rfl, ⟨[], by simp⟩, Nat.le_refl _, id, Or.inl⟩)
  case deadlineTick c' j' =>
    split at h
    · exact viaCall h (fun x _ hx => ⟨hx, id, rfl, ⟨[], by simp⟩, Nat.le_refl _, id, Or.inl⟩)
    · cases h
  case expire c' j' =>
    -- the one step by which the server itself ends a call: only before the response head
    split at h
    · refine viaCall h (fun x hg hx => ⟨hx, id, rfl, ⟨_, rfl⟩, Nat.le_refl _, id, fun _ => ?_⟩)
      simp only [Bool.and_eq_true, Bool.not_eq_true'] at hg
      exact Or.inr hg.1.2
    · cases h
  case cancel c' j' =>
    obtain ⟨cn', k', a, b, d, e⟩ := track_updCall h hc hk
    rcases e with ⟨rfl, rfl, _, _⟩ | ⟨_, rfl⟩
    · exact absurd rfl hl1
    · exact same cn' a b d
  case callStart c' j' =>
    exact viaCall h (fun x _ hx => ⟨hx, fun _ => rfl, rfl, ⟨[], by simp⟩, Nat.le_refl _, id, Or.inl⟩)
  case produce c' j' =>
    refine viaCall h (fun x _ hx => ?_)
    unfold Call.produce
    split
    · exact ⟨hx, id, rfl, ⟨_, rfl⟩, Nat.le_refl _, fun _ => rfl, Or.inl⟩
    · exact ⟨hx, id, rfl, ⟨[], by simp⟩, Nat.le_refl _, id, Or.inl⟩
  case deliver c' j' =>
    exact viaCall h (fun x _ hx => ⟨hx, id, rfl, ⟨[], by simp⟩, Nat.le_succ _, id, Or.inl⟩)

theorem KeptIn.self {s : State} {c j : Nat} {cn : Conn} {k : Call}
    (hc : s.conns[c]? = some cn) (hk : cn.calls[j]? = some k)
    (hcan : k.cancelled = false) (hpg : cn.peerGone = false) : KeptIn s c j k :=
  ⟨cn, k, hc, hk, hcan, hpg, id, rfl, ⟨[], by simp⟩, Nat.le_refl _, id, Or.inl⟩

/-- a tracked call is kept along ANY run — the server's own steps, the clock (age and deadline
ticks), the signal, other peers — in which its caller neither cancels it nor leaves -/
theorem run_keeps_call_of {ls : List Label} : ∀ {s s' : State} {c j : Nat} {k : Call},
    (∀ l ∈ ls, l ≠ .cancel c j ∧ l ≠ .peerDrop c) → run s ls = some s' → KeptIn s c j k →
    KeptIn s' c j k := by
  induction ls with
  | nil => intro s s' c j k _ h hk; simp only [run, Option.some.injEq] at h; subst h; exact hk
  | cons l ls ih =>
    intro s s' c j k hall h hkept
    simp only [run] at h
    split at h
    · rename_i s1 hs1
      obtain ⟨cn1, k1, a1, a2, a3, a4, a5, a6, ⟨m1, a7⟩, a8, a9, a10⟩ := hkept
      obtain ⟨hl1, hl2⟩ := hall l List.mem_cons_self
      obtain ⟨cn2, k2, b1, b2, b3, b4, b5, b6, ⟨m2, b7⟩, b8, b9, b10⟩ :=
        step_keeps_call hs1 a1 a2 a3 a4 hl1 hl2
      refine ih (fun x hx => hall x (List.mem_cons_of_mem _ hx)) h
        ⟨cn2, k2, b1, b2, b3, b4, fun h0 => b5 (a5 h0), b6.trans a6,
          ⟨m1 ++ m2, by rw [b7, a7, List.append_assoc]⟩, Nat.le_trans a8 b8,
          fun h0 => b9 (a9 h0), fun h0 => ?_⟩
      rcases b10 h0 with hx | hx
      · exact a10 hx
      · cases hh : k.headDone with
        | false => exact Or.inr rfl
        | true => rw [a9 hh] at hx; cases hx
    · cases h

/-- the server's own steps never cancel a call or make a peer leave, so a tracked call is kept
along any run of internal steps -/
theorem run_keeps_call {ls : List Label} {s s' : State} {c j : Nat} {k : Call}
    (hall : ∀ l ∈ ls, l.internal = true) (h : run s ls = some s') (hk : KeptIn s c j k) :
    KeptIn s' c j k := by
  refine run_keeps_call_of (fun l hl => ⟨?_, ?_⟩) h hk
  · intro e; have := hall l hl; subst e; simp [Label.internal] at this
  · intro e; have := hall l hl; subst e; simp [Label.internal] at this

end Shutdown
