import TonicModel.Lemmas.FramingRun
/-
What the decoder model does with a response whose HTTP status is not 200 (C04): the body's DATA is
dropped unread, so the stream stays idle (empty buffer, `ReadHeader`) until the body ends or a
trailers frame arrives, and then ends with `inferStatus` of the first trailers frame / the HTTP
status — for EVERY list of data chunks, `Pending`s and trailers frames.
-/
namespace Framing
variable {α : Type}

/-- no body error among the events: data chunks, `Pending`s and trailers frames only -/
def NoErrEvs : List BodyEv → Bool
  | [] => true
  | .err _ :: _ => false
  | _ :: r => NoErrEvs r

/-- the first trailers frame of the body (the one that ends the stream), if any -/
def firstTr : List BodyEv → Option Tr
  | [] => none
  | .trailers t :: _ => some t
  | _ :: r => firstTr r

/-- no trailers frame carries a `grpc-status` -/
def NoStatusEvs : List BodyEv → Bool
  | [] => true
  | .data _ :: r => NoStatusEvs r
  | .pending :: r => NoStatusEvs r
  | .trailers none :: r => NoStatusEvs r
  | _ => false

/-- nothing buffered, no trailers seen: the state of a fresh stream -/
def Idle (s : DecSt) : Prop := s.buf = [] ∧ s.ph = .hdr ∧ s.trailers = none

theorem idle_init : Idle Dec.init := ⟨rfl, rfl, rfl⟩

theorem pre_idle (cd : Codec α) (cfg : DecCfg) (s : DecSt) (h : Idle s) : Dec.pre cd cfg s = .need s := by
  obtain ⟨buf, ph, tr⟩ := s
  obtain ⟨hb, hp, _⟩ := h
  dsimp only at hb hp
  subst hb; subst hp
  simp [Dec.pre, Dec.decodeChunk]

theorem skips_of_non200 {cfg : DecCfg} {http : Nat} (hdir : cfg.dir = .response http) (h200 : http ≠ 200) :
    cfg.skipsBody = true := by
  simp [DecCfg.skipsBody, hdir, h200]

theorem noErr_of_noStatus : ∀ evs, NoStatusEvs evs = true → NoErrEvs evs = true
  | [], _ => rfl
  | .data _ :: r, h => by simpa [NoErrEvs] using noErr_of_noStatus r (by simpa [NoStatusEvs] using h)
  | .pending :: r, h => by simpa [NoErrEvs] using noErr_of_noStatus r (by simpa [NoStatusEvs] using h)
  | .trailers none :: r, h => by simpa [NoErrEvs] using noErr_of_noStatus r (by simpa [NoStatusEvs] using h)
  | .trailers (some _) :: _, h => by simp [NoStatusEvs] at h
  | .err _ :: _, h => by simp [NoStatusEvs] at h

theorem firstTr_of_noStatus : ∀ evs, NoStatusEvs evs = true → firstTr evs = none ∨ firstTr evs = some none
  | [], _ => Or.inl rfl
  | .data _ :: r, h => by simpa [firstTr] using firstTr_of_noStatus r (by simpa [NoStatusEvs] using h)
  | .pending :: r, h => by simpa [firstTr] using firstTr_of_noStatus r (by simpa [NoStatusEvs] using h)
  | .trailers none :: _, _ => Or.inr rfl
  | .trailers (some _) :: _, h => by simp [NoStatusEvs] at h
  | .err _ :: _, h => by simp [NoStatusEvs] at h

/-- What one `poll_next` of an idle stream does on a non-200 response. -/
def Non200Poll (http : Nat) (s : DecSt) (evs : List BodyEv) (s' : DecSt) (evs' : List BodyEv) (o : Item α) : Prop :=
  match o with
  | .msg _ => False
  | .pending => s' = s ∧ evs'.length < evs.length ∧ firstTr evs' = firstTr evs ∧ NoErrEvs evs' = true
  | .err e => s'.ph = .failed none ∧ inferStatus (firstTr evs) http = some e
  | .none => inferStatus (firstTr evs) http = none

theorem finish_non200 (cfg : DecCfg) (http : Nat) (hdir : cfg.dir = .response http)
    (s0 s : DecSt) (evs0 rest : List BodyEv) (htr : s.trailers = firstTr evs0) :
    Non200Poll (α := α) http s0 evs0 (Dec.finish (α := α) cfg s rest).1 (Dec.finish (α := α) cfg s rest).2.1
      (Dec.finish (α := α) cfg s rest).2.2 := by
  unfold Dec.finish Dec.response
  rw [hdir]
  dsimp only
  rw [htr]
  cases h : inferStatus (firstTr evs0) http with
  | none => exact h
  | some e => exact ⟨rfl, h⟩

theorem pollNext_non200 (cd : Codec α) (cfg : DecCfg) (http : Nat) (hdir : cfg.dir = .response http)
    (h200 : http ≠ 200) (evs : List BodyEv) : ∀ (s : DecSt), Idle s → NoErrEvs evs = true →
    Non200Poll http s evs (Dec.pollNext cd cfg s evs).1 (Dec.pollNext cd cfg s evs).2.1
      (Dec.pollNext cd cfg s evs).2.2 := by
  have hskip := skips_of_non200 hdir h200
  induction evs with
  | nil =>
    intro s hs _
    unfold Dec.pollNext
    rw [pre_idle cd cfg s hs]
    simp only [hs.1, List.isEmpty_nil, ↓reduceIte]
    exact finish_non200 cfg http hdir s s [] [] (by simp [firstTr, hs.2.2])
  | cons ev rest ih =>
    intro s hs hne
    unfold Dec.pollNext
    rw [pre_idle cd cfg s hs]
    cases ev with
    | pending =>
      exact ⟨rfl, by simp, by simp [firstTr], by simpa [NoErrEvs] using hne⟩
    | data c =>
      dsimp only
      have hsame : ({ s with buf := s.buf ++ cfg.accept c } : DecSt) = s := by
        obtain ⟨buf, ph, tr⟩ := s
        simp [accept_skip hskip]
      rw [hsame]
      have := ih s hs (by simpa [NoErrEvs] using hne)
      generalize Dec.pollNext cd cfg s rest = r at this
      obtain ⟨s', evs', o⟩ := r
      cases o with
      | msg m => exact this
      | pending =>
        obtain ⟨a, b, c', d⟩ := this
        exact ⟨a, by simp at b ⊢; omega, by simpa [firstTr] using c', d⟩
      | err e => exact ⟨this.1, by simpa [firstTr] using this.2⟩
      | none => simpa [Non200Poll, firstTr] using this
    | trailers t =>
      exact finish_non200 cfg http hdir s _ _ rest (by simp [firstTr, hs.2.2, mergeTr])
    | err st => simp [NoErrEvs] at hne

/-- the HTTP-status table of `inferStatus` when no `grpc-status` is available, as one expression -/
def httpCode (http : Nat) : Nat :=
  if http = 400 then 13 else if http = 401 then 16 else if http = 403 then 7 else if http = 404 then 12
  else if http = 429 ∨ http = 502 ∨ http = 503 ∨ http = 504 then 14 else 2

theorem inferStatus_noStatus (tr : Option Tr) (http : Nat) (htr : tr = none ∨ tr = some none) (h200 : http ≠ 200) :
    inferStatus tr http = some ⟨httpCode http, .http⟩ := by
  rcases htr with rfl | rfl <;>
  · unfold inferStatus httpCode
    simp only [h200, ↓reduceIte]
    repeat' split
    all_goals rfl

/-- **Non-200 response, no `grpc-status` anywhere**: whatever data chunks, `Pending`s and
status-less trailers frames the body delivers, the polls that are not `Pending` yield exactly one
error — the HTTP status' code — and then `None` for ever; no message. -/
theorem run_non200_noStatus (cd : Codec α) (cfg : DecCfg) (http : Nat) (hdir : cfg.dir = .response http)
    (h200 : http ≠ 200) (n : Nat) : ∀ (s : DecSt) (evs : List BodyEv), Idle s → NoStatusEvs evs = true →
    evs.length < n →
    ∃ k, nonPending (Dec.run cd cfg n s evs) = .err ⟨httpCode http, .http⟩ :: List.replicate k .none := by
  induction n with
  | zero => intro s evs _ _ h; omega
  | succ n ih =>
    intro s evs hs hns hn
    have hp := pollNext_non200 cd cfg http hdir h200 evs s hs (noErr_of_noStatus evs hns)
    have hinf := inferStatus_noStatus (firstTr evs) http (firstTr_of_noStatus evs hns) h200
    simp only [Dec.run]
    generalize hr : Dec.pollNext cd cfg s evs = r at hp
    obtain ⟨s', evs', o⟩ := r
    cases o with
    | msg m => exact absurd hp id
    | none =>
      have : inferStatus (firstTr evs) http = none := hp
      rw [hinf] at this; cases this
    | err e =>
      obtain ⟨hph, he⟩ := hp
      rw [hinf] at he
      cases he
      refine ⟨n, ?_⟩
      dsimp only at hph
      rw [run_failed cd cfg n s' evs' hph]
      simp [nonPending, Item.isPending]
    | pending =>
      obtain ⟨rfl, hl, _, _⟩ := hp
      dsimp only at hl
      -- the remaining events are a suffix of `evs`: still status-less
      have hns' : NoStatusEvs evs' = true := by
        -- `pollNext` only drops events from the front
        have key : ∀ (evs : List BodyEv) (s : DecSt), Idle s → NoStatusEvs evs = true →
            NoStatusEvs (Dec.pollNext cd cfg s evs).2.1 = true := by
          intro evs
          induction evs with
          | nil =>
            intro s hs _
            unfold Dec.pollNext
            rw [pre_idle cd cfg s hs]
            simp only [hs.1, List.isEmpty_nil, ↓reduceIte]
            unfold Dec.finish
            split <;> rfl
          | cons ev rest ih2 =>
            intro s hs h
            unfold Dec.pollNext
            rw [pre_idle cd cfg s hs]
            cases ev with
            | pending => simpa [NoStatusEvs] using h
            | data c =>
              dsimp only
              have hsame : ({ s with buf := s.buf ++ cfg.accept c } : DecSt) = s := by
                obtain ⟨buf, ph, tr⟩ := s
                simp [accept_skip (skips_of_non200 hdir h200)]
              rw [hsame]
              exact ih2 s hs (by simpa [NoStatusEvs] using h)
            | trailers t =>
              dsimp only
              unfold Dec.finish
              cases t with
              | none => split <;> simpa [NoStatusEvs] using h
              | some c => simp [NoStatusEvs] at h
            | err st => simp [NoStatusEvs] at h
        have := key evs s' hs hns
        rw [hr] at this
        exact this
      obtain ⟨k, hk⟩ := ih s' evs' hs hns' (by omega)
      exact ⟨k, by simpa [nonPending, Item.isPending] using hk⟩

/-- the first result that is not `Pending` -/
def firstReady (l : List (Item α)) : Option (Item α) := (nonPending l).head?

/-- **Non-200 response, first trailers frame decides**: with enough polls the first ready result
is what `inferStatus` makes of the first trailers frame (its `grpc-status` if it has one, the HTTP
status otherwise) — an error, or the clean end for `grpc-status: 0` — never a message. -/
theorem run_non200_first (cd : Codec α) (cfg : DecCfg) (http : Nat) (hdir : cfg.dir = .response http)
    (h200 : http ≠ 200) (n : Nat) : ∀ (s : DecSt) (evs : List BodyEv), Idle s → NoErrEvs evs = true →
    evs.length < n →
    firstReady (Dec.run cd cfg n s evs) =
      some (match inferStatus (firstTr evs) http with | some e => .err e | none => .none) := by
  induction n with
  | zero => intro s evs _ _ h; omega
  | succ n ih =>
    intro s evs hs hne hn
    have hp := pollNext_non200 cd cfg http hdir h200 evs s hs hne
    simp only [Dec.run]
    generalize Dec.pollNext cd cfg s evs = r at hp
    obtain ⟨s', evs', o⟩ := r
    cases o with
    | msg m => exact absurd hp id
    | none =>
      have : inferStatus (firstTr evs) http = none := hp
      simp [firstReady, nonPending, Item.isPending, this]
    | err e =>
      simp [firstReady, nonPending, Item.isPending, hp.2]
    | pending =>
      obtain ⟨rfl, hl, hf, hne'⟩ := hp
      dsimp only at hl hf hne'
      have := ih s' evs' hs hne' (by omega)
      rw [hf] at this
      simpa [firstReady, nonPending, Item.isPending] using this

/-- **A non-200 response never yields a message** — for every event list whatsoever (body errors
included) and any number of polls. -/
theorem run_non200_no_message (cd : Codec α) (cfg : DecCfg) (hskip : cfg.skipsBody = true) (n : Nat)
    (evs : List BodyEv) : msgsOf (Dec.run cd cfg n Dec.init evs) = [] := by
  have := run_msgs_prefix cd cfg n Dec.init evs (by simp [PhaseOk, Dec.init])
  simpa [specFrom, Dec.init, accepted_skip hskip, batch_nil] using this

end Framing
