import TonicModel.Lemmas.BalanceDebt
/-
Load-balanced channel (C14): the accounting of `Lemmas/BalanceDebt.lean` once more, for an
arbitrary weight on endpoints — used for ONE endpoint's failures (`potK k`): an endpoint that is
reachable fails at most the one call that gets the failure it still holds, whatever the other
endpoints do.
-/
namespace Balance
open ConnScript BalScript Reconnect

/-- a weight on endpoints that no step of a call increases, and that a counted result uses up -/
structure Acct where
  w : EP → Nat
  f : Option BRes → Nat
  I : EP → Prop
  f_none : f none = 0
  adv : ∀ e, I e → w (advance e) ≤ w e ∧ I (advance e)
  tri : ∀ e, I e → w (tryOne e).1 + f (tryOne e).2 ≤ w e ∧ I (tryOne e).1
  set : ∀ e, I e → w { e with fresh := false } ≤ w e ∧ I { e with fresh := false }

def Acct.total (A : Acct) (eps : List EP) : Nat := (eps.map A.w).sum

theorem Acct.total_cons (A : Acct) (a : EP) (as : List EP) : A.total (a :: as) = A.w a + A.total as := by
  simp [Acct.total]

theorem Acct.pass (A : Acct) (eps : List EP) (h : ∀ e ∈ eps, A.I e) :
    A.total (pass eps) ≤ A.total eps ∧ ∀ e ∈ pass eps, A.I e := by
  induction eps with
  | nil => exact ⟨Nat.le_refl _, h⟩
  | cons a as ih =>
    obtain ⟨ha, has⟩ := mem_cons_forall h
    obtain ⟨ih1, ih2⟩ := ih has
    simp only [Balance.pass, List.map_cons] at ih1 ih2 ⊢
    rw [A.total_cons, A.total_cons]
    split
    · exact ⟨Nat.add_le_add (A.adv a ha).1 ih1, forall_cons (A.adv a ha).2 ih2⟩
    · exact ⟨Nat.add_le_add (Nat.le_refl _) ih1, forall_cons ha ih2⟩

theorem Acct.settle (A : Acct) (eps : List EP) (h : ∀ e ∈ eps, A.I e) :
    A.total (settle eps) ≤ A.total eps ∧ ∀ e ∈ settle eps, A.I e := by
  induction eps with
  | nil => exact ⟨Nat.le_refl _, h⟩
  | cons a as ih =>
    obtain ⟨ha, has⟩ := mem_cons_forall h
    obtain ⟨ih1, ih2⟩ := ih has
    simp only [Balance.settle, List.map_cons] at ih1 ih2 ⊢
    rw [A.total_cons, A.total_cons]
    exact ⟨Nat.add_le_add (A.set a ha).1 ih1, forall_cons (A.set a ha).2 ih2⟩

theorem Acct.tryKey (A : Acct) (k : Nat) (eps : List EP) (h : ∀ e ∈ eps, A.I e) :
    A.total (tryKey k eps).1 + A.f (tryKey k eps).2 ≤ A.total eps ∧ ∀ e ∈ (tryKey k eps).1, A.I e := by
  induction eps with
  | nil => exact ⟨by simp [Balance.tryKey, A.f_none], h⟩
  | cons a as ih =>
    obtain ⟨ha, has⟩ := mem_cons_forall h
    obtain ⟨ih1, ih2⟩ := ih has
    unfold Balance.tryKey
    split
    · have := A.tri a ha
      refine ⟨?_, forall_cons this.2 has⟩
      simp only [A.total_cons]; omega
    · refine ⟨?_, forall_cons ha ih2⟩
      simp only [A.total_cons]; omega

theorem Acct.tryKeys (A : Acct) (ks : List Nat) : ∀ (eps : List EP), (∀ e ∈ eps, A.I e) →
    A.total (tryKeys eps ks).1 + A.f (tryKeys eps ks).2 ≤ A.total eps ∧ ∀ e ∈ (tryKeys eps ks).1, A.I e := by
  induction ks with
  | nil => intro eps h; exact ⟨by simp [Balance.tryKeys, A.f_none], h⟩
  | cons k ks ih =>
    intro eps h
    have hk := A.tryKey k eps h
    unfold Balance.tryKeys
    split
    · rename_i r hr
      rw [hr] at hk
      exact hk
    · rename_i hr
      rw [hr, A.f_none] at hk
      have := ih _ hk.2
      exact ⟨by omega, this.2⟩

theorem Acct.sweep (A : Acct) (eps : List EP) (h : ∀ e ∈ eps, A.I e) :
    A.total (sweep eps).1 + A.f (sweep eps).2 ≤ A.total eps ∧ ∀ e ∈ (sweep eps).1, A.I e := by
  induction eps with
  | nil => exact ⟨by simp [Balance.sweep, A.f_none], h⟩
  | cons a as ih =>
    obtain ⟨ha, has⟩ := mem_cons_forall h
    obtain ⟨ih1, ih2⟩ := ih has
    have ht := A.tri a ha
    unfold Balance.sweep
    split
    · split
      · rename_i r hr
        rw [hr] at ht
        refine ⟨?_, forall_cons ht.2 has⟩
        simp only [A.total_cons]; omega
      · rename_i hr
        rw [hr, A.f_none] at ht
        refine ⟨?_, forall_cons ht.2 ih2⟩
        simp only [A.total_cons]; omega
    · refine ⟨?_, forall_cons ha ih2⟩
      simp only [A.total_cons]; omega

theorem Acct.phase (A : Acct) (eps : List EP) (ks : List Nat) (h : ∀ e ∈ eps, A.I e) :
    A.total (phase eps ks).1 + A.f (phase eps ks).2 ≤ A.total eps ∧ ∀ e ∈ (phase eps ks).1, A.I e := by
  have hk := A.tryKeys ks eps h
  unfold Balance.phase
  split
  · rename_i r hr
    rw [hr] at hk
    exact hk
  · rename_i hr
    rw [hr, A.f_none] at hk
    have := A.sweep _ hk.2
    exact ⟨by omega, this.2⟩

/-- what a whole call's result counts: a hang counts nothing -/
def Acct.fr (A : Acct) (r : BRes) : Nat := if r = .hang then 0 else A.f (some r)

theorem Acct.call (A : Acct) (s : B) (ch : Choice) (h : ∀ e ∈ s.eps, A.I e) :
    A.total (call s ch).1.eps + A.fr (call s ch).2 ≤ A.total s.eps ∧ ∀ e ∈ (call s ch).1.eps, A.I e := by
  have h1 := A.pass s.eps h
  have h2 := A.phase _ ch.tries h1.2
  unfold Balance.call
  split
  · rename_i r hr
    rw [hr] at h2
    have h3 := A.settle _ h2.2
    refine ⟨?_, h3.2⟩
    have : A.fr r ≤ A.f (some r) := by unfold Acct.fr; split <;> omega
    simp only
    omega
  · rename_i hr
    rw [hr, A.f_none] at h2
    have h3 := A.pass _ h2.2
    have h4 := A.phase _ [ch.final] h3.2
    have h5 := A.settle _ h4.2
    split
    · rename_i r hr2
      rw [hr2] at h4
      refine ⟨?_, h5.2⟩
      have : A.fr r ≤ A.f (some r) := by unfold Acct.fr; split <;> omega
      simp only
      omega
    · rename_i hr2
      rw [hr2, A.f_none] at h4
      refine ⟨?_, h5.2⟩
      simp only [Acct.fr, if_true]
      omega

theorem Acct.calls (A : Acct) (chs : List Choice) : ∀ (s : B), (∀ e ∈ s.eps, A.I e) →
    ((calls s chs).map A.fr).sum ≤ A.total s.eps := by
  induction chs with
  | nil => intro s _; simp [Balance.calls]
  | cons ch chs ih =>
    intro s h
    have hc := A.call s ch h
    have := ih _ hc.2
    simp only [Balance.calls, List.map_cons, List.sum_cons]
    omega

/-! ### one endpoint's failures -/

/-- the failure endpoint `k` still holds -/
def potK (k : Nat) (e : EP) : Nat := if e.key = k then pot e else 0

/-- the result is an error that came from endpoint `k` -/
def BRes.errorOf (k : Nat) : BRes → Bool
  | .err k' _ => k' == k
  | .lost k' => k' == k
  | .resp _ _ => false
  | .hang => false
  | .panic => false

def failK (k : Nat) : Option BRes → Nat
  | some r => if r.errorOf k then 1 else 0
  | none => 0

/-- endpoint `k` has a server listening (the others may or may not) -/
def UGK (k : Nat) (e : EP) : Prop := (e.key = k → Up e) ∧ Gd e

theorem tryOne_res_key (e : EP) (r : BRes) (h : (tryOne e).2 = some r) (k : Nat) (hk : r.errorOf k = true) :
    e.key = k := by
  unfold tryOne at h
  split at h
  · simp only [Option.some.injEq] at h
    subst h
    revert hk
    unfold serveEP
    split
    · simp [BRes.errorOf, advance_key]
    · split <;> simp [BRes.errorOf, advance_key]
    · simp [BRes.errorOf]
  · simp at h

def acctK (k : Nat) : Acct where
  w := potK k
  f := failK k
  I := UGK k
  f_none := rfl
  adv := by
    rintro e ⟨hu, hg⟩
    refine ⟨?_, fun hk => (advance_pot e (hu (by rw [← advance_key e]; exact hk))).2, advance_gd e hg⟩
    unfold potK
    rw [advance_key]
    split
    · rename_i hk; exact (advance_pot e (hu hk)).1
    · exact Nat.le_refl _
  tri := by
    rintro e ⟨hu, hg⟩
    refine ⟨?_, fun hk => (tryOne_pot e (hu (by rw [← tryOne_key e]; exact hk)) hg).2, tryOne_gd e hg⟩
    unfold potK
    rw [tryOne_key]
    split
    · rename_i hk
      have := (tryOne_pot e (hu hk) hg).1
      have hle : failK k (tryOne e).2 ≤ failN (tryOne e).2 := by
        cases hr : (tryOne e).2 with
        | none => simp [failK, failN]
        | some r =>
          simp only [failK, failN]
          cases r <;> simp [BRes.errorOf, BRes.errored] <;> split <;> omega
      omega
    · rename_i hk
      have : failK k (tryOne e).2 = 0 := by
        cases hr : (tryOne e).2 with
        | none => rfl
        | some r =>
          simp only [failK]
          split
          · rename_i he; exact absurd (tryOne_res_key e r hr k he) hk
          · rfl
      omega
  set := by
    rintro e ⟨hu, hg⟩
    refine ⟨?_, fun hk => (settle_pot e (hu hk)).2, hg⟩
    unfold potK
    split
    · rename_i hk; exact (settle_pot e (hu hk)).1
    · exact Nat.le_refl _

/-- Per endpoint: as long as endpoint `k`'s server listens, the calls that end in an error THAT
CAME FROM `k` are at most as many as the failures `k` held at the start — whatever the other
endpoints do and whatever the balancer draws. -/
theorem calls_errors_of (k : Nat) (chs : List Choice) (s : B) (h : ∀ e ∈ s.eps, UGK k e) :
    ((calls s chs).filter (BRes.errorOf k)).length ≤ (acctK k).total s.eps := by
  have := (acctK k).calls chs s h
  have hcount : ∀ l : List BRes, (l.map (acctK k).fr).sum = (l.filter (BRes.errorOf k)).length := by
    intro l
    induction l with
    | nil => rfl
    | cons r rs ih =>
      simp only [List.map_cons, List.sum_cons, List.filter_cons, ih]
      cases r <;> simp [Acct.fr, acctK, failK, BRes.errorOf] <;> split <;> simp <;> omega
  rw [hcount] at this
  exact this

theorem potK_total_zero (k : Nat) (eps : List EP) (h : ∀ e ∈ eps, e.key ≠ k) : (acctK k).total eps = 0 := by
  induction eps with
  | nil => rfl
  | cons a as ih =>
    obtain ⟨ha, has⟩ := mem_cons_forall h
    rw [Acct.total_cons, ih has]
    simp [acctK, potK, ha]

theorem potK_total_le_one (k : Nat) (eps : List EP) (hn : (eps.map (·.key)).Nodup) :
    (acctK k).total eps ≤ 1 := by
  induction eps with
  | nil => simp [Acct.total]
  | cons a as ih =>
    simp only [List.map_cons, List.nodup_cons] at hn
    rw [Acct.total_cons]
    by_cases hk : a.key = k
    · have hz : (acctK k).total as = 0 := by
        apply potK_total_zero
        intro e he hek
        exact hn.1 (List.mem_map.2 ⟨e, he, by rw [hek, hk]⟩)
      have := pot_le_one a
      simp only [acctK, potK, hk, if_true] at hz ⊢
      omega
    · have := ih hn.2
      simp only [acctK, potK, hk, if_false] at this ⊢
      omega

/-! ### keys stay pairwise different -/

theorem ev_key {a b : EP} (h : Ev a b) : b.key = a.key :=
  Ev.keeps (P := fun b => b.key = a.key) (fun e he => by rw [advance_key]; exact he)
    (fun e he => by rw [tryOne_key]; exact he) (fun e he => he) h rfl

theorem pw_keys {as bs : List EP} (h : PW as bs) : bs.map (·.key) = as.map (·.key) :=
  h.map_eq (P := fun _ => True) (fun _ _ ev _ => ev_key ev) (fun _ _ => trivial)

theorem keys_onKey (k : Nat) (f : EP → EP) (hf : ∀ e, (f e).key = e.key) (eps : List EP) :
    (onKey k f eps).map (·.key) = eps.map (·.key) := by
  induction eps with
  | nil => rfl
  | cons a as ih =>
    simp only [onKey, List.map_cons] at ih ⊢
    rw [ih]
    split
    · rw [hf]
    · rfl

theorem keys_ensure_nodup (k : Nat) (eps : List EP) (hn : (eps.map (·.key)).Nodup) :
    ((ensure k eps).map (·.key)).Nodup := by
  unfold ensure
  split
  · exact hn
  · rename_i hany
    simp only [List.map_append, List.map_cons, List.map_nil]
    rw [List.nodup_append]
    refine ⟨hn, by simp, ?_⟩
    intro a ha b hb
    simp only [List.mem_singleton] at hb
    subst hb
    intro hab
    apply hany
    simp only [List.any_eq_true, decide_eq_true_eq]
    obtain ⟨e, he, hk⟩ := List.mem_map.1 ha
    exact ⟨e, he, by rw [hk, hab]⟩

theorem env_keys_nodup (s : B) (op : BOp) (hn : (s.eps.map (·.key)).Nodup) :
    ((env s op).eps.map (·.key)).Nodup := by
  cases op with
  | up k =>
    simp only [env]
    rw [keys_onKey k (fun e => { e with w := e.w.setUp }) (fun _ => rfl)]; exact keys_ensure_nodup k _ hn
  | down k =>
    simp only [env]
    rw [keys_onKey k (fun e => { e with w := e.w.setDown }) (fun _ => rfl)]; exact keys_ensure_nodup k _ hn
  | insert k =>
    simp only [env]
    rw [keys_onKey k (inserted s.lazyEps) (fun _ => rfl)]; exact keys_ensure_nodup k _ hn
  | remove k =>
    simp only [env]
    rw [keys_onKey k removed (fun _ => rfl)]; exact keys_ensure_nodup k _ hn
  | call => exact hn

theorem exec_keys_nodup (ops : List BOp) : ∀ (s : B) (chs : List Choice), (s.eps.map (·.key)).Nodup →
    ((exec s ops chs).eps.map (·.key)).Nodup := by
  induction ops with
  | nil => intro s chs h; exact h
  | cons op ops ih =>
    intro s chs h
    cases op with
    | call => exact ih _ _ (by rw [pw_keys (call_pw s _)]; exact h)
    | up k => exact ih (env s (.up k)) chs (env_keys_nodup s _ h)
    | down k => exact ih (env s (.down k)) chs (env_keys_nodup s _ h)
    | insert k => exact ih (env s (.insert k)) chs (env_keys_nodup s _ h)
    | remove k => exact ih (env s (.remove k)) chs (env_keys_nodup s _ h)

end Balance
