import TonicModel.Model.Tls
import TonicModel.Spec.Tls
/-
Helper lemmas for C15: the builder folds of `Model/Tls` against the direct readings of
`Spec/Tls` (last call wins; roots accumulate), and the shape of `TlsConnector::new`.
-/
namespace Tls
open Spec.Tls
variable {Root Chain : Type}

theorem getLast?_cons_or {α : Type} (a : α) (l : List α) :
    (a :: l).getLast? = (l.getLast?).or (some a) := by
  induction l generalizing a with
  | nil => rfl
  | cons b t ih =>
    rw [List.getLast?_cons_cons, ih b]
    cases t.getLast? <;> simp

/-- A field that every step either overwrites (`sel o = some b`) or leaves alone ends up as
the last overwrite, for every sequence of steps. -/
theorem foldl_last {σ ω β : Type} (step : σ → ω → σ) (get : σ → β) (sel : ω → Option β)
    (h : ∀ s o, get (step s o) = match sel o with | some b => b | none => get s)
    (ops : List ω) (s : σ) :
    get (ops.foldl step s) =
      match (ops.filterMap sel).getLast? with | some b => b | none => get s := by
  induction ops generalizing s with
  | nil => rfl
  | cons o rest ih =>
    rw [List.foldl_cons, ih, h, List.filterMap_cons]
    cases hs : sel o with
    | none => rfl
    | some b =>
      simp only [getLast?_cons_or]
      cases (List.filterMap sel rest).getLast? <;> rfl

/-- Same for an optional field that steps can only set. -/
theorem foldl_last_opt {σ ω β : Type} (step : σ → ω → σ) (get : σ → Option β) (sel : ω → Option β)
    (h : ∀ s o, get (step s o) = match sel o with | some b => some b | none => get s)
    (ops : List ω) (s : σ) :
    get (ops.foldl step s) = ((ops.filterMap sel).getLast?).or (get s) := by
  induction ops generalizing s with
  | nil => simp
  | cons o rest ih =>
    rw [List.foldl_cons, ih, h, List.filterMap_cons]
    cases hs : sel o with
    | none => rfl
    | some b =>
      simp only [getLast?_cons_or]
      cases (List.filterMap sel rest).getLast? <;> rfl

/-- A flag that steps can only raise ends up raised iff some step raised it. -/
theorem foldl_flag {σ ω : Type} (step : σ → ω → σ) (get : σ → Bool) (sel : ω → Bool)
    (h : ∀ s o, get (step s o) = (get s || sel o)) (ops : List ω) (s : σ) :
    get (ops.foldl step s) = (get s || ops.any sel) := by
  induction ops generalizing s with
  | nil => simp
  | cons o rest ih => rw [List.foldl_cons, ih, h, List.any_cons, Bool.or_assoc]

/-! ### client builder -/

theorem build_native (ops : List (ClientOp Root Chain)) :
    (ClientTlsConfig.build ops).withNativeRoots = asksNative ops := by
  unfold ClientTlsConfig.build asksNative
  rw [foldl_flag ClientOp.apply (·.withNativeRoots) asksNativeOp (by intro s o; cases o <;> simp [ClientOp.apply, asksNativeOp])]
  simp

theorem build_domain (ops : List (ClientOp Root Chain)) :
    (ClientTlsConfig.build ops).domain = configuredDomain ops := by
  unfold ClientTlsConfig.build configuredDomain
  rw [foldl_last_opt ClientOp.apply (·.domain) domainOfOp]
  · simp
  · intro s o; cases o <;> rfl

theorem build_assume (ops : List (ClientOp Root Chain)) :
    (ClientTlsConfig.build ops).assumeHttp2 = assumes ops := by
  unfold ClientTlsConfig.build assumes
  rw [foldl_last ClientOp.apply (·.assumeHttp2) assumeOfOp (by intro s o; cases o <;> rfl)]
  cases (List.filterMap assumeOfOp ops).getLast? <;> rfl

theorem build_identity (ops : List (ClientOp Root Chain)) :
    (ClientTlsConfig.build ops).identity = configuredIdentity ops := by
  unfold ClientTlsConfig.build configuredIdentity
  rw [foldl_last_opt ClientOp.apply (·.identity) identityOfOp]
  · simp
  · intro s o; cases o <;> rfl

/-- The set of roots a configuration stands for (before PEM parse errors are considered). -/
def cfgRoots (sys : Sys Root) (c : ClientTlsConfig Root Chain) (r : Root) : Prop :=
  r ∈ c.trustAnchors ∨ r ∈ c.certs.flatMap pemRoots ∨
  (sys.featNative = true ∧ c.withNativeRoots = true ∧ r ∈ sys.nativeCerts) ∨
  (sys.featWebpki = true ∧ c.withWebpkiRoots = true ∧ r ∈ sys.webpkiRoots)

theorem cfgRoots_apply (sys : Sys Root) (c : ClientTlsConfig Root Chain) (op : ClientOp Root Chain) (r : Root) :
    cfgRoots sys (op.apply c) r ↔ cfgRoots sys c r ∨ r ∈ rootsOfOp sys op := by
  cases op <;> simp [cfgRoots, ClientOp.apply, rootsOfOp, pemRoots, List.flatMap_append] <;>
    (try cases sys.featNative) <;> (try cases sys.featWebpki) <;> simp <;> grind

theorem cfgRoots_foldl (sys : Sys Root) (ops : List (ClientOp Root Chain)) (c : ClientTlsConfig Root Chain) (r : Root) :
    cfgRoots sys (ops.foldl ClientOp.apply c) r ↔ cfgRoots sys c r ∨ r ∈ configuredRoots sys ops := by
  induction ops generalizing c with
  | nil => simp [configuredRoots]
  | cons o rest ih =>
    rw [List.foldl_cons, ih, cfgRoots_apply]
    simp only [configuredRoots, List.flatMap_cons, List.mem_append]
    grind

theorem cfgRoots_build (sys : Sys Root) (ops : List (ClientOp Root Chain)) (r : Root) :
    cfgRoots sys (ClientTlsConfig.build ops) r ↔ r ∈ configuredRoots sys ops := by
  unfold ClientTlsConfig.build
  rw [cfgRoots_foldl]
  simp [cfgRoots]

theorem addCaCerts_mem (roots : List Root) (ps : List (Pem Root)) (out : List Root)
    (h : addCaCerts roots ps = .ok out) (r : Root) :
    r ∈ out ↔ r ∈ roots ∨ r ∈ ps.flatMap pemRoots := by
  induction ps generalizing roots with
  | nil => simp [addCaCerts] at h; subst h; simp
  | cons p rest ih =>
    cases p with
    | none => simp [addCaCerts] at h
    | some rs =>
      simp only [addCaCerts] at h
      rw [ih _ h]
      simp [pemRoots, List.flatMap_cons]
      grind

set_option linter.unusedSimpArgs false in
/-- What a successfully built connector contains. -/
theorem connector_new_ok (sys : Sys Root) (cfg : ClientTlsConfig Root Chain) (d : String)
    (t : TlsConnector Root Chain) (h : TlsConnector.new sys cfg d = .ok t) :
    (∀ r, r ∈ t.roots ↔ cfgRoots sys cfg r) ∧ t.domain = d ∧ t.assumeHttp2 = cfg.assumeHttp2 ∧
    loadOptIdentity cfg.identity = .ok t.identity ∧ sys.validServerName d = true := by
  unfold TlsConnector.new at h
  cases hn : nativeStep sys cfg with
  | error e => simp [hn] at h
  | ok roots1 =>
    simp only [hn] at h
    cases hc : addCaCerts (webpkiStep sys cfg roots1) cfg.certs with
    | error e => simp [hc] at h
    | ok roots3 =>
      simp only [hc] at h
      cases hi : loadOptIdentity cfg.identity with
      | error e => simp [hi] at h
      | ok ident =>
        simp only [hi] at h
        by_cases hv : sys.validServerName d = true
        · simp only [hv, if_true] at h
          cases h
          refine ⟨?_, rfl, rfl, rfl, hv⟩
          intro r
          rw [addCaCerts_mem _ _ _ hc]
          simp only [cfgRoots, webpkiStep]
          unfold nativeStep at hn
          cases hfn : sys.featNative <;> cases hwn : cfg.withNativeRoots <;>
            cases hfw : sys.featWebpki <;> cases hww : cfg.withWebpkiRoots <;>
            simp [hfn, hwn, hfw, hww] at hn ⊢ <;>
            (try (split at hn <;> cases hn)) <;> (try cases hn) <;> (try subst hn) <;> (try simp) <;> grind
        · simp [hv] at h

/-! ### server builder -/

theorem sbuild_ca (ops : List (ServerOp Root Chain)) :
    (ServerTlsConfig.build ops).clientCaRoot = clientCa ops := by
  unfold ServerTlsConfig.build clientCa
  rw [foldl_last_opt ServerOp.apply (·.clientCaRoot) caOfOp]
  · simp
  · intro s o; cases o <;> rfl

theorem sbuild_optional (ops : List (ServerOp Root Chain)) :
    (ServerTlsConfig.build ops).clientAuthOptional = authOptional ops := by
  unfold ServerTlsConfig.build authOptional
  rw [foldl_last ServerOp.apply (·.clientAuthOptional) optionalOfOp (by intro s o; cases o <;> rfl)]
  cases (List.filterMap optionalOfOp ops).getLast? <;> rfl

/-- What a successfully built acceptor contains. -/
theorem acceptor_ok (cfg : ServerTlsConfig Root Chain) (s : ServerHello Root Chain)
    (h : cfg.tlsAcceptor = .ok s) :
    s.alpn = [alpnH2] ∧ clientAuthMode cfg.clientCaRoot cfg.clientAuthOptional = .ok s.clientAuth ∧
    ∃ i, cfg.identity = some i ∧ i.load = .ok s.chain := by
  unfold ServerTlsConfig.tlsAcceptor at h
  cases hi : cfg.identity with
  | none => simp [hi] at h
  | some i =>
    simp only [hi] at h
    cases hm : clientAuthMode cfg.clientCaRoot cfg.clientAuthOptional with
    | error e => simp [hm] at h
    | ok mode =>
      simp only [hm] at h
      cases hl : i.load with
      | error e => simp [hl] at h
      | ok ch =>
        simp only [hl] at h
        cases h
        exact ⟨rfl, rfl, i, rfl, hl⟩

end Tls
